import EaselModel.Msafile.Basic
import EaselModel.Msafile.Afa
/-! # Stockholm / Pfam: `esl_msafile_stockholm.c`  (`esl_msafile_stockholm_SetInmap`, `esl_msafile_stockholm_Read`)

The reader is the C function rewritten as a state machine over the lines `esl_msafile_GetLine` delivers.  The state
`StoSt` is the pair (`ESL_MSA *msa`, `ESL_STOCKHOLM_PARSEDATA *pd`) between two `esl_msafile_GetLine` calls; every C array
is a list that carries its allocation (`sqalloc`, `salloc`, `balloc`, `ngc`, `ngr`, `alloc_ncomment`, `alloc_ngf`), every
data-dependent access goes through `getE` / `setE` whose failure is the outcome `.fault`, a NULL dereference likewise.
`ESL_EXCEPTION` is the outcome `.exc`.  The line parsers (`stockholm_parse_gf/gs/gc/gr/sq/comment`), the index helpers
(`stockholm_get_seqidx/gc_tagidx/gr_tagidx`) and the `esl_msa.c` helpers they call (`esl_msa_Expand`, `SetName`, `AddGF`,
`AddGS`, `SetSeqAccession`, …) are transcribed statement by statement, error branches included.

Abstractions (each justified where it is made): a keyhash is "first index whose key equals the token" (`List.findIdx?`);
`msa->sqname[i]` beyond the stored names is NULL; the five consensus fields `ss_cons sa_cons pp_cons rf mm` with their
lengths are a 5-array indexed by line type, `ss sa pp` with `sslen salen pplen` a 3-array; numeric payloads of weights
and cutoffs are not modelled (`Wgt.val 0`, `some 0`) EXCEPT the one bit that decides control flow: whether
`strtod(token) == -1.0`, the reader's "weight not set" marker. -/
namespace EaselModel.Msafile

/-- `esl_msafile_stockholm_SetInmap`: no character may be ignored -/
def stockholmInmap (abc : Option Abc) : InMap :=
  match abc with
  | some a => ⟨a.inmap.setIfInBounds 0 a.unknown⟩
  | none =>
    ⟨Array.ofFn (n := 128) fun i =>
        let c := UInt8.ofNat i.val
        if i.val == 0 then (63 : UInt8) else if isGraph c then c else dsqILLEGAL⟩

def stockholmCfg (abc : Option Abc) : Cfg := ⟨abc, stockholmInmap abc⟩

/-! ## constants (as explicit bytes, so that the kernel can evaluate the reader on concrete inputs) -/
def bHash : Bytes := [35]                                             -- "#"
def bSto : Bytes := [35,32,83,84,79,67,75,72,79,76,77]                -- "# STOCKHOLM"
def bSto1 : Bytes := [35,32,83,84,79,67,75,72,79,76,77,32,49,46]      -- "# STOCKHOLM 1."
def bSto10 : Bytes := [35,32,83,84,79,67,75,72,79,76,77,32,49,46,48]  -- "# STOCKHOLM 1.0"
def bSlash : Bytes := [47,47]                                         -- "//"
def bGF : Bytes := [35,61,71,70]
def bGS : Bytes := [35,61,71,83]
def bGC : Bytes := [35,61,71,67]
def bGR : Bytes := [35,61,71,82]
def bID : Bytes := [73,68]
def bAC : Bytes := [65,67]
def bDE : Bytes := [68,69]
def bAU : Bytes := [65,85]
def bGA : Bytes := [71,65]
def bNC : Bytes := [78,67]
def bTC : Bytes := [84,67]
def bWT : Bytes := [87,84]
def bUndefined : Bytes := [117,110,100,101,102,105,110,101,100]
def bSScons : Bytes := [83,83,95,99,111,110,115]
def bSAcons : Bytes := [83,65,95,99,111,110,115]
def bPPcons : Bytes := [80,80,95,99,111,110,115]
def bRF : Bytes := [82,70]
def bMM : Bytes := [77,77]
def bSS : Bytes := [83,83]
def bSA : Bytes := [83,65]
def bPP : Bytes := [80,80]

/-! line types of a block (`eslSTOCKHOLM_LINE_*`) -/
def ltSQ : Nat := 1
def ltGCSSCONS : Nat := 2
def ltGCSACONS : Nat := 3
def ltGCPPCONS : Nat := 4
def ltGCRF : Nat := 5
def ltGCOTHER : Nat := 6
def ltGRSS : Nat := 7
def ltGRSA : Nat := 8
def ltGRPP : Nat := 9
def ltGROTHER : Nat := 10
def ltGCMM : Nat := 11

/-- the line type a `#=GC <tag>` line has -/
def gcLineType (tag : Bytes) : Nat :=
  if memstrcmp tag bSScons then ltGCSSCONS
  else if memstrcmp tag bSAcons then ltGCSACONS
  else if memstrcmp tag bPPcons then ltGCPPCONS
  else if memstrcmp tag bRF then ltGCRF
  else if memstrcmp tag bMM then ltGCMM
  else ltGCOTHER

/-- the line type a `#=GR <seq> <tag>` line has -/
def grLineType (tag : Bytes) : Nat :=
  if memstrcmp tag bSS then ltGRSS
  else if memstrcmp tag bSA then ltGRSA
  else if memstrcmp tag bPP then ltGRPP
  else ltGROTHER

/-- slot of the consensus 5-array a parsed #=GC line type appends to: `ss_cons sa_cons pp_cons rf mm` -/
def consIdx (lt : Nat) : Option Nat :=
  if lt == ltGCSSCONS then some 0 else if lt == ltGCSACONS then some 1 else if lt == ltGCPPCONS then some 2
  else if lt == ltGCRF then some 3 else if lt == ltGCMM then some 4 else none

/-- slot of the per-residue 3-array a parsed #=GR line type appends to: `ss sa pp` -/
def perIdx (lt : Nat) : Option Nat :=
  if lt == ltGRSS then some 0 else if lt == ltGRSA then some 1 else if lt == ltGRPP then some 2 else none

/-! ## `esl_mem_IsReal` and the one observable bit of `strtod` -/

/-- the main loop of `esl_mem_IsReal`: `none` = `return FALSE` from inside the loop; `some (rest, gotreal)` = the loop was
    left (at a space, or at the end).  Any byte that is not a digit, '.', 'e', 'E' or a space is skipped (sic: trailing garbage
    after a number stays tolerated, Pfam writes "#=GF GA 25.00 25.00;"). -/
def isRealBody : Bytes → Bool → Bool → Nat → Option (Bytes × Nat)
  | [], _, _, r => some ([], r)
  | c :: rest, gotdec, gotexp, r =>
    if isDigit c then isRealBody rest gotdec gotexp (r + 1)
    else if c == 46 then (if gotdec then none else if gotexp then none else isRealBody rest true gotexp r)
    else if c == 101 || c == 69 then (if gotexp then none else isRealBody rest gotdec true r)
    else if isSpace c then some (c :: rest, r)
    else isRealBody rest gotdec gotexp r

/-- `esl_mem_IsReal(p, n)` as it was before fix 8112354: everything but the "number must START here" test -/
def memIsReal0 (p : Bytes) : Bool :=
  if p.isEmpty then false
  else
    let p1 := p.dropWhile isSpace
    let p2 := match p1 with
      | c :: r => if c == 45 || c == 43 then r else p1
      | [] => p1
    match isRealBody p2 false false 0 with
    | none => false
    | some (rest, r) => (rest.dropWhile isSpace).isEmpty && r > 0

/-- the test fix 8112354 added after the blanks and one sign: `if (! n || ! (isdigit(*p) || (*p == '.' && n > 1 &&
    isdigit(p[1])))) return FALSE;` — "abc1", "--1", "e5", "x.5" are no reals (`atof` converts nothing there) -/
def realStartOk (p : Bytes) : Bool :=
  let p1 := p.dropWhile isSpace
  let p2 := match p1 with
    | c :: r => if c == 45 || c == 43 then r else p1
    | [] => p1
  match p2 with
  | c :: r => isDigit c || (c == 46 && (match r with | d :: _ => isDigit d | [] => false))
  | [] => false

/-- `esl_mem_IsReal(p, n)`: the start test returns FALSE early, otherwise the scan is the old one -/
def memIsReal (p : Bytes) : Bool := realStartOk p && memIsReal0 p

def digitsVal (ds : Bytes) : Nat := ds.foldl (fun a c => a * 10 + (c.toNat - 48)) 0

def isHexDigit (c : UInt8) : Bool := isDigit c || (97 ≤ c && c ≤ 102) || (65 ≤ c && c ≤ 70)
def hexVal1 (c : UInt8) : Nat := if isDigit c then c.toNat - 48 else if 97 ≤ c then c.toNat - 87 else c.toNat - 55
def hexDigitsVal (ds : Bytes) : Nat := ds.foldl (fun a c => a * 16 + hexVal1 c) 0

/-- optional exponent `[eE][+-]?digits` (resp. `[pP]…`): the exponent value, 0 when the exponent part is malformed
    (`strtod` then does not consume it) -/
def parseExp (p : Bytes) (lo up : UInt8) : Int :=
  match p with
  | c :: r =>
    if c == lo || c == up then
      let (neg, r1) := match r with
        | s :: r' => if s == 45 then (true, r') else if s == 43 then (false, r') else (false, r)
        | [] => (false, r)
      let ds := r1.takeWhile isDigit
      if ds.isEmpty then 0 else (if neg then - (Int.ofNat (digitsVal ds)) else Int.ofNat (digitsVal ds))
    else 0
  | [] => 0

/-- does `m * b^e` (b = 10 or 2, m > 0) round to 1.0 in binary64 (round to nearest, ties to even)?
    i.e. `1 - 2^-54 ≤ m * b^e ≤ 1 + 2^-53`.  `size` = number of base-`b` digits of `m`; the quick test on
    `size + e` keeps the powers small whatever the exponent field says. -/
def roundsToOne (m : Nat) (b : Nat) (e : Int) (size : Nat) : Bool :=
  if m == 0 then false
  else if e ≥ 0 then m == 1 && e == 0
  else
    let k := (-e).toNat
    if size + 1 < k || k + 1 < size then false
    else
      let d := b ^ k
      decide ((2 ^ 54 - 1) * d ≤ 2 ^ 54 * m) && decide (2 ^ 53 * m ≤ (2 ^ 53 + 1) * d)

/-- `strtod(tok, NULL) == -1.0` for the NUL-free token `tok` (glibc: correctly rounded; decimal and hexadecimal syntax) -/
def strtodIsMinusOne (tok : Bytes) : Bool :=
  match tok.dropWhile isSpace with
  | 45 :: p =>
    let isHex := match p with
      | 48 :: x :: r => (x == 120 || x == 88) &&
          (match r with
           | h :: r' => isHexDigit h || (h == 46 && (match r' with | h' :: _ => isHexDigit h' | [] => false))
           | [] => false)
      | _ => false
    if isHex then
      let p := p.drop 2
      let ip := p.takeWhile isHexDigit
      let p1 := p.dropWhile isHexDigit
      let (fp, p2) := match p1 with
        | 46 :: r => (r.takeWhile isHexDigit, r.dropWhile isHexDigit)
        | _ => ([], p1)
      let m := hexDigitsVal (ip ++ fp)
      let e := parseExp p2 112 80 - 4 * Int.ofNat fp.length
      roundsToOne m 2 e (Nat.log2 m + 1)
    else
      let ip := p.takeWhile isDigit
      let p1 := p.dropWhile isDigit
      let (fp, p2) := match p1 with
        | 46 :: r => (r.takeWhile isDigit, r.dropWhile isDigit)
        | _ => ([], p1)
      if ip.isEmpty && fp.isEmpty then false
      else
        let m := digitsVal (ip ++ fp)
        let e := parseExp p2 101 69 - Int.ofNat fp.length
        roundsToOne m 10 e (Nat.toDigits 10 m).length
  | _ => false

/-- what `esl_memtod(tok, toklen, &msa->wgt[seqidx])` leaves in the weight: the "unset" marker -1.0, or some other value -/
def wgtOfTok (tok : Bytes) : Wgt := if strtodIsMinusOne tok then Wgt.unset else Wgt.val 0

/-! ## the state -/

/-- (`ESL_MSA *msa`, `ESL_STOCKHOLM_PARSEDATA *pd`) between two `esl_msafile_GetLine` calls -/
structure StoSt where
  lead : Bool := true                                   -- still in the "skip leading blank/comment lines" loop
  /- ESL_MSA -/
  sqalloc : Nat := 16
  nseq : Nat := 0                                       -- msa->nseq == pd->nseq (kept in lockstep by the C code)
  names : List Bytes := []                              -- msa->sqname[0..], = the keys of msa->index in order; NULL beyond
  rows : List (Option Bytes) := List.replicate 16 none  -- msa->aseq / msa->ax  [0..sqalloc-1]
  wgt : List Wgt := List.replicate 16 Wgt.unset         -- msa->wgt [0..sqalloc-1]
  hasw : Bool := false                                  -- msa->flags & eslMSA_HASWGTS
  name : Option Bytes := none
  desc : Option Bytes := none
  acc : Option Bytes := none
  au : Option Bytes := none
  cons : List (Option Bytes) := List.replicate 5 none   -- ss_cons sa_cons pp_cons rf mm
  sqacc : OptRows := none                               -- NULL, or [0..sqalloc-1]
  sqdesc : OptRows := none
  per : List OptRows := List.replicate 3 none           -- ss sa pp: each NULL, or [0..sqalloc-1]
  cutset : List Bool := List.replicate 6 false          -- TC1 TC2 GA1 GA2 NC1 NC2
  comments : List Bytes := []
  commentAlloc : Nat := 0
  gf : List (Bytes × Bytes) := []
  gfAlloc : Nat := 0
  gsTags : List Bytes := []                             -- gs_tag[0..ngs-1] = keys of gs_idx
  gs : List (List (Option Bytes)) := []                 -- gs[0..ngs-1][0..sqalloc-1]
  gcTags : List Bytes := []                             -- gc_tag[0..ngc-1] = keys of gc_idx
  gc : List (Option Bytes) := []                        -- gc[0..ngc-1]
  grTags : List Bytes := []
  gr : List (List (Option Bytes)) := []                 -- gr[0..ngr-1][0..sqalloc-1]
  /- ESL_STOCKHOLM_PARSEDATA -/
  alen : Nat := 0
  inBlock : Bool := false
  blt : List (Option Nat) := List.replicate 16 none     -- blinetype[0..balloc-1]; `none` = never written (malloc'ed memory)
  bidx : List (Option (Option Nat)) := List.replicate 16 none  -- bidx[0..balloc-1]; `some none` = -1
  npb : Nat := 0
  bi : Nat := 0
  si : Nat := 0
  balloc : Nat := 16
  nblock : Nat := 0
  nseqB : Nat := 0
  alenB : Nat := 0
  consLen : List Nat := List.replicate 5 0              -- ssconslen saconslen ppconslen rflen mmasklen
  sqlen : List Nat := List.replicate 16 0               -- [0..salloc-1]
  perLen : List (Option (List Nat)) := List.replicate 3 none   -- sslen salen pplen: NULL, or [0..salloc-1]
  ogcLen : List Nat := []                               -- [0..ngc-1]
  ogrLen : List (List Nat) := []                        -- [0..ngr-1][0..salloc-1]
  salloc : Nat := 16
deriving Repr

/-- the outcomes other than "go on": `throw (.eformat msg)`, `throw .fault`, `throw .exc` -/
abbrev E := Except (Res Msa)

/-- bounds-checked read -/
def getE {α : Type} (l : List α) (i : Nat) : E α :=
  match l[i]? with
  | some x => .ok x
  | none => .error .fault

/-- bounds-checked write -/
def setE {α : Type} (l : List α) (i : Nat) (v : α) : E (List α) :=
  if i < l.length then .ok (l.set i v) else .error .fault

/-- `while (n && strchr(" \t", p[n-1])) n--;`  (`strchr` also finds the terminating NUL: trailing NUL bytes go too) -/
def rtrim (p : Bytes) : Bytes := (p.reverse.dropWhile (inDelim blankTab)).reverse

/-- `esl_strcat(&dest, ldest, src, n)`, `n ≥ 0`: `memcpy(dest + ldest, src, n); dest[ldest+n] = 0`.  Appending anywhere
    but at the end of the string held in `dest` is a fault.  The result is read as a C string afterwards. -/
def strcatE (dest : Option Bytes) (ldest : Nat) (src : Bytes) : E (Option Bytes) :=
  if src.isEmpty then .ok dest
  else if (dest.getD []).length != ldest then .error .fault
  else .ok (some (cstr (dest.getD [] ++ src)))

/-- `msa->sqname[i]`: fault beyond the allocation, NULL (`none`) beyond the stored names -/
def sqnameAt (st : StoSt) (i : Nat) : E (Option Bytes) :=
  if i < st.sqalloc then .ok st.names[i]? else .error .fault

/-! ## `esl_msa_Expand`, `stockholm_parsedata_ExpandSeq`, `stockholm_parsedata_ExpandBlock` -/

/-- `esl_msa_Expand`: every per-sequence array doubles, the new half is NULL / -1.0 -/
def msaExpand (st : StoSt) : StoSt :=
  let old := st.sqalloc
  { st with rows := st.rows ++ List.replicate old none,
            wgt := st.wgt ++ List.replicate old Wgt.unset,
            per := st.per.map (Option.map (· ++ List.replicate old none)),
            sqacc := st.sqacc.map (· ++ List.replicate old none),
            sqdesc := st.sqdesc.map (· ++ List.replicate old none),
            gs := st.gs.map (· ++ List.replicate old none),
            gr := st.gr.map (· ++ List.replicate old none),
            sqalloc := 2 * old }

/-- `stockholm_parsedata_ExpandSeq`: the length arrays follow `msa->sqalloc`, entries `salloc ..` are zeroed -/
def pdExpandSeq (st : StoSt) : StoSt :=
  let k := st.sqalloc - st.salloc
  { st with sqlen := st.sqlen ++ List.replicate k 0,
            perLen := st.perLen.map (Option.map (· ++ List.replicate k 0)),
            ogrLen := st.ogrLen.map (· ++ List.replicate k 0),
            salloc := st.sqalloc }

/-- `stockholm_parsedata_ExpandBlock` (the new half is not initialised) -/
def pdExpandBlock (st : StoSt) : StoSt :=
  { st with blt := st.blt ++ List.replicate st.balloc none,
            bidx := st.bidx ++ List.replicate st.balloc none,
            balloc := st.balloc * 2 }

/-! ## index lookups -/

/-- `stockholm_get_seqidx`: `esl_keyhash_Store(msa->index, name)`; a new name gets the next index, the arrays grow when
    full, `esl_msa_SetSeqName` stores it (its `idx >= sqalloc` test raises an exception), `pd->nseq++; msa->nseq = pd->nseq`.
    Tokens hold no NUL byte (it is a delimiter of `esl_memtok`), so the stored C string is the token. -/
def getSeqIdx (st : StoSt) (name : Bytes) : E (StoSt × Nat) :=
  match st.names.findIdx? (· == name) with
  | some i => .ok (st, i)
  | none =>
    let idx := st.names.length
    let st1 := if idx ≥ st.sqalloc then pdExpandSeq (msaExpand st) else st
    if idx ≥ st1.sqalloc then .error .exc
    else .ok ({ st1 with names := st1.names ++ [name], nseq := st1.nseq + 1 }, idx)

/-- `stockholm_get_gc_tagidx`: a new tag grows `gc_tag`, `gc`, `ogc_len` by one entry (NULL, 0) -/
def getGcTagIdx (st : StoSt) (tag : Bytes) : StoSt × Nat :=
  match st.gcTags.findIdx? (· == tag) with
  | some t => (st, t)
  | none => ({ st with gcTags := st.gcTags ++ [tag], gc := st.gc ++ [none], ogcLen := st.ogcLen ++ [0] }, st.gcTags.length)

/-- `stockholm_get_gr_tagidx`: a new tag grows `gr_tag`, `gr`, `ogr_len` by one row of `sqalloc` entries (NULL, 0) -/
def getGrTagIdx (st : StoSt) (tag : Bytes) : StoSt × Nat :=
  match st.grTags.findIdx? (· == tag) with
  | some t => (st, t)
  | none => ({ st with grTags := st.grTags ++ [tag], gr := st.gr ++ [List.replicate st.sqalloc none],
                       ogrLen := st.ogrLen ++ [List.replicate st.sqalloc 0] }, st.grTags.length)

/-! ## `#=GF` -/

/-- `esl_msa_AddGF` -/
def addGF (st : StoSt) (tag value : Bytes) : E StoSt :=
  let alloc := if st.gf.length == st.gfAlloc then (if st.gfAlloc == 0 then 16 else st.gfAlloc * 2) else st.gfAlloc
  if st.gf.length ≥ alloc then .error .fault
  else .ok { st with gf := st.gf ++ [(cstr tag, cstr value)], gfAlloc := alloc }

/-- the two-threshold lines `#=GF GA|NC|TC <x> [<y>]`; `undefOk`: an NC1 of "undefined" is skipped (Rfam10 workaround) -/
def parseCutoffs (st : StoSt) (p : Bytes) (i1 i2 : Nat) (undefOk : Bool) : E StoSt :=
  match memtok p blankTab with
  | none => .error (.eformat "No threshold value found on #=GF GA/NC/TC line")
  | some (tok, p1) =>
    if !(undefOk && memstrcmp tok bUndefined) && !memIsReal tok then
      .error (.eformat "Expected a real number for first threshold on #=GF GA/NC/TC line")
    else
      let st1 := if undefOk && memstrcmp tok bUndefined then st else { st with cutset := st.cutset.set i1 true }
      match memtok p1 blankTab with
      | none => .ok st1
      | some (tok2, _) =>
        if !memIsReal tok2 then .error (.eformat "Expected a real number for second threshold on #=GF GA/NC/TC line")
        else .ok { st1 with cutset := st1.cutset.set i2 true }

/-- `stockholm_parse_gf` -/
def parseGf (st : StoSt) (p : Bytes) : E StoSt :=
  match memtok p blankTab with
  | none => .error .exc                                            -- "EOL can't happen here."
  | some (gf, p1) =>
    match memtok p1 blankTab with
    | none => .error (.eformat "#=GF line is missing <tag>, annotation")
    | some (tag, p2) =>
      if !memstrcmp gf bGF then .error (.eformat "faux #=GF line?")
      else if memstrcmp tag bID then
        match memtok p2 blankTab with
        | none => .error (.eformat "No name found on #=GF ID line")
        | some (tok, p3) =>
          if !p3.isEmpty then .error (.eformat "#=GF ID line should have only one name (no whitespace allowed)")
          else .ok { st with name := some (cstr tok) }
      else if memstrcmp tag bAC then
        match memtok p2 blankTab with
        | none => .error (.eformat "No accession found on #=GF AC line")
        | some (tok, p3) =>
          if !p3.isEmpty then .error (.eformat "#=GF AC line should have only one accession (no whitespace allowed)")
          else .ok { st with acc := some (cstr tok) }
      else if memstrcmp tag bDE then .ok { st with desc := some (cstr p2) }
      else if memstrcmp tag bAU then .ok { st with au := some (cstr p2) }
      else if memstrcmp tag bGA then parseCutoffs st p2 2 3 false
      else if memstrcmp tag bNC then parseCutoffs st p2 4 5 true
      else if memstrcmp tag bTC then parseCutoffs st p2 0 1 false
      else addGF st tag p2

/-! ## `#=GS` -/

/-- `esl_msa_SetSeqAccession` / `esl_msa_SetSeqDescription` with a non-NULL value: `idx >= sqalloc` raises an exception;
    the optional array is allocated (`sqalloc` NULLs) on first use -/
def setSeqOpt (a : OptRows) (sqalloc idx : Nat) (v : Bytes) : E OptRows :=
  if idx ≥ sqalloc then .error .exc
  else
    match setE (a.getD (List.replicate sqalloc none)) idx (some v) with
    | .ok l => .ok (some l)
    | .error r => .error r

/-- the tag lookup of `esl_msa_AddGS` (`esl_keyhash_Store(msa->gs_idx, tag)`): a new tag grows `gs_tag` and `gs` by one
    row of `sqalloc` NULLs -/
def getGsTagIdx (st : StoSt) (tag : Bytes) : StoSt × Nat :=
  match st.gsTags.findIdx? (· == tag) with
  | some t => (st, t)
  | none => ({ st with gsTags := st.gsTags ++ [cstr tag], gs := st.gs ++ [List.replicate st.sqalloc none] }, st.gsTags.length)

/-- `esl_msa_AddGS`: a second value for the same (tag, sequence) is appended after a newline -/
def addGS (st : StoSt) (tag : Bytes) (sqidx : Nat) (value : Bytes) : E StoSt :=
  match getE (getGsTagIdx st tag).1.gs (getGsTagIdx st tag).2 with
  | .error r => .error r
  | .ok row =>
    match getE row sqidx with
    | .error r => .error r
    | .ok old =>
      let new := match old with
        | none => cstr value
        | some o => cstr (o ++ [10] ++ value)
      match setE row sqidx (some new) with
      | .error r => .error r
      | .ok row' =>
        match setE (getGsTagIdx st tag).1.gs (getGsTagIdx st tag).2 row' with
        | .error r => .error r
        | .ok gs' => .ok { (getGsTagIdx st tag).1 with gs := gs' }

/-- `msa->sqacc && msa->sqacc[seqidx]` -/
def optIsSet (a : OptRows) (idx : Nat) : E Bool :=
  match a with
  | none => .ok false
  | some l =>
    match getE l idx with
    | .ok x => .ok x.isSome
    | .error r => .error r

/-- the sequence a `#=GS` line speaks about: the guess `pd->si`, else `stockholm_get_seqidx` (whose status is ignored) -/
def gsSeqIdx (st : StoSt) (seqname : Bytes) : E (StoSt × Nat) :=
  if st.si == st.nseq then getSeqIdx st seqname
  else
    match sqnameAt st st.si with
    | .error r => .error r
    | .ok nm => if nm != some seqname then getSeqIdx st seqname else .ok (st, st.si)

/-- the tag-specific part of `stockholm_parse_gs` -/
def gsApply (st : StoSt) (seqidx : Nat) (tag p : Bytes) : E StoSt :=
  if memstrcmp tag bWT then
    match memtok p blankTab with
    | none => .error (.eformat "no weight value found on #=GS <seqname> WT line")
    | some (tok, p1) =>
      match getE st.wgt seqidx with
      | .error r => .error r
      | .ok w =>
        if w != Wgt.unset then .error (.eformat "sequence has more than one #=GS <seqname> WT line")
        else if !p1.isEmpty then .error (.eformat "#=GS <seqname> WT line should have only one field, the weight")
        else if !memIsReal tok then .error (.eformat "value on #=GS <seqname> WT line isn't a real number")
        else
          match setE st.wgt seqidx (wgtOfTok tok) with
          | .error r => .error r
          | .ok wl => .ok { st with wgt := wl, hasw := true }
  else if memstrcmp tag bAC then
    match memtok p blankTab with
    | none => .error (.eformat "no accession found on #=GS <seqname> AC line")
    | some (tok, p1) =>
      match optIsSet st.sqacc seqidx with
      | .error r => .error r
      | .ok dup =>
        if dup then .error (.eformat "sequence has more than one #=GS <seqname> AC accession line")
        else if !p1.isEmpty then .error (.eformat "#=GS <seqname> AC line should have only one field, the accession")
        else
          match setSeqOpt st.sqacc st.sqalloc seqidx (cstr tok) with
          | .error r => .error r
          | .ok a => .ok { st with sqacc := a }
  else if memstrcmp tag bDE then
    match optIsSet st.sqdesc seqidx with
    | .error r => .error r
    | .ok dup =>
      if dup then .error (.eformat "sequence has more than one #=GS <seqname> DE accession line")
      else
        match setSeqOpt st.sqdesc st.sqalloc seqidx (cstr p) with
        | .error r => .error r
        | .ok a => .ok { st with sqdesc := a }
  else addGS st tag seqidx p

/-- `stockholm_parse_gs` -/
def parseGs (st : StoSt) (p : Bytes) : E StoSt :=
  match memtok p blankTab with
  | none => .error .exc
  | some (gs, p1) =>
    match memtok p1 blankTab with
    | none => .error (.eformat "#=GS line missing <seqname>, <tag>, annotation")
    | some (seqname, p2) =>
      match memtok p2 blankTab with
      | none => .error (.eformat "#=GS line missing <tag>, annotation")
      | some (tag, p3) =>
        if !memstrcmp gs bGS then .error (.eformat "faux #=GS line?")
        else
          match gsSeqIdx st seqname with
          | .error r => .error r
          | .ok (st1, seqidx) =>
            match gsApply st1 seqidx tag p3 with
            | .error r => .error r
            | .ok st2 => .ok { st2 with si := seqidx + 1 }

/-! ## block lines: `#=GC`, `#=GR`, sequences -/

/-- first block: `if (bi == balloc) ExpandBlock; blinetype[bi] = lt; bidx[bi] = bx` -/
def recordLine (st : StoSt) (lt : Nat) (bx : Option Nat) : E StoSt :=
  let st1 := if st.bi == st.balloc then pdExpandBlock st else st
  match setE st1.blt st1.bi (some lt) with
  | .error r => .error r
  | .ok blt' =>
    match setE st1.bidx st1.bi (some bx) with
    | .error r => .error r
    | .ok bidx' => .ok { st1 with blt := blt', bidx := bidx' }

/-- later blocks: `if (bi >= npb) fail; if (blinetype[bi] != lt) fail` (reading a never-written entry is a fault) -/
def expectLine (st : StoSt) (lt : Nat) : E Unit :=
  if st.bi ≥ st.npb then .error (.eformat "more lines than expected in this alignment block; earlier blocks had fewer")
  else
    match getE st.blt st.bi with
    | .error r => .error r
    | .ok none => .error .fault
    | .ok (some cur) =>
      if cur != lt then .error (.eformat "unexpected line; earlier block(s) in different order?") else .ok ()

/-- later blocks: `seqidx = bidx[bi]; if (! esl_memstrcmp(name, msa->sqname[seqidx])) fail` -/
def expectSeq (st : StoSt) (name : Bytes) : E Nat :=
  match getE st.bidx st.bi with
  | .error r => .error r
  | .ok none => .error .fault                 -- never written
  | .ok (some none) => .error .fault          -- sqname[-1]
  | .ok (some (some seqidx)) =>
    match sqnameAt st seqidx with
    | .error r => .error r
    | .ok nm => if nm != some name then .error (.eformat "unexpected seq name; expected another from prev blocks") else .ok seqidx

/-- the common tail of the three block-line parsers: the width check, `alen_b = n; in_block = TRUE; bi++` -/
def blockLineDone (st : StoSt) (n : Nat) : E StoSt :=
  if st.bi != 0 && n != st.alenB then .error (.eformat "unexpected number of aligned residues/annotation on line")
  else .ok { st with alenB := n, inBlock := true, bi := st.bi + 1 }

/-- line-order bookkeeping of a `#=GC` line -/
def gcLocate (st : StoSt) (lt : Nat) : E StoSt :=
  if st.nblock != 0 then
    match expectLine st lt with
    | .ok _ => .ok st
    | .error r => .error r
  else recordLine st lt none

/-- `stockholm_parse_gc` -/
def parseGc (st : StoSt) (p : Bytes) : E StoSt :=
  match memtok p blankTab with
  | none => .error .exc
  | some (gc, p1) =>
    match memtok p1 blankTab with
    | none => .error (.eformat "#=GC line missing <tag>, annotation")
    | some (tag, p2) =>
      let txt := rtrim p2
      if !memstrcmp gc bGC then .error (.eformat "faux #=GC line?")
      else if txt.isEmpty then .error (.eformat "#=GC line missing annotation?")
      else if txt.contains 0 then .error (.eformat "NUL byte in #=GC annotation")
      else
        let lt := gcLineType tag
        match gcLocate st lt with
        | .error r => .error r
        | .ok st1 =>
          -- here blinetype[bi] == lt in both cases
          match consIdx lt with
          | some k =>
            match getE st1.consLen k with
            | .error r => .error r
            | .ok len =>
              if len != st1.alen then .error (.eformat "more than one #=GC SS_cons/SA_cons/PP_cons/RF/MM line in block")
              else
                match getE st1.cons k with
                | .error r => .error r
                | .ok c =>
                  match strcatE c len txt with
                  | .error r => .error r
                  | .ok c' =>
                    blockLineDone { st1 with cons := st1.cons.set k c', consLen := st1.consLen.set k (len + txt.length) } txt.length
          | none =>
            let (st2, tagidx) := getGcTagIdx st1 tag
            match getE st2.ogcLen tagidx with
            | .error r => .error r
            | .ok len =>
              if len != st2.alen then .error (.eformat "more than one #=GC <tag> line in block")
              else
                match getE st2.gc tagidx with
                | .error r => .error r
                | .ok c =>
                  match strcatE c len txt with
                  | .error r => .error r
                  | .ok c' =>
                    blockLineDone { st2 with gc := st2.gc.set tagidx c', ogcLen := st2.ogcLen.set tagidx (len + txt.length) } txt.length

/-- `esl_memstrcmp(name, namelen, msa->sqname[i])` -/
def nameIs (st : StoSt) (i : Nat) (name : Bytes) : E Bool :=
  match sqnameAt st i with
  | .ok nm => .ok (nm == some name)
  | .error r => .error r

/-- first block of `stockholm_parse_gr`: the sequence is `si-1`, `si`, or looked up -/
def grSeqIdx (st : StoSt) (name : Bytes) : E (StoSt × Nat) :=
  match (if st.si ≥ 1 then nameIs st (st.si - 1) name else .ok false) with
  | .error r => .error r
  | .ok true => .ok (st, st.si - 1)
  | .ok false =>
    match (if st.si < st.nseq then nameIs st st.si name else .ok false) with
    | .error r => .error r
    | .ok true => .ok (st, st.si)
    | .ok false => getSeqIdx st name

/-- `msa->ss` / `pd->sslen` (slot `k` of the 3-arrays), after `if (! msa->ss) { allocate both, sqalloc entries, NULL / 0 }` -/
def perArrays (st : StoSt) (k : Nat) : E (List (Option Bytes) × List Nat) :=
  match getE st.per k with
  | .error r => .error r
  | .ok rowsO =>
    match getE st.perLen k with
    | .error r => .error r
    | .ok lensO =>
      match rowsO with
      | none => .ok (List.replicate st.sqalloc none, List.replicate st.sqalloc 0)
      | some rws =>
        match lensO with
        | some lns => .ok (rws, lns)
        | none => .error .fault                      -- pd->sslen[seqidx] with pd->sslen == NULL

/-- append to `ss/sa/pp[seqidx]` (slot `k` of the 3-array) -/
def grAppendPer (st : StoSt) (k seqidx : Nat) (txt : Bytes) : E StoSt :=
  match perArrays st k with
  | .error r => .error r
  | .ok (rws, lns) =>
    match getE lns seqidx with
    | .error r => .error r
    | .ok len =>
      if len != st.alen then .error (.eformat "more than one #=GR <seqname> SS/SA/PP line in block")
      else
        match getE rws seqidx with
        | .error r => .error r
        | .ok c =>
          match strcatE c len txt with
          | .error r => .error r
          | .ok c' =>
            .ok { st with per := st.per.set k (some (rws.set seqidx c')),
                          perLen := st.perLen.set k (some (lns.set seqidx (len + txt.length))) }

/-- append to `gr[tagidx][seqidx]` for an unparsed tag -/
def grAppendOther (st : StoSt) (tag : Bytes) (seqidx : Nat) (txt : Bytes) : E StoSt :=
  let (st2, tagidx) := getGrTagIdx st tag
  match getE st2.ogrLen tagidx with
  | .error r => .error r
  | .ok lrow =>
    match getE lrow seqidx with
    | .error r => .error r
    | .ok len =>
      if len != st2.alen then .error (.eformat "more than one #=GR <seqname> <tag> line in block")
      else
        match getE st2.gr tagidx with
        | .error r => .error r
        | .ok crow =>
          match getE crow seqidx with
          | .error r => .error r
          | .ok c =>
            match strcatE c len txt with
            | .error r => .error r
            | .ok c' =>
              .ok { st2 with gr := st2.gr.set tagidx (crow.set seqidx c'),
                             ogrLen := st2.ogrLen.set tagidx (lrow.set seqidx (len + txt.length)) }

/-- which sequence a `#=GR` line annotates, and the line-order bookkeeping: first block = look up and record;
    later blocks = the recorded line type and sequence must match -/
def grLocate (st : StoSt) (name : Bytes) (lt : Nat) : E (StoSt × Nat) :=
  if st.nblock == 0 then
    match grSeqIdx st name with
    | .error r => .error r
    | .ok (st1, seqidx) =>
      match recordLine st1 lt (some seqidx) with
      | .error r => .error r
      | .ok st2 => .ok (st2, seqidx)
  else
    match expectLine st lt with
    | .error r => .error r
    | .ok _ =>
      match expectSeq st name with
      | .error r => .error r
      | .ok seqidx => .ok (st, seqidx)

/-- "Append the annotation where it belongs" -/
def grAppend (st : StoSt) (lt : Nat) (tag : Bytes) (seqidx : Nat) (txt : Bytes) : E StoSt :=
  match perIdx lt with
  | some k => grAppendPer st k seqidx txt
  | none => grAppendOther st tag seqidx txt

/-- `stockholm_parse_gr` -/
def parseGr (st : StoSt) (p : Bytes) : E StoSt :=
  match memtok p blankTab with
  | none => .error .exc
  | some (gr, p1) =>
    match memtok p1 blankTab with
    | none => .error (.eformat "#=GR line missing <seqname>, <tag>, annotation")
    | some (name, p2) =>
      match memtok p2 blankTab with
      | none => .error (.eformat "#=GR line missing <tag>, annotation")
      | some (tag, p3) =>
        let txt := rtrim p3
        if !memstrcmp gr bGR then .error (.eformat "faux #=GR line?")
        else if txt.isEmpty then .error (.eformat "#=GR line missing annotation?")
        else if txt.contains 0 then .error (.eformat "NUL byte in #=GR annotation")
        else
          let lt := grLineType tag
          match grLocate st name lt with
          | .error r => .error r
          | .ok (st2, seqidx) =>
            match grAppend st2 lt tag seqidx txt with
            | .error r => .error r
            | .ok st3 => blockLineDone st3 txt.length

/-- first block of `stockholm_parse_sq`: the sequence is the guess `si`, or looked up (and created) -/
def sqSeqIdx (st : StoSt) (seqname : Bytes) : E (StoSt × Nat) :=
  match (if st.si < st.nseq then nameIs st st.si seqname else .ok false) with
  | .error r => .error r
  | .ok true => .ok (st, st.si)
  | .ok false => getSeqIdx st seqname

/-- which sequence a sequence line belongs to, and the line-order bookkeeping -/
def sqLocate (st : StoSt) (seqname : Bytes) : E (StoSt × Nat) :=
  if st.nblock == 0 then
    match sqSeqIdx st seqname with
    | .error r => .error r
    | .ok (st1, seqidx) =>
      match recordLine st1 ltSQ (some seqidx) with
      | .error r => .error r
      | .ok st2 => .ok (st2, seqidx)
  else
    match expectLine st ltSQ with
    | .error r => .error r
    | .ok _ =>
      match expectSeq st seqname with
      | .error r => .error r
      | .ok seqidx => .ok (st, seqidx)

/-- `stockholm_parse_sq` -/
def parseSq (cfg : Cfg) (st : StoSt) (p : Bytes) : E StoSt :=
  match memtok p blankTab with
  | none => .error (.eformat "sequence line has no name (line consists of NUL bytes and blanks?)")
  | some (seqname, p1) =>
    let txt := rtrim p1
    if txt.isEmpty then .error (.eformat "sequence line with no sequence?")
    else
      match sqLocate st seqname with
      | .error r => .error r
      | .ok (st2, seqidx) =>
        match getE st2.sqlen seqidx with
        | .error r => .error r
        | .ok sl =>
          if st2.bi > 0 && sl == st2.alen + st2.alenB then .error (.eformat "duplicate seq name")
          else
            match getE st2.rows seqidx with
            | .error r => .error r
            | .ok row =>
              -- the *cat helpers write at offset sqlen[seqidx]: anywhere but the end of the row is a fault
              if rowLen cfg.digital row != sl then .error .fault
              else
                let (cs, row') := if cfg.digital then dsqcat cfg.inmap row txt else strmapcat cfg.inmap row txt
                match cs with
                | .einval => .error (.eformat "invalid sequence character(s) on line")
                | .exc => .error .exc
                | .ok =>
                  let sl' := rowLen cfg.digital row'
                  if st2.bi != 0 && txt.length != st2.alenB then .error (.eformat "unexpected number of aligned residues parsed on line")
                  else if sl' != st2.alen + txt.length then .error .exc        -- "implementation assumes that no symbols are ignored in inmap"
                  else
                    match setE st2.rows seqidx row' with
                    | .error r => .error r
                    | .ok rows' =>
                      match setE st2.sqlen seqidx sl' with
                      | .error r => .error r
                      | .ok sqlen' =>
                        .ok { st2 with rows := rows', sqlen := sqlen', alenB := txt.length, inBlock := true,
                                       nseqB := st2.nseqB + 1, bi := st2.bi + 1, si := seqidx + 1 }

/-! ## comments -/

/-- `stockholm_parse_comment` + `esl_msa_AddComment` -/
def parseComment (st : StoSt) (p : Bytes) : E StoSt :=
  let p1 := match p with
    | c :: r => if c == 35 then r else p
    | [] => p
  let p2 := p1.dropWhile isSpace
  let alloc0 := if st.commentAlloc == 0 then 16 else st.commentAlloc        -- msa->comment == NULL  <=>  alloc_ncomment == 0
  let alloc := if st.comments.length == alloc0 then alloc0 * 2 else alloc0
  if st.comments.length ≥ alloc then .error .fault
  else .ok { st with comments := st.comments ++ [cstr p2], commentAlloc := alloc }

/-! ## end of block, end of record -/

/-- the end-of-block bookkeeping on a blank line or `//` -/
def endBlock (st : StoSt) : E StoSt :=
  if st.inBlock then
    if st.nblock != 0 && st.nseqB != st.nseq then
      .error (.eformat "number of seqs in block did not match number in earlier block(s)")
    else if st.nblock == 0 && st.nseqB < st.nseq then
      .error (.eformat "number of seqs in block did not match number annotated by #=GS lines")
    else if st.nblock != 0 && st.bi != st.npb then
      .error (.eformat "unexpected number of lines in alignment block")
    else
      .ok { st with nseq := st.nseqB, alen := st.alen + st.alenB, inBlock := false, npb := st.bi, bi := 0, si := 0,
                    nblock := st.nblock + 1, nseqB := 0, alenB := 0 }
  else .ok st

/-- the `ESL_MSA` handed to the caller -/
def stoMsa (cfg : Cfg) (st : StoSt) : Msa :=
  let n := st.nseq
  { digital := cfg.digital, kp := cfg.kp, alen := st.alen, names := st.names.take n,
    aseq := if cfg.digital then [] else (st.rows.take n).map (·.getD []),
    ax := if cfg.digital then (st.rows.take n).map (·.getD []) else [],
    hasw := st.hasw,
    wgt := if st.hasw then st.wgt.take n else List.replicate n Wgt.dflt,          -- esl_msa_SetDefaultWeights
    name := st.name, desc := st.desc, acc := st.acc, au := st.au,
    ssCons := st.cons.getD 0 none, saCons := st.cons.getD 1 none, ppCons := st.cons.getD 2 none,
    rf := st.cons.getD 3 none, mm := st.cons.getD 4 none,
    sqacc := st.sqacc.map (·.take n), sqdesc := st.sqdesc.map (·.take n),
    ss := (st.per.getD 0 none).map (·.take n), sa := (st.per.getD 1 none).map (·.take n), pp := (st.per.getD 2 none).map (·.take n),
    cutoff := if st.cutset.any id then st.cutset.map (fun b => if b then some 0 else none) else [],
    comments := st.comments, gf := st.gf,
    gs := st.gsTags.zip (st.gs.map (·.take n)),
    gc := st.gcTags.zip (st.gc.map (·.getD [])),
    gr := st.grTags.zip (st.gr.map (·.take n)) }

/-- after `//`: the final checks of `esl_msafile_stockholm_Read` -/
def stoFinal (cfg : Cfg) (st : StoSt) : Res Msa :=
  if st.nblock == 0 then .eformat "no alignment data followed Stockholm header"
  else if st.nseq == 0 then .eformat "no sequences in alignment: only #=GC annotation lines followed Stockholm header"
  else
    -- for (idx = 0; idx < msa->nseq; idx++) if (pd->sqlen[idx] != pd->alen) fail
    match (List.range st.nseq).find? (fun i => st.sqlen[i]? != some st.alen) with
    | some i => if i < st.sqlen.length then .eformat "sequence is annotated by #=GS but has no aligned data" else .fault
    | none =>
      if st.hasw then
        -- for (idx = 0; idx < msa->nseq; idx++) if (msa->wgt[idx] == -1.0) fail
        match (List.range st.nseq).find? (fun i => st.wgt[i]? == none || st.wgt[i]? == some Wgt.unset) with
        | some i => if i < st.wgt.length then .eformat "stockholm record ended without a weight for a sequence" else .fault
        | none => .ok (stoMsa cfg st)
      else .ok (stoMsa cfg st)

/-! ## the reader -/

def liftE (x : E StoSt) : Sum StoSt (Res Msa) :=
  match x with
  | .ok st => .inl st
  | .error r => .inr r

/-- one line of `esl_msafile_stockholm_Read` -/
def stoStep (cfg : Cfg) (st : StoSt) (line : Bytes) : Sum StoSt (Res Msa) :=
  if st.lead then
    -- do { GetLine } while (blank || (starts with "#" && ! starts with "# STOCKHOLM"))
    if isBlankLine line || (memstrpfx line bHash && !memstrpfx line bSto) then .inl st
    else if !memstrpfx line bSto1 then .inr (.eformat "missing Stockholm header")
    else .inl { st with lead := false }
  else
    let p := line.dropWhile (fun c => c == 32 || c == 9)
    if p.isEmpty || memstrpfx p bSlash then
      match endBlock st with
      | .error r => .inr r
      | .ok st1 => if memstrpfx p bSlash then .inr (stoFinal cfg st1) else .inl st1
    else if p.head? == some 35 then
      if memstrpfx p bGF then liftE (parseGf st p)
      else if memstrpfx p bGS then liftE (parseGs st p)
      else if memstrpfx p bGC then liftE (parseGc st p)
      else if memstrpfx p bGR then liftE (parseGr st p)
      else if memstrcmp p bSto10 then .inr (.eformat "two # STOCKHOLM 1.0 headers in a row?")
      else liftE (parseComment st p)
    else liftE (parseSq cfg st p)

/-- end of input: eslEOF while still looking for the header, else the terminator is missing -/
def stoFinish (st : StoSt) : Res Msa :=
  if st.lead then .eof else .eformat "missing // terminator after MSA"

/-- `esl_msafile_stockholm_Read` on the remaining lines: outcome and the lines left unread (Pfam is the same reader) -/
def stockholmRead (cfg : Cfg) (lines : List Bytes) : Res Msa × List Bytes :=
  runLines (stoStep cfg) stoFinish {} lines

end EaselModel.Msafile
