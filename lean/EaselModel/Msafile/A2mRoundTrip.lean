import EaselModel.Msafile.AfaRoundTrip
import EaselModel.Msafile.A2m
import EaselModel.Msafile.WriteA2m
/-! A2M: reading what `esl_msafile_a2m_Write` wrote gives the alignment back (C03), for alignments all of whose columns are
    consensus columns (so that the written rows hold upper-case residues and `-` only, and no insert column is rebuilt). -/
namespace EaselModel.Msafile

/-! ## the writer's row loop cuts the row into 60-column pieces -/

theorem chunks60_short (b : Bytes) (h : b.length ≤ 60) (hne : b ≠ []) : chunks60 b = [b] := by
  unfold chunks60
  have : b.isEmpty = false := by cases b with | nil => exact absurd rfl hne | cons _ _ => rfl
  simp [h, this]

theorem chunks60_nil : chunks60 [] = [] := by unfold chunks60; simp

theorem chunks60_long (b : Bytes) (h : 60 < b.length) : chunks60 b = b.take 60 :: chunks60 (b.drop 60) := by
  have : ¬ b.length ≤ 60 := by omega
  rw [chunks60]
  simp [this]

/-- when every column of the row is written, the lines of the row are its 60-column pieces -/
theorem a2mSeqLoop_chunks (abc : Option Abc) (m : Msa) (i : Nat) (wc : Nat → UInt8) :
    ∀ (ps : List Nat) (buf : Bytes), (∀ p ∈ ps, a2mChar abc m i p = some (wc p)) → buf.length ≤ 60 →
      a2mSeqLoop abc m i ps buf = chunks60 (buf.reverse ++ ps.map wc) := by
  intro ps
  induction ps with
  | nil =>
    intro buf _ hb
    unfold a2mSeqLoop
    by_cases he : buf = []
    · subst he; simp [chunks60_nil]
    · have h1 : buf.isEmpty = false := by cases buf with | nil => exact absurd rfl he | cons _ _ => rfl
      simp only [h1, Bool.false_eq_true, if_false, List.map_nil, List.append_nil]
      rw [chunks60_short _ (by simpa using hb) (by simpa using he)]
  | cons p ps ih =>
    intro buf hps hb
    have hp := hps p (by simp)
    have hps' : ∀ q ∈ ps, a2mChar abc m i q = some (wc q) := fun q hq => hps q (by simp [hq])
    unfold a2mSeqLoop
    simp only [hp, a2mCpl]
    by_cases hf : buf.length ≥ 60
    · have hlen : buf.length = 60 := by omega
      simp only [hf, if_true, List.singleton_append]
      rw [ih [wc p] hps' (by simp)]
      rw [chunks60_long (buf.reverse ++ List.map wc (p :: ps)) (by simp; omega)]
      have h1 : (buf.reverse ++ List.map wc (p :: ps)).take 60 = buf.reverse := by
        rw [List.take_append_of_le_length (by simp [hlen])]
        exact List.take_of_length_le (by simp [hlen])
      have h2 : (buf.reverse ++ List.map wc (p :: ps)).drop 60 = List.map wc (p :: ps) := by
        have : buf.reverse.length = 60 := by simp [hlen]
        rw [← this, List.drop_left]
      rw [h1, h2]
      simp
    · simp only [hf, if_false, List.nil_append]
      rw [ih (wc p :: buf) hps' (by simp only [List.length_cons]; omega)]
      simp

/-! ## the `csflag` loop over a written piece -/

theorem csWrite_rep (k alloc L : Nat) (h1 : L ≤ k) (h2 : L < alloc) :
    csWrite (List.replicate k true) alloc L true = some (List.replicate (max k (L + 1)) true) := by
  unfold csWrite
  have h3 : ¬ L ≥ alloc := by omega
  simp only [h3, if_false, List.length_replicate]
  by_cases hlt : L < k
  · have : max k (L + 1) = k := by omega
    simp only [hlt, if_true, List.set_replicate_self, this]
  · have he : L = k := by omega
    subst he
    have : max L (L + 1) = L + 1 := by omega
    simp only [Nat.lt_irrefl, if_false, beq_self_eq_true, if_true, this, List.replicate_succ']

/-- a character the writer prints in a consensus column: an upper-case letter other than `O`, or `-` -/
def consChar (t : UInt8) : Prop := (isUpper t = true ∨ t = 45) ∧ a2mSkip t = false

theorem a2mChar1_cons (alloc : Nat) (t : UInt8) (h : isUpper t = true ∨ t = 45) (s : LineSt) :
    a2mChar1 alloc t s =
      some ((csWrite s.fl alloc s.spos true).map fun fl => { s with fl := fl, spos := s.spos + 1, tc := s.tc + 1 }) := by
  unfold a2mChar1
  rcases h with h | h
  · simp only [h, if_true]
  · subst h
    have h1 : isUpper 45 = false := by decide
    have h2 : isLower 45 = false := by decide
    simp only [h1, h2, Bool.false_eq_true, if_false, beq_self_eq_true, if_true]

theorem a2mChars_cons (nseq ncons alloc : Nat) (tn : List Nat) :
    ∀ (p : Bytes) (L T k : Nat), (∀ t ∈ p, consChar t) → L ≤ k → L + p.length ≤ alloc →
      (nseq = 0 ∨ T + p.length ≤ ncons) →
      a2mChars nseq ncons alloc p { spos := L, tc := T, tn := tn, fl := List.replicate k true }
        = .inl { spos := L + p.length, tc := T + p.length, tn := tn, fl := List.replicate (max k (L + p.length)) true } := by
  intro p
  induction p with
  | nil =>
    intro L T k _ hk _ _
    have : max k L = k := by omega
    simp [a2mChars, this]
  | cons t p ih =>
    intro L T k hp hk ha hc
    have ht := hp t (by simp)
    have hp' : ∀ t' ∈ p, consChar t' := fun t' h' => hp t' (by simp [h'])
    simp only [List.length_cons] at ha hc
    unfold a2mChars
    simp only [ht.2, Bool.false_eq_true, if_false, a2mChar1_cons alloc t ht.1, csWrite_rep k alloc L hk (by omega), Option.map_some]
    have hcond : (nseq != 0 && decide (T + 1 > ncons)) = false := by
      rcases hc with h | h
      · simp [h]
      · have : ¬ (T + 1 > ncons) := by omega
        simp [this]
    simp only [hcond, Bool.false_eq_true, if_false]
    rw [ih (L + 1) (T + 1) (max k (L + 1)) hp' (by omega) (by omega) (by omega)]
    have e1 : L + 1 + p.length = L + (p.length + 1) := by omega
    have e2 : T + 1 + p.length = T + (p.length + 1) := by omega
    have e3 : max (max k (L + 1)) (L + (p.length + 1)) = max k (L + (p.length + 1)) := by omega
    simp only [List.length_cons, e1, e2, e3]

/-! ## one sequence line -/

def consPlainB : Bool :=
  (List.range 256).all fun n =>
    let t := UInt8.ofNat n
    !(isUpper t || t == 45) || (!isSpace t && t != 62)

theorem consPlainB_true : consPlainB = true := by decide +kernel

theorem consChar_plain (t : UInt8) (h : consChar t) : isSpace t = false ∧ t ≠ 62 := by
  have h1 := (List.all_eq_true.mp consPlainB_true) t.toNat (List.mem_range.mpr t.toNat_lt)
  simp only [UInt8.ofNat_toNat] at h1
  have h2 : (isUpper t || t == 45) = true := by
    rcases h.1 with hu | he
    · simp [hu]
    · simp [he]
  rw [h2] at h1
  simpa using h1

/-- a written piece of a row: not empty, consensus characters only, each mapped back to `enc t` by the input map -/
structure A2mPieceOk (cfg : Cfg) (enc : UInt8 → UInt8) (c : Bytes) : Prop where
  ne : c ≠ []
  cons : ∀ t ∈ c, consChar t
  maps : ∀ t ∈ c, mapByte cfg.inmap t = (.ok, some (enc t))

theorem A2mPieceOk.toPieceOk {cfg : Cfg} {enc : UInt8 → UInt8} {c : Bytes} (h : A2mPieceOk cfg enc c) : PieceOk cfg enc c :=
  { ne := h.ne, maps := h.maps,
    nospace := fun t ht => (consChar_plain t (h.cons t ht)).1,
    nogt := fun t ht => (consChar_plain t (h.cons t ht)).2 }

theorem rowLen_curCodes (d : Bool) (cur : Option Bytes) (hcur : cur = none ∨ ∃ codes, cur = some (mkRow d codes)) :
    rowLen d cur = (curCodes d cur).length := by
  rcases hcur with h | ⟨codes, h⟩
  · subst h; simp [rowLen]
  · subst h; rw [rowLen_mkRow, curCodes_mkRow]

theorem a2mSeqLine_piece (cfg : Cfg) (enc : UInt8 → UInt8) (st : A2mSt) (c : Bytes) (h : A2mPieceOk cfg enc c)
    (hcur : st.cur = none ∨ ∃ codes, st.cur = some (mkRow cfg.digital codes))
    (k : Nat) (hfl : st.fl = List.replicate k true)
    (hk1 : (curCodes cfg.digital st.cur).length ≤ k) (hk2 : k ≤ (curCodes cfg.digital st.cur).length + 1)
    (htn : st.nseq = 0 → st.tn = List.replicate (st.tc + 1) 0)
    (hcons : st.nseq ≠ 0 → st.tc + c.length ≤ st.ncons) :
    a2mSeqLine cfg st c = .inl { st with
        cur := some (mkRow cfg.digital (curCodes cfg.digital st.cur ++ c.map enc)),
        fl := List.replicate ((curCodes cfg.digital st.cur).length + c.length + 1) true,
        tc := st.tc + c.length,
        tn := if st.nseq == 0 then List.replicate (st.tc + c.length + 1) 0 else st.tn } := by
  have hlen := rowLen_curCodes cfg.digital st.cur hcur
  have hcat := cat_piece cfg enc st.cur c h.toPieceOk hcur
  generalize (curCodes cfg.digital st.cur).length = L at hlen hk1 hk2 ⊢
  have hn : 1 ≤ c.length := by
    cases c with
    | nil => exact absurd rfl h.ne
    | cons _ _ => simp
  have htake : st.fl.take (L + c.length + 1) = List.replicate k true := by
    rw [hfl, List.take_replicate]
    congr 1
    omega
  have hmax : max (max k (L + c.length)) (L + c.length + 1) = L + c.length + 1 := by omega
  unfold a2mSeqLine
  simp only [hlen, htake]
  by_cases h0 : st.nseq = 0
  · have htn' := htn h0
    have hT : (if st.tn.length < st.tc + 1 then none else some (st.tn.take (st.tc + 1) ++ List.replicate c.length 0))
        = some (List.replicate (st.tc + c.length + 1) 0) := by
      rw [htn']
      simp only [List.length_replicate, Nat.lt_irrefl, if_false, List.take_replicate, Nat.min_self,
        List.replicate_append_replicate]
      congr 2
      omega
    simp only [h0, beq_self_eq_true, if_true, hT]
    rw [a2mChars_cons 0 st.ncons _ _ c L st.tc k h.cons hk1 (by omega) (Or.inl rfl)]
    simp only []
    rw [csWrite_rep _ _ _ (by omega) (by omega)]
    simp only [hcat, hmax]
  · have hT : (st.nseq == 0) = false := by simpa using h0
    simp only [hT, Bool.false_eq_true, if_false]
    rw [a2mChars_cons st.nseq st.ncons _ _ c L st.tc k h.cons hk1 (by omega) (Or.inr (hcons h0))]
    simp only []
    rw [csWrite_rep _ _ _ (by omega) (by omega)]
    simp only [hcat, hmax]

/-! ## all the sequence lines of a record -/

/-- the reader inside a record of which the codes `codes` were read so far (all in consensus columns) -/
def rowSt (d : Bool) (st0 : A2mSt) (codes : Bytes) : A2mSt :=
  { st0 with cur := some (mkRow d codes), fl := List.replicate (codes.length + 1) true, tc := codes.length,
             tn := if st0.nseq == 0 then List.replicate (codes.length + 1) 0 else st0.tn }

theorem a2mStep_seq (cfg : Cfg) (st : A2mSt) (c : Bytes) (hl : st.lead = false) (hne : c ≠ [])
    (hc : ∀ t ∈ c, consChar t) : a2mStep cfg st c = a2mSeqLine cfg st c := by
  cases c with
  | nil => exact absurd rfl hne
  | cons t ts =>
    have hp := consChar_plain t (hc t (by simp))
    have hgt : (t == 62) = false := by simpa using hp.2
    have hdw : (t :: ts).dropWhile isSpace = t :: ts := by simp [List.dropWhile, hp.1]
    unfold a2mStep
    simp only [hl, Bool.false_eq_true, if_false, hdw, hgt]

theorem a2mStep_piece_first (cfg : Cfg) (enc : UInt8 → UInt8) (st0 : A2mSt) (c : Bytes) (h : A2mPieceOk cfg enc c)
    (hl : st0.lead = false) (hcur : st0.cur = none) (hfl : st0.fl = []) (htc : st0.tc = 0)
    (htn : st0.nseq = 0 → st0.tn = [0]) (hcons : st0.nseq ≠ 0 → c.length ≤ st0.ncons) :
    a2mStep cfg st0 c = .inl (rowSt cfg.digital st0 (c.map enc)) := by
  rw [a2mStep_seq cfg st0 c hl h.ne h.cons]
  rw [a2mSeqLine_piece cfg enc st0 c h (Or.inl hcur) 0 (by rw [hfl]; rfl) (by rw [hcur]; simp) (by omega)
    (fun h0 => by rw [htn h0, htc]; rfl) (fun h0 => by rw [htc]; have := hcons h0; omega)]
  simp only [rowSt, hcur, curCodes_none, htc, List.nil_append, List.length_nil, List.length_map, Nat.zero_add]

theorem a2mStep_piece_next (cfg : Cfg) (enc : UInt8 → UInt8) (st0 : A2mSt) (codes c : Bytes) (h : A2mPieceOk cfg enc c)
    (hl : st0.lead = false) (hcons : st0.nseq ≠ 0 → codes.length + c.length ≤ st0.ncons) :
    a2mStep cfg (rowSt cfg.digital st0 codes) c = .inl (rowSt cfg.digital st0 (codes ++ c.map enc)) := by
  rw [a2mStep_seq cfg (rowSt cfg.digital st0 codes) c (show (rowSt cfg.digital st0 codes).lead = false from hl) h.ne h.cons]
  rw [a2mSeqLine_piece cfg enc (rowSt cfg.digital st0 codes) c h (Or.inr ⟨codes, rfl⟩) (codes.length + 1) rfl
    (by simp [rowSt]) (by simp [rowSt])
    (fun h0 => by
      have h0' : st0.nseq = 0 := h0
      simp [rowSt, h0'])
    (fun h0 => hcons h0)]
  by_cases h0 : st0.nseq = 0
  · simp [rowSt, h0, Nat.add_assoc]
  · simp [rowSt, h0, Nat.add_assoc]

theorem a2mSteps_pieces (cfg : Cfg) (enc : UInt8 → UInt8) (st0 : A2mSt) (hl : st0.lead = false) :
    ∀ (cs : List Bytes) (codes : Bytes), (∀ c ∈ cs, A2mPieceOk cfg enc c) →
      (st0.nseq ≠ 0 → codes.length + cs.flatten.length ≤ st0.ncons) →
      stepsFrom (a2mStep cfg) (rowSt cfg.digital st0 codes) cs
        = .inl (rowSt cfg.digital st0 (codes ++ cs.flatten.map enc)) := by
  intro cs
  induction cs with
  | nil => intro codes _ _; simp [stepsFrom]
  | cons c cs ih =>
    intro codes hcs hcons
    simp only [stepsFrom]
    rw [a2mStep_piece_next cfg enc st0 codes c (hcs c (by simp)) hl
      (fun h0 => by have := hcons h0; simp only [List.flatten_cons, List.length_append] at this; omega)]
    simp only
    rw [ih (codes ++ c.map enc) (fun c' hc' => hcs c' (by simp [hc']))
      (fun h0 => by
        have := hcons h0
        simp only [List.flatten_cons, List.length_append, List.length_map] at this ⊢
        omega)]
    simp [List.append_assoc]

/-- from the state the header line leaves, over all the pieces of the row -/
theorem a2mSteps_row (cfg : Cfg) (enc : UInt8 → UInt8) (st0 : A2mSt) (cs : List Bytes) (hne : cs ≠ [])
    (hcs : ∀ c ∈ cs, A2mPieceOk cfg enc c)
    (hl : st0.lead = false) (hcur : st0.cur = none) (hfl : st0.fl = []) (htc : st0.tc = 0)
    (htn : st0.nseq = 0 → st0.tn = [0]) (hcons : st0.nseq ≠ 0 → cs.flatten.length ≤ st0.ncons) :
    stepsFrom (a2mStep cfg) st0 cs = .inl (rowSt cfg.digital st0 (cs.flatten.map enc)) := by
  cases cs with
  | nil => exact absurd rfl hne
  | cons c cs =>
    simp only [stepsFrom]
    rw [a2mStep_piece_first cfg enc st0 c (hcs c (by simp)) hl hcur hfl htc htn
      (fun h0 => by have := hcons h0; simp only [List.flatten_cons, List.length_append] at this; omega)]
    simp only
    rw [a2mSteps_pieces cfg enc st0 hl cs (c.map enc) (fun c' hc' => hcs c' (by simp [hc']))
      (fun h0 => by
        have := hcons h0
        simp only [List.flatten_cons, List.length_append, List.length_map] at this ⊢
        omega)]
    simp

/-! ## the padding phase when no record has an insertion -/

theorem padRf_step (size m : Nat) (ms : List Nat) (acc : Bytes) :
    padRf size (0 :: m :: ms) acc = if acc.length < size then padRf size (m :: ms) (120 :: acc) else none := by
  rw [padRf]
  simp only [padFill]

theorem padRow_step (size : Nat) (gap : UInt8) (m : Nat) (ms : List Nat) (fl : List Bool) (x : UInt8) (old acc : Bytes) :
    padRow size gap (0 :: m :: ms) (true :: fl) (x :: old) acc
      = if acc.length < size then padRow size gap (m :: ms) fl old (x :: acc) else none := by
  rw [padRow]
  simp only [padCopy, Nat.sub_self, padFill, List.drop_succ_cons, List.drop_zero]

theorem padRf_zero (size : Nat) : ∀ (n : Nat) (acc : Bytes), acc.length + n ≤ size →
    padRf size (List.replicate (n + 1) 0) acc = some (List.replicate n 120 ++ acc) := by
  intro n
  induction n with
  | zero => intro acc _; simp [padRf, padFill]
  | succ n ih =>
    intro acc h
    have e : List.replicate (n + 1 + 1) (0 : Nat) = 0 :: 0 :: List.replicate n 0 := by simp [List.replicate_succ]
    have hlt : acc.length < size := by omega
    rw [e, padRf_step]
    simp only [hlt, if_true]
    rw [← List.replicate_succ, ih (120 :: acc) (by simp only [List.length_cons]; omega), List.replicate_succ']
    simp

theorem padRow_zero (size : Nat) (gap : UInt8) (tail : Bytes) : ∀ (codes acc : Bytes), acc.length + codes.length ≤ size →
    padRow size gap (List.replicate (codes.length + 1) 0) (List.replicate (codes.length + 1) true) (codes ++ tail) acc
      = some (codes.reverse ++ acc) := by
  intro codes
  induction codes with
  | nil => intro acc _; simp [padRow, padCopy, padFill]
  | cons x cs ih =>
    intro acc h
    simp only [List.length_cons] at h
    have e1 : List.replicate ((x :: cs).length + 1) (0 : Nat) = 0 :: 0 :: List.replicate cs.length 0 := by
      simp [List.replicate_succ]
    have e2 : List.replicate ((x :: cs).length + 1) true = true :: List.replicate (cs.length + 1) true := by
      simp [List.replicate_succ]
    have hlt : acc.length < size := by omega
    rw [e1, e2, List.cons_append, padRow_step]
    simp only [hlt, if_true]
    rw [← List.replicate_succ, ih (x :: acc) (by simp only [List.length_cons]; omega)]
    simp

theorem padOne_zero (cfg : Cfg) (codes : Bytes) :
    padOne cfg (List.replicate (codes.length + 1) 0) codes.length
      (mkRow cfg.digital codes, List.replicate (codes.length + 1) true) = some (mkRow cfg.digital codes) := by
  unfold padOne
  cases hd : cfg.digital with
  | true =>
    simp only [mkRow, if_true, List.cons_append, List.drop_succ_cons, List.drop_zero]
    rw [padRow_zero _ _ _ codes [] (by simp)]
    simp
  | false =>
    simp only [mkRow, Bool.false_eq_true, if_false]
    rw [padRow_zero _ _ _ codes [] (by simp)]
    simp

theorem padAll_map (cfg : Cfg) (nins : List Nat) (alen : Nat) (f : Nat → Bytes × List Bool) (g : Nat → Bytes) :
    ∀ l : List Nat, (∀ i ∈ l, padOne cfg nins alen (f i) = some (g i)) →
      padAll cfg nins alen (l.map f) = some (l.map g) := by
  intro l
  induction l with
  | nil => intro _; simp [padAll]
  | cons i l ih =>
    intro h
    simp only [List.map_cons, padAll]
    rw [h i (by simp), ih (fun j hj => h j (by simp [hj]))]

/-! ## name/description lines -/

theorem a2mStartRecord_header (st : A2mSt) (nm : Bytes) (desc : Option Bytes) (hn : nameOk nm)
    (hd : ∀ d, desc = some d → descOk d) (ha : st.nseq ≤ st.sqalloc ∧ 0 < st.sqalloc)
    (htn : st.ncons + 1 ≤ (if st.tn.isEmpty then [0] else st.tn).length) :
    a2mStartRecord st (headerOf nm desc) =
      .inl { st with lead := false, sqalloc := expandAlloc st.nseq st.sqalloc, names := st.names ++ [nm],
                     sqdesc := setOptRowO st.sqdesc st.nseq desc, cur := none, fl := [], tc := 0,
                     tn := List.replicate (st.ncons + 1) 0 ++ (if st.tn.isEmpty then [0] else st.tn).drop (st.ncons + 1) } := by
  have hex : ¬ (st.nseq ≥ expandAlloc st.nseq st.sqalloc) := by
    obtain ⟨ha1, ha2⟩ := ha
    unfold expandAlloc
    split <;> omega
  have hnm0 : ∀ c ∈ nm, c ≠ 0 := fun c hc h0 => by
    have := hn.2 c hc; subst h0; simp [inDelim] at this
  have htn' : ¬ ((if st.tn.isEmpty then [0] else st.tn).length < st.ncons + 1) := by omega
  cases desc with
  | none =>
    unfold a2mStartRecord
    simp only [headerOf, List.append_nil, memtok_name nm hn, hex, if_false, htn',
      List.isEmpty_nil, if_true, cstr_id nm hnm0, setOptRowO]
  | some d =>
    have hdk := hd d rfl
    have hdne : d.isEmpty = false := by
      obtain ⟨⟨c0, t0, hd0, _⟩, _⟩ := hdk; subst hd0; rfl
    unfold a2mStartRecord
    simp only [headerOf, memtok_name_desc nm d hn hdk, hex, if_false, htn', hdne, Bool.false_eq_true,
      cstr_id nm hnm0, cstr_id d hdk.2, setOptRowO]

/-! ## the round trip -/

/-- the character the writer prints for sequence `i` in column `pos` (every column is printed in the alignments covered) -/
def a2mWc (abc : Option Abc) (m : Msa) (i pos : Nat) : UInt8 := (a2mChar abc m i pos).getD 45

/-- row `i` as it is read back: the input map applied to the characters written for it -/
def a2mRowCodes (abc : Option Abc) (enc : UInt8 → UInt8) (m : Msa) (i : Nat) : Bytes :=
  (List.range m.alen).map fun pos => enc (a2mWc abc m i pos)

def a2mRow (abc : Option Abc) (cfg : Cfg) (enc : UInt8 → UInt8) (m : Msa) (i : Nat) : Bytes :=
  mkRow cfg.digital (a2mRowCodes abc enc m i)

/-- everything A2M represents of an alignment without insert columns: names, descriptions, the rows as written
    (upper-case residues, `-` for every gap-like symbol, `O` as the unknown residue), `rf` = all `x`, default weights -/
def a2mProject (abc : Option Abc) (cfg : Cfg) (enc : UInt8 → UInt8) (m : Msa) : Msa :=
  { digital := cfg.digital, kp := cfg.kp, alen := m.alen, names := m.names,
    aseq := if cfg.digital then [] else (List.range m.nseq).map (a2mRow abc cfg enc m),
    ax := if cfg.digital then (List.range m.nseq).map (a2mRow abc cfg enc m) else [],
    hasw := false, wgt := List.replicate m.nseq Wgt.dflt,
    rf := some (List.replicate m.alen 120),
    sqdesc := padOptRows (afaDescs m m.nseq) m.nseq }

/-- an alignment that `esl_msafile_a2m_Write` + `esl_msafile_a2m_Read` (configuration `cfg`) carry: every column is a
    consensus column, so every cell is printed as an upper-case letter (not `O`) or `-`, which the input map sends to `enc`. -/
structure A2mWritable (abc : Option Abc) (cfg : Cfg) (enc : UInt8 → UInt8) (m : Msa) : Prop where
  n1 : 1 ≤ m.nseq
  alen1 : 1 ≤ m.alen
  acc_none : m.sqacc = none
  name_ok : ∀ i, i < m.nseq → nameOk (m.names.getD i [])
  desc_ok : ∀ i, i < m.nseq → ∀ d, optAt m.sqdesc i = some d → descOk d
  hdr_line : ∀ i, i < m.nseq → lineOk (a2mHeader m i)
  row_char : ∀ i, i < m.nseq → ∀ pos, pos < m.alen →
    ∃ c, a2mChar abc m i pos = some c ∧ consChar c ∧ mapByte cfg.inmap c = (.ok, some (enc c))

section
variable {abc : Option Abc} {cfg : Cfg} {enc : UInt8 → UInt8} {m : Msa}

theorem A2mWritable.char (h : A2mWritable abc cfg enc m) (i : Nat) (hi : i < m.nseq) (pos : Nat) (hp : pos < m.alen) :
    a2mChar abc m i pos = some (a2mWc abc m i pos) ∧ consChar (a2mWc abc m i pos) ∧
      mapByte cfg.inmap (a2mWc abc m i pos) = (.ok, some (enc (a2mWc abc m i pos))) := by
  obtain ⟨c, h1, h2, h3⟩ := h.row_char i hi pos hp
  have : a2mWc abc m i pos = c := by simp [a2mWc, h1]
  rw [this]
  exact ⟨h1, h2, h3⟩

theorem a2mHeader_eq (h : A2mWritable abc cfg enc m) (i : Nat) :
    a2mHeader m i = headerOf (m.names.getD i []) (optAt m.sqdesc i) := by
  have hacc : optRow m.sqacc i = none := by simp [optRow, h.acc_none]
  have hd : optRow m.sqdesc i = optAt m.sqdesc i := rfl
  unfold a2mHeader headerOf
  rw [hacc, hd]
  cases optAt m.sqdesc i <;> simp

/-- the sequence lines of record `i` are the 60-column pieces of the written row -/
theorem a2mSeqLines_eq (h : A2mWritable abc cfg enc m) (i : Nat) (hi : i < m.nseq) :
    a2mSeqLoop abc m i (List.range m.alen) [] = chunks60 ((List.range m.alen).map (a2mWc abc m i)) := by
  rw [a2mSeqLoop_chunks abc m i (a2mWc abc m i) (List.range m.alen) []
    (fun p hp => (h.char i hi p (List.mem_range.mp hp)).1) (by simp)]
  simp

theorem a2mPieces_ok (h : A2mWritable abc cfg enc m) (i : Nat) (hi : i < m.nseq) :
    (∀ c ∈ chunks60 ((List.range m.alen).map (a2mWc abc m i)), A2mPieceOk cfg enc c) ∧
      chunks60 ((List.range m.alen).map (a2mWc abc m i)) ≠ [] := by
  constructor
  · intro c hc
    have hmem := chunks60_mem _ c hc
    have hpos : ∀ t ∈ c, ∃ pos, pos < m.alen ∧ a2mWc abc m i pos = t := by
      intro t ht
      obtain ⟨pos, hp, he⟩ := List.mem_map.mp (hmem t ht)
      exact ⟨pos, List.mem_range.mp hp, he⟩
    exact { ne := chunks60_ne _ c hc,
            cons := fun t ht => by
              obtain ⟨pos, hp, he⟩ := hpos t ht
              rw [← he]; exact (h.char i hi pos hp).2.1,
            maps := fun t ht => by
              obtain ⟨pos, hp, he⟩ := hpos t ht
              rw [← he]; exact (h.char i hi pos hp).2.2 }
  · intro h0
    have := chunks60_flatten ((List.range m.alen).map (a2mWc abc m i))
    rw [h0] at this
    have hl : ((List.range m.alen).map (a2mWc abc m i)).length = m.alen := by simp
    rw [← this] at hl
    simp at hl
    have := h.alen1
    omega

theorem a2mRowCodes_length (i : Nat) : (a2mRowCodes abc enc m i).length = m.alen := by simp [a2mRowCodes]

end

/-- the reader just after the name line of record `k` -/
structure A2mStarted (abc : Option Abc) (cfg : Cfg) (enc : UInt8 → UInt8) (m : Msa) (k : Nat) (st : A2mSt) : Prop where
  lead : st.lead = false
  names : st.names = m.names.take (k + 1)
  recs : st.recs = (List.range k).map fun i => (a2mRow abc cfg enc m i, List.replicate (m.alen + 1) true)
  nseq : st.nseq = k
  alloc : st.nseq < st.sqalloc
  descs : st.sqdesc = afaDescs m (k + 1)
  cur : st.cur = none
  fl : st.fl = []
  tc : st.tc = 0
  first : k = 0 → st.tn = [0]
  later : k ≠ 0 → st.ncons = m.alen ∧ st.nins = List.replicate (m.alen + 1) 0 ∧ st.tn = List.replicate (m.alen + 1) 0

/-- the reader after the lines of records `0 … k-1` (record `k-1` not closed yet) -/
structure A2mAfter (abc : Option Abc) (cfg : Cfg) (enc : UInt8 → UInt8) (m : Msa) (k : Nat) (st : A2mSt) : Prop where
  lead : st.lead = false
  names : st.names = m.names.take k
  recs : st.recs = (List.range (k - 1)).map fun i => (a2mRow abc cfg enc m i, List.replicate (m.alen + 1) true)
  nseq : st.nseq = k - 1
  alloc : st.nseq < st.sqalloc
  descs : st.sqdesc = afaDescs m k
  cur : st.cur = some (a2mRow abc cfg enc m (k - 1))
  fl : st.fl = List.replicate (m.alen + 1) true
  tc : st.tc = m.alen
  tn : st.tn = List.replicate (m.alen + 1) 0
  later : k ≠ 1 → st.ncons = m.alen ∧ st.nins = List.replicate (m.alen + 1) 0

/-- the reader after record `k-1` was closed -/
structure A2mBetw (abc : Option Abc) (cfg : Cfg) (enc : UInt8 → UInt8) (m : Msa) (k : Nat) (st : A2mSt) : Prop where
  lead : st.lead = false
  names : st.names = m.names.take k
  recs : st.recs = (List.range k).map fun i => (a2mRow abc cfg enc m i, List.replicate (m.alen + 1) true)
  nseq : st.nseq = k
  alloc : st.nseq ≤ st.sqalloc ∧ 0 < st.sqalloc
  descs : st.sqdesc = afaDescs m k
  ncons : st.ncons = m.alen
  nins : st.nins = List.replicate (m.alen + 1) 0
  tn : st.tn = List.replicate (m.alen + 1) 0

section
variable {abc : Option Abc} {cfg : Cfg} {enc : UInt8 → UInt8} {m : Msa}

/-- the sequence lines of record `k` -/
theorem a2mStarted_after (h : A2mWritable abc cfg enc m) (k : Nat) (hk : k < m.nseq) (st0 : A2mSt)
    (hs : A2mStarted abc cfg enc m k st0) :
    ∃ st, stepsFrom (a2mStep cfg) st0 (a2mSeqLoop abc m k (List.range m.alen) []) = .inl st ∧
      A2mAfter abc cfg enc m (k + 1) st := by
  obtain ⟨hp, hpne⟩ := a2mPieces_ok h k hk
  have hflat : (chunks60 ((List.range m.alen).map (a2mWc abc m k))).flatten.map enc = a2mRowCodes abc enc m k := by
    rw [chunks60_flatten]; simp [a2mRowCodes]
  have hflen : (chunks60 ((List.range m.alen).map (a2mWc abc m k))).flatten.length = m.alen := by
    rw [chunks60_flatten]; simp
  have hsteps := a2mSteps_row cfg enc st0 _ hpne hp hs.lead hs.cur hs.fl hs.tc
    (fun h0 => hs.first (by rw [← hs.nseq]; exact h0))
    (fun h0 => by
      rw [hflen, (hs.later (by rw [← hs.nseq]; exact h0)).1]
      exact Nat.le_refl _)
  rw [hflat] at hsteps
  refine ⟨_, by rw [a2mSeqLines_eq h k hk]; exact hsteps, ?_⟩
  have hlen := a2mRowCodes_length (abc := abc) (enc := enc) (m := m) k
  exact
    { lead := hs.lead, names := hs.names,
      recs := by show st0.recs = _; rw [hs.recs]; rfl,
      nseq := by show st0.nseq = _; rw [hs.nseq]; rfl,
      alloc := hs.alloc, descs := hs.descs,
      cur := rfl,
      fl := by show List.replicate ((a2mRowCodes abc enc m k).length + 1) true = _; rw [hlen],
      tc := hlen,
      tn := by
        show (if st0.nseq == 0 then List.replicate ((a2mRowCodes abc enc m k).length + 1) 0 else st0.tn) = _
        rw [hlen, hs.nseq]
        by_cases h0 : k = 0
        · simp [h0]
        · simp [h0, (hs.later h0).2.2],
      later := fun h1 => by
        have h0 : k ≠ 0 := by omega
        exact ⟨(hs.later h0).1, (hs.later h0).2.1⟩ }

end

section
variable {abc : Option Abc} {cfg : Cfg} {enc : UInt8 → UInt8} {m : Msa}

theorem range_pred_succ_map {β : Type} (k : Nat) (hk : 1 ≤ k) (f : Nat → β) :
    (List.range (k - 1)).map f ++ [f (k - 1)] = (List.range k).map f := by
  have : k = (k - 1) + 1 := by omega
  conv => rhs; rw [this, List.range_succ]
  simp

/-- closing record `k-1` -/
theorem a2mAfter_finish (h : A2mWritable abc cfg enc m) (k : Nat) (hk1 : 1 ≤ k) (st : A2mSt)
    (hs : A2mAfter abc cfg enc m k st) :
    ∃ st', a2mFinishRecord cfg st = .inl st' ∧ A2mBetw abc cfg enc m k st' := by
  have ha1 := h.alen1
  have hlen : rowLen cfg.digital (some (a2mRow abc cfg enc m (k - 1))) = m.alen := by
    rw [a2mRow, rowLen_mkRow, a2mRowCodes_length]
  have h0 : (m.alen == 0) = false := by simp; omega
  have hrecs : st.recs ++ [(a2mRow abc cfg enc m (k - 1), List.replicate (m.alen + 1) true)]
      = (List.range k).map fun i => (a2mRow abc cfg enc m i, List.replicate (m.alen + 1) true) := by
    rw [hs.recs]
    exact range_pred_succ_map k hk1 (fun i => (a2mRow abc cfg enc m i, List.replicate (m.alen + 1) true))
  have hnseq : st.nseq + 1 = k := by rw [hs.nseq]; omega
  have halloc : st.nseq + 1 ≤ st.sqalloc ∧ 0 < st.sqalloc := by have := hs.alloc; omega
  by_cases hk : k = 1
  · have hn0 : st.nseq = 0 := by rw [hs.nseq, hk]
    have htl : ¬ (st.tn.length < st.tc + 1) := by rw [hs.tn, hs.tc]; simp
    refine ⟨{ st with ncons := st.tc, nins := st.tn.take (st.tc + 1),
                      recs := st.recs ++ [(a2mRow abc cfg enc m (k - 1), st.fl)], nseq := st.nseq + 1, cur := none, fl := [] }, ?_, ?_⟩
    · unfold a2mFinishRecord
      simp only [hs.cur, hlen, h0, Bool.false_eq_true, if_false, hn0, beq_self_eq_true, if_true, htl]
    · exact
        { lead := hs.lead, names := hs.names,
          recs := by show st.recs ++ [(a2mRow abc cfg enc m (k - 1), st.fl)] = _; rw [hs.fl, hrecs],
          nseq := hnseq, alloc := halloc, descs := hs.descs, ncons := hs.tc,
          nins := by show st.tn.take (st.tc + 1) = _; rw [hs.tn, hs.tc]; simp,
          tn := hs.tn }
  · obtain ⟨hnc, hni⟩ := hs.later hk
    have hn0 : (st.nseq == 0) = false := by rw [hs.nseq]; simp; omega
    have htc : (st.tc != st.ncons) = false := by rw [hs.tc, hnc]; simp
    have htl : (decide (st.tn.length < st.ncons + 1) || decide (st.nins.length < st.ncons + 1)) = false := by
      rw [hs.tn, hni, hnc]; simp
    refine ⟨{ st with nins := List.zipWith max (st.nins.take (st.ncons + 1)) (st.tn.take (st.ncons + 1)),
                      recs := st.recs ++ [(a2mRow abc cfg enc m (k - 1), st.fl)], nseq := st.nseq + 1, cur := none, fl := [] }, ?_, ?_⟩
    · unfold a2mFinishRecord
      simp only [hs.cur, hlen, h0, Bool.false_eq_true, if_false, hn0, htc, htl]
    · exact
        { lead := hs.lead, names := hs.names,
          recs := by show st.recs ++ [(a2mRow abc cfg enc m (k - 1), st.fl)] = _; rw [hs.fl, hrecs],
          nseq := hnseq, alloc := halloc, descs := hs.descs, ncons := hnc,
          nins := by
            show List.zipWith max (st.nins.take (st.ncons + 1)) (st.tn.take (st.ncons + 1)) = _
            rw [hs.tn, hni, hnc]; simp,
          tn := hs.tn }

theorem names_take_succ (k : Nat) (hk : k < m.nseq) : m.names.take k ++ [m.names.getD k []] = m.names.take (k + 1) := by
  have hlt : k < m.names.length := hk
  rw [List.take_add_one]
  simp [List.getD_eq_getElem?_getD, List.getElem?_eq_getElem hlt]

/-- the name line of record `k ≥ 1` -/
theorem a2mBetw_start (h : A2mWritable abc cfg enc m) (k : Nat) (hk0 : k ≠ 0) (hk : k < m.nseq) (st : A2mSt)
    (hs : A2mBetw abc cfg enc m k st) :
    ∃ st0, a2mStartRecord st (a2mHeader m k) = .inl st0 ∧ A2mStarted abc cfg enc m k st0 := by
  have htne : st.tn.isEmpty = false := by rw [hs.tn]; simp [List.replicate_succ]
  have htn1 : (if st.tn.isEmpty then [0] else st.tn) = List.replicate (m.alen + 1) 0 := by
    rw [hs.tn]; simp [List.replicate_succ]
  have hstart := a2mStartRecord_header st (m.names.getD k []) (optAt m.sqdesc k) (h.name_ok k hk) (h.desc_ok k hk) hs.alloc
    (by rw [htn1, hs.ncons]; simp)
  rw [← a2mHeader_eq h k] at hstart
  refine ⟨_, hstart, ?_⟩
  exact
    { lead := rfl,
      names := by show st.names ++ [m.names.getD k []] = _; rw [hs.names]; exact names_take_succ k hk,
      recs := hs.recs, nseq := hs.nseq,
      alloc := by
        show st.nseq < expandAlloc st.nseq st.sqalloc
        have := hs.alloc
        unfold expandAlloc
        split <;> omega,
      descs := by
        show setOptRowO st.sqdesc st.nseq (optAt m.sqdesc k) = afaDescs m (k + 1)
        rw [hs.nseq, hs.descs]; simp only [afaDescs],
      cur := rfl, fl := rfl, tc := rfl,
      first := fun h0 => absurd h0 hk0,
      later := fun _ => ⟨hs.ncons, hs.nins, by
        show List.replicate (st.ncons + 1) 0 ++ (if st.tn.isEmpty then [0] else st.tn).drop (st.ncons + 1) = _
        rw [htn1, hs.ncons]; simp⟩ }

/-- the name line of the first record -/
theorem a2mInit_start (h : A2mWritable abc cfg enc m) :
    ∃ st0, a2mStartRecord {} (a2mHeader m 0) = .inl st0 ∧ A2mStarted abc cfg enc m 0 st0 := by
  have hk : 0 < m.nseq := h.n1
  have hstart := a2mStartRecord_header {} (m.names.getD 0 []) (optAt m.sqdesc 0) (h.name_ok 0 hk) (h.desc_ok 0 hk)
    ⟨by decide, by decide⟩ (by decide)
  rw [← a2mHeader_eq h 0] at hstart
  refine ⟨_, hstart, ?_⟩
  exact
    { lead := rfl,
      names := by show [] ++ [m.names.getD 0 []] = _; exact names_take_succ 0 hk,
      recs := rfl, nseq := rfl,
      alloc := by show 0 < expandAlloc 0 16; decide,
      descs := by show setOptRowO none 0 (optAt m.sqdesc 0) = afaDescs m 1; simp [afaDescs],
      cur := rfl, fl := rfl, tc := rfl,
      first := fun _ => rfl,
      later := fun h0 => absurd rfl h0 }

theorem a2mStep_gt (cfg : Cfg) (st : A2mSt) (rest : Bytes) (hl : st.lead = false) :
    a2mStep cfg st (62 :: rest) =
      match a2mFinishRecord cfg st with
      | .inl st' => a2mStartRecord st' (62 :: rest)
      | .inr r => .inr r := by
  have hd : (62 :: rest).dropWhile isSpace = 62 :: rest := by simp [List.dropWhile, isSpace]
  unfold a2mStep
  simp only [hl, Bool.false_eq_true, if_false, hd, beq_self_eq_true, if_true]
  cases a2mFinishRecord cfg st <;> rfl

theorem a2mStep_gt_lead (cfg : Cfg) (st : A2mSt) (rest : Bytes) (hl : st.lead = true) :
    a2mStep cfg st (62 :: rest) = a2mStartRecord st (62 :: rest) := by
  have hd : (62 :: rest).dropWhile isSpace = 62 :: rest := by simp [List.dropWhile, isSpace]
  have hnb : isBlankLine (62 :: rest) = false := by simp [isBlankLine, inDelim, blankTab]
  unfold a2mStep
  simp only [hl, if_true, hnb, Bool.false_eq_true, if_false, hd, bne_self_eq_false]

/-- the lines of one more record, from inside the previous record -/
theorem a2mSteps_record (h : A2mWritable abc cfg enc m) (k : Nat) (hk1 : 1 ≤ k) (hk : k < m.nseq) (st : A2mSt)
    (hst : A2mAfter abc cfg enc m k st) :
    ∃ st', stepsFrom (a2mStep cfg) st (a2mRecLines abc m k) = .inl st' ∧ A2mAfter abc cfg enc m (k + 1) st' := by
  obtain ⟨st1, hfin, hb⟩ := a2mAfter_finish h k hk1 st hst
  obtain ⟨st0, hstart, hs0⟩ := a2mBetw_start h k (by omega) hk st1 hb
  obtain ⟨st', hsteps, ha⟩ := a2mStarted_after h k hk st0 hs0
  have hhdr : a2mStep cfg st (a2mHeader m k) = .inl st0 := by
    rw [← hstart, a2mHeader_eq h k]
    show a2mStep cfg st (62 :: _) = _
    rw [a2mStep_gt cfg st _ hst.lead, hfin]
    rfl
  refine ⟨st', ?_, ha⟩
  show stepsFrom (a2mStep cfg) st (a2mHeader m k :: a2mSeqLoop abc m k (List.range m.alen) []) = _
  simp only [stepsFrom, hhdr]
  exact hsteps

/-- the lines of the first record, from the initial state -/
theorem a2mSteps_first (h : A2mWritable abc cfg enc m) :
    ∃ st', stepsFrom (a2mStep cfg) {} (a2mRecLines abc m 0) = .inl st' ∧ A2mAfter abc cfg enc m 1 st' := by
  obtain ⟨st0, hstart, hs0⟩ := a2mInit_start (abc := abc) (cfg := cfg) (enc := enc) h
  obtain ⟨st', hsteps, ha⟩ := a2mStarted_after h 0 h.n1 st0 hs0
  have hhdr : a2mStep cfg {} (a2mHeader m 0) = .inl st0 := by
    rw [← hstart, a2mHeader_eq h 0]
    show a2mStep cfg {} (62 :: _) = _
    rw [a2mStep_gt_lead cfg {} _ rfl]
    rfl
  refine ⟨st', ?_, ha⟩
  show stepsFrom (a2mStep cfg) {} (a2mHeader m 0 :: a2mSeqLoop abc m 0 (List.range m.alen) []) = _
  simp only [stepsFrom, hhdr]
  exact hsteps

/-- all the lines of the first `k` records -/
theorem a2mSteps_records (h : A2mWritable abc cfg enc m) :
    ∀ k, 1 ≤ k → k ≤ m.nseq →
      ∃ st, stepsFrom (a2mStep cfg) {} ((List.range k).flatMap (a2mRecLines abc m)) = .inl st ∧ A2mAfter abc cfg enc m k st := by
  intro k
  induction k with
  | zero => intro h0; omega
  | succ k ih =>
    intro _ hk
    by_cases hk0 : k = 0
    · subst hk0
      simpa using a2mSteps_first h
    · obtain ⟨st, hs, hst⟩ := ih (by omega) (by omega)
      obtain ⟨st', hs', hst'⟩ := a2mSteps_record h k (by omega) (by omega) st hst
      refine ⟨st', ?_, hst'⟩
      rw [List.range_succ, List.flatMap_append]
      rw [stepsFrom_append (a2mStep cfg) _ _ {} st hs]
      simpa using hs'

end

section
variable {abc : Option Abc} {cfg : Cfg} {enc : UInt8 → UInt8} {m : Msa}

/-- the padding phase after the last record was closed -/
theorem a2mPad_betw (st : A2mSt) (hs : A2mBetw abc cfg enc m m.nseq st) : a2mPad cfg st = .ok (a2mProject abc cfg enc m) := by
  have hl : ¬ (st.nins.length < m.alen + 1) := by rw [hs.nins]; simp
  have htake : st.nins.take (m.alen + 1) = List.replicate (m.alen + 1) 0 := by rw [hs.nins]; simp
  have hsum : (List.replicate (m.alen + 1) 0).sum = 0 := by simp
  have hrf : padRf (m.alen + 1) (List.replicate (m.alen + 1) 0) [] = some (List.replicate m.alen 120) := by
    rw [padRf_zero (m.alen + 1) m.alen [] (by simp)]; simp
  have hall : padAll cfg (List.replicate (m.alen + 1) 0) m.alen st.recs = some ((List.range m.nseq).map (a2mRow abc cfg enc m)) := by
    rw [hs.recs]
    apply padAll_map
    intro i _
    have hlen := a2mRowCodes_length (abc := abc) (enc := enc) (m := m) i
    have := padOne_zero cfg (a2mRowCodes abc enc m i)
    rw [hlen] at this
    exact this
  have hnames : st.names = m.names := by rw [hs.names]; exact List.take_length
  have hgt : ¬ ((List.replicate m.alen (120 : UInt8)).length > m.alen) := by simp
  unfold a2mPad
  simp only [hs.ncons, hl, if_false, htake, hsum, Nat.add_zero, hrf, hall, hgt, List.reverse_replicate, hnames, hs.nseq, hs.descs,
    a2mProject]

/-- end of input after the last record -/
theorem a2mFinish_after (h : A2mWritable abc cfg enc m) (st : A2mSt) (hst : A2mAfter abc cfg enc m m.nseq st) :
    a2mFinish cfg st = .ok (a2mProject abc cfg enc m) := by
  obtain ⟨st1, hfin, hb⟩ := a2mAfter_finish h m.nseq h.n1 st hst
  unfold a2mFinish
  simp only [hst.lead, Bool.false_eq_true, if_false, hfin]
  exact a2mPad_betw st1 hb

/-- **A2M round trip on lines** -/
theorem a2mRead_writeLines (h : A2mWritable abc cfg enc m) :
    a2mRead cfg (a2mLines abc m) = (.ok (a2mProject abc cfg enc m), []) := by
  obtain ⟨st, hs, hst⟩ := a2mSteps_records h m.nseq h.n1 (Nat.le_refl _)
  unfold a2mRead a2mLines
  have := runLines_append_inl (a2mStep cfg) (a2mFinish cfg) _ [] {} st hs
  rw [List.append_nil] at this
  rw [this]
  simp [runLines, a2mFinish_after h st hst]

theorem a2mLines_ok (h : A2mWritable abc cfg enc m) : ∀ l ∈ a2mLines abc m, lineOk l := by
  intro l hl
  unfold a2mLines at hl
  rw [List.mem_flatMap] at hl
  obtain ⟨i, hi, hl⟩ := hl
  have hi' : i < m.nseq := List.mem_range.mp hi
  unfold a2mRecLines at hl
  rcases List.mem_cons.mp hl with hl | hl
  · subst hl; exact h.hdr_line i hi'
  · rw [a2mSeqLines_eq h i hi'] at hl
    have hp := (a2mPieces_ok h i hi').1 l hl
    have hns : ∀ t ∈ l, isSpace t = false := fun t ht => (consChar_plain t (hp.cons t ht)).1
    constructor
    · intro h10
      have := hns 10 h10
      simp [isSpace] at this
    · intro h13
      have hm : (13 : UInt8) ∈ l := List.mem_of_getLast? h13
      have := hns 13 hm
      simp [isSpace] at this

/-- **A2M round trip on bytes** -/
theorem a2mRead_write (h : A2mWritable abc cfg enc m) :
    a2mRead cfg (splitLines (a2mWrite abc m)) = (.ok (a2mProject abc cfg enc m), []) := by
  unfold a2mWrite joinLF
  rw [splitLines_join _ (a2mLines_ok h)]
  exact a2mRead_writeLines h

end

end EaselModel.Msafile
