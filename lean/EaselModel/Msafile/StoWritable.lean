import EaselModel.Msafile.StoRoundTrip
import EaselModel.Msafile.StoWgtTok
import EaselModel.Msafile.PhylipWritable
import EaselModel.Msafile.AbcTables
/-! Concrete, checkable conditions under which an alignment without annotation is `StoWritable`: text mode, and digital
    mode with the generated amino / DNA / RNA alphabets. -/
namespace EaselModel.Msafile

/-! ## text mode -/

/-- table fact: the Stockholm text-mode input map sends every graphic character to itself; none is white space or NUL -/
def stoTextSymOk : Bool :=
  (List.range 256).all fun n =>
    let t := UInt8.ofNat n
    !(isGraph t) || (mapByte (stockholmInmap none) t == (CatSt.ok, some t) && !isSpace t && t != 0)

theorem stoTextSymOk_true : stoTextSymOk = true := by decide +kernel

theorem sto_text_sym (t : UInt8) (h : isGraph t = true) :
    mapByte (stockholmInmap none) t = (.ok, some t) ∧ isSpace t = false ∧ t ≠ 0 := by
  have h1 := (List.all_eq_true.mp stoTextSymOk_true) t.toNat (List.mem_range.mpr t.toNat_lt)
  simp only [UInt8.ofNat_toNat, h, Bool.not_true, Bool.false_or, Bool.and_eq_true, beq_iff_eq, Bool.not_eq_true',
    bne_iff_ne, ne_eq] at h1
  exact ⟨h1.1.1, h1.1.2, h1.2⟩

/-- a text-mode alignment (annotation as `StoAnn` admits) that Stockholm/Pfam represent faithfully -/
structure StoTextWritable (m : Msa) : Prop where
  dig : m.digital = false
  ann : StoAnn m
  n1 : 1 ≤ m.nseq
  alen1 : 1 ≤ m.alen
  nodup : m.names.Nodup
  name_ok : ∀ i, i < m.nseq → stoNameOk (m.names.getD i [])
  row_ok : ∀ i, i < m.nseq → (m.aseq.getD i []).length = m.alen ∧ ∀ t ∈ m.aseq.getD i [], isGraph t = true

theorem stoTextWritable_writable (m : Msa) (h : StoTextWritable m) :
    StoWritable none (stockholmCfg none) id (fun i => m.aseq.getD i []) m :=
  { ann := h.ann, n1 := h.n1, alen1 := h.alen1, nodup := h.nodup, name_ok := h.name_ok
    txt_len := fun i hi => (h.row_ok i hi).1
    chunk_eq := fun i hi pos n => by
      show cstr (((m.aseq.getD i []).drop pos).take n) = _
      exact cstr_id _ (fun c hc => (sto_text_sym c ((h.row_ok i hi).2 c (List.mem_of_mem_drop (List.mem_of_mem_take hc)))).2.2)
    txt_sym := fun i hi t ht => by
      have := sto_text_sym t ((h.row_ok i hi).2 t ht)
      exact ⟨by simpa [stockholmCfg] using this.1, this.2.1, this.2.2⟩
    row_enc := fun i hi => by
      simp [Msa.stored, h.dig, mkRow, stockholmCfg, Cfg.digital] }

/-! ## digital mode -/

/-- the stored symbol the reader produces for a written character -/
def stoEnc (a : Abc) (t : UInt8) : UInt8 :=
  match mapByte (stockholmInmap (some a)) t with
  | (_, some x) => x
  | _ => 0

/-- table fact about an alphabet: the character `sym[x]` written for code `x < Kp` is read back as `x`, is neither white
    space nor NUL; no code collides with the sentinel -/
def stoDigSymOk (a : Abc) : Bool :=
  ((List.range a.kp).all fun x =>
    let t := a.sym.getD x 0
    mapByte (stockholmInmap (some a)) t == (CatSt.ok, some (UInt8.ofNat x)) && !isSpace t && t != 0)
  && decide (a.kp ≤ 250)

theorem stoDigSymOk_amino : stoDigSymOk abcAmino = true := by decide +kernel
theorem stoDigSymOk_dna : stoDigSymOk abcDna = true := by decide +kernel
theorem stoDigSymOk_rna : stoDigSymOk abcRna = true := by decide +kernel

theorem sto_dig_sym (a : Abc) (ha : stoDigSymOk a = true) (x : UInt8) (hx : x.toNat < a.kp) :
    mapByte (stockholmInmap (some a)) (a.sym.getD x.toNat 0) = (.ok, some (stoEnc a (a.sym.getD x.toNat 0))) ∧
    isSpace (a.sym.getD x.toNat 0) = false ∧ a.sym.getD x.toNat 0 ≠ 0 ∧ stoEnc a (a.sym.getD x.toNat 0) = x := by
  unfold stoDigSymOk at ha
  simp only [Bool.and_eq_true, decide_eq_true_eq] at ha
  have h1 := (List.all_eq_true.mp ha.1) x.toNat (List.mem_range.mpr hx)
  simp only [UInt8.ofNat_toNat, Bool.and_eq_true, beq_iff_eq, Bool.not_eq_true', bne_iff_ne, ne_eq] at h1
  obtain ⟨⟨hm, hs⟩, hz⟩ := h1
  have he : stoEnc a (a.sym.getD x.toNat 0) = x := by unfold stoEnc; rw [hm]
  exact ⟨by rw [he]; exact hm, hs, hz, he⟩

/-- a digital alignment (alphabet `a`, annotation as `StoAnn` admits) that Stockholm/Pfam represent faithfully -/
structure StoDigitalWritable (a : Abc) (m : Msa) : Prop where
  dig : m.digital = true
  ann : StoAnn m
  n1 : 1 ≤ m.nseq
  alen1 : 1 ≤ m.alen
  nodup : m.names.Nodup
  name_ok : ∀ i, i < m.nseq → stoNameOk (m.names.getD i [])
  row_ok : ∀ i, i < m.nseq → dsqRowOk a.kp m.alen (m.ax.getD i []) = true

/-- the text the writer prints for row `i` -/
def stoDigTxt (a : Abc) (m : Msa) (i : Nat) : Bytes :=
  (dsqCodes (some (m.ax.getD i []))).map fun x => a.sym.getD x.toNat 0

theorem stoDigitalWritable_writable (a : Abc) (ha : stoDigSymOk a = true) (m : Msa) (h : StoDigitalWritable a m) :
    StoWritable (some a) (stockholmCfg (some a)) (stoEnc a) (stoDigTxt a m) m := by
  have hkp : a.kp ≤ 250 := by
    unfold stoDigSymOk at ha
    simp only [Bool.and_eq_true, decide_eq_true_eq] at ha
    exact ha.2
  have hcodes : ∀ i, i < m.nseq →
      (dsqCodes (some (m.ax.getD i []))).all (fun x => decide (x.toNat < a.kp)) = true ∧ (dsqCodes (some (m.ax.getD i []))).length = m.alen := by
    intro i hi
    cases hr : m.ax.getD i [] with
    | nil => have := h.row_ok i hi; rw [hr] at this; simp [dsqRowOk] at this
    | cons s0 rest =>
      have := h.row_ok i hi; rw [hr] at this
      simp only [dsqRowOk, Bool.and_eq_true, beq_iff_eq] at this
      refine ⟨by simpa [dsqCodes] using this.2, ?_⟩
      simp only [dsqCodes, List.drop_succ_cons, List.drop_zero, List.length_dropLast]
      omega
  have hlt : ∀ i, i < m.nseq → ∀ x ∈ dsqCodes (some (m.ax.getD i [])), x.toNat < a.kp := by
    intro i hi x hx
    simpa using (List.all_eq_true.mp (hcodes i hi).1) x hx
  exact
    { ann := h.ann, n1 := h.n1, alen1 := h.alen1, nodup := h.nodup, name_ok := h.name_ok
      txt_len := fun i hi => by simp only [stoDigTxt, List.length_map]; exact (hcodes i hi).2
      chunk_eq := fun i hi pos n => by
        have hshape := dsqRow_shape _ _ _ (h.row_ok i hi)
        have hns : ∀ x ∈ dsqCodes (some (m.ax.getD i [])), x ≠ dsqSENTINEL := by
          intro x hx hs
          have := hlt i hi x hx
          rw [hs] at this
          simp [dsqSENTINEL] at this
          omega
        show textizeN a ((m.ax.getD i []).drop (pos + 1)) n = _
        have hdrop : (m.ax.getD i []).drop (pos + 1) = (dsqCodes (some (m.ax.getD i [])) ++ [dsqSENTINEL]).drop pos := by
          conv => lhs; rw [hshape]
          simp
        unfold textizeN
        rw [hdrop, takeWhile_sentinel _ hns]
        simp only [stoDigTxt, List.map_drop, List.map_take]
      txt_sym := fun i hi t ht => by
        simp only [stoDigTxt, List.mem_map] at ht
        obtain ⟨x, hx, rfl⟩ := ht
        have := sto_dig_sym a ha x (hlt i hi x hx)
        exact ⟨by simpa [stockholmCfg] using this.1, this.2.1, this.2.2.1⟩
      row_enc := fun i hi => by
        have hshape := dsqRow_shape _ _ _ (h.row_ok i hi)
        have hmap : (stoDigTxt a m i).map (stoEnc a) = dsqCodes (some (m.ax.getD i [])) := by
          simp only [stoDigTxt, List.map_map]
          exact map_id_of _ _ (fun x hx => (sto_dig_sym a ha x (hlt i hi x hx)).2.2.2)
        rw [hmap]
        simp only [Msa.stored, h.dig, if_true, mkRow, stockholmCfg, Cfg.digital, Option.isSome_some]
        exact hshape }

end EaselModel.Msafile
