import EaselModel.Msafile.AfaReadDomain
import EaselModel.Msafile.ClustalLemmas
import EaselModel.Msafile.PsiblastLemmas
import EaselModel.Msafile.ClustalWritable
/-! "Reformat stability", Clustal: what `esl_msafile_clustal_Read` returns lies in the domain of the Clustal round-trip
    theorem, except that (a) a name may be EMPTY (a name field that starts with a NUL byte is stored as the empty C string)
    and (b) a row after the first may look like a consensus line when it is written alone in a block (`notcons`). -/
namespace EaselModel.Msafile

theorem take_length_takeWhile {α : Type} (q : α → Bool) : ∀ l : List α, l.take (l.takeWhile q).length = l.takeWhile q
  | [] => rfl
  | a :: l => by
    cases h : q a with
    | true => simp [List.takeWhile, h, take_length_takeWhile q l]
    | false => simp [List.takeWhile, h]

/-- the name field of an alignment line holds no white space -/
theorem nameSlice_nospace (p : Bytes) (a : Nat) (c0 : UInt8) (h0 : p[a]? = some c0) (hc : isSpace c0 = false) :
    ∀ x ∈ (p.drop a).take (scanTo isSpace p (a + 1) - a), isSpace x = false := by
  have ha : a < p.length := by
    rcases Nat.lt_or_ge a p.length with h | h
    · exact h
    · rw [List.getElem?_eq_none h] at h0; cases h0
  have hd : p.drop a = c0 :: p.drop (a + 1) := by
    rw [List.drop_eq_getElem_cons ha]
    have : p[a] = c0 := by
      have := List.getElem?_eq_getElem ha
      rw [this] at h0; exact Option.some.inj h0
    rw [this]
  have hk : scanTo isSpace p (a + 1) - a = ((p.drop (a + 1)).takeWhile (fun c => !isSpace c)).length + 1 := by
    unfold scanTo; omega
  rw [hd, hk, List.take_succ_cons, take_length_takeWhile]
  intro x hx
  rcases List.mem_cons.mp hx with rfl | hx
  · exact hc
  · have := rd_mem_takeWhile _ _ _ hx
    simpa using this

theorem clustalCols_name (p : Bytes) (c : Cols) (h : clustalCols p = some c) :
    c.nameStart = scanTo (fun c => !isSpace c) p 0 ∧ c.nameLen = scanTo isSpace p (c.nameStart + 1) - c.nameStart := by
  unfold clustalCols at h
  simp only at h
  split at h
  · simp at h
  · simp only [Option.some.injEq] at h
    subst h
    exact ⟨rfl, rfl⟩

theorem clustal_name_nospace (p : Bytes) (c : Cols) (name : Bytes) (h : clustalCols p = some c)
    (hs : slice p c.nameStart c.nameLen = some name) : ∀ x ∈ name, isSpace x = false := by
  obtain ⟨h1, h2⟩ := clustalCols_name p c h
  obtain ⟨hb1, _, _⟩ := clustalCols_ok p c h
  have hge : c.nameStart + 1 ≤ scanTo isSpace p (c.nameStart + 1) := scanTo_ge _ _ _
  have hlt : scanTo (fun c => !isSpace c) p 0 < p.length := by rw [← h1]; omega
  obtain ⟨c0, hc0, hP⟩ := scanTo_stop (fun c => !isSpace c) p 0 hlt
  rw [← h1] at hc0
  simp only [slice, hb1, if_true, Option.some.injEq] at hs
  rw [← hs, h2]
  exact nameSlice_nospace p c.nameStart c0 hc0 (by simpa using hP)

/-- the name field of an alignment line is not empty -/
theorem name_ne_gen (p : Bytes) (ns nl : Nat) (name : Bytes) (h2 : nl = scanTo isSpace p (ns + 1) - ns)
    (hs : slice p ns nl = some name) : name ≠ [] := by
  have hge : ns + 1 ≤ scanTo isSpace p (ns + 1) := scanTo_ge _ _ _
  unfold slice at hs
  by_cases hb : ns + nl ≤ p.length
  · simp only [hb, if_true, Option.some.injEq] at hs
    intro h0
    have hl : ((p.drop ns).take nl).length = 0 := by rw [hs, h0]; rfl
    rw [List.length_take, List.length_drop] at hl
    omega
  · simp [hb] at hs

theorem cstr_of_no0 (name : Bytes) (h : name.contains 0 = false) : cstr name = name := by
  unfold cstr
  apply takeWhile_all
  intro a ha
  have : a ≠ 0 := by
    intro e; subst e
    have : name.contains 0 = true := by simpa using ha
    rw [h] at this; cases this
  simpa using this

/-- non-empty names without white space or NUL; text rows of graphic characters; a started block is not empty -/
structure BlkNdInv (cfg : Cfg) (st : BlkSt) : Prop where
  names : ∀ nm ∈ st.names, (nm ≠ [] ∧ ∀ x ∈ nm, isSpace x = false ∧ x ≠ 0)
  rows : cfg.digital = false → ∀ r, some r ∈ st.rows → r.all isGraph = true
  bsl : st.phase = .inblock ∨ st.phase = .between → 1 ≤ st.bsl

theorem cstr_mem (b : Bytes) (x : UInt8) (h : x ∈ cstr b) : x ∈ b ∧ x ≠ 0 := by
  unfold cstr at h
  refine ⟨(List.takeWhile_sublist _).subset h, ?_⟩
  have := rd_mem_takeWhile _ _ _ h
  simpa using this

theorem blkName_nd (cfg : Cfg) (inc : Bool) (st st' : BlkSt) (name : Bytes) (h : blkName inc st name = .inl st')
    (hn : ∀ x ∈ name, isSpace x = false) (hne : name ≠ []) (hi : BlkNdInv cfg st) :
    (∀ nm ∈ st'.names, (nm ≠ [] ∧ ∀ x ∈ nm, isSpace x = false ∧ x ≠ 0)) ∧
    (∀ r, some r ∈ st'.rows → some r ∈ st.rows) ∧ st'.phase = st.phase ∧ st'.bsl = st.bsl ∧ st'.alen = st.alen := by
  unfold blkName at h
  split at h
  · cases h
  rename_i hcond
  unfold blkNameCore at h
  by_cases hb : (st.nblocks == 0) = true
  · have hz : name.contains 0 = false := by
      cases hx : name.contains 0 with
      | false => rfl
      | true => exact absurd (by rw [hb, hx]; rfl) hcond
    have hcs := cstr_of_no0 name hz
    simp only [hb, if_true] at h
    split at h
    · simp at h
    · injection h with h; subst h
      refine ⟨?_, ?_, rfl, rfl, rfl⟩
      · intro nm hnm
        rcases List.mem_append.mp hnm with h1 | h1
        · exact hi.names nm h1
        · simp at h1; subst h1
          rw [hcs]
          refine ⟨hne, fun x hx => ⟨hn x hx, ?_⟩⟩
          intro e; subst e
          have : name.contains 0 = true := by simpa using hx
          rw [hz] at this; cases this
      · intro r hr
        simp only at hr
        split at hr
        · rcases List.mem_append.mp hr with h1 | h1
          · exact h1
          · simp at h1
        · exact hr
  · have hb' : (st.nblocks == 0) = false := by simpa using hb
    simp only [hb', Bool.false_eq_true, if_false] at h
    repeat' split at h
    all_goals first
      | (injection h with h; subst h; exact ⟨hi.names, fun r hr => hr, rfl, rfl, rfl⟩)
      | (simp at h)

theorem mem_set_some (l : List (Option Bytes)) (i : Nat) (v : Option Bytes) (r : Bytes) (h : some r ∈ l.set i v) :
    some r ∈ l ∨ v = some r := by
  rcases List.mem_or_eq_of_mem_set h with h1 | h1
  · exact Or.inl h1
  · exact Or.inr h1.symm

theorem blkAppend_nd (cfg : Cfg) (hg : cfg.digital = false → cfg.inmap.emits isGraph = true) (st st' : BlkSt) (seq : Bytes)
    (h : blkAppend cfg st seq = .inl st') (hr : cfg.digital = false → ∀ r, some r ∈ st.rows → r.all isGraph = true) :
    st'.names = st.names ∧ (cfg.digital = false → ∀ r, some r ∈ st'.rows → r.all isGraph = true) ∧
    st'.phase = st.phase ∧ st'.bsl = st.bsl := by
  unfold blkAppend at h
  split at h
  · simp at h
  · rename_i cur hcur
    have hcm : cur ∈ st.rows := List.mem_of_getElem? hcur
    repeat' split at h
    all_goals try simp only at h
    all_goals repeat' split at h
    all_goals first
      | (simp at h; done)
      | (injection h with h; subst h
         refine ⟨rfl, ?_, rfl, rfl⟩
         intro hd r hmem
         rcases mem_set_some _ _ _ _ hmem with h1 | h1
         · exact hr hd r h1
         · first
             | (exfalso; simp_all; done)
             | exact strmapcat_all cfg.inmap isGraph (hg hd) cur seq (fun d hdd => hr hd d (by rw [← hdd]; exact hcm)) r h1)

theorem clustalSeqLine_nd (cfg : Cfg) (hg : cfg.digital = false → cfg.inmap.emits isGraph = true) (st st' : BlkSt) (p : Bytes)
    (h : clustalSeqLine cfg st p = .inl st') (hi : BlkNdInv cfg st) (hph : st.idx ≠ 0 → 1 ≤ st.bsl) : BlkNdInv cfg st' := by
  unfold clustalSeqLine at h
  split at h
  · simp at h
  · rename_i c hc
    split at h
    · simp at h
    · split at h
      · simp at h
      · rename_i hmis
        split at h
        · rename_i name seq hname hseq
          unfold blkStore at h
          split at h
          · simp at h
          · rename_i st1 hnm
            have hsl : 1 ≤ (setBlock st c).bsl := by
              unfold setBlock
              by_cases h0 : st.idx = 0
              · simp only [h0, beq_self_eq_true, if_true]; exact (clustalCols_ok p c hc).2.2
              · have : (st.idx == 0) = false := by simpa using h0
                simp only [this, Bool.false_eq_true, if_false]; exact hph h0
            have hsb : (setBlock st c).names = st.names ∧ (setBlock st c).rows = st.rows := by
              unfold setBlock; split <;> exact ⟨rfl, rfl⟩
            have hi1 : BlkNdInv cfg { setBlock st c with phase := .inblock } :=
              { names := by show ∀ nm ∈ (setBlock st c).names, _; rw [hsb.1]; exact hi.names
                rows := by show _ → ∀ r, some r ∈ (setBlock st c).rows → _; rw [hsb.2]; exact hi.rows
                bsl := fun _ => hsl }
            obtain ⟨n1, n2, n3, n4, _⟩ := blkName_nd cfg true _ st1 name hnm (clustal_name_nospace p c name hc hname)
              (name_ne_gen p _ _ name (clustalCols_name p c hc).2 hname) hi1
            obtain ⟨a1, a2, a3, a4⟩ := blkAppend_nd cfg hg st1 st' seq h (fun hd r hr => hi1.rows hd r (n2 r hr))
            exact { names := by rw [a1]; exact n1, rows := a2
                    bsl := fun _ => by rw [a4, n4]; exact hsl }
        · simp at h

theorem allSome_mem : ∀ (l : List (Option Bytes)) (rows : List Bytes), allSome l = some rows → ∀ r ∈ rows, some r ∈ l
  | [], rows, h, r, hr => by simp [allSome] at h; subst h; simp at hr
  | none :: _, rows, h, r, hr => by simp [allSome] at h
  | some a :: rest, rows, h, r, hr => by
    simp only [allSome, Option.map_eq_some_iff] at h
    obtain ⟨rs, h1, h2⟩ := h
    subst h2
    rcases List.mem_cons.mp hr with rfl | hr
    · simp
    · exact List.mem_cons_of_mem _ (allSome_mem rest rs h1 r hr)

def CluNdGood (cfg : Cfg) (r : Res Msa) : Prop :=
  ∀ m, r = .ok m → (∀ nm ∈ m.names, (nm ≠ [] ∧ ∀ x ∈ nm, isSpace x = false ∧ x ≠ 0)) ∧ m.digital = cfg.digital ∧ m.kp = cfg.kp ∧ 1 ≤ m.alen ∧
    (cfg.digital = false → ∀ r ∈ m.aseq, r.all isGraph = true)

theorem blkNdInv_idx0 (cfg : Cfg) (st : BlkSt) (hi : BlkNdInv cfg st) (a n : Nat) :
    BlkNdInv cfg { st with alen := a, nblocks := n, idx := 0 } :=
  { names := hi.names, rows := hi.rows, bsl := hi.bsl }

theorem clustalStep_nd (like : Bool) (cfg : Cfg) (hg : cfg.digital = false → cfg.inmap.emits isGraph = true) (st : BlkSt) (l : Bytes)
    (hi : BlkNdInv cfg st) : StepOk (BlkNdInv cfg) (CluNdGood cfg) (clustalStep like cfg st l) := by
  cases hs : clustalStep like cfg st l with
  | inr r =>
    intro m hm
    subst hm
    exact absurd hs (clustalStep_notOk like cfg st l m)
  | inl st' =>
    show BlkNdInv cfg st'
    unfold clustalStep at hs
    split at hs
    · -- lead
      rename_i hph
      split at hs
      · injection hs with hs; subst hs; exact hi
      · repeat' split at hs
        all_goals first
          | (simp at hs; done)
          | (injection hs with hs; subst hs
             exact { names := hi.names, rows := hi.rows, bsl := fun h => by rcases h with h | h <;> cases h })
    · -- hdr
      split at hs
      · injection hs with hs; subst hs; exact hi
      · exact clustalSeqLine_nd cfg hg _ st' l hs
          { names := hi.names, rows := hi.rows, bsl := hi.bsl } (fun h => absurd rfl h)
    · -- inblock
      rename_i hph
      split at hs
      · exact clustalSeqLine_nd cfg hg st st' l hs hi (fun _ => hi.bsl (Or.inl hph))
      · split at hs
        · simp at hs
        · injection hs with hs; subst hs
          exact { names := hi.names, rows := hi.rows, bsl := fun _ => hi.bsl (Or.inl hph) }
    · -- between
      split at hs
      · injection hs with hs; subst hs; exact hi
      · exact clustalSeqLine_nd cfg hg _ st' l hs
          { names := hi.names, rows := hi.rows, bsl := hi.bsl } (fun h => absurd rfl h)

theorem blkResult_nd (cfg : Cfg) (st : BlkSt) (rf : Option Bytes) (hi : BlkNdInv cfg st) (ha : 1 ≤ st.alen) :
    CluNdGood cfg (blkResult cfg st rf) := by
  intro m hm
  unfold blkResult at hm
  split at hm
  · simp at hm
  · split at hm
    · simp at hm
    · rename_i rows hrows
      split at hm
      · simp at hm
      · injection hm with hm
        subst hm
        refine ⟨hi.names, rfl, rfl, ha, ?_⟩
        intro hd r hr
        simp only [hd, Bool.false_eq_true, if_false] at hr
        have := allSome_mem _ rows hrows r hr
        exact hi.rows hd r (List.mem_of_mem_take this)

theorem clustalFinish_nd (cfg : Cfg) (st : BlkSt) (hi : BlkNdInv cfg st) : CluNdGood cfg (clustalFinish cfg st) := by
  unfold clustalFinish
  split
  · intro m hm; simp at hm
  · intro m hm; simp at hm
  · intro m hm; simp at hm
  · rename_i hph
    have hb := hi.bsl (Or.inr hph)
    exact blkResult_nd cfg _ none { names := hi.names, rows := hi.rows, bsl := fun _ => hb } (by show 1 ≤ st.alen + st.bsl; omega)

theorem clustalRead_nd (like : Bool) (cfg : Cfg) (hg : cfg.digital = false → cfg.inmap.emits isGraph = true) (lines : List Bytes) :
    CluNdGood cfg (clustalRead like cfg lines).1 :=
  runLines_inv (clustalStep like cfg) (clustalFinish cfg) (BlkNdInv cfg) (CluNdGood cfg)
    (fun st l h => clustalStep_nd like cfg hg st l h) (fun st h => clustalFinish_nd cfg st h) lines {}
    { names := fun _ h => by simp at h, rows := fun _ r h => by simp at h,
      bsl := fun h => by rcases h with h | h <;> cases h }

/-- no stored name is empty (a name field starting with a NUL byte is stored as the empty string) -/
def cluNamesNeB (m : Msa) : Bool := m.names.all fun nm => !nm.isEmpty

/-- no row after the first looks like a consensus line (text mode): its name or every one of its residues is outside `" .:*"` -/
def cluNotConsTextB (m : Msa) : Bool :=
  (List.range m.nseq).all fun i =>
    i == 0 || (m.names.getD i []).any (fun c => !inDelim bConsensus c) || (m.aseq.getD i []).all (fun t => !inDelim bConsensus t)

/-- … digital mode: its name holds a character outside `" .:*"`, or no code of the row prints as `*` -/
def cluNotConsDigB (a : Abc) (m : Msa) : Bool :=
  (List.range m.nseq).all fun i =>
    i == 0 || (m.names.getD i []).any (fun c => !inDelim bConsensus c) ||
      (dsqCodes (some (m.ax.getD i []))).all (fun x => a.sym.getD x.toNat 0 != 42)

def cluTextGraphB : Bool := (clustalInmap none).emits isGraph

theorem cluTextGraphB_true : cluTextGraphB = true := by decide +kernel

theorem cluName_ok (m : Msa) (hn : ∀ nm ∈ m.names, (nm ≠ [] ∧ ∀ x ∈ nm, isSpace x = false ∧ x ≠ 0)) :
    ∀ i, i < m.nseq → cluNameOk (m.names.getD i []) := by
  intro i hi
  exact hn _ (rd_getD_mem m.names i hi)

/-- **what the Clustal reader returns in text mode can be written and read back**, given that no row
    after the first looks like a consensus line -/
theorem clustalRead_domain_text (like : Bool) (lines : List Bytes) (m : Msa) (rest : List Bytes)
    (h : clustalRead like (clustalCfg none) lines = (.ok m, rest)) (hnc : cluNotConsTextB m = true) :
    ClustalTextWritable m := by
  have hg := clustalRead_good like (clustalCfg none) ⟨by decide +kernel, by decide +kernel⟩ lines
  have hn := clustalRead_nd like (clustalCfg none) (fun _ => cluTextGraphB_true) lines
  rw [h] at hg hn
  obtain ⟨hnm, hdig, _, halen, hgr⟩ := hn m rfl
  have hdig' : m.digital = false := hdig
  obtain ⟨h1, hrows⟩ := rd_wellFormed_rows m hg
  rw [hdig'] at hrows
  simp only [Bool.false_eq_true, if_false] at hrows
  exact
    { dig := hdig', n1 := h1, alen1 := halen
      name_ok := cluName_ok m hnm
      row_ok := fun i hi => by
        have hmem := rd_getD_mem m.aseq i (by rw [hrows.1]; exact hi)
        exact ⟨(hrows.2 _ hmem).1, fun t ht => (List.all_eq_true.mp (hgr rfl _ hmem)) t ht⟩
      notcons := fun i hi h1i => by
        have := (List.all_eq_true.mp hnc) i (List.mem_range.mpr hi)
        have hi0 : (i == 0) = false := by simp; omega
        simp only [hi0, Bool.false_or, Bool.or_eq_true, List.any_eq_true, List.all_eq_true, Bool.not_eq_true'] at this
        rcases this with ⟨c, hc, hd⟩ | h2
        · exact Or.inl ⟨c, hc, hd⟩
        · exact Or.inr h2 }

/-- … and in digital mode -/
theorem clustalRead_domain_digital (like : Bool) (a : Abc) (hv : (clustalCfg (some a)).valid) (lines : List Bytes) (m : Msa)
    (rest : List Bytes) (h : clustalRead like (clustalCfg (some a)) lines = (.ok m, rest))
    (hnc : cluNotConsDigB a m = true) : ClustalDigitalWritable a m := by
  have hg := clustalRead_good like (clustalCfg (some a)) hv lines
  have hn := clustalRead_nd like (clustalCfg (some a)) (fun hd => by simp [clustalCfg, Cfg.digital] at hd) lines
  rw [h] at hg hn
  obtain ⟨hnm, hdig, hkp, halen, _⟩ := hn m rfl
  have hdig' : m.digital = true := hdig
  have hkp' : m.kp = a.kp := hkp
  obtain ⟨h1, hrows⟩ := rd_wellFormed_rows m hg
  rw [hdig'] at hrows
  simp only [if_true] at hrows
  exact
    { dig := hdig', n1 := h1, alen1 := halen
      name_ok := cluName_ok m hnm
      row_ok := fun i hi => by
        rw [← hkp']
        exact hrows.2 _ (rd_getD_mem m.ax i (by rw [hrows.1]; exact hi))
      notcons := fun i hi h1i => by
        have := (List.all_eq_true.mp hnc) i (List.mem_range.mpr hi)
        have hi0 : (i == 0) = false := by simp; omega
        simp only [hi0, Bool.false_or, Bool.or_eq_true, List.any_eq_true, List.all_eq_true, Bool.not_eq_true', bne_iff_ne,
          ne_eq] at this
        rcases this with ⟨c, hc, hd⟩ | h2
        · exact Or.inl ⟨c, hc, hd⟩
        · exact Or.inr h2 }

end EaselModel.Msafile
