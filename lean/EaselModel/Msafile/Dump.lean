import EaselModel.Core.Proto
import EaselModel.Msafile.Basic
/-! Canonical text form of an `Msa`, byte-identical to `dump_msa()` of `harness/h_msafile.c`, and its inverse for the
    `rt` operation of C03 (the fields of the op line are the dump's fields). -/
namespace EaselModel.Msafile
open EaselModel.Proto

def hexS (b : Bytes) : String := if b.isEmpty then "-" else hexOfBytes b
def hexO (o : Option Bytes) : String := match o with | none => "~" | some b => hexS b

def hex16 (x : UInt64) : String :=
  let s := Nat.toDigits 16 x.toNat
  String.ofList (List.replicate (16 - s.length) '0' ++ s)
def hex8 (x : UInt32) : String :=
  let s := Nat.toDigits 16 x.toNat
  String.ofList (List.replicate (8 - s.length) '0' ++ s)

def Wgt.bits : Wgt → UInt64
  | .unset => 0xbff0000000000000
  | .dflt => 0x3ff0000000000000
  | .val b => b

def joinWith (sep : String) (l : List String) : String := sep.intercalate l

def dumpOpt (key : String) (o : Option Bytes) : String :=
  match o with | none => "" | some b => ";" ++ key ++ "=" ++ hexS b

def dumpOptRows (key : String) (o : OptRows) (n : Nat) : String :=
  match o with
  | none => ""
  | some l => ";" ++ key ++ "=" ++ joinWith "," ((List.range n).map fun i => hexO (l.getD i none))

def Msa.dump (m : Msa) : String :=
  let n := m.nseq
  let rows := (List.range n).map fun i =>
    if m.digital then
      match m.ax[i]? with
      | some r => hexS ((r.drop 1).takeWhile (· != dsqSENTINEL))
      | none => "~"
    else match m.aseq[i]? with
      | some r => hexS r
      | none => "~"
  "{n=" ++ toString n ++ ";alen=" ++ toString m.alen ++ ";dig=" ++ (if m.digital then "1" else "0") ++ ";hasw=" ++ (if m.hasw then "1" else "0")
  ++ ";nm=" ++ joinWith "," (m.names.map hexS)
  ++ ";sq=" ++ joinWith "," rows
  ++ (if m.hasw then ";w=" ++ joinWith "," (m.wgt.map fun w => hex16 w.bits) else "")
  ++ dumpOpt "name" m.name ++ dumpOpt "desc" m.desc ++ dumpOpt "acc" m.acc ++ dumpOpt "au" m.au
  ++ dumpOpt "sscons" m.ssCons ++ dumpOpt "sacons" m.saCons ++ dumpOpt "ppcons" m.ppCons ++ dumpOpt "rf" m.rf ++ dumpOpt "mm" m.mm
  ++ dumpOptRows "sqacc" m.sqacc n ++ dumpOptRows "sqdesc" m.sqdesc n
  ++ dumpOptRows "ss" m.ss n ++ dumpOptRows "sa" m.sa n ++ dumpOptRows "pp" m.pp n
  ++ (if m.cutoff.any Option.isSome then
        ";cut=" ++ joinWith "," (m.cutoff.map fun c => match c with | none => "~" | some b => hex8 b) else "")
  ++ (if m.comments.isEmpty then "" else ";com=" ++ joinWith "," (m.comments.map hexS))
  ++ (if m.gf.isEmpty then "" else ";gf=" ++ joinWith "," (m.gf.map fun t => hexS t.1 ++ ":" ++ hexS t.2))
  ++ (if m.gs.isEmpty then "" else ";gs=" ++ joinWith "/" (m.gs.map fun t =>
        hexS t.1 ++ ":" ++ joinWith "," ((List.range n).map fun i => hexO (t.2.getD i none))))
  ++ (if m.gc.isEmpty then "" else ";gc=" ++ joinWith "," (m.gc.map fun t => hexS t.1 ++ ":" ++ hexS t.2))
  ++ (if m.gr.isEmpty then "" else ";gr=" ++ joinWith "/" (m.gr.map fun t =>
        hexS t.1 ++ ":" ++ joinWith "," ((List.range n).map fun i => hexO (t.2.getD i none))))
  ++ "}"

/-- one `esl_msafile_Read` outcome in the harness's words -/
def resToken (r : Res Msa) : String :=
  match r with
  | .ok m => " rd=ok " ++ m.dump ++ " chk=" ++ (if m.wellFormed then "ok" else "bad") ++ " val=" ++ (if m.wellFormed then "ok" else "fail")
  | .eof => " rd=eof"
  | .eformat _ => " rd=eformat:msg"
  | .fault => " fault"
  | .exc => " exc"

/-- read alignments until a non-OK outcome, at most `k` times (the harness stops after 64) -/
def readAll (read : List Bytes → Res Msa × List Bytes) : Nat → List Bytes → String
  | 0, _ => " rd=more"
  | k + 1, lines =>
    match read lines with
    | (.ok m, rest) => resToken (.ok m) ++ readAll read k rest
    | (r, _) => resToken r

/-! ## parsing the dump fields back (for the `rt` op) -/

def unhexO (s : String) : Option (Option Bytes) :=
  if s == "~" then some none else (bytesOfHex s).map some

def parseList (s : String) (sep : String := ",") : List String := if s.isEmpty then [] else s.splitOn sep

def parseHexList (s : String) : List Bytes := (parseList s).filterMap bytesOfHex
def parseOptList (s : String) : List (Option Bytes) := (parseList s).filterMap unhexO

def parseHex64 (s : String) : UInt64 :=
  UInt64.ofNat (s.toList.foldl (fun a c => a * 16 + (hexVal c).getD 0) 0)

def parsePairs (s : String) : List (Bytes × Bytes) :=
  (parseList s).filterMap fun it =>
    match it.splitOn ":" with
    | [t, v] => match bytesOfHex t, bytesOfHex v with
      | some a, some b => some (a, b)
      | _, _ => none
    | _ => none

def parseTagRows (s : String) : List (Bytes × List (Option Bytes)) :=
  (parseList s "/").filterMap fun it =>
    match it.splitOn ":" with
    | [t, v] => (bytesOfHex t).map fun a => (a, parseOptList v)
    | _ => none

def wgtOfBits (b : UInt64) : Wgt :=
  if b == 0x3ff0000000000000 then .dflt else if b == 0xbff0000000000000 then .unset else .val b

/-- the text-mode `Msa` described by the fields of an `rt` op line -/
def msaOfFields (ws : List String) : Msa :=
  let g := fun k => arg? ws k
  let names := parseHexList ((g "nm").getD "")
  let n := names.length
  let opt := fun k => (g k).bind fun s => (unhexO s).getD none
  let rows := fun k => (g k).map fun s => (parseOptList s ++ List.replicate n none).take n
  { digital := false, alen := (argNat? ws "alen").getD 0, names := names,
    aseq := parseHexList ((g "sq").getD ""),
    hasw := (g "w").isSome,
    wgt := match g "w" with
      | some s => (parseList s).map fun x => wgtOfBits (parseHex64 x)
      | none => List.replicate n Wgt.dflt,
    name := opt "name", desc := opt "desc", acc := opt "acc", au := opt "au",
    ssCons := opt "sscons", saCons := opt "sacons", ppCons := opt "ppcons", rf := opt "rf", mm := opt "mm",
    sqacc := rows "sqacc", sqdesc := rows "sqdesc", ss := rows "ss", sa := rows "sa", pp := rows "pp",
    cutoff := match g "cut" with
      | some s => (parseList s).map fun x => if x == "~" then none else some (UInt32.ofNat (parseHex64 x).toNat)
      | none => [],
    comments := parseHexList ((g "com").getD ""),
    gf := parsePairs ((g "gf").getD ""), gc := parsePairs ((g "gc").getD ""),
    gs := (parseTagRows ((g "gs").getD "")).map (fun t => (t.1, (t.2 ++ List.replicate n none).take n)),
    gr := (parseTagRows ((g "gr").getD "")).map (fun t => (t.1, (t.2 ++ List.replicate n none).take n)) }

end EaselModel.Msafile
