import EaselModel.Msafile.PsiblastRoundTrip
import EaselModel.Msafile.ClustalWritable
import EaselModel.Msafile.WritePsiblast
import EaselModel.Msafile.AbcTables
/-! Concrete, checkable conditions under which an alignment is `PsiblastWritable`: text mode, and digital mode with the
    generated amino / DNA / RNA alphabets.  The writer's conventions (consensus columns upper case, the others lower
    case, everything that is not a residue `-`, `O` as the unknown residue) are the identity on these alignments. -/
namespace EaselModel.Msafile

theorem rangeMap_eq_chunk (l : Bytes) (pos n : Nat) (f : Nat → UInt8) (hn : n = min 60 (l.length - pos))
    (hf : ∀ b, b < n → f b = l.getD (pos + b) 0) : (List.range n).map f = (l.drop pos).take 60 := by
  apply List.ext_getElem?
  intro b
  by_cases hb : b < n
  · have hb60 : b < 60 := by omega
    have hbl : pos + b < l.length := by omega
    rw [List.getElem?_take]
    simp only [List.getElem?_map, List.getElem?_range hb, Option.map_some, hb60, if_true, List.getElem?_drop, hf b hb,
      List.getD_eq_getElem?_getD, List.getElem?_eq_getElem hbl, Option.getD_some]
  · rw [List.getElem?_eq_none (by simp; omega), List.getElem?_eq_none (by simp; omega)]

theorem psiAcpl (a : Nat) : (if a > psiCpl then psiCpl else a) = min 60 a := by
  by_cases h : a > psiCpl
  · rw [if_pos h]; simp only [psiCpl] at h ⊢; omega
  · rw [if_neg h]; simp only [psiCpl] at h; omega

theorem getD_mem0 (l : Bytes) (k : Nat) (hk : k < l.length) : l.getD k 0 ∈ l := by
  rw [List.getD_eq_getElem?_getD, List.getElem?_eq_getElem hk]; simp

/-! ## text mode -/

/-- the text residues the writer leaves alone in a consensus column: upper-case letters except `O`, and `-` -/
def psiTextSym (t : UInt8) : Bool := (isUpper t && t != 79) || t == 45

/-- table fact: such a character is written unchanged in a consensus column (`-` in any column), the text-mode input map
    sends it to itself, it is an upper-case letter or `-` -/
def psiTextSymOk : Bool :=
  (List.range 256).all fun n =>
    let t := UInt8.ofNat n
    !(psiTextSym t) ||
      (psiTextChar t true == t && (t != 45 || psiTextChar t false == t) &&
       mapByte (psiblastInmap none) t == (CatSt.ok, some t) && (isUpper t || t == 45))

theorem psiTextSymOk_true : psiTextSymOk = true := by decide +kernel

theorem psi_text_sym (t : UInt8) (h : psiTextSym t = true) :
    psiTextChar t true = t ∧ (t = 45 → psiTextChar t false = t) ∧ mapByte (psiblastInmap none) t = (.ok, some t) ∧ psiUpper t := by
  have h1 := (List.all_eq_true.mp psiTextSymOk_true) t.toNat (List.mem_range.mpr t.toNat_lt)
  simp only [UInt8.ofNat_toNat, h, Bool.not_true, Bool.false_or, Bool.and_eq_true, beq_iff_eq, Bool.or_eq_true, bne_iff_ne, ne_eq] at h1
  obtain ⟨⟨⟨h1, h2⟩, h3⟩, h4⟩ := h1
  refine ⟨h1, ?_, h3, h4⟩
  intro e
  rcases h2 with h2 | h2
  · exact absurd e h2
  · exact h2

/-- a text-mode alignment on which the PSI-BLAST writer is the identity: ≥ 1 sequence, ≥ 1 column, names not empty and
    without white space or NUL, residues upper-case letters other than `O` or `-`, and every column is a consensus column
    (by `rf` when present, else by the first sequence) or holds `-` in every row -/
structure PsiblastTextWritable (m : Msa) : Prop where
  dig : m.digital = false
  n1 : 1 ≤ m.nseq
  alen1 : 1 ≤ m.alen
  name_ok : ∀ i, i < m.nseq → cluNameOk (m.names.getD i [])
  row_ok : ∀ i, i < m.nseq → (m.aseq.getD i []).length = m.alen ∧ ∀ t ∈ m.aseq.getD i [], psiTextSym t = true
  col_ok : ∀ pos, pos < m.alen → isConsensusCol none m pos = true ∨ ∀ i, i < m.nseq → aseqAt m i pos = 45

theorem psiblastTextWritable_writable (m : Msa) (h : PsiblastTextWritable m) :
    PsiblastWritable none (psiblastCfg none) id (fun i => m.aseq.getD i []) m :=
  { n1 := h.n1, alen1 := h.alen1, name_ok := h.name_ok
    txt_len := fun i hi => (h.row_ok i hi).1
    line_eq := fun i hi pos hpos => by
      have hlen := (h.row_ok i hi).1
      have hsym := (h.row_ok i hi).2
      have h0 : ∀ t ∈ ((m.aseq.getD i []).drop pos).take 60, t ≠ 0 :=
        fun t ht => (psiUpper_notSpace t (psi_text_sym t (hsym t (mem_of_drop_take ht))).2.2.2).2
      have hmap : (List.range (min 60 (m.alen - pos))).map (fun bpos => psiChar none m i (pos + bpos))
          = ((m.aseq.getD i []).drop pos).take 60 := by
        apply rangeMap_eq_chunk
        · rw [hlen]
        · intro b hb
          have hb' : pos + b < m.alen := by omega
          have hmem : (m.aseq.getD i []).getD (pos + b) 0 ∈ m.aseq.getD i [] :=
            getD_mem0 _ _ (by rw [hlen]; exact hb')
          have hs := psi_text_sym _ (hsym _ hmem)
          rw [psiChar_text_eq]
          show psiTextChar ((m.aseq.getD i []).getD (pos + b) 0) (isConsensusCol none m (pos + b)) = _
          rcases h.col_ok (pos + b) hb' with hc | hc
          · rw [hc]; exact hs.1
          · have e45 : (m.aseq.getD i []).getD (pos + b) 0 = 45 := hc i hi
            cases hcc : isConsensusCol none m (pos + b) with
            | true => exact hs.1
            | false => exact hs.2.1 e45
      unfold psiRowLine
      simp only [psiAcpl, hmap, cstr_id _ h0]
    txt_sym := fun i hi t ht => by
      have := psi_text_sym t ((h.row_ok i hi).2 t ht)
      exact ⟨by simpa [psiblastCfg] using this.2.2.1, this.2.2.2⟩
    row_enc := fun i hi => by
      simp [Msa.stored, h.dig, mkRow, psiblastCfg, Cfg.digital] }

/-! ## digital mode -/

/-- the digital character as a function of the code and the consensus flag -/
def psiDigChar (a : Abc) (x : UInt8) (cons : Bool) : UInt8 :=
  let sym := a.sym.getD x.toNat 0
  let isRes := a.xIsResidue x
  let sym := if sym == 79 then a.cUnknown else sym
  if cons then (if isRes then toUpper sym else 45) else (if isRes then toLower sym else 45)

theorem psiChar_dig_eq (a : Abc) (m : Msa) (i pos : Nat) :
    psiChar (some a) m i pos = psiDigChar a (axAt m i pos) (isConsensusCol (some a) m pos) := rfl

/-- the codes the writer and reader carry faithfully: residues (degenerate ones included) except pyrrolysine `O`, and the gap -/
def psiDigCode (a : Abc) (x : UInt8) : Bool := (a.xIsResidue x && a.sym.getD x.toNat 0 != 79) || x.toNat == a.k

/-- the stored symbol the reader produces for a written character -/
def psiEnc (a : Abc) (t : UInt8) : UInt8 :=
  match mapByte (psiblastInmap (some a)) t with
  | (_, some x) => x
  | _ => 0

/-- table fact about an alphabet -/
def psiDigSymOk (a : Abc) : Bool :=
  ((List.range a.kp).all fun n =>
    let x := UInt8.ofNat n
    let t := psiDigChar a x true
    !(psiDigCode a x) ||
      (mapByte (psiblastInmap (some a)) t == (CatSt.ok, some x) && (isUpper t || t == 45) &&
        (n != a.k || psiDigChar a x false == t)))
  && decide (a.kp ≤ 250)

theorem psiDigSymOk_amino : psiDigSymOk abcAmino = true := by decide +kernel
theorem psiDigSymOk_dna : psiDigSymOk abcDna = true := by decide +kernel
theorem psiDigSymOk_rna : psiDigSymOk abcRna = true := by decide +kernel

theorem psi_dig_sym (a : Abc) (ha : psiDigSymOk a = true) (x : UInt8) (hx : x.toNat < a.kp) (hc : psiDigCode a x = true) :
    mapByte (psiblastInmap (some a)) (psiDigChar a x true) = (.ok, some (psiEnc a (psiDigChar a x true))) ∧
    psiUpper (psiDigChar a x true) ∧ psiEnc a (psiDigChar a x true) = x ∧
    (x.toNat = a.k → psiDigChar a x false = psiDigChar a x true) := by
  unfold psiDigSymOk at ha
  simp only [Bool.and_eq_true, decide_eq_true_eq] at ha
  have h1 := (List.all_eq_true.mp ha.1) x.toNat (List.mem_range.mpr hx)
  simp only [UInt8.ofNat_toNat, hc, Bool.not_true, Bool.false_or, Bool.and_eq_true, beq_iff_eq, Bool.or_eq_true, bne_iff_ne, ne_eq] at h1
  obtain ⟨⟨hm, hu⟩, hk⟩ := h1
  have he : psiEnc a (psiDigChar a x true) = x := by unfold psiEnc; rw [hm]
  refine ⟨by rw [he]; exact hm, hu, he, ?_⟩
  intro e
  rcases hk with hk | hk
  · exact absurd e hk
  · exact hk

/-- a digital alignment (alphabet `a`) on which the PSI-BLAST writer is the identity -/
structure PsiblastDigitalWritable (a : Abc) (m : Msa) : Prop where
  dig : m.digital = true
  n1 : 1 ≤ m.nseq
  alen1 : 1 ≤ m.alen
  name_ok : ∀ i, i < m.nseq → cluNameOk (m.names.getD i [])
  row_ok : ∀ i, i < m.nseq → dsqRowOk a.kp m.alen (m.ax.getD i []) = true ∧
    ∀ x ∈ dsqCodes (some (m.ax.getD i [])), psiDigCode a x = true
  col_ok : ∀ pos, pos < m.alen → isConsensusCol (some a) m pos = true ∨ ∀ i, i < m.nseq → (axAt m i pos).toNat = a.k

/-- the text the writer prints for row `i` -/
def psiDigTxt (a : Abc) (m : Msa) (i : Nat) : Bytes :=
  (dsqCodes (some (m.ax.getD i []))).map fun x => psiDigChar a x true

theorem getD_map0 (l : Bytes) (f : UInt8 → UInt8) (k : Nat) (hk : k < l.length) : (l.map f).getD k 0 = f (l.getD k 0) := by
  simp [List.getD_eq_getElem?_getD, List.getElem?_eq_getElem hk]

theorem axAt_codes (m : Msa) (i pos : Nat) (codes : Bytes) (h : m.ax.getD i [] = dsqSENTINEL :: codes ++ [dsqSENTINEL])
    (hp : pos < codes.length) : axAt m i pos = codes.getD pos 0 := by
  unfold axAt
  rw [h]
  simp [List.getD_eq_getElem?_getD, List.getElem?_append_left hp]

theorem psiblastDigitalWritable_writable (a : Abc) (ha : psiDigSymOk a = true) (m : Msa) (h : PsiblastDigitalWritable a m) :
    PsiblastWritable (some a) (psiblastCfg (some a)) (psiEnc a) (psiDigTxt a m) m := by
  have hcodes : ∀ i, i < m.nseq →
      (dsqCodes (some (m.ax.getD i []))).all (fun x => decide (x.toNat < a.kp)) = true ∧ (dsqCodes (some (m.ax.getD i []))).length = m.alen := by
    intro i hi
    cases hr : m.ax.getD i [] with
    | nil => have := (h.row_ok i hi).1; rw [hr] at this; simp [dsqRowOk] at this
    | cons s0 rest =>
      have := (h.row_ok i hi).1; rw [hr] at this
      simp only [dsqRowOk, Bool.and_eq_true, beq_iff_eq] at this
      refine ⟨by simpa [dsqCodes] using this.2, ?_⟩
      simp only [dsqCodes, List.drop_succ_cons, List.drop_zero, List.length_dropLast]
      omega
  have hlt : ∀ i, i < m.nseq → ∀ x ∈ dsqCodes (some (m.ax.getD i [])), x.toNat < a.kp := by
    intro i hi x hx
    simpa using (List.all_eq_true.mp (hcodes i hi).1) x hx
  have hlen : ∀ i, i < m.nseq → (psiDigTxt a m i).length = m.alen := fun i hi => by
    simp only [psiDigTxt, List.length_map]; exact (hcodes i hi).2
  have hsym : ∀ i, i < m.nseq → ∀ x ∈ dsqCodes (some (m.ax.getD i [])), _ :=
    fun i hi x hx => psi_dig_sym a ha x (hlt i hi x hx) ((h.row_ok i hi).2 x hx)
  exact
    { n1 := h.n1, alen1 := h.alen1, name_ok := h.name_ok
      txt_len := hlen
      line_eq := fun i hi pos hpos => by
        have hshape := dsqRow_shape _ _ _ (h.row_ok i hi).1
        have hcl := (hcodes i hi).2
        have h0 : ∀ t ∈ ((psiDigTxt a m i).drop pos).take 60, t ≠ 0 := by
          intro t ht
          have ht' := mem_of_drop_take ht
          simp only [psiDigTxt, List.mem_map] at ht'
          obtain ⟨x, hx, rfl⟩ := ht'
          exact (psiUpper_notSpace _ (hsym i hi x hx).2.1).2
        have hmap : (List.range (min 60 (m.alen - pos))).map (fun bpos => psiChar (some a) m i (pos + bpos))
            = ((psiDigTxt a m i).drop pos).take 60 := by
          apply rangeMap_eq_chunk
          · rw [hlen i hi]
          · intro b hb
            have hb' : pos + b < m.alen := by omega
            have hbc : pos + b < (dsqCodes (some (m.ax.getD i []))).length := by rw [hcl]; exact hb'
            have hax := axAt_codes m i (pos + b) _ hshape hbc
            have hmem : (dsqCodes (some (m.ax.getD i []))).getD (pos + b) 0 ∈ dsqCodes (some (m.ax.getD i [])) := getD_mem0 _ _ hbc
            have hs := hsym i hi _ hmem
            have htx : (psiDigTxt a m i).getD (pos + b) 0
                = psiDigChar a ((dsqCodes (some (m.ax.getD i []))).getD (pos + b) 0) true := by
              exact getD_map0 _ _ _ hbc
            rw [psiChar_dig_eq, hax, htx]
            rcases h.col_ok (pos + b) hb' with hc | hc
            · rw [hc]
            · cases hcc : isConsensusCol (some a) m (pos + b) with
              | true => rfl
              | false =>
                have := hc i hi
                rw [hax] at this
                exact hs.2.2.2 this
        unfold psiRowLine
        simp only [psiAcpl, hmap, cstr_id _ h0]
      txt_sym := fun i hi t ht => by
        simp only [psiDigTxt, List.mem_map] at ht
        obtain ⟨x, hx, rfl⟩ := ht
        have := hsym i hi x hx
        exact ⟨by simpa [psiblastCfg] using this.1, this.2.1⟩
      row_enc := fun i hi => by
        have hshape := dsqRow_shape _ _ _ (h.row_ok i hi).1
        have hmap : (psiDigTxt a m i).map (psiEnc a) = dsqCodes (some (m.ax.getD i [])) := by
          simp only [psiDigTxt, List.map_map]
          exact map_id_of _ _ (fun x hx => (hsym i hi x hx).2.2.1)
        rw [hmap]
        simp only [Msa.stored, h.dig, if_true, mkRow, psiblastCfg, Cfg.digital, Option.isSome_some]
        exact hshape }

end EaselModel.Msafile
