import EaselModel.Msafile.Basic
/-! # What the alignment writers are written with: `fprintf` conversions and row slices

Core Lean only.  `printf("%.2f", x)` / `printf("%.1f", (double) f)` are modelled exactly: a binary floating-point number
is `mant * 2^e` exactly, so the correctly rounded (round-half-even on the EXACT value, which is what glibc does in the
default rounding mode) decimal expansion is integer arithmetic.  No Lean `Float` is involved. -/
namespace EaselModel.Msafile

/-! ## `%d`, `%0*d`, `%-*s`, `%-*.*s` -/

/-- `%d` of a non-negative int -/
def natDec (n : Nat) : Bytes := (Nat.toDigits 10 n).map fun c => UInt8.ofNat c.toNat

/-- `%0*d` (width `w`, non-negative value) -/
def zeroPad (w : Nat) (n : Nat) : Bytes :=
  let d := natDec n
  List.replicate (w - d.length) 48 ++ d

/-- `%-*s`: left-justified in a field of `|w|` columns (a negative `*` argument is a `-` flag and a positive width);
    a string longer than the field is NOT truncated -/
def padRight (w : Int) (s : Bytes) : Bytes := s ++ List.replicate (w.natAbs - s.length) 32

/-- `%-*.*s` with width = precision = `w`: truncated to `w` bytes, then padded to `w` -/
def padTrunc (w : Nat) (s : Bytes) : Bytes := padRight w (s.take w)

/-! ## `%.<prec>f` -/

/-- the decimal expansion with `prec` decimals of `mant * 2^e`, correctly rounded, ties to even -/
def fmtFixed (neg : Bool) (mant : Nat) (e : Int) (prec : Nat) : Bytes :=
  let p10 := 10 ^ prec
  let q : Nat :=
    if e ≥ 0 then mant * p10 * 2 ^ e.toNat
    else
      let den := 2 ^ (-e).toNat
      let num := mant * p10
      let q0 := num / den
      let r := num % den
      if 2 * r > den || (2 * r == den && q0 % 2 == 1) then q0 + 1 else q0
  let fs := natDec (q % p10)
  (if neg then [45] else []) ++ natDec (q / p10)
    ++ (if prec == 0 then [] else 46 :: (List.replicate (prec - fs.length) 48 ++ fs))

/-- what glibc prints for infinities and NaNs under `%f` -/
def fmtSpecial (neg : Bool) (isNan : Bool) : Bytes :=
  (if neg then [45] else []) ++ (if isNan then [110, 97, 110] else [105, 110, 102])

/-- `printf("%.2f", x)` for the binary64 number with bit pattern `bits` -/
def fmtF2 (bits : UInt64) : Bytes :=
  let b := bits.toNat
  let neg := b / 2 ^ 63 == 1
  let ex : Nat := (b / 2 ^ 52) % 2048
  let fr := b % 2 ^ 52
  if ex == 2047 then fmtSpecial neg (fr != 0)
  else if ex == 0 then fmtFixed neg fr (-1074) 2
  else fmtFixed neg (fr + 2 ^ 52) (Int.ofNat ex - 1075) 2

/-- `printf("%.1f", (double) f)` for the binary32 number with bit pattern `bits` (the promotion to double is exact) -/
def fmtF1 (bits : UInt32) : Bytes :=
  let b := bits.toNat
  let neg := b / 2 ^ 31 == 1
  let ex : Nat := (b / 2 ^ 23) % 256
  let fr := b % 2 ^ 23
  if ex == 255 then fmtSpecial neg (fr != 0)
  else if ex == 0 then fmtFixed neg fr (-149) 1
  else fmtFixed neg (fr + 2 ^ 23) (Int.ofNat ex - 150) 1

/-- the binary64 pattern of a weight -/
def Wgt.toBits : Wgt → UInt64
  | .unset => 0xbff0000000000000
  | .dflt => 0x3ff0000000000000
  | .val b => b

/-! ## row slices -/

/-- `esl_abc_TextizeN(a, dptr, L, buf)`: at most `L` codes, stopping at a sentinel (where a NUL is stored) -/
def textizeN (a : Abc) (dptr : Bytes) (L : Nat) : Bytes :=
  ((dptr.take L).takeWhile (· != dsqSENTINEL)).map fun x => a.sym.getD x.toNat 0

/-- `strncpy(buf, s + pos, n); buf[n] = 0` seen through `%s` -/
def strChunk (s : Bytes) (pos n : Nat) : Bytes := cstr ((s.drop pos).take n)

/-- the piece `[pos, pos+n)` of aligned row `i` as text:
    `esl_abc_TextizeN(msa->abc, msa->ax[i]+pos+1, n, buf)` / `strncpy(buf, msa->aseq[i]+pos, n)` -/
def seqChunk (abc : Option Abc) (m : Msa) (i pos n : Nat) : Bytes :=
  match abc with
  | some a => textizeN a ((m.ax.getD i []).drop (pos + 1)) n
  | none => strChunk (m.aseq.getD i []) pos n

/-- `msa->ax[i][pos+1]` (0 when outside the row: never the case for a well-formed alignment and `pos < alen`) -/
def axAt (m : Msa) (i pos : Nat) : UInt8 := (m.ax.getD i []).getD (pos + 1) 0

/-- `msa->aseq[i][pos]` -/
def aseqAt (m : Msa) (i pos : Nat) : UInt8 := (m.aseq.getD i []).getD pos 0

/-- the positions `apos = pos, pos+cpl, …` visited by `for (apos = pos; apos < alen; apos += cpl)` -/
def blockStartsFrom (alen cpl pos : Nat) : List Nat :=
  if _h : pos < alen ∧ 0 < cpl then pos :: blockStartsFrom alen cpl (pos + cpl) else []
termination_by alen - pos
decreasing_by omega

def blockStarts (alen cpl : Nat) : List Nat := blockStartsFrom alen cpl 0

/-- `esl_str_GetMaxWidth` -/
def maxWidth (l : List Bytes) : Nat := l.foldl (fun a s => max a s.length) 0

/-- every line followed by one LF -/
def joinLF (ls : List Bytes) : Bytes := ls.flatMap (· ++ [10])

def optRow (o : OptRows) (i : Nat) : Option Bytes := (o.getD []).getD i none

/-- `esl_abc_XIsResidue(a, x)` -/
def Abc.xIsResidue (a : Abc) (x : UInt8) : Bool := x.toNat < a.k || (x.toNat > a.k && x.toNat < a.kp - 2)

/-- `esl_abc_CGetUnknown(a)` -/
def Abc.cUnknown (a : Abc) : UInt8 := a.sym.getD (a.kp - 3) 0

end EaselModel.Msafile
