import EaselModel.Msafile.Lemmas
/-! Generic facts for the write/read round trips (C03): joining lines with LF and splitting them again, running a
    line-at-a-time reader over a known prefix of lines, cutting a row into 60-column pieces. -/
namespace EaselModel.Msafile

/-! ## `splitLines` inverts "terminate every line with one LF" -/

theorem splitLinesT_line (l rest acc : Bytes) (h10 : (10 : UInt8) ∉ l) :
    splitLinesT (l ++ 10 :: rest) acc = lineOfAcc (l.reverse ++ acc) :: splitLinesT rest [] := by
  induction l generalizing acc with
  | nil => simp [splitLinesT]
  | cons c l ih =>
    have hc : c ≠ 10 := fun h => h10 (by simp [h])
    have hl : (10 : UInt8) ∉ l := fun h => h10 (by simp [h])
    have hc' : (c == 10) = false := by simpa using hc
    simp only [List.cons_append, splitLinesT, hc', Bool.false_eq_true, if_false]
    rw [ih (c :: acc) hl]
    simp

theorem lineOfAcc_noCR (l : Bytes) (h : l.getLast? ≠ some 13) : lineOfAcc l.reverse = (l, [10]) := by
  unfold lineOfAcc
  have : l.reverse.head? = l.getLast? := by simp
  rw [this]
  have h' : (l.getLast? == some 13) = false := by simpa using h
  simp [h']

/-- a line that can be written and read back unchanged: no LF inside, no CR at the end -/
def lineOk (l : Bytes) : Prop := (10 : UInt8) ∉ l ∧ l.getLast? ≠ some 13

theorem splitLines_join (ls : List Bytes) (h : ∀ l ∈ ls, lineOk l) :
    splitLines (ls.flatMap (· ++ [10])) = ls := by
  unfold splitLines
  induction ls with
  | nil => simp [splitLinesT]
  | cons l ls ih =>
    have hl := h l (by simp)
    simp only [List.flatMap_cons, List.append_assoc, List.singleton_append]
    rw [splitLinesT_line l _ [] hl.1]
    simp only [List.append_nil, List.map_cons, lineOfAcc_noCR l hl.2]
    rw [ih (fun l' hl' => h l' (by simp [hl']))]

/-! ## running a reader over a prefix of lines all of whose steps continue -/

def stepsFrom {σ α : Type} (step : σ → Bytes → Sum σ (Res α)) : σ → List Bytes → Sum σ (Res α)
  | st, [] => .inl st
  | st, l :: ls =>
    match step st l with
    | .inl st' => stepsFrom step st' ls
    | .inr r => .inr r

theorem runLines_append_inl {σ α : Type} (step : σ → Bytes → Sum σ (Res α)) (finish : σ → Res α) :
    ∀ (ls₁ ls₂ : List Bytes) (st st' : σ), stepsFrom step st ls₁ = .inl st' →
      runLines step finish st (ls₁ ++ ls₂) = runLines step finish st' ls₂ := by
  intro ls₁
  induction ls₁ with
  | nil => intro ls₂ st st' h; simp [stepsFrom] at h; simp [h]
  | cons l ls ih =>
    intro ls₂ st st' h
    simp only [stepsFrom] at h
    simp only [List.cons_append, runLines]
    cases hs : step st l with
    | inl s1 => rw [hs] at h; simp only; exact ih ls₂ s1 st' h
    | inr r => rw [hs] at h; simp at h

theorem stepsFrom_append {σ α : Type} (step : σ → Bytes → Sum σ (Res α)) :
    ∀ (ls₁ ls₂ : List Bytes) (st st' : σ), stepsFrom step st ls₁ = .inl st' →
      stepsFrom step st (ls₁ ++ ls₂) = stepsFrom step st' ls₂ := by
  intro ls₁
  induction ls₁ with
  | nil => intro ls₂ st st' h; simp [stepsFrom] at h; simp [h]
  | cons l ls ih =>
    intro ls₂ st st' h
    simp only [stepsFrom] at h
    simp only [List.cons_append, stepsFrom]
    cases hs : step st l with
    | inl s1 => rw [hs] at h; simp only; exact ih ls₂ s1 st' h
    | inr r => rw [hs] at h; simp at h

end EaselModel.Msafile
