import EaselModel.Msafile.Basic
import EaselModel.Msafile.Afa
/-! # PHYLIP, interleaved and sequential: `esl_msafile_phylip.c`
    (`esl_msafile_phylip_SetInmap`, `esl_msafile_phylip_Read`, `phylip_interleaved_Read`, `phylip_sequential_Read`,
     `phylip_rectify_input_name`) and `esl_mem_strtoi32` of `esl_mem.c`, for a DECLARED format with the default
    `afp->fmtd.namewidth = 0`, which both readers turn into the strict name width 10.

The readers are the C functions rewritten as state machines over the lines `esl_msafile_GetLine` delivers; a state is
"the locals at a `esl_msafile_GetLine` call", `phase` says which of the calls it is:
* `lead` - the `while` that skips leading blank lines in `esl_msafile_phylip_Read`;
* `hdr`  - the `do … while` after the header that loads the first alignment line;
* `rows` - the `esl_msafile_GetLine` at the bottom of the row loop (interleaved: `idx` already incremented;
           sequential: inside `while (status == eslOK && alen < alen_stated)`);
* `gap`  - the `while` that tolerates blank lines after a block (interleaved) / after a sequence (sequential).
The arrays `msa->sqname[]`, `msa->aseq[]` / `msa->ax[]` are allocated from the header's `nseq`
(`esl_msa_Create(nseq, -1)`: all entries NULL) and are indexed by `idx`: every access is bounds-checked, failure is `.fault`.
`esl_msafile_PutLine` is the second component of a successful outcome: the line handed back to the stream. -/
namespace EaselModel.Msafile

/-! ## `esl_msafile_phylip_SetInmap` -/

def phylipInmap (abc : Option Abc) : InMap :=
  match abc with
  | some a =>
    -- for (sym = 1; sym < 128; sym++) inmap[sym] = abc->inmap[sym];   (entry 0 is overwritten below)
    let t := a.inmap
    -- for (sym = '0'; sym <= '9'; sym++) inmap[sym] = eslDSQ_IGNORED;   (fix 1a55a73; `<` before)
    let t := (List.range 10).foldl (fun t i => t.setIfInBounds (48 + i) dsqIGNORED) t
    let t := t.setIfInBounds 63 a.missing        -- '?'
    let t := t.setIfInBounds 126 dsqILLEGAL      -- '~'
    let t := t.setIfInBounds 95 dsqILLEGAL       -- '_'
    let t := t.setIfInBounds 32 dsqIGNORED       -- ' '
    let t := t.setIfInBounds 9 dsqIGNORED        -- '\t'
    let t := t.setIfInBounds 0 a.unknown
    ⟨if a.type == 2 || a.type == 1 then t.setIfInBounds 79 a.gap else t⟩      -- eslDNA / eslRNA: 'O' is a gap
  | none =>
    ⟨Array.ofFn (n := 128) fun i =>
        let c := UInt8.ofNat i.val
        if i.val == 0 then (63 : UInt8)                                      -- inmap[0] = '?'
        else if c == 32 || c == 9 then dsqIGNORED
        else if c == 45 || c == 42 || c == 63 || c == 46 then c              -- - * ? .
        else if isDigit c then dsqIGNORED                                    -- '0'..'9' (here `<=`)
        else if isAlpha c then c
        else dsqILLEGAL⟩

def phylipCfg (abc : Option Abc) : Cfg := ⟨abc, phylipInmap abc⟩

/-! ## `esl_mem_strtoi32(p, n, base = 0, NULL, &val)` -/

inductive I32Res where
  | ok (v : Int)
  | eformat            -- no digits
  | erange             -- overflow / underflow
deriving Repr, DecidableEq

/-- the value of a digit character: `isdigit` / `isupper` / `islower` branches (anything else stops the scan) -/
def digitVal (c : UInt8) : Option Nat :=
  if isDigit c then some (c.toNat - 48)
  else if isUpper c then some (10 + (c.toNat - 65))
  else if isLower c then some (10 + (c.toNat - 97))
  else none

/-- the digit loop: `cur` = `currval`, `nd` = `ndigits`.  The overflow tests are the C expressions on `int32_t`
    (all intermediate values fit; `/` truncates toward zero = `Int.tdiv`). -/
def strtoLoop (neg : Bool) (base : Nat) : Bytes → Int → Nat → I32Res
  | [], cur, nd => if nd == 0 then .eformat else .ok cur
  | c :: r, cur, nd =>
    match digitVal c with
    | none => if nd == 0 then .eformat else .ok cur
    | some d =>
      if d ≥ base then (if nd == 0 then .eformat else .ok cur)
      else if !neg then
        if cur > Int.tdiv (2147483647 - (d : Int)) base then .erange
        else strtoLoop neg base r (cur * base + d) (nd + 1)
      else
        if cur < Int.tdiv (-2147483648 + (d : Int)) base then .erange
        else strtoLoop neg base r (cur * base - d) (nd + 1)

def strtoi32 (tok : Bytes) : I32Res :=
  let p := tok.dropWhile isSpace                          -- skip leading whitespace
  let (neg, p) := match p with
    | 45 :: r => (true, r)                                -- '-'   (a '+' is not accepted)
    | _ => (false, p)
  match p with
  | 48 :: 120 :: r => strtoLoop neg 16 r 0 0              -- i < n-1 && "0x"
  | 48 :: r => strtoLoop neg 8 r 0 1                      -- leading '0': octal, and the 0 counts as a digit
  | _ => strtoLoop neg 10 p 0 0

/-! ## `phylip_rectify_input_name(namebuf, p, namewidth)` -/

def nameWidth : Nat := 10

/-- `f` = the `namewidth` bytes of the name field.  `endpos` runs down from `n-1` while `> 0` over blanks (so the first
    byte is never stripped from the right), `pos` runs up to `endpos` over blanks; what is left must be graphic or ' ',
    and ' ' becomes '_'.  `none` = eslEINVAL. -/
def rectifyName (f : Bytes) : Option Bytes :=
  match f with
  | [] => some []
  | c :: t =>
    let kept := c :: (t.reverse.dropWhile (· == 32)).reverse
    let body := kept.dropWhile (· == 32)
    if body.all (fun x => isGraph x || x == 32) then some (body.map fun x => if x == 32 then 95 else x) else none

/-! ## reader state -/

inductive PhyPhase where
  | lead | hdr | rows | gap
deriving Repr, DecidableEq

structure PhySt where
  phase : PhyPhase := .lead
  nseq : Nat := 0                       -- from the header; = msa->sqalloc
  alenStated : Nat := 0
  names : List (Option Bytes) := []     -- msa->sqname[0..nseq-1]
  rows : List (Option Bytes) := []      -- msa->aseq[0..nseq-1] / msa->ax[0..nseq-1]
  idx : Nat := 0
  alen : Nat := 0
  nblocks : Nat := 0                    -- interleaved only
  blockAlen : Nat := 0                  -- interleaved only
  nw : Nat := 10                        -- `namewidth = (afp->fmtd.namewidth ? afp->fmtd.namewidth : 10)`: 10 unless autodetection found another width
deriving Repr

/-- outcome of a read before the pushed-back line is returned to the stream -/
abbrev PRes := Res (Msa × Option Bytes)

def phyMsgHdr1 := "first PHYLIP line should be <nseq> <alen>: first field isn't an integer"
def phyMsgHdr2 := "first PHYLIP line should be <nseq> <alen>: only one field found"
def phyMsgHdr3 := "first PHYLIP line should be <nseq> <alen>: second field isn't an integer"
def phyMsgHdr4 := "first PHYLIP line should be <nseq> <alen>: both must be positive"
def phyMsgShort := "PHYLIP line too short to find sequence name"
def phyMsgName := "invalid character(s) in sequence name"
def phyMsgChars := "one or more invalid sequence characters"

/-- the first non-blank line: `<nseq> <alen>`; then `esl_msa_Create[Digital](nseq, -1)` -/
def phyHeader (st : PhySt) (line : Bytes) : Sum PhySt PRes :=
  -- the first esl_memtok() is unchecked; on eslEOL it leaves tok = NULL, toklen = 0, which strtoi32 rejects
  let (tok1, rest) := match memtok line blankTab with
    | some (t, r) => (t, r)
    | none => ([], line)
  match strtoi32 tok1 with
  | .eformat => .inr (.eformat phyMsgHdr1)
  | .erange => .inr (.eformat phyMsgHdr1)
  | .ok nseq =>
    match memtok rest blankTab with
    | none => .inr (.eformat phyMsgHdr2)
    | some (tok2, _) =>
      match strtoi32 tok2 with
      | .eformat => .inr (.eformat phyMsgHdr3)
      | .erange => .inr (.eformat phyMsgHdr3)
      | .ok alen =>
        if nseq < 1 || alen < 1 then .inr (.eformat phyMsgHdr4)
        else
          .inl { st with phase := .hdr, nseq := nseq.toNat, alenStated := alen.toNat,
                         names := List.replicate nseq.toNat none, rows := List.replicate nseq.toNat none }

/-- the name field at the start of a line: length check, `phylip_rectify_input_name`, `esl_msa_SetSeqName(msa, idx, …)`;
    gives the new `sqname[]` and the rest of the line -/
def phyName (st : PhySt) (line : Bytes) : Sum (List (Option Bytes) × Bytes) PRes :=
  if line.length < st.nw then .inr (.eformat phyMsgShort)
  else
    match rectifyName (line.take st.nw) with
    | none => .inr (.eformat phyMsgName)
    | some nm =>
      if st.idx ≥ st.nseq then .inr .exc                           -- esl_msa_SetSeqName: idx >= msa->sqalloc
      else if st.idx ≥ st.names.length then .inr .fault            -- msa->sqname[idx]
      else .inl (st.names.set st.idx (some nm), line.drop st.nw)

/-- the name field is read only on some lines (`if (nblocks == 0)` / `if (alen == 0)`) -/
def phyNameIf (b : Bool) (st : PhySt) (line : Bytes) : Sum (List (Option Bytes) × Bytes) PRes :=
  if b then phyName st line else .inl (st.names, line)

/-- `esl_abc_dsqcat(inmap, &msa->ax[idx], &L, p, n)` / `esl_strmapcat(inmap, &msa->aseq[idx], &L, p, n)` with `L = ldest`.
    The helpers of `Basic.lean` take the length of the destination from the destination itself; the C functions take it
    from the caller (and `esl_abc_dsqcat` allocates only `n+2` bytes for a NULL destination whatever `L` is): a call
    whose `L` is not the length of the stored row is a `.fault`.  Result: status, new row, new `L`. -/
def phyCat (cfg : Cfg) (st : PhySt) (ldest : Nat) (p : Bytes) : Sum (List (Option Bytes) × Nat) PRes :=
  match st.rows[st.idx]? with
  | none => .inr .fault                                            -- msa->aseq[idx] / msa->ax[idx] outside the array
  | some cur =>
    if rowLen cfg.digital cur != ldest then .inr .fault
    else
      let (cs, cur') := if cfg.digital then dsqcat cfg.inmap cur p else strmapcat cfg.inmap cur p
      match cs with
      | .einval => .inr (.eformat phyMsgChars)
      | .exc => .inr .exc
      | .ok => .inl (st.rows.set st.idx cur', rowLen cfg.digital cur')

def allSomeP {α : Type} : List (Option α) → Option (List α)
  | [] => some []
  | none :: _ => none
  | some a :: t => (allSomeP t).map (a :: ·)

/-- `msa->nseq = nseq; msa->alen = alen; esl_msa_SetDefaultWeights(msa)`, and the line given back by `esl_msafile_PutLine`.
    A NULL name or row in the returned alignment cannot be represented (`.fault`). -/
def phyDone (cfg : Cfg) (st : PhySt) (alen : Nat) (back : Option Bytes) : PRes :=
  match allSomeP st.names, allSomeP st.rows with
  | some names, some rows =>
    .ok ({ digital := cfg.digital, kp := cfg.kp, alen := alen, names := names,
           aseq := if cfg.digital then [] else rows,
           ax := if cfg.digital then rows else [],
           hasw := false, wgt := List.replicate names.length Wgt.dflt, sqdesc := none }, back)
  | _, _ => .fault

/-! ## interleaved -/

def ilvMsgBlock := "number of residues on line differs from previous seqs in alignment block"
def ilvMsgNseq := "unexpected number of sequences in block"
def ilvMsgAlen := "alignment length disagrees with header"

/-- body of the row loop for line `(p, n)`, row `idx < nseq` of block `nblocks`; ends with `idx++` and the next `GetLine` -/
def ilvLine (cfg : Cfg) (st : PhySt) (line : Bytes) : Sum PhySt PRes :=
  match phyNameIf (st.nblocks == 0) st line with
  | .inr r => .inr r
  | .inl (names, p) =>
    match phyCat cfg st st.alen p with                     -- cur_alen = alen
    | .inr r => .inr r
    | .inl (rows, curAlen) =>
      if st.idx == 0 then
        .inl { st with phase := .rows, names := names, rows := rows, blockAlen := curAlen - st.alen, idx := st.idx + 1 }
      else if curAlen - st.alen != st.blockAlen then .inr (.eformat ilvMsgBlock)
      else .inl { st with phase := .rows, names := names, rows := rows, idx := st.idx + 1 }

/-- after the blocks: `if (status == eslOK) esl_msafile_PutLine(afp)`; the length check; return -/
def ilvEnd (cfg : Cfg) (st : PhySt) (back : Option Bytes) : PRes :=
  if st.alen != st.alenStated then .eformat ilvMsgAlen
  else phyDone cfg st st.alen back

/-- a non-blank line after a complete block: the outer `while (status == eslOK && alen < alen_stated)` -/
def ilvNext (cfg : Cfg) (st : PhySt) (line : Bytes) : Sum PhySt PRes :=
  if st.alen < st.alenStated then ilvLine cfg { st with idx := 0 } line
  else .inr (ilvEnd cfg st (some line))

/-- the row loop has been left: `if (idx != nseq) …; nblocks += 1; alen += block_alen` -/
def ilvEndBlock (st : PhySt) : Sum PhySt PRes :=
  if st.idx != st.nseq then .inr (.eformat ilvMsgNseq)
  else .inl { st with nblocks := st.nblocks + 1, alen := st.alen + st.blockAlen, idx := 0 }

def ilvStep (cfg : Cfg) (st : PhySt) (line : Bytes) : Sum PhySt PRes :=
  match st.phase with
  | .lead | .hdr => .inr .fault                            -- handled by `phylipStep`
  | .rows =>
    -- while (status == eslOK && idx < nseq && esl_memspn(p, n, " \t") < n)
    if st.idx < st.nseq && !isBlankLine line then ilvLine cfg st line
    else
      match ilvEndBlock st with
      | .inr r => .inr r
      | .inl st' =>
        if isBlankLine line then .inl { st' with phase := .gap }
        else ilvNext cfg st' line
  | .gap =>
    if isBlankLine line then .inl st else ilvNext cfg st line

def ilvFinish (cfg : Cfg) (st : PhySt) : PRes :=
  match st.phase with
  | .lead | .hdr => .fault
  | .rows =>
    match ilvEndBlock st with
    | .inr r => r
    | .inl st' => ilvEnd cfg st' none
  | .gap => ilvEnd cfg st none

/-! ## sequential -/

def seqMsgEof := "premature end of file"
def seqMsgAlen := "aligned length of sequence disagrees with header"

/-- body of `while (status == eslOK && alen < alen_stated)` for line `(p, n)` and sequence `idx`;
    a line met with `alen == 0` is a name line (also when an earlier line of this sequence carried a name and no residue) -/
def seqLine (cfg : Cfg) (st : PhySt) (line : Bytes) : Sum PhySt PRes :=
  match phyNameIf (st.alen == 0) st line with
  | .inr r => .inr r
  | .inl (names, p) =>
    match phyCat cfg st st.alen p with
    | .inr r => .inr r
    | .inl (rows, alen) => .inl { st with phase := .rows, names := names, rows := rows, alen := alen }

/-- after a sequence and the blank lines behind it, with a further line in hand (`status == eslOK`):
    length check, `idx++`, and either the next sequence (`alen = 0`) or the end (`esl_msafile_PutLine`) -/
def seqNext (cfg : Cfg) (st : PhySt) (line : Bytes) : Sum PhySt PRes :=
  if st.alen != st.alenStated then .inr (.eformat seqMsgAlen)
  else if st.idx + 1 < st.nseq then seqLine cfg { st with idx := st.idx + 1, alen := 0 } line
  else .inr (phyDone cfg st st.alen (some line))

def seqStep (cfg : Cfg) (st : PhySt) (line : Bytes) : Sum PhySt PRes :=
  match st.phase with
  | .lead | .hdr => .inr .fault
  | .rows =>
    if st.alen < st.alenStated then seqLine cfg st line
    else if isBlankLine line then .inl { st with phase := .gap }
    else seqNext cfg st line
  | .gap =>
    if isBlankLine line then .inl st else seqNext cfg st line

/-- `status == eslEOF` after a sequence -/
def seqFinish (cfg : Cfg) (st : PhySt) : PRes :=
  match st.phase with
  | .lead | .hdr => .fault
  | .rows | .gap =>
    if st.idx + 1 < st.nseq then .eformat seqMsgEof                      -- idx < nseq-1
    else if st.alen != st.alenStated then .eformat seqMsgAlen
    else phyDone cfg st st.alen none                                       -- the `for` ends: idx+1 = nseq

/-! ## `esl_msafile_phylip_Read` -/

/-- the first alignment line is in hand: `phylip_interleaved_Read` / `phylip_sequential_Read` start with it -/
def phyFirst (sequential : Bool) (cfg : Cfg) (st : PhySt) (line : Bytes) : Sum PhySt PRes :=
  if sequential then seqLine cfg { st with idx := 0, alen := 0 } line
  else ilvLine cfg { st with idx := 0, alen := 0, nblocks := 0 } line

def phylipStep (sequential : Bool) (cfg : Cfg) (st : PhySt) (line : Bytes) : Sum PhySt PRes :=
  match st.phase with
  | .lead => if isBlankLine line then .inl st else phyHeader st line
  | .hdr => if isBlankLine line then .inl st else phyFirst sequential cfg st line
  | _ => if sequential then seqStep cfg st line else ilvStep cfg st line

def phylipFinish (sequential : Bool) (cfg : Cfg) (st : PhySt) : PRes :=
  match st.phase with
  | .lead => .eof
  | .hdr => .eformat "no alignment data following PHYLIP header"
  | _ => if sequential then seqFinish cfg st else ilvFinish cfg st

/-- give the line of `esl_msafile_PutLine` back to the stream -/
def phyUnput (x : PRes × List Bytes) : Res Msa × List Bytes :=
  match x with
  | (.ok (m, some l), rest) => (.ok m, l :: rest)
  | (.ok (m, none), rest) => (.ok m, rest)
  | (.eof, rest) => (.eof, rest)
  | (.eformat msg, rest) => (.eformat msg, rest)
  | (.fault, rest) => (.fault, rest)
  | (.exc, rest) => (.exc, rest)

/-- `esl_msafile_phylip_Read` (`sequential = false`: eslMSAFILE_PHYLIP, `true`: eslMSAFILE_PHYLIPS) on the remaining
    lines: outcome and the lines left for the next read -/
def phylipRead (sequential : Bool) (cfg : Cfg) (lines : List Bytes) : Res Msa × List Bytes :=
  phyUnput (runLines (phylipStep sequential cfg) (phylipFinish sequential cfg) {} lines)

/-- the same with the name width format autodetection stored in `afp->fmtd.namewidth` (`0` = unset = 10) -/
def phylipReadW (namewidth : Nat) (sequential : Bool) (cfg : Cfg) (lines : List Bytes) : Res Msa × List Bytes :=
  phyUnput (runLines (phylipStep sequential cfg) (phylipFinish sequential cfg)
    { nw := if namewidth == 0 then 10 else namewidth } lines)

end EaselModel.Msafile
