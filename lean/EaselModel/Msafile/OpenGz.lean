import EaselModel.Msafile.OpenByName
import EaselModel.Msafile.GzSuffix
/-! # `esl_msafile_Open` on a name that ends in `.gz`: the `gzip -dc` pipe as a parameter

`esl_buffer_Open` sends a path that ends in `.gz` (and is longer than 3 characters) to
`esl_buffer_OpenPipe(path, "gzip -dc %s 2>/dev/null")`.  What the command does is a parameter of the model, like the file
system in `OpenByName.lean`: it fails (`pclose() != 0` after a short first read: "pipe command '…' did not succeed",
status `eslFAIL`, `afp` returned in an error state with that message), or it delivers bytes.  In the second case
`bf->filename` is the path WITH its `.gz`, so `msafile_OpenBuffer` sees the suffix before `.gz` (`GzSuffix.lean`), and the
readers run on the decompressed bytes (the abstract line reader; C05 covers the pipe-mode buffer).
Not modelled: a command that fails after more than one page of output (the buffer then ends early without a status). -/
namespace EaselModel.Msafile

/-- what `gzip -dc <path>` does -/
inductive GzKind where
  | failed                     -- non-zero exit status (not in gzip format, truncated, …), less than a page of output
  | bytes (unz : Bytes)        -- the decompressed content
deriving Repr

inductive OpenGzRes where
  | efail (msg : String)       -- eslFAIL, `afp` in an error state with this message
  | opened (r : OpenRes)
deriving Repr, DecidableEq

/-- `esl_msafile_Open` on an existing regular file whose path ends in `.gz` -/
def openGz (nw0 : Nat) (fsel : FmtSel) (asel : AbcSel) (path : Bytes) (g : GzKind) : OpenGzRes :=
  match g with
  | .failed => .efail "pipe command did not succeed"
  | .bytes unz => .opened (openModelW nw0 fsel asel (some path) (splitLines unz))

theorem openGz_efail_msg (nw0 : Nat) (fsel : FmtSel) (asel : AbcSel) (path : Bytes) (g : GzKind) (msg : String)
    (h : openGz nw0 fsel asel path g = .efail msg) : msg ≠ "" := by
  cases g with
  | failed => cases h; decide
  | bytes u => cases h

/-- a compressed file opens exactly as the uncompressed file of the name without `.gz` would (same format hint, same bytes) -/
theorem openGz_as_plain (nw0 : Nat) (fsel : FmtSel) (asel : AbcSel) (f unz : Bytes) (h : fileExtension f 0 ≠ some bGz) :
    openGz nw0 fsel asel (f ++ bGz) (.bytes unz) = .opened (openModelW nw0 fsel asel (some f) (splitLines unz)) := by
  show OpenGzRes.opened _ = _
  rw [openModelW_gz nw0 fsel asel f (splitLines unz) h]

end EaselModel.Msafile
