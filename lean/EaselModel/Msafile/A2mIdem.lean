import EaselModel.Msafile.A2mWritable
import EaselModel.Msafile.AfaIdem
import EaselModel.Msafile.A2mInsIdem
/-! A2M: re-writing the re-read alignment reproduces the same bytes (`write (read (write m)) = write m`). -/
namespace EaselModel.Msafile

theorem getD_map_range (f : Nat → UInt8) (n pos : Nat) (h : pos < n) : ((List.range n).map f).getD pos 0 = f pos := by
  simp [List.getD_eq_getElem?_getD, h]

theorem a2mProject_cons (abc : Option Abc) (cfg : Cfg) (enc : UInt8 → UInt8) (m : Msa) (pos : Nat) (hp : pos < m.alen) :
    isConsensusCol abc (a2mProject abc cfg enc m) pos = true := by
  have : (List.replicate m.alen (120 : UInt8)).getD pos 0 = 120 := by
    simp [List.getD_eq_getElem?_getD, hp]
  simp only [isConsensusCol, a2mProject, this]
  decide

/-- re-writing what was read back reproduces the bytes, provided the projected cells print alike -/
theorem a2mWrite_project (abc : Option Abc) (cfg : Cfg) (enc : UInt8 → UInt8) (m : Msa) (h : A2mWritable abc cfg enc m)
    (hfix : ∀ i, i < m.nseq → ∀ pos, pos < m.alen →
      a2mChar abc (a2mProject abc cfg enc m) i pos = some (a2mWc abc m i pos)) :
    a2mWrite abc (a2mProject abc cfg enc m) = a2mWrite abc m := by
  unfold a2mWrite a2mLines
  have hn : (a2mProject abc cfg enc m).nseq = m.nseq := rfl
  rw [hn]
  congr 1
  apply flatMap_congr'
  intro i hi
  have hi' : i < m.nseq := List.mem_range.mp hi
  unfold a2mRecLines
  have hh : a2mHeader (a2mProject abc cfg enc m) i = a2mHeader m i := by
    unfold a2mHeader
    have h1 : optRow (a2mProject abc cfg enc m).sqacc i = optRow m.sqacc i := by simp [a2mProject, h.acc_none, optRow]
    have h2 : optRow (a2mProject abc cfg enc m).sqdesc i = optRow m.sqdesc i := by
      show optAt (padOptRows (afaDescs m m.nseq) m.nseq) i = optAt m.sqdesc i
      rw [optAt_padOptRows _ _ _ hi', afaDescs_below m _ _ hi']
    rw [h1, h2]
    rfl
  have ha : (a2mProject abc cfg enc m).alen = m.alen := rfl
  rw [hh, ha, a2mSeqLines_eq h i hi']
  rw [a2mSeqLoop_chunks abc (a2mProject abc cfg enc m) i (a2mWc abc m i) (List.range m.alen) []
    (fun p hp => hfix i hi' p (List.mem_range.mp hp)) (by simp)]
  simp

theorem a2mWrite_project_text (m : Msa) (h : A2mTextWritable m) :
    a2mWrite none (a2mProject none (a2mCfg none) id m) = a2mWrite none m := by
  have hw := a2mTextWritable_writable m h
  apply a2mWrite_project none (a2mCfg none) id m hw
  intro i hi pos hp
  rw [a2mChar_text_cons _ i pos (a2mProject_cons none (a2mCfg none) id m pos hp)]
  have hcell : aseqAt (a2mProject none (a2mCfg none) id m) i pos = a2mWc none m i pos := by
    have : (a2mProject none (a2mCfg none) id m).aseq.getD i [] = a2mRowCodes none id m i := by
      simp [a2mProject, a2mCfg, Cfg.digital, a2mRow, mkRow, List.getD_eq_getElem?_getD, hi]
    unfold aseqAt
    rw [this, a2mRowCodes, getD_map_range _ _ _ hp]
    rfl
  rw [hcell, a2mTextNorm_fix _ (hw.char i hi pos hp).2.1]

/-- table fact: printing the code a printed character is read back as gives the same character -/
def a2mDigFixB (a : Abc) : Bool :=
  (List.range a.kp).all fun n =>
    let x := UInt8.ofNat n
    a2mDigWritten a (a2mDigNorm a x) == a2mDigWritten a x

theorem a2mDigFixB_amino : a2mDigFixB abcAmino = true := by decide +kernel
theorem a2mDigFixB_dna : a2mDigFixB abcDna = true := by decide +kernel
theorem a2mDigFixB_rna : a2mDigFixB abcRna = true := by decide +kernel

theorem a2mWrite_project_digital (a : Abc) (ha : a2mDigSymOk a = true) (hf : a2mDigFixB a = true) (m : Msa)
    (h : A2mDigitalWritable a m) :
    a2mWrite (some a) (a2mProject (some a) (a2mCfg (some a)) (a2mEnc a) m) = a2mWrite (some a) m := by
  have hw := a2mDigitalWritable_writable a ha m h
  apply a2mWrite_project (some a) (a2mCfg (some a)) (a2mEnc a) m hw
  intro i hi pos hp
  rw [a2mChar_dig_cons a _ i pos (a2mProject_cons (some a) (a2mCfg (some a)) (a2mEnc a) m pos hp)]
  have hx : (axAt m i pos).toNat < a.kp := dsqRowOk_code _ _ _ (h.row_ok i hi) pos hp
  have hwc : a2mWc (some a) m i pos = a2mDigWritten a (axAt m i pos) := by
    simp [a2mWc, a2mChar_dig_cons a m i pos (h.cons_ok pos hp)]
  have hcell : axAt (a2mProject (some a) (a2mCfg (some a)) (a2mEnc a) m) i pos = a2mDigNorm a (axAt m i pos) := by
    have : (a2mProject (some a) (a2mCfg (some a)) (a2mEnc a) m).ax.getD i []
        = dsqSENTINEL :: (List.range m.alen).map (fun p => a2mDigNorm a (axAt m i p)) ++ [dsqSENTINEL] := by
      rw [← a2mRow_digital a ha m h i hi]
      simp [a2mProject, a2mCfg, Cfg.digital, List.getD_eq_getElem?_getD, hi]
    unfold axAt
    rw [this]
    have hlt : pos < ((List.range m.alen).map (fun p => a2mDigNorm a (axAt m i p))).length := by simpa using hp
    simp only [List.cons_append, List.getD_eq_getElem?_getD, List.getElem?_cons_succ, List.getElem?_append_left hlt]
    simp [hp]
    rfl
  have hfix := (List.all_eq_true.mp hf) (axAt m i pos).toNat (List.mem_range.mpr hx)
  simp only [UInt8.ofNat_toNat, beq_iff_eq] at hfix
  rw [hcell, hfix, hwc]

end EaselModel.Msafile
