import EaselModel.Msafile.AfaWritable
/-! Aligned FASTA: re-writing the re-read alignment reproduces the same bytes (`write (read (write m)) = write m`). -/
namespace EaselModel.Msafile

theorem getD_append_replicate_none (l : List (Option Bytes)) (k i : Nat) :
    (l ++ List.replicate k none).getD i none = l.getD i none := by
  simp only [List.getD_eq_getElem?_getD]
  by_cases h : i < l.length
  · rw [List.getElem?_append_left h]
  · have h' : l.length ≤ i := Nat.le_of_not_lt h
    rw [List.getElem?_append_right h']
    rw [List.getElem?_eq_none_iff.mpr h']
    by_cases h2 : i - l.length < k
    · simp [List.getElem?_replicate, h2]
    · simp [List.getElem?_replicate, h2]

theorem optAt_setOptRow_same (a : OptRows) (k : Nat) (d : Bytes) : optAt (setOptRow a k d) k = some d := by
  simp only [optAt, setOptRow, Option.getD_some, List.getD_eq_getElem?_getD]
  rw [List.getElem?_set_self (by simp; omega)]
  rfl

theorem optAt_setOptRow_ne (a : OptRows) (k i : Nat) (d : Bytes) (h : i ≠ k) : optAt (setOptRow a k d) i = optAt a i := by
  simp only [optAt, setOptRow, Option.getD_some]
  rw [List.getD_eq_getElem?_getD, List.getElem?_set_ne (Ne.symm h), ← List.getD_eq_getElem?_getD]
  exact getD_append_replicate_none _ _ _

theorem afaDescs_beyond (m : Msa) : ∀ k i, k ≤ i → optAt (afaDescs m k) i = none := by
  intro k
  induction k with
  | zero => intro i _; simp [afaDescs, optAt]
  | succ k ih =>
    intro i hi
    simp only [afaDescs, setOptRowO]
    cases hd : optAt m.sqdesc k with
    | none => exact ih i (by omega)
    | some d =>
      simp only
      rw [optAt_setOptRow_ne _ _ _ _ (by omega)]
      exact ih i (by omega)

theorem afaDescs_below (m : Msa) : ∀ k i, i < k → optAt (afaDescs m k) i = optAt m.sqdesc i := by
  intro k
  induction k with
  | zero => intro i hi; omega
  | succ k ih =>
    intro i hi
    simp only [afaDescs, setOptRowO]
    by_cases hik : i = k
    · subst hik
      cases hd : optAt m.sqdesc i with
      | none => simp only; exact afaDescs_beyond m i i (Nat.le_refl _)
      | some d => simp only; exact optAt_setOptRow_same _ _ _
    · cases hd : optAt m.sqdesc k with
      | none => simp only; exact ih i (by omega)
      | some d =>
        simp only
        rw [optAt_setOptRow_ne _ _ _ _ hik]
        exact ih i (by omega)

theorem optAt_padOptRows (o : OptRows) (n i : Nat) (hi : i < n) : optAt (padOptRows o n) i = optAt o i := by
  cases o with
  | none => simp [padOptRows, optAt]
  | some l =>
    simp only [padOptRows, optAt, Option.map_some, Option.getD_some]
    rw [List.getD_eq_getElem?_getD, List.getElem?_take_of_lt hi, ← List.getD_eq_getElem?_getD]
    exact getD_append_replicate_none _ _ _

theorem flatMap_congr' {α β : Type} (l : List α) (f g : α → List β) (h : ∀ a ∈ l, f a = g a) : l.flatMap f = l.flatMap g := by
  induction l with
  | nil => rfl
  | cons a l ih =>
    simp only [List.flatMap_cons]
    rw [h a (by simp), ih (fun b hb => h b (by simp [hb]))]

/-- re-writing what was read back from a written alignment reproduces the bytes, provided the projected rows print alike -/
theorem afaWrite_project (abc : Option Abc) (cfg : Cfg) (enc : UInt8 → UInt8) (m : Msa) (h : AfaWritable abc cfg enc m)
    (hrt : ∀ i, i < m.nseq → (afaProject cfg m).rowText abc i = m.rowText abc i) :
    afaWrite abc (afaProject cfg m) = afaWrite abc m := by
  unfold afaWrite afaWriteLines
  have hn : (afaProject cfg m).nseq = m.nseq := rfl
  rw [hn]
  congr 1
  apply flatMap_congr'
  intro i hi
  have hi' : i < m.nseq := List.mem_range.mp hi
  unfold afaRecLines
  have hh : afaHeader (afaProject cfg m) i = afaHeader m i := by
    unfold afaHeader
    have h1 : optAt (afaProject cfg m).sqacc i = optAt m.sqacc i := by simp [afaProject, h.acc_none, optAt]
    have h2 : optAt (afaProject cfg m).sqdesc i = optAt m.sqdesc i := by
      show optAt (padOptRows (afaDescs m m.nseq) m.nseq) i = _
      rw [optAt_padOptRows _ _ _ hi', afaDescs_below m _ _ hi']
    rw [h1, h2]
    rfl
  rw [hh, hrt i hi']
  rfl

theorem afaWrite_project_text (m : Msa) (h : AfaTextWritable m) :
    afaWrite none (afaProject (afaCfg none) m) = afaWrite none m := by
  apply afaWrite_project none (afaCfg none) id m (afaTextWritable_writable m h)
  intro i hi
  show (afaProject (afaCfg none) m).aseq.getD i [] = m.aseq.getD i []
  simp [afaProject, afaCfg, Cfg.digital, Msa.stored, h.dig, List.getD_eq_getElem?_getD, hi]

theorem afaWrite_project_digital (a : Abc) (ha : afaDigSymOk a = true) (m : Msa) (h : AfaDigitalWritable a m) :
    afaWrite (some a) (afaProject (afaCfg (some a)) m) = afaWrite (some a) m := by
  apply afaWrite_project (some a) (afaCfg (some a)) (afaEnc a) m (afaDigitalWritable_writable a ha m h)
  intro i hi
  show textize a ((((afaProject (afaCfg (some a)) m).ax.getD i []).drop 1).dropLast) = textize a (((m.ax.getD i []).drop 1).dropLast)
  have : (afaProject (afaCfg (some a)) m).ax.getD i [] = m.ax.getD i [] := by
    simp [afaProject, afaCfg, Cfg.digital, Msa.stored, h.dig, List.getD_eq_getElem?_getD, hi]
  rw [this]

end EaselModel.Msafile
