import EaselModel.Msafile.StockholmInv
/-! # Growth bookkeeping of the Stockholm reader, slot by slot

`stockholm_get_seqidx` meets a name that does not fit (`seqidx >= msa->sqalloc`: the 17th, 33rd, 65th … name) and calls
`esl_msa_Expand` (every per-sequence array of the MSA doubles, new half NULL / -1.0) and then
`stockholm_parsedata_ExpandSeq`, which `ESL_REALLOC`s `sqlen`, `sslen`, `salen`, `pplen` (when allocated) and every
`ogr_len[tag]` to the new `sqalloc` and zeroes the slots `z = pd->salloc .. msa->sqalloc-1` — ONLY those.

`StockholmInv.lean` proves that the growth step keeps the reader's invariant (`expandAll_inv`); that statement is about
counts (`LensRel 0 0`: the multiset of non-zero lengths does not change).  Here the same step is stated pointwise, as the
C loops are written: every slot below the old allocation keeps its value — a `#=GR` line already recorded for one of the
first 16 sequences is still recorded after the 17th name arrives — and every new slot is 0 / NULL.  No hypothesis on the
state is needed: the statements hold for every `StoSt`, reachable or not. -/
namespace EaselModel.Msafile

theorem getElem?_append_replicate_old {α : Type} (l : List α) (k : Nat) (d : α) (z : Nat) (h : z < l.length) :
    (l ++ List.replicate k d)[z]? = l[z]? := by
  rw [List.getElem?_append_left h]

theorem getElem?_append_replicate_new {α : Type} (l : List α) (k : Nat) (d : α) (z : Nat) (h1 : l.length ≤ z)
    (h2 : z < l.length + k) : (l ++ List.replicate k d)[z]? = some d := by
  rw [List.getElem?_append_right h1, List.getElem?_replicate]
  have : z - l.length < k := by omega
  simp [this]

/-- what a grown array looks like: the old slots unchanged, `k` new slots holding `d` -/
def GrownBy {α : Type} (k : Nat) (d : α) (old new : List α) : Prop :=
  new.length = old.length + k ∧ (∀ z, z < old.length → new[z]? = old[z]?) ∧
    ∀ z, old.length ≤ z → z < old.length + k → new[z]? = some d

theorem grownBy_append {α : Type} (l : List α) (k : Nat) (d : α) : GrownBy k d l (l ++ List.replicate k d) :=
  ⟨by simp, fun z h => getElem?_append_replicate_old l k d z h, fun z h1 h2 => getElem?_append_replicate_new l k d z h1 h2⟩

theorem GrownBy.refl {α : Type} (d : α) (l : List α) : GrownBy 0 d l l :=
  ⟨rfl, fun _ _ => rfl, fun z h1 h2 => by omega⟩

/-! ## `stockholm_parsedata_ExpandSeq` -/

/-- `pd->sqlen`: slots `0 .. salloc-1` keep their value, slots `salloc .. sqalloc-1` are 0 -/
theorem pdExpandSeq_sqlen (st : StoSt) : GrownBy (st.sqalloc - st.salloc) 0 st.sqlen (pdExpandSeq st).sqlen :=
  grownBy_append _ _ _

/-- `pd->sslen / salen / pplen` (slot `k` of the 3-array): NULL stays NULL; an allocated one grows like `sqlen` -/
theorem pdExpandSeq_perLen (st : StoSt) (k : Nat) :
    (st.perLen[k]? = none → (pdExpandSeq st).perLen[k]? = none) ∧
    (st.perLen[k]? = some none → (pdExpandSeq st).perLen[k]? = some none) ∧
    ∀ lns, st.perLen[k]? = some (some lns) →
      ∃ lns', (pdExpandSeq st).perLen[k]? = some (some lns') ∧ GrownBy (st.sqalloc - st.salloc) 0 lns lns' := by
  have e : (pdExpandSeq st).perLen[k]? = (st.perLen[k]?).map (Option.map (· ++ List.replicate (st.sqalloc - st.salloc) 0)) := by
    show (st.perLen.map _)[k]? = _
    rw [List.getElem?_map]
  refine ⟨fun h => by rw [e, h]; rfl, fun h => by rw [e, h]; rfl, fun lns h => ?_⟩
  exact ⟨lns ++ List.replicate (st.sqalloc - st.salloc) 0, by rw [e, h]; rfl, grownBy_append _ _ _⟩

/-- `pd->ogr_len[tag]` for EVERY unparsed `#=GR` tag: slots `0 .. salloc-1` keep their value (the loop starts at
    `z = pd->salloc`, not at 0), slots `salloc .. sqalloc-1` are 0; no tag appears or disappears -/
theorem pdExpandSeq_ogrLen (st : StoSt) (t : Nat) :
    (pdExpandSeq st).ogrLen.length = st.ogrLen.length ∧
    ∀ row, st.ogrLen[t]? = some row →
      ∃ row', (pdExpandSeq st).ogrLen[t]? = some row' ∧ GrownBy (st.sqalloc - st.salloc) 0 row row' := by
  refine ⟨by show (st.ogrLen.map _).length = _; simp, fun row h => ?_⟩
  refine ⟨row ++ List.replicate (st.sqalloc - st.salloc) 0, ?_, grownBy_append _ _ _⟩
  show (st.ogrLen.map _)[t]? = _
  rw [List.getElem?_map, h]; rfl

/-- everything else `stockholm_parsedata_ExpandSeq` leaves alone: the consensus lengths, `ogc_len` (indexed by tag, not by
    sequence: "don't need to reallocate ogc_len here"), the block bookkeeping, and the whole `ESL_MSA` -/
theorem pdExpandSeq_rest (st : StoSt) :
    (pdExpandSeq st).consLen = st.consLen ∧ (pdExpandSeq st).ogcLen = st.ogcLen ∧ (pdExpandSeq st).blt = st.blt ∧
    (pdExpandSeq st).bidx = st.bidx ∧ (pdExpandSeq st).bi = st.bi ∧ (pdExpandSeq st).npb = st.npb ∧
    (pdExpandSeq st).alen = st.alen ∧ (pdExpandSeq st).alenB = st.alenB ∧ (pdExpandSeq st).nblock = st.nblock ∧
    (pdExpandSeq st).rows = st.rows ∧ (pdExpandSeq st).gr = st.gr ∧ (pdExpandSeq st).gc = st.gc ∧
    (pdExpandSeq st).names = st.names ∧ (pdExpandSeq st).salloc = st.sqalloc :=
  ⟨rfl, rfl, rfl, rfl, rfl, rfl, rfl, rfl, rfl, rfl, rfl, rfl, rfl, rfl⟩

/-! ## `esl_msa_Expand` -/

/-- `esl_msa_Expand` doubles `aseq/ax`, `wgt` and every `gr[tag]` row: old entries unchanged, the new half NULL / -1.0;
    it does not touch the parse data -/
theorem msaExpand_rows (st : StoSt) :
    GrownBy st.sqalloc none st.rows (msaExpand st).rows ∧ GrownBy st.sqalloc Wgt.unset st.wgt (msaExpand st).wgt ∧
    (msaExpand st).sqalloc = 2 * st.sqalloc ∧ (msaExpand st).sqlen = st.sqlen ∧ (msaExpand st).perLen = st.perLen ∧
    (msaExpand st).ogrLen = st.ogrLen ∧ (msaExpand st).salloc = st.salloc :=
  ⟨grownBy_append _ _ _, grownBy_append _ _ _, rfl, rfl, rfl, rfl, rfl⟩

theorem msaExpand_gr (st : StoSt) (t : Nat) (row : List (Option Bytes)) (h : st.gr[t]? = some row) :
    ∃ row', (msaExpand st).gr[t]? = some row' ∧ GrownBy st.sqalloc none row row' := by
  refine ⟨row ++ List.replicate st.sqalloc none, ?_, grownBy_append _ _ _⟩
  show (st.gr.map _)[t]? = _
  rw [List.getElem?_map, h]; rfl

/-! ## `stockholm_get_seqidx`: the only caller of the two growth steps -/

/-- The length bookkeeping across ONE `stockholm_get_seqidx` call, whatever the name and whatever the state: there is a
    growth `k` (0 when nothing was reallocated, `2*sqalloc - salloc` when the name was the first that did not fit) such
    that `sqlen`, every allocated `sslen/salen/pplen` and EVERY `ogr_len[tag]` are the old arrays with `k` zeros appended. -/
theorem getSeqIdx_keeps_lens (st st' : StoSt) (name : Bytes) (idx : Nat) (h : getSeqIdx st name = .ok (st', idx)) :
    ∃ k, GrownBy k 0 st.sqlen st'.sqlen ∧
      st'.ogrLen.length = st.ogrLen.length ∧
      (∀ (t : Nat) (row : List Nat), st.ogrLen[t]? = some row → ∃ row', st'.ogrLen[t]? = some row' ∧ GrownBy k 0 row row') ∧
      (∀ (j : Nat) (lns : List Nat), st.perLen[j]? = some (some lns) → ∃ lns', st'.perLen[j]? = some (some lns') ∧ GrownBy k 0 lns lns') ∧
      st'.consLen = st.consLen ∧ st'.ogcLen = st.ogcLen := by
  unfold getSeqIdx at h
  split at h
  · cases h
    exact ⟨0, GrownBy.refl _ _, rfl, fun t row hr => ⟨row, hr, GrownBy.refl _ _⟩, fun j lns hl => ⟨lns, hl, GrownBy.refl _ _⟩, rfl, rfl⟩
  · simp only at h
    by_cases hge : st.names.length ≥ st.sqalloc
    · simp only [hge, if_true] at h
      split at h
      · cases h
      · cases h
        refine ⟨(msaExpand st).sqalloc - (msaExpand st).salloc, pdExpandSeq_sqlen (msaExpand st),
          (pdExpandSeq_ogrLen (msaExpand st) 0).1, fun t row hr => (pdExpandSeq_ogrLen (msaExpand st) t).2 row hr,
          fun j lns hl => (pdExpandSeq_perLen (msaExpand st) j).2.2 lns hl, rfl, rfl⟩
    · simp only [hge, if_false] at h
      cases h
      exact ⟨0, GrownBy.refl _ _, rfl, fun t row hr => ⟨row, hr, GrownBy.refl _ _⟩, fun j lns hl => ⟨lns, hl, GrownBy.refl _ _⟩, rfl, rfl⟩

/-- … in particular the annotation length recorded for an earlier sequence under an unparsed `#=GR` tag survives the
    arrival of any later name: this is what lets the second block's `#=GR <seq> <tag>` line pass the
    `ogr_len[tagidx][seqidx] != pd->alen` test of `stockholm_parse_gr` -/
theorem getSeqIdx_keeps_ogr_slot (st st' : StoSt) (name : Bytes) (idx t z len : Nat) (row : List Nat)
    (h : getSeqIdx st name = .ok (st', idx)) (hr : st.ogrLen[t]? = some row) (hz : row[z]? = some len) :
    ∃ row', st'.ogrLen[t]? = some row' ∧ row'[z]? = some len := by
  obtain ⟨k, _, _, hg, _⟩ := getSeqIdx_keeps_lens st st' name idx h
  obtain ⟨row', e, g⟩ := hg t row hr
  exact ⟨row', e, by rw [g.2.1 z (lt_length_of_getElem? hz)]; exact hz⟩

end EaselModel.Msafile
