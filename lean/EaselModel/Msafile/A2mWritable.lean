import EaselModel.Msafile.A2mRoundTrip
import EaselModel.Msafile.AfaWritable
import EaselModel.Msafile.AbcTables
/-! Concrete, checkable conditions under which an alignment is `A2mWritable`: text mode, and digital mode with the
    generated amino / DNA / RNA alphabets.  In both, every column is a consensus column (`msa->rf` all alphanumeric or,
    without `rf`, the first sequence a residue everywhere), so that the dotless A2M output has no insert columns. -/
namespace EaselModel.Msafile

/-! ## text mode -/

/-- what the writer prints for the text symbol `s` in a consensus column -/
def a2mTextNorm (s : UInt8) : UInt8 :=
  if isAlpha s then toUpper (if s == 79 || s == 111 then 88 else s) else 45

/-- table fact: whatever the stored symbol, the printed character is an upper-case letter other than `O`, or `-`,
    and the text-mode A2M input map sends it to itself -/
def a2mTextSymOk : Bool :=
  (List.range 256).all fun n =>
    let c := a2mTextNorm (UInt8.ofNat n)
    (isUpper c || c == 45) && !a2mSkip c && mapByte (a2mInmap none) c == (CatSt.ok, some c)

theorem a2mTextSymOk_true : a2mTextSymOk = true := by decide +kernel

theorem a2m_text_sym (s : UInt8) :
    consChar (a2mTextNorm s) ∧ mapByte (a2mInmap none) (a2mTextNorm s) = (.ok, some (a2mTextNorm s)) := by
  have h1 := (List.all_eq_true.mp a2mTextSymOk_true) s.toNat (List.mem_range.mpr s.toNat_lt)
  simp only [UInt8.ofNat_toNat, Bool.and_eq_true, Bool.or_eq_true, beq_iff_eq, Bool.not_eq_true'] at h1
  exact ⟨⟨h1.1.1, h1.1.2⟩, h1.2⟩

/-- table fact: an upper-case letter other than `O`, or `-`, is printed as itself -/
def a2mTextFixB : Bool :=
  (List.range 256).all fun n =>
    let t := UInt8.ofNat n
    !((isUpper t || t == 45) && !a2mSkip t) || a2mTextNorm t == t

theorem a2mTextFixB_true : a2mTextFixB = true := by decide +kernel

theorem a2mTextNorm_fix (t : UInt8) (h : consChar t) : a2mTextNorm t = t := by
  have h1 := (List.all_eq_true.mp a2mTextFixB_true) t.toNat (List.mem_range.mpr t.toNat_lt)
  simp only [UInt8.ofNat_toNat] at h1
  have h2 : ((isUpper t || t == 45) && !a2mSkip t) = true := by
    have h3 := h.2
    rcases h.1 with hu | he
    · simp [hu, h3]
    · subst he; decide
  rw [h2] at h1
  simpa using h1

/-- a text-mode alignment that A2M carries: every column is a consensus column -/
structure A2mTextWritable (m : Msa) : Prop where
  dig : m.digital = false
  n1 : 1 ≤ m.nseq
  alen1 : 1 ≤ m.alen
  acc_none : m.sqacc = none
  name_ok : ∀ i, i < m.nseq → nameOk (m.names.getD i [])
  desc_ok : ∀ i, i < m.nseq → ∀ d, optAt m.sqdesc i = some d → descOk d
  hdr_line : ∀ i, i < m.nseq → lineOk (a2mHeader m i)
  row_len : ∀ i, i < m.nseq → (m.aseq.getD i []).length = m.alen
  cons_ok : ∀ pos, pos < m.alen → isConsensusCol none m pos = true

theorem a2mChar_text_cons (m : Msa) (i pos : Nat) (hc : isConsensusCol none m pos = true) :
    a2mChar none m i pos = some (a2mTextNorm (aseqAt m i pos)) := by
  simp only [a2mChar, hc, if_true, a2mTextNorm]

theorem a2mTextWritable_writable (m : Msa) (h : A2mTextWritable m) : A2mWritable none (a2mCfg none) id m :=
  { n1 := h.n1, alen1 := h.alen1, acc_none := h.acc_none, name_ok := h.name_ok, desc_ok := h.desc_ok, hdr_line := h.hdr_line
    row_char := fun i _ pos hp => by
      have hs := a2m_text_sym (aseqAt m i pos)
      exact ⟨_, a2mChar_text_cons m i pos (h.cons_ok pos hp), hs.1, by simpa [a2mCfg] using hs.2⟩ }

theorem map_getD_range (l : Bytes) (n : Nat) (h : l.length = n) : (List.range n).map (fun p => l.getD p 0) = l := by
  apply List.ext_getElem
  · simp [h]
  · intro j h1 h2
    simp [List.getD_eq_getElem?_getD, List.getElem?_eq_getElem h2]

/-- the row read back in text mode: the stored row, letters upper-cased, `O`/`o` as `X`, every other symbol as `-` -/
theorem a2mRow_text (m : Msa) (h : A2mTextWritable m) (i : Nat) (hi : i < m.nseq) :
    a2mRow none (a2mCfg none) id m i = (m.aseq.getD i []).map a2mTextNorm := by
  have hrow : (List.range m.alen).map (fun p => (m.aseq.getD i []).getD p 0) = m.aseq.getD i [] :=
    map_getD_range _ _ (h.row_len i hi)
  have : a2mRowCodes none id m i = (List.range m.alen).map (fun p => a2mTextNorm ((m.aseq.getD i []).getD p 0)) := by
    unfold a2mRowCodes
    apply List.map_congr_left
    intro p hp
    simp [a2mWc, a2mChar_text_cons m i p (h.cons_ok p (List.mem_range.mp hp)), aseqAt]
  simp only [a2mRow, mkRow, a2mCfg, Cfg.digital, Option.isSome_none, Bool.false_eq_true, if_false, this]
  conv => rhs; rw [← hrow]
  simp [List.map_map, Function.comp_def]

/-- … which is the stored row itself when it holds upper-case letters other than `O` and `-` only -/
theorem a2mRow_text_exact (m : Msa) (h : A2mTextWritable m) (i : Nat) (hi : i < m.nseq)
    (hr : ∀ t ∈ m.aseq.getD i [], consChar t) : a2mRow none (a2mCfg none) id m i = m.aseq.getD i [] := by
  rw [a2mRow_text m h i hi]
  conv => rhs; rw [← List.map_id (m.aseq.getD i [])]
  apply List.map_congr_left
  intro t ht
  exact a2mTextNorm_fix t (hr t ht)

/-! ## digital mode -/

/-- the stored symbol the reader produces for a written character -/
def a2mEnc (a : Abc) (t : UInt8) : UInt8 :=
  match mapByte (a2mInmap (some a)) t with
  | (_, some x) => x
  | _ => 0

/-- what the writer prints for code `x` in a consensus column -/
def a2mDigWritten (a : Abc) (x : UInt8) : UInt8 :=
  let sym := a.sym.getD x.toNat 0
  if a.xIsResidue x then toUpper (if sym == 79 then a.cUnknown else sym) else 45

/-- what code `x` is read back as: residues as themselves (pyrrolysine `O` as the unknown residue), everything else
    (gap, `*`, `~`) as the gap -/
def a2mDigNorm (a : Abc) (x : UInt8) : UInt8 :=
  if a.xIsResidue x then (if a.sym.getD x.toNat 0 == 79 then a.unknown else x) else a.gap

/-- table fact about an alphabet: the character written for code `x < Kp` is an upper-case letter other than `O`, or `-`,
    and is read back as `a2mDigNorm x` -/
def a2mDigSymOk (a : Abc) : Bool :=
  (List.range a.kp).all fun n =>
    let x := UInt8.ofNat n
    let c := a2mDigWritten a x
    (isUpper c || c == 45) && !a2mSkip c && mapByte (a2mInmap (some a)) c == (CatSt.ok, some (a2mDigNorm a x))

theorem a2mDigSymOk_amino : a2mDigSymOk abcAmino = true := by decide +kernel
theorem a2mDigSymOk_dna : a2mDigSymOk abcDna = true := by decide +kernel
theorem a2mDigSymOk_rna : a2mDigSymOk abcRna = true := by decide +kernel

theorem a2m_dig_sym (a : Abc) (ha : a2mDigSymOk a = true) (x : UInt8) (hx : x.toNat < a.kp) :
    consChar (a2mDigWritten a x) ∧
    mapByte (a2mInmap (some a)) (a2mDigWritten a x) = (.ok, some (a2mEnc a (a2mDigWritten a x))) ∧
    a2mEnc a (a2mDigWritten a x) = a2mDigNorm a x := by
  have h1 := (List.all_eq_true.mp ha) x.toNat (List.mem_range.mpr hx)
  simp only [UInt8.ofNat_toNat, Bool.and_eq_true, Bool.or_eq_true, beq_iff_eq, Bool.not_eq_true'] at h1
  obtain ⟨⟨hu, hs⟩, hm⟩ := h1
  have he : a2mEnc a (a2mDigWritten a x) = a2mDigNorm a x := by unfold a2mEnc; rw [hm]
  exact ⟨⟨hu, hs⟩, by rw [he]; exact hm, he⟩

/-- a digital alignment (alphabet `a`) that A2M carries: every column is a consensus column -/
structure A2mDigitalWritable (a : Abc) (m : Msa) : Prop where
  dig : m.digital = true
  n1 : 1 ≤ m.nseq
  alen1 : 1 ≤ m.alen
  acc_none : m.sqacc = none
  name_ok : ∀ i, i < m.nseq → nameOk (m.names.getD i [])
  desc_ok : ∀ i, i < m.nseq → ∀ d, optAt m.sqdesc i = some d → descOk d
  hdr_line : ∀ i, i < m.nseq → lineOk (a2mHeader m i)
  row_ok : ∀ i, i < m.nseq → dsqRowOk a.kp m.alen (m.ax.getD i []) = true
  cons_ok : ∀ pos, pos < m.alen → isConsensusCol (some a) m pos = true

theorem a2mChar_dig_cons (a : Abc) (m : Msa) (i pos : Nat) (hc : isConsensusCol (some a) m pos = true) :
    a2mChar (some a) m i pos = some (a2mDigWritten a (axAt m i pos)) := by
  simp only [a2mChar, hc, if_true, a2mDigWritten]

theorem dsqRowOk_code (kp alen : Nat) (r : Bytes) (h : dsqRowOk kp alen r = true) (pos : Nat) (hp : pos < alen) :
    (r.getD (pos + 1) 0).toNat < kp := by
  cases r with
  | nil => simp [dsqRowOk] at h
  | cons s0 rest =>
    simp only [dsqRowOk, Bool.and_eq_true, beq_iff_eq] at h
    obtain ⟨⟨⟨_, hl⟩, _⟩, hall⟩ := h
    have h1 : pos < rest.length := by omega
    have h2 : pos < rest.dropLast.length := by simp; omega
    have he : (s0 :: rest).getD (pos + 1) 0 = rest.dropLast[pos] := by
      simp [List.getD_eq_getElem?_getD, List.getElem?_eq_getElem h1, List.getElem_dropLast]
    rw [he]
    have := (List.all_eq_true.mp hall) _ (List.getElem_mem h2)
    simpa using this

theorem a2mDigitalWritable_writable (a : Abc) (ha : a2mDigSymOk a = true) (m : Msa) (h : A2mDigitalWritable a m) :
    A2mWritable (some a) (a2mCfg (some a)) (a2mEnc a) m :=
  { n1 := h.n1, alen1 := h.alen1, acc_none := h.acc_none, name_ok := h.name_ok, desc_ok := h.desc_ok, hdr_line := h.hdr_line
    row_char := fun i hi pos hp => by
      have hx : (axAt m i pos).toNat < a.kp := dsqRowOk_code _ _ _ (h.row_ok i hi) pos hp
      have hs := a2m_dig_sym a ha (axAt m i pos) hx
      exact ⟨_, a2mChar_dig_cons a m i pos (h.cons_ok pos hp), hs.1, by simpa [a2mCfg] using hs.2.1⟩ }

/-- the row read back in digital mode: code for code, except that `O` becomes the unknown residue and `*`, `~` become gaps -/
theorem a2mRow_digital (a : Abc) (ha : a2mDigSymOk a = true) (m : Msa) (h : A2mDigitalWritable a m) (i : Nat) (hi : i < m.nseq) :
    a2mRow (some a) (a2mCfg (some a)) (a2mEnc a) m i
      = dsqSENTINEL :: (List.range m.alen).map (fun p => a2mDigNorm a (axAt m i p)) ++ [dsqSENTINEL] := by
  have : a2mRowCodes (some a) (a2mEnc a) m i = (List.range m.alen).map (fun p => a2mDigNorm a (axAt m i p)) := by
    unfold a2mRowCodes
    apply List.map_congr_left
    intro p hp
    have hp' := List.mem_range.mp hp
    have hx : (axAt m i p).toNat < a.kp := dsqRowOk_code _ _ _ (h.row_ok i hi) p hp'
    simp [a2mWc, a2mChar_dig_cons a m i p (h.cons_ok p hp'), (a2m_dig_sym a ha (axAt m i p) hx).2.2]
  simp [a2mRow, mkRow, a2mCfg, Cfg.digital, this]

end EaselModel.Msafile
