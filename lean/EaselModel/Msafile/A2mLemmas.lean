import EaselModel.Msafile.Lemmas
import EaselModel.Msafile.AfaLemmas
import EaselModel.Msafile.A2m
/-! Invariant of the A2M reader (`A2m.lean`) and the facts the C01 theorems are glued from.

The two classifications the reader makes of every sequence byte (the `csflag` loop on the raw byte, the input map for the
residue) must agree: `a2mSyncB`, a finite table check.  They do for the four configurations, except on NUL (stored as
`inmap[0]` with status OK, never flagged), which the flag loop rejects with eslEFORMAT. -/
namespace EaselModel.Msafile

/-! ## run-length view of a `csflag` row -/

/-- `csflag` row (sentinel included) of a record with `as[k]` inserts before consensus column `k` -/
def enc (as : List Nat) : List Bool := as.flatMap fun a => List.replicate a false ++ [true]

@[simp] theorem enc_nil : enc [] = [] := rfl
@[simp] theorem enc_cons (a : Nat) (as : List Nat) : enc (a :: as) = List.replicate a false ++ true :: enc as := by
  simp [enc]
theorem enc_append (a b : List Nat) : enc (a ++ b) = enc a ++ enc b := by simp [enc]
theorem enc_single (a : Nat) : enc [a] = List.replicate a false ++ [true] := by simp

theorem enc_length (as : List Nat) : (enc as).length = as.sum + as.length := by
  induction as with
  | nil => simp
  | cons a as ih => simp [ih]; omega

/-- pointwise `≤` of two lists of the same length -/
def LeAll : List Nat → List Nat → Prop
  | [], [] => True
  | a :: as, b :: bs => a ≤ b ∧ LeAll as bs
  | _, _ => False

theorem LeAll.length_eq : ∀ {as bs : List Nat}, LeAll as bs → as.length = bs.length
  | [], [], _ => rfl
  | _ :: as, _ :: bs, h => by simp [LeAll.length_eq (as := as) (bs := bs) h.2]
  | [], _ :: _, h => by simp [LeAll] at h
  | _ :: _, [], h => by simp [LeAll] at h

theorem LeAll.refl : ∀ (as : List Nat), LeAll as as
  | [] => trivial
  | _ :: as => ⟨Nat.le_refl _, LeAll.refl as⟩

theorem LeAll.zipMax_left : ∀ {as ns bs : List Nat}, LeAll as ns → ns.length = bs.length → LeAll as (List.zipWith max ns bs)
  | [], [], [], _, _ => trivial
  | [], [], _ :: _, _, h => by simp at h
  | a :: as, n :: ns, [], _, h => by simp at h
  | a :: as, n :: ns, b :: bs, h, hl => by
    simp only [List.zipWith_cons_cons]
    exact ⟨by have := h.1; omega, LeAll.zipMax_left h.2 (by simpa using hl)⟩
  | [], _ :: _, _, h, _ => by simp [LeAll] at h
  | _ :: _, [], _, h, _ => by simp [LeAll] at h

theorem LeAll.zipMax_right : ∀ {ns bs : List Nat}, ns.length = bs.length → LeAll bs (List.zipWith max ns bs)
  | [], [], _ => trivial
  | [], _ :: _, h => by simp at h
  | _ :: _, [], h => by simp at h
  | n :: ns, b :: bs, hl => by
    simp only [List.zipWith_cons_cons]
    exact ⟨by omega, LeAll.zipMax_right (by simpa using hl)⟩

/-! ## the bounds-checked stores -/

theorem csWrite_ok (fl : List Bool) (alloc i : Nat) (v : Bool) (h1 : i ≤ fl.length) (h2 : i < alloc) :
    ∃ fl', csWrite fl alloc i v = some fl' ∧ i + 1 ≤ fl'.length ∧ fl'.take (i + 1) = fl.take i ++ [v] := by
  unfold csWrite
  have : ¬ i ≥ alloc := by omega
  simp only [this, if_false]
  by_cases hlt : i < fl.length
  · simp only [hlt, if_true]
    refine ⟨_, rfl, by simp; omega, ?_⟩
    rw [List.take_add_one, List.take_set_of_le (Nat.le_refl i)]
    simp [hlt]
  · have he : i = fl.length := by omega
    subst he
    simp only [Nat.lt_irrefl, if_false, beq_self_eq_true, if_true]
    refine ⟨_, rfl, by simp, ?_⟩
    rw [List.take_of_length_le (by simp), List.take_of_length_le (Nat.le_refl _)]

theorem incAt_ok (a : List Nat) (i : Nat) (h : i < a.length) :
    incAt a i = some (a.set i (a[i] + 1)) := by
  unfold incAt
  simp [List.getElem?_eq_getElem h]

/-! ## the two classifications of a sequence byte agree -/

/-- the byte on which the `csflag` loop and the input map disagree: NUL (stored as `inmap[0]`, never flagged); the loop rejects it -/
def a2mBad (c : UInt8) : Bool := c == 0

/-- the `csflag` loop writes a flag for this byte -/
def a2mFlagged (c : UInt8) : Bool := !a2mSkip c && (isUpper c || isLower c || c == 45)

/-- the input map stores a residue for this byte -/
def stores (m : InMap) (c : UInt8) : Bool := (mapByte m c).2.isSome

/-- table check: every ASCII byte outside `a2mBad` that the map accepts with status OK stores a residue iff it is flagged -/
def a2mSyncB (m : InMap) : Bool :=
  (List.range 128).all fun i =>
    let c := UInt8.ofNat i
    a2mBad c || (mapByte m c).1 != CatSt.ok || (stores m c == a2mFlagged c)

/-- symbols that may be stored in a row: alphabet codes `< Kp` (digital), non-NUL characters (text) -/
def Cfg.symOk (c : Cfg) (x : UInt8) : Bool := if c.digital then decide (x.toNat < c.kp) else x != 0

/-- what the A2M reader needs of its configuration beyond `Cfg.valid` -/
structure A2mValid (c : Cfg) : Prop where
  sync : a2mSyncB c.inmap = true
  pad : c.symOk c.padSym = true

theorem a2mSync_char (m : InMap) (h : a2mSyncB m = true) (c : UInt8)
    (hb : a2mBad c = false) (hok : (mapByte m c).1 = .ok) : stores m c = a2mFlagged c := by
  by_cases ha : isAscii c
  · have h2 := (List.all_eq_true.mp h) c.toNat (by
      simp only [isAscii, decide_eq_true_eq] at ha
      exact List.mem_range.mpr (by exact ha))
    simp only [UInt8.ofNat_toNat, hb, hok, Bool.false_or, bne_self_eq_false, beq_iff_eq] at h2
    exact h2
  · exfalso
    unfold mapByte at hok
    simp [ha] at hok

/-- a successful `mapLoop`: every byte was accepted and the number of stored residues is the number of storing bytes -/
theorem mapLoop_ok_length (m : InMap) :
    ∀ (src : Bytes) (st : CatSt) (acc : Bytes), (mapLoop m src st acc).1 = .ok →
      st = .ok ∧ (∀ c ∈ src, (mapByte m c).1 = .ok) ∧
      (mapLoop m src st acc).2.length = acc.length + (src.filter (stores m)).length := by
  intro src
  induction src with
  | nil => intro st acc h; simpa [mapLoop] using h
  | cons c rest ih =>
    intro st acc h
    unfold mapLoop at h ⊢
    cases hm : mapByte m c with
    | mk s o =>
      rw [hm] at h
      cases s <;> cases o <;> simp only at h ⊢
      · obtain ⟨h1, h2, h3⟩ := ih _ _ h
        refine ⟨h1, ?_, ?_⟩
        · intro c' hc'
          rcases List.mem_cons.mp hc' with e | e
          · subst e; rw [hm]
          · exact h2 c' e
        · rw [h3]; simp [stores, hm]
      · obtain ⟨h1, h2, h3⟩ := ih _ _ h
        refine ⟨h1, ?_, ?_⟩
        · intro c' hc'
          rcases List.mem_cons.mp hc' with e | e
          · subst e; rw [hm]
          · exact h2 c' e
        · rw [h3]; simp [stores, hm]; omega
      · exact absurd (ih _ _ h).1 (by simp)
      · exact absurd (ih _ _ h).1 (by simp)
      · simp at h
      · simp at h

/-- number of flags the `csflag` loop writes for a line -/
def nflag (p : Bytes) : Nat := (p.filter a2mFlagged).length

theorem stores_eq_nflag (m : InMap) (h : a2mSyncB m = true) (p : Bytes)
    (hb : ∀ c ∈ p, a2mBad c = false) (hok : ∀ c ∈ p, (mapByte m c).1 = .ok) :
    (p.filter (stores m)).length = nflag p := by
  unfold nflag
  congr 1
  apply List.filter_congr
  intro c hc
  exact a2mSync_char m h c (hb c hc) (hok c hc)

/-! ## the `csflag` loop over one line -/

/-- loop invariant of `for (spos = thislen, bpos = 0; bpos < n; bpos++)` with `k` bytes still to go.
    `B` = number of cells of `this_nins` known to be initialised (`[0..this_ncons]` hold counts, the rest zeros). -/
structure CharInv (nseq ncons alloc B k : Nat) (s : LineSt) : Prop where
  nohole : s.spos ≤ s.fl.length
  room : s.spos + k < alloc
  encd : s.fl.take s.spos ++ [true] = enc (s.tn.take (s.tc + 1))
  bB : B ≤ s.tn.length
  tcB : s.tc < B
  tc0 : nseq = 0 → s.tc + k < B
  tcn : nseq ≠ 0 → B = ncons + 1
  zero : ∀ j, s.tc < j → j < B → s.tn[j]? = some 0

theorem CharInv.weaken {nseq ncons alloc B k : Nat} {s : LineSt} (h : CharInv nseq ncons alloc B (k + 1) s) :
    CharInv nseq ncons alloc B k s :=
  { h with room := by have := h.room; omega, tc0 := fun h0 => by have := h.tc0 h0; omega }

/-- a consensus byte (upper case or '-'): `csflag[nseq][spos++] = TRUE; this_ncons++` -/
theorem charInv_cons {nseq ncons alloc B k : Nat} {s : LineSt} (h : CharInv nseq ncons alloc B (k + 1) s) :
    ∃ fl', csWrite s.fl alloc s.spos true = some fl' ∧
      ((nseq ≠ 0 ∧ s.tc + 1 > ncons) ∨
        CharInv nseq ncons alloc B k { s with fl := fl', spos := s.spos + 1, tc := s.tc + 1 }) := by
  obtain ⟨fl', hw, hlen, htake⟩ := csWrite_ok s.fl alloc s.spos true h.nohole (by have := h.room; omega)
  refine ⟨fl', hw, ?_⟩
  by_cases hx : nseq ≠ 0 ∧ s.tc + 1 > ncons
  · exact Or.inl hx
  · right
    have hlt : s.tc + 1 < B := by
      by_cases h0 : nseq = 0
      · have := h.tc0 h0; omega
      · have := h.tcn h0
        have : ¬ s.tc + 1 > ncons := fun hc => hx ⟨h0, hc⟩
        omega
    have hz := h.zero (s.tc + 1) (by omega) hlt
    exact
      { nohole := hlen
        room := by show s.spos + 1 + k < alloc; have := h.room; omega
        encd := by
          show fl'.take (s.spos + 1) ++ [true] = enc (s.tn.take (s.tc + 1 + 1))
          rw [htake, h.encd, List.take_add_one (i := s.tc + 1), hz, enc_append]
          simp
        bB := h.bB
        tcB := hlt
        tc0 := fun h0 => by show s.tc + 1 + k < B; have := h.tc0 h0; omega
        tcn := h.tcn
        zero := fun j hj hjB => h.zero j (by show s.tc < j; have : s.tc + 1 < j := hj; omega) hjB }

/-- an insert byte (lower case): `csflag[nseq][spos++] = FALSE; this_nins[this_ncons]++` -/
theorem charInv_ins {nseq ncons alloc B k : Nat} {s : LineSt} (h : CharInv nseq ncons alloc B (k + 1) s) :
    ∃ fl' tn', csWrite s.fl alloc s.spos false = some fl' ∧ incAt s.tn s.tc = some tn' ∧
      CharInv nseq ncons alloc B k { s with fl := fl', spos := s.spos + 1, tn := tn' } := by
  obtain ⟨fl', hw, hlen, htake⟩ := csWrite_ok s.fl alloc s.spos false h.nohole (by have := h.room; omega)
  have htc : s.tc < s.tn.length := Nat.lt_of_lt_of_le h.tcB h.bB
  refine ⟨fl', _, hw, incAt_ok s.tn s.tc htc, ?_⟩
  have he := h.encd
  rw [List.take_add_one, List.getElem?_eq_getElem htc, Option.toList_some, enc_append, enc_single] at he
  have he' : s.fl.take s.spos = enc (s.tn.take s.tc) ++ List.replicate s.tn[s.tc] false := by
    have : s.fl.take s.spos ++ [true] = (enc (s.tn.take s.tc) ++ List.replicate s.tn[s.tc] false) ++ [true] := by
      rw [he]; simp
    exact List.append_cancel_right this
  exact
    { nohole := hlen
      room := by show s.spos + 1 + k < alloc; have := h.room; omega
      encd := by
        show fl'.take (s.spos + 1) ++ [true] = enc ((s.tn.set s.tc (s.tn[s.tc] + 1)).take (s.tc + 1))
        rw [htake, he', List.take_add_one, List.take_set_of_le (Nat.le_refl _)]
        simp [htc, enc_append, List.replicate_succ']
      bB := by show B ≤ (s.tn.set s.tc _).length; simpa using h.bB
      tcB := h.tcB
      tc0 := fun h0 => by show s.tc + k < B; have := h.tc0 h0; omega
      tcn := h.tcn
      zero := fun j hj hjB => by
        show (s.tn.set s.tc _)[j]? = some 0
        have hj' : s.tc < j := hj
        rw [List.getElem?_set_ne (by omega)]
        exact h.zero j hj' hjB }

/-- result of the `if … else if …` chain for one byte that is not skipped -/
def Char1Ok (nseq ncons alloc B k : Nat) (c : UInt8) (s : LineSt) (r : Option (Option LineSt)) : Prop :=
  match r with
  | none => True
  | some none => False
  | some (some s') =>
    s'.spos = s.spos + (if a2mFlagged c then 1 else 0) ∧ c ≠ 0 ∧
      ((nseq ≠ 0 ∧ s'.tc > ncons) ∨ CharInv nseq ncons alloc B k s')

theorem a2mChar1_spec {nseq ncons alloc B k : Nat} (c : UInt8) {s : LineSt}
    (h : CharInv nseq ncons alloc B (k + 1) s) (hs : a2mSkip c = false) :
    Char1Ok nseq ncons alloc B k c s (a2mChar1 alloc c s) := by
  unfold a2mChar1
  by_cases hU : isUpper c = true
  · obtain ⟨fl', hw, hr⟩ := charInv_cons h
    simp only [hU, if_true, hw, Option.map_some, Char1Ok, a2mFlagged, hs, Bool.not_false, Bool.true_or, Bool.and_self]
    refine ⟨trivial, ?_, hr⟩
    intro h0; subst h0; exact absurd hU (by decide)
  · simp only [hU, Bool.false_eq_true, if_false]
    by_cases hL : isLower c = true
    · obtain ⟨fl', tn', hw, hi, hr⟩ := charInv_ins h
      simp only [hL, if_true, hw, hi, Char1Ok, a2mFlagged, hs, Bool.not_false, Bool.true_or, Bool.or_true, Bool.and_self]
      refine ⟨trivial, ?_, Or.inr hr⟩
      intro h0; subst h0; exact absurd hL (by decide)
    · simp only [hL, Bool.false_eq_true, if_false]
      by_cases hD : (c == 45) = true
      · obtain ⟨fl', hw, hr⟩ := charInv_cons h
        simp only [hD, if_true, hw, Option.map_some, Char1Ok, a2mFlagged, hs, Bool.not_false, Bool.or_true, Bool.and_self]
        refine ⟨trivial, ?_, hr⟩
        intro h0; subst h0; exact absurd hD (by decide)
      · simp only [hD, Bool.false_eq_true, if_false]
        by_cases hN : (c == 0) = true
        · simp [hN, Char1Ok]
        · simp only [hN, Bool.false_eq_true, if_false, Char1Ok, a2mFlagged, hU, hL, hD, Bool.or_self, Bool.and_false,
            Nat.add_zero, true_and]
          exact ⟨by simpa using hN, Or.inr h.weaken⟩

/-- outcome of the `csflag` loop over the bytes `p`: the invariant at the end of the line, the number of flags written,
    and no NUL on the line; or a format error.  Never a fault. -/
def CharsOk (nseq ncons alloc B : Nat) (p : Bytes) (s : LineSt) (r : Sum LineSt (Res Msa)) : Prop :=
  match r with
  | .inl s' => CharInv nseq ncons alloc B 0 s' ∧ s'.spos = s.spos + nflag p ∧ (∀ c ∈ p, c ≠ 0)
  | .inr res => Good res

theorem nflag_cons (c : UInt8) (p : Bytes) :
    nflag (c :: p) = (if a2mFlagged c then 1 else 0) + nflag p := by
  unfold nflag
  by_cases h : a2mFlagged c = true
  · simp [h]; omega
  · simp [h]

theorem a2mChars_inv (nseq ncons alloc B : Nat) :
    ∀ (p : Bytes) (s : LineSt), CharInv nseq ncons alloc B p.length s →
      CharsOk nseq ncons alloc B p s (a2mChars nseq ncons alloc p s) := by
  intro p
  induction p with
  | nil => intro s h; simp [a2mChars, CharsOk, nflag]; exact h
  | cons c rest ih =>
    intro s h
    unfold a2mChars
    by_cases hs : a2mSkip c = true
    · simp only [hs, if_true]
      have := ih s h.weaken
      revert this
      cases a2mChars nseq ncons alloc rest s with
      | inr r => exact id
      | inl s' =>
        simp only [CharsOk]
        intro ⟨h1, h2, h3⟩
        refine ⟨h1, ?_, ?_⟩
        · rw [h2, nflag_cons]; simp [a2mFlagged, hs]
        · intro c' hc'
          rcases List.mem_cons.mp hc' with e | e
          · subst e; intro h0; subst h0
            simp [a2mSkip] at hs
          · exact h3 c' e
    · have hs' : a2mSkip c = false := by simpa using hs
      simp only [hs', Bool.false_eq_true, if_false]
      have h1 := a2mChar1_spec c h hs'
      revert h1
      cases a2mChar1 alloc c s with
      | none => intro _; simp [CharsOk, a2mMsgInval]
      | some o =>
        cases o with
        | none => intro h1; exact absurd h1 (by simp [Char1Ok])
        | some s' =>
          simp only [Char1Ok]
          intro ⟨e1, e2, e3⟩
          by_cases hx : (nseq != 0 && decide (s'.tc > ncons)) = true
          · simp [hx, CharsOk, a2mMsgCons]
          · simp only [hx, Bool.false_eq_true, if_false]
            have hinv : CharInv nseq ncons alloc B rest.length s' := by
              rcases e3 with e3 | e3
              · exfalso; apply hx; simp [e3.1, e3.2]
              · exact e3
            have := ih s' hinv
            revert this
            cases a2mChars nseq ncons alloc rest s' with
            | inr r => exact id
            | inl s'' =>
              simp only [CharsOk]
              intro ⟨g1, g2, g3⟩
              refine ⟨g1, ?_, ?_⟩
              · rw [g2, e1, nflag_cons]; omega
              · intro c' hc'
                rcases List.mem_cons.mp hc' with e | e
                · subst e; exact e2
                · exact g3 c' e

/-! ## padding phase -/

theorem padCopy_spec (size : Nat) (fl' : List Bool) :
    ∀ (a : Nat) (xs old' : Bytes) (ic : Nat) (acc : Bytes), xs.length = a → acc.length + a ≤ size →
      padCopy size (List.replicate a false ++ true :: fl') (xs ++ old') ic acc
        = some (true :: fl', old', ic + a, xs.reverse ++ acc) := by
  intro a
  induction a with
  | zero =>
    intro xs old' ic acc hx _
    have : xs = [] := List.length_eq_zero_iff.mp hx
    subst this
    simp [padCopy]
  | succ a ih =>
    intro xs old' ic acc hx hsz
    cases xs with
    | nil => simp at hx
    | cons x xs =>
      have hlt : acc.length < size := by omega
      simp only [List.replicate_succ, List.cons_append, padCopy, hlt, if_true]
      rw [ih xs old' (ic + 1) (x :: acc) (by simpa using hx) (by simp; omega)]
      simp; omega

theorem padFill_spec (size : Nat) (gap : UInt8) :
    ∀ (k : Nat) (acc : Bytes), acc.length + k ≤ size → padFill size gap k acc = some (List.replicate k gap ++ acc) := by
  intro k
  induction k with
  | zero => intro acc _; simp [padFill]
  | succ k ih =>
    intro acc h
    have hlt : acc.length < size := by omega
    simp only [padFill, hlt, if_true]
    rw [ih (gap :: acc) (by simp; omega)]
    simp [List.replicate_succ']

/-- the row loop of the padding functions on a flag row that fits `nins`: no access outside the rows, exactly
    `Σ nins + ncons` cells written, each an old residue or the gap symbol -/
theorem padRow_spec (size : Nat) (gap : UInt8) (P : UInt8 → Bool) (hgap : P gap = true) (junk : List Bool) (old' : Bytes) :
    ∀ (nins as : List Nat) (xs acc : Bytes), LeAll as nins →
      xs.length + 1 = as.sum + as.length → acc.length + nins.sum + nins.length ≤ size + 1 →
      xs.all P = true → acc.all P = true →
      ∃ acc', padRow size gap nins (enc as ++ junk) (xs ++ old') acc = some acc' ∧
        acc'.length + 1 = acc.length + nins.sum + nins.length ∧ acc'.all P = true := by
  intro nins
  induction nins with
  | nil =>
    intro as xs acc hle hx
    cases as with
    | nil => simp at hx
    | cons a as => simp [LeAll] at hle
  | cons m ms ih =>
    intro as xs acc hle hx hsz hxs hacc
    cases as with
    | nil => simp [LeAll] at hle
    | cons a as' =>
      obtain ⟨ham, hle'⟩ := hle
      simp only [List.sum_cons, List.length_cons] at hx hsz
      -- split the residues read by the first loop
      have hxa : a ≤ xs.length := by omega
      have hsplit : xs = xs.take a ++ xs.drop a := (List.take_append_drop a xs).symm
      have hta : (xs.take a).length = a := by simp; omega
      have hallt : (xs.take a).all P = true := by
        rw [List.all_eq_true] at hxs ⊢; intro x hx'; exact hxs x (List.mem_of_mem_take hx')
      have halld : (xs.drop a).all P = true := by
        rw [List.all_eq_true] at hxs ⊢; intro x hx'; exact hxs x (List.mem_of_mem_drop hx')
      have hcopy := padCopy_spec size (enc as' ++ junk) a (xs.take a) (xs.drop a ++ old') 0 acc hta (by omega)
      have hfill := padFill_spec size gap (m - a) ((xs.take a).reverse ++ acc) (by simp; omega)
      have hacc2 : (List.replicate (m - a) gap ++ ((xs.take a).reverse ++ acc)).all P = true := by
        simp only [List.all_append, List.all_reverse, hallt, hacc, Bool.and_true]
        simp [hgap]
      have hlen2 : (List.replicate (m - a) gap ++ ((xs.take a).reverse ++ acc)).length = acc.length + m := by
        simp; omega
      unfold padRow
      simp only [enc_cons, List.append_assoc, List.cons_append]
      rw [hsplit, List.append_assoc, hcopy]
      simp only [Nat.zero_add, hfill]
      cases ms with
      | nil =>
        have : as' = [] := by
          cases as' with
          | nil => rfl
          | cons _ _ => simp [LeAll] at hle'
        subst this
        refine ⟨_, rfl, ?_, hacc2⟩
        rw [hlen2]; simp
      | cons m' ms' =>
        cases as' with
        | nil => simp [LeAll] at hle'
        | cons a' as'' =>
          simp only [List.sum_cons, List.length_cons] at hx hsz
          -- the consensus residue
          have hdl : (xs.drop a).length = xs.length - a := by simp
          cases hd : xs.drop a with
          | nil => rw [hd] at hdl; simp at hdl; omega
          | cons x xs3 =>
            rw [hd] at hdl halld
            simp only [List.cons_append, List.drop_succ_cons, List.drop_zero]
            have hlt : (List.replicate (m - a) gap ++ ((xs.take a).reverse ++ acc)).length < size := by
              rw [hlen2]; omega
            simp only [hlt, if_true]
            have hx3 : P x = true ∧ xs3.all P = true := by simpa using halld
            obtain ⟨acc', hr, hl, ha⟩ := ih (a' :: as'') xs3 (x :: (List.replicate (m - a) gap ++ ((xs.take a).reverse ++ acc)))
              hle' (by simp only [List.sum_cons, List.length_cons]; simp at hdl; omega)
              (by simp only [List.length_cons, List.sum_cons, hlen2]; omega) hx3.2
              (by rw [List.all_cons, hx3.1, hacc2]; rfl)
            refine ⟨acc', hr, ?_, ha⟩
            rw [hl]; simp only [List.length_cons, hlen2, List.sum_cons]; omega

theorem padRf_spec (size : Nat) :
    ∀ (nins : List Nat) (acc : Bytes), nins ≠ [] → acc.length + nins.sum + nins.length ≤ size + 1 →
      ∃ acc', padRf size nins acc = some acc' ∧ acc'.length + 1 = acc.length + nins.sum + nins.length := by
  intro nins
  induction nins with
  | nil => intro acc h; exact absurd rfl h
  | cons m ms ih =>
    intro acc _ hsz
    simp only [List.sum_cons, List.length_cons] at hsz
    unfold padRf
    rw [padFill_spec size 46 m acc (by omega)]
    cases ms with
    | nil => exact ⟨_, rfl, by simp; omega⟩
    | cons m' ms' =>
      simp only [List.sum_cons, List.length_cons] at hsz
      have hlt : (List.replicate m (46 : UInt8) ++ acc).length < size := by simp; omega
      simp only [hlt, if_true]
      obtain ⟨acc', hr, hl⟩ := ih (120 :: (List.replicate m (46 : UInt8) ++ acc)) (by simp)
        (by simp only [List.length_cons, List.sum_cons, List.length_append, List.length_replicate]; omega)
      refine ⟨acc', hr, ?_⟩
      rw [hl]; simp only [List.length_cons, List.sum_cons, List.length_append, List.length_replicate]; omega

/-- a finished record: its `csflag` row is the encoding of insert counts that fit under `nins`, and its unaligned row
    is a well-formed row with one residue per flag -/
def RecOk (cfg : Cfg) (ncons : Nat) (nins : List Nat) (rec : Bytes × List Bool) : Prop :=
  ∃ as junk, rec.2 = enc as ++ junk ∧ LeAll as nins ∧ rowOkB cfg.digital cfg.kp (as.sum + ncons) rec.1 = true

theorem dsqRowOk_split (kp L : Nat) (r : Bytes) (h : dsqRowOk kp L r = true) :
    ∃ codes, r.drop 1 = codes ++ [dsqSENTINEL] ∧ codes.length = L ∧ codes.all (fun x => decide (x.toNat < kp)) = true := by
  cases r with
  | nil => simp [dsqRowOk] at h
  | cons s0 rest =>
    simp only [dsqRowOk, Bool.and_eq_true, beq_iff_eq] at h
    obtain ⟨⟨⟨_, hlen⟩, hlast⟩, hall⟩ := h
    obtain ⟨ys, hys⟩ := List.getLast?_eq_some_iff.mp hlast
    subst hys
    refine ⟨ys, by simp, ?_, by simpa using hall⟩
    simp at hlen; omega

theorem all_ne_zero_of_not_contains (r : Bytes) (h : (!r.contains 0) = true) : r.all (· != 0) = true := by
  rw [List.all_eq_true]
  intro x hx
  simp only [bne_iff_ne, ne_eq]
  intro h0; subst h0
  simp [hx] at h

theorem not_contains_of_all_ne_zero (r : Bytes) (h : r.all (· != 0) = true) : (!r.contains 0) = true := by
  simp only [Bool.not_eq_true', List.contains_eq_mem, decide_eq_false_iff_not]
  intro hm
  have := (List.all_eq_true.mp h) 0 hm
  simp at this

theorem symOk_digital (cfg : Cfg) (hd : cfg.digital = true) : cfg.symOk = fun x => decide (x.toNat < cfg.kp) := by
  funext x; simp [Cfg.symOk, hd]
theorem symOk_text (cfg : Cfg) (hd : cfg.digital = false) : cfg.symOk = fun x => x != 0 := by
  funext x; simp [Cfg.symOk, hd]

/-- one row of the padding phase: no fault, and the aligned row is well formed with `alen` columns -/
theorem padOne_spec (cfg : Cfg) (hpad : cfg.symOk cfg.padSym = true) (ncons : Nat) (nins : List Nat)
    (hn : nins.length = ncons + 1) (alen : Nat) (ha : alen = ncons + nins.sum) (rec : Bytes × List Bool)
    (h : RecOk cfg ncons nins rec) :
    ∃ r, padOne cfg nins alen rec = some r ∧ rowOkB cfg.digital cfg.kp alen r = true := by
  obtain ⟨as, junk, hfl, hle, hrow⟩ := h
  have hasl : as.length = ncons + 1 := by rw [hle.length_eq, hn]
  unfold padOne
  cases hd : cfg.digital with
  | true =>
    simp only [rowOkB, hd, if_true] at hrow ⊢
    obtain ⟨codes, hdrop, hcl, hcall⟩ := dsqRowOk_split _ _ _ hrow
    have hP := symOk_digital cfg hd
    obtain ⟨acc', hr, hl, hall⟩ := padRow_spec (alen + 1) cfg.padSym cfg.symOk hpad junk [dsqSENTINEL] nins as codes []
      hle (by rw [hcl, hasl]; omega) (by simp only [List.length_nil, hn]; omega) (by rw [hP]; exact hcall) rfl
    rw [hfl, hdrop, hr]
    have hlen : acc'.length = alen := by simp only [List.length_nil, hn] at hl; omega
    simp only [hlen, bne_self_eq_false, Bool.false_eq_true, if_false]
    refine ⟨_, rfl, ?_⟩
    have := dsqRowOk_build cfg.kp acc'.reverse (by rw [List.all_reverse, ← hP]; exact hall)
    simpa [hlen] using this
  | false =>
    simp only [rowOkB, hd, Bool.false_eq_true, if_false, Bool.and_eq_true, beq_iff_eq] at hrow ⊢
    have hP := symOk_text cfg hd
    obtain ⟨acc', hr, hl, hall⟩ := padRow_spec (alen + 1) cfg.padSym cfg.symOk hpad junk [0] nins as rec.1 []
      hle (by rw [hrow.1, hasl]; omega) (by simp only [List.length_nil, hn]; omega)
      (by rw [hP]; exact all_ne_zero_of_not_contains _ hrow.2) rfl
    rw [hfl, hr]
    have hlen : acc'.length = alen := by simp only [List.length_nil, hn] at hl; omega
    simp only [hlen, bne_self_eq_false, Bool.false_eq_true, if_false]
    refine ⟨_, rfl, by simp [hlen], ?_⟩
    apply not_contains_of_all_ne_zero
    rw [List.all_reverse, ← hP]; exact hall

theorem padAll_spec (cfg : Cfg) (hpad : cfg.symOk cfg.padSym = true) (ncons : Nat) (nins : List Nat)
    (hn : nins.length = ncons + 1) (alen : Nat) (ha : alen = ncons + nins.sum) :
    ∀ (recs : List (Bytes × List Bool)), (∀ rec ∈ recs, RecOk cfg ncons nins rec) →
      ∃ rows, padAll cfg nins alen recs = some rows ∧ rows.length = recs.length ∧
        rows.all (rowOkB cfg.digital cfg.kp alen) = true := by
  intro recs
  induction recs with
  | nil => intro _; exact ⟨[], rfl, rfl, rfl⟩
  | cons rec rest ih =>
    intro h
    obtain ⟨r, hr, hrok⟩ := padOne_spec cfg hpad ncons nins hn alen ha rec (h rec (by simp))
    obtain ⟨rs, hrs, hl, hall⟩ := ih (fun x hx => h x (by simp [hx]))
    refine ⟨r :: rs, ?_, by simp [hl], by simp [hrok, hall]⟩
    simp [padAll, hr, hrs]

/-- an alignment made of names, rows, default weights and a reference line is well formed -/
theorem wellFormed_plain_rf (digital : Bool) (kp alen : Nat) (names rows : List Bytes) (sqdesc : OptRows) (rf : Bytes)
    (h1 : 1 ≤ names.length) (hr : rows.length = names.length) (hok : rows.all (rowOkB digital kp alen) = true)
    (hrf : rf.length = alen) :
    ({ digital := digital, kp := kp, alen := alen, names := names,
       aseq := if digital then [] else rows, ax := if digital then rows else [],
       hasw := false, wgt := List.replicate names.length Wgt.dflt, rf := some rf, sqdesc := sqdesc } : Msa).wellFormed = true := by
  have hok' := List.all_eq_true.mp hok
  cases digital with
  | true =>
    simp [Msa.wellFormed, Msa.nseq, optLenOk, optRowsOk, hr, h1, hrf]
    intro r hr'
    simpa [rowOkB] using hok' r hr'
  | false =>
    simp [Msa.wellFormed, Msa.nseq, optLenOk, optRowsOk, hr, h1, hrf]
    intro r hr'
    simpa [rowOkB] using hok' r hr'

/-! ## the reader's invariant -/

structure A2mCommon (cfg : Cfg) (st : A2mSt) : Prop where
  alloc : st.nseq ≤ st.sqalloc ∧ 0 < st.sqalloc
  recs_len : st.recs.length = st.nseq
  first : st.nseq = 0 → st.ncons = 0
  nins_len : st.nseq ≠ 0 → st.nins.length = st.ncons + 1
  recs_ok : ∀ rec ∈ st.recs, RecOk cfg st.ncons st.nins rec
  tn_len : st.nseq ≠ 0 → st.ncons + 1 ≤ st.tn.length

/-- between two records: one name per finished record -/
structure A2mBetween (cfg : Cfg) (st : A2mSt) : Prop extends A2mCommon cfg st where
  names_len : st.names.length = st.nseq

/-- the record being read: `csflag[nseq]` up to `thislen` encodes `this_nins[0..this_ncons]` (one flag per stored
    residue), the sentinel is in place once there is a residue, `this_nins` is zero beyond `this_ncons` -/
structure CurInv (cfg : Cfg) (st : A2mSt) : Prop where
  nohole : rowLen cfg.digital st.cur ≤ st.fl.length
  encd : st.fl.take (rowLen cfg.digital st.cur) ++ [true] = enc (st.tn.take (st.tc + 1))
  sent : rowLen cfg.digital st.cur ≠ 0 → st.fl.take (rowLen cfg.digital st.cur + 1) = enc (st.tn.take (st.tc + 1))
  tc_lt : st.tc < st.tn.length
  later : st.nseq ≠ 0 → st.tc ≤ st.ncons ∧ ∀ j, st.tc < j → j < st.ncons + 1 → st.tn[j]? = some 0

/-- at a `esl_msafile_GetLine` call -/
structure A2mInv (cfg : Cfg) (st : A2mSt) : Prop extends A2mCommon cfg st where
  lead_names : st.lead = true → st.names.length = st.nseq
  rec_names : st.lead = false → st.names.length = st.nseq + 1 ∧ st.nseq < st.sqalloc
  cur_ok : curOk cfg st.cur
  cur : st.lead = false → CurInv cfg st

theorem a2mInv_init (cfg : Cfg) : A2mInv cfg {} :=
  { alloc := by decide, recs_len := rfl, first := fun _ => rfl, nins_len := fun h => absurd rfl h,
    recs_ok := fun _ h => by simp at h, tn_len := fun h => absurd rfl h,
    lead_names := fun _ => rfl, rec_names := fun h => by simp at h, cur_ok := fun r h => by simp at h,
    cur := fun h => by simp at h }

/-- the padding phase on the state after the last record -/
theorem a2mPad_good (cfg : Cfg) (ha : A2mValid cfg) (st : A2mSt) (hb : A2mBetween cfg st) (h1 : 1 ≤ st.nseq) :
    Good (a2mPad cfg st) := by
  have hn0 : st.nseq ≠ 0 := by omega
  have hnl := hb.nins_len hn0
  unfold a2mPad
  have : ¬ st.nins.length < st.ncons + 1 := by omega
  simp only [this, if_false]
  have htake : st.nins.take (st.ncons + 1) = st.nins := List.take_of_length_le (by omega)
  rw [htake]
  obtain ⟨rrf, hrf, hrfl⟩ := padRf_spec (st.ncons + st.nins.sum + 1) st.nins [] (by intro h; rw [h] at hnl; simp at hnl)
    (by simp only [List.length_nil, hnl]; omega)
  obtain ⟨rows, hrows, hrl, hrall⟩ := padAll_spec cfg ha.pad st.ncons st.nins hnl _ rfl st.recs hb.recs_ok
  rw [hrf, hrows]
  have hrfl' : rrf.length = st.ncons + st.nins.sum := by simp only [List.length_nil, hnl] at hrfl; omega
  have : ¬ rrf.length > st.ncons + st.nins.sum := by omega
  simp only [this, if_false, Good]
  rw [← hb.names_len]
  exact wellFormed_plain_rf cfg.digital cfg.kp _ st.names rows _ rrf.reverse (by rw [hb.names_len]; exact h1)
    (by rw [hrl, hb.recs_len, hb.names_len]) hrall (by simp [hrfl'])

theorem a2mStartRecord_inv (cfg : Cfg) (st : A2mSt) (p : Bytes) (h : A2mBetween cfg st) :
    StepGood (A2mInv cfg) (a2mStartRecord st p) := by
  unfold a2mStartRecord
  cases p with
  | nil => simp [a2mMsg1]
  | cons c p1 =>
    simp only
    split
    · simp
    · rename_i tok rest _
      have hal := h.alloc
      have hex : st.nseq < expandAlloc st.nseq st.sqalloc := by
        unfold expandAlloc
        by_cases h1 : st.nseq ≥ st.sqalloc
        · simp only [h1, if_true]; omega
        · simp only [h1, if_false]; omega
      split
      · rename_i hge; exfalso; omega
      · have htn1 : st.ncons + 1 ≤ (if st.tn.isEmpty then [0] else st.tn).length := by
          by_cases h0 : st.nseq = 0
          · rw [h.first h0]
            by_cases he : st.tn.isEmpty = true
            · simp [he]
            · simp only [he, Bool.false_eq_true, if_false]
              cases htn : st.tn with
              | nil => simp [htn] at he
              | cons _ _ => simp
          · have := h.tn_len h0
            have he : st.tn.isEmpty = false := by
              cases htn : st.tn with
              | nil => rw [htn] at this; simp at this
              | cons _ _ => rfl
            simpa [he] using this
        have hlt : ¬ (if st.tn.isEmpty then [0] else st.tn).length < st.ncons + 1 := by omega
        simp only [hlt, if_false, stepGood_inl]
        · exact
            { alloc := ⟨by show st.nseq ≤ expandAlloc st.nseq st.sqalloc; omega, by show 0 < expandAlloc st.nseq st.sqalloc; omega⟩
              recs_len := h.recs_len, first := h.first, nins_len := h.nins_len, recs_ok := h.recs_ok
              tn_len := fun _ => by
                show st.ncons + 1 ≤ (List.replicate (st.ncons + 1) 0 ++ _).length
                simp
              lead_names := fun hl => by simp at hl
              rec_names := fun _ => ⟨by simp [h.names_len], hex⟩
              cur_ok := fun r hr => by simp at hr
              cur := fun _ =>
                { nohole := by simp [rowLen]
                  encd := by
                    show ([] : List Bool).take (rowLen cfg.digital none) ++ [true]
                      = enc ((List.replicate (st.ncons + 1) 0 ++ _).take (0 + 1))
                    simp [rowLen, List.replicate_succ]
                  sent := fun hne => by simp [rowLen] at hne
                  tc_lt := by
                    show 0 < (List.replicate (st.ncons + 1) 0 ++ _).length
                    simp; omega
                  later := fun _ => ⟨Nat.zero_le _, fun j _ hj => by
                    show (List.replicate (st.ncons + 1) 0 ++ _)[j]? = some 0
                    rw [List.getElem?_append_left (by simpa using hj)]
                    simp [hj]⟩ } }

theorem rowOkB_empty (cfg : Cfg) :
    rowOkB cfg.digital cfg.kp 0 (if cfg.digital then [dsqSENTINEL, dsqSENTINEL] else []) = true := by
  cases hd : cfg.digital <;> simp [rowOkB, dsqRowOk]

/-- what the record loop knows of the record it has just read (after the `thislen == 0` edge case) -/
theorem a2m_record_done (cfg : Cfg) (st : A2mSt) (hc : curOk cfg st.cur) (h : CurInv cfg st) :
    ∃ r junk,
      (if (rowLen cfg.digital st.cur == 0) = true then some (if cfg.digital then [dsqSENTINEL, dsqSENTINEL] else []) else st.cur) = some r ∧
      (if (rowLen cfg.digital st.cur == 0) = true then [true] else st.fl) = enc (st.tn.take (st.tc + 1)) ++ junk ∧
      rowOkB cfg.digital cfg.kp ((st.tn.take (st.tc + 1)).sum + st.tc) r = true := by
  have hlen : (st.tn.take (st.tc + 1)).length = st.tc + 1 := by
    rw [List.length_take]; have := h.tc_lt; omega
  have hsum : (st.tn.take (st.tc + 1)).sum + st.tc = rowLen cfg.digital st.cur := by
    have := congrArg List.length h.encd
    rw [enc_length, hlen, List.length_append, List.length_take] at this
    have hh := h.nohole
    simp only [List.length_cons, List.length_nil] at this
    omega
  rw [hsum]
  by_cases h0 : rowLen cfg.digital st.cur = 0
  · have he := h.encd
    rw [h0] at he
    simp only [h0, beq_self_eq_true, if_true]
    exact ⟨_, [], rfl, by simpa using he, rowOkB_empty cfg⟩
  · have hb : (rowLen cfg.digital st.cur == 0) = false := by simpa using h0
    simp only [hb, Bool.false_eq_true, if_false]
    cases hcur : st.cur with
    | none => rw [hcur] at h0; simp [rowLen] at h0
    | some r =>
      refine ⟨r, st.fl.drop (rowLen cfg.digital (some r) + 1), rfl, ?_, ?_⟩
      · have := h.sent h0
        rw [hcur] at this
        rw [← this, List.take_append_drop]
      · have := hc r hcur
        rw [hcur] at this
        exact this

theorem a2mFinishRecord_inv (cfg : Cfg) (st : A2mSt) (h : A2mInv cfg st) (hl : st.lead = false) :
    StepGood (fun st' => A2mBetween cfg st' ∧ st'.nseq = st.nseq + 1 ∧ st'.lead = false) (a2mFinishRecord cfg st) := by
  have hcur := h.cur hl
  obtain ⟨r, junk, hr, hfl, hrow⟩ := a2m_record_done cfg st h.cur_ok hcur
  have hn := h.rec_names hl
  have htl : st.tc + 1 ≤ st.tn.length := hcur.tc_lt
  have haslen : (st.tn.take (st.tc + 1)).length = st.tc + 1 := by rw [List.length_take]; omega
  unfold a2mFinishRecord
  simp only [hr]
  by_cases h0 : st.nseq = 0
  · have hnl : ¬ st.tn.length < st.tc + 1 := by omega
    have hrecs : st.recs = [] := List.length_eq_zero_iff.mp (by rw [h.recs_len, h0])
    simp only [h0, beq_self_eq_true, if_true, hnl, if_false, stepGood_inl]
    refine ⟨{ alloc := ⟨by show 0 + 1 ≤ st.sqalloc; omega, h.alloc.2⟩
              recs_len := by simp [hrecs]
              first := fun hx => by simp at hx
              nins_len := fun _ => haslen
              recs_ok := ?_
              tn_len := fun _ => htl
              names_len := by show st.names.length = 0 + 1; rw [hn.1, h0] }, trivial, hl⟩
    intro rec hrec
    simp only [hrecs, List.nil_append, List.mem_singleton] at hrec
    subst hrec
    exact ⟨_, junk, hfl, LeAll.refl _, hrow⟩
  · have hb : (st.nseq == 0) = false := by simpa using h0
    simp only [hb, Bool.false_eq_true, if_false]
    by_cases htc : st.tc = st.ncons
    · have hnl := h.nins_len h0
      have htnl := h.tn_len h0
      have hne : (st.tc != st.ncons) = false := by simpa using htc
      have hno : (decide (st.tn.length < st.ncons + 1) || decide (st.nins.length < st.ncons + 1)) = false := by
        simp; omega
      simp only [hne, Bool.false_eq_true, if_false, hno, stepGood_inl]
      have htake : st.nins.take (st.ncons + 1) = st.nins := List.take_of_length_le (by omega)
      have htk : st.tn.take (st.ncons + 1) = st.tn.take (st.tc + 1) := by rw [htc]
      rw [htake, htk]
      have hlen2 : st.nins.length = (st.tn.take (st.tc + 1)).length := by rw [haslen, hnl, htc]
      refine ⟨{ alloc := ⟨by show st.nseq + 1 ≤ st.sqalloc; omega, h.alloc.2⟩
                recs_len := by simp [h.recs_len]
                first := fun hx => by simp at hx
                nins_len := fun _ => by
                  show (List.zipWith max st.nins (st.tn.take (st.tc + 1))).length = st.ncons + 1
                  rw [List.length_zipWith, ← hlen2, hnl]; omega
                recs_ok := ?_
                tn_len := fun _ => htnl
                names_len := hn.1 }, trivial, hl⟩
      intro rec hrec
      show RecOk cfg st.ncons (List.zipWith max st.nins (st.tn.take (st.tc + 1))) rec
      rcases List.mem_append.mp hrec with hm | hm
      · obtain ⟨as, jk, e1, e2, e3⟩ := h.recs_ok rec hm
        exact ⟨as, jk, e1, e2.zipMax_left hlen2, e3⟩
      · simp only [List.mem_singleton] at hm
        subst hm
        exact ⟨_, junk, hfl, LeAll.zipMax_right hlen2, by rw [← htc]; exact hrow⟩
    · have hne : (st.tc != st.ncons) = true := by simpa using htc
      simp [hne, a2mMsgCons]

/-- `thislen` after `esl_abc_dsqcat` / `esl_strmapcat`, and their status, in terms of the common loop -/
theorem rowLen_cat (cfg : Cfg) (cur : Option Bytes) (p : Bytes) (hp : p ≠ []) (hc : curOk cfg cur) :
    rowLen cfg.digital (if cfg.digital then dsqcat cfg.inmap cur p else strmapcat cfg.inmap cur p).2
        = rowLen cfg.digital cur + (mapLoop cfg.inmap p .ok []).2.length ∧
      (if cfg.digital then dsqcat cfg.inmap cur p else strmapcat cfg.inmap cur p).1 = (mapLoop cfg.inmap p .ok []).1 := by
  have hpe : p.isEmpty = false := by cases p with | nil => exact absurd rfl hp | cons _ _ => rfl
  cases hd : cfg.digital with
  | true =>
    simp only [if_true, dsqcat, hpe, Bool.false_eq_true, if_false, rowLen, and_true]
    have hcl : (dsqCodes cur).length = rowLen true cur := by
      cases cur with
      | none => simp [dsqCodes, rowLen]
      | some d =>
        have := hc d rfl
        simp only [rowOkB, hd, if_true] at this
        have h2 := (dsqRowOk_codes _ _ _ this).2.1
        rw [h2]
    simp only [List.cons_append, List.length_cons, List.length_append, List.length_reverse, List.length_nil, hcl, rowLen]
    cases cur <;> simp <;> omega
  | false =>
    simp only [Bool.false_eq_true, if_false, strmapcat, hpe, rowLen, and_true]
    cases cur <;> simp

/-- the part of `a2mSeqLine` after the (re)allocations: the `csflag` loop, the sentinel, the `*cat` call -/
theorem seqLine_tail (cfg : Cfg) (hv : cfg.valid) (ha : A2mValid cfg) (st : A2mSt) (p : Bytes) (hp : p ≠ [])
    (h : A2mInv cfg st) (hl : st.lead = false) (B : Nat) (tn0 : List Nat) (s0 : LineSt)
    (hinv : CharInv st.nseq st.ncons (rowLen cfg.digital st.cur + p.length + 1) B p.length s0)
    (hs0 : s0 = { spos := rowLen cfg.digital st.cur, tc := st.tc, tn := tn0, fl := st.fl.take (rowLen cfg.digital st.cur + p.length + 1) })
    (hB : st.nseq ≠ 0 → B = st.ncons + 1) :
    StepGood (A2mInv cfg)
      (match a2mChars st.nseq st.ncons (rowLen cfg.digital st.cur + p.length + 1) p s0 with
       | .inr r => .inr r
       | .inl s =>
         match csWrite s.fl (rowLen cfg.digital st.cur + p.length + 1) s.spos true with
         | none => .inr .fault
         | some fl1 =>
           match (if cfg.digital then dsqcat cfg.inmap st.cur p else strmapcat cfg.inmap st.cur p).1 with
           | .einval => .inr (.eformat a2mMsgInval)
           | .exc => .inr .exc
           | .ok => .inl { st with cur := (if cfg.digital then dsqcat cfg.inmap st.cur p else strmapcat cfg.inmap st.cur p).2,
                                   fl := fl1, tc := s.tc, tn := s.tn }) := by
  have hchars := a2mChars_inv st.nseq st.ncons _ B p s0 hinv
  revert hchars
  cases a2mChars st.nseq st.ncons (rowLen cfg.digital st.cur + p.length + 1) p s0 with
  | inr r => intro hg; exact hg
  | inl s =>
    simp only [CharsOk]
    intro ⟨hci, hspos, hnonul⟩
    obtain ⟨fl1, hw, hlen1, htake1⟩ := csWrite_ok s.fl _ s.spos true hci.nohole (by have := hci.room; omega)
    simp only [hw]
    obtain ⟨hrl, hst⟩ := rowLen_cat cfg st.cur p hp h.cur_ok
    have hcat := curOk_cat cfg hv st.cur p h.cur_ok
    have hne : (if cfg.digital then dsqcat cfg.inmap st.cur p else strmapcat cfg.inmap st.cur p).1 ≠ .exc := by
      by_cases hd : cfg.digital = true
      · simp only [hd, if_true]; exact dsqcat_noExc _ hv.noExc _ _
      · simp only [hd, Bool.false_eq_true, if_false]; exact strmapcat_noExc _ hv.noExc _ _
    generalize hc2 : (if cfg.digital then dsqcat cfg.inmap st.cur p else strmapcat cfg.inmap st.cur p).2 = cur' at hrl hcat ⊢
    generalize hc1 : (if cfg.digital then dsqcat cfg.inmap st.cur p else strmapcat cfg.inmap st.cur p).1 = cs at hst hne ⊢
    · cases cs with
      | einval => simp [a2mMsgInval]
      | exc => exact absurd rfl hne
      | ok =>
        simp only [stepGood_inl]
        -- the row grew by exactly the number of flags written
        obtain ⟨_, hallok, hcount⟩ := mapLoop_ok_length cfg.inmap p .ok [] hst.symm
        have hsync := stores_eq_nflag cfg.inmap ha.sync p (fun c hc => by simpa [a2mBad] using hnonul c hc) hallok
        have hlen' : rowLen cfg.digital cur' = s.spos := by
          rw [hrl, hcount, hsync, hspos, hs0]; simp
        have htk : fl1.take s.spos = s.fl.take s.spos := by
          have : fl1.take s.spos = (fl1.take (s.spos + 1)).take s.spos := by
            rw [List.take_take, Nat.min_eq_left (by omega)]
          rw [this, htake1, List.take_append_of_le_length (by simp only [List.length_take]; have := hci.nohole; omega), List.take_take,
            Nat.min_self]
        exact
          { alloc := h.alloc, recs_len := h.recs_len, first := h.first, nins_len := h.nins_len, recs_ok := h.recs_ok
            tn_len := fun hx => by
              show st.ncons + 1 ≤ s.tn.length
              have := hci.bB; rw [hB hx] at this; exact this
            lead_names := fun hx => by simp [hl] at hx
            rec_names := fun _ => h.rec_names hl
            cur_ok := hcat
            cur := fun _ =>
              { nohole := by show rowLen cfg.digital cur' ≤ fl1.length; omega
                encd := by
                  show fl1.take (rowLen cfg.digital cur') ++ [true] = enc (s.tn.take (s.tc + 1))
                  rw [hlen', htk]; exact hci.encd
                sent := fun _ => by
                  show fl1.take (rowLen cfg.digital cur' + 1) = enc (s.tn.take (s.tc + 1))
                  rw [hlen', htake1]; exact hci.encd
                tc_lt := Nat.lt_of_lt_of_le hci.tcB hci.bB
                later := fun hx => by
                  have hBe := hB hx
                  refine ⟨by show s.tc ≤ st.ncons; have := hci.tcB; omega, fun j hj hjn => ?_⟩
                  exact hci.zero j hj (by rw [hBe]; exact hjn) } }

theorem a2mSeqLine_inv (cfg : Cfg) (hv : cfg.valid) (ha : A2mValid cfg) (st : A2mSt) (p : Bytes) (hp : p ≠ [])
    (h : A2mInv cfg st) (hl : st.lead = false) : StepGood (A2mInv cfg) (a2mSeqLine cfg st p) := by
  have hcur := h.cur hl
  have hn1 : 1 ≤ p.length := by cases p with | nil => exact absurd rfl hp | cons _ _ => simp
  unfold a2mSeqLine
  simp only
  -- this_nins after the (re)allocation, and the number B of its cells known to be initialised
  by_cases h0 : st.nseq = 0
  · have hnl : ¬ st.tn.length < st.tc + 1 := by have := hcur.tc_lt; omega
    have hb : (st.nseq == 0) = true := by simp [h0]
    simp only [hb, if_true, hnl, if_false]
    have htk : (st.tn.take (st.tc + 1)).length = st.tc + 1 := by rw [List.length_take]; omega
    have hinv : CharInv 0 st.ncons (rowLen cfg.digital st.cur + p.length + 1) (st.tc + 1 + p.length) p.length
        { spos := rowLen cfg.digital st.cur, tc := st.tc, tn := st.tn.take (st.tc + 1) ++ List.replicate p.length 0,
          fl := st.fl.take (rowLen cfg.digital st.cur + p.length + 1) } :=
      { nohole := by simp only [List.length_take]; have := hcur.nohole; omega
        room := by simp
        encd := by
          simp only
          rw [List.take_take, Nat.min_eq_left (by omega), List.take_append_of_le_length (by omega), List.take_take,
            Nat.min_self]
          exact hcur.encd
        bB := by simp [htk]
        tcB := by simp only; omega
        tc0 := fun _ => by simp only; omega
        tcn := fun hx => absurd rfl hx
        zero := fun j hj hjB => by
          simp only at hj hjB ⊢
          rw [List.getElem?_append_right (by rw [htk]; omega), htk]
          simp [List.getElem?_replicate]; omega }
    exact seqLine_tail cfg hv ha st p hp h hl _ _ _ (by rw [h0]; exact hinv) rfl (fun hx => absurd h0 hx)
  · have hb : (st.nseq == 0) = false := by simpa using h0
    simp only [hb, Bool.false_eq_true, if_false]
    have hlater := hcur.later h0
    have hinv : CharInv st.nseq st.ncons (rowLen cfg.digital st.cur + p.length + 1) (st.ncons + 1) p.length
        { spos := rowLen cfg.digital st.cur, tc := st.tc, tn := st.tn,
          fl := st.fl.take (rowLen cfg.digital st.cur + p.length + 1) } :=
      { nohole := by simp only [List.length_take]; have := hcur.nohole; omega
        room := by simp
        encd := by
          simp only
          rw [List.take_take, Nat.min_eq_left (by omega)]
          exact hcur.encd
        bB := h.tn_len h0
        tcB := by simp only; omega
        tc0 := fun hx => absurd hx h0
        tcn := fun _ => rfl
        zero := hlater.2 }
    exact seqLine_tail cfg hv ha st p hp h hl _ _ _ hinv rfl (fun _ => rfl)

theorem a2mStep_inv (cfg : Cfg) (hv : cfg.valid) (ha : A2mValid cfg) (st : A2mSt) (line : Bytes) (h : A2mInv cfg st) :
    StepGood (A2mInv cfg) (a2mStep cfg st line) := by
  unfold a2mStep
  by_cases hl : st.lead = true
  · simp only [hl, if_true]
    split
    · simpa using h
    · split
      · simp [a2mMsg1]
      · split
        · simp [a2mMsg1]
        · exact a2mStartRecord_inv cfg st _ { toA2mCommon := h.toA2mCommon, names_len := h.lead_names hl }
  · have hl' : st.lead = false := by simpa using hl
    simp only [hl', Bool.false_eq_true, if_false]
    split
    · simpa using h
    · rename_i c rest hp
      split
      · have hf := a2mFinishRecord_inv cfg st h hl'
        cases hfr : a2mFinishRecord cfg st with
        | inl st' =>
          rw [hfr] at hf
          simp only [stepGood_inl] at hf
          exact a2mStartRecord_inv cfg st' _ hf.1
        | inr r => rw [hfr] at hf; simpa using hf
      · exact a2mSeqLine_inv cfg hv ha st _ (by rw [hp]; simp) h hl'

theorem a2mFinish_good (cfg : Cfg) (ha : A2mValid cfg) (st : A2mSt) (h : A2mInv cfg st) : Good (a2mFinish cfg st) := by
  unfold a2mFinish
  by_cases hl : st.lead = true
  · simp [hl]
  · have hl' : st.lead = false := by simpa using hl
    simp only [hl', Bool.false_eq_true, if_false]
    have hf := a2mFinishRecord_inv cfg st h hl'
    cases hfr : a2mFinishRecord cfg st with
    | inr r => rw [hfr] at hf; simpa using hf
    | inl st' =>
      rw [hfr] at hf
      simp only [stepGood_inl] at hf
      exact a2mPad_good cfg ha st' hf.1 (by rw [hf.2.1]; omega)

/-- **A2M reader, every input**: the outcome of `esl_msafile_a2m_Read` is a documented normal one (no out-of-bounds or
    uninitialised access in the reader or the padding functions, no internal exception) and a returned alignment is well formed.
    `hv` = the input map emits only storable symbols; `ha` = its classification of bytes agrees with the `csflag` loop
    and the gap symbol is storable (both are finite table checks, see `Props/C01.lean`). -/
theorem a2mRead_good (cfg : Cfg) (hv : cfg.valid) (ha : A2mValid cfg) (lines : List Bytes) : Good (a2mRead cfg lines).1 :=
  runLines_inv (a2mStep cfg) (a2mFinish cfg) (A2mInv cfg) Good (fun st l h => a2mStep_inv cfg hv ha st l h)
    (fun st h => a2mFinish_good cfg ha st h) lines {} (a2mInv_init cfg)

/-! ## success is only declared at end of input -/

theorem a2mStartRecord_notOk (st : A2mSt) (p : Bytes) : NotOk (a2mStartRecord st p) := by
  unfold a2mStartRecord
  cases p with
  | nil => simp
  | cons c p1 =>
    simp only
    split
    · simp
    · split
      · simp
      · by_cases hlt : (if st.tn.isEmpty then [0] else st.tn).length < st.ncons + 1
        · simp only [hlt, if_true]; exact notOk_fault
        · simp only [hlt, if_false]; exact notOk_inl _

theorem a2mFinishRecord_notOk (cfg : Cfg) (st : A2mSt) : NotOk (a2mFinishRecord cfg st) := by
  unfold a2mFinishRecord
  simp only
  split
  · simp
  · split
    · split <;> simp
    · split
      · simp
      · split <;> simp

theorem a2mChars_notOk (nseq ncons alloc : Nat) :
    ∀ (p : Bytes) (s : LineSt) (r : Res Msa), a2mChars nseq ncons alloc p s = .inr r → ∀ m, r ≠ .ok m := by
  intro p
  induction p with
  | nil => intro s r h; simp [a2mChars] at h
  | cons c rest ih =>
    intro s r h m
    unfold a2mChars at h
    split at h
    · exact ih s r h m
    · split at h
      · simp at h; rw [← h]; simp
      · simp at h; rw [← h]; simp
      · split at h
        · simp at h; rw [← h]; simp
        · exact ih _ r h m

theorem a2mSeqLine_notOk (cfg : Cfg) (st : A2mSt) (p : Bytes) : NotOk (a2mSeqLine cfg st p) := by
  intro m
  unfold a2mSeqLine
  simp only
  split
  · simp
  · split
    · rename_i r hr
      intro he
      simp only [Sum.inr.injEq] at he
      exact a2mChars_notOk _ _ _ _ _ r hr m he
    · split
      · simp
      · split <;> simp

theorem a2mStep_notOk (cfg : Cfg) (st : A2mSt) (l : Bytes) : NotOk (a2mStep cfg st l) := by
  unfold a2mStep
  by_cases hl : st.lead = true
  · simp only [hl, if_true]
    split
    · simp
    · split
      · simp
      · split
        · simp
        · exact a2mStartRecord_notOk _ _
  · have hl' : st.lead = false := by simpa using hl
    simp only [hl', Bool.false_eq_true, if_false]
    split
    · simp
    · split
      · cases hfr : a2mFinishRecord cfg st with
        | inl st' => exact a2mStartRecord_notOk _ _
        | inr r =>
          have := a2mFinishRecord_notOk cfg st
          rw [hfr] at this
          exact this
      · exact a2mSeqLine_notOk _ _ _

theorem a2mStep_not_ok (cfg : Cfg) (st : A2mSt) (l : Bytes) (r : Res Msa) (h : a2mStep cfg st l = .inr r) :
    ¬ (∃ m, r = .ok m) := by
  intro ⟨m, hm⟩
  subst hm
  exact a2mStep_notOk cfg st l m h

/-- after a successful A2M read nothing is left: the next `esl_msafile_Read` returns eslEOF -/
theorem a2mRead_ok_consumes (cfg : Cfg) (lines : List Bytes) (m : Msa) (h : (a2mRead cfg lines).1 = .ok m) :
    (a2mRead cfg lines).2 = [] ∧ (a2mRead cfg (a2mRead cfg lines).2).1 = .eof := by
  have h1 := runLines_finish_consumes (a2mStep cfg) (a2mFinish cfg) (fun r => ∃ m, r = .ok m)
    (fun st l r hs => a2mStep_not_ok cfg st l r hs) lines {} ⟨m, h⟩
  refine ⟨h1, ?_⟩
  have : (a2mRead cfg lines).2 = [] := h1
  rw [this]
  simp [a2mRead, runLines, a2mFinish]

end EaselModel.Msafile
