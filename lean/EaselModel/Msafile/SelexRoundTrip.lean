import EaselModel.Msafile.PhylipRoundTrip
import EaselModel.Msafile.SelexLemmas
import EaselModel.Msafile.WriteSelex
import EaselModel.Msafile.WriteLemmas
/-! SELEX: reading what `esl_msafile_selex_Write` wrote gives the alignment back (C03).

The writer prints 60-column blocks separated by one blank line; every line is `name field (w columns) + blank + chunk`.
Because the name field is the same for every line, the text of every line of a block starts at column `w + 1`
(`leftmost`) and - no chunk holding white space - ends at column `w + L` (`rightmost`): the reader pads nothing. -/
namespace EaselModel.Msafile

/-! ## one written line -/

/-- a line of a SELEX block: tag (name or `#=XX`), blanks up to the field width, one more blank, the chunk -/
def sxLine (w : Nat) (tag chunk : Bytes) : Bytes := tag ++ (List.replicate (w - tag.length) 32 ++ 32 :: chunk)

theorem sxLine_eq (w : Nat) (tag chunk : Bytes) : padRight (w : Int) tag ++ [32] ++ chunk = sxLine w tag chunk := by
  simp [padRight, sxLine]

/-- a chunk of `L ≥ 1` characters none of which is white space or NUL -/
structure SxChunkOk (L : Nat) (chunk : Bytes) : Prop where
  len : chunk.length = L
  pos : 1 ≤ L
  ns : ∀ t ∈ chunk, isSpace t = false ∧ t ≠ 0

theorem nosp_notDelim (t : UInt8) (h : isSpace t = false ∧ t ≠ 0) : inDelim blankTab t = false := by
  obtain ⟨hs, h0⟩ := h
  have h32 : t ≠ 32 := by intro h; subst h; simp [isSpace] at hs
  have h9 : t ≠ 9 := by intro h; subst h; simp [isSpace] at hs
  simp [inDelim, blankTab, h0, h32, h9]

theorem SxChunkOk.cons {L : Nat} {chunk : Bytes} (h : SxChunkOk L chunk) : ∃ c t, chunk = c :: t ∧ inDelim blankTab c = false := by
  cases chunk with
  | nil => have := h.len; have := h.pos; simp at *; omega
  | cons c t => exact ⟨c, t, rfl, nosp_notDelim c (h.ns c (by simp))⟩

theorem dropWhile_blanks (k : Nat) (chunk : Bytes) (h : ∃ c t, chunk = c :: t ∧ inDelim blankTab c = false) :
    (List.replicate k 32 ++ 32 :: chunk).dropWhile (inDelim blankTab) = chunk := by
  obtain ⟨c, t, rfl, hc⟩ := h
  have h32 : inDelim blankTab 32 = true := by decide
  rw [List.dropWhile_append_of_pos (fun x hx => by rw [(List.mem_replicate.mp hx).2]; exact h32)]
  simp [List.dropWhile, h32, hc]

theorem memtok_sxLine (w L : Nat) (tag chunk : Bytes) (ht : nameOk tag) (hc : SxChunkOk L chunk) :
    memtok (sxLine w tag chunk) blankTab = some (tag, chunk) := by
  obtain ⟨hne, hnd⟩ := ht
  cases tag with
  | nil => exact absurd rfl hne
  | cons c t =>
    have hc0 := hnd c (by simp)
    have h32 : inDelim blankTab 32 = true := by decide
    have hrest : ∃ y, List.replicate (w - (c :: t).length) 32 ++ 32 :: chunk = 32 :: y := by
      cases (w - (c :: t).length) with
      | zero => exact ⟨_, rfl⟩
      | succ k => exact ⟨_, rfl⟩
    obtain ⟨y, hy⟩ := hrest
    have h1 : (sxLine w (c :: t) chunk).dropWhile (inDelim blankTab) = sxLine w (c :: t) chunk := by
      simp [sxLine, hc0]
    have h2 : (sxLine w (c :: t) chunk).takeWhile (fun x => !inDelim blankTab x) = c :: t := by
      unfold sxLine
      rw [List.takeWhile_append_of_pos (fun x hx => by simp [hnd x hx]), hy]
      simp [List.takeWhile, h32]
    have h3 : (sxLine w (c :: t) chunk).dropWhile (fun x => !inDelim blankTab x)
        = List.replicate (w - (c :: t).length) 32 ++ 32 :: chunk := by
      unfold sxLine
      rw [List.dropWhile_append_of_pos (fun x hx => by simp [hnd x hx]), hy]
      simp [List.dropWhile, h32]
    unfold memtok
    simp only [h1, h2, h3, dropWhile_blanks _ chunk hc.cons]
    simp [sxLine]

theorem sxLine_length (w L : Nat) (tag chunk : Bytes) (hw : tag.length ≤ w) (hc : SxChunkOk L chunk) :
    (sxLine w tag chunk).length = w + 1 + L := by
  simp [sxLine, hc.len]; omega

theorem lposOf_sxLine (w L : Nat) (tag chunk : Bytes) (hw : tag.length ≤ w) (hc : SxChunkOk L chunk) :
    lposOf (sxLine w tag chunk) chunk = (w : Int) + 1 := by
  unfold lposOf
  have hne : chunk.isEmpty = false := by
    obtain ⟨c, t, h, _⟩ := hc.cons; subst h; rfl
  rw [sxLine_length w L tag chunk hw hc, hc.len]
  simp only [hne, Bool.false_eq_true, if_false]
  omega

theorem rposScan_sxLine (w L : Nat) (tag chunk : Bytes) (hw : tag.length ≤ w) (hc : SxChunkOk L chunk) :
    rposScan (sxLine w tag chunk) = (w : Int) + L := by
  unfold rposScan
  have hne : chunk.reverse ≠ [] := by
    obtain ⟨c, t, h, _⟩ := hc.cons; subst h; simp
  obtain ⟨c, t, hct⟩ : ∃ c t, chunk.reverse = c :: t := by
    cases hr : chunk.reverse with
    | nil => exact absurd hr hne
    | cons c t => exact ⟨c, t, rfl⟩
  have hcm : c ∈ chunk := by
    have : c ∈ chunk.reverse := by rw [hct]; simp
    simpa using this
  have hsp := (hc.ns c hcm).1
  have hrev : (sxLine w tag chunk).reverse = c :: (t ++ (32 :: (List.replicate (w - tag.length) 32 ++ tag.reverse))) := by
    simp [sxLine, hct]
  have hd : (sxLine w tag chunk).reverse.dropWhile isSpace = (sxLine w tag chunk).reverse := by
    rw [hrev]; simp [List.dropWhile, hsp]
  rw [hd, List.length_reverse, sxLine_length w L tag chunk hw hc]
  omega

/-- a tag that is a sequence name: `esl_memtok`-clean and not starting with `#` -/
def sqTagOk (tag : Bytes) : Prop := nameOk tag ∧ tag.head? ≠ some 35

theorem sxLine_cons (w : Nat) (tag chunk : Bytes) (ht : nameOk tag) :
    ∃ c r, sxLine w tag chunk = c :: r ∧ tag.head? = some c ∧ inDelim blankTab c = false := by
  obtain ⟨hne, hnd⟩ := ht
  cases tag with
  | nil => exact absurd rfl hne
  | cons c t => exact ⟨c, _, rfl, rfl, hnd c (by simp)⟩

theorem sxLine_notBlank (w : Nat) (tag chunk : Bytes) (ht : nameOk tag) : isBlankLine (sxLine w tag chunk) = false := by
  obtain ⟨c, r, h, _, hc⟩ := sxLine_cons w tag chunk ht
  rw [h]
  simp [isBlankLine, hc]

theorem sxLine_notComment (w : Nat) (tag chunk : Bytes) (ht : sqTagOk tag) : isComment (sxLine w tag chunk) = false := by
  obtain ⟨c, r, h, hh, _⟩ := sxLine_cons w tag chunk ht.1
  have hc : c ≠ 35 := fun h35 => ht.2 (by rw [hh, h35])
  have hc' : ((35 : UInt8) == c) = false := by simpa using fun h => hc h.symm
  rw [h]
  simp [isComment, memstrpfx, List.isPrefixOf, hc']

theorem sxLine_ltype (w : Nat) (tag chunk : Bytes) (ht : sqTagOk tag) : ltypeOf (sxLine w tag chunk) = .sq := by
  obtain ⟨c, r, h, hh, _⟩ := sxLine_cons w tag chunk ht.1
  have hc : c ≠ 35 := fun h35 => ht.2 (by rw [hh, h35])
  have hc' : ((35 : UInt8) == c) = false := by simpa using fun h => hc h.symm
  rw [h]
  simp [ltypeOf, memstrpfx, pfxRF, pfxMM, pfxCS, pfxSS, pfxSA, List.isPrefixOf, hc']

/-! ## positions in a block of such lines -/

/-- the block record of a written sequence line, after `selex_first_block` / `selex_other_block` -/
def sxBLine (w : Nat) (tag chunk : Bytes) : BLine := { ty := .sq, line := sxLine w tag chunk, lpos := (w : Int) + 1 }

/-- … and after the first loop of `selex_append_block` -/
def sxBLineF (w L : Nat) (tag chunk : Bytes) : BLine :=
  { ty := .sq, line := sxLine w tag chunk, lpos := (w : Int) + 1, rpos := (w : Int) + L }

theorem fixPos_sxBLine (w L : Nat) (tag chunk : Bytes) (hw : tag.length ≤ w) (hc : SxChunkOk L chunk) :
    fixPos (sxBLine w tag chunk) = sxBLineF w L tag chunk := by
  have hp := hc.pos
  unfold fixPos sxBLine sxBLineF
  simp only [rposScan_sxLine w L tag chunk hw hc]
  have h1 : ¬ ((w : Int) + L < (w : Int) + 1) := by omega
  simp only [h1, if_false]

theorem leftmost_const (a : Int) (ha : a ≠ -1) : ∀ (rest : List BLine) (b0 : BLine), b0.lpos = a → (∀ b ∈ rest, b.lpos = a) →
    leftmostOf b0 rest = a := by
  intro rest b0 h0 hr
  unfold leftmostOf
  rw [h0]
  induction rest with
  | nil => rfl
  | cons b bs ih =>
    have hb := hr b (by simp)
    have hne : (a == -1) = false := by simpa using ha
    simp only [List.foldl_cons, hb, hne, Bool.false_eq_true, if_false, Int.min_self]
    exact ih (fun b' hb' => hr b' (by simp [hb']))

theorem rightmost_const (a : Int) (ha : a ≠ -1) : ∀ (rest : List BLine) (b0 : BLine), b0.rpos = a → (∀ b ∈ rest, b.rpos = a) →
    rightmostOf b0 rest = a := by
  intro rest b0 h0 hr
  unfold rightmostOf
  rw [h0]
  induction rest with
  | nil => rfl
  | cons b bs ih =>
    have hb := hr b (by simp)
    have hne : (a == -1) = false := by simpa using ha
    simp only [List.foldl_cons, hb, hne, Bool.false_eq_true, if_false, Int.max_self]
    exact ih (fun b' hb' => hr b' (by simp [hb']))

/-! ## appending a chunk to a row -/

/-- a row between blocks: text rows are NUL-terminated, digital rows sentinel-delimited -/
def sxRow (digital : Bool) (codes : Bytes) : Bytes :=
  if digital then dsqSENTINEL :: codes ++ [dsqSENTINEL] else codes ++ [0]

/-- the row pointer after `pos` columns (NULL before the first block) -/
def sxRowAt (digital : Bool) (codes : Bytes) (pos : Nat) : Option Bytes :=
  if pos = 0 then none else some (sxRow digital (codes.take pos))

theorem buildSeqRow_text (cfg : Cfg) (enc : UInt8 → UInt8) (hab : cfg.abc = none) (codes chunk : Bytes) (alen L : Nat)
    (hlen : alen ≤ codes.length) (hL : chunk.length = L)
    (hmap : ∀ t ∈ chunk, mapByte cfg.inmap t = (.ok, some (enc t))) :
    buildSeqRow cfg alen L 0 L chunk (sxRowAt false codes alen) = .inr (sxRow false (codes.take alen ++ chunk.map enc)) := by
  have hm := mapLoop_enc cfg.inmap enc chunk [] hmap
  have hold : ((sxRowAt false codes alen).getD []).take alen = codes.take alen ∧ alen ≤ ((sxRowAt false codes alen).getD []).length := by
    unfold sxRowAt
    by_cases h0 : alen = 0
    · subst h0; simp
    · simp only [h0, if_false, Option.getD_some, sxRow, Bool.false_eq_true]
      constructor
      · rw [List.take_append_of_le_length (by simp; omega), List.take_take]; simp
      · simp; omega
  obtain ⟨R, hR, hRl⟩ := realloc_split 0 (sxRowAt false codes alen) (alen + L + 1) alen (by omega) hold.2
  rw [hold.1] at hR
  have hfill := fillRow_eq (realloc 0 (sxRowAt false codes alen) (alen + L + 1)) (codes.take alen) R 0 alen L 0 (chunk.map enc) [0] 46 0
    hR (by simp; omega) (by omega) (by simp [hL]) (by simp)
  unfold buildSeqRow
  simp only [hm, hab, List.append_nil, List.reverse_reverse, hfill]
  simp [hL, sxRow]

theorem buildSeqRow_digital (cfg : Cfg) (enc : UInt8 → UInt8) (a : Abc) (hab : cfg.abc = some a) (codes chunk : Bytes) (alen L : Nat)
    (hlen : alen ≤ codes.length) (hL : chunk.length = L)
    (hmap : ∀ t ∈ chunk, mapByte cfg.inmap t = (.ok, some (enc t))) :
    buildSeqRow cfg alen L 0 L chunk (sxRowAt true codes alen) = .inr (sxRow true (codes.take alen ++ chunk.map enc)) := by
  have hm := mapLoop_enc cfg.inmap enc chunk [] hmap
  have hbuf : ∃ buf R, (if alen == 0 then writeAt (realloc dsqSENTINEL (sxRowAt true codes alen) (alen + L + 2)) 0 [dsqSENTINEL]
        else some (realloc dsqSENTINEL (sxRowAt true codes alen) (alen + L + 2))) = some buf ∧
      buf = (dsqSENTINEL :: codes.take alen) ++ R ∧ R.length = L + 1 := by
    by_cases h0 : alen = 0
    · subst h0
      have hre : realloc dsqSENTINEL (sxRowAt true codes 0) (0 + L + 2) = [] ++ List.replicate (L + 2) dsqSENTINEL := by
        simp [realloc, sxRowAt]
      have hw := writeAt_app _ [] (List.replicate (L + 2) dsqSENTINEL) [dsqSENTINEL] 0 hre rfl (by simp)
      refine ⟨_, (List.replicate (L + 2) dsqSENTINEL).drop 1, by simpa using hw, by simp, by simp⟩
    · have hold : ((sxRowAt true codes alen).getD []).take (alen + 1) = dsqSENTINEL :: codes.take alen ∧
          alen + 1 ≤ ((sxRowAt true codes alen).getD []).length := by
        simp only [sxRowAt, h0, if_false, Option.getD_some, sxRow, if_true]
        constructor
        · rw [List.cons_append, List.take_succ_cons, List.take_append_of_le_length (by simp; omega), List.take_take]; simp
        · simp; omega
      obtain ⟨R, hR, hRl⟩ := realloc_split dsqSENTINEL (sxRowAt true codes alen) (alen + L + 2) (alen + 1) (by omega) hold.2
      rw [hold.1] at hR
      have hz : (alen == 0) = false := by simpa using h0
      refine ⟨_, R, by simp only [hz, Bool.false_eq_true, if_false], hR, by omega⟩
  obtain ⟨buf, R, hb1, hb2, hRl⟩ := hbuf
  have hfill := fillRow_eq buf (dsqSENTINEL :: codes.take alen) R 1 alen L 0 (chunk.map enc) [dsqSENTINEL] a.gap dsqSENTINEL
    hb2 (by simp; omega) hRl (by simp [hL]) (by simp)
  unfold buildSeqRow
  simp only [hm, hab, List.append_nil, List.reverse_reverse, hb1, hfill]
  simp [hL, sxRow]

theorem buildSeqRow_chunk (cfg : Cfg) (enc : UInt8 → UInt8) (codes chunk : Bytes) (alen L : Nat)
    (hlen : alen ≤ codes.length) (hL : chunk.length = L)
    (hmap : ∀ t ∈ chunk, mapByte cfg.inmap t = (.ok, some (enc t))) :
    buildSeqRow cfg alen L 0 L chunk (sxRowAt cfg.digital codes alen)
      = .inr (sxRow cfg.digital (codes.take alen ++ chunk.map enc)) := by
  cases hab : cfg.abc with
  | none =>
    have hd : cfg.digital = false := by simp [Cfg.digital, hab]
    rw [hd]; exact buildSeqRow_text cfg enc hab codes chunk alen L hlen hL hmap
  | some a =>
    have hd : cfg.digital = true := by simp [Cfg.digital, hab]
    rw [hd]; exact buildSeqRow_digital cfg enc a hab codes chunk alen L hlen hL hmap

/-! ## `selex_append_block` on a block of written sequence lines -/

theorem sxLine_drop (w : Nat) (tag chunk : Bytes) (hw : tag.length ≤ w) : (sxLine w tag chunk).drop (w + 1) = chunk := by
  have h : sxLine w tag chunk = (tag ++ List.replicate (w - tag.length) 32 ++ [32]) ++ chunk := by simp [sxLine]
  rw [h, List.drop_left' (by simp; omega)]

theorem appendLine_sq (cfg : Cfg) (enc : UInt8 → UInt8) (w L : Nat) (tag chunk codes : Bytes) (alen seqi : Nat) (m : SxMsa)
    (hw : tag.length ≤ w) (hc : SxChunkOk L chunk) (hlen : alen ≤ codes.length)
    (hmap : ∀ t ∈ chunk, mapByte cfg.inmap t = (.ok, some (enc t)))
    (hrow : m.rows[seqi]? = some (sxRowAt cfg.digital codes alen)) :
    appendLine cfg alen L ((w : Int) + 1) seqi m (sxBLineF w L tag chunk)
      = .inr { m with rows := m.rows.set seqi (some (sxRow cfg.digital (codes.take alen ++ chunk.map enc))) } := by
  have hb := buildSeqRow_chunk cfg enc codes chunk alen L hlen hc.len hmap
  have hp := hc.pos
  have hsrc : ((sxLine w tag chunk).drop (w + 1)).take L = chunk := by
    rw [sxLine_drop w tag chunk hw, ← hc.len, List.take_length]
  have hll := sxLine_length w L tag chunk hw hc
  unfold appendLine
  simp only [sxBLineF]
  have e1 : ((w : Int) + 1 != -1) = true := by simp; omega
  have e2 : (w : Int) + 1 - ((w : Int) + 1) = 0 := by omega
  have e3 : (w : Int) + L - ((w : Int) + 1) + 1 = (L : Int) := by omega
  simp only [e1, if_true, e2, e3]
  have e4 : (decide ((0 : Int) < 0) || decide ((L : Int) < 0)) = false := by simp
  have e6 : ((w : Int) + 1).toNat = w + 1 := by omega
  have e7 : (L : Int).toNat = L := by omega
  have e8 : (0 : Int).toNat = 0 := rfl
  simp only [e4, Bool.false_eq_true, if_false, e6, e7, e8, hsrc, slotOf, SxMsa.get, hrow, beq_self_eq_true, if_true, hb, SxMsa.set]
  split
  · next h => exfalso; rw [hll] at h; simp at h; have h2 := of_decide_eq_true h.2; omega
  · rfl

theorem appendLines_sq (cfg : Cfg) (enc : UInt8 → UInt8) (w L alen : Nat) :
    ∀ (items : List (Bytes × Bytes × Bytes)) (pre post : List (Option Bytes)) (m : SxMsa),
      (∀ it ∈ items, it.1.length ≤ w ∧ SxChunkOk L it.2.1 ∧ alen ≤ it.2.2.length ∧
        ∀ t ∈ it.2.1, mapByte cfg.inmap t = (.ok, some (enc t))) →
      m.rows = pre ++ items.map (fun it => sxRowAt cfg.digital it.2.2 alen) ++ post →
      appendLines cfg alen L ((w : Int) + 1) (items.map fun it => sxBLineF w L it.1 it.2.1) pre.length m
        = .inr { m with rows := pre ++ items.map (fun it => some (sxRow cfg.digital (it.2.2.take alen ++ it.2.1.map enc))) ++ post } := by
  intro items
  induction items with
  | nil =>
    intro pre post m _ hm
    simp only [List.map_nil, List.append_nil] at hm ⊢
    simp only [appendLines]
    rw [← hm]
  | cons it items ih =>
    intro pre post m hit hm
    obtain ⟨h1, h2, h3, h4⟩ := hit it (by simp)
    have hrow : m.rows[pre.length]? = some (sxRowAt cfg.digital it.2.2 alen) := by
      rw [hm]; simp
    simp only [List.map_cons, appendLines]
    rw [appendLine_sq cfg enc w L it.1 it.2.1 it.2.2 alen pre.length m h1 h2 h3 h4 hrow]
    simp only
    have hty : ((sxBLineF w L it.1 it.2.1).ty == LType.sq) = true := rfl
    simp only [hty, if_true]
    have hm' : ({ m with rows := m.rows.set pre.length (some (sxRow cfg.digital (it.2.2.take alen ++ it.2.1.map enc))) } : SxMsa).rows
        = (pre ++ [some (sxRow cfg.digital (it.2.2.take alen ++ it.2.1.map enc))])
            ++ items.map (fun it => sxRowAt cfg.digital it.2.2 alen) ++ post := by
      show m.rows.set pre.length _ = _
      rw [hm]
      simp
    have := ih (pre ++ [some (sxRow cfg.digital (it.2.2.take alen ++ it.2.1.map enc))]) post _
      (fun it' hit' => hit it' (by simp [hit'])) hm'
    simp only [List.length_append, List.length_singleton] at this
    rw [this]
    simp

/-- `selex_append_block` on the sequence lines of one written block: every row grows by its chunk, nothing is padded -/
theorem appendBlock_sq (cfg : Cfg) (enc : UInt8 → UInt8) (w L : Nat) (items : List (Bytes × Bytes × Bytes)) (m : SxMsa)
    (hne : items ≠ [])
    (hit : ∀ it ∈ items, it.1.length ≤ w ∧ SxChunkOk L it.2.1 ∧ m.alen ≤ it.2.2.length ∧
        ∀ t ∈ it.2.1, mapByte cfg.inmap t = (.ok, some (enc t)))
    (hm : m.rows = items.map (fun it => sxRowAt cfg.digital it.2.2 m.alen)) :
    appendBlock cfg m (items.map fun it => sxBLine w it.1 it.2.1)
      = .inr { m with rows := items.map (fun it => some (sxRow cfg.digital (it.2.2.take m.alen ++ it.2.1.map enc))),
                      alen := m.alen + L } := by
  have hfix : (items.map fun it => sxBLine w it.1 it.2.1).map fixPos = items.map fun it => sxBLineF w L it.1 it.2.1 := by
    rw [List.map_map]
    apply List.map_congr_left
    intro it hi
    obtain ⟨h1, h2, _, _⟩ := hit it hi
    exact fixPos_sxBLine w L it.1 it.2.1 h1 h2
  cases items with
  | nil => exact absurd rfl hne
  | cons it0 rest =>
    obtain ⟨_, hc0, _, _⟩ := hit it0 (by simp)
    have hp := hc0.pos
    have hlm : leftmostOf (sxBLineF w L it0.1 it0.2.1) (rest.map fun it => sxBLineF w L it.1 it.2.1) = (w : Int) + 1 :=
      leftmost_const _ (by omega) _ _ rfl (fun b hb => by
        obtain ⟨it, _, rfl⟩ := List.mem_map.mp hb; rfl)
    have hrm : rightmostOf (sxBLineF w L it0.1 it0.2.1) (rest.map fun it => sxBLineF w L it.1 it.2.1) = (w : Int) + L :=
      rightmost_const _ (by omega) _ _ rfl (fun b hb => by
        obtain ⟨it, _, rfl⟩ := List.mem_map.mp hb; rfl)
    have hal := appendLines_sq cfg enc w L m.alen (it0 :: rest) [] [] m hit (by simpa using hm)
    unfold appendBlock
    rw [hfix]
    simp only [List.map_cons, hlm, hrm]
    have e1 : ((w : Int) + L == -1) = false := by simp; omega
    have e2 : (w : Int) + L - ((w : Int) + 1) + 1 = (L : Int) := by omega
    have e3 : ¬ ((L : Int) < 0) := by omega
    have e4 : (L : Int).toNat = L := by omega
    simp only [e1, Bool.false_eq_true, if_false, e2, e3, e4]
    simp only [List.map_cons, List.length_nil, List.nil_append, List.append_nil] at hal
    rw [hal]

/-! ## `selex_first_block` / `selex_other_block` on written sequence lines -/

theorem firstScan_sq : ∀ (ls : List Bytes) (k : Nat), (∀ l ∈ ls, ltypeOf l = .sq) →
    firstScan ls { nseq := k } = .inr (List.replicate ls.length .sq, { nseq := k + ls.length }) := by
  intro ls
  induction ls with
  | nil => intro k _; rfl
  | cons l ls ih =>
    intro k h
    have hl := h l (by simp)
    have hb : ({ nseq := k } : Cnt).bump .sq = { nseq := k + 1 } := rfl
    have he : ({ nseq := k + 1 } : Cnt).err = none := by simp [Cnt.err]
    unfold firstScan
    simp only [hl, hb, he, ih (k + 1) (fun l' hl' => h l' (by simp [hl']))]
    simp only [List.length_cons, List.replicate_succ]
    have : k + 1 + ls.length = k + (ls.length + 1) := by omega
    rw [this]

theorem nameOk_nz (nm : Bytes) (h : nameOk nm) : ∀ c ∈ nm, c ≠ 0 := fun c hc h0 => by
  have := h.2 c hc; subst h0; simp [inDelim] at this

/-- what every line of a written block satisfies: tag (name) and chunk -/
def ItemOk (w L : Nat) (it : Bytes × Bytes × Bytes) : Prop := sqTagOk it.1 ∧ it.1.length ≤ w ∧ SxChunkOk L it.2.1

theorem firstNames_sq (w L n : Nat) : ∀ (items : List (Bytes × Bytes × Bytes)) (seqi : Nat), (∀ it ∈ items, ItemOk w L it) →
    seqi + items.length ≤ n →
    firstNames n ((List.replicate items.length LType.sq).zip (items.map fun it => sxLine w it.1 it.2.1)) seqi
      = .inr (items.map (·.1), items.map fun it => sxBLine w it.1 it.2.1) := by
  intro items
  induction items with
  | nil => intro seqi _ _; rfl
  | cons it items ih =>
    intro seqi h hn
    obtain ⟨h1, h2, h3⟩ := h it (by simp)
    simp only [List.length_cons] at hn
    have hlt : ¬ (seqi ≥ n) := by omega
    simp only [List.length_cons, List.replicate_succ, List.map_cons, List.zip_cons_cons]
    unfold firstNames
    simp only [memtok_sxLine w L it.1 it.2.1 h1.1 h3, beq_self_eq_true, if_true, hlt, if_false,
      ih (seqi + 1) (fun it' hit' => h it' (by simp [hit'])) (by omega),
      cstr_id it.1 (nameOk_nz it.1 h1.1), lposOf_sxLine w L it.1 it.2.1 h2 h3]
    rfl

theorem firstBlock_sq (w L : Nat) (items : List (Bytes × Bytes × Bytes)) (hne : items ≠ []) (h : ∀ it ∈ items, ItemOk w L it) :
    firstBlock (items.map fun it => sxLine w it.1 it.2.1)
      = .inr ({ nseq := items.length, names := items.map (·.1), rows := List.replicate items.length none },
              List.replicate items.length .sq, items.map fun it => sxBLine w it.1 it.2.1) := by
  have hsc := firstScan_sq (items.map fun it => sxLine w it.1 it.2.1) 0 (fun l hl => by
    obtain ⟨it, hit, rfl⟩ := List.mem_map.mp hl
    exact sxLine_ltype w it.1 it.2.1 (h it hit).1)
  have hn0 : (items.length == 0) = false := by
    cases items with
    | nil => exact absurd rfl hne
    | cons _ _ => rfl
  have hfn := firstNames_sq w L items.length items 0 h (by omega)
  unfold firstBlock
  have hc0 : ({} : Cnt) = { nseq := 0 } := rfl
  rw [hc0, hsc]
  simp only [List.length_map, Nat.zero_add, hn0, Bool.false_eq_true, if_false, hfn]
  rfl

theorem otherTypes_sq (N : Nat) : ∀ (ls : List Bytes) (idx : Nat), (∀ l ∈ ls, ltypeOf l = .sq) → idx + ls.length ≤ N →
    otherTypes (List.replicate N .sq) ls idx = none := by
  intro ls
  induction ls with
  | nil => intro idx _ _; rfl
  | cons l ls ih =>
    intro idx h hn
    simp only [List.length_cons] at hn
    have hl := h l (by simp)
    have hg : (List.replicate N LType.sq)[idx]? = some .sq := by
      rw [List.getElem?_replicate]; simp; omega
    unfold otherTypes
    simp only [hg, hl, bne_self_eq_false, Bool.false_eq_true, if_false]
    exact ih (idx + 1) (fun l' hl' => h l' (by simp [hl'])) (by omega)

theorem otherNames_sq (w L N : Nat) (names : List Bytes) : ∀ (items : List (Bytes × Bytes × Bytes)) (idx seqi : Nat),
    (∀ it ∈ items, ItemOk w L it) → idx + items.length ≤ N → names.drop seqi = items.map (·.1) →
    otherNames names (List.replicate N .sq) (items.map fun it => sxLine w it.1 it.2.1) idx seqi
      = .inr (items.map fun it => sxBLine w it.1 it.2.1) := by
  intro items
  induction items with
  | nil => intro idx seqi _ _ _; rfl
  | cons it items ih =>
    intro idx seqi h hn hnm
    obtain ⟨h1, h2, h3⟩ := h it (by simp)
    simp only [List.length_cons] at hn
    have hg : (List.replicate N LType.sq)[idx]? = some .sq := by
      rw [List.getElem?_replicate]; simp; omega
    have hnm0 : names[seqi]? = some it.1 := by
      have : (names.drop seqi)[0]? = some it.1 := by rw [hnm]; rfl
      simpa using this
    have hnm1 : names.drop (seqi + 1) = items.map (·.1) := by
      have : (names.drop seqi).drop 1 = items.map (·.1) := by rw [hnm]; rfl
      rw [List.drop_drop] at this
      exact this
    simp only [List.map_cons]
    unfold otherNames
    simp only [memtok_sxLine w L it.1 it.2.1 h1.1 h3, hg, beq_self_eq_true, if_true, hnm0, memstrcmp, Bool.not_true,
      Bool.false_eq_true, if_false, ih (idx + 1) (seqi + 1) (fun it' hit' => h it' (by simp [hit'])) (by omega) hnm1,
      lposOf_sxLine w L it.1 it.2.1 h2 h3]
    rfl

theorem otherBlock_sq (w L : Nat) (items : List (Bytes × Bytes × Bytes)) (m : SxMsa) (h : ∀ it ∈ items, ItemOk w L it)
    (hnm : m.names = items.map (·.1)) :
    otherBlock m (List.replicate items.length .sq) (items.map fun it => sxLine w it.1 it.2.1)
      = .inr (items.map fun it => sxBLine w it.1 it.2.1) := by
  have ht := otherTypes_sq items.length (items.map fun it => sxLine w it.1 it.2.1) 0 (fun l hl => by
    obtain ⟨it, hit, rfl⟩ := List.mem_map.mp hl
    exact sxLine_ltype w it.1 it.2.1 (h it hit).1) (by simp)
  unfold otherBlock
  rw [ht]
  exact otherNames_sq w L items.length m.names items 0 0 h (by omega) (by simpa using hnm)

/-! ## what SELEX carries, and the alignments covered -/

/-- per-sequence annotation as the SELEX reader rebuilds it: no array at all when no sequence has a line -/
def selexRowsProj (n : Nat) (o : OptRows) : OptRows :=
  if (List.range n).all (fun i => (optRow o i).isNone) then none else some ((List.range n).map (optRow o))

/-- everything SELEX represents of `m`: names, aligned rows, `#=CS`/`#=RF`/`#=MM`, per-sequence `#=SS`/`#=SA`; default weights -/
def selexProject (cfg : Cfg) (m : Msa) : Msa :=
  { digital := cfg.digital, kp := cfg.kp, alen := m.alen, names := m.names,
    aseq := if cfg.digital then [] else (List.range m.nseq).map m.stored,
    ax := if cfg.digital then (List.range m.nseq).map m.stored else [],
    hasw := false, wgt := List.replicate m.nseq Wgt.dflt,
    ssCons := m.ssCons, rf := m.rf, mm := m.mm,
    ss := selexRowsProj m.nseq m.ss, sa := selexRowsProj m.nseq m.sa }

/-- an alignment (names and aligned rows, no annotation lines) that `esl_msafile_selex_Write` + `esl_msafile_selex_Read`
    (configuration `cfg`) preserve.  `txt i` is the text the writer prints for row `i`, `enc` sends a written symbol to the
    stored symbol. -/
structure SelexWritable (abc : Option Abc) (cfg : Cfg) (enc : UInt8 → UInt8) (txt : Nat → Bytes) (m : Msa) : Prop where
  n1 : 1 ≤ m.nseq
  alen1 : 1 ≤ m.alen
  cs_none : m.ssCons = none
  rf_none : m.rf = none
  mm_none : m.mm = none
  ss_none : ∀ i, i < m.nseq → optRow m.ss i = none
  sa_none : ∀ i, i < m.nseq → optRow m.sa i = none
  name_ok : ∀ i, i < m.nseq → sqTagOk (m.names.getD i [])
  txt_len : ∀ i, i < m.nseq → (txt i).length = m.alen
  chunk_eq : ∀ i, i < m.nseq → ∀ pos, seqChunk abc m i pos selexCpl = ((txt i).drop pos).take 60
  txt_sym : ∀ i, i < m.nseq → ∀ t ∈ txt i, mapByte cfg.inmap t = (.ok, some (enc t)) ∧ isSpace t = false ∧ t ≠ 0
  enc_nz : cfg.digital = false → ∀ i, i < m.nseq → ∀ t ∈ txt i, enc t ≠ 0
  row_enc : ∀ i, i < m.nseq → m.stored i = mkRow cfg.digital ((txt i).map enc)

/-- (name, chunk, full row of stored symbols) for every sequence, for the block starting at column `pos` -/
def sxItems (enc : UInt8 → UInt8) (txt : Nat → Bytes) (m : Msa) (pos : Nat) : List (Bytes × Bytes × Bytes) :=
  (List.range m.nseq).map fun i => (m.names.getD i [], ((txt i).drop pos).take 60, (txt i).map enc)

/-- the sequence lines of the block starting at column `pos` -/
def sxRowLines (enc : UInt8 → UInt8) (txt : Nat → Bytes) (m : Msa) (pos : Nat) : List Bytes :=
  (sxItems enc txt m pos).map fun it => sxLine (selexNameLen m) it.1 it.2.1

/-- the alignment under construction after the blocks in front of column `p` -/
def sxAt (cfg : Cfg) (enc : UInt8 → UInt8) (txt : Nat → Bytes) (m : Msa) (p : Nat) : SxMsa :=
  { nseq := m.nseq, names := m.names,
    rows := (List.range m.nseq).map fun i => sxRowAt cfg.digital ((txt i).map enc) p,
    alen := min p m.alen }

theorem selexNameLen_le (m : Msa) : ∀ s ∈ m.names, s.length ≤ selexNameLen m := by
  unfold selexNameLen
  have : ∀ (l : List Bytes) (a : Nat), a ≤ l.foldl (fun a s => max s.length a) a ∧
      ∀ s ∈ l, s.length ≤ l.foldl (fun a s => max s.length a) a := by
    intro l
    induction l with
    | nil => intro a; simp
    | cons x l ih =>
      intro a
      simp only [List.foldl_cons, List.mem_cons]
      have h1 := ih (max x.length a)
      refine ⟨by omega, ?_⟩
      rintro s (rfl | hs)
      · omega
      · exact h1.2 s hs
  exact (this _ _).2

theorem names_getD_mem (m : Msa) (i : Nat) (hi : i < m.nseq) : m.names.getD i [] ∈ m.names := by
  have hi' : i < m.names.length := hi
  simp [List.getD_eq_getElem?_getD, List.getElem?_eq_getElem hi']

theorem names_rangeMap (m : Msa) : (List.range m.nseq).map (fun i => m.names.getD i []) = m.names := by
  apply List.ext_getElem?
  intro i
  by_cases hi : i < m.nseq
  · have hi' : i < m.names.length := hi
    simp [hi, List.getD_eq_getElem?_getD, List.getElem?_eq_getElem hi']
  · have hi' : ¬ i < m.names.length := hi
    rw [List.getElem?_eq_none (by simp; omega), List.getElem?_eq_none (by omega)]

theorem sxItems_ok (abc : Option Abc) (cfg : Cfg) (enc : UInt8 → UInt8) (txt : Nat → Bytes) (m : Msa)
    (h : SelexWritable abc cfg enc txt m) (pos : Nat) (hp : pos < m.alen) :
    ∀ it ∈ sxItems enc txt m pos, ItemOk (selexNameLen m) (min 60 (m.alen - pos)) it ∧ min pos m.alen ≤ it.2.2.length ∧
      ∀ t ∈ it.2.1, mapByte cfg.inmap t = (.ok, some (enc t)) := by
  intro it hit
  obtain ⟨i, hi, rfl⟩ := List.mem_map.mp hit
  have hi' : i < m.nseq := List.mem_range.mp hi
  have hl := h.txt_len i hi'
  have hmem : ∀ t ∈ ((txt i).drop pos).take 60, t ∈ txt i := fun t ht => List.mem_of_mem_drop (List.mem_of_mem_take ht)
  refine ⟨⟨h.name_ok i hi', selexNameLen_le m _ (names_getD_mem m i hi'), ?_⟩, ?_, ?_⟩
  · exact { len := by simp [hl], pos := by omega, ns := fun t ht => (h.txt_sym i hi' t (hmem t ht)).2 }
  · simp [hl]; omega
  · exact fun t ht => (h.txt_sym i hi' t (hmem t ht)).1

theorem sxItems_ne (enc : UInt8 → UInt8) (txt : Nat → Bytes) (m : Msa) (pos : Nat) (hn : 1 ≤ m.nseq) : sxItems enc txt m pos ≠ [] := by
  intro h0
  have : (sxItems enc txt m pos).length = m.nseq := by simp [sxItems]
  rw [h0] at this
  simp at this; omega

theorem sxItems_length (enc : UInt8 → UInt8) (txt : Nat → Bytes) (m : Msa) (pos : Nat) : (sxItems enc txt m pos).length = m.nseq := by
  simp [sxItems]

theorem sxItems_names (enc : UInt8 → UInt8) (txt : Nat → Bytes) (m : Msa) (pos : Nat) : (sxItems enc txt m pos).map (·.1) = m.names := by
  simp only [sxItems, List.map_map]
  exact names_rangeMap m

theorem sxRow_step (d : Bool) (enc : UInt8 → UInt8) (t : Bytes) (pos : Nat) :
    some (sxRow d (((t.map enc).take pos) ++ ((t.drop pos).take 60).map enc)) = sxRowAt d (t.map enc) (pos + 60) := by
  have : pos + 60 ≠ 0 := by omega
  simp only [sxRowAt, this, if_false]
  rw [List.take_add, List.map_take, List.map_drop]

/-- one block appended -/
theorem appendBlock_at (abc : Option Abc) (cfg : Cfg) (enc : UInt8 → UInt8) (txt : Nat → Bytes) (m : Msa)
    (h : SelexWritable abc cfg enc txt m) (pos : Nat) (hp : pos < m.alen) :
    appendBlock cfg (sxAt cfg enc txt m pos) ((sxItems enc txt m pos).map fun it => sxBLine (selexNameLen m) it.1 it.2.1)
      = .inr (sxAt cfg enc txt m (pos + 60)) := by
  have hok := sxItems_ok abc cfg enc txt m h pos hp
  have hal : (sxAt cfg enc txt m pos).alen = min pos m.alen := rfl
  have hmin : min pos m.alen = pos := by omega
  have := appendBlock_sq cfg enc (selexNameLen m) (min 60 (m.alen - pos)) (sxItems enc txt m pos) (sxAt cfg enc txt m pos)
    (sxItems_ne enc txt m pos h.n1)
    (fun it hit => ⟨(hok it hit).1.2.1, (hok it hit).1.2.2, by rw [hal]; exact (hok it hit).2.1, (hok it hit).2.2⟩)
    (by simp only [sxAt, sxItems, List.map_map, hmin]; rfl)
  rw [this]
  simp only [sxAt, sxItems, List.map_map, hmin]
  congr 2
  · apply List.map_congr_left
    intro i _
    exact sxRow_step cfg.digital enc (txt i) pos
  · omega

/-! ## the reader over the written lines -/

theorem pushLine_ok (st : SxSt) (l : Bytes) (h1 : st.cur.length ≤ st.nalloc) (h0 : 0 < st.nalloc) :
    ∃ na, pushLine st l = .inl { st with inBlock := true, cur := st.cur ++ [l], nalloc := na } ∧
      st.cur.length + 1 ≤ na := by
  unfold pushLine
  by_cases he : st.cur.length = st.nalloc
  · have hg : (st.nalloc != 0 && st.cur.length == st.nalloc) = true := by
      simp only [Bool.and_eq_true, bne_iff_ne, ne_eq, beq_iff_eq]; exact ⟨by omega, he⟩
    simp only [hg, if_true]
    have hlt : ¬ (st.cur.length ≥ 2 * st.nalloc) := by omega
    simp only [hlt, if_false]
    exact ⟨_, rfl, by omega⟩
  · have hg : (st.nalloc != 0 && st.cur.length == st.nalloc) = false := by
      simp only [Bool.and_eq_false_iff, beq_eq_false_iff_ne, ne_eq]; exact Or.inr he
    simp only [hg, Bool.false_eq_true, if_false]
    have hlt : ¬ (st.cur.length ≥ st.nalloc) := by omega
    simp only [hlt, if_false]
    exact ⟨_, rfl, by omega⟩

theorem selexStep_push (cfg : Cfg) (st : SxSt) (l : Bytes) (hb : isBlankLine l = false) (hc : isComment l = false) :
    selexStep cfg st l = pushLine st l := by
  unfold selexStep
  cases st.inBlock <;> simp [hb, hc]

/-- collecting the lines of a block -/
theorem selexSteps_collect (cfg : Cfg) : ∀ (ls : List Bytes) (st : SxSt),
    (∀ l ∈ ls, isBlankLine l = false ∧ isComment l = false) → (st.inBlock = true ∨ ls ≠ []) →
    st.cur.length ≤ st.nalloc → 0 < st.nalloc →
    ∃ st', stepsFrom (selexStep cfg) st ls = .inl st' ∧ st'.inBlock = true ∧ st'.cur = st.cur ++ ls ∧
      st'.cur.length ≤ st'.nalloc ∧ 0 < st'.nalloc ∧
      st'.nblocks = st.nblocks ∧ st'.nlines = st.nlines ∧ st'.ltype = st.ltype ∧ st'.msa = st.msa := by
  intro ls
  induction ls with
  | nil =>
    intro st _ hin h1 h0
    refine ⟨st, rfl, ?_, by simp, h1, h0, rfl, rfl, rfl, rfl⟩
    rcases hin with h | h
    · exact h
    · exact absurd rfl h
  | cons l ls ih =>
    intro st hls _ h1 h0
    obtain ⟨hb, hc⟩ := hls l (by simp)
    obtain ⟨na, hpush, hna⟩ := pushLine_ok st l h1 h0
    obtain ⟨st', hs, hi, hcur, hl', h0', e1, e2, e3, e4⟩ :=
      ih { st with inBlock := true, cur := st.cur ++ [l], nalloc := na } (fun l' hl' => hls l' (by simp [hl']))
        (Or.inl rfl) (by simp; omega) (by show 0 < na; omega)
    refine ⟨st', ?_, hi, by rw [hcur]; simp, hl', h0', e1, e2, e3, e4⟩
    simp only [stepsFrom, selexStep_push cfg st l hb hc, hpush]
    exact hs

/-- the reader between two blocks, `p` columns read -/
structure SxIdle (cfg : Cfg) (enc : UInt8 → UInt8) (txt : Nat → Bytes) (m : Msa) (p : Nat) (st : SxSt) : Prop where
  idle : st.inBlock = false
  cur : st.cur = []
  alloc : 0 < st.nalloc
  nb : st.nblocks ≠ 0
  nl : st.nlines = m.nseq
  lt : st.ltype = List.replicate m.nseq .sq
  msa : st.msa = some (sxAt cfg enc txt m p)

/-- the reader holding the lines of the block that starts at column `pos` -/
structure SxInBlk (cfg : Cfg) (enc : UInt8 → UInt8) (txt : Nat → Bytes) (m : Msa) (pos : Nat) (st : SxSt) : Prop where
  inb : st.inBlock = true
  cur : st.cur = sxRowLines enc txt m pos
  alloc : 0 < st.nalloc
  first : pos = 0 → st.nblocks = 0
  later : pos ≠ 0 → st.nblocks ≠ 0 ∧ st.nlines = m.nseq ∧ st.ltype = List.replicate m.nseq .sq ∧
    st.msa = some (sxAt cfg enc txt m pos)

theorem sxRowLines_ok (abc : Option Abc) (cfg : Cfg) (enc : UInt8 → UInt8) (txt : Nat → Bytes) (m : Msa)
    (h : SelexWritable abc cfg enc txt m) (pos : Nat) (hp : pos < m.alen) :
    ∀ l ∈ sxRowLines enc txt m pos, isBlankLine l = false ∧ isComment l = false := by
  intro l hl
  obtain ⟨it, hit, rfl⟩ := List.mem_map.mp hl
  have := (sxItems_ok abc cfg enc txt m h pos hp it hit).1.1
  exact ⟨sxLine_notBlank _ _ _ this.1, sxLine_notComment _ _ _ this⟩

theorem sxRowLines_length (enc : UInt8 → UInt8) (txt : Nat → Bytes) (m : Msa) (pos : Nat) : (sxRowLines enc txt m pos).length = m.nseq := by
  simp [sxRowLines, sxItems_length]

theorem sxAt_zero (cfg : Cfg) (enc : UInt8 → UInt8) (txt : Nat → Bytes) (m : Msa) :
    sxAt cfg enc txt m 0 = { nseq := m.nseq, names := m.names, rows := List.replicate m.nseq none } := by
  simp only [sxAt, Nat.zero_min]
  congr 1
  exact (rangeMap_const m.nseq _ none (fun j => by simp [sxRowAt])).symm

/-- the end of a block: `selex_first_block` / `selex_other_block`, then `selex_append_block` -/
theorem processBlock_at (abc : Option Abc) (cfg : Cfg) (enc : UInt8 → UInt8) (txt : Nat → Bytes) (m : Msa)
    (h : SelexWritable abc cfg enc txt m) (pos : Nat) (hp : pos < m.alen) (st : SxSt) (hst : SxInBlk cfg enc txt m pos st) :
    ∃ st', processBlock cfg st = .inl st' ∧ SxIdle cfg enc txt m (pos + 60) st' := by
  have hok := sxItems_ok abc cfg enc txt m h pos hp
  have hitem : ∀ it ∈ sxItems enc txt m pos, ItemOk (selexNameLen m) (min 60 (m.alen - pos)) it := fun it hit => (hok it hit).1
  have hlen : st.cur.length = m.nseq := by rw [hst.cur, sxRowLines_length]
  have happ := appendBlock_at abc cfg enc txt m h pos hp
  by_cases hp0 : pos = 0
  · subst hp0
    have hnb := hst.first rfl
    have hfb := firstBlock_sq (selexNameLen m) (min 60 (m.alen - 0)) (sxItems enc txt m 0) (sxItems_ne enc txt m 0 h.n1) hitem
    rw [sxItems_length, sxItems_names, ← sxAt_zero cfg enc txt m] at hfb
    refine ⟨{ st with inBlock := false, cur := [], nblocks := 1, nlines := st.cur.length, ltype := List.replicate m.nseq .sq,
                      msa := some (sxAt cfg enc txt m (0 + 60)) }, ?_, ?_⟩
    · unfold processBlock
      simp only [hnb, bne_self_eq_false, Bool.false_and, Bool.false_eq_true, if_false, beq_self_eq_true, if_true, hst.cur]
      have hfb' : firstBlock (sxRowLines enc txt m 0) = _ := hfb
      rw [hfb']
      simp only [happ]
    · exact { idle := rfl, cur := rfl, alloc := hst.alloc, nb := by simp, nl := hlen, lt := rfl, msa := rfl }
  · obtain ⟨hnb, hnl, hlt, hmsa⟩ := hst.later hp0
    have hob := otherBlock_sq (selexNameLen m) (min 60 (m.alen - pos)) (sxItems enc txt m pos) (sxAt cfg enc txt m pos) hitem
      (by rw [sxItems_names]; rfl)
    rw [sxItems_length] at hob
    refine ⟨{ st with inBlock := false, cur := [], nblocks := st.nblocks + 1, msa := some (sxAt cfg enc txt m (pos + 60)) }, ?_, ?_⟩
    · unfold processBlock
      have hc1 : (st.nblocks != 0 && st.nlines != st.cur.length) = false := by simp [hnl, hlen]
      have hc2 : (st.nblocks == 0) = false := by simpa using hnb
      simp only [hc1, hc2, Bool.false_eq_true, if_false, hmsa, hlt]
      simp only [hst.cur]
      have hob' : otherBlock (sxAt cfg enc txt m pos) (List.replicate m.nseq .sq) (sxRowLines enc txt m pos) = _ := hob
      rw [hob']
      simp only [happ]
    · exact { idle := rfl, cur := rfl, alloc := hst.alloc, nb := by simp, nl := hnl, lt := hlt, msa := rfl }

/-- the sequence lines of a later block, from between the blocks -/
theorem collect_at (abc : Option Abc) (cfg : Cfg) (enc : UInt8 → UInt8) (txt : Nat → Bytes) (m : Msa)
    (h : SelexWritable abc cfg enc txt m) (pos : Nat) (hp : pos < m.alen) (hp0 : pos ≠ 0) (st : SxSt) (hst : SxIdle cfg enc txt m pos st) :
    ∃ st', stepsFrom (selexStep cfg) st (sxRowLines enc txt m pos) = .inl st' ∧ SxInBlk cfg enc txt m pos st' := by
  have hne : sxRowLines enc txt m pos ≠ [] := by
    intro h0; have := sxRowLines_length enc txt m pos; rw [h0] at this; have := h.n1; simp at *; omega
  obtain ⟨st', hs, hi, hcur, _, h0', e1, e2, e3, e4⟩ := selexSteps_collect cfg (sxRowLines enc txt m pos) st
    (sxRowLines_ok abc cfg enc txt m h pos hp) (Or.inr hne) (by rw [hst.cur]; simp) hst.alloc
  refine ⟨st', hs, { inb := hi, cur := by rw [hcur, hst.cur]; rfl, alloc := h0', first := fun h => absurd h hp0, later := fun _ => ?_ }⟩
  exact ⟨by rw [e1]; exact hst.nb, by rw [e2]; exact hst.nl, by rw [e3]; exact hst.lt, by rw [e4]; exact hst.msa⟩

/-- the sequence lines of the first block, from the initial state -/
theorem collect_first (abc : Option Abc) (cfg : Cfg) (enc : UInt8 → UInt8) (txt : Nat → Bytes) (m : Msa)
    (h : SelexWritable abc cfg enc txt m) :
    ∃ st', stepsFrom (selexStep cfg) {} (sxRowLines enc txt m 0) = .inl st' ∧ SxInBlk cfg enc txt m 0 st' := by
  have hne : sxRowLines enc txt m 0 ≠ [] := by
    intro h0; have := sxRowLines_length enc txt m 0; rw [h0] at this; have := h.n1; simp at *; omega
  obtain ⟨st', hs, hi, hcur, _, h0', e1, _, _, _⟩ := selexSteps_collect cfg (sxRowLines enc txt m 0) {}
    (sxRowLines_ok abc cfg enc txt m h 0 h.alen1) (Or.inr hne) (by simp) (by decide)
  refine ⟨st', hs, { inb := hi, cur := by rw [hcur]; rfl, alloc := h0', first := fun _ => by rw [e1], later := fun h => absurd rfl h }⟩

/-! ## the end of the input -/

theorem sxRow_final (abc : Option Abc) (cfg : Cfg) (enc : UInt8 → UInt8) (txt : Nat → Bytes) (m : Msa)
    (h : SelexWritable abc cfg enc txt m) (p : Nat) (hp : m.alen ≤ p) (i : Nat) (hi : i < m.nseq) :
    (if cfg.digital then (sxRowAt cfg.digital ((txt i).map enc) p).getD [] else cstr ((sxRowAt cfg.digital ((txt i).map enc) p).getD []))
      = m.stored i := by
  have hp0 : p ≠ 0 := by have := h.alen1; omega
  have htk : ((txt i).map enc).take p = (txt i).map enc :=
    List.take_of_length_le (by rw [List.length_map, h.txt_len i hi]; exact hp)
  rw [h.row_enc i hi]
  simp only [sxRowAt, hp0, if_false, Option.getD_some, htk]
  cases hd : cfg.digital with
  | true => simp [sxRow, mkRow]
  | false =>
    simp only [sxRow, mkRow, Bool.false_eq_true, if_false]
    apply cstr_txt
    rw [List.all_eq_true]
    intro x hx
    obtain ⟨t, ht, rfl⟩ := List.mem_map.mp hx
    simpa using h.enc_nz hd i hi t ht

theorem selexRowsProj_none (n : Nat) (o : OptRows) (h : ∀ i, i < n → optRow o i = none) : selexRowsProj n o = none := by
  unfold selexRowsProj
  have : (List.range n).all (fun i => (optRow o i).isNone) = true := by
    rw [List.all_eq_true]; intro i hi; simp [h i (List.mem_range.mp hi)]
  simp [this]

theorem selexFinal_at (abc : Option Abc) (cfg : Cfg) (enc : UInt8 → UInt8) (txt : Nat → Bytes) (m : Msa)
    (h : SelexWritable abc cfg enc txt m) (p : Nat) (hp : m.alen ≤ p) (st : SxSt) (hst : SxIdle cfg enc txt m p st) :
    selexFinal cfg st = .ok (selexProject cfg m) := by
  have ha1 := h.alen1
  have hnb : (st.nblocks == 0) = false := by simpa using hst.nb
  have hmin : min p m.alen = m.alen := by omega
  have hal : ((sxAt cfg enc txt m p).alen == 0) = false := by
    show (min p m.alen == 0) = false
    rw [hmin]; simp; omega
  unfold selexFinal
  simp only [hnb, Bool.false_eq_true, if_false, hst.msa, hal]
  congr 1
  simp only [SxMsa.toMsa, selexProject, sxAt, hmin, h.cs_none, h.rf_none, h.mm_none,
    selexRowsProj_none m.nseq m.ss h.ss_none, selexRowsProj_none m.nseq m.sa h.sa_none, Option.map_none, List.map_map]
  cases hd : cfg.digital with
  | true =>
    simp only [if_true]
    congr 1
    apply List.map_congr_left
    intro i hi
    have := sxRow_final abc cfg enc txt m h p hp i (List.mem_range.mp hi)
    simpa [hd] using this
  | false =>
    simp only [Bool.false_eq_true, if_false]
    congr 1
    apply List.map_congr_left
    intro i hi
    have := sxRow_final abc cfg enc txt m h p hp i (List.mem_range.mp hi)
    simpa [hd] using this

/-! ## the lines the writer prints -/

theorem flatMap_range_single {β : Type} (n : Nat) (g : Nat → List β) (f : Nat → β) (h : ∀ i, i < n → g i = [f i]) :
    (List.range n).flatMap g = (List.range n).map f := by
  induction n with
  | zero => rfl
  | succ n ih =>
    rw [List.range_succ, List.flatMap_append, List.map_append, ih (fun i hi => h i (by omega))]
    simp [h n (by omega)]

/-- the lines of the block at `apos`: a blank line in front of every block but the first, then one line per sequence -/
theorem selexBlockLines_eq (abc : Option Abc) (cfg : Cfg) (enc : UInt8 → UInt8) (txt : Nat → Bytes) (m : Msa)
    (h : SelexWritable abc cfg enc txt m) (apos : Nat) :
    selexBlockLines abc m (selexNameLen m) apos = (if apos > 0 then [[]] else []) ++ sxRowLines enc txt m apos := by
  unfold selexBlockLines
  simp only [h.cs_none, h.rf_none, h.mm_none, selexOpt, List.append_nil]
  congr 1
  simp only [sxRowLines, sxItems, List.map_map]
  apply flatMap_range_single
  intro i hi
  simp only [selexSeqLines, h.ss_none i hi, h.sa_none i hi, selexOpt, List.append_nil, Function.comp]
  rw [sxLine_eq, h.chunk_eq i hi apos]

/-- the blocks after the one being collected -/
theorem selexRun_blocks (abc : Option Abc) (cfg : Cfg) (enc : UInt8 → UInt8) (txt : Nat → Bytes) (m : Msa)
    (h : SelexWritable abc cfg enc txt m) : ∀ (k pos : Nat) (st : SxSt), m.alen - pos ≤ k → pos < m.alen →
    SxInBlk cfg enc txt m pos st →
    runLines (selexStep cfg) (selexFinish cfg) st
      ((blockStartsFrom m.alen selexCpl (pos + 60)).flatMap (selexBlockLines abc m (selexNameLen m)))
      = (.ok (selexProject cfg m), []) := by
  intro k
  induction k with
  | zero => intro pos st hk hp _; omega
  | succ k ih =>
    intro pos st hk hp hst
    obtain ⟨st1, hpb, hidle⟩ := processBlock_at abc cfg enc txt m h pos hp st hst
    rw [blockStartsFrom]
    by_cases hnext : pos + 60 < m.alen
    · have hc : pos + 60 < m.alen ∧ 0 < selexCpl := ⟨hnext, by decide⟩
      simp only [hc, and_self, dite_true, List.flatMap_cons]
      rw [selexBlockLines_eq abc cfg enc txt m h (pos + 60)]
      have hpos : pos + 60 > 0 := by omega
      simp only [hpos, if_true, List.cons_append, List.nil_append]
      have hstep : selexStep cfg st [] = .inl st1 := by
        unfold selexStep
        simp [hst.inb, isComment, memstrpfx, isBlankLine, hpb]
      simp only [runLines, hstep]
      obtain ⟨st2, hs2, hin2⟩ := collect_at abc cfg enc txt m h (pos + 60) hnext (by omega) st1 hidle
      rw [runLines_append_inl (selexStep cfg) (selexFinish cfg) _ _ st1 st2 hs2]
      exact ih (pos + 60) st2 (by omega) hnext hin2
    · have hc : ¬ (pos + 60 < m.alen ∧ 0 < selexCpl) := fun hc => hnext hc.1
      simp only [hc, dite_false, List.flatMap_nil, runLines]
      unfold selexFinish
      simp only [hst.inb, if_true, hpb]
      rw [selexFinal_at abc cfg enc txt m h (pos + 60) (by omega) st1 hidle]

/-- **SELEX round trip on lines** -/
theorem selexRead_writeLines (abc : Option Abc) (cfg : Cfg) (enc : UInt8 → UInt8) (txt : Nat → Bytes) (m : Msa)
    (h : SelexWritable abc cfg enc txt m) :
    selexRead cfg (selexLines abc m) = (.ok (selexProject cfg m), []) := by
  have ha1 := h.alen1
  obtain ⟨st, hs, hin⟩ := collect_first abc cfg enc txt m h
  unfold selexRead selexLines blockStarts
  rw [blockStartsFrom]
  have hc : 0 < m.alen ∧ 0 < selexCpl := ⟨by omega, by decide⟩
  simp only [hc, and_self, dite_true, List.flatMap_cons]
  rw [selexBlockLines_eq abc cfg enc txt m h 0]
  simp only [Nat.lt_irrefl, gt_iff_lt, if_false, List.nil_append]
  rw [runLines_append_inl (selexStep cfg) (selexFinish cfg) _ _ {} st hs]
  exact selexRun_blocks abc cfg enc txt m h m.alen 0 st (by omega) (by omega) hin

theorem sxLine_lineOk (w L : Nat) (tag chunk : Bytes) (h10 : (10 : UInt8) ∉ tag) (hc : SxChunkOk L chunk) :
    lineOk (sxLine w tag chunk) := by
  constructor
  · intro hm
    simp only [sxLine, List.mem_append, List.mem_replicate, List.mem_cons] at hm
    rcases hm with hm | hm | hm | hm
    · exact h10 hm
    · exact absurd hm.2 (by decide)
    · exact absurd hm (by decide)
    · have := (hc.ns 10 hm).1; simp [isSpace] at this
  · intro h13
    obtain ⟨c, t, hct, _⟩ := hc.cons
    have hl : (sxLine w tag chunk).getLast? = chunk.getLast? := by
      have : sxLine w tag chunk = (tag ++ List.replicate (w - tag.length) 32 ++ [32]) ++ chunk := by simp [sxLine]
      rw [this, List.getLast?_append, hct]
      cases hg : (c :: t).getLast? with
      | none => simp at hg
      | some x => simp
    rw [hl] at h13
    have := (hc.ns 13 (List.mem_of_getLast? h13)).1
    simp [isSpace] at this

/-- **SELEX round trip on bytes**; `name_lf`: no name holds a line feed -/
theorem selexRead_write (abc : Option Abc) (cfg : Cfg) (enc : UInt8 → UInt8) (txt : Nat → Bytes) (m : Msa)
    (h : SelexWritable abc cfg enc txt m) (name_lf : ∀ i, i < m.nseq → (10 : UInt8) ∉ m.names.getD i []) :
    selexRead cfg (splitLines (selexWrite abc m)) = (.ok (selexProject cfg m), []) := by
  unfold selexWrite joinLF
  rw [splitLines_join, selexRead_writeLines abc cfg enc txt m h]
  intro l hl
  unfold selexLines at hl
  obtain ⟨apos, hap, hl⟩ := List.mem_flatMap.mp hl
  have hlt := blockStarts_lt m.alen selexCpl apos hap
  rw [selexBlockLines_eq abc cfg enc txt m h apos] at hl
  rcases List.mem_append.mp hl with hl | hl
  · split at hl
    · simp only [List.mem_singleton] at hl; subst hl; exact ⟨by simp, by simp⟩
    · simp at hl
  · obtain ⟨it, hit, rfl⟩ := List.mem_map.mp hl
    have hok := (sxItems_ok abc cfg enc txt m h apos hlt it hit).1
    obtain ⟨i, hi, rfl⟩ := List.mem_map.mp hit
    exact sxLine_lineOk _ _ _ _ (name_lf i (List.mem_range.mp hi)) hok.2.2

end EaselModel.Msafile
