import EaselModel.Msafile.Basic
import EaselModel.Msafile.Afa
/-! # Clustal / Clustal-like: `esl_msafile_clustal.c`  (`esl_msafile_clustal_SetInmap`, `esl_msafile_clustal_Read`)

The reader is the C function rewritten as a state machine over the lines `esl_msafile_GetLine` delivers.  The readers of
the block formats (Clustal, PSI-BLAST) look at the NEXT line to decide whether a block has ended, so the state says in
which of the nested loops the next `esl_msafile_GetLine` call sits:

* `lead`    - the "skip leading blank lines" loop;
* `hdr`     - the "skip blank lines again" loop after the header line;
* `inblock` - the `GetLine` at the bottom of the loop over the rows of a block (row `idx-1` has just been stored);
* `between` - the "skip blank lines until we find start of next block, or EOF" loop.

The first part of the file (`BlkSt`, `scanTo`, `slice`, `blkStore`, `blkResult`) is shared with the PSI-BLAST reader,
whose block structure is the same. -/
namespace EaselModel.Msafile

/-- `esl_msafile_clustal_SetInmap` -/
def clustalInmap (abc : Option Abc) : InMap :=
  match abc with
  | some a => ⟨a.inmap.setIfInBounds 0 a.unknown⟩
  | none =>
    ⟨Array.ofFn (n := 128) fun i =>
        let c := UInt8.ofNat i.val
        if i.val == 0 then (63 : UInt8) else if isGraph c then c else dsqILLEGAL⟩

def clustalCfg (abc : Option Abc) : Cfg := ⟨abc, clustalInmap abc⟩

/-! ## shared with PSI-BLAST -/

inductive Phase where
  | lead | hdr | inblock | between
deriving Repr, DecidableEq

/-- the locals of `esl_msafile_{clustal,psiblast}_Read` (and the parts of `msa` they touch) between two `esl_msafile_GetLine` calls -/
structure BlkSt where
  phase : Phase := .lead
  sqalloc : Nat := 16                                   -- msa->sqalloc
  names : List Bytes := []                              -- msa->sqname[i], the non-NULL entries
  rows : List (Option Bytes) := List.replicate 16 none  -- msa->aseq[0..sqalloc-1] / msa->ax[0..sqalloc-1]  (NULL until first append)
  nblocks : Nat := 0
  idx : Nat := 0
  nseq : Nat := 0
  alen : Nat := 0
  bss : Nat := 0                                        -- block_seq_start
  bsl : Nat := 0                                        -- block_seq_len
  rf : Bytes := []                                      -- msa->rf (PSI-BLAST only): the allocated characters, without the NUL
deriving Repr

/-- `for ( ; pos < n; pos++) if (P(p[pos])) break;` : the value of `pos` after the loop (unchanged when `pos ≥ n`) -/
def scanTo (P : UInt8 → Bool) (p : Bytes) (pos : Nat) : Nat :=
  pos + ((p.drop pos).takeWhile (fun c => !P c)).length

/-- the memory `p[start .. start+len-1]` of a line; `none` = not inside the line -/
def slice (p : Bytes) (start len : Nat) : Option Bytes :=
  if start + len ≤ p.length then some ((p.drop start).take len) else none

/-- the four column numbers of an alignment line -/
structure Cols where
  nameStart : Nat
  nameLen : Nat
  seqStart : Nat
  seqLen : Nat
deriving Repr

/-- `if (idx == 0) { block_seq_start = seq_start; block_seq_len = seq_len; }` -/
def setBlock (st : BlkSt) (c : Cols) : BlkSt :=
  if st.idx == 0 then { st with bss := c.seqStart, bsl := c.seqLen } else st

/-- "Store the sequence name": first block = `esl_msa_Expand` when needed + `esl_msa_SetSeqName` (+ `nseq++` in the Clustal
    reader, `incNseq`); later blocks = the row count check and the comparison with the stored name -/
def blkNameCore (incNseq : Bool) (st : BlkSt) (name : Bytes) : Sum BlkSt (Res Msa) :=
  if st.nblocks == 0 then
    -- if (idx >= msa->sqalloc) esl_msa_Expand(msa): every per-sequence array doubles, new entries NULL
    let sqalloc' := expandAlloc st.idx st.sqalloc
    let rows' := if st.idx ≥ st.sqalloc then st.rows ++ List.replicate st.sqalloc none else st.rows
    if st.idx ≥ sqalloc' then .inr .exc                         -- esl_msa_SetSeqName: "no such sequence"
    else .inl { st with sqalloc := sqalloc', rows := rows', names := st.names ++ [cstr name],
                        nseq := if incNseq then st.nseq + 1 else st.nseq }
  else
    if st.idx ≥ st.nseq then .inr (.eformat "block contains more seqs than earlier blocks did")
    else
      match st.names[st.idx]? with
      | none => .inr .fault                                       -- msa->sqname[idx] outside the names that were set
      | some nm =>
        if !memstrcmp name nm then .inr (.eformat "expected sequence on this line, but saw another")
        else .inl st

/-- … preceded, in the first block, by `if (memchr(name, 0, name_len)) ESL_XFAIL(eslEFORMAT, "NUL byte in sequence name")`: names are
    kept as C strings, a NUL inside the name field would silently truncate the name (repair of C03:reformat:nul-in-name) -/
def blkName (incNseq : Bool) (st : BlkSt) (name : Bytes) : Sum BlkSt (Res Msa) :=
  if st.nblocks == 0 && name.contains 0 then .inr (.eformat "NUL byte in sequence name") else blkNameCore incNseq st name

/-- "Append the sequence" and `idx++` -/
def blkAppend (cfg : Cfg) (st : BlkSt) (seq : Bytes) : Sum BlkSt (Res Msa) :=
  match st.rows[st.idx]? with
  | none => .inr .fault                                           -- msa->aseq[idx] / msa->ax[idx] outside the allocation
  | some cur =>
    -- `cur_alen = alen` tells the *cat routine where the row ends: anything else writes at the wrong place
    if rowLen cfg.digital cur != st.alen then .inr .fault
    else
      let cat := if cfg.digital then dsqcat cfg.inmap cur seq else strmapcat cfg.inmap cur seq
      match cat.1 with
      | .einval => .inr (.eformat "one or more invalid sequence characters")
      | .exc => .inr .exc
      | .ok =>
        if rowLen cfg.digital cat.2 != st.alen + seq.length then .inr (.eformat "unexpected number of seq characters")
        else .inl { st with rows := st.rows.set st.idx cat.2, idx := st.idx + 1 }

/-- the part of the row loop that is identical in the two readers -/
def blkStore (cfg : Cfg) (incNseq : Bool) (st : BlkSt) (name seq : Bytes) : Sum BlkSt (Res Msa) :=
  match blkName incNseq st name with
  | .inr r => .inr r
  | .inl st1 => blkAppend cfg st1 seq

def allSome : List (Option Bytes) → Option (List Bytes)
  | [] => some []
  | none :: _ => none
  | some r :: rest => (allSome rest).map (r :: ·)

/-- `msa->nseq = nseq; msa->alen = alen; esl_msa_SetDefaultWeights(msa); *ret_msa = msa`.  A consumer of the alignment
    reads `sqname[i]` and `aseq[i]`/`ax[i]` for `i < nseq`: a missing name or a NULL row is a fault. -/
def blkResult (cfg : Cfg) (st : BlkSt) (rf : Option Bytes) : Res Msa :=
  if st.names.length != st.nseq then .fault
  else
    match allSome (st.rows.take st.nseq) with
    | none => .fault
    | some rows =>
      if rows.length != st.nseq then .fault
      else
        .ok { digital := cfg.digital, kp := cfg.kp, alen := st.alen, names := st.names,
              aseq := if cfg.digital then [] else rows,
              ax := if cfg.digital then rows else [],
              hasw := false, wgt := List.replicate st.names.length Wgt.dflt, rf := rf }

/-! ## the Clustal reader -/

def bCLUSTAL : Bytes := [67, 76, 85, 83, 84, 65, 76]                         -- "CLUSTAL"
def bAlignment : Bytes := [97, 108, 105, 103, 110, 109, 101, 110, 116]      -- "alignment"
def bConsensus : Bytes := [32, 46, 58, 42]                                  -- " .:*"

def clustalHdrMsg := "missing CLUSTAL header"

/-- the four scanning loops at the top of the row loop; `none` = "invalid alignment line" -/
def clustalCols (p : Bytes) : Option Cols :=
  let pos := scanTo (fun c => !isSpace c) p 0
  let nameStart := pos
  let pos := scanTo isSpace p (pos + 1)
  let nameLen := pos - nameStart
  let pos := scanTo (fun c => !isSpace c) p (pos + 1)
  let seqStart := pos
  if pos ≥ p.length then none
  else
    let pos := scanTo isSpace p (pos + 1)
    some ⟨nameStart, nameLen, seqStart, pos - seqStart⟩

/-- the body of the loop over the rows of a block, for the line `p`, up to (not including) the next `esl_msafile_GetLine`.
    (`idx++` is done here, in C it comes after the `GetLine` succeeded; at EOF `idx` is not looked at any more.) -/
def clustalSeqLine (cfg : Cfg) (st : BlkSt) (p : Bytes) : Sum BlkSt (Res Msa) :=
  match clustalCols p with
  | none => .inr (.eformat "invalid alignment line")
  | some c =>
    if st.idx != 0 && c.seqStart != st.bss then .inr (.eformat "sequence start is misaligned")
    else if st.idx != 0 && c.seqLen != st.bsl then .inr (.eformat "sequence end is misaligned")
    else
      match slice p c.nameStart c.nameLen, slice p c.seqStart c.seqLen with
      | some name, some seq => blkStore cfg true { setBlock st c with phase := .inblock } name seq
      | _, _ => .inr .fault

def clustalStep (like : Bool) (cfg : Cfg) (st : BlkSt) (line : Bytes) : Sum BlkSt (Res Msa) :=
  match st.phase with
  | .lead =>
    if isBlankLine line then .inl st
    else
      match memtok line blankTab with
      | none => .inr (.eformat clustalHdrMsg)
      | some (tok, rest) =>
        if !like && !memstrpfx tok bCLUSTAL then .inr (.eformat clustalHdrMsg)
        else if !memstrcontains rest bAlignment then .inr (.eformat clustalHdrMsg)
        else .inl { st with phase := .hdr }
  | .hdr =>
    if isBlankLine line then .inl st
    else clustalSeqLine cfg { st with idx := 0 } line
  | .inblock =>
    if memspn line bConsensus < line.length then clustalSeqLine cfg st line        -- not a consensus line: next row
    else if st.idx != st.nseq then .inr (.eformat "last block didn't contain same # of seqs as earlier blocks")
    else .inl { st with phase := .between }
  | .between =>
    if isBlankLine line then .inl st
    else clustalSeqLine cfg { st with alen := st.alen + st.bsl, nblocks := st.nblocks + 1, idx := 0 } line

/-- end of input -/
def clustalFinish (cfg : Cfg) (st : BlkSt) : Res Msa :=
  match st.phase with
  | .lead => .eof
  | .hdr => .eformat "no alignment data following header"
  | .inblock => .eformat "alignment block did not end with consensus line"
  | .between => blkResult cfg { st with alen := st.alen + st.bsl, nblocks := st.nblocks + 1 } none

/-- `esl_msafile_clustal_Read` on the remaining lines (`like` = format `eslMSAFILE_CLUSTALLIKE`): outcome and the lines left unread -/
def clustalRead (like : Bool) (cfg : Cfg) (lines : List Bytes) : Res Msa × List Bytes :=
  runLines (clustalStep like cfg) (clustalFinish cfg) {} lines

end EaselModel.Msafile
