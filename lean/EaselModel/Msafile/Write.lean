import EaselModel.Msafile.AbcTables
import EaselModel.Msafile.Afa
import EaselModel.Msafile.WriteStockholm
import EaselModel.Msafile.WritePhylip
import EaselModel.Msafile.WriteClustal
import EaselModel.Msafile.WriteSelex
import EaselModel.Msafile.WritePsiblast
import EaselModel.Msafile.WriteA2m
/-! # `esl_msafile_Write(fp, msa, fmt)`: the ten writers as functions `Msa → Bytes` -/
namespace EaselModel.Msafile

/-- `esl_msafile_clustal_Write` with the EASEL_VERSION of the working tree (regenerated table) -/
def clustalWrite (like : Bool) (abc : Option Abc) (m : Msa) : Bytes := clustalWriteV like easelVersion abc m

/-- the dispatch of `esl_msafile_Write` on the format's name; `none` = no such format (eslEINCONCEIVABLE) -/
def msafileWrite (fmt : String) (abc : Option Abc) (m : Msa) : Option Bytes :=
  if fmt == "stockholm" then some (stockholmWrite false abc m)
  else if fmt == "pfam" then some (stockholmWrite true abc m)
  else if fmt == "a2m" then some (a2mWrite abc m)
  else if fmt == "psiblast" then some (psiblastWrite abc m)
  else if fmt == "selex" then some (selexWrite abc m)
  else if fmt == "afa" then some (afaWrite abc m)
  else if fmt == "clustal" then some (clustalWrite false abc m)
  else if fmt == "clustallike" then some (clustalWrite true abc m)
  else if fmt == "phylip" then some (phylipWrite false abc m)
  else if fmt == "phylips" then some (phylipWrite true abc m)
  else none

end EaselModel.Msafile
