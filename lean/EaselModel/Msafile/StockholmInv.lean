import EaselModel.Msafile.StockholmBase
/-! The invariant of the Stockholm reader between two `esl_msafile_GetLine` calls, and its preservation by the
    array-growing helpers (`esl_msa_Expand` + `stockholm_parsedata_ExpandSeq`, `stockholm_get_seqidx`). -/
namespace EaselModel.Msafile

/-- every length the parse data keeps: rows, the five consensus lines, ss/sa/pp, unparsed #=GC tags, unparsed #=GR tags -/
def StoSt.lens (st : StoSt) : List Nat :=
  st.sqlen ++ st.consLen ++ perLens st.perLen ++ st.ogcLen ++ st.ogrLen.flatten

/-- an annotation string and the length the parse data keeps for it: NULL with length 0, or a NUL-free string of that
    (non-zero) length -/
def slotOk (c : Option Bytes) (len : Nat) : Prop :=
  match c with
  | none => len = 0
  | some b => b.length = len ∧ (0 : UInt8) ∉ b ∧ 1 ≤ len

/-- an array of `m` annotation strings with its array of `m` lengths -/
def SlotArr (cs : List (Option Bytes)) (ls : List Nat) (m : Nat) : Prop :=
  cs.length = m ∧ ls.length = m ∧ ∀ i, slotOk (cs.getD i none) (ls.getD i 0)

/-- a row under construction and `pd->sqlen[i]` -/
def rowSlotOk (cfg : Cfg) (r : Option Bytes) (len : Nat) : Prop := rowLen cfg.digital r = len ∧ curOk cfg r

/-- `msa->ss` and `pd->sslen` are NULL together, else arrays of `m` -/
def PerOk (r : OptRows) (l : Option (List Nat)) (m : Nat) : Prop :=
  match r, l with
  | none, none => True
  | some rws, some lns => SlotArr rws lns m
  | _, _ => False

structure AllocInv (st : StoSt) : Prop where
  sqalloc_pos : 0 < st.sqalloc
  salloc : st.salloc = st.sqalloc
  names : st.names.length ≤ st.sqalloc
  nseq : st.nseq = st.names.length
  si : st.si ≤ st.names.length
  wgt : st.wgt.length = st.sqalloc
  sqacc : ∀ l, st.sqacc = some l → l.length = st.sqalloc
  sqdesc : ∀ l, st.sqdesc = some l → l.length = st.sqalloc
  gs : st.gs.length = st.gsTags.length ∧ ∀ row ∈ st.gs, row.length = st.sqalloc
  comments : st.comments.length ≤ st.commentAlloc
  gf : st.gf.length ≤ st.gfAlloc

structure SlotInv (cfg : Cfg) (st : StoSt) : Prop where
  rows : st.rows.length = st.sqalloc ∧ st.sqlen.length = st.sqalloc ∧
         ∀ i, rowSlotOk cfg (st.rows.getD i none) (st.sqlen.getD i 0)
  cons : SlotArr st.cons st.consLen 5
  per : st.per.length = 3 ∧ st.perLen.length = 3 ∧
        ∀ k, k < 3 → PerOk (st.per.getD k none) (st.perLen.getD k none) st.sqalloc
  gc : SlotArr st.gc st.ogcLen st.gcTags.length
  gr : st.gr.length = st.grTags.length ∧ st.ogrLen.length = st.grTags.length ∧
       ∀ t, t < st.grTags.length → SlotArr (st.gr.getD t []) (st.ogrLen.getD t []) st.sqalloc

structure StoSeqInv (st : StoSt) : Prop where
  beyond : ∀ i, st.names.length ≤ i → st.sqlen.getD i 0 = 0
  nseqB : st.nblock = 0 → st.nseqB = List.countP (· != 0) st.sqlen

/-- what the first block recorded for its line `j` -/
def LineRec (st : StoSt) (j : Nat) : Prop :=
  ∃ lt bx, st.blt[j]? = some (some lt) ∧ st.bidx[j]? = some (some bx) ∧
    ((lt = ltSQ ∨ (7 ≤ lt ∧ lt ≤ 10)) →
      ∃ i, bx = some i ∧ i < st.names.length ∧ (lt = ltSQ → st.sqlen.getD i 0 ≠ 0))

structure BlockInv (st : StoSt) : Prop where
  len : st.blt.length = st.balloc ∧ st.bidx.length = st.balloc ∧ 0 < st.balloc
  first : st.nblock = 0 → st.bi ≤ st.balloc
  later : st.nblock ≠ 0 → st.npb ≤ st.balloc ∧ st.bi ≤ st.npb
  recs : ∀ j, j < (if st.nblock = 0 then st.bi else st.npb) → LineRec st j
  inb : st.inBlock = true ↔ 0 < st.bi

/-- the invariant of `esl_msafile_stockholm_Read` at a `esl_msafile_GetLine` call -/
structure StoInv (cfg : Cfg) (st : StoSt) : Prop where
  alloc : AllocInv st
  slots : SlotInv cfg st
  seq : StoSeqInv st
  block : BlockInv st
  gcnz : ∀ x ∈ st.ogcLen, x ≠ 0
  count : CountInv st.alen st.alenB st.bi st.npb st.nblock st.lens

theorem slotOk_none : slotOk none 0 := rfl

theorem SlotArr.replicate (m : Nat) : SlotArr (List.replicate m none) (List.replicate m 0) m := by
  refine ⟨by simp, by simp, fun i => ?_⟩
  have h1 : (List.replicate m (none : Option Bytes)).getD i none = none := by
    simp only [List.getD_eq_getElem?_getD, List.getElem?_replicate]; split <;> rfl
  have h2 : (List.replicate m (0 : Nat)).getD i 0 = 0 := by
    simp only [List.getD_eq_getElem?_getD, List.getElem?_replicate]; split <;> rfl
  rw [h1, h2]; exact slotOk_none

theorem SlotArr.pad {cs : List (Option Bytes)} {ls : List Nat} {m : Nat} (h : SlotArr cs ls m) (k : Nat) :
    SlotArr (cs ++ List.replicate k none) (ls ++ List.replicate k 0) (m + k) := by
  obtain ⟨h1, h2, h3⟩ := h
  refine ⟨by simp [h1], by simp [h2], fun i => ?_⟩
  rw [getD_append_replicate, getD_append_replicate]; exact h3 i

theorem SlotArr.set {cs : List (Option Bytes)} {ls : List Nat} {m : Nat} (h : SlotArr cs ls m) (i : Nat)
    (c : Option Bytes) (len : Nat) (hc : slotOk c len) : SlotArr (cs.set i c) (ls.set i len) m := by
  obtain ⟨h1, h2, h3⟩ := h
  refine ⟨by simp [h1], by simp [h2], fun j => ?_⟩
  rw [getD_set_eq, getD_set_eq]
  by_cases hij : i = j
  · subst hij
    by_cases hi : i < m
    · simp only [h1, h2, hi, and_self, if_true]; exact hc
    · simp only [h1, h2, hi, and_false, if_false]; exact h3 i
  · simp only [hij, false_and, if_false]; exact h3 j

theorem getD_replicate {α : Type} (m i : Nat) (d : α) : (List.replicate m d).getD i d = d := by
  simp only [List.getD_eq_getElem?_getD, List.getElem?_replicate]; split <;> rfl

theorem StoInv_init (cfg : Cfg) : StoInv cfg {} where
  alloc :=
    { sqalloc_pos := (by decide), salloc := rfl, names := (by decide), nseq := rfl, si := (by decide), wgt := rfl,
      sqacc := fun l h => (by cases h), sqdesc := fun l h => (by cases h),
      gs := ⟨rfl, fun row h => (by cases h)⟩, comments := (by decide), gf := (by decide) }
  slots :=
    { rows := ⟨rfl, rfl, fun i => by
        show rowSlotOk cfg ((List.replicate 16 none).getD i none) ((List.replicate 16 0).getD i 0)
        rw [getD_replicate, getD_replicate]
        exact ⟨rfl, fun r hr => by cases hr⟩⟩,
      cons := SlotArr.replicate 5,
      per := ⟨rfl, rfl, fun k _ => by
        show PerOk ((List.replicate 3 none).getD k none) ((List.replicate 3 none).getD k none) 16
        rw [getD_replicate, getD_replicate]; trivial⟩,
      gc := ⟨rfl, rfl, fun i => by
        show slotOk (([] : List (Option Bytes)).getD i none) (([] : List Nat).getD i 0)
        simp [slotOk]⟩,
      gr := ⟨rfl, rfl, fun t ht => by cases ht⟩ }
  seq :=
    { beyond := fun i _ => by
        show (List.replicate 16 (0 : Nat)).getD i 0 = 0
        exact getD_replicate 16 i 0,
      nseqB := fun _ => by decide }
  block :=
    { len := ⟨rfl, rfl, (by decide)⟩, first := fun _ => (by decide), later := fun h => absurd rfl h,
      recs := fun j hj => (by simp at hj), inb := (by decide) }
  gcnz := fun x hx => by cases hx
  count :=
    { tri := fun x hx => by
        left
        have e : ({} : StoSt).lens = List.replicate 21 0 := by decide
        rw [e] at hx
        exact List.eq_of_mem_replicate hx,
      bi0 := fun _ => rfl, bipos := fun h => (by cases h), first := fun _ => ⟨rfl, (by decide)⟩,
      later := fun h => absurd rfl h }

/-! ## growing the per-sequence arrays -/

theorem getD_map_fix {α β : Type} (f : α → β) (l : List α) (k : Nat) (d : α) (d' : β) (hf : f d = d') :
    (l.map f).getD k d' = f (l.getD k d) := by
  simp only [List.getD_eq_getElem?_getD, List.getElem?_map]
  cases l[k]? with
  | none => simp [hf]
  | some x => rfl

theorem getD_map_lt {α β : Type} (f : α → β) (l : List α) (k : Nat) (d : α) (d' : β) (hk : k < l.length) :
    (l.map f).getD k d' = f (l.getD k d) := by
  simp only [List.getD_eq_getElem?_getD, List.getElem?_map, List.getElem?_eq_getElem hk]
  rfl

theorem PerOk.pad {r : OptRows} {l : Option (List Nat)} {m : Nat} (h : PerOk r l m) (k : Nat) :
    PerOk (r.map (· ++ List.replicate k none)) (l.map (· ++ List.replicate k 0)) (m + k) := by
  cases r with
  | none => cases l with
    | none => trivial
    | some _ => exact h
  | some rws => cases l with
    | none => exact h
    | some lns => exact SlotArr.pad h k

/-- `esl_msa_Expand` followed by `stockholm_parsedata_ExpandSeq` -/
def expandAll (st : StoSt) : StoSt := pdExpandSeq (msaExpand st)

theorem expandAll_lens (st : StoSt) : LensRel 0 0 st.lens (expandAll st).lens := by
  unfold StoSt.lens expandAll pdExpandSeq msaExpand
  simp only
  exact LensRel.app (LensRel.app (LensRel.app (LensRel.app (LensRel.pad _ _) (LensRel.refl0 _)) (perLens_pad _ _)) (LensRel.refl0 _))
    (LensRel.flatten_map_pad _ _)

theorem expandAll_inv {cfg : Cfg} {st : StoSt} (h : StoInv cfg st) : StoInv cfg (expandAll st) := by
  have hk : 2 * st.sqalloc - st.salloc = st.sqalloc := by have := h.alloc.salloc; omega
  have ha := h.alloc
  have hs := h.slots
  refine { alloc := ?_, slots := ?_, seq := ?_, block := ?_, gcnz := h.gcnz, count := h.count.pad (expandAll_lens st) }
  · exact
      { sqalloc_pos := (by show 0 < 2 * st.sqalloc; have := ha.sqalloc_pos; omega),
        salloc := rfl,
        names := (by show st.names.length ≤ 2 * st.sqalloc; have := ha.names; omega),
        nseq := ha.nseq, si := ha.si,
        wgt := (by show (st.wgt ++ List.replicate st.sqalloc Wgt.unset).length = 2 * st.sqalloc
                   simp [ha.wgt]; omega),
        sqacc := (by
          intro l hl
          show l.length = 2 * st.sqalloc
          have hl' : st.sqacc.map (· ++ List.replicate st.sqalloc none) = some l := hl
          cases hq : st.sqacc with
          | none => rw [hq] at hl'; cases hl'
          | some l0 =>
            rw [hq] at hl'; simp only [Option.map_some, Option.some.injEq] at hl'
            rw [← hl']; simp [ha.sqacc l0 hq]; omega),
        sqdesc := (by
          intro l hl
          show l.length = 2 * st.sqalloc
          have hl' : st.sqdesc.map (· ++ List.replicate st.sqalloc none) = some l := hl
          cases hq : st.sqdesc with
          | none => rw [hq] at hl'; cases hl'
          | some l0 =>
            rw [hq] at hl'; simp only [Option.map_some, Option.some.injEq] at hl'
            rw [← hl']; simp [ha.sqdesc l0 hq]; omega),
        gs := (by
          refine ⟨?_, ?_⟩
          · show (st.gs.map (· ++ List.replicate st.sqalloc none)).length = st.gsTags.length
            simp [ha.gs.1]
          · intro row hrow
            show row.length = 2 * st.sqalloc
            have hrow' : row ∈ st.gs.map (· ++ List.replicate st.sqalloc none) := hrow
            obtain ⟨r0, hr0, e⟩ := List.mem_map.mp hrow'
            rw [← e]; simp [ha.gs.2 r0 hr0]; omega),
        comments := ha.comments, gf := ha.gf }
  · have h2 : 2 * st.sqalloc = st.sqalloc + st.sqalloc := by omega
    exact
      { rows := (by
          obtain ⟨r1, r2, r3⟩ := hs.rows
          refine ⟨?_, ?_, fun i => ?_⟩
          · show (st.rows ++ List.replicate st.sqalloc none).length = 2 * st.sqalloc
            simp [r1]; omega
          · show (st.sqlen ++ List.replicate (2 * st.sqalloc - st.salloc) 0).length = 2 * st.sqalloc
            simp [r2, hk]; omega
          · show rowSlotOk cfg ((st.rows ++ List.replicate st.sqalloc none).getD i none)
                ((st.sqlen ++ List.replicate (2 * st.sqalloc - st.salloc) 0).getD i 0)
            rw [getD_append_replicate, getD_append_replicate]; exact r3 i),
        cons := hs.cons,
        per := (by
          obtain ⟨p1, p2, p3⟩ := hs.per
          refine ⟨?_, ?_, fun k hk3 => ?_⟩
          · show (st.per.map _).length = 3
            simp [p1]
          · show (st.perLen.map _).length = 3
            simp [p2]
          · show PerOk ((st.per.map (Option.map (· ++ List.replicate st.sqalloc none))).getD k none)
                ((st.perLen.map (Option.map (· ++ List.replicate (2 * st.sqalloc - st.salloc) 0))).getD k none) (2 * st.sqalloc)
            rw [getD_map_fix _ _ _ none none rfl, getD_map_fix _ _ _ none none rfl, hk, h2]
            exact (p3 k hk3).pad st.sqalloc),
        gc := hs.gc,
        gr := (by
          obtain ⟨g1, g2, g3⟩ := hs.gr
          refine ⟨?_, ?_, fun t ht => ?_⟩
          · show (st.gr.map _).length = st.grTags.length
            simp [g1]
          · show (st.ogrLen.map _).length = st.grTags.length
            simp [g2]
          · show SlotArr ((st.gr.map (· ++ List.replicate st.sqalloc none)).getD t [])
                ((st.ogrLen.map (· ++ List.replicate (2 * st.sqalloc - st.salloc) 0)).getD t []) (2 * st.sqalloc)
            have ht' : t < st.grTags.length := ht
            rw [getD_map_lt _ _ _ [] [] (by omega), getD_map_lt _ _ _ [] [] (by omega), hk, h2]
            exact (g3 t ht').pad st.sqalloc) }
  · exact
      { beyond := (by
          intro i hi
          show (st.sqlen ++ List.replicate (2 * st.sqalloc - st.salloc) 0).getD i 0 = 0
          rw [getD_append_replicate]; exact h.seq.beyond i hi),
        nseqB := (by
          intro h0
          show st.nseqB = List.countP (· != 0) (st.sqlen ++ List.replicate (2 * st.sqalloc - st.salloc) 0)
          rw [List.countP_append, List.countP_replicate]
          simpa using h.seq.nseqB h0) }
  · have hb := h.block
    exact
      { len := hb.len, first := hb.first, later := hb.later,
        recs := (by
          intro j hj
          obtain ⟨lt, bx, e1, e2, e3⟩ := hb.recs j hj
          refine ⟨lt, bx, e1, e2, fun hlt => ?_⟩
          obtain ⟨i, e4, e5, e6⟩ := e3 hlt
          refine ⟨i, e4, e5, fun hq => ?_⟩
          show (st.sqlen ++ List.replicate (2 * st.sqalloc - st.salloc) 0).getD i 0 ≠ 0
          rw [getD_append_replicate]; exact e6 hq),
        inb := hb.inb }

/-! ## `stockholm_get_seqidx` -/

theorem addName_inv {cfg : Cfg} {st : StoSt} (h : StoInv cfg st) (name : Bytes) (hlt : st.names.length < st.sqalloc) :
    StoInv cfg { st with names := st.names ++ [name], nseq := st.nseq + 1 } := by
  have ha := h.alloc
  have hb := h.block
  exact
    { alloc :=
        { sqalloc_pos := ha.sqalloc_pos, salloc := ha.salloc,
          names := (by show (st.names ++ [name]).length ≤ st.sqalloc; simp; omega),
          nseq := (by show st.nseq + 1 = (st.names ++ [name]).length; simp [ha.nseq]),
          si := (by show st.si ≤ (st.names ++ [name]).length; have := ha.si; simp; omega),
          wgt := ha.wgt, sqacc := ha.sqacc, sqdesc := ha.sqdesc, gs := ha.gs, comments := ha.comments, gf := ha.gf },
      slots := { rows := h.slots.rows, cons := h.slots.cons, per := h.slots.per, gc := h.slots.gc, gr := h.slots.gr },
      seq :=
        { beyond := (by
            intro i hi
            have hi' : (st.names ++ [name]).length ≤ i := hi
            exact h.seq.beyond i (by simp at hi'; omega)),
          nseqB := h.seq.nseqB },
      block :=
        { len := hb.len, first := hb.first, later := hb.later,
          recs := (by
            intro j hj
            obtain ⟨lt, bx, e1, e2, e3⟩ := hb.recs j hj
            refine ⟨lt, bx, e1, e2, fun hlt => ?_⟩
            obtain ⟨i, e4, e5, e6⟩ := e3 hlt
            exact ⟨i, e4, (by show i < (st.names ++ [name]).length; simp; omega), e6⟩),
          inb := hb.inb },
      gcnz := h.gcnz,
      count := h.count }

theorem getSeqIdx_spec {cfg : Cfg} {st : StoSt} (h : StoInv cfg st) (name : Bytes) :
    EGood (fun r => StoInv cfg r.1 ∧ r.2 < r.1.names.length ∧ r.1.nblock = st.nblock) (getSeqIdx st name) := by
  unfold getSeqIdx
  split
  · rename_i i hi
    simp only [EGood_ok]
    obtain ⟨hlt, _⟩ := List.findIdx?_eq_some_iff_getElem.mp hi
    exact ⟨h, hlt, by first | rfl | trivial⟩
  · simp only
    have ha := h.alloc
    by_cases hge : st.names.length ≥ st.sqalloc
    · simp only [hge, if_true]
      have he := expandAll_inv h
      have hsq : (pdExpandSeq (msaExpand st)).sqalloc = 2 * st.sqalloc := rfl
      have hnm : (pdExpandSeq (msaExpand st)).names = st.names := rfl
      have hlt : st.names.length < (pdExpandSeq (msaExpand st)).sqalloc := by
        rw [hsq]; have := ha.names; have := ha.sqalloc_pos; omega
      have hng : ¬ (st.names.length ≥ (pdExpandSeq (msaExpand st)).sqalloc) := by omega
      simp only [hng, if_false, EGood_ok]
      refine ⟨?_, ?_, by first | rfl | trivial⟩
      · have := addName_inv he name hlt
        exact this
      · show st.names.length < ((pdExpandSeq (msaExpand st)).names ++ [name]).length
        rw [hnm]; simp
    · simp only [hge, if_false, EGood_ok]
      refine ⟨addName_inv h name (by omega), ?_, by first | rfl | trivial⟩
      show st.names.length < (st.names ++ [name]).length
      simp

end EaselModel.Msafile
