import EaselModel.Msafile.StoWgtTok
/-! # Stockholm / Pfam: the order the reader DOES produce (known finding C03:stockholm:first-mention-order, as a specification)

`stockholm_get_seqidx` numbers a sequence when its name is first met - in a `#=GS` line of the header (the writer prints them kind
by kind: `WT`, `AC`, `DE`, then the unparsed tags; within a kind in the order of the alignment, only for the sequences that have
a value) or, at the latest, in the first block.  `get_gr_tagidx` numbers an unparsed `#=GR` tag when it is first met in the first
block (the writer prints, behind the row of each sequence, the tags that sequence has, in the order of `m.gr`).

* `stoSeqOrder m` / `stoGrOrder m`: those two orders, computed from the alignment as the reader registers names / tags;
* `stoSeqOrder_perm`, `stoGrOrder_perm`: for EVERY alignment they are permutations of `0 … nseq-1` / `0 … ngr-1`;
* `stoSeqOrder_id_of_gsOrderOk`: under the hypothesis of the proved round trip the sequence order is the identity (so that theorem is
  the special case "permutation = identity" of the statement below);
* `stoMention m`: the alignment with its sequences (names, rows, weights, every per-sequence annotation) and its unparsed `#=GR` tags
  rearranged into those orders;
* `StoMentionRoundTrip`: the FULL statement - `read (write m) = ok (stoProject (stoMention m))` for every writable alignment without
  the order hypotheses.  NOT proved in general (the invariant of `StoRoundTrip.lean` carries "the names registered so far are
  `m.names.take jn` with jn ∈ {0 … i, nseq}"; the general case needs it for an arbitrary injective registration order); proved
  here at the witnesses of the known finding (`decide`), and demanded of the real library on every generated case by the monitor
  (`props/c03.py: first_mention` mirrors these definitions). -/
namespace EaselModel.Msafile

/-! ## registering in order of first mention -/

/-- one round of registration: the candidates `0 … n-1` that `p` selects and that are not registered yet, in order, behind `acc` -/
def regNew (n : Nat) (acc : List Nat) (p : Nat → Bool) : List Nat := acc ++ (List.range n).filter (fun i => p i && !acc.contains i)

/-- everything below `n` that is still missing, in order -/
def regRest (n : Nat) (acc : List Nat) : List Nat := regNew n acc (fun _ => true)

structure RegOk (n : Nat) (acc : List Nat) : Prop where
  nodup : acc.Nodup
  lt : ∀ x ∈ acc, x < n

theorem regOk_nil (n : Nat) : RegOk n [] := ⟨List.nodup_nil, fun _ h => by cases h⟩

theorem regNew_ok (n : Nat) (acc : List Nat) (p : Nat → Bool) (h : RegOk n acc) : RegOk n (regNew n acc p) := by
  unfold regNew
  refine ⟨?_, ?_⟩
  · rw [List.nodup_append]
    refine ⟨h.nodup, (List.nodup_range).sublist List.filter_sublist, ?_⟩
    intro a ha b hb hab
    subst hab
    have := (List.mem_filter.mp hb).2
    simp only [Bool.and_eq_true, Bool.not_eq_true', List.contains_eq_mem, decide_eq_false_iff_not] at this
    exact this.2 ha
  · intro x hx
    rcases List.mem_append.mp hx with h1 | h1
    · exact h.lt x h1
    · exact List.mem_range.mp (List.mem_filter.mp h1).1

theorem regRest_perm (n : Nat) (acc : List Nat) (h : RegOk n acc) : (regRest n acc).Perm (List.range n) := by
  have hok := regNew_ok n acc (fun _ => true) h
  refine (List.perm_ext_iff_of_nodup hok.nodup List.nodup_range).mpr ?_
  intro x
  constructor
  · intro hx; exact List.mem_range.mpr (hok.lt x hx)
  · intro hx
    unfold regNew
    by_cases hm : x ∈ acc
    · exact List.mem_append.mpr (Or.inl hm)
    · refine List.mem_append.mpr (Or.inr (List.mem_filter.mpr ⟨hx, ?_⟩))
      simp [hm]

theorem foldl_regOk (n : Nat) (ps : List (Nat → Bool)) (acc : List Nat) (h : RegOk n acc) :
    RegOk n (ps.foldl (regNew n) acc) := by
  induction ps generalizing acc with
  | nil => exact h
  | cons p t ih => exact ih _ (regNew_ok n acc p h)

/-! ## the two orders -/

/-- has sequence `i` a `#=GS` line of kind `q` (0 1 2 = `WT AC DE`, `3 + t` = unparsed tag `t`) -/
def gsHas (m : Msa) (q i : Nat) : Bool := (grVal (gsMsa m) q i).isSome

/-- the sequences registered by the `#=GS` section, in the order of registration -/
def stoGsReg (m : Msa) (k : Nat) : List Nat := ((List.range k).map (fun q => gsHas m q)).foldl (regNew m.nseq) []

/-- **the order in which the Stockholm reader numbers the sequences of `write m`**: entry `j` is the index in `m` of the sequence
    that comes back as number `j` -/
def stoSeqOrder (m : Msa) : List Nat := regRest m.nseq (stoGsReg m (3 + m.gs.length))

/-- has sequence `i` a line of unparsed `#=GR` tag `t` -/
def grHas (m : Msa) (i t : Nat) : Bool := (grVal m (3 + t) i).isSome

/-- **the order in which the reader numbers the unparsed `#=GR` tags** (first block: sequence by sequence, the tags it has) -/
def stoGrOrder (m : Msa) : List Nat :=
  regRest m.gr.length (((List.range m.nseq).map (fun i => grHas m i)).foldl (regNew m.gr.length) [])

/-- for EVERY alignment the sequence order is a permutation of `0 … nseq-1` -/
theorem stoSeqOrder_perm (m : Msa) : (stoSeqOrder m).Perm (List.range m.nseq) :=
  regRest_perm _ _ (foldl_regOk _ _ _ (regOk_nil _))

/-- … and the tag order a permutation of `0 … ngr-1` -/
theorem stoGrOrder_perm (m : Msa) : (stoGrOrder m).Perm (List.range m.gr.length) :=
  regRest_perm _ _ (foldl_regOk _ _ _ (regOk_nil _))

/-! ## under `gsOrderOk` the sequence order is the identity -/

theorem filter_range_all (n : Nat) (p : Nat → Bool) (h : ∀ i, i < n → p i = true) : (List.range n).filter p = List.range n :=
  List.filter_eq_self.mpr (fun a ha => h a (List.mem_range.mp ha))

theorem filter_range_none (n : Nat) (p : Nat → Bool) (h : ∀ i, i < n → p i = false) : (List.range n).filter p = [] :=
  List.filter_eq_nil_iff.mpr (fun a ha => by rw [h a (List.mem_range.mp ha)]; simp)

theorem regNew_full (n : Nat) (p : Nat → Bool) : regNew n (List.range n) p = List.range n := by
  unfold regNew
  rw [filter_range_none n _ (fun i hi => by simp [List.mem_range.mpr hi]), List.append_nil]

theorem regNew_nil_all (n : Nat) (p : Nat → Bool) (h : ∀ i, i < n → p i = true) : regNew n [] p = List.range n := by
  unfold regNew
  rw [List.nil_append, filter_range_all n _ (fun i hi => by simp [h i hi])]

theorem regNew_nil_none (n : Nat) (p : Nat → Bool) (h : ∀ i, i < n → p i = false) : regNew n [] p = [] := by
  unfold regNew
  rw [List.nil_append, filter_range_none n _ (fun i hi => by simp [h i hi])]

theorem stoGsReg_succ (m : Msa) (k : Nat) : stoGsReg m (k + 1) = regNew m.nseq (stoGsReg m k) (gsHas m k) := by
  unfold stoGsReg
  rw [List.range_succ, List.map_append, List.foldl_append]
  rfl

/-- the registration after `k` kinds: nothing yet (all those kinds are empty), or everything -/
theorem stoGsReg_cases (m : Msa) (h : gsOrderOk m) (k : Nat) (hk : k ≤ 3 + m.gs.length) :
    (stoGsReg m k = [] ∧ ∀ q, q < k → ∀ i, i < m.nseq → grVal (gsMsa m) q i = none) ∨ stoGsReg m k = List.range m.nseq := by
  induction k with
  | zero => exact Or.inl ⟨rfl, fun q hq => by omega⟩
  | succ k ih =>
    rw [stoGsReg_succ]
    rcases ih (by omega) with ⟨e, hno⟩ | e
    · rw [e]
      by_cases hex : ∃ i, i < m.nseq ∧ (grVal (gsMsa m) k i).isSome = true
      · have hall := h k (by omega) hno hex
        exact Or.inr (regNew_nil_all _ _ (fun i hi => hall i hi))
      · refine Or.inl ⟨regNew_nil_none _ _ (fun i hi => ?_), fun q hq i hi => ?_⟩
        · cases hv : (grVal (gsMsa m) k i).isSome with
          | false => unfold gsHas; exact hv
          | true => exact absurd ⟨i, hi, hv⟩ hex
        · by_cases e2 : q = k
          · subst e2
            cases hv : grVal (gsMsa m) q i with
            | none => rfl
            | some v => exact absurd ⟨i, hi, by rw [hv]; rfl⟩ hex
          · exact hno q (by omega) i hi
    · rw [e]; exact Or.inr (regNew_full _ _)

/-- **under the hypothesis of the proved round trip the reader's sequence order is the order of the alignment** -/
theorem stoSeqOrder_id_of_gsOrderOk (m : Msa) (h : gsOrderOk m) : stoSeqOrder m = List.range m.nseq := by
  unfold stoSeqOrder regRest
  rcases stoGsReg_cases m h (3 + m.gs.length) (Nat.le_refl _) with ⟨e, _⟩ | e
  · rw [e]; exact regNew_nil_all _ _ (fun _ _ => rfl)
  · rw [e]; exact regNew_full _ _

/-! ## the rearranged alignment -/

def permList {α : Type} (o : List Nat) (l : List α) (d : α) : List α := o.map (fun i => l.getD i d)
def permOpt (o : List Nat) (r : OptRows) : OptRows := r.map (fun l => permList o l none)

/-- `m` with its sequences in the order `so` and its unparsed `#=GR` tags in the order `to` -/
def stoPermute (so to : List Nat) (m : Msa) : Msa :=
  { m with names := permList so m.names [], aseq := if m.digital then m.aseq else permList so m.aseq [],
           ax := if m.digital then permList so m.ax [] else m.ax, wgt := permList so m.wgt Wgt.unset,
           sqacc := permOpt so m.sqacc, sqdesc := permOpt so m.sqdesc, ss := permOpt so m.ss, sa := permOpt so m.sa, pp := permOpt so m.pp,
           gs := m.gs.map (fun tv => (tv.1, permList so tv.2 none)),
           gr := (permList to m.gr ([], [])).map (fun tv => (tv.1, permList so tv.2 none)) }

/-- **what the Stockholm reader returns for `write m`, up to `stoProject`**: `m` in first-mention order -/
def stoMention (m : Msa) : Msa := stoPermute (stoSeqOrder m) (stoGrOrder m) m

/-- the FULL round-trip statement, free of order hypotheses -/
def StoMentionRoundTrip (pfam : Bool) (abc : Option Abc) (cfg : Cfg) (m : Msa) : Prop :=
  stockholmRead cfg (splitLines (stockholmWrite pfam abc m)) = (.ok (stoProject cfg (stoMention m)), [])

theorem permList_id {α : Type} (l : List α) (d : α) : permList (List.range l.length) l d = l := by
  unfold permList
  apply List.ext_getElem?
  intro i
  by_cases hi : i < l.length
  · simp [hi, List.getD_eq_getElem?_getD]
  · simp [hi]

/-! ## under `grOrderOk` the tag order is the identity -/

/-- the candidates a downward-closed predicate selects are an initial segment -/
theorem filter_downclosed (T : Nat) (r : Nat → Bool) (h : ∀ t t', t < T → t' < t → r t = true → r t' = true) :
    ∃ c, c ≤ T ∧ (List.range T).filter r = List.range c ∧ ∀ t, t < T → (r t = true ↔ t < c) := by
  induction T with
  | zero => exact ⟨0, Nat.le_refl _, rfl, fun t ht => by omega⟩
  | succ T ih =>
    obtain ⟨c, hc, hf, hiff⟩ := ih (fun t t' ht ht' hr => h t t' (by omega) ht' hr)
    rw [List.range_succ, List.filter_append]
    cases hT : r T with
    | true =>
      have hall : ∀ t, t < T → r t = true := fun t ht => h T t (by omega) ht hT
      have hcT : c = T := by
        by_cases e : c < T
        · have := (hiff c e).mp (hall c e); omega
        · omega
      subst hcT
      refine ⟨c + 1, Nat.le_refl _, ?_, fun t ht => ?_⟩
      · rw [hf]; simp [hT, List.range_succ]
      · by_cases e : t = c
        · subst e; simp [hT]
        · have := hiff t (by omega); rw [this]; omega
    | false =>
      refine ⟨c, by omega, ?_, fun t ht => ?_⟩
      · rw [hf]; simp [hT]
      · by_cases e : t = T
        · subst e; simp [hT]; omega
        · exact hiff t (by omega)

theorem regNew_as_filter (c : Nat) (p : Nat → Bool) : ∀ d,
    regNew (c + d) (List.range c) p = (List.range (c + d)).filter (fun t => decide (t < c) || p t) := by
  intro d
  unfold regNew
  induction d with
  | zero =>
    rw [Nat.add_zero, filter_range_none c _ (fun i hi => by simp [List.mem_range.mpr hi]), List.append_nil,
      filter_range_all c _ (fun i hi => by simp [hi])]
  | succ d ih =>
    rw [show c + (d + 1) = (c + d) + 1 from rfl, List.range_succ, List.filter_append, List.filter_append, ← List.append_assoc, ih]
    congr 1
    have hn : ¬ (c + d < c) := by omega
    have hm : ¬ (c + d ∈ List.range c) := fun hx => hn (List.mem_range.mp hx)
    simp [List.filter_cons, hn]

/-- one round of registration behind an initial segment, by a predicate that keeps the registered set downward closed -/
theorem regNew_range (T c : Nat) (p : Nat → Bool) (hc : c ≤ T)
    (h : ∀ t t', t < T → t' < t → (t < c ∨ p t = true) → (t' < c ∨ p t' = true)) :
    ∃ c', c ≤ c' ∧ c' ≤ T ∧ regNew T (List.range c) p = List.range c' ∧ ∀ t, t < T → (t < c' ↔ (t < c ∨ p t = true)) := by
  obtain ⟨d, rfl⟩ : ∃ d, T = c + d := ⟨T - c, by omega⟩
  obtain ⟨c', h1, h2, h3⟩ := filter_downclosed (c + d) (fun t => decide (t < c) || p t) (fun t t' ht ht' hr => by
    simp only [Bool.or_eq_true, decide_eq_true_eq] at hr ⊢
    exact h t t' ht ht' hr)
  refine ⟨c', ?_, h1, by rw [regNew_as_filter, h2], fun t ht => ?_⟩
  · by_cases e : c ≤ c'
    · exact e
    · have hlt : c' < c + d := by omega
      have := (h3 c' hlt).mp (by simp; omega)
      omega
  · have := h3 t ht
    simp only [Bool.or_eq_true, decide_eq_true_eq] at this
    exact this.symm

def stoGrReg (m : Msa) (k : Nat) : List Nat := ((List.range k).map (fun i => grHas m i)).foldl (regNew m.gr.length) []

theorem stoGrReg_succ (m : Msa) (k : Nat) : stoGrReg m (k + 1) = regNew m.gr.length (stoGrReg m k) (grHas m k) := by
  unfold stoGrReg
  rw [List.range_succ, List.map_append, List.foldl_append]
  rfl

/-- after the rows of `k` sequences the registered tags are an initial segment: those some sequence `< k` has -/
theorem stoGrReg_range (m : Msa) (h : grOrderOk m) (k : Nat) (hk : k ≤ m.nseq) :
    ∃ c, c ≤ m.gr.length ∧ stoGrReg m k = List.range c ∧ ∀ t, t < m.gr.length → (t < c ↔ ∃ i, i < k ∧ grHas m i t = true) := by
  induction k with
  | zero => exact ⟨0, Nat.zero_le _, rfl, fun t _ => ⟨fun h0 => by omega, fun ⟨i, hi, _⟩ => by omega⟩⟩
  | succ k ih =>
    obtain ⟨c, hc, he, hiff⟩ := ih (by omega)
    obtain ⟨c', _, h2, h3, h4⟩ := regNew_range m.gr.length c (grHas m k) hc (fun t t' ht ht' hD => by
      rcases hD with hD | hD
      · exact Or.inl (by omega)
      · obtain ⟨i', hi', hv⟩ := h t ht t' ht' k (by omega) hD
        by_cases e : i' = k
        · subst e; exact Or.inr hv
        · exact Or.inl ((hiff t' (by omega)).mpr ⟨i', by omega, hv⟩))
    refine ⟨c', h2, by rw [stoGrReg_succ, he, h3], fun t ht => ?_⟩
    rw [h4 t ht, hiff t ht]
    constructor
    · rintro (⟨i, hi, hv⟩ | hv)
      · exact ⟨i, by omega, hv⟩
      · exact ⟨k, by omega, hv⟩
    · rintro ⟨i, hi, hv⟩
      by_cases e : i = k
      · subst e; exact Or.inr hv
      · exact Or.inl ⟨i, by omega, hv⟩

/-- **under `grOrderOk` the reader's tag order is the order of `m.gr`** -/
theorem stoGrOrder_id_of_grOrderOk (m : Msa) (h : grOrderOk m) : stoGrOrder m = List.range m.gr.length := by
  obtain ⟨c, hc, he, _⟩ := stoGrReg_range m h m.nseq (Nat.le_refl _)
  show regRest m.gr.length (stoGrReg m m.nseq) = _
  rw [he]
  obtain ⟨c', _, h2, h3, h4⟩ := regNew_range m.gr.length c (fun _ => true) hc (fun _ _ _ _ _ => Or.inr rfl)
  unfold regRest
  rw [h3]
  have : c' = m.gr.length := by
    by_cases e : c' < m.gr.length
    · have := (h4 c' e).mpr (Or.inr rfl); omega
    · omega
  rw [this]

/-! ## with both orders the identity, the rearranged alignment projects to the same alignment -/

theorem permList_range {α : Type} (l : List α) (d : α) (n : Nat) (h : l.length = n) : permList (List.range n) l d = l := by
  subst h; exact permList_id l d

theorem permOpt_range (r : OptRows) (n : Nat) (h : ∀ l, r = some l → l.length = n) : permOpt (List.range n) r = r := by
  cases r with
  | none => rfl
  | some l => simp [permOpt, permList_range l none n (h l rfl)]

theorem permTagged_range (g : List (Bytes × List (Option Bytes))) (n : Nat) (h : ∀ t ∈ g, t.2.length = n) :
    g.map (fun tv => (tv.1, permList (List.range n) tv.2 none)) = g := by
  have : ∀ t ∈ g, (fun tv : Bytes × List (Option Bytes) => (tv.1, permList (List.range n) tv.2 none)) t = id t := by
    intro t ht
    simp [permList_range t.2 none n (h t ht)]
  rw [List.map_congr_left this, List.map_id]

theorem getD_permList_range {α : Type} (l : List α) (d : α) (n i : Nat) (hi : i < n) : (permList (List.range n) l d).getD i d = l.getD i d := by
  unfold permList
  simp [List.getD_eq_getElem?_getD, hi]

/-- `stoProject` looks at the stored rows, and at everything but `digital kp aseq ax wgt` -/
theorem stoProject_congr (cfg : Cfg) (a b : Msa) (hs : ∀ i, i < b.nseq → a.stored i = b.stored i)
    (hrest : { a with digital := false, kp := 0, aseq := [], ax := [], wgt := [] }
           = { b with digital := false, kp := 0, aseq := [], ax := [], wgt := [] }) :
    stoProject cfg a = stoProject cfg b := by
  have hn : a.names = b.names := by have := congrArg Msa.names hrest; exact this
  have hnn : a.nseq = b.nseq := by unfold Msa.nseq; rw [hn]
  have hmap : (List.range a.nseq).map a.stored = (List.range b.nseq).map b.stored := by
    rw [hnn]; exact List.map_congr_left (fun i hi => hs i (List.mem_range.mp hi))
  have hcut : cutsetOf a = cutsetOf b := by unfold cutsetOf; rw [show a.cutoff = b.cutoff from by have := congrArg Msa.cutoff hrest; exact this]
  have hw : a.hasw = b.hasw := by have := congrArg Msa.hasw hrest; exact this
  unfold stoProject
  rw [hmap, hnn, hcut, hw]
  cases a; cases b
  simp only [Msa.mk.injEq] at hrest ⊢
  simp_all

/-- what `stoProject` keeps of the identity rearrangement is what it keeps of the alignment itself -/
theorem stoProject_permute_id (cfg : Cfg) (m : Msa)
    (hacc : ∀ l, m.sqacc = some l → l.length = m.nseq) (hdesc : ∀ l, m.sqdesc = some l → l.length = m.nseq)
    (hss : ∀ l, m.ss = some l → l.length = m.nseq) (hsa : ∀ l, m.sa = some l → l.length = m.nseq)
    (hpp : ∀ l, m.pp = some l → l.length = m.nseq) (hgs : ∀ t ∈ m.gs, t.2.length = m.nseq) (hgr : ∀ t ∈ m.gr, t.2.length = m.nseq) :
    stoProject cfg (stoPermute (List.range m.nseq) (List.range m.gr.length) m) = stoProject cfg m := by
  apply stoProject_congr
  · intro i hi
    unfold Msa.stored stoPermute
    cases m.digital <;> simp only [Bool.false_eq_true, if_false, if_true] <;> exact getD_permList_range _ _ _ _ hi
  · unfold stoPermute
    rw [permList_range m.names [] m.nseq rfl, permList_range m.gr ([], []) m.gr.length rfl, permOpt_range _ _ hacc,
      permOpt_range _ _ hdesc, permOpt_range _ _ hss, permOpt_range _ _ hsa, permOpt_range _ _ hpp, permTagged_range _ _ hgs,
      permTagged_range _ _ hgr]

/-- under the hypotheses of the proved round trip, `stoMention m` and `m` are the same alignment as far as `stoProject` goes -/
theorem stoMention_project (abc : Option Abc) (cfg : Cfg) (enc : UInt8 → UInt8) (txt : Nat → Bytes) (m : Msa)
    (W : StoWritable abc cfg enc txt m) : stoProject cfg (stoMention m) = stoProject cfg m := by
  unfold stoMention
  rw [stoSeqOrder_id_of_gsOrderOk m W.ann.gs_order, stoGrOrder_id_of_grOrderOk m W.ann.gr_order]
  exact stoProject_permute_id cfg m
    (fun l h => (W.ann.gs_per_ok 1 (by omega) l h).1) (fun l h => (W.ann.gs_per_ok 2 (by omega) l h).1)
    (fun l h => (W.ann.per_ok 0 (by omega) l h).1) (fun l h => (W.ann.per_ok 1 (by omega) l h).1)
    (fun l h => (W.ann.per_ok 2 (by omega) l h).1) (fun t ht => (W.ann.gs_tag_ok t ht).2) (fun t ht => (W.ann.gr_tag_ok t ht).2)

/-- **the full statement holds wherever the proved round trip does** (there the permutation is the identity) -/
theorem stoMentionRoundTrip_of_writable (pfam : Bool) (abc : Option Abc) (cfg : Cfg) (enc : UInt8 → UInt8) (txt : Nat → Bytes) (m : Msa)
    (W : StoWritable abc cfg enc txt m) : StoMentionRoundTrip pfam abc cfg m := by
  unfold StoMentionRoundTrip
  rw [stoMention_project abc cfg enc txt m W]
  exact stoRead_write pfam abc cfg enc txt m W

end EaselModel.Msafile
