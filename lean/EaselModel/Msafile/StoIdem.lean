import EaselModel.Msafile.StoWritable
import EaselModel.Msafile.PhylipIdem
/-! Stockholm / Pfam: re-writing the re-read alignment reproduces the same bytes (`write (project m) = write m`).

`stoProject` differs from `m` in the mode flags, the stored rows (rebuilt from `Msa.stored`), the weights (default; they are
printed only with `hasw`) and the cut-offs (the reader MODEL keeps which are set, not their value: hence `cutoff = []`
here).  Everything else the writer looks at is untouched, so the statement holds for ANY annotation, per-sequence `#=GS` /
`#=GR` included. -/
namespace EaselModel.Msafile

theorem seqChunk_project (abc : Option Abc) (cfg : Cfg) (m : Msa) (hd : cfg.digital = m.digital) (ha : abc.isSome = m.digital)
    (i : Nat) (hi : i < m.nseq) (pos n : Nat) : seqChunk abc (stoProject cfg m) i pos n = seqChunk abc m i pos n := by
  have hget : ((List.range m.nseq).map m.stored).getD i [] = m.stored i := by
    simp [List.getD_eq_getElem?_getD, hi]
  cases abc with
  | none =>
    have hm : m.digital = false := by simpa using ha.symm
    have hc : cfg.digital = false := by rw [hd, hm]
    simp only [seqChunk, stoProject, hc, Bool.false_eq_true, if_false, hget, Msa.stored, hm]
  | some a =>
    have hm : m.digital = true := by simpa using ha.symm
    have hc : cfg.digital = true := by rw [hd, hm]
    simp only [seqChunk, stoProject, hc, if_true, hget, Msa.stored, hm]

theorem cutsetOf_nil (m : Msa) (hc : m.cutoff = []) : cutsetOf m = List.replicate 6 false := by
  rw [cutsetOf_eq, hc]; rfl

/-- **Stockholm / Pfam: `write (project m) = write m`** for any alignment without weights and cut-offs whose mode is the
    reader's and the writer's -/
theorem stockholmWrite_project (pfam : Bool) (abc : Option Abc) (cfg : Cfg) (m : Msa) (hw : m.hasw = false) (hc : m.cutoff = [])
    (hd : cfg.digital = m.digital) (ha : abc.isSome = m.digital) :
    stockholmWrite pfam abc (stoProject cfg m) = stockholmWrite pfam abc m := by
  have hcut : (stoProject cfg m).cutoff = m.cutoff := by
    show (if (cutsetOf m).any id then (cutsetOf m).map (fun b => if b then some (0 : UInt32) else none) else []) = m.cutoff
    rw [cutsetOf_nil m hc, hc]; rfl
  have hL : stoLayout (stoProject cfg m) = stoLayout m := rfl
  have hH : stoHeadLines (stoLayout m) (stoProject cfg m) = stoHeadLines (stoLayout m) m := by
    unfold stoHeadLines
    rw [hcut]; rfl
  have hG : stoGSLines (stoLayout m) (stoProject cfg m) = stoGSLines (stoLayout m) m := by
    unfold stoGSLines
    have : (stoProject cfg m).hasw = false := hw
    simp only [this, hw, Bool.false_eq_true, if_false]
    rfl
  have hS : ∀ pos acpl i, i < m.nseq →
      stoSeqLines (stoLayout m) abc (stoProject cfg m) pos acpl i = stoSeqLines (stoLayout m) abc m pos acpl i := by
    intro pos acpl i hi
    unfold stoSeqLines
    rw [seqChunk_project abc cfg m hd ha i hi]
    rfl
  have hB : ∀ pos, stoBlockLines (stoLayout m) abc (stoProject cfg m) (stoCpl pfam m) pos
      = stoBlockLines (stoLayout m) abc m (stoCpl pfam m) pos := by
    intro pos
    unfold stoBlockLines
    have e : (List.range (stoProject cfg m).nseq).flatMap (stoSeqLines (stoLayout m) abc (stoProject cfg m) pos
          (if (stoProject cfg m).alen - pos > stoCpl pfam m then stoCpl pfam m else (stoProject cfg m).alen - pos))
        = (List.range m.nseq).flatMap (stoSeqLines (stoLayout m) abc m pos
          (if m.alen - pos > stoCpl pfam m then stoCpl pfam m else m.alen - pos)) :=
      flatMap_congr_phy _ _ _ (fun i hi => hS pos _ i (List.mem_range.mp hi))
    simp only [e]
    rfl
  have hcpl : stoCpl pfam (stoProject cfg m) = stoCpl pfam m := rfl
  have halen : (stoProject cfg m).alen = m.alen := rfl
  have hBf : stoBlockLines (stoLayout m) abc (stoProject cfg m) (stoCpl pfam m)
      = stoBlockLines (stoLayout m) abc m (stoCpl pfam m) := funext hB
  show joinLF ((stoHeadLines (stoLayout m) (stoProject cfg m) ++ stoGSLines (stoLayout m) (stoProject cfg m)
      ++ (blockStarts m.alen (stoCpl pfam m)).flatMap (stoBlockLines (stoLayout m) abc (stoProject cfg m) (stoCpl pfam m))) ++ [[47, 47]])
    = joinLF ((stoHeadLines (stoLayout m) m ++ stoGSLines (stoLayout m) m
      ++ (blockStarts m.alen (stoCpl pfam m)).flatMap (stoBlockLines (stoLayout m) abc m (stoCpl pfam m))) ++ [[47, 47]])
  rw [hH, hG, hBf]

end EaselModel.Msafile
