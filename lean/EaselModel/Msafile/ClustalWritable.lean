import EaselModel.Msafile.ClustalRoundTrip
import EaselModel.Msafile.PhylipWritable
import EaselModel.Msafile.AbcTables
/-! Concrete, checkable conditions under which an alignment is `ClustalWritable`: text mode, and digital mode with the
    generated amino / DNA / RNA alphabets. -/
namespace EaselModel.Msafile

/-! ## text mode -/

/-- table fact: the text-mode Clustal input map sends every graphic character to itself -/
def cluTextSymOk : Bool :=
  (List.range 256).all fun n =>
    let t := UInt8.ofNat n
    !(isGraph t) || mapByte (clustalInmap none) t == (CatSt.ok, some t)

theorem cluTextSymOk_true : cluTextSymOk = true := by decide +kernel

theorem clu_text_sym (t : UInt8) (h : isGraph t = true) : mapByte (clustalInmap none) t = (.ok, some t) := by
  have h1 := (List.all_eq_true.mp cluTextSymOk_true) t.toNat (List.mem_range.mpr t.toNat_lt)
  simp only [UInt8.ofNat_toNat, h, Bool.not_true, Bool.false_or, beq_iff_eq] at h1
  exact h1

/-- a text-mode alignment that Clustal represents faithfully: ≥ 1 sequence, ≥ 1 column, names not empty and without white
    space or NUL, rows of `alen` graphic characters; and no row after the first looks like a consensus line: its name or
    every one of its residues is outside `" .:*"` -/
structure ClustalTextWritable (m : Msa) : Prop where
  dig : m.digital = false
  n1 : 1 ≤ m.nseq
  alen1 : 1 ≤ m.alen
  name_ok : ∀ i, i < m.nseq → cluNameOk (m.names.getD i [])
  row_ok : ∀ i, i < m.nseq → (m.aseq.getD i []).length = m.alen ∧ ∀ t ∈ m.aseq.getD i [], isGraph t = true
  notcons : ∀ i, i < m.nseq → 1 ≤ i →
    (∃ c ∈ m.names.getD i [], inDelim bConsensus c = false) ∨ (∀ t ∈ m.aseq.getD i [], inDelim bConsensus t = false)

theorem notcons_of (nm row : Bytes) (alen pos : Nat) (hl : row.length = alen) (hpos : pos < alen)
    (h : (∃ c ∈ nm, inDelim bConsensus c = false) ∨ (∀ t ∈ row, inDelim bConsensus t = false)) :
    ∃ c, (c ∈ nm ∨ c ∈ (row.drop pos).take 60) ∧ inDelim bConsensus c = false := by
  rcases h with ⟨c, hc, hd⟩ | h
  · exact ⟨c, Or.inl hc, hd⟩
  · have hne := buf_ne_nil row pos (by rw [hl]; exact hpos)
    obtain ⟨c, t, hct⟩ := List.exists_cons_of_ne_nil hne
    have hc : c ∈ (row.drop pos).take 60 := by rw [hct]; simp
    exact ⟨c, Or.inr hc, h c (mem_of_drop_take hc)⟩

theorem clustalTextWritable_writable (m : Msa) (h : ClustalTextWritable m) :
    ClustalWritable none (clustalCfg none) id (fun i => m.aseq.getD i []) m :=
  { n1 := h.n1, alen1 := h.alen1, name_ok := h.name_ok
    txt_len := fun i hi => (h.row_ok i hi).1
    buf_eq := fun i hi pos => by
      have h0 : ∀ t ∈ ((m.aseq.getD i []).drop pos).take 60, t ≠ 0 :=
        fun t ht => (graph_notSpace t ((h.row_ok i hi).2 t (mem_of_drop_take ht))).2
      show strChunk (m.aseq.getD i []) pos clustalCpl = _
      unfold strChunk
      rw [show clustalCpl = 60 from rfl, cstr_id _ h0]
    txt_sym := fun i hi t ht => by
      have hg := (h.row_ok i hi).2 t ht
      exact ⟨by simpa [clustalCfg] using clu_text_sym t hg, hg⟩
    row_enc := fun i hi => by
      simp [Msa.stored, h.dig, mkRow, clustalCfg, Cfg.digital]
    notcons := fun i h1 hi pos hpos => notcons_of _ _ m.alen pos (h.row_ok i hi).1 hpos (h.notcons i hi h1) }

/-! ## digital mode -/

/-- the stored symbol the reader produces for a written character -/
def cluEnc (a : Abc) (t : UInt8) : UInt8 :=
  match mapByte (clustalInmap (some a)) t with
  | (_, some x) => x
  | _ => 0

/-- table fact about an alphabet: the character written for code `x < Kp` (`sym[x]`) is read back as `x`, is graphic, and
    is outside `" .:*"` unless it is `*`; no code collides with the sentinel -/
def cluDigSymOk (a : Abc) : Bool :=
  ((List.range a.kp).all fun x =>
    let t := a.sym.getD x 0
    mapByte (clustalInmap (some a)) t == (CatSt.ok, some (UInt8.ofNat x)) && isGraph t && (t == 42 || !inDelim bConsensus t))
  && decide (a.kp ≤ 250)

theorem cluDigSymOk_amino : cluDigSymOk abcAmino = true := by decide +kernel
theorem cluDigSymOk_dna : cluDigSymOk abcDna = true := by decide +kernel
theorem cluDigSymOk_rna : cluDigSymOk abcRna = true := by decide +kernel

theorem clu_dig_sym (a : Abc) (ha : cluDigSymOk a = true) (x : UInt8) (hx : x.toNat < a.kp) :
    mapByte (clustalInmap (some a)) (a.sym.getD x.toNat 0) = (.ok, some (cluEnc a (a.sym.getD x.toNat 0))) ∧
    isGraph (a.sym.getD x.toNat 0) = true ∧ cluEnc a (a.sym.getD x.toNat 0) = x ∧
    (a.sym.getD x.toNat 0 ≠ 42 → inDelim bConsensus (a.sym.getD x.toNat 0) = false) := by
  unfold cluDigSymOk at ha
  simp only [Bool.and_eq_true, decide_eq_true_eq] at ha
  have h1 := (List.all_eq_true.mp ha.1) x.toNat (List.mem_range.mpr hx)
  simp only [UInt8.ofNat_toNat, Bool.and_eq_true, beq_iff_eq, Bool.or_eq_true, Bool.not_eq_true'] at h1
  obtain ⟨⟨hm, hg⟩, hc⟩ := h1
  have he : cluEnc a (a.sym.getD x.toNat 0) = x := by unfold cluEnc; rw [hm]
  refine ⟨by rw [he]; exact hm, hg, he, ?_⟩
  intro h42
  rcases hc with hc | hc
  · exact absurd hc h42
  · exact hc

/-- a digital alignment (alphabet `a`) that Clustal represents faithfully; a row after the first must have a name with a
    character outside `" .:*"`, or no `*` (not-a-residue) symbol -/
structure ClustalDigitalWritable (a : Abc) (m : Msa) : Prop where
  dig : m.digital = true
  n1 : 1 ≤ m.nseq
  alen1 : 1 ≤ m.alen
  name_ok : ∀ i, i < m.nseq → cluNameOk (m.names.getD i [])
  row_ok : ∀ i, i < m.nseq → dsqRowOk a.kp m.alen (m.ax.getD i []) = true
  notcons : ∀ i, i < m.nseq → 1 ≤ i →
    (∃ c ∈ m.names.getD i [], inDelim bConsensus c = false) ∨ (∀ x ∈ dsqCodes (some (m.ax.getD i [])), a.sym.getD x.toNat 0 ≠ 42)

/-- the text the writer prints for row `i` -/
def cluDigTxt (a : Abc) (m : Msa) (i : Nat) : Bytes :=
  (dsqCodes (some (m.ax.getD i []))).map fun x => a.sym.getD x.toNat 0

theorem clustalDigitalWritable_writable (a : Abc) (ha : cluDigSymOk a = true) (m : Msa) (h : ClustalDigitalWritable a m) :
    ClustalWritable (some a) (clustalCfg (some a)) (cluEnc a) (cluDigTxt a m) m := by
  have hkp : a.kp ≤ 250 := by
    unfold cluDigSymOk at ha
    simp only [Bool.and_eq_true, decide_eq_true_eq] at ha
    exact ha.2
  have hcodes : ∀ i, i < m.nseq →
      (dsqCodes (some (m.ax.getD i []))).all (fun x => decide (x.toNat < a.kp)) = true ∧ (dsqCodes (some (m.ax.getD i []))).length = m.alen := by
    intro i hi
    cases hr : m.ax.getD i [] with
    | nil => have := h.row_ok i hi; rw [hr] at this; simp [dsqRowOk] at this
    | cons s0 rest =>
      have := h.row_ok i hi; rw [hr] at this
      simp only [dsqRowOk, Bool.and_eq_true, beq_iff_eq] at this
      refine ⟨by simpa [dsqCodes] using this.2, ?_⟩
      simp only [dsqCodes, List.drop_succ_cons, List.drop_zero, List.length_dropLast]
      omega
  have hlt : ∀ i, i < m.nseq → ∀ x ∈ dsqCodes (some (m.ax.getD i [])), x.toNat < a.kp := by
    intro i hi x hx
    simpa using (List.all_eq_true.mp (hcodes i hi).1) x hx
  have hlen : ∀ i, i < m.nseq → (cluDigTxt a m i).length = m.alen := fun i hi => by
    simp only [cluDigTxt, List.length_map]; exact (hcodes i hi).2
  exact
    { n1 := h.n1, alen1 := h.alen1, name_ok := h.name_ok
      txt_len := hlen
      buf_eq := fun i hi pos => by
        have hshape := dsqRow_shape _ _ _ (h.row_ok i hi)
        have hns : ∀ x ∈ dsqCodes (some (m.ax.getD i [])), x ≠ dsqSENTINEL := by
          intro x hx hs
          have := hlt i hi x hx
          rw [hs] at this
          simp [dsqSENTINEL] at this
          omega
        show textizeN a ((m.ax.getD i []).drop (pos + 1)) clustalCpl = _
        have hdrop : (m.ax.getD i []).drop (pos + 1) = (dsqCodes (some (m.ax.getD i [])) ++ [dsqSENTINEL]).drop pos := by
          conv => lhs; rw [hshape]
          simp
        unfold textizeN
        rw [hdrop, show clustalCpl = 60 from rfl, takeWhile_sentinel _ hns]
        simp only [cluDigTxt, List.map_drop, List.map_take]
      txt_sym := fun i hi t ht => by
        simp only [cluDigTxt, List.mem_map] at ht
        obtain ⟨x, hx, rfl⟩ := ht
        have := clu_dig_sym a ha x (hlt i hi x hx)
        exact ⟨by simpa [clustalCfg] using this.1, this.2.1⟩
      row_enc := fun i hi => by
        have hshape := dsqRow_shape _ _ _ (h.row_ok i hi)
        have hmap : (cluDigTxt a m i).map (cluEnc a) = dsqCodes (some (m.ax.getD i [])) := by
          simp only [cluDigTxt, List.map_map]
          exact map_id_of _ _ (fun x hx => (clu_dig_sym a ha x (hlt i hi x hx)).2.2.1)
        rw [hmap]
        simp only [Msa.stored, h.dig, if_true, mkRow, clustalCfg, Cfg.digital, Option.isSome_some]
        exact hshape
      notcons := fun i h1 hi pos hpos => by
        refine notcons_of _ _ m.alen pos (hlen i hi) hpos ?_
        rcases h.notcons i hi h1 with hn | hn
        · exact Or.inl hn
        · refine Or.inr ?_
          intro t ht
          simp only [cluDigTxt, List.mem_map] at ht
          obtain ⟨x, hx, rfl⟩ := ht
          exact (clu_dig_sym a ha x (hlt i hi x hx)).2.2.2 (hn x hx) }

end EaselModel.Msafile
