import EaselModel.Msafile.Basic
/-! # Aligned FASTA: `esl_msafile_afa.c`  (`esl_msafile_afa_SetInmap`, `esl_msafile_afa_Read`, `esl_msafile_afa_Write`)

The reader is the C function rewritten as a state machine over the lines `esl_msafile_GetLine` delivers:
`lead` = the "skip leading blank lines" loop, `rec` = inside the `do { … } while (status == eslOK)` record loop, reading
the sequence lines of record `idx`.  Transitions are the C statements in order, error branches included. -/
namespace EaselModel.Msafile

/-- `esl_msafile_afa_SetInmap` (text mode: every graphic character except the record marker `>`) -/
def afaInmap (abc : Option Abc) : InMap :=
  match abc with
  | some a => ⟨((a.inmap.setIfInBounds 0 a.unknown).setIfInBounds 32 dsqIGNORED)⟩
  | none =>
    ⟨(((Array.ofFn (n := 128) fun i =>
        let c := UInt8.ofNat i.val
        if i.val == 0 then (63 : UInt8) else if isGraph c then c else dsqILLEGAL).setIfInBounds 62 dsqILLEGAL).setIfInBounds 32 dsqIGNORED)⟩

/-- reader configuration: `afp->abc` (none = text mode) and `afp->inmap` -/
structure Cfg where
  abc : Option Abc
  inmap : InMap

def Cfg.digital (c : Cfg) : Bool := c.abc.isSome
def Cfg.kp (c : Cfg) : Nat := match c.abc with | some a => a.kp | none => 0

def afaCfg (abc : Option Abc) : Cfg := ⟨abc, afaInmap abc⟩

/-- length of a row under construction: `this_alen` as maintained by `esl_strmapcat` / `esl_abc_dsqcat` -/
def rowLen (digital : Bool) (cur : Option Bytes) : Nat :=
  match cur with
  | none => 0
  | some r => if digital then r.length - 2 else r.length

/-- the locals of `esl_msafile_afa_Read` between two `esl_msafile_GetLine` calls -/
structure AfaSt where
  lead : Bool := true               -- still in the "skip leading blank lines" loop
  sqalloc : Nat := 16               -- msa->sqalloc
  names : List Bytes := []          -- msa->sqname[0..idx]   (entry idx is the record being read)
  sqdesc : OptRows := none          -- msa->sqdesc
  rows : List Bytes := []           -- finished rows msa->aseq[0..idx-1] / msa->ax[0..idx-1]
  idx : Nat := 0
  alen : Nat := 0
  cur : Option Bytes := none        -- msa->aseq[idx] / msa->ax[idx]  (NULL until the first residue line)
deriving Repr

def afaMsg1 := "expected aligned FASTA name/desc line starting with >"

/-- the head of the record loop: `if (n <= 1 || *p != '>') … p++; esl_memtok; esl_msa_Expand; SetSeqName; SetSeqDescription; this_alen = 0` -/
def afaStartRecord (st : AfaSt) (p : Bytes) : Sum AfaSt (Res Msa) :=
  match p with
  | [] => .inr (.eformat afaMsg1)
  | c :: p1 =>
    if p.length ≤ 1 || c != 62 then .inr (.eformat afaMsg1)
    else
      match memtok p1 blankTab with
      | none => .inr (.eformat "no name found for aligned FASTA record")
      | some (tok, rest) =>
        if st.idx ≥ expandAlloc st.idx st.sqalloc then .inr .exc                      -- esl_msa_SetSeqName: "no such sequence"
        else
          .inl { st with lead := false, sqalloc := expandAlloc st.idx st.sqalloc,       -- esl_msa_Expand
                         names := st.names ++ [cstr tok],
                         sqdesc := if rest.isEmpty then st.sqdesc else setOptRow st.sqdesc st.idx (cstr rest),
                         cur := none }

/-- after the sequence lines of record `idx`: the two length checks, `alen = this_alen; idx++` -/
def afaFinishRecord (cfg : Cfg) (st : AfaSt) : Sum AfaSt (Res Msa) :=
  let thisAlen := rowLen cfg.digital st.cur
  if thisAlen == 0 then .inr (.eformat "sequence has alen 0")
  else if st.alen != 0 && st.alen != thisAlen then .inr (.eformat "sequence has unexpected alen")
  else
    match st.cur with
    | none => .inr .fault              -- a row of non-zero length behind a NULL pointer: cannot happen (thisAlen = 0 above)
    | some r => .inl { st with rows := st.rows ++ [r], idx := st.idx + 1, alen := thisAlen, cur := none }

def afaStep (cfg : Cfg) (st : AfaSt) (line : Bytes) : Sum AfaSt (Res Msa) :=
  if st.lead then
    if isBlankLine line then .inl st
    else
      let p := line.dropWhile isSpace                 -- tolerate sloppy space at start of line
      match p with
      | [] => .inr (.eformat afaMsg1)                 -- n == 0  (the check added by the fix for "\f")
      | c :: _ => if c != 62 then .inr (.eformat afaMsg1) else afaStartRecord st p
  else
    let p := line.dropWhile isSpace
    match p with
    | [] => .inl st                                   -- blank line inside a record
    | c :: _ =>
      if c == 62 then                                 -- '>' : break; length checks; next record
        match afaFinishRecord cfg st with
        | .inl st' => afaStartRecord st' p
        | .inr r => .inr r
      else
        let (cs, cur') := if cfg.digital then dsqcat cfg.inmap st.cur p else strmapcat cfg.inmap st.cur p
        match cs with
        | .einval => .inr (.eformat "one or more invalid sequence characters")
        | .exc => .inr .exc
        | .ok => .inl { st with cur := cur' }

/-- end of input -/
def afaFinish (cfg : Cfg) (st : AfaSt) : Res Msa :=
  if st.lead then .eof
  else
    match afaFinishRecord cfg st with
    | .inr r => r
    | .inl st' =>
      let n := st'.idx
      .ok { digital := cfg.digital, kp := cfg.kp, alen := st'.alen, names := st'.names,
            aseq := if cfg.digital then [] else st'.rows,
            ax := if cfg.digital then st'.rows else [],
            hasw := false, wgt := List.replicate n Wgt.dflt,          -- esl_msa_SetDefaultWeights
            sqdesc := padOptRows st'.sqdesc n }

/-- `esl_msafile_afa_Read` on the remaining lines: outcome and the lines left unread -/
def afaRead (cfg : Cfg) (lines : List Bytes) : Res Msa × List Bytes :=
  runLines (afaStep cfg) (afaFinish cfg) {} lines

/-! ## writer -/

def chunks60 (b : Bytes) : List Bytes :=
  if _h : b.length ≤ 60 then (if b.isEmpty then [] else [b])
  else b.take 60 :: chunks60 (b.drop 60)
termination_by b.length
decreasing_by simp [List.length_drop]; omega

/-- `esl_abc_TextizeN` on codes that are not sentinels -/
def textize (a : Abc) (codes : Bytes) : Bytes := codes.map fun x => a.sym.getD x.toNat 0

/-- the residues of row `i` as the writers see them (digital rows lose their sentinels) -/
def Msa.rowText (m : Msa) (abc : Option Abc) (i : Nat) : Bytes :=
  match abc with
  | some a => textize a (((m.ax.getD i []).drop 1).dropLast)
  | none => m.aseq.getD i []

def optAt (o : OptRows) (i : Nat) : Option Bytes := (o.getD []).getD i none

/-- the name/description line of record `i`: `>name[ acc][ desc]` -/
def afaHeader (m : Msa) (i : Nat) : Bytes :=
  [62] ++ m.names.getD i []
    ++ (match optAt m.sqacc i with | some a => 32 :: a | none => [])
    ++ (match optAt m.sqdesc i with | some d => 32 :: d | none => [])

/-- the lines `esl_msafile_afa_Write` prints for record `i`: header, then the row in pieces of 60 columns -/
def afaRecLines (abc : Option Abc) (m : Msa) (i : Nat) : List Bytes :=
  afaHeader m i :: chunks60 ((m.rowText abc i).take m.alen)

def afaWriteLines (abc : Option Abc) (m : Msa) : List Bytes :=
  (List.range m.nseq).flatMap (afaRecLines abc m)

/-- `esl_msafile_afa_Write`: every line is terminated by a single LF -/
def afaWrite (abc : Option Abc) (m : Msa) : Bytes :=
  (afaWriteLines abc m).flatMap (· ++ [10])

end EaselModel.Msafile
