import EaselModel.Msafile.Guess
import EaselModel.Msafile.Write
import EaselModel.Msafile.WriteLemmas
import EaselModel.Msafile.RoundTrip
/-! # Autodetection of library-written output (C03)

`esl_msafile_GuessFileFormat` (model: `guessFormat`) applied to what the writers produce.  Stockholm/Pfam, Clustal,
Clustal-like, aligned FASTA and A2M are decided by the first line alone (A2M is told from AFA only by the file-name
suffix).  Core Lean only. -/
namespace EaselModel.Msafile

/-- the first LF-terminated line of a byte string is the first line the reader sees -/
theorem splitLines_first (l rest : Bytes) (h : lineOk l) : splitLines (l ++ 10 :: rest) = l :: splitLines rest := by
  unfold splitLines
  rw [splitLinesT_line l rest [] h.1]
  simp [lineOfAcc_noCR l h.2]

/-- `guessFormat` when the input starts with a non-blank line: only the first line and the suffix are looked at unless
    the first line looks like a PHYLIP header or like nothing known -/
theorem guessFormat_cons (fname : Option Bytes) (l : Bytes) (ls : List Bytes) (hb : isBlankLine l = false) :
    guessFormat fname (l :: ls) =
      (match fmtByFirstLine l with
       | .stockholm => if fmtBySuffix fname == some .pfam then .ok (.pfam, 0) else .ok (.stockholm, 0)
       | .clustal => .ok (.clustal, 0)
       | .clustallike => .ok (.clustallike, 0)
       | .afa => if fmtBySuffix fname == some .a2m then .ok (.a2m, 0) else .ok (.afa, 0)
       | .phylip =>
         if fmtBySuffix fname == some .phylip then .ok (.phylip, 0)
         else if fmtBySuffix fname == some .phylips then .ok (.phylips, 0)
         else phyCheckFileFormat (l :: ls)
       | .unknown =>
         if fmtBySuffix fname == some .selex then .ok (.selex, 0)
         else if checkSelex (l :: ls) then (if fmtBySuffix fname == some .psiblast then .ok (.psiblast, 0) else .ok (.selex, 0))
         else .fail) := by
  unfold guessFormat
  simp only [List.dropWhile_cons, hb, Bool.false_eq_true, if_false]
  cases fmtByFirstLine l <;> rfl

theorem fmtBySuffix_none : fmtBySuffix none = none := rfl

/-! ## the magic first lines -/

def bStoMagic : Bytes := str "# STOCKHOLM 1.0"

theorem stoMagic_facts : lineOk bStoMagic ∧ isBlankLine bStoMagic = false ∧ fmtByFirstLine bStoMagic = .stockholm := by
  refine ⟨⟨?_, ?_⟩, ?_, ?_⟩ <;> decide +kernel

theorem clustalHeader_facts (like : Bool) :
    lineOk (clustalHeader like easelVersion) ∧ isBlankLine (clustalHeader like easelVersion) = false ∧
    fmtByFirstLine (clustalHeader like easelVersion) = (if like then .clustallike else .clustal) := by
  cases like
  · refine ⟨⟨?_, ?_⟩, ?_, ?_⟩ <;> decide +kernel
  · refine ⟨⟨?_, ?_⟩, ?_, ?_⟩ <;> decide +kernel

/-- a line that begins with `>` is not blank and is taken for a FASTA-like header -/
theorem gtLine_facts (rest : Bytes) : isBlankLine (62 :: rest) = false ∧ fmtByFirstLine (62 :: rest) = .afa := by
  constructor
  · simp [isBlankLine, inDelim, blankTab]
  · unfold fmtByFirstLine
    have h1 : memstrpfx (62 :: rest) bStockholmHdr = false := by
      simp [memstrpfx, bStockholmHdr, List.isPrefixOf]
    have h2 : memstrpfx (62 :: rest) bGt = true := by
      simp [memstrpfx, bGt, List.isPrefixOf]
    simp [h1, h2]

/-! ## Stockholm / Pfam -/

/-- what the autodetector answers for Stockholm/Pfam output, whatever the alignment and the file name: Pfam when the
    suffix says `.pfam`, else Stockholm (the two are read by the same reader) -/
theorem guess_stockholmWrite (fname : Option Bytes) (pfam : Bool) (abc : Option Abc) (m : Msa) :
    guessFormat fname (splitLines (stockholmWrite pfam abc m))
      = if fmtBySuffix fname == some .pfam then .ok (.pfam, 0) else .ok (.stockholm, 0) := by
  obtain ⟨rest, hr⟩ := stockholmWrite_magic pfam abc m
  rw [hr]
  show guessFormat fname (splitLines (bStoMagic ++ 10 :: rest)) = _
  rw [splitLines_first _ _ stoMagic_facts.1, guessFormat_cons _ _ _ stoMagic_facts.2.1, stoMagic_facts.2.2]

/-! ## Clustal / Clustal-like -/

theorem guess_clustalWrite (fname : Option Bytes) (like : Bool) (abc : Option Abc) (m : Msa) :
    guessFormat fname (splitLines (clustalWrite like abc m)) = .ok (if like then .clustallike else .clustal, 0) := by
  obtain ⟨rest, hr⟩ := clustalWrite_header like abc m
  rw [hr, splitLines_first _ _ (clustalHeader_facts like).1, guessFormat_cons _ _ _ (clustalHeader_facts like).2.1,
    (clustalHeader_facts like).2.2]
  cases like <;> rfl

/-! ## aligned FASTA and A2M: both begin with `>`; only the suffix `.a2m` makes the autodetector answer A2M -/

theorem afaWrite_first (abc : Option Abc) (m : Msa) (h1 : 1 ≤ m.nseq) :
    ∃ rest, afaWrite abc m = afaHeader m 0 ++ 10 :: rest := by
  unfold afaWrite afaWriteLines
  have hr : List.range m.nseq = 0 :: (List.range (m.nseq - 1)).map (· + 1) := by
    have : m.nseq = (m.nseq - 1) + 1 := by omega
    rw [this, List.range_succ_eq_map]
    simp
  rw [hr]
  simp only [List.flatMap_cons, afaRecLines, List.cons_append, List.append_assoc]
  exact ⟨_, rfl⟩

theorem a2mWrite_first (abc : Option Abc) (m : Msa) (h1 : 1 ≤ m.nseq) :
    ∃ rest, a2mWrite abc m = a2mHeader m 0 ++ 10 :: rest := by
  unfold a2mWrite a2mLines
  have hr : List.range m.nseq = 0 :: (List.range (m.nseq - 1)).map (· + 1) := by
    have : m.nseq = (m.nseq - 1) + 1 := by omega
    rw [this, List.range_succ_eq_map]
    simp
  rw [hr]
  simp only [List.flatMap_cons, a2mRecLines, List.cons_append, joinLF_cons]
  exact ⟨_, rfl⟩

theorem guess_afaWrite (fname : Option Bytes) (abc : Option Abc) (m : Msa) (h1 : 1 ≤ m.nseq) (hl : lineOk (afaHeader m 0)) :
    guessFormat fname (splitLines (afaWrite abc m))
      = if fmtBySuffix fname == some .a2m then .ok (.a2m, 0) else .ok (.afa, 0) := by
  obtain ⟨rest, hr⟩ := afaWrite_first abc m h1
  rw [hr, splitLines_first _ _ hl]
  obtain ⟨r, hh⟩ : ∃ r, afaHeader m 0 = 62 :: r := ⟨_, rfl⟩
  rw [hh, guessFormat_cons _ _ _ (gtLine_facts _).1, (gtLine_facts _).2]

theorem guess_a2mWrite (fname : Option Bytes) (abc : Option Abc) (m : Msa) (h1 : 1 ≤ m.nseq) (hl : lineOk (a2mHeader m 0)) :
    guessFormat fname (splitLines (a2mWrite abc m))
      = if fmtBySuffix fname == some .a2m then .ok (.a2m, 0) else .ok (.afa, 0) := by
  obtain ⟨rest, hr⟩ := a2mWrite_first abc m h1
  rw [hr, splitLines_first _ _ hl]
  obtain ⟨r, hh⟩ : ∃ r, a2mHeader m 0 = 62 :: r := ⟨_, rfl⟩
  rw [hh, guessFormat_cons _ _ _ (gtLine_facts _).1, (gtLine_facts _).2]

/-- file names with the suffixes the library's own documentation gives for Pfam and A2M files -/
theorem fmtBySuffix_pfam : fmtBySuffix (some (str "x.pfam")) = some .pfam := by decide +kernel
theorem fmtBySuffix_a2m : fmtBySuffix (some (str "x.a2m")) = some .a2m := by decide +kernel

end EaselModel.Msafile
