import EaselModel.Msafile.Lemmas
import EaselModel.Msafile.Afa
/-! Invariant of the aligned-FASTA reader and the facts the C01 theorems are glued from. -/
namespace EaselModel.Msafile

/-- the documented normal outcomes, with the well-formedness demanded of a returned alignment -/
def Good (r : Res Msa) : Prop :=
  match r with
  | .ok m => m.wellFormed = true
  | .eof => True
  | .eformat msg => msg ≠ ""
  | .fault => False
  | .exc => False

/-- the input map only emits symbols that may be stored: alphabet codes `< Kp` (digital), non-NUL characters (text) -/
structure Cfg.valid (c : Cfg) : Prop where
  emits : if c.digital then c.inmap.emits (fun x => decide (x.toNat < c.kp)) = true else c.inmap.emits (· != 0) = true
  noExc : c.inmap.noExc = true

def rowOkB (digital : Bool) (kp alen : Nat) (r : Bytes) : Bool :=
  if digital then dsqRowOk kp alen r else (r.length == alen && !r.contains 0)

/-- an alignment made of names, rows and default weights only (what AFA, A2M, Clustal, PSI-BLAST, PHYLIP return) is well formed -/
theorem wellFormed_plain (digital : Bool) (kp alen : Nat) (names rows : List Bytes) (sqdesc : OptRows)
    (h1 : 1 ≤ names.length) (hr : rows.length = names.length) (hok : rows.all (rowOkB digital kp alen) = true) :
    ({ digital := digital, kp := kp, alen := alen, names := names,
       aseq := if digital then [] else rows, ax := if digital then rows else [],
       hasw := false, wgt := List.replicate names.length Wgt.dflt, sqdesc := sqdesc } : Msa).wellFormed = true := by
  have hok' := List.all_eq_true.mp hok
  cases digital with
  | true =>
    simp [Msa.wellFormed, Msa.nseq, optLenOk, optRowsOk, hr, h1]
    intro r hr'
    simpa [rowOkB] using hok' r hr'
  | false =>
    simp [Msa.wellFormed, Msa.nseq, optLenOk, optRowsOk, hr, h1]
    intro r hr'
    simpa [rowOkB] using hok' r hr'

/-! ## rows under construction -/

/-- the row being built is a well-formed row of its own current length -/
def curOk (cfg : Cfg) (cur : Option Bytes) : Prop :=
  ∀ r, cur = some r → rowOkB cfg.digital cfg.kp (rowLen cfg.digital cur) r = true

theorem dsqRowOk_build (kp : Nat) (codes : Bytes) (h : codes.all (fun x => decide (x.toNat < kp)) = true) :
    dsqRowOk kp codes.length (dsqSENTINEL :: codes ++ [dsqSENTINEL]) = true := by
  have h' := List.all_eq_true.mp h
  simp [dsqRowOk]
  intro x hx
  simpa using h' x hx

theorem dsqRowOk_codes (kp alen : Nat) (r : Bytes) (h : dsqRowOk kp alen r = true) :
    (dsqCodes (some r)).all (fun x => decide (x.toNat < kp)) = true ∧ (dsqCodes (some r)).length = alen ∧ r.length = alen + 2 := by
  cases r with
  | nil => simp [dsqRowOk] at h
  | cons s0 rest =>
    simp only [dsqRowOk, Bool.and_eq_true, beq_iff_eq] at h
    refine ⟨by simpa [dsqCodes] using h.2, ?_, ?_⟩
    · simp only [dsqCodes, List.drop_succ_cons, List.drop_zero, List.length_dropLast]
      omega
    · simp only [List.length_cons]; omega

theorem dsqCodes_all (cfg : Cfg) (hd : cfg.digital = true) (cur : Option Bytes) (hc : curOk cfg cur) :
    (dsqCodes cur).all (fun x => decide (x.toNat < cfg.kp)) = true := by
  cases cur with
  | none => simp [dsqCodes]
  | some d =>
    have := hc d rfl
    simp only [rowOkB, hd, if_true] at this
    exact (dsqRowOk_codes _ _ _ this).1

theorem curOk_cat (cfg : Cfg) (hv : cfg.valid) (cur : Option Bytes) (p : Bytes) (hc : curOk cfg cur) :
    curOk cfg (if cfg.digital then dsqcat cfg.inmap cur p else strmapcat cfg.inmap cur p).2 := by
  intro r hr
  cases hd : cfg.digital with
  | true =>
    simp only [hd, if_true] at hr
    have hv := hv.emits; simp only [hd, if_true] at hv
    unfold dsqcat at hr
    by_cases hs : p.isEmpty
    · simp only [hs, if_true] at hr
      have := hc r hr
      simp only [hd] at this
      simp only [if_true, dsqcat, hs]
      rw [hr]; rw [hr] at this; exact this
    · simp only [hs, Bool.false_eq_true, if_false, Option.some.injEq] at hr
      have hnew := mapLoop_all' cfg.inmap _ hv p
      have hold := dsqCodes_all cfg hd cur hc
      have hall : (dsqCodes cur ++ (mapLoop cfg.inmap p .ok []).2.reverse).all (fun x => decide (x.toNat < cfg.kp)) = true := by
        rw [List.all_append, hold, hnew]; rfl
      have hb := dsqRowOk_build cfg.kp _ hall
      simp only [if_true, dsqcat, hs, Bool.false_eq_true, if_false]
      rw [← hr]
      simp only [rowOkB, if_true, rowLen]
      have hlen : (dsqSENTINEL :: (dsqCodes cur ++ (mapLoop cfg.inmap p .ok []).2.reverse) ++ [dsqSENTINEL]).length - 2
          = (dsqCodes cur ++ (mapLoop cfg.inmap p .ok []).2.reverse).length := by
        simp only [List.cons_append, List.length_cons, List.length_append, List.length_nil]; omega
      rw [hlen]; exact hb
  | false =>
    simp only [hd, Bool.false_eq_true, if_false] at hr ⊢
    have hv := hv.emits; simp only [hd, Bool.false_eq_true, if_false] at hv
    have hnn := strmapcat_no_nul cfg.inmap hv cur p (by
      intro d hdd
      have := hc d hdd
      simp only [rowOkB, hd, Bool.false_eq_true, if_false, Bool.and_eq_true] at this
      have h2 := this.2
      simp only [Bool.not_eq_true', List.contains_eq_mem, decide_eq_false_iff_not] at h2
      rw [List.all_eq_true]; intro x hx
      simp only [bne_iff_ne, ne_eq]; intro h0; subst h0; exact h2 hx) r hr
    simp only [rowOkB, Bool.false_eq_true, if_false, rowLen, hr, Bool.and_eq_true, beq_iff_eq, true_and]
    simp only [Bool.not_eq_true', List.contains_eq_mem, decide_eq_false_iff_not]
    intro hmem
    have := (List.all_eq_true.mp hnn) 0 hmem
    simp at this

/-! ## the reader's invariant -/

structure AfaCommon (cfg : Cfg) (st : AfaSt) : Prop where
  alloc : st.idx ≤ st.sqalloc ∧ 0 < st.sqalloc
  rows_len : st.rows.length = st.idx
  rows_ok : st.rows.all (rowOkB cfg.digital cfg.kp st.alen) = true
  alen0 : st.alen = 0 → st.rows = []

/-- between two records: one name per finished row -/
structure AfaBetween (cfg : Cfg) (st : AfaSt) : Prop extends AfaCommon cfg st where
  names_len : st.names.length = st.idx

/-- at a `esl_msafile_GetLine` call -/
structure AfaInv (cfg : Cfg) (st : AfaSt) : Prop extends AfaCommon cfg st where
  lead_names : st.lead = true → st.names.length = st.idx
  rec_names : st.lead = false → st.names.length = st.idx + 1 ∧ st.idx < st.sqalloc
  cur_ok : curOk cfg st.cur

theorem afaInv_init (cfg : Cfg) : AfaInv cfg {} :=
  { alloc := by decide, rows_len := rfl, rows_ok := rfl, alen0 := fun _ => rfl,
    lead_names := fun _ => rfl, rec_names := fun h => by simp at h, cur_ok := fun r h => by simp at h }

/-- the outcome of a reader step: a new state satisfying the invariant, or a documented normal final outcome -/
abbrev StepGood {σ : Type} (Inv : σ → Prop) (x : Sum σ (Res Msa)) : Prop := StepOk Inv Good x

theorem stepGood_inl {σ : Type} (Inv : σ → Prop) (s : σ) : StepGood Inv (.inl s) = Inv s := rfl
theorem stepGood_inr {σ : Type} (Inv : σ → Prop) (r : Res Msa) : StepGood Inv (.inr r : Sum σ (Res Msa)) = Good r := rfl
@[simp] theorem good_eformat (msg : String) : Good (.eformat msg) = (msg ≠ "") := rfl
@[simp] theorem good_eof : Good .eof = True := rfl
@[simp] theorem good_exc : Good .exc = False := rfl
@[simp] theorem good_fault : Good .fault = False := rfl

theorem afaStartRecord_inv (cfg : Cfg) (st : AfaSt) (p : Bytes) (h : AfaBetween cfg st) :
    StepGood (AfaInv cfg) (afaStartRecord st p) := by
  unfold afaStartRecord
  cases p with
  | nil => simp [afaMsg1]
  | cons c p1 =>
    simp only
    split
    · simp [afaMsg1]
    · split
      · simp
      · rename_i tok rest _
        have ha := h.alloc
        have hex : st.idx < expandAlloc st.idx st.sqalloc := by
          unfold expandAlloc
          by_cases h1 : st.idx ≥ st.sqalloc
          · simp only [h1, if_true]; omega
          · simp only [h1, if_false]; omega
        split
        · rename_i hge
          exfalso; omega
        · simp only [stepGood_inl]
          exact
            { alloc := ⟨by show st.idx ≤ expandAlloc st.idx st.sqalloc; omega, by show 0 < expandAlloc st.idx st.sqalloc; omega⟩,
              rows_len := h.rows_len, rows_ok := h.rows_ok, alen0 := h.alen0,
              lead_names := fun hl => by simp at hl,
              rec_names := fun _ => ⟨by simp [h.names_len], hex⟩,
              cur_ok := fun r hr => by simp at hr }

theorem afaFinishRecord_inv (cfg : Cfg) (st : AfaSt) (h : AfaInv cfg st) (hl : st.lead = false) :
    StepGood (fun st' => AfaBetween cfg st' ∧ st'.idx = st.idx + 1 ∧ st'.lead = false) (afaFinishRecord cfg st) := by
  unfold afaFinishRecord
  simp only
  split
  · simp
  · rename_i hne
    split
    · simp
    · rename_i hal
      cases hcur : st.cur with
      | none =>
        exfalso
        simp [rowLen, hcur] at hne
      | some r =>
        simp only [stepGood_inl]
        have hrow := h.cur_ok r hcur
        have hn := h.rec_names hl
        refine ⟨{ alloc := ⟨by show st.idx + 1 ≤ st.sqalloc; omega, h.alloc.2⟩,
                  rows_len := by simp [h.rows_len],
                  rows_ok := ?_, alen0 := ?_, names_len := by simpa using hn.1 }, by simp, by simpa using hl⟩
        · show (st.rows ++ [r]).all (rowOkB cfg.digital cfg.kp (rowLen cfg.digital (some r))) = true
          rw [List.all_append]
          simp only [List.all_cons, List.all_nil, Bool.and_true, Bool.and_eq_true]
          rw [hcur] at hrow
          refine ⟨?_, hrow⟩
          by_cases h0 : st.alen = 0
          · simp [h.alen0 h0]
          · have : st.alen = rowLen cfg.digital (some r) := by
              rw [hcur] at hal
              simp only [Bool.and_eq_true, bne_iff_ne, ne_eq, not_and, Decidable.not_not] at hal
              exact hal h0
            rw [← this]; exact h.rows_ok
        · intro h0
          exfalso
          have h0' : rowLen cfg.digital (some r) = 0 := h0
          rw [hcur] at hne
          simp [h0'] at hne

theorem afaStep_inv (cfg : Cfg) (hv : cfg.valid) (st : AfaSt) (line : Bytes) (h : AfaInv cfg st) :
    StepGood (AfaInv cfg) (afaStep cfg st line) := by
  unfold afaStep
  by_cases hl : st.lead = true
  · simp only [hl, if_true]
    split
    · simpa using h
    · split
      · simp [afaMsg1]
      · split
        · simp [afaMsg1]
        · exact afaStartRecord_inv cfg st _ { toAfaCommon := h.toAfaCommon, names_len := h.lead_names hl }
  · have hl' : st.lead = false := by simpa using hl
    simp only [hl', Bool.false_eq_true, if_false]
    split
    · simpa using h
    · rename_i c rest hp
      split
      · have hf := afaFinishRecord_inv cfg st h hl'
        cases hfr : afaFinishRecord cfg st with
        | inl st' =>
          rw [hfr] at hf
          simp only [stepGood_inl] at hf
          exact afaStartRecord_inv cfg st' _ hf.1
        | inr r => rw [hfr] at hf; simpa using hf
      · have hcat := curOk_cat cfg hv st.cur (c :: rest) h.cur_ok
        have hne : (if cfg.digital then dsqcat cfg.inmap st.cur (c :: rest) else strmapcat cfg.inmap st.cur (c :: rest)).1 ≠ .exc := by
          by_cases hd : cfg.digital = true
          · simp only [hd, if_true]; exact dsqcat_noExc _ hv.noExc _ _
          · simp only [hd, Bool.false_eq_true, if_false]; exact strmapcat_noExc _ hv.noExc _ _
        rw [← hp] at hcat hne
        split
        · simp
        · rename_i hexc; exact absurd hexc hne
        · rename_i hok
          simp only [stepGood_inl]
          exact { alloc := h.alloc, rows_len := h.rows_len, rows_ok := h.rows_ok, alen0 := h.alen0,
                  lead_names := fun hx => by simp [hl'] at hx,
                  rec_names := fun _ => h.rec_names hl',
                  cur_ok := hcat }

theorem afaFinish_good (cfg : Cfg) (st : AfaSt) (h : AfaInv cfg st) : Good (afaFinish cfg st) := by
  unfold afaFinish
  by_cases hl : st.lead = true
  · simp [hl]
  · have hl' : st.lead = false := by simpa using hl
    simp only [hl', Bool.false_eq_true, if_false]
    have hf := afaFinishRecord_inv cfg st h hl'
    cases hfr : afaFinishRecord cfg st with
    | inr r => rw [hfr] at hf; simpa using hf
    | inl st' =>
      rw [hfr] at hf
      simp only [stepGood_inl] at hf
      obtain ⟨hb, hidx, _⟩ := hf
      simp only [Good]
      rw [← hb.names_len]
      exact wellFormed_plain cfg.digital cfg.kp st'.alen st'.names st'.rows _
        (by rw [hb.names_len, hidx]; omega) (by rw [hb.rows_len, hb.names_len]) hb.rows_ok

/-- **AFA reader, every input**: the outcome of `esl_msafile_afa_Read` is a documented normal one and a returned alignment is well formed -/
theorem afaRead_good (cfg : Cfg) (hv : cfg.valid) (lines : List Bytes) : Good (afaRead cfg lines).1 :=
  runLines_inv (afaStep cfg) (afaFinish cfg) (AfaInv cfg) Good (fun st l h => afaStep_inv cfg hv st l h)
    (fun st h => afaFinish_good cfg st h) lines {} (afaInv_init cfg)

/-- a step result that is not "stop with eslOK" -/
def NotOk {σ : Type} (x : Sum σ (Res Msa)) : Prop := ∀ m, x ≠ .inr (.ok m)

@[simp] theorem notOk_inl {σ : Type} (s : σ) : NotOk (.inl s : Sum σ (Res Msa)) := by intro m; simp
@[simp] theorem notOk_eformat {σ : Type} (msg : String) : NotOk (.inr (.eformat msg) : Sum σ (Res Msa)) := by intro m; simp
@[simp] theorem notOk_exc {σ : Type} : NotOk (.inr .exc : Sum σ (Res Msa)) := by intro m; simp
@[simp] theorem notOk_fault {σ : Type} : NotOk (.inr .fault : Sum σ (Res Msa)) := by intro m; simp
@[simp] theorem notOk_eof {σ : Type} : NotOk (.inr .eof : Sum σ (Res Msa)) := by intro m; simp

theorem afaStartRecord_notOk (st : AfaSt) (p : Bytes) : NotOk (afaStartRecord st p) := by
  unfold afaStartRecord
  cases p with
  | nil => simp
  | cons c p1 =>
    simp only
    split
    · simp
    · split
      · simp
      · split <;> simp

theorem afaFinishRecord_notOk (cfg : Cfg) (st : AfaSt) : NotOk (afaFinishRecord cfg st) := by
  unfold afaFinishRecord
  simp only
  split
  · simp
  · split
    · simp
    · split <;> simp

/-- a step of the AFA reader never stops with eslOK: success is only declared at end of input -/
theorem afaStep_notOk (cfg : Cfg) (st : AfaSt) (l : Bytes) : NotOk (afaStep cfg st l) := by
  unfold afaStep
  by_cases hl : st.lead = true
  · simp only [hl, if_true]
    split
    · simp
    · split
      · simp
      · split
        · simp
        · exact afaStartRecord_notOk _ _
  · have hl' : st.lead = false := by simpa using hl
    simp only [hl', Bool.false_eq_true, if_false]
    split
    · simp
    · split
      · cases hfr : afaFinishRecord cfg st with
        | inl st' => exact afaStartRecord_notOk _ _
        | inr r =>
          have := afaFinishRecord_notOk cfg st
          rw [hfr] at this
          exact this
      · split <;> simp

theorem afaStep_not_ok (cfg : Cfg) (st : AfaSt) (l : Bytes) (r : Res Msa) (h : afaStep cfg st l = .inr r) :
    ¬ (∃ m, r = .ok m) := by
  intro ⟨m, hm⟩
  subst hm
  exact afaStep_notOk cfg st l m h

/-- after a successful AFA read nothing is left: the next `esl_msafile_Read` returns eslEOF -/
theorem afaRead_ok_consumes (cfg : Cfg) (lines : List Bytes) (m : Msa) (h : (afaRead cfg lines).1 = .ok m) :
    (afaRead cfg lines).2 = [] ∧ (afaRead cfg (afaRead cfg lines).2).1 = .eof := by
  have h1 := runLines_finish_consumes (afaStep cfg) (afaFinish cfg) (fun r => ∃ m, r = .ok m)
    (fun st l r hs => afaStep_not_ok cfg st l r hs) lines {} ⟨m, h⟩
  refine ⟨h1, ?_⟩
  have : (afaRead cfg lines).2 = [] := h1
  rw [this]
  simp [afaRead, runLines, afaFinish]

end EaselModel.Msafile
