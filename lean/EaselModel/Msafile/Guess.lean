import EaselModel.Msafile.Basic
import EaselModel.Msafile.AbcTables
import EaselModel.Msafile.Afa
import EaselModel.Msafile.A2m
import EaselModel.Msafile.Clustal
import EaselModel.Msafile.Psiblast
import EaselModel.Msafile.Phylip
import EaselModel.Msafile.Selex
import EaselModel.Msafile.Stockholm
/-! # Opening an alignment input: `msafile_OpenBuffer` of `esl_msafile.c`

* format autodetection `esl_msafile_GuessFileFormat` (suffix table through `esl_file_Extension`, the rules on the first
  non-blank line, the decision rules), with the deep checks `msafile_check_selex` (esl_msafile.c) and
  `esl_msafile_phylip_CheckFileFormat` (esl_msafile_phylip.c: `phylip_parse_header`, `phylip_check_interleaved` with
  `phylip_collate_colcodes` / `phylip_deduce_namewidth`, `phylip_check_sequential_known`, `phylip_check_sequential_unknown`);
* alphabet guessing `esl_msafile_GuessAlphabet` -> `esl_msafile_{stockholm,a2m,psiblast,selex,afa,clustal,phylip}_GuessAlphabet`
  -> `esl_abc_GuessAlphabet` (esl_alphabet.c);
* `esl_alphabet_Create(type)` and the per-format `SetInmap` (the `…Cfg` functions of the reader models).

The guessers rewind the buffer when they are done: here they are pure functions of the lines of the input
(`lines : List Bytes`, what successive `esl_buffer_GetLine` calls return).  Data-dependent accesses (`ct[x]`, `p[w]`,
`p[i]` for `i < w`) are bounds-checked against the array / the line; a failed check is the outcome `.fault`.

Core Lean only (the driver imports this file). -/
namespace EaselModel.Msafile

/-- `eslMSAFILE_*` format codes -/
inductive Fmt where
  | stockholm | pfam | a2m | psiblast | selex | afa | clustal | clustallike | phylip | phylips
deriving Repr, DecidableEq

/-- `eslRNA`, `eslDNA`, `eslAMINO` -/
inductive AbcType where
  | rna | dna | amino
deriving Repr, DecidableEq

/-- outcome of a checker / guesser: `fail` = the normal negative answer (eslFAIL, eslEAMBIGUOUS, eslENOFORMAT,
    eslENOALPHABET …), `fault` = a bounds-checked access of the model failed -/
inductive Chk (α : Type) where
  | ok (a : α)
  | fail
  | fault
deriving Repr, DecidableEq

/-! ## constants (explicit bytes, so that the kernel can evaluate the guessers on concrete inputs) -/
def bStockholmHdr : Bytes := [35, 32, 83, 84, 79, 67, 75, 72, 79, 76, 77]            -- "# STOCKHOLM"
def bGt : Bytes := [62]                                                                -- ">"
def bClustal : Bytes := [67, 76, 85, 83, 84, 65, 76]                                   -- "CLUSTAL"
def bMsaWords : Bytes := [109, 117, 108, 116, 105, 112, 108, 101, 32, 115, 101, 113, 117, 101, 110, 99, 101, 32,
  97, 108, 105, 103, 110, 109, 101, 110, 116]                                          -- "multiple sequence alignment"
def bDigits : Bytes := [48, 49, 50, 51, 52, 53, 54, 55, 56, 57]
/-- `eslMSAFILE_PHYLIP_LEGALSYMS` = "-ABCDEFGHIJKLMNOPQRSTUVWZYX*?." -/
def bPhyLegal : Bytes := [45, 65, 66, 67, 68, 69, 70, 71, 72, 73, 74, 75, 76, 77, 78, 79, 80, 81, 82, 83, 84, 85, 86, 87,
  90, 89, 88, 42, 63, 46]
def bHashRF : Bytes := [35, 61, 82, 70]
def bHashCS : Bytes := [35, 61, 67, 83]
def bHashSS : Bytes := [35, 61, 83, 83]
def bHashSA : Bytes := [35, 61, 83, 65]
def bHashG : Bytes := [35]
def bTab : Bytes := [9]

/-! ## `esl_file_Extension` and the suffix table -/

/-- `esl_file_Extension(filename, n_ignore, &p, &n)`: the rightmost suffix (with its '.') of the file name without its
    last `nIgnore` characters; `none` = no suffix (`p = NULL`) -/
def fileExtension (fname : Bytes) (nIgnore : Nat) : Option Bytes :=
  let r := (fname.take (fname.length - nIgnore)).reverse
  let tl := r.takeWhile (fun c => c != 47 && c != 46)          -- eslDIRSLASH '/', '.'
  match r.drop tl.length with
  | [] => none                                                  -- n2 <= 0
  | c :: _ => if c == 47 then none else some (46 :: tl.reverse)

/-- the `if … else if …` chain on `esl_memstrcmp(p, n, ".sto")` … -/
def suffixTable : List (Bytes × Fmt) :=
  [ ([46, 115, 116, 111], .stockholm), ([46, 115, 116, 104], .stockholm), ([46, 115, 116, 107], .stockholm),
    ([46, 97, 102, 97], .afa), ([46, 97, 102, 97, 115, 116, 97], .afa), ([46, 112, 102, 97, 109], .pfam),
    ([46, 97, 50, 109], .a2m), ([46, 115, 108, 120], .selex), ([46, 115, 101, 108, 101, 120], .selex),
    ([46, 112, 98], .psiblast), ([46, 112, 104], .phylip), ([46, 112, 104, 121], .phylip),
    ([46, 112, 104, 121, 105], .phylip), ([46, 112, 104, 121, 115], .phylips) ]

/-- `fmt_bysuffix` (`none` = eslMSAFILE_UNKNOWN); `fname = none`: the buffer has no file name (memory, stream) -/
def fmtBySuffix (fname : Option Bytes) : Option Fmt :=
  match fname with
  | none => none
  | some f =>
    let e0 := fileExtension f 0
    let e := if e0 == some [46, 103, 122] then fileExtension f 3 else e0        -- ".gz": look at the suffix before it
    match e with
    | none => none
    | some x => (suffixTable.find? (fun t => t.1 == x)).map (·.2)

/-! ## the first non-blank line -/

inductive FirstLine where
  | stockholm | afa | clustal | clustallike | phylip | unknown
deriving Repr, DecidableEq

/-- `esl_memspn(tok, toklen, "0123456789") == toklen` (a NUL passes `strchr`) -/
def allDigits (tok : Bytes) : Bool := tok.all (inDelim bDigits)

def fmtByFirstLine (p : Bytes) : FirstLine :=
  if memstrpfx p bStockholmHdr then .stockholm
  else if memstrpfx p bGt then .afa
  else if memstrpfx p bClustal then .clustal
  else if memstrcontains p bMsaWords then .clustallike
  else
    match memtok p blankTab with
    | none => .unknown
    | some (tok1, rest) =>
      if !allDigits tok1 then .unknown
      else
        match memtok rest blankTab with
        | none => .unknown
        | some (tok2, _) => if allDigits tok2 then .phylip else .unknown

/-! ## `msafile_check_selex` -/

structure SlxChk where
  blockNseq : Nat := 0
  nseq : Nat := 0
  blockNres : Nat := 0
  firstname : Bytes := []          -- `firstname, namelen`: a pointer into the (anchored) buffer
  blockidx : Nat := 0
  inBlock : Bool := false
deriving Repr

/-- one turn of the `while (esl_buffer_GetLine(...) == eslOK)` loop: `.inl` = next line, `.inr b` = leave with
    `status == eslOK` iff `b` -/
def slxChkStep (st : SlxChk) (p : Bytes) : Sum SlxChk Bool :=
  if memstrpfx p bHashRF || memstrpfx p bHashCS || memstrpfx p bHashSS || memstrpfx p bHashSA then .inr true
  else if memstrpfx p bHashG then .inl st
  else if isBlankLine p then
    if st.blockNseq != 0 && st.blockNseq != st.nseq then .inr false
    else
      let bi := if st.inBlock then st.blockidx + 1 else st.blockidx
      if bi ≥ 3 then .inr true
      else .inl { st with blockidx := bi, inBlock := false, blockNres := 0, blockNseq := st.nseq, nseq := 0 }
  else
    match memtok p blankTab with
    | none => .inr false                                          -- `goto ERROR` with eslEOL (cannot happen: the line is not blank)
    | some (tok, r1) =>
      if st.nseq == 0 && st.blockidx != 0 && tok != st.firstname then .inr false
      else
        let fn := if st.nseq == 0 && st.blockidx == 0 then tok else st.firstname
        match memtok r1 blankTab with
        | none => .inr false
        | some (tok2, r2) =>
          if st.blockNres != 0 && tok2.length != st.blockNres then .inr false
          else
            match memtok r2 blankTab with
            | some _ => .inr false
            | none => .inl { st with inBlock := true, firstname := fn, blockNres := tok2.length, nseq := st.nseq + 1 }

def slxChkRun : List Bytes → SlxChk → Bool
  | [], st => (if st.inBlock then st.blockidx + 1 else st.blockidx) != 0
  | l :: ls, st =>
    match slxChkStep st l with
    | .inl st' => slxChkRun ls st'
    | .inr b => b

/-- `msafile_check_selex(bf) == eslOK` -/
def checkSelex (lines : List Bytes) : Bool := slxChkRun lines {}

/-! ## `esl_msafile_phylip_CheckFileFormat` -/

/-- `strchr(eslMSAFILE_PHYLIP_LEGALSYMS, c) != NULL` (true for NUL) -/
def phyLegal (c : UInt8) : Bool := inDelim bPhyLegal c

/-- the idiom `esl_memspn(p, n, "\t") == n` of the checkers (a line of spaces is NOT blank here) -/
def tabBlank (p : Bytes) : Bool := p.all (inDelim bTab)

/-- `phylip_parse_header`, over lines that may carry extra data (`body` extracts the line): `nseq`, `alen` and the input
    from the first alignment line on (its head is `p, n`) -/
def phyParseHeaderG {α : Type} (body : α → Bytes) (ls : List α) : Option (Nat × Nat × List α) :=
  match ls.dropWhile (fun l => isBlankLine (body l)) with
  | [] => none
  | h :: rest =>
    let (tok1, r) := match memtok (body h) blankTab with
      | some (t, r) => (t, r)
      | none => ([], body h)
    match strtoi32 tok1 with
    | .ok nseq =>
      match memtok r blankTab with
      | none => none
      | some (tok2, _) =>
        match strtoi32 tok2 with
        | .ok alen =>
          if nseq < 1 || alen < 1 then none
          else
            match rest.dropWhile (fun l => isBlankLine (body l)) with
            | [] => none
            | s => some (nseq.toNat, alen.toNat, s)
        | _ => none
    | _ => none

def phyParseHeader (lines : List Bytes) : Option (Nat × Nat × List Bytes) := phyParseHeaderG id lines

/-! ### interleaved -/

def ccQ : UInt8 := 63      -- '?'
def ccX : UInt8 := 120     -- 'x'
def ccDot : UInt8 := 46    -- '.'
def ccO : UInt8 := 111     -- 'o'
def ccN : UInt8 := 110     -- 'n'

/-- `phylip_collate_colcodes(p, n, colcodes, ncols)`; `none` = eslFAIL -/
def collate : Bytes → List UInt8 → Option (List UInt8)
  | [], cc => some cc
  | c :: p, [] => if (c :: p).any phyLegal then none else some []
  | c :: p, x :: cc =>
    if phyLegal c then (collate p cc).map ((if x == ccQ then ccX else if x == ccDot then ccN else x) :: ·)
    else if c == 32 then (collate p cc).map ((if x == ccQ then ccDot else if x == ccX then ccN else x) :: ·)
    else if isGraph c then
      (collate p cc).map ((if x == ccQ then ccO else if x == ccX then ccN else if x == ccDot then ccO else x) :: ·)
    else none

/-- `for (idx = 0; idx < nseq; idx++)` of one block; the input is a stream whose head is the line in `p, n`
    (`[]` = `status == eslEOF`).  `none` = `goto ERROR` -/
def ilvBlock : Nat → List Bytes → List UInt8 → Option (List UInt8 × List Bytes)
  | 0, s, cc => some (cc, s)
  | _ + 1, [], _ => none
  | k + 1, p :: s, cc =>
    match collate p cc with
    | none => none
    | some cc' => ilvBlock k s cc'

structure IlvAcc where
  nblocks : Nat := 0
  cc0 : List UInt8 := []
  nres1 : Nat := 0
  nres2 : Nat := 0
deriving Repr

/-- `while (status == eslOK)`: one block per turn (`fuel` bounds the number of turns by the number of lines: every
    block consumes at least one line) -/
def ilvLoop (nseq alen : Nat) : Nat → List Bytes → IlvAcc → Option IlvAcc
  | 0, _, _ => none
  | _ + 1, [], acc => some acc
  | f + 1, p :: s, acc =>
    match ilvBlock nseq (p :: s) (List.replicate p.length ccQ) with
    | none => none
    | some (cc, s') =>
      if acc.nblocks != 0 && cc.contains ccN then none
      else
        let acc' : IlvAcc :=
          if acc.nblocks == 0 then { nblocks := 1, cc0 := cc, nres1 := (cc.drop 10).countP (· != ccDot), nres2 := acc.nres2 }
          else { acc with nblocks := acc.nblocks + 1, nres2 := acc.nres2 + cc.count ccX }
        if acc'.nres1 + acc'.nres2 == alen then some acc'
        else ilvLoop nseq alen f (s'.dropWhile tabBlank) acc'

/-- the first loop of `phylip_deduce_namewidth`, on the reversed column codes -/
def dnwScan : Nat → List UInt8 → Nat × List UInt8
  | 0, l => (0, l)
  | k + 1, [] => (k + 1, [])
  | k + 1, x :: l => if x == ccX then dnwScan k l else dnwScan (k + 1) l

/-- `phylip_deduce_namewidth(colcodes0, ncols0, alen, nres2, &namewidth)` -/
def deduceNamewidth (cc0 : List UInt8) (alen nres2 : Nat) : Option Nat :=
  if alen ≤ nres2 then none
  else
    let (left, rem) := dnwScan (alen - nres2) cc0.reverse
    if left > 0 then none
    else
      let nwB := rem.length
      let nwA := (rem.dropWhile (· == ccDot)).length
      some (if nwA ≤ 10 && nwB ≥ 10 then 10 else nwA)

/-- `phylip_check_interleaved(bf, &nblocks, &namewidth)`: `none` = not eslOK -/
def checkInterleaved (lines : List Bytes) : Option (Nat × Nat) :=
  match phyParseHeader lines with
  | none => none
  | some (nseq, alen, s) =>
    match ilvLoop nseq alen (s.length + 1) s {} with
    | none => none
    | some acc =>
      if acc.nres1 + acc.nres2 == alen then some (acc.nblocks, 10)
      else (deduceNamewidth acc.cc0 alen acc.nres2).map (fun w => (acc.nblocks, w))

/-! ### sequential, known name width -/

/-- `while (nres < alen)`: `c = (line == 0 ? namewidth : 0)` with `line` never incremented: the first `namewidth`
    characters of EVERY line are skipped -/
def skLines (namewidth alen : Nat) : List Bytes → Nat → Option (Nat × List Bytes)
  | [], nres => if nres < alen then none else some (nres, [])
  | p :: s, nres =>
    if nres < alen then skLines namewidth alen s (nres + (p.drop namewidth).countP phyLegal)
    else some (nres, p :: s)

def skSeqs (namewidth alen : Nat) : Nat → List Bytes → Bool
  | 0, _ => true
  | k + 1, s =>
    match skLines namewidth alen s 0 with
    | none => false
    | some (nres, s') => if nres != alen then false else skSeqs namewidth alen k (s'.dropWhile tabBlank)

/-- `phylip_check_sequential_known(bf, namewidth) == eslOK` -/
def checkSeqKnown (namewidth : Nat) (lines : List Bytes) : Bool :=
  match phyParseHeader lines with
  | none => false
  | some (nseq, alen, s) => skSeqs namewidth alen nseq s

/-! ### sequential, unknown name width -/

/-- `while (esl_buffer_GetLine(bf, &p, &n) == eslOK && esl_memspn(p, n, " \t") == n) ;` : the line in `p, n` and the input
    behind it; `none` = `status != eslOK` -/
def nextNonblank (s : List Bytes) : Option (Bytes × List Bytes) :=
  match s.dropWhile isBlankLine with
  | [] => none
  | l :: r => some (l, r)

/-- `rth[i]` for the line, and `r` -/
def rthOf : Bytes → List Nat × Nat
  | [] => ([], 0)
  | c :: p =>
    let (t, r) := rthOf p
    if phyLegal c then ((r + 1) :: t, r + 1) else (0 :: t, r)

/-- `for (w = 0; w < L1; w++) if (rth[w] == a) break;` : `none` = `w == L1` -/
def findW (a : Nat) : List Nat → Nat → Option Nat
  | [], _ => none
  | x :: t, i => if x == a then some i else findW a t (i + 1)

/-- `for (i = 0; i < w; i++) if (! isspace(p[i])) break; if (i == w) FAIL`: `some true` = a name character was found,
    `some false` = all `w` bytes are space, `none` = `p[i]` read beyond the line -/
def nameChk : Nat → Bytes → Option Bool
  | 0, _ => some false
  | _ + 1, [] => none
  | w + 1, c :: t => if isSpace c then nameChk w t else some true

/-- `for (k = 1; k < nblocks; k++)`: `cnt` further non-blank lines, counting their legal characters; gives the count and
    the input after the last line read -/
def contLines : Nat → List Bytes → Nat → Option (Nat × List Bytes)
  | 0, s, b => some (b, s)
  | k + 1, s, b =>
    match nextNonblank s with
    | none => none
    | some (l, r) => contLines k r (b + l.countP phyLegal)

/-- `for (j = 1; j < nseq && j < 100; j++)`: the other sequences are consistent with name width `w` -/
def seqUnkRest (w alen nblocks : Nat) : Nat → List Bytes → Chk Unit
  | 0, _ => .ok ()
  | j + 1, s =>
    match nextNonblank s with
    | none => .fail
    | some (p, r) =>
      if p.length ≤ w then .fail                                     -- `n <= w ||`  (9cc6a37)
      else
        match p[w]? with
        | none => .fault
        | some c =>
          if !phyLegal c then .fail
          else
            match nameChk w p with
            | none => .fault
            | some false => .fail
            | some true =>
              match contLines (nblocks - 1) r ((p.drop w).countP phyLegal) with
              | none => .fail
              | some (len2, r') => if len2 != alen then .fail else seqUnkRest w alen nblocks j r'

/-- `phylip_check_sequential_unknown(bf, &namewidth)` (with the repair ef67b6d: the "is there a name" test uses
    `firstns`, the position of the first non-whitespace character of line 1, recorded while `p` still points at line 1;
    before it the test read `p[0..w-1]` on the LAST continuation line, past its end and past the end of the input). -/
def checkSeqUnknown (lines : List Bytes) : Chk Nat :=
  match phyParseHeader lines with
  | none => .fail
  | some (_, _, []) => .fail
  | some (nseq, alen, l1 :: s1) =>
    let nlines := lines.countP (fun l => !isBlankLine l) - 1        -- pass 1, `nlines--`
    if nlines % nseq != 0 then .fail
    else
      let nblocks := nlines / nseq
      let (rth, r) := rthOf l1
      let firstns := (l1.takeWhile isSpace).length
      match contLines (nblocks - 1) s1 0 with
      | none => .fail
      | some (b, s2) =>
        if alen > b + r then .fail                                     -- a = alen - b > r
        else if alen < b then .fail                                    -- a < 0: no rth[w] equals it, w == L1
        else
          match findW (alen - b) rth 0 with
          | none => .fail
          | some w =>
            if firstns ≥ w then .fail
            else
              match seqUnkRest w alen nblocks (min nseq 100 - 1) s2 with
              | .ok _ => .ok w
              | .fail => .fail
              | .fault => .fault

/-- `esl_msafile_phylip_CheckFileFormat(bf, &format, &namewidth)`: `fail` = eslFAIL or eslEAMBIGUOUS -/
def phyCheckFileFormat (lines : List Bytes) : Chk (Fmt × Nat) :=
  let ilv := checkInterleaved lines
  match ilv with
  | some (1, w1) => .ok (.phylip, w1)
  | _ =>
    let sq : Chk Nat := if checkSeqKnown 10 lines then .ok 10 else checkSeqUnknown lines
    match sq with
    | .fault => .fault
    | .ok w2 => if ilv.isSome then .fail else .ok (.phylips, w2)
    | .fail =>
      match ilv with
      | some (_, w1) => .ok (.phylip, w1)
      | none => .fail

/-! ## `esl_msafile_GuessFileFormat` -/

/-- the format and `afp->fmtd.namewidth` (0 = unset); `fail` = eslENOFORMAT -/
def guessFormat (fname : Option Bytes) (lines : List Bytes) : Chk (Fmt × Nat) :=
  let sfx := fmtBySuffix fname
  match lines.dropWhile isBlankLine with
  | [] => .fail                                                       -- "empty file/no data"
  | p :: _ =>
    match fmtByFirstLine p with
    | .stockholm => if sfx == some .pfam then .ok (.pfam, 0) else .ok (.stockholm, 0)
    | .clustal => .ok (.clustal, 0)
    | .clustallike => .ok (.clustallike, 0)
    | .afa => if sfx == some .a2m then .ok (.a2m, 0) else .ok (.afa, 0)
    | .phylip =>
      if sfx == some .phylip then .ok (.phylip, 0)
      else if sfx == some .phylips then .ok (.phylips, 0)
      else phyCheckFileFormat lines
    | .unknown =>
      if sfx == some .selex then .ok (.selex, 0)
      else if checkSelex lines then (if sfx == some .psiblast then .ok (.psiblast, 0) else .ok (.selex, 0))
      else .fail

/-! ## `esl_abc_GuessAlphabet` -/

def ctInit : List Nat := List.replicate 26 0

/-- `ct[x]++` -/
def ctBump (ct : List Nat) (x : Nat) : Option (List Nat) :=
  match ct[x]? with
  | some v => some (ct.set x (v + 1))
  | none => none

/-- `for (pos = 0; pos < n; pos++) if (isalpha(p[pos])) { x = toupper(p[pos]) - 'A'; ct[x]++; nres++; }`; `none` = `ct[x]`
    outside the array -/
def countLine : Bytes → List Nat → Nat → Option (List Nat × Nat)
  | [], ct, nres => some (ct, nres)
  | c :: p, ct, nres =>
    if isAlpha c then
      match ctBump ct ((toUpper c).toNat - 65) with
      | none => none
      | some ct' => countLine p ct' (nres + 1)
    else countLine p ct nres

def bAaOnly : Bytes := [69, 70, 73, 74, 76, 79, 80, 81, 90]       -- "EFIJLOPQZ"
def bAllCanon : Bytes := [65, 67, 71]                              -- "ACG"
def bAaCanon : Bytes := [68, 72, 75, 77, 82, 83, 86, 87, 89]       -- "DHKMRSVWY"

/-- `esl_abc_GuessAlphabet(ct, &type)`: `none` = eslENOALPHABET.  The tests `d <= 0.02*n` are written `50*d ≤ n`
    (exact; agrees with the binary64 comparison for every `n < 2^50`). -/
def abcGuess (ct : List Nat) : Option AbcType :=
  let cnt := fun (c : UInt8) => ct.getD (c.toNat - 65) 0
  let n := (ct.take 26).foldl (· + ·) 0
  let sumOf := fun (s : Bytes) => s.foldl (fun a c => a + cnt c) 0
  let seen := fun (s : Bytes) => s.countP (fun c => cnt c > 0)
  let n1 := sumOf bAaOnly
  let x1 := seen bAaOnly
  let n2 := sumOf bAllCanon
  let x2 := seen bAllCanon
  let n3 := sumOf bAaCanon
  let x3 := seen bAaCanon
  let nt := cnt 84
  let xt := if nt != 0 then 1 else 0
  let nu := cnt 85
  let xu := if nu != 0 then 1 else 0
  let nx := cnt 88
  let nn := cnt 78
  let xn := if nn != 0 then 1 else 0
  if n ≤ 10 then none
  else if n > 2000 && nn == n then some .dna
  else if n1 > 0 then some .amino
  else if 50 * (n - (n2 + nt + nn)) ≤ n && x2 + xt == 4 then some .dna
  else if 50 * (n - (n2 + nu + nn)) ≤ n && x2 + xu == 4 then some .rna
  else if 50 * (n - (n1 + n2 + n3 + nn + nt + nx)) ≤ n && n3 > n2 && x1 + x2 + x3 + xn + xt ≥ 15 then some .amino
  else none

/-! ## the per-format `esl_msafile_*_GuessAlphabet` -/

structure AgSt where
  ct : List Nat := ctInit
  nres : Nat := 0
  step : Nat := 0
deriving Repr

/-- `threshold[step]` for `step < nsteps = 3` -/
def agThreshold (step : Nat) : Nat :=
  match step with
  | 0 => 500
  | 1 => 5000
  | _ => 50000

/-- a line whose residues are counted: the counting loop, then the early stop after 500 / 5000 / 50000 residues -/
def agCount (st : AgSt) (p : Bytes) : Sum AgSt (Chk AbcType) :=
  match countLine p st.ct st.nres with
  | none => .inr .fault
  | some (ct, nres) =>
    if st.step < 3 && nres > agThreshold st.step then
      match abcGuess ct with
      | some t => .inr (.ok t)
      | none => .inl { ct := ct, nres := nres, step := st.step + 1 }
    else .inl { ct := ct, nres := nres, step := st.step }

/-- the line loop; `sel l = none`: the line is skipped (`continue`), `some p`: the bytes `p` are counted -/
def agRun (sel : Bytes → Option Bytes) : List Bytes → AgSt → Chk AbcType
  | [], st =>
    match abcGuess st.ct with
    | some t => .ok t
    | none => .fail
  | l :: ls, st =>
    match sel l with
    | none => agRun sel ls st
    | some p =>
      match agCount st p with
      | .inl st' => agRun sel ls st'
      | .inr r => r

/-- Stockholm, Pfam, SELEX: skip blank lines and lines whose first token starts with '#'; count what follows the name -/
def selSto (l : Bytes) : Option Bytes :=
  match memtok l blankTab with
  | none => none
  | some (tok, rest) => if tok.head? == some 35 then none else some rest

/-- aligned FASTA, A2M: skip leading `isspace`, skip empty lines and '>' lines; count the line -/
def selAfa (l : Bytes) : Option Bytes :=
  match l.dropWhile isSpace with
  | [] => none
  | c :: p => if c == 62 then none else some (c :: p)

/-- PSI-BLAST, Clustal: skip blank lines; count what follows the first token -/
def selPsi (l : Bytes) : Option Bytes := (memtok l blankTab).map (·.2)

/-- PHYLIP: skip blank lines and lines shorter than the name width; always skip the name field -/
def selPhy (nw : Nat) (l : Bytes) : Option Bytes :=
  if isBlankLine l then none else if l.length < nw then none else some (l.drop nw)

/-- `esl_msafile_GuessAlphabet(afp, &type)`; `namewidth` = `afp->fmtd.namewidth`; `fail` = eslENOALPHABET -/
def guessAlphabet (fmt : Fmt) (namewidth : Nat) (lines : List Bytes) : Chk AbcType :=
  match fmt with
  | .stockholm | .pfam | .selex => agRun selSto lines {}
  | .a2m | .afa => agRun selAfa lines {}
  | .psiblast => agRun selPsi lines {}
  | .clustal | .clustallike =>
    match lines.dropWhile isBlankLine with
    | [] => .fail                                                  -- "no alignment data found"
    | _ :: r => agRun selPsi r {}
  | .phylip | .phylips =>
    match lines.dropWhile isBlankLine with
    | [] => .fail
    | _ :: r => agRun (selPhy (if namewidth == 0 then 10 else namewidth)) r {}

/-! ## `msafile_OpenBuffer` -/

inductive FmtSel where
  | auto                     -- eslMSAFILE_UNKNOWN
  | decl (f : Fmt)
deriving Repr, DecidableEq

inductive AbcSel where
  | text                     -- byp_abc == NULL
  | given (t : AbcType)      -- *byp_abc != NULL
  | guess                    -- byp_abc != NULL, *byp_abc == NULL
deriving Repr, DecidableEq

/-- an opened `ESL_MSAFILE`: `afp->format`, the type of `afp->abc` (`none` = text mode), `afp->fmtd.namewidth` -/
structure Opened where
  fmt : Fmt
  abc : Option AbcType
  namewidth : Nat
deriving Repr, DecidableEq

inductive OpenRes where
  | ok (o : Opened)
  | enoformat
  | enoalphabet
  | fault
deriving Repr, DecidableEq

/-- `esl_alphabet_Create(type)` -/
def abcOfType (t : AbcType) : Abc :=
  match t with
  | .rna => abcRna
  | .dna => abcDna
  | .amino => abcAmino

/-- the `switch (afp->format)` over the `esl_msafile_*_SetInmap` functions -/
def cfgOf (fmt : Fmt) (abc : Option Abc) : Cfg :=
  match fmt with
  | .a2m => a2mCfg abc
  | .afa => afaCfg abc
  | .clustal | .clustallike => clustalCfg abc
  | .pfam | .stockholm => stockholmCfg abc
  | .phylip | .phylips => phylipCfg abc
  | .psiblast => psiblastCfg abc
  | .selex => selexCfg abc

def Opened.cfg (o : Opened) : Cfg := cfgOf o.fmt (o.abc.map abcOfType)

/-- `esl_msafile_Read(afp, &msa)` -/
def Opened.read (o : Opened) (lines : List Bytes) : Res Msa × List Bytes :=
  match o.fmt with
  | .a2m => a2mRead o.cfg lines
  | .afa => afaRead o.cfg lines
  | .clustal => clustalRead false o.cfg lines
  | .clustallike => clustalRead true o.cfg lines
  | .pfam | .stockholm => stockholmRead o.cfg lines
  | .phylip => phylipReadW o.namewidth false o.cfg lines
  | .phylips => phylipReadW o.namewidth true o.cfg lines
  | .psiblast => psiblastRead o.cfg lines
  | .selex => selexRead o.cfg lines

/-- the alphabet part of `msafile_OpenBuffer`, once the format is known -/
def openAbc (fmt : Fmt) (nw : Nat) (asel : AbcSel) (lines : List Bytes) : OpenRes :=
  match asel with
  | .text => .ok ⟨fmt, none, nw⟩
  | .given t => .ok ⟨fmt, some t, nw⟩
  | .guess =>
    match guessAlphabet fmt nw lines with
    | .ok t => .ok ⟨fmt, some t, nw⟩
    | .fail => .enoalphabet                                          -- "couldn't guess alphabet"
    | .fault => .fault

/-- the format part: `format == eslMSAFILE_UNKNOWN` ⇒ `esl_msafile_GuessFileFormat` -/
def openFmt (fsel : FmtSel) (fname : Option Bytes) (lines : List Bytes) : Chk (Fmt × Nat) :=
  match fsel with
  | .decl f => .ok (f, 0)
  | .auto => guessFormat fname lines

/-- what `msafile_OpenBuffer` decides.  `fname` = `bf->filename` (`none` for memory and streams); `lines` = the lines of the
    input (what successive `esl_buffer_GetLine` calls return). -/
def openModel (fsel : FmtSel) (asel : AbcSel) (fname : Option Bytes) (lines : List Bytes) : OpenRes :=
  match openFmt fsel fname lines with
  | .fault => .fault
  | .fail => .enoformat
  | .ok (fmt, nw) => openAbc fmt nw asel lines

/-- `msafile_OpenBuffer` when the caller supplies an `ESL_MSAFILE_FMTDATA` with `namewidth = nw0` (`if (fmtd) esl_msafile_fmtdata_Copy(fmtd,
    &afp->fmtd)`): a declared format keeps it (only the PHYLIP readers and the PHYLIP alphabet guesser look at it); under
    autodetection `esl_msafile_GuessFileFormat` first re-initialises `afp->fmtd` (`esl_msafile_fmtdata_Init(opt_fmtd)`), so the
    caller's value is forgotten -/
def openModelW (nw0 : Nat) (fsel : FmtSel) (asel : AbcSel) (fname : Option Bytes) (lines : List Bytes) : OpenRes :=
  match fsel with
  | .decl f => openAbc f nw0 asel lines
  | .auto => openModel .auto asel fname lines

/-- the same on a byte string -/
def openBytes (fsel : FmtSel) (asel : AbcSel) (fname : Option Bytes) (src : Bytes) : OpenRes :=
  openModel fsel asel fname (splitLines src)

end EaselModel.Msafile
