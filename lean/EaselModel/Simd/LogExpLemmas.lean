import EaselModel.Generated.SimdLogExp
/-! Special-value behaviour of the translated `esl_sse_logf` / `esl_sse_expf` lane functions (C20, part B), for all 2^32
    bit patterns `x` and for ANY floating-point arithmetic `L` (the IEEE cleanup at the end of both functions is pure
    bit manipulation; whatever the polynomial part computed is overridden). -/
namespace EaselModel.Simd
open EaselModel.Simd.Gen

/-! ### bit facts on `UInt32` -/
theorem and_eq_mask_iff (n M : Nat) : n &&& M = M ↔ ∀ i, M.testBit i = true → n.testBit i = true := by
  constructor
  · intro h i hi
    have : (n &&& M).testBit i = M.testBit i := by rw [h]
    rw [Nat.testBit_and, hi] at this
    simpa using this
  · intro h
    apply Nat.eq_of_testBit_eq
    intro i
    rw [Nat.testBit_and]
    cases hM : M.testBit i
    · simp
    · simp [h i hM]

theorem sign_test (x : UInt32) : ((x &&& 0x80000000) == 0x80000000) = decide (2 ^ 31 ≤ x.toNat) := by
  have hx : x.toNat < 2 ^ 32 := x.toNat_lt
  rw [Bool.eq_iff_iff]
  simp only [beq_iff_eq, decide_eq_true_eq]
  rw [← UInt32.toNat_inj, UInt32.toNat_and]
  show x.toNat &&& 2 ^ 31 = 2 ^ 31 ↔ _
  rw [and_eq_mask_iff]
  constructor
  · intro h
    exact Nat.ge_two_pow_of_testBit (h 31 (by rw [Nat.testBit_two_pow]; simp))
  · intro h i hi
    rw [Nat.testBit_two_pow] at hi
    have : i = 31 := by simpa [eq_comm] using hi
    subst this
    rw [Nat.testBit_eq_decide_div_mod_eq]
    simp only [decide_eq_true_eq]
    omega

theorem exp_zero_test (x : UInt32) : ((x >>> 23) == 0) = decide (x.toNat < 2 ^ 23) := by
  rw [Bool.eq_iff_iff]
  simp only [beq_iff_eq, decide_eq_true_eq]
  rw [← UInt32.toNat_inj, UInt32.toNat_shiftRight]
  show x.toNat >>> 23 = 0 ↔ _
  rw [Nat.shiftRight_eq_div_pow]
  omega

theorem mask_7f8 (i : Nat) : (0x7f800000 : Nat).testBit i = decide (23 ≤ i ∧ i < 31) := by
  have : (0x7f800000 : Nat) = (2 ^ 8 - 1) <<< 23 := by decide
  rw [this, Nat.testBit_shiftLeft, Nat.testBit_two_pow_sub_one]
  by_cases h : 23 ≤ i
  · have e : (i - 23 < 8) = (i < 31) := by apply propext; omega
    simp [h, e]
  · have : ¬ i ≥ 23 := h
    simp [this]

theorem exp_ones_test (x : UInt32) : ((x &&& 0x7f800000) == 0x7f800000) = decide (x.toNat / 2 ^ 23 % 256 = 255) := by
  rw [Bool.eq_iff_iff]
  simp only [beq_iff_eq, decide_eq_true_eq]
  rw [← UInt32.toNat_inj, UInt32.toNat_and]
  show x.toNat &&& 0x7f800000 = 0x7f800000 ↔ _
  rw [and_eq_mask_iff]
  simp only [mask_7f8, decide_eq_true_eq]
  simp only [Nat.testBit_eq_decide_div_mod_eq, decide_eq_true_eq]
  constructor
  · intro h
    have h23 := h 23 (by omega); have h24 := h 24 (by omega); have h25 := h 25 (by omega); have h26 := h 26 (by omega)
    have h27 := h 27 (by omega); have h28 := h 28 (by omega); have h29 := h 29 (by omega); have h30 := h 30 (by omega)
    omega
  · intro h i hi
    have : i = 23 ∨ i = 24 ∨ i = 25 ∨ i = 26 ∨ i = 27 ∨ i = 28 ∨ i = 29 ∨ i = 30 := by omega
    rcases this with e | e | e | e | e | e | e | e <;> subst e <;> omega

theorem or_allOnes (r : UInt32) : (r ||| 0xFFFFFFFF) = 0xFFFFFFFF := by
  rw [← UInt32.toNat_inj, UInt32.toNat_or]
  show r.toNat ||| (2 ^ 32 - 1) = 2 ^ 32 - 1
  apply Nat.eq_of_testBit_eq
  intro i
  rw [Nat.testBit_or, Nat.testBit_two_pow_sub_one]
  by_cases h : i < 32
  · simp [h]
  · simp only [h, decide_false, Bool.or_false]
    exact Nat.testBit_lt_two_pow (Nat.lt_of_lt_of_le r.toNat_lt (Nat.pow_le_pow_right (by omega) (by omega)))

theorem or_zero32 (r : UInt32) : (r ||| 0) = r := by
  rw [← UInt32.toNat_inj, UInt32.toNat_or]; simp

theorem select_true (L : Lane32Ops) (a b : UInt32) : L.select_ps a b (mask32 true) = b := by
  have : ((0xFFFFFFFF : UInt32) >>> 31 == 1) = true := by decide
  simp [Lane32Ops.select_ps, mask32, this]
theorem select_false (L : Lane32Ops) (a b : UInt32) : L.select_ps a b (mask32 false) = a := by
  have : ((0 : UInt32) >>> 31 == 1) = false := by decide
  simp [Lane32Ops.select_ps, mask32, this]

/-! ### esl_sse_logf -/
macro "logf_masks" : tactic => `(tactic|
  (unfold esl_sse_logf_lane
   simp only [Lane32Ops.cmpeq_epi32, Lane32Ops.and32, Lane32Ops.srli_epi32, Lane32Ops.or32, sign_test, exp_ones_test,
     show (23 : Nat) < 32 from by decide, ↓reduceIte, show UInt32.ofNat 23 = 23 from rfl, exp_zero_test]))

/-- negative arguments, including -0, -inf and NaNs with the sign bit set, give the all-ones pattern (a NaN) -/
theorem logf_negative (L : Lane32Ops) (x : UInt32) (h : 2 ^ 31 ≤ x.toNat) : esl_sse_logf_lane L x = 0xFFFFFFFF := by
  logf_masks
  have h2 : ¬ x.toNat < 2 ^ 23 := by omega
  simp only [h, h2, decide_true, decide_false, select_false]
  exact or_allOnes _

/-- +0 and positive subnormals give -inf -/
theorem logf_zero_subnormal (L : Lane32Ops) (x : UInt32) (h : x.toNat < 2 ^ 23) : esl_sse_logf_lane L x = 0xff800000 := by
  logf_masks
  simp only [h, decide_true, select_true]

/-- +inf gives +inf and a positive NaN is passed through unchanged -/
theorem logf_inf_nan (L : Lane32Ops) (x : UInt32) (hs : x.toNat < 2 ^ 31) (he : x.toNat / 2 ^ 23 % 256 = 255) :
    esl_sse_logf_lane L x = x := by
  logf_masks
  have h1 : ¬ 2 ^ 31 ≤ x.toNat := by omega
  have h2 : ¬ x.toNat < 2 ^ 23 := by omega
  simp only [he, h1, h2, decide_true, decide_false, select_true, select_false, mask32]
  exact or_zero32 _

/-! ### esl_sse_expf -/
/-- the two range cut-offs of the source (`maxlogf`, `minlogf`) as the bit patterns the compiler gives them -/
def expf_maxlogf : UInt32 := esl_sse_expf_fconsts.getD 0 0
def expf_minlogf : UInt32 := esl_sse_expf_fconsts.getD 1 0

/-- `x <= minlogf` gives +0, whatever else holds -/
theorem expf_underflow (L : Lane32Ops) (x : UInt32) (h : L.le x expf_minlogf = true) : esl_sse_expf_lane L x = 0 := by
  simp only [expf_minlogf, esl_sse_expf_fconsts, List.getD_cons_zero, List.getD_cons_succ] at h
  unfold esl_sse_expf_lane
  simp only [Lane32Ops.cmple_ps, h, select_true]

/-- `x > maxlogf` (and not `<= minlogf`) gives +inf -/
theorem expf_overflow (L : Lane32Ops) (x : UInt32) (h : L.gt x expf_maxlogf = true) (h2 : L.le x expf_minlogf = false) :
    esl_sse_expf_lane L x = 0x7f800000 := by
  simp only [expf_minlogf, expf_maxlogf, esl_sse_expf_fconsts, List.getD_cons_zero, List.getD_cons_succ] at h h2
  unfold esl_sse_expf_lane
  simp only [Lane32Ops.cmple_ps, Lane32Ops.cmpgt_ps, h, h2, select_true, select_false]

/-- The cut-offs lie where the `2^k` construction needs them (function comment, J10/62-63): `maxlogf` in
    (126.5 ln 2, 128.5 ln 2) so that `k + 127 <= 255`, `|minlogf|` in (126.5 ln 2, 127.5 ln 2) so that `k + 127 >= 0`;
    `minlogf` is negative. Positive binary32 patterns are ordered as their values. -/
theorem expf_cutoffs_in_window :
    0x42af5dc3 ≤ expf_maxlogf.toNat ∧ expf_maxlogf.toNat ≤ 0x42b22000 ∧
    0xc2af5dc3 ≤ expf_minlogf.toNat ∧ expf_minlogf.toNat ≤ 0xc2b0c0a5 := by decide

/-- NaN in, NaN out: under NaN propagation of the arithmetic (IEEE-754), a NaN argument (which fails both range tests) gives a NaN -/
theorem expf_nan (L : Lane32Ops) (x : UInt32)
    (hsub : ∀ a b, isNaN32 a = true → isNaN32 (L.sub_ps a b) = true)
    (haddL : ∀ a b, isNaN32 a = true → isNaN32 (L.add_ps a b) = true)
    (haddR : ∀ a b, isNaN32 b = true → isNaN32 (L.add_ps a b) = true)
    (hmulL : ∀ a b, isNaN32 a = true → isNaN32 (L.mul_ps a b) = true)
    (hx : isNaN32 x = true) (hgt : L.gt x expf_maxlogf = false) (hle : L.le x expf_minlogf = false) :
    isNaN32 (esl_sse_expf_lane L x) = true := by
  simp only [expf_minlogf, expf_maxlogf, esl_sse_expf_fconsts, List.getD_cons_zero, List.getD_cons_succ] at hgt hle
  unfold esl_sse_expf_lane
  simp only [Lane32Ops.cmple_ps, Lane32Ops.cmpgt_ps, hgt, hle, select_false]
  apply hmulL; apply haddL; apply haddR; apply hsub; apply hsub; exact hx

end EaselModel.Simd
