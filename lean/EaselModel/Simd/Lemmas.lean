import EaselModel.Simd.Spec
import EaselModel.Generated.SimdHelpers
/-! Lemmas about the generated SIMD helpers (C20): each helper equals the scalar loop over its lanes, for every lane
    pattern.  Proof method: unfold the helper and the intrinsic table, evaluate the (concrete) lane indices, and close the
    remaining goal — an identity between `max`/`+` trees over the (arbitrary) lane values — by order/monoid algebra. -/
namespace EaselModel.Simd
open EaselModel.Simd.Gen EaselModel.Simd.Spec

/-! ### evaluation of lane reads -/
theorem lane_ofFn {α n} (f : Fin n → α) (z : α) (j : Nat) (h : j < n) : lane (Vector.ofFn f) z j = f ⟨j, h⟩ := by
  simp [lane, h]

theorem lane_zipWith {α n} (f : α → α → α) (a : Vector α n) (b : Vector α n) (z : α) (j : Nat) (h : j < n) :
    lane (Vector.zipWith f a b) z j = f (lane a z j) (lane b z j) := by
  simp [lane, h]

theorem lane_eq {α n} (a : Vector α n) (z : α) (j : Nat) (h : j < n) : lane a z j = a[j] := by
  simp [lane, h]

theorem umax_toNat {w} (a b : BitVec w) : (umax a b).toNat = max a.toNat b.toNat := by
  unfold umax; split <;> omega

theorem smax_toInt {w} (a b : BitVec w) : (smax a b).toInt = max a.toInt b.toInt := by
  unfold smax; split <;> omega

/-! ### one lane of each intrinsic (the intrinsic definitions themselves are never unfolded under a binder) -/
section lanes
variable {α : Type} {n : Nat}

theorem lane_bsrli (L B : Nat) (z : α) (a : Vector α n) (k j : Nat) (h : j < n) :
    lane (bsrli L B z a k) z j = if j % L + k / B < L then lane a z (j / L * L + j % L + k / B) else z := by
  simp [bsrli, lane_ofFn, h]
theorem lane_bslli (L B : Nat) (z : α) (a : Vector α n) (k j : Nat) (h : j < n) :
    lane (bslli L B z a k) z j = if k / B ≤ j % L then lane a z (j / L * L + j % L - k / B) else z := by
  simp [bslli, lane_ofFn, h]
theorem lane_shuffle32 (L : Nat) (z : α) (a : Vector α n) (imm j : Nat) (h : j < n) :
    lane (shuffle32 L z a imm) z j = lane a z (j / L * L + ((imm >>> (2 * (j % L / (L / 4)))) % 4) * (L / 4) + j % L % (L / 4)) := by
  simp [shuffle32, lane_ofFn, h]
theorem lane_shufflelo16 (L : Nat) (z : α) (a : Vector α n) (imm j : Nat) (h : j < n) :
    lane (shufflelo16 L z a imm) z j =
      if j % L / (L / 8) < 4 then lane a z (j / L * L + ((imm >>> (2 * (j % L / (L / 8)))) % 4) * (L / 8) + j % L % (L / 8))
      else lane a z j := by
  simp [shufflelo16, lane_ofFn, h]
theorem lane_shuffle_ps (L : Nat) (z : α) (a b : Vector α n) (imm j : Nat) (h : j < n) :
    lane (shuffle_ps L z a b imm) z j =
      if j % L / (L / 4) < 2 then lane a z (j / L * L + ((imm >>> (2 * (j % L / (L / 4)))) % 4) * (L / 4) + j % L % (L / 4))
      else lane b z (j / L * L + ((imm >>> (2 * (j % L / (L / 4)))) % 4) * (L / 4) + j % L % (L / 4)) := by
  simp [shuffle_ps, lane_ofFn, h]
theorem lane_srl_group (G : Nat) (z : α) (a : Vector α n) (s j : Nat) (h : j < n) :
    lane (srl_group G z a s) z j = if j % G + s < G then lane a z (j / G * G + j % G + s) else z := by
  simp [srl_group, lane_ofFn, h]
theorem lane_permute2x128 (L : Nat) (z : α) (a b : Vector α n) (imm j : Nat) (h : j < n) :
    lane (permute2x128 L z a b imm) z j =
      if (imm >>> (4 * (j / L))) % 16 / 8 % 2 = 1 then z
      else if (imm >>> (4 * (j / L))) % 16 % 4 = 0 then lane a z (j % L)
      else if (imm >>> (4 * (j / L))) % 16 % 4 = 1 then lane a z (L + j % L)
      else if (imm >>> (4 * (j / L))) % 16 % 4 = 2 then lane b z (j % L)
      else lane b z (L + j % L) := by
  unfold permute2x128; rw [lane_ofFn _ _ _ h]
theorem lane_alignr (L B : Nat) (z : α) (a b : Vector α n) (k j : Nat) (h : j < n) :
    lane (alignr L B z a b k) z j =
      if j % L + k / B < L then lane b z (j / L * L + (j % L + k / B))
      else if j % L + k / B < 2 * L then lane a z (j / L * L + (j % L + k / B) - L)
      else z := by
  simp [alignr, lane_ofFn, h]
theorem lane_move_ss (G : Nat) (z : α) (a b : Vector α n) (j : Nat) (h : j < n) :
    lane (move_ss G z a b) z j = if j < G then lane b z j else lane a z j := by
  simp [move_ss, lane_ofFn, h]
theorem lane_shuffle_x4 (L : Nat) (z : α) (a b : Vector α n) (imm j : Nat) (h : j < n) :
    lane (shuffle_x4 L z a b imm) z j =
      if j / L < 2 then lane a z (((imm >>> (2 * (j / L))) % 4) * L + j % L)
      else lane b z (((imm >>> (2 * (j / L))) % 4) * L + j % L) := by
  simp [shuffle_x4, lane_ofFn, h]
theorem lane_maskz_shuffle_x4 (L : Nat) (z : α) (k : Nat) (a b : Vector α n) (imm j : Nat) (h : j < n) :
    lane (maskz_shuffle_x4 L z k a b imm) z j =
      if (k >>> (j / (L / 4))) % 2 = 1 then lane (shuffle_x4 L z a b imm) z j else z := by
  simp [maskz_shuffle_x4, lane_ofFn, h]
theorem lane_extract_half {m : Nat} (z : α) (a : Vector α n) (idx j : Nat) (h : j < m) :
    lane (extract_half (m := m) z a idx) z j = lane a z (idx * m + j) := by
  simp [extract_half, lane_ofFn, h]
theorem lane_blendv_ps (O : F32Ops α) (a b mask : Vector α n) (j : Nat) (h : j < n) :
    lane (blendv_ps O a b mask) O.zero j = if O.msb (lane mask O.zero j) then lane b O.zero j else lane a O.zero j := by
  simp [blendv_ps, lane_ofFn, h]
end lanes

/-- evaluate lane reads through the intrinsics (all lane indices are concrete) -/
macro "simd_unfold" : tactic => `(tactic|
  simp (maxSteps := 2000000) (disch := omega) only [extract, max_epu, max_epi, or_si, add_ps, max_ps, min_ps, cmpgt_ps,
    lane_bsrli, lane_bslli, lane_shuffle32, lane_shufflelo16,
    lane_shuffle_ps, lane_srl_group, lane_permute2x128, lane_alignr, lane_move_ss, lane_shuffle_x4, lane_maskz_shuffle_x4,
    lane_extract_half, lane_blendv_ps, lane_zipWith, umax_toNat, smax_toInt,
    Nat.reduceLT, Nat.reduceAdd, Nat.reduceSub, Nat.reduceDiv, Nat.reduceMod, Nat.reduceMul, Nat.reduceShiftRight, Nat.reduceEqDiff,
    Nat.reduceLeDiff, ↓reduceIte, Nat.lt_irrefl, Nat.zero_add, Nat.add_zero, Nat.zero_mul, Nat.mul_zero, Nat.one_mul])

/-- close `maxtree₁ = maxtree₂` over a linear order: both are ≤ each other, leaf by leaf -/
macro "max_tree_nat" : tactic => `(tactic|
  (apply Nat.le_antisymm <;> simp only [Nat.max_le] <;>
    simp only [Std.le_max, Nat.le_refl, true_or, or_true, and_self, Nat.zero_le]))
macro "max_tree_int" : tactic => `(tactic|
  (apply Int.le_antisymm <;> simp only [Int.max_le] <;>
    simp only [Std.le_max, Int.le_refl, true_or, or_true, and_self]))

macro "fold_unfold" : tactic => `(tactic|
  simp only [List.ofFn, Fin.foldr, Fin.foldr.loop, List.foldl, Fin.getElem_fin, Nat.reduceSub, Nat.reducePow])

theorem max_init8 (x : BitVec 8) : max (-((128 : Nat) : Int)) x.toInt = x.toInt := by
  have := BitVec.le_toInt x
  have h2 : (2:Int)^(8-1) = 128 := by decide
  omega
theorem max_init16 (x : BitVec 16) : max (-((32768 : Nat) : Int)) x.toInt = x.toInt := by
  have := BitVec.le_toInt x
  have h2 : (2:Int)^(16-1) = 32768 := by decide
  omega

macro "hmax_u" : tactic => `(tactic|
  (simd_unfold; simp (disch := omega) only [lane_eq]; fold_unfold; max_tree_nat))
macro "hmax_s" : tactic => `(tactic|
  (simd_unfold; simp (disch := omega) only [lane_eq]; fold_unfold; simp only [max_init8, max_init16]; max_tree_int))

/-! ### horizontal maxima: every instruction set, every lane pattern -/
theorem sse_hmax_epu8 (a : Vector (BitVec 8) 16) : (esl_sse_hmax_epu8 a).toNat = hmaxU a := by
  unfold esl_sse_hmax_epu8 hmaxU; hmax_u
theorem sse_hmax_epi8 (a : Vector (BitVec 8) 16) : (esl_sse_hmax_epi8 a).toInt = hmaxS a := by
  unfold esl_sse_hmax_epi8 hmaxS; hmax_s
theorem sse_hmax_epi16 (a : Vector (BitVec 16) 8) : (esl_sse_hmax_epi16 a).toInt = hmaxS a := by
  unfold esl_sse_hmax_epi16 hmaxS; hmax_s
theorem avx_hmax_epu8 (a : Vector (BitVec 8) 32) : (esl_avx_hmax_epu8 a).toNat = hmaxU a := by
  unfold esl_avx_hmax_epu8 hmaxU; hmax_u
theorem avx_hmax_epi8 (a : Vector (BitVec 8) 32) : (esl_avx_hmax_epi8 a).toInt = hmaxS a := by
  unfold esl_avx_hmax_epi8 hmaxS; hmax_s
theorem avx_hmax_epi16 (a : Vector (BitVec 16) 16) : (esl_avx_hmax_epi16 a).toInt = hmaxS a := by
  unfold esl_avx_hmax_epi16 hmaxS; hmax_s
theorem avx512_hmax_epu8 (a : Vector (BitVec 8) 64) : (esl_avx512_hmax_epu8 a).toNat = hmaxU a := by
  unfold esl_avx512_hmax_epu8 hmaxU; hmax_u
theorem avx512_hmax_epi8 (a : Vector (BitVec 8) 64) : (esl_avx512_hmax_epi8 a).toInt = hmaxS a := by
  unfold esl_avx512_hmax_epi8 hmaxS; hmax_s
theorem avx512_hmax_epi16 (a : Vector (BitVec 16) 32) : (esl_avx512_hmax_epi16 a).toInt = hmaxS a := by
  unfold esl_avx512_hmax_epi16 hmaxS; hmax_s

/-! ### the scalar-loop maximum is the maximum -/
theorem foldl_max_nat (l : List Nat) (b : Nat) :
    (∀ x ∈ l, x ≤ l.foldl max b) ∧ b ≤ l.foldl max b ∧ (l.foldl max b = b ∨ l.foldl max b ∈ l) := by
  induction l generalizing b with
  | nil => simp
  | cons x xs ih =>
    obtain ⟨h1, h2, h3⟩ := ih (max b x)
    simp only [List.foldl_cons]
    refine ⟨?_, by omega, ?_⟩
    · intro y hy
      rcases List.mem_cons.mp hy with e | e
      · subst e; omega
      · exact h1 y e
    · rcases h3 with h3 | h3
      · rcases Nat.le_total b x with hb | hb
        · right; rw [h3, Nat.max_eq_right hb]; exact List.mem_cons_self
        · left; rw [h3, Nat.max_eq_left hb]
      · right; exact List.mem_cons_of_mem _ h3

/-- the scalar-loop value `hmaxU a` bounds every lane and (for a non-empty register) is one of the lanes -/
theorem hmaxU_spec {w n : Nat} (a : Vector (BitVec w) n) :
    (∀ i : Fin n, a[i].toNat ≤ hmaxU a) ∧ (0 < n → ∃ i : Fin n, hmaxU a = a[i].toNat) := by
  unfold hmaxU
  obtain ⟨h1, _, h3⟩ := foldl_max_nat (List.ofFn fun i : Fin n => a[i].toNat) 0
  constructor
  · intro i; exact h1 _ (by simp [List.mem_ofFn])
  · intro hn
    rcases h3 with h3 | h3
    · refine ⟨⟨0, hn⟩, ?_⟩
      have := h1 (a[(⟨0, hn⟩ : Fin n)].toNat) (by simp only [List.mem_ofFn]; exact ⟨⟨0, hn⟩, rfl⟩)
      omega
    · simp only [List.mem_ofFn] at h3
      obtain ⟨i, hi⟩ := h3
      exact ⟨i, hi.symm⟩

theorem foldl_max_int (l : List Int) (b : Int) :
    (∀ x ∈ l, x ≤ l.foldl max b) ∧ b ≤ l.foldl max b ∧ (l.foldl max b = b ∨ l.foldl max b ∈ l) := by
  induction l generalizing b with
  | nil => simp
  | cons x xs ih =>
    obtain ⟨h1, h2, h3⟩ := ih (max b x)
    simp only [List.foldl_cons]
    refine ⟨?_, by omega, ?_⟩
    · intro y hy
      rcases List.mem_cons.mp hy with e | e
      · subst e; omega
      · exact h1 y e
    · rcases h3 with h3 | h3
      · rcases Int.le_total b x with hb | hb
        · right; rw [h3, Int.max_eq_right hb]; exact List.mem_cons_self
        · left; rw [h3, Int.max_eq_left hb]
      · right; exact List.mem_cons_of_mem _ h3

/-- signed version -/
theorem hmaxS_spec {w n : Nat} (a : Vector (BitVec w) n) :
    (∀ i : Fin n, a[i].toInt ≤ hmaxS a) ∧ (0 < n → ∃ i : Fin n, hmaxS a = a[i].toInt) := by
  unfold hmaxS
  obtain ⟨h1, _, h3⟩ := foldl_max_int (List.ofFn fun i : Fin n => a[i].toInt) (-(2 ^ (w - 1) : Nat))
  constructor
  · intro i; exact h1 _ (by simp [List.mem_ofFn])
  · intro hn
    rcases h3 with h3 | h3
    · refine ⟨⟨0, hn⟩, ?_⟩
      have := h1 (a[(⟨0, hn⟩ : Fin n)].toInt) (by simp only [List.mem_ofFn]; exact ⟨⟨0, hn⟩, rfl⟩)
      have hb := BitVec.le_toInt a[(⟨0, hn⟩ : Fin n)]
      rw [h3] at this ⊢
      have e : ((2 ^ (w - 1) : Nat) : Int) = 2 ^ (w - 1) := by push_cast; rfl
      omega
    · simp only [List.mem_ofFn] at h3
      obtain ⟨i, hi⟩ := h3
      exact ⟨i, hi.symm⟩

/-! ### shifts and select: lane-wise identities, every lane index enumerated (indices only), lane values arbitrary -/
theorem ext_lane {α n} (z : α) (a b : Vector α n) (h : ∀ j, j < n → lane a z j = lane b z j) : a = b := by
  apply Vector.ext; intro i hi
  have := h i hi
  simpa [lane, hi] using this

macro "all_lanes" : tactic => `(tactic|
  (simp only [Nat.forall_lt_succ_right, Nat.not_lt_zero, false_imp_iff, implies_true, true_and]
   simd_unfold
   simp (disch := omega) [lane_ofFn]
   try simp (disch := omega) [lane_eq]))

theorem sse_rightshift_int8 (a m : Vector (BitVec 8) 16) : esl_sse_rightshift_int8 a m = or_si (shiftRight 0 a) m := by
  apply ext_lane 0; unfold esl_sse_rightshift_int8 shiftRight; all_lanes
theorem sse_rightshift_int16 (a m : Vector (BitVec 16) 8) : esl_sse_rightshift_int16 a m = or_si (shiftRight 0 a) m := by
  apply ext_lane 0; unfold esl_sse_rightshift_int16 shiftRight; all_lanes
theorem avx_rightshift_int8 (a m : Vector (BitVec 8) 32) : esl_avx_rightshift_int8 a m = or_si (shiftRight 0 a) m := by
  apply ext_lane 0; unfold esl_avx_rightshift_int8 shiftRight; all_lanes
theorem avx_rightshift_int16 (a m : Vector (BitVec 16) 16) : esl_avx_rightshift_int16 a m = or_si (shiftRight 0 a) m := by
  apply ext_lane 0; unfold esl_avx_rightshift_int16 shiftRight; all_lanes
theorem avx512_rightshift_int8 (a m : Vector (BitVec 8) 64) : esl_avx512_rightshift_int8 a m = or_si (shiftRight 0 a) m := by
  apply ext_lane 0; unfold esl_avx512_rightshift_int8 shiftRight; all_lanes
theorem avx512_rightshift_int16 (a m : Vector (BitVec 16) 32) : esl_avx512_rightshift_int16 a m = or_si (shiftRight 0 a) m := by
  apply ext_lane 0; unfold esl_avx512_rightshift_int16 shiftRight; all_lanes

/-- OR-ing the mask `{ fill, 0, …, 0 }` onto a zero-filled right shift is the right shift that fills with `fill`
    (the documented use: `fill` = the lane encoding of -infinity) -/
theorem rightshift_fill {w n : Nat} (a : Vector (BitVec w) n) (fill : BitVec w) :
    or_si (shiftRight 0 a) (Vector.ofFn fun i => if i.val = 0 then fill else 0) = shiftRight fill a := by
  apply ext_lane 0
  intro j hj
  unfold or_si shiftRight
  rw [lane_zipWith _ _ _ _ _ hj, lane_ofFn _ _ _ hj, lane_ofFn _ _ _ hj, lane_ofFn _ _ _ hj]
  by_cases h : j = 0
  · simp [h]
  · have hj' : j - 1 < n := by omega
    simp [h, lane, hj']

section floats
variable {α : Type} (O : F32Ops α)

theorem sse_rightshiftz_float (a : Vector α 4) : esl_sse_rightshiftz_float O a = shiftRight O.zero a := by
  apply ext_lane O.zero; unfold esl_sse_rightshiftz_float shiftRight; all_lanes
theorem sse_leftshiftz_float (a : Vector α 4) : esl_sse_leftshiftz_float O a = shiftLeft O.zero a := by
  apply ext_lane O.zero; unfold esl_sse_leftshiftz_float shiftLeft; all_lanes
theorem avx_rightshiftz_float (a : Vector α 8) : esl_avx_rightshiftz_float O a = shiftRight O.zero a := by
  apply ext_lane O.zero; unfold esl_avx_rightshiftz_float shiftRight; all_lanes
theorem avx_leftshiftz_float (a : Vector α 8) : esl_avx_leftshiftz_float O a = shiftLeft O.zero a := by
  apply ext_lane O.zero; unfold esl_avx_leftshiftz_float shiftLeft; all_lanes
theorem avx512_rightshiftz_float (a : Vector α 16) : esl_avx512_rightshiftz_float O a = shiftRight O.zero a := by
  apply ext_lane O.zero; unfold esl_avx512_rightshiftz_float shiftRight; all_lanes
theorem avx512_leftshiftz_float (a : Vector α 16) : esl_avx512_leftshiftz_float O a = shiftLeft O.zero a := by
  apply ext_lane O.zero; unfold esl_avx512_leftshiftz_float shiftLeft; all_lanes

/-- `{ b[0] a[0] a[1] a[2] }` -/
theorem sse_rightshift_ps (a b : Vector α 4) : esl_sse_rightshift_ps O a b = shiftRight (lane b O.zero 0) a := by
  apply ext_lane O.zero; unfold esl_sse_rightshift_ps shiftRight; all_lanes
/-- `{ a[1] a[2] a[3] b[0] }` -/
theorem sse_leftshift_ps (a b : Vector α 4) : esl_sse_leftshift_ps O a b = shiftLeft (lane b O.zero 0) a := by
  apply ext_lane O.zero; unfold esl_sse_leftshift_ps shiftLeft; all_lanes

/-- `r[z] = b[z]` where the mask lane has its sign bit set (in particular where it is all ones), `a[z]` where clear (all zeros) -/
theorem sse_select_ps (a b mask : Vector α 4) :
    esl_sse_select_ps O a b mask = select O.zero (fun z => O.msb (lane mask O.zero z)) a b := by
  apply ext_lane O.zero; unfold esl_sse_select_ps select; all_lanes

end floats

section ac
variable {α : Type} (O : F32Ops α)

macro "hfold" : tactic => `(tactic|
  (simd_unfold; simp (disch := omega) only [lane_eq]; fold_unfold))

/-- for an associative, commutative `add` (e.g. exact real addition) the shuffle tree is the scalar loop `((a0+a1)+a2)+…` -/
theorem sse_hsum_ps (hc : ∀ x y, O.add x y = O.add y x) (ha : ∀ x y z, O.add (O.add x y) z = O.add x (O.add y z)) (a : Vector α 4) :
    esl_sse_hsum_ps O a = foldLanes O.add O.zero a := by
  unfold esl_sse_hsum_ps foldLanes; hfold
  have : Std.Associative O.add := ⟨ha⟩
  have : Std.Commutative O.add := ⟨hc⟩
  ac_rfl
theorem avx_hsum_ps (hc : ∀ x y, O.add x y = O.add y x) (ha : ∀ x y z, O.add (O.add x y) z = O.add x (O.add y z)) (a : Vector α 8) :
    esl_avx_hsum_ps O a = foldLanes O.add O.zero a := by
  unfold esl_avx_hsum_ps foldLanes; hfold
  have : Std.Associative O.add := ⟨ha⟩
  have : Std.Commutative O.add := ⟨hc⟩
  ac_rfl
theorem avx512_hsum_ps (hc : ∀ x y, O.add x y = O.add y x) (ha : ∀ x y z, O.add (O.add x y) z = O.add x (O.add y z)) (a : Vector α 16) :
    esl_avx512_hsum_ps O a = foldLanes O.add O.zero a := by
  unfold esl_avx512_hsum_ps foldLanes; hfold
  have : Std.Associative O.add := ⟨ha⟩
  have : Std.Commutative O.add := ⟨hc⟩
  ac_rfl
/-- for an associative, commutative `max` (a linear order without NaN) `hmax_ps` is the scalar loop -/
theorem sse_hmax_ps (hc : ∀ x y, O.max x y = O.max y x) (ha : ∀ x y z, O.max (O.max x y) z = O.max x (O.max y z)) (a : Vector α 4) :
    esl_sse_hmax_ps O a = foldLanes O.max O.zero a := by
  unfold esl_sse_hmax_ps foldLanes; hfold
  have : Std.Associative O.max := ⟨ha⟩
  have : Std.Commutative O.max := ⟨hc⟩
  ac_rfl
theorem sse_hmin_ps (hc : ∀ x y, O.min x y = O.min y x) (ha : ∀ x y z, O.min (O.min x y) z = O.min x (O.min y z)) (a : Vector α 4) :
    esl_sse_hmin_ps O a = foldLanes O.min O.zero a := by
  unfold esl_sse_hmin_ps foldLanes; hfold
  have : Std.Associative O.min := ⟨ha⟩
  have : Std.Commutative O.min := ⟨hc⟩
  ac_rfl

end ac

/-! ### any_gt: the movemask test is an existential over the lanes -/
theorem one_shl_ne_zero (k : Nat) : (1 <<< k) ≠ 0 := by
  rw [Nat.one_shiftLeft]; exact Nat.ne_of_gt (Nat.two_pow_pos k)

theorem or_bits_ne_zero {ι} (l : List ι) (p : ι → Bool) (f : ι → Nat) (acc : Nat) :
    (l.foldl (fun acc i => if p i then acc ||| (1 <<< f i) else acc) acc ≠ 0) ↔ (acc ≠ 0 ∨ ∃ i ∈ l, p i = true) := by
  induction l generalizing acc with
  | nil => simp
  | cons x xs ih =>
    simp only [List.foldl_cons, ih, List.mem_cons, exists_eq_or_imp]
    by_cases hp : p x = true
    · simp only [hp, ↓reduceIte, true_or, or_true, iff_true]
      left
      intro h
      have := (Nat.or_eq_zero_iff.mp h).2
      exact one_shl_ne_zero _ this
    · simp [hp]

theorem movemask_epi8_ne_zero {w n : Nat} (B : Nat) (a : Vector (BitVec w) n) :
    movemask_epi8 B a ≠ 0 ↔ ∃ i, i < n ∧ ∃ t, t < B ∧ (lane a 0 i).getLsbD (8 * t + 7) = true := by
  unfold movemask_epi8
  have inner : ∀ (i : Nat) (acc : Nat),
      ((List.range B).foldl (fun acc t => if (lane a 0 i).getLsbD (8 * t + 7) then acc ||| (1 <<< (i * B + t)) else acc) acc ≠ 0)
        ↔ (acc ≠ 0 ∨ ∃ t, t < B ∧ (lane a 0 i).getLsbD (8 * t + 7) = true) := by
    intro i acc
    rw [or_bits_ne_zero (List.range B) (fun t => (lane a 0 i).getLsbD (8 * t + 7)) (fun t => i * B + t) acc]
    simp [List.mem_range]
  have outer : ∀ (l : List Nat) (acc : Nat),
      (l.foldl (fun acc i => (List.range B).foldl (fun acc t => if (lane a 0 i).getLsbD (8 * t + 7) then acc ||| (1 <<< (i * B + t)) else acc) acc) acc ≠ 0)
        ↔ (acc ≠ 0 ∨ ∃ i ∈ l, ∃ t, t < B ∧ (lane a 0 i).getLsbD (8 * t + 7) = true) := by
    intro l
    induction l with
    | nil => simp
    | cons x xs ih =>
      intro acc
      simp only [List.foldl_cons, ih, inner, List.mem_cons, exists_eq_or_imp]
      constructor
      · rintro ((h | h) | h)
        · exact Or.inl h
        · exact Or.inr (Or.inl h)
        · exact Or.inr (Or.inr h)
      · rintro (h | h | h)
        · exact Or.inl (Or.inl h)
        · exact Or.inl (Or.inr h)
        · exact Or.inr h
  rw [outer]
  simp [List.mem_range]

theorem movemask_ps_ne_zero {α : Type} {n : Nat} (O : F32Ops α) (a : Vector α n) :
    movemask_ps O a ≠ 0 ↔ ∃ i, i < n ∧ O.msb (lane a O.zero i) = true := by
  unfold movemask_ps
  rw [or_bits_ne_zero (List.range n) (fun i => O.msb (lane a O.zero i)) (fun i => i) 0]
  simp [List.mem_range]

theorem getLsbD_maskOf {w : Nat} (c : Bool) (i : Nat) (h : i < w) : (maskOf c : BitVec w).getLsbD i = c := by
  unfold maskOf; cases c <;> simp [h]


macro "any_gt_s" : tactic => `(tactic|
  (rw [Bool.eq_iff_iff]
   simp only [decide_eq_true_eq, movemask_epi8_ne_zero, List.any_eq_true, List.mem_range]
   constructor
   · rintro ⟨i, hi, t, ht, h⟩
     refine ⟨i, hi, ?_⟩
     rw [cmpgt_epi, lane_zipWith _ _ _ _ _ hi, getLsbD_maskOf _ _ (by omega)] at h
     simpa using h
   · rintro ⟨i, hi, h⟩
     refine ⟨i, hi, 0, by omega, ?_⟩
     rw [cmpgt_epi, lane_zipWith _ _ _ _ _ hi, getLsbD_maskOf _ _ (by omega)]
     simpa using h))

theorem sse_any_gt_epi16 (a b : Vector (BitVec 16) 8) : esl_sse_any_gt_epi16 a b = anyGtS a b := by
  unfold esl_sse_any_gt_epi16 anyGtS; any_gt_s
theorem avx_any_gt_epi16 (a b : Vector (BitVec 16) 16) : esl_avx_any_gt_epi16 a b = anyGtS a b := by
  unfold esl_avx_any_gt_epi16 anyGtS; any_gt_s

/-- lane of the inverted `max(a,b) == b` mask used by `any_gt_epu8` (there is no unsigned compare instruction) -/
theorem epu8_mask_bit (x y : BitVec 8) :
    ((maskOf (umax x y == y) : BitVec 8) ^^^ maskOf (maskOf (umax x y == y) == (maskOf (umax x y == y) : BitVec 8))).getLsbD 7
      = decide (y.toNat < x.toNat) := by
  have h1 : (maskOf ((maskOf (umax x y == y) : BitVec 8) == maskOf (umax x y == y)) : BitVec 8) = maskOf true := by simp
  rw [h1, BitVec.getLsbD_xor, getLsbD_maskOf _ _ (by omega), getLsbD_maskOf _ _ (by omega)]
  unfold umax
  by_cases h : x.toNat < y.toNat
  · simp [h]; omega
  · simp only [h, ↓reduceIte]
    by_cases h2 : x = y
    · subst h2; simp
    · have : x.toNat ≠ y.toNat := fun e => h2 (BitVec.eq_of_toNat_eq e)
      have h3 : y.toNat < x.toNat := by omega
      simp [h2, h3]

theorem sse_any_gt_epu8 (a b : Vector (BitVec 8) 16) : esl_sse_any_gt_epu8 a b = anyGtU a b := by
  unfold esl_sse_any_gt_epu8 anyGtU
  rw [Bool.eq_iff_iff]
  simp only [decide_eq_true_eq, movemask_epi8_ne_zero, List.any_eq_true, List.mem_range]
  have key : ∀ i, i < 16 → (lane (xor_si (cmpeq_epi (max_epu a b) b) (cmpeq_epi (cmpeq_epi (max_epu a b) b) (cmpeq_epi (max_epu a b) b))) 0 i).getLsbD 7
      = decide ((lane b 0 i).toNat < (lane a 0 i).toNat) := by
    intro i hi
    simp only [xor_si, cmpeq_epi, max_epu, lane_zipWith _ _ _ _ _ hi]
    exact epu8_mask_bit _ _
  constructor
  · rintro ⟨i, hi, t, ht, h⟩
    have ht0 : t = 0 := by omega
    subst ht0
    refine ⟨i, hi, ?_⟩
    rw [key i hi] at h; simpa using h
  · rintro ⟨i, hi, h⟩
    refine ⟨i, hi, 0, by omega, ?_⟩
    rw [key i hi]; simpa using h

theorem sse_any_gt_ps {α : Type} (O : F32Ops α) (h1 : O.msb O.ones = true) (h0 : O.msb O.zero = false) (a b : Vector α 4) :
    esl_sse_any_gt_ps O a b = anyGtF O a b := by
  unfold esl_sse_any_gt_ps anyGtF
  rw [Bool.eq_iff_iff]
  simp only [decide_eq_true_eq, movemask_ps_ne_zero, List.any_eq_true, List.mem_range]
  have key : ∀ i, i < 4 → O.msb (lane (cmpgt_ps O a b) O.zero i) = O.gt (lane a O.zero i) (lane b O.zero i) := by
    intro i hi
    rw [cmpgt_ps, lane_zipWith _ _ _ _ _ hi]
    cases O.gt (lane a O.zero i) (lane b O.zero i) <;> simp [h1, h0]
  constructor
  · rintro ⟨i, hi, h⟩; exact ⟨i, hi, by rw [← key i hi]; exact h⟩
  · rintro ⟨i, hi, h⟩; exact ⟨i, hi, by rw [key i hi]; exact h⟩

end EaselModel.Simd
