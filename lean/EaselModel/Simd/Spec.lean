import EaselModel.Simd.Intrinsics
/-! Scalar-loop specifications of the SIMD helpers (C20): what "the result of the scalar loop over the lanes" means. Core only. -/
namespace EaselModel.Simd.Spec
open EaselModel.Simd

/-- `m = 0; for z: if (a[z] > m) m = a[z];` on unsigned lanes -/
def hmaxU {w n : Nat} (a : Vector (BitVec w) n) : Nat := (List.ofFn fun i : Fin n => a[i].toNat).foldl max 0

/-- `m = INT_MIN; for z: if (a[z] > m) m = a[z];` on signed (two's complement) lanes -/
def hmaxS {w n : Nat} (a : Vector (BitVec w) n) : Int := (List.ofFn fun i : Fin n => a[i].toInt).foldl max (-(2 ^ (w - 1) : Nat))

/-- `for z: if (a[z] > b[z]) return TRUE; return FALSE;` unsigned -/
def anyGtU {w n : Nat} (a b : Vector (BitVec w) n) : Bool := (List.range n).any fun z => decide ((lane b 0 z).toNat < (lane a 0 z).toNat)
/-- signed -/
def anyGtS {w n : Nat} (a b : Vector (BitVec w) n) : Bool := (List.range n).any fun z => decide ((lane b 0 z).toInt < (lane a 0 z).toInt)
/-- float lanes, with the ordered `>` of the operation record -/
def anyGtF {α : Type} {n : Nat} (O : F32Ops α) (a b : Vector α n) : Bool := (List.range n).any fun z => O.gt (lane a O.zero z) (lane b O.zero z)

/-- shift toward higher lane numbers by one lane ("right" in the library's memory-order convention), filling lane 0 with `fill` -/
def shiftRight {α : Type} {n : Nat} (fill : α) (a : Vector α n) : Vector α n :=
  Vector.ofFn fun i => if i.val = 0 then fill else lane a fill (i.val - 1)
/-- shift toward lane 0 by one lane, filling the last lane with `fill` -/
def shiftLeft {α : Type} {n : Nat} (fill : α) (a : Vector α n) : Vector α n :=
  Vector.ofFn fun i => if i.val + 1 = n then fill else lane a fill (i.val + 1)

/-- lane-wise select: `b[z]` where `pick z`, else `a[z]` -/
def select {α : Type} {n : Nat} (z0 : α) (pick : Nat → Bool) (a b : Vector α n) : Vector α n :=
  Vector.ofFn fun i => if pick i.val then lane b z0 i.val else lane a z0 i.val

/-- left-to-right fold of a binary operation over all lanes starting from lane 0 (n ≥ 1) -/
def foldLanes {α : Type} {n : Nat} (op : α → α → α) (z : α) (a : Vector α n) : α :=
  match List.ofFn fun i : Fin n => a[i] with
  | [] => z
  | x :: xs => xs.foldl op x

end EaselModel.Simd.Spec
