import EaselModel.Simd.Lemmas
import Mathlib.Data.Real.Basic
import Mathlib.Algebra.BigOperators.Group.List.Basic
import Mathlib.Tactic.Ring
/-! The float reductions with the lanes read as real numbers (exact arithmetic, NaN-free order): the readable corollaries of the
    operation-generic theorems of `Simd/Lemmas.lean` (C20, part A). -/
namespace EaselModel.Simd
open EaselModel.Simd.Gen EaselModel.Simd.Spec

/-- float lanes read as real numbers with exact addition -/
noncomputable def realOps : F32Ops ℝ :=
  { add := (· + ·), max := max, min := min, gt := fun a b => decide (b < a), zero := 0, ones := 0, msb := fun a => decide (a < 0) }

theorem foldLanes_add_real {n : Nat} (a : Vector ℝ n) : foldLanes realOps.add realOps.zero a = (List.ofFn fun i : Fin n => a[i]).sum := by
  unfold foldLanes
  cases h : (List.ofFn fun i : Fin n => a[i]) with
  | nil => simp [realOps]
  | cons x xs =>
    simp only [List.sum_cons]
    have : ∀ (l : List ℝ) (s : ℝ), l.foldl realOps.add s = s + l.sum := by
      intro l; induction l with
      | nil => simp
      | cons y ys ih => intro s; rw [List.foldl_cons, ih, List.sum_cons]; simp only [realOps]; ring
    exact this xs x

theorem sse_hsum_ps_real (a : Vector ℝ 4) : esl_sse_hsum_ps realOps a = (List.ofFn fun i : Fin 4 => a[i]).sum := by
  rw [sse_hsum_ps realOps (fun x y => add_comm x y) (fun x y z => add_assoc x y z), foldLanes_add_real]
theorem avx_hsum_ps_real (a : Vector ℝ 8) : esl_avx_hsum_ps realOps a = (List.ofFn fun i : Fin 8 => a[i]).sum := by
  rw [avx_hsum_ps realOps (fun x y => add_comm x y) (fun x y z => add_assoc x y z), foldLanes_add_real]
theorem avx512_hsum_ps_real (a : Vector ℝ 16) : esl_avx512_hsum_ps realOps a = (List.ofFn fun i : Fin 16 => a[i]).sum := by
  rw [avx512_hsum_ps realOps (fun x y => add_comm x y) (fun x y z => add_assoc x y z), foldLanes_add_real]

/-- on a NaN-free linear order `hmax_ps`/`hmin_ps` are the maximum / minimum of the four lanes -/
theorem sse_hmax_ps_real (a : Vector ℝ 4) : esl_sse_hmax_ps realOps a = max (max (max a[0] a[1]) a[2]) a[3] := by
  rw [sse_hmax_ps realOps (fun x y => max_comm x y) (fun x y z => max_assoc x y z)]
  simp [foldLanes, List.ofFn, Fin.foldr, Fin.foldr.loop, realOps]
  try rfl
theorem sse_hmin_ps_real (a : Vector ℝ 4) : esl_sse_hmin_ps realOps a = min (min (min a[0] a[1]) a[2]) a[3] := by
  rw [sse_hmin_ps realOps (fun x y => min_comm x y) (fun x y z => min_assoc x y z)]
  simp [foldLanes, List.ofFn, Fin.foldr, Fin.foldr.loop, realOps]
  try rfl

end EaselModel.Simd
