/-! # Semantics table of the x86 SIMD intrinsics used by esl_sse.h / esl_avx.h / esl_avx512.h   (C20)

Trusted, reviewed table (DESIGN §4): every definition below is the lane-level meaning of one intrinsic, written
against Intel's pseudo-code, and is validated on every run by executing the real intrinsic in C (harness op
`intr`) against this definition on boundary and random operands, at every lane view in which it is used.

A register is a `Vector α n` of lanes, lowest-addressed lane first.  Integer lanes are `BitVec W`; float lanes are an
abstract `α` together with an operation record `F32Ops α` (instantiated by IEEE-754 binary32 bit patterns in the
driver, by an arbitrary ordered type / commutative monoid in the theorems).  `L` is always the number of lanes in
one 128-bit block (16, 8 or 4 for 8-, 16-, 32-bit lanes); AVX2/AVX-512 byte shifts and shuffles act per block.
Data-movement intrinsics are polymorphic in the lane type and take the fill value `z` (zero) explicitly; their
byte/bit counts are converted to lane counts with `B` = bytes per lane (the translator checks divisibility, so a
move never splits a lane).  Core Lean only. -/
namespace EaselModel.Simd

/-- bounds-checked lane read with fill -/
@[inline] def lane {α : Type} {n : Nat} (v : Vector α n) (z : α) (j : Nat) : α := (v[j]?).getD z

/-! ## data movement -/

/-- `_mm_srli_si128`, `_mm256_srli_si256` (per 128-bit block): shift lanes toward lane 0 by `k` bytes, zero fill. -/
def bsrli {α : Type} {n : Nat} (L B : Nat) (z : α) (a : Vector α n) (k : Nat) : Vector α n :=
  Vector.ofFn fun i =>
    let blk := i.val / L; let j := i.val % L; let s := k / B
    if j + s < L then lane a z (blk * L + j + s) else z

/-- `_mm_slli_si128` (per block): shift lanes away from lane 0 by `k` bytes, zero fill. -/
def bslli {α : Type} {n : Nat} (L B : Nat) (z : α) (a : Vector α n) (k : Nat) : Vector α n :=
  Vector.ofFn fun i =>
    let blk := i.val / L; let j := i.val % L; let s := k / B
    if s ≤ j then lane a z (blk * L + j - s) else z

/-- `_mm_shuffle_epi32`, `_mm256_shuffle_epi32`: per block, 32-bit group `g` of the result is group
    `(imm >> 2g) & 3` of the source. -/
def shuffle32 {α : Type} {n : Nat} (L : Nat) (z : α) (a : Vector α n) (imm : Nat) : Vector α n :=
  Vector.ofFn fun i =>
    let blk := i.val / L; let j := i.val % L; let G := L / 4
    let g := j / G; let r := j % G
    lane a z (blk * L + ((imm >>> (2 * g)) % 4) * G + r)

/-- `_mm_shufflelo_epi16`, `_mm256_shufflelo_epi16`: per block, the four low 16-bit words are permuted by `imm`,
    the four high words are copied. -/
def shufflelo16 {α : Type} {n : Nat} (L : Nat) (z : α) (a : Vector α n) (imm : Nat) : Vector α n :=
  Vector.ofFn fun i =>
    let blk := i.val / L; let j := i.val % L; let H := L / 8
    let w := j / H; let r := j % H
    if w < 4 then lane a z (blk * L + ((imm >>> (2 * w)) % 4) * H + r) else lane a z i.val

/-- `_mm_shuffle_ps`, `_mm512_shuffle_ps`: per block, result groups 0,1 come from `a`, groups 2,3 from `b`. -/
def shuffle_ps {α : Type} {n : Nat} (L : Nat) (z : α) (a b : Vector α n) (imm : Nat) : Vector α n :=
  Vector.ofFn fun i =>
    let blk := i.val / L; let j := i.val % L; let G := L / 4
    let g := j / G; let r := j % G
    let src := blk * L + ((imm >>> (2 * g)) % 4) * G + r
    if g < 2 then lane a z src else lane b z src

/-- `_mm_srli_epi16 (a, 8)` seen on 8-bit lanes, `_mm_srli_epi32 (a, 16)` seen on 16-bit lanes: a logical right
    shift by a whole number of lanes inside every group of `G` lanes (`G` = group bits / lane bits), zero fill. -/
def srl_group {α : Type} {n : Nat} (G : Nat) (z : α) (a : Vector α n) (s : Nat) : Vector α n :=
  Vector.ofFn fun i =>
    let g := i.val / G; let r := i.val % G
    if r + s < G then lane a z (g * G + r + s) else z

/-- `_mm256_permute2x128_si256 (a, b, imm)`; `n = 2L`. Half `h` of the result: control nibble `c = (imm >> 4h) & 15`;
    zero if `c & 8`, else `a.lo, a.hi, b.lo, b.hi` for `c & 3 = 0,1,2,3`. -/
def permute2x128 {α : Type} {n : Nat} (L : Nat) (z : α) (a b : Vector α n) (imm : Nat) : Vector α n :=
  Vector.ofFn fun i =>
    let h := i.val / L; let j := i.val % L
    let c := (imm >>> (4 * h)) % 16
    if c / 8 % 2 = 1 then z
    else if c % 4 = 0 then lane a z j
    else if c % 4 = 1 then lane a z (L + j)
    else if c % 4 = 2 then lane b z j
    else lane b z (L + j)

/-- `_mm_alignr_epi8`, `_mm256_alignr_epi8`, `_mm512_alignr_epi8 (a, b, k)`: per block, the 32-byte value `a:b`
    (b low) is shifted right by `k` bytes and the low 16 bytes kept. -/
def alignr {α : Type} {n : Nat} (L B : Nat) (z : α) (a b : Vector α n) (k : Nat) : Vector α n :=
  Vector.ofFn fun i =>
    let blk := i.val / L; let j := i.val % L; let t := j + k / B
    if t < L then lane b z (blk * L + t)
    else if t < 2 * L then lane a z (blk * L + t - L)
    else z

/-- `_mm_move_ss (a, b)`: the low 32 bits (`G` lanes) from `b`, the rest from `a`. -/
def move_ss {α : Type} {n : Nat} (G : Nat) (z : α) (a b : Vector α n) : Vector α n :=
  Vector.ofFn fun i => if i.val < G then lane b z i.val else lane a z i.val

/-- `_mm512_shuffle_f32x4 / _mm512_shuffle_i32x4 (a, b, imm)`: 128-bit block `q` of the result is block
    `(imm >> 2q) & 3` of `a` (q = 0,1) or of `b` (q = 2,3). -/
def shuffle_x4 {α : Type} {n : Nat} (L : Nat) (z : α) (a b : Vector α n) (imm : Nat) : Vector α n :=
  Vector.ofFn fun i =>
    let q := i.val / L; let j := i.val % L
    let src := ((imm >>> (2 * q)) % 4) * L + j
    if q < 2 then lane a z src else lane b z src

/-- `_mm512_maskz_shuffle_i32x4 (k, a, b, imm)`: as `shuffle_x4`, then every 32-bit element `e` whose mask bit
    `k[e]` is clear is zeroed. `G` = lanes per 32-bit element. -/
def maskz_shuffle_x4 {α : Type} {n : Nat} (L : Nat) (z : α) (k : Nat) (a b : Vector α n) (imm : Nat) : Vector α n :=
  let s := shuffle_x4 L z a b imm
  let G := L / 4
  Vector.ofFn fun i => if (k >>> (i.val / G)) % 2 = 1 then lane s z i.val else z

/-- `_mm512_extracti32x8_epi32 / _mm512_extractf32x8_ps (a, idx)`: 256-bit half `idx`. -/
def extract_half {α : Type} {n m : Nat} (z : α) (a : Vector α n) (idx : Nat) : Vector α m :=
  Vector.ofFn fun i => lane a z (idx * m + i.val)

/-- lane 0 (`_mm_cvtsi128_si32` / `_mm_extract_epi16 (a,0)` / `_mm256_extract_epi8/16/32 (a,0)` followed by the C cast
    to the lane type, `_mm_store_ss`) and lane `j` in general -/
def extract {α : Type} {n : Nat} (z : α) (a : Vector α n) (j : Nat) : α := lane a z j

/-! ## lane-wise integer operations (`BitVec W` lanes) -/

def umax {w : Nat} (a b : BitVec w) : BitVec w := if a.toNat < b.toNat then b else a
def smax {w : Nat} (a b : BitVec w) : BitVec w := if a.toInt < b.toInt then b else a
def maskOf {w : Nat} (c : Bool) : BitVec w := if c then BitVec.allOnes w else 0

/-- `_mm_max_epu8`, `_mm256_max_epu8` -/
def max_epu {w n : Nat} (a b : Vector (BitVec w) n) : Vector (BitVec w) n := Vector.zipWith umax a b
/-- `_mm_max_epi8`, `_mm_max_epi16`, 256-bit forms -/
def max_epi {w n : Nat} (a b : Vector (BitVec w) n) : Vector (BitVec w) n := Vector.zipWith smax a b
/-- `_mm_or_si128`, `_mm256_or_si256`, `_mm512_or_si512` -/
def or_si {w n : Nat} (a b : Vector (BitVec w) n) : Vector (BitVec w) n := Vector.zipWith (· ||| ·) a b
/-- `_mm_xor_si128` -/
def xor_si {w n : Nat} (a b : Vector (BitVec w) n) : Vector (BitVec w) n := Vector.zipWith (· ^^^ ·) a b
/-- `_mm_and_si128` -/
def and_si {w n : Nat} (a b : Vector (BitVec w) n) : Vector (BitVec w) n := Vector.zipWith (· &&& ·) a b
/-- `_mm_cmpeq_epi8/16/32` -/
def cmpeq_epi {w n : Nat} (a b : Vector (BitVec w) n) : Vector (BitVec w) n :=
  Vector.zipWith (fun x y => maskOf (x == y)) a b
/-- `_mm_cmpgt_epi8/16/32` (signed) -/
def cmpgt_epi {w n : Nat} (a b : Vector (BitVec w) n) : Vector (BitVec w) n :=
  Vector.zipWith (fun x y => maskOf (decide (y.toInt < x.toInt))) a b

/-- `_mm_movemask_epi8`, `_mm256_movemask_epi8` seen on `w`-bit lanes (`w` = 8·B): bit `i·B + t` of the result is
    bit `8t+7` of lane `i`.  Returned as a `Nat` (the C `int`; only `!= 0` is ever applied to it). -/
def movemask_epi8 {w n : Nat} (B : Nat) (a : Vector (BitVec w) n) : Nat :=
  (List.range n).foldl (fun acc i =>
    (List.range B).foldl (fun acc t =>
      if (lane a 0 i).getLsbD (8 * t + 7) then acc ||| (1 <<< (i * B + t)) else acc) acc) 0

/-! ## float lanes -/

/-- The operations the helpers apply to a binary32 lane. In the driver `α = UInt32` bit patterns with IEEE-754
    arithmetic (`Float32`); in the theorems `α` is arbitrary. -/
structure F32Ops (α : Type) where
  add : α → α → α
  /-- lane of `_mm_max_ps (a, b)`: `a > b ? a : b` (so `b` when either is NaN) -/
  max : α → α → α
  /-- lane of `_mm_min_ps (a, b)`: `a < b ? a : b` -/
  min : α → α → α
  /-- ordered, non-signalling `>` (false when either is NaN) -/
  gt : α → α → Bool
  /-- all-zero bit pattern (= +0.0f) -/
  zero : α
  /-- all-one bit pattern -/
  ones : α
  /-- sign bit (bit 31) -/
  msb : α → Bool

def add_ps {α : Type} {n : Nat} (O : F32Ops α) (a b : Vector α n) : Vector α n := Vector.zipWith O.add a b
def max_ps {α : Type} {n : Nat} (O : F32Ops α) (a b : Vector α n) : Vector α n := Vector.zipWith O.max a b
def min_ps {α : Type} {n : Nat} (O : F32Ops α) (a b : Vector α n) : Vector α n := Vector.zipWith O.min a b
/-- `_mm_cmpgt_ps`: all-ones where `a > b`, else all-zero -/
def cmpgt_ps {α : Type} {n : Nat} (O : F32Ops α) (a b : Vector α n) : Vector α n :=
  Vector.zipWith (fun x y => if O.gt x y then O.ones else O.zero) a b
/-- `_mm_movemask_ps`: bit `i` = sign bit of lane `i` -/
def movemask_ps {α : Type} {n : Nat} (O : F32Ops α) (a : Vector α n) : Nat :=
  (List.range n).foldl (fun acc i => if O.msb (lane a O.zero i) then acc ||| (1 <<< i) else acc) 0
/-- `_mm_blendv_ps (a, b, mask)`: lane from `b` where the sign bit of the mask lane is set, else from `a` -/
def blendv_ps {α : Type} {n : Nat} (O : F32Ops α) (a b mask : Vector α n) : Vector α n :=
  Vector.ofFn fun i => if O.msb (lane mask O.zero i.val) then lane b O.zero i.val else lane a O.zero i.val

end EaselModel.Simd
