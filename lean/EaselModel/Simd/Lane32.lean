/-! # One 32-bit lane of the SSE intrinsics used by `esl_sse_logf` / `esl_sse_expf`   (C20, part B)

Every intrinsic in those two functions acts lane-wise, so the functions are translated (translate/simd2lean.py) to
functions on one lane, a `UInt32` bit pattern.  The bit-level intrinsics are DEFINITIONS here (and the theorems about
special values reason about them for all 2^32 patterns); the IEEE-754 arithmetic is a record of operations
(`Lane32Ops`), instantiated by the hardware (`Float32`) in the driver and left arbitrary in the theorems. Core only. -/
namespace EaselModel.Simd

structure Lane32Ops where
  add_ps : UInt32 → UInt32 → UInt32
  sub_ps : UInt32 → UInt32 → UInt32
  mul_ps : UInt32 → UInt32 → UInt32
  /-- `_mm_cvtepi32_ps`: signed 32-bit integer to binary32 -/
  cvtepi32_ps : UInt32 → UInt32
  /-- `_mm_cvttps_epi32`: truncate to signed 32-bit integer (0x80000000 when NaN or out of range) -/
  cvttps_epi32 : UInt32 → UInt32
  /-- ordered `<`, `>`, `<=` of two binary32 patterns (false when either is NaN) -/
  lt : UInt32 → UInt32 → Bool
  gt : UInt32 → UInt32 → Bool
  le : UInt32 → UInt32 → Bool

def mask32 (c : Bool) : UInt32 := if c then 0xFFFFFFFF else 0

namespace Lane32Ops
/-- `_mm_and_si128`, `_mm_and_ps` -/
@[simp] def and32 (_L : Lane32Ops) (a b : UInt32) : UInt32 := a &&& b
/-- `_mm_or_si128`, `_mm_or_ps` -/
@[simp] def or32 (_L : Lane32Ops) (a b : UInt32) : UInt32 := a ||| b
/-- `_mm_andnot_ps (a, b)` = `~a & b` -/
@[simp] def andnot32 (_L : Lane32Ops) (a b : UInt32) : UInt32 := (~~~a) &&& b
/-- `_mm_srli_epi32` (count < 32) -/
@[simp] def srli_epi32 (_L : Lane32Ops) (a : UInt32) (k : Nat) : UInt32 := if k < 32 then a >>> (UInt32.ofNat k) else 0
/-- `_mm_slli_epi32` (count < 32) -/
@[simp] def slli_epi32 (_L : Lane32Ops) (a : UInt32) (k : Nat) : UInt32 := if k < 32 then a <<< (UInt32.ofNat k) else 0
/-- `_mm_sub_epi32`, `_mm_add_epi32`: wrap-around -/
@[simp] def sub_epi32 (_L : Lane32Ops) (a b : UInt32) : UInt32 := a - b
@[simp] def add_epi32 (_L : Lane32Ops) (a b : UInt32) : UInt32 := a + b
/-- `_mm_cmpeq_epi32` -/
@[simp] def cmpeq_epi32 (_L : Lane32Ops) (a b : UInt32) : UInt32 := mask32 (a == b)
def cmplt_ps (L : Lane32Ops) (a b : UInt32) : UInt32 := mask32 (L.lt a b)
def cmpgt_ps (L : Lane32Ops) (a b : UInt32) : UInt32 := mask32 (L.gt a b)
def cmple_ps (L : Lane32Ops) (a b : UInt32) : UInt32 := mask32 (L.le a b)
/-- `esl_sse_select_ps (a, b, mask)` = `_mm_blendv_ps` (SSE4.1 configuration): `b` where the mask's sign bit is set -/
def select_ps (_L : Lane32Ops) (a b mask : UInt32) : UInt32 := if mask >>> 31 == 1 then b else a
end Lane32Ops

/-- the hardware instance -/
def Lane32Ops.hw : Lane32Ops where
  add_ps a b := (Float32.ofBits a + Float32.ofBits b).toBits
  sub_ps a b := (Float32.ofBits a - Float32.ofBits b).toBits
  mul_ps a b := (Float32.ofBits a * Float32.ofBits b).toBits
  cvtepi32_ps a := (a.toInt32.toFloat32).toBits
  cvttps_epi32 a :=
    let f := Float32.ofBits a
    if f.isNaN || f >= 2147483648.0 || f < -2147483648.0 then 0x80000000 else f.toInt32.toUInt32
  lt a b := Float32.ofBits a < Float32.ofBits b
  gt a b := Float32.ofBits a > Float32.ofBits b
  le a b := Float32.ofBits a <= Float32.ofBits b

def isNaN32 (u : UInt32) : Bool := (u &&& 0x7f800000) == 0x7f800000 && (u &&& 0x007fffff) != 0
def canonNaN (u : UInt32) : UInt32 := if isNaN32 u then 0x7fc00000 else u

end EaselModel.Simd
