import EaselModel.Simd.Intrinsics
/-! Byte encodings of registers for the line-protocol driver, and the executable binary32 instance of `F32Ops`
    (lanes = IEEE-754 bit patterns in `UInt32`, arithmetic by the hardware through `Float32`). Core Lean only. -/
namespace EaselModel.Simd

def vec8 (n : Nat) (bs : List UInt8) : Vector (BitVec 8) n :=
  Vector.ofFn fun i => BitVec.ofNat 8 (bs.getD i.val 0).toNat

def vec16 (n : Nat) (bs : List UInt8) : Vector (BitVec 16) n :=
  Vector.ofFn fun i => BitVec.ofNat 16 ((bs.getD (2 * i.val) 0).toNat + 256 * (bs.getD (2 * i.val + 1) 0).toNat)

def u32le (bs : List UInt8) (i : Nat) : UInt32 :=
  UInt32.ofNat ((bs.getD (4 * i) 0).toNat + 256 * (bs.getD (4 * i + 1) 0).toNat
    + 65536 * (bs.getD (4 * i + 2) 0).toNat + 16777216 * (bs.getD (4 * i + 3) 0).toNat)

def vecF (n : Nat) (bs : List UInt8) : Vector UInt32 n := Vector.ofFn fun i => u32le bs i.val

def lane8 (x : BitVec 8) : List UInt8 := [UInt8.ofNat x.toNat]
def lane16 (x : BitVec 16) : List UInt8 := [UInt8.ofNat (x.toNat % 256), UInt8.ofNat (x.toNat / 256)]
def laneF (x : UInt32) : List UInt8 :=
  [UInt8.ofNat (x.toNat % 256), UInt8.ofNat (x.toNat / 256 % 256), UInt8.ofNat (x.toNat / 65536 % 256), UInt8.ofNat (x.toNat / 16777216)]

def bytes8 {n : Nat} (v : Vector (BitVec 8) n) : List UInt8 := v.toList.flatMap lane8
def bytes16 {n : Nat} (v : Vector (BitVec 16) n) : List UInt8 := v.toList.flatMap lane16
def bytesF {n : Nat} (v : Vector UInt32 n) : List UInt8 := v.toList.flatMap laneF
def boolByte (b : Bool) : List UInt8 := [if b then 1 else 0]

namespace F32
@[inline] def f (x : UInt32) : Float32 := Float32.ofBits x
/-- binary32 lanes as bit patterns; `max`/`min` return one of their operands unchanged, as MAXPS/MINPS do -/
def ops : F32Ops UInt32 where
  add a b := (f a + f b).toBits
  max a b := if f a > f b then a else b
  min a b := if f a < f b then a else b
  gt a b := f a > f b
  zero := 0
  ones := 0xFFFFFFFF
  msb a := a >>> 31 == 1
end F32

end EaselModel.Simd
