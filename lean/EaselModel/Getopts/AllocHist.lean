import EaselModel.Getopts.AllocLemmas
import EaselModel.Getopts.Histories
namespace EaselModel.Getopts

theorem strtok_mem (s delim : Str) (ch : Char) :
    (ch ∈ (strtok s delim).1.getD [] ∨ ch ∈ (strtok s delim).2) → ch ∈ s := by
  unfold strtok
  simp only
  have hd : ∀ x, x ∈ s.dropWhile (fun c => delim.contains c) → x ∈ s := fun x hx => (List.dropWhile_sublist _).subset hx
  cases ht : s.dropWhile (fun c => delim.contains c) with
  | nil => simp
  | cons a t =>
    simp only
    rw [ht] at hd
    cases ht2 : (a :: t).dropWhile (fun c => !delim.contains c) with
    | nil =>
      simp only [Option.getD_some, List.not_mem_nil, or_false]
      intro h; exact hd _ ((List.takeWhile_sublist _).subset h)
    | cons b r =>
      simp only [Option.getD_some]
      intro h
      rcases h with h | h
      · exact hd _ ((List.takeWhile_sublist _).subset h)
      · have : ch ∈ (a :: t).dropWhile (fun c => !delim.contains c) := by rw [ht2]; exact List.mem_cons_of_mem _ h
        exact hd _ ((List.dropWhile_sublist _).subset this)

theorem cfgTokens_arg_mem (line : Str) (a : Str) (h : (cfgTokens line).2.1 = some a) : ∀ ch ∈ a, ch ∈ line := by
  intro ch hch
  unfold cfgTokens at h
  simp only at h
  have h1 := strtok_mem line wsDelim
  by_cases hq : ((strtok line wsDelim).2.head? == some '"') = true
  · simp only [hq, ↓reduceIte] at h
    have h2 := strtok_mem (strtok line wsDelim).2 ['"'] ch (Or.inl (by rw [h]; exact hch))
    exact h1 ch (Or.inr h2)
  · simp only [hq, Bool.false_eq_true, ↓reduceIte] at h
    have h2 := strtok_mem (strtok line wsDelim).2 wsDelim ch (Or.inl (by rw [h]; exact hch))
    exact h1 ch (Or.inr h2)

theorem cfgItem_arg_mem (opts : List Opt) (line : Str) (i : Nat) (a : Str) (h : cfgItem opts line = some (.set i (some a))) :
    ∀ ch ∈ a, ch ∈ line := by
  have key : (cfgTokens line).2.1 = some a := by
    unfold cfgItem at h
    rcases hc : cfgTokens line with ⟨_ | name, optarg, comment⟩
    · rw [hc] at h; cases h
    · rw [hc] at h
      simp only at h
      split at h
      · cases h
      · split at h
        · cases h
        · split at h
          · cases h
          · split at h
            · cases h
            · split at h
              · cases h
              · simp at h; exact h.2
  exact cfgTokens_arg_mem line a key

theorem fileLinesAux_mem : ∀ (r acc : Str) (l : Str), l ∈ fileLinesAux r acc → ∀ ch ∈ l, ch ∈ r ∨ ch ∈ acc := by
  intro r
  induction r with
  | nil =>
    intro acc l hl ch hch
    unfold fileLinesAux at hl
    split at hl
    · cases hl
    · simp at hl; subst hl; right; exact List.mem_reverse.mp hch
  | cons c r ih =>
    intro acc l hl ch hch
    unfold fileLinesAux at hl
    split at hl
    · rcases List.mem_cons.mp hl with h | h
      · subst h
        have : ch ∈ c :: acc := List.mem_reverse.mp hch
        rcases List.mem_cons.mp this with h | h
        · left; rw [h]; exact List.mem_cons_self
        · right; exact h
      · rcases ih [] l h ch hch with h | h
        · left; exact List.mem_cons_of_mem _ h
        · cases h
    · rcases ih (c :: acc) l hl ch hch with h | h
      · left; exact List.mem_cons_of_mem _ h
      · rcases List.mem_cons.mp h with h | h
        · left; rw [h]; exact List.mem_cons_self
        · right; exact h

/-- a config file that is a text (no NUL byte) hands only C strings to `set_option` -/
theorem cfgArgsOk_of_text (opts : List Opt) (content : Str) (h : NulFree content) :
    CfgArgsOk ((fileLines content).filterMap (cfgItem opts)) := by
  intro i a hm
  obtain ⟨line, hl, hit⟩ := List.mem_filterMap.mp hm
  intro ch hch
  have h1 := cfgItem_arg_mem opts line i a hit ch hch
  rcases fileLinesAux_mem content [] line hl ch h1 with h2 | h2
  · exact h ch h2
  · cases h2


/-! ## histories of sources on the concrete object -/

def applySrcC (c : GC) : Src → RC
  | .cmdline argv => processCmdlineC c argv
  | .spoof s => processSpoofC c s
  | .env e => processEnvironmentC c e
  | .cfg t => processConfigfileC c t

def runAllC : GC → List Src → Option (List (Status × Bool) × GC)
  | c, [] => some ([], c)
  | c, s :: ss =>
    match applySrcC c s with
    | .fault => none
    | .done c' st m => (runAllC c' ss).map (fun r => ((st, m) :: r.1, r.2))

/-- config files are texts (a NUL byte would end the line for the C code; the model's strings have none) -/
def SrcText : Src → Prop
  | .cfg t => NulFree t
  | _ => True

theorem applySrcC_abs {c : GC} (h : InvC c) (s : Src) (hs : SrcText s) :
    (applySrcC c s).abs = applySrc c.abs s ∧ (applySrcC c s).Inv := by
  cases s with
  | cmdline argv => exact processCmdlineC_abs h argv
  | spoof t => exact processSpoofC_abs h t
  | env e => exact processEnvironmentC_abs h e
  | cfg t => exact processConfigfileC_abs h t (cfgArgsOk_of_text c.opts t hs)

/-- **erasure commutes with every history**: any sequence of sources run on the byte-level object gives the same
    statuses and — after erasing the allocation layer — the same object as the abstract model; the allocation invariant
    holds afterwards -/
theorem runAllC_abs : ∀ (ss : List Src) (c : GC), InvC c → (∀ s ∈ ss, SrcText s) →
    (runAllC c ss).map (fun r => (r.1, r.2.abs)) = runAll c.abs ss ∧
    ∀ outs c', runAllC c ss = some (outs, c') → InvC c' := by
  intro ss
  induction ss with
  | nil =>
    intro c h _
    refine ⟨rfl, ?_⟩
    intro outs c' hr; simp [runAllC] at hr; rw [← hr.2]; exact h
  | cons s ss ih =>
    intro c h htxt
    obtain ⟨ha, hi⟩ := applySrcC_abs h s (htxt s List.mem_cons_self)
    unfold runAllC runAll
    rw [← ha]
    cases hs : applySrcC c s with
    | fault => exact ⟨rfl, by intro outs c' hr; cases hr⟩
    | done c1 st m =>
      rw [hs] at hi
      obtain ⟨ih1, ih2⟩ := ih c1 hi (fun s' hs' => htxt s' (List.mem_cons_of_mem _ hs'))
      simp only [RC.abs]
      refine ⟨?_, ?_⟩
      · rw [← ih1]; cases runAllC c1 ss <;> rfl
      · intro outs c' hr
        cases hr2 : runAllC c1 ss with
        | none => rw [hr2] at hr; cases hr
        | some r =>
          rw [hr2] at hr
          simp at hr
          exact ih2 r.1 r.2 (by rw [hr2]) |> fun x => by rw [← hr.2]; exact x

/-! ## what `valloc` is -/

theorem toggleLoopC_self {i src : Nat} : ∀ (es : List Str) (c c' : GC) (st : Status) (m : Bool),
    toggleLoopC c i src es = .done c' st m →
    c'.vallocOf i = c.vallocOf i ∧ c'.valOf i = c.valOf i := by
  intro es
  induction es with
  | nil => intro c c' st m h; simp [toggleLoopC] at h; rw [← h.1]; exact ⟨rfl, rfl⟩
  | cons e es ih =>
    intro c c' st m h
    unfold toggleLoopC at h
    split at h
    · simp at h; rw [← h.1]; exact ⟨rfl, rfl⟩
    · rename_i t _
      split at h
      · exact ih _ _ _ _ h
      · rename_i hti
        split at h
        · exact ih _ _ _ _ h
        · split at h
          · simp at h; rw [← h.1]; exact ⟨rfl, rfl⟩
          · obtain ⟨a, b⟩ := ih _ _ _ _ h
            have hne : ¬ (t = i ∧ t < c.valloc.length) := fun hh => hti (by simp [hh.1])
            have hne' : ¬ (t = i ∧ t < c.val.length) := fun hh => hti (by simp [hh.1])
            refine ⟨a.trans ?_, b.trans ?_⟩
            · simp only [GC.freeAndPoint, GC.vallocOf, getD_set']; rw [if_neg hne]
            · simp only [GC.freeAndPoint, GC.valOf, getD_set']; rw [if_neg hne']

/-- `g->valloc[i]` after a successful `set_option`: a config-file argument leaves `max(old, strlen+1)` — the block
    is reused when large enough and grown otherwise, never shrunk; every other way of setting frees the block -/
theorem setOptionC_ok_valloc {c c' : GC} (hinv : InvC c) {i : Nat} (hi : i < c.val.length) {arg : Option Str} {src : Nat} {da : Bool}
    {st : Status} {m : Bool} (hnf : da = true → ∀ a, arg = some a → NulFree a)
    (h : setOptionC c i arg src da = .done c' st m) (hgood : verifyTypeRange (c.opt i) arg src = .good) (hs : c.setter i ≠ src) :
    c'.vallocOf i = storeValloc (c.opt i) (c.vallocOf i) arg da := by
  unfold setOptionC at h
  have hs' : (c.setter i == src) = false := by simp [hs]
  simp only [hs', Bool.false_eq_true, ↓reduceIte, hgood] at h
  obtain ⟨c1, h1, _, _, _, _, hv⟩ := storeC_spec (hinv.withSetby (c.setby.set i src)) i arg da hnf
  rw [h1] at h
  simp only at h
  obtain ⟨a, _⟩ := toggleLoopC_self _ _ _ _ _ h
  rw [a]
  exact hv hi

end EaselModel.Getopts
