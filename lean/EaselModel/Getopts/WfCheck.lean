import EaselModel.Getopts.Lemmas
/-! # C14 — the well-formedness hypothesis `WF` is decidable by a plain Boolean function (`wfB`), so it can be
    computed for concrete tables (the driver evaluates it on every generated table). Core Lean only. -/
namespace EaselModel.Getopts

def resolvesAll (opts : List Opt) (s : Option Str) : Bool :=
  (optlistElems s).all (fun e => (optlistResolve opts e).isSome)

def wfOptB (opts : List Opt) (o : Opt) : Bool :=
  decide (o.type ≤ 6) && (!isStringy o.type || o.range.isNone) &&
  resolvesAll opts o.toggle && resolvesAll opts o.required && resolvesAll opts o.incompat

def wfB (opts : List Opt) : Bool := opts.all (wfOptB opts)

theorem resolvesAll_iff (opts : List Opt) (s : Option Str) :
    resolvesAll opts s = true ↔ ∀ e ∈ optlistElems s, (optlistResolve opts e).isSome := by
  simp [resolvesAll, List.all_eq_true]

theorem wfOptB_iff (opts : List Opt) (o : Opt) : wfOptB opts o = true ↔ WFOpt opts o := by
  constructor
  · intro h
    simp only [wfOptB, Bool.and_eq_true, decide_eq_true_eq, Bool.or_eq_true, Bool.not_eq_true'] at h
    obtain ⟨⟨⟨⟨h1, h2⟩, h3⟩, h4⟩, h5⟩ := h
    refine ⟨h1, ?_, (resolvesAll_iff _ _).mp h3, (resolvesAll_iff _ _).mp h4, (resolvesAll_iff _ _).mp h5⟩
    intro hs
    rcases h2 with h2 | h2
    · rw [hs] at h2; cases h2
    · cases hr : o.range with
      | none => rfl
      | some _ => rw [hr] at h2; cases h2
  · intro h
    simp only [wfOptB, Bool.and_eq_true, decide_eq_true_eq, Bool.or_eq_true, Bool.not_eq_true']
    refine ⟨⟨⟨⟨h.type_le, ?_⟩, (resolvesAll_iff _ _).mpr h.tog⟩, (resolvesAll_iff _ _).mpr h.req⟩, (resolvesAll_iff _ _).mpr h.inc⟩
    cases hs : isStringy o.type with
    | false => left; rfl
    | true => right; rw [h.norange hs]; rfl

/-- `WF` is exactly what the Boolean check computes -/
theorem wfB_iff (opts : List Opt) : wfB opts = true ↔ WF opts := by
  simp only [wfB, List.all_eq_true, WF]
  constructor
  · intro h o ho; exact (wfOptB_iff opts o).mp (h o ho)
  · intro h o ho; exact (wfOptB_iff opts o).mpr (h o ho)

/-! ## the stricter class the generator stays in (documented conventions for option tables) -/

/-- `-c` (one character, not `-`) or `--word` (no `=`, `,`, blank) -/
def nameShape (n : Str) : Bool :=
  match n with
  | ['-', c] => c != '-'
  | '-' :: '-' :: r => !r.isEmpty && r.all (fun c => c != '=' && c != ',' && !isSpace c)
  | _ => false

/-- every element of the list resolves to the option of exactly that name -/
def exactList (opts : List Opt) (s : Option Str) : Bool :=
  (optlistElems s).all fun e =>
    match optlistResolve opts e with
    | some j => (opts.getD j default).name == e
    | none => false

/-- toggle lists name only boolean / string options ("toggle-tying an integer, real-valued, or char option will
    result in undefined behavior") -/
def togglable (opts : List Opt) (s : Option Str) : Bool :=
  (optlistElems s).all fun e =>
    match optlistResolve opts e with
    | some j => (opts.getD j default).type == 0 || isStringy (opts.getD j default).type
    | none => false

def distinctNames : List Opt → Bool
  | [] => true
  | o :: os => !(os.any (fun p => p.name == o.name)) && distinctNames os

def wfStrictB (opts : List Opt) : Bool :=
  wfB opts && distinctNames opts && opts.all (fun o => nameShape o.name) &&
  opts.all (fun o => exactList opts o.toggle && exactList opts o.required && exactList opts o.incompat && togglable opts o.toggle) &&
  createLoop opts

theorem wfStrictB_wf {opts : List Opt} (h : wfStrictB opts = true) : WF opts := by
  simp only [wfStrictB, Bool.and_eq_true] at h
  exact (wfB_iff opts).mp h.1.1.1.1

end EaselModel.Getopts
