import EaselModel.Getopts.Round
/-! # C14 — `verify_real_range` on the values the C code really compares: the doubles `atof()` returns

`Model.realRangeOk` compares the exact decimals, which agrees with the C code only while distinct decimals are
distinct doubles (≤ 15 significant digits).  `realRangeOkD` is the same function over the rounding model of
`Round.lean`: argument and bounds are converted to the nearest binary64 (overflow → infinity, `-0 = +0`) and those are
compared.  It is what the driver answers for the `realrange` op, for arguments and bounds of any number of digits.
Core Lean only (imported by the driver). -/
namespace EaselModel.Getopts

/-- magnitude of infinity in the scaled representation (`2^1024 · 2^1126`) -/
def INFMAG : Nat := 2 ^ (1024 + SCALE)

/-- magnitude of the double nearest to `mant · 10^exp`, scaled by `2^1126` -/
def Dec.dmag (d : Dec) : Nat :=
  if d.mant == 0 then 0
  else if d.exp > 5000 then INFMAG
  else if d.exp < -5000 then 0
  else
    let f := d.frac
    let r := toDbl f.1 f.2
    if r.1 * 2 ^ r.2 ≥ INFMAG then INFMAG else r.1 * 2 ^ r.2

/-- the double as an ordered key (`-0` and `+0` are both `0`, as `==` on doubles has it) -/
def Dec.dkey (d : Dec) : Int := if d.neg then - (d.dmag : Int) else (d.dmag : Int)

def Dec.dle (a b : Dec) : Bool := a.dkey ≤ b.dkey
def Dec.dlt (a b : Dec) : Bool := a.dkey < b.dkey

/-- `verify_real_range` on doubles -/
def realRangeOkD (arg : Str) (range : Option Str) : Bool :=
  match range with
  | none => true
  | some r =>
    let x := atof arg
    match parseRange r 'x' with
    | none => false
    | some rg =>
      (match rg.lower with
        | none => true
        | some lp => if rg.geq then Dec.dle (atof lp) x else Dec.dlt (atof lp) x) &&
      (match rg.upper with
        | none => true
        | some up => if rg.leq then Dec.dle x (atof up) else Dec.dlt x (atof up))

/-- a real-valued option with this range, given this argument by a source: accepted? -/
def realArgAccepted (arg : Str) (range : Option Str) : Bool := isReal arg && realRangeOkD arg range

end EaselModel.Getopts
