import EaselModel.Getopts.Help
import EaselModel.Getopts.History
namespace EaselModel.Getopts

theorem le_maxOf (f : HelpRow → Nat) : ∀ (rows : List HelpRow) (m : Nat) (r : HelpRow), r ∈ rows → f r ≤ rows.foldl (fun m r => max m (f r)) m := by
  intro rows
  induction rows with
  | nil => intro m r h; cases h
  | cons x xs ih =>
    intro m r h
    simp only [List.foldl_cons]
    rcases List.mem_cons.mp h with h | h
    · subst h
      have : ∀ (l : List HelpRow) (a : Nat), a ≤ l.foldl (fun m r => max m (f r)) a := by
        intro l
        induction l with
        | nil => intro a; exact Nat.le_refl _
        | cons y ys ih2 => intro a; simp only [List.foldl_cons]; exact Nat.le_trans (Nat.le_max_left _ _) (ih2 _)
      exact Nat.le_trans (Nat.le_max_right _ _) (this xs _)
    · exact ih _ r h

theorem mem_le_maxOf (f : HelpRow → Nat) (rows : List HelpRow) (r : HelpRow) (h : r ∈ rows) : f r ≤ maxOf f rows :=
  le_maxOf f rows 0 r h

theorem foldl_max_mono (f g : HelpRow → Nat) (hfg : ∀ r, f r ≤ g r) : ∀ (rows : List HelpRow) (a b : Nat), a ≤ b →
    rows.foldl (fun m r => max m (f r)) a ≤ rows.foldl (fun m r => max m (g r)) b := by
  intro rows
  induction rows with
  | nil => intro a b h; exact h
  | cons x xs ih =>
    intro a b h
    simp only [List.foldl_cons]
    apply ih
    have := hfg x
    omega

theorem maxOf_mono (f g : HelpRow → Nat) (hfg : ∀ r, f r ≤ g r) (rows : List HelpRow) : maxOf f rows ≤ maxOf g rows :=
  foldl_max_mono f g hfg rows 0 0 (Nat.le_refl _)

theorem w2_le_w1 (r : HelpRow) : r.w2 ≤ r.w1 := by unfold HelpRow.w1; omega
theorem w1_le_w0 (r : HelpRow) : r.w1 ≤ r.w0 := by unfold HelpRow.w0; omega

/-- `esl_opt_DisplayHelp` fails (`eslEINVAL`, nothing printed) exactly when even the barest layout — option names and
    help strings — does not fit the text width -/
theorem displayHelp_none_iff (rows : List HelpRow) (docgroup indent textwidth : Nat) :
    displayHelp rows docgroup indent textwidth = none ↔
      textwidth < indent + maxOf HelpRow.optWidth (rows.filter (·.selected docgroup)) + maxOf HelpRow.w2 (rows.filter (·.selected docgroup)) := by
  have h21 := maxOf_mono _ _ w2_le_w1 (rows.filter (·.selected docgroup))
  have h10 := maxOf_mono _ _ w1_le_w0 (rows.filter (·.selected docgroup))
  unfold displayHelp
  simp only
  split
  · constructor
    · intro h; cases h
    · intro h; omega
  · split
    · constructor
      · intro h; cases h
      · intro h; omega
    · split
      · constructor
        · intro h; cases h
        · intro h; omega
      · constructor
        · intro _; omega
        · intro _; rfl

/-- the layout decision is taken once, for all options: the output is the selected rows, in table order, each
    formatted with the same column width and the same two show-flags -/
theorem displayHelp_some (rows : List HelpRow) (docgroup indent textwidth : Nat) (lines : List Str)
    (h : displayHelp rows docgroup indent textwidth = some lines) :
    ∃ showDef showRange, lines = (rows.filter (·.selected docgroup)).map
        (helpLine indent (maxOf HelpRow.optWidth (rows.filter (·.selected docgroup))) showDef showRange) ∧
      (showRange = true → showDef = true) ∧
      indent + maxOf HelpRow.optWidth (rows.filter (·.selected docgroup)) +
        maxOf (fun r => if showRange then r.w0 else if showDef then r.w1 else r.w2) (rows.filter (·.selected docgroup)) ≤ textwidth := by
  unfold displayHelp at h
  simp only at h
  split at h
  · rename_i hc; exact ⟨true, true, (Option.some.inj h).symm, fun _ => rfl, by simpa using hc⟩
  · split at h
    · rename_i hc; exact ⟨true, false, (Option.some.inj h).symm, by simp, by simpa using hc⟩
    · split at h
      · rename_i hc; exact ⟨false, false, (Option.some.inj h).symm, by simp, by simpa using hc⟩
      · cases h

theorem argTag_length_le (t : Nat) : (argTag t).length ≤ (if t != 0 then 4 else 0) := by
  unfold argTag
  split <;> simp

theorem spaces_length (n : Nat) : (spaces n).length = n := by simp [spaces]

/-- one line per option: the `:` separators stand in the same column `indent + optwidth + 1` on every line … -/
theorem helpLine_prefix (indent ow : Nat) (sd sr : Bool) (r : HelpRow) (h : r.optWidth ≤ ow) :
    (helpLine indent ow sd sr r).take (indent + ow + 2) =
      spaces indent ++ (r.name ++ argTag r.type) ++ spaces (ow - (r.name ++ argTag r.type).length) ++ [' ', ':'] := by
  have hl : (r.name ++ argTag r.type).length ≤ ow := by
    have := argTag_length_le r.type
    simp only [HelpRow.optWidth] at h
    simp only [List.length_append]
    omega
  have hP : (spaces indent ++ (r.name ++ argTag r.type) ++ spaces (ow - (r.name ++ argTag r.type).length) ++ [' ', ':']).length = indent + ow + 2 := by
    simp only [List.length_append, spaces_length, List.length_cons, List.length_nil] at hl ⊢
    omega
  have : helpLine indent ow sd sr r =
      (spaces indent ++ (r.name ++ argTag r.type) ++ spaces (ow - (r.name ++ argTag r.type).length) ++ [' ', ':']) ++
        (helpPart r ++ (defPart sd r ++ rangePart sr r)) := by
    unfold helpLine; simp only [List.append_assoc]
  rw [this, List.take_left' hP]

theorem helpPart_length_le (r : HelpRow) : (helpPart r).length ≤ r.w2 := by
  unfold helpPart HelpRow.w2; cases r.help <;> simp
theorem defPart_length_le (sd : Bool) (r : HelpRow) :
    (defPart sd r).length ≤ (if sd then (match r.defval with | some d => d.length + 4 | none => 0) else 0) := by
  unfold defPart
  cases r.defval with
  | none => cases sd <;> simp
  | some d =>
    cases sd with
    | false => simp
    | true => simp only [Bool.true_and, ↓reduceIte]; split <;> simp <;> omega
theorem rangePart_length_le (sr : Bool) (r : HelpRow) :
    (rangePart sr r).length ≤ (if sr then (match r.range with | some g => g.length + 4 | none => 0) else 0) := by
  unfold rangePart
  cases r.range with
  | none => cases sr <;> simp
  | some g => cases sr <;> simp <;> omega

/-- … and no line is longer than the column part plus the width the layout decision counted for it, plus the two
    characters of the separator, which the code's width computation leaves out when there is a help string -/
theorem helpLine_length_le (indent ow : Nat) (sd sr : Bool) (r : HelpRow) (h : r.optWidth ≤ ow) (hsr : sr = true → sd = true) :
    (helpLine indent ow sd sr r).length ≤ indent + ow + 2 + (if sr then r.w0 else if sd then r.w1 else r.w2) := by
  have hl : (r.name ++ argTag r.type).length ≤ ow := by
    have := argTag_length_le r.type
    simp only [HelpRow.optWidth] at h
    simp only [List.length_append]
    omega
  have e1 := helpPart_length_le r
  have e2 := defPart_length_le sd r
  have e3 := rangePart_length_le sr r
  have hw1 : r.w1 = r.w2 + (match r.defval with | some d => d.length + 4 | none => 0) := rfl
  have hw0 : r.w0 = r.w1 + (match r.range with | some g => g.length + 4 | none => 0) := rfl
  unfold helpLine
  simp only [List.length_append, spaces_length, List.length_cons, List.length_nil] at hl ⊢
  cases sd with
  | false =>
    have : sr = false := by cases sr with | false => rfl | true => exact absurd (hsr rfl) (by simp)
    subst this
    simp only [Bool.false_eq_true, ↓reduceIte] at e2 e3 ⊢
    omega
  | true =>
    cases sr with
    | false => simp only [Bool.false_eq_true, ↓reduceIte] at e2 e3 ⊢; omega
    | true => simp only [↓reduceIte] at e2 e3 ⊢; omega


/-- **`esl_opt_DisplayHelp`, the documented output**: one line per option of the docgroup, in table order; every line
    is the indent, the option name with its argument tag, padding to the common column, ` :`, the help string, then —
    for all lines or for none — the default in brackets and the range in parentheses; no line is longer than
    `textwidth + 2` (the documentation says `textwidth`: the code's width computation does not count the two
    characters of the separator when an option has a help string) -/
theorem displayHelp_documented (rows : List HelpRow) (docgroup indent textwidth : Nat) (lines : List Str)
    (h : displayHelp rows docgroup indent textwidth = some lines) :
    lines.length = (rows.filter (·.selected docgroup)).length ∧
    (∀ l ∈ lines, l.length ≤ textwidth + 2) ∧
    ∃ showDef showRange, ∀ k (hk : k < (rows.filter (·.selected docgroup)).length),
      lines[k]? = some (helpLine indent (maxOf HelpRow.optWidth (rows.filter (·.selected docgroup))) showDef showRange
                          ((rows.filter (·.selected docgroup))[k])) ∧
      (helpLine indent (maxOf HelpRow.optWidth (rows.filter (·.selected docgroup))) showDef showRange
          ((rows.filter (·.selected docgroup))[k])).take (indent + maxOf HelpRow.optWidth (rows.filter (·.selected docgroup)) + 2) =
        spaces indent ++ (((rows.filter (·.selected docgroup))[k]).name ++ argTag ((rows.filter (·.selected docgroup))[k]).type) ++
          spaces (maxOf HelpRow.optWidth (rows.filter (·.selected docgroup)) -
                    (((rows.filter (·.selected docgroup))[k]).name ++ argTag ((rows.filter (·.selected docgroup))[k]).type).length) ++ [' ', ':'] := by
  obtain ⟨sd, sr, hl, hsr, hw⟩ := displayHelp_some rows docgroup indent textwidth lines h
  refine ⟨by rw [hl, List.length_map], ?_, sd, sr, ?_⟩
  · intro l hl'
    rw [hl] at hl'
    obtain ⟨r, hr, rfl⟩ := List.mem_map.mp hl'
    have h1 := mem_le_maxOf HelpRow.optWidth _ r hr
    have h2 := mem_le_maxOf (fun r => if sr then r.w0 else if sd then r.w1 else r.w2) _ r hr
    have h3 := helpLine_length_le indent _ sd sr r h1 hsr
    have h2' : (if sr then r.w0 else if sd then r.w1 else r.w2) ≤
        maxOf (fun r => if sr then r.w0 else if sd then r.w1 else r.w2) (rows.filter (·.selected docgroup)) := h2
    omega
  · intro k hk
    refine ⟨by rw [hl, List.getElem?_map, List.getElem?_eq_getElem hk]; rfl, ?_⟩
    exact helpLine_prefix indent _ sd sr _ (mem_le_maxOf HelpRow.optWidth _ _ (List.getElem_mem hk))

/-! ## `esl_opt_SpoofCmdline`, `esl_opt_GetInteger` -/

/-- option `i` is listed in the spoofed command line iff a source set it and it is on (fix af97bd9: an option that
    its toggle partner switched off is not listed) -/
theorem spoofOptWords_listed_iff (g : G) (i : Nat) (ws : List Str) (h : spoofOptWords g i = some ws) :
    ws ≠ [] ↔ (g.setter i ≠ byDefault ∧ isOn g i = true) := by
  unfold spoofOptWords at h
  by_cases hc : (g.setter i != byDefault && !(g.valOf i).isNull) = true
  · simp only [hc, ↓reduceIte] at h
    have hc' : g.setter i ≠ byDefault ∧ isOn g i = true := by
      simp only [Bool.and_eq_true, bne_iff_ne, ne_eq, Bool.not_eq_eq_eq_not, Bool.not_true] at hc
      exact ⟨hc.1, by simp [isOn, hc.2]⟩
    split at h
    · simp at h; subst h; simp [hc']
    · split at h
      · simp at h; subst h; simp [hc']
      · cases h
  · simp only [hc, Bool.false_eq_true, ↓reduceIte] at h
    simp at h; subst h
    simp only [ne_eq, not_true_eq_false, false_iff]
    intro hh
    apply hc
    have h2 : (g.valOf i).isNull = false := by have := hh.2; simpa [isOn] using this
    simp [hh.1, h2]

/-- `esl_opt_SpoofCmdline` does not crash once a command line with a program name has been processed and no
    argument-taking option holds the boolean marker (which no `set_option` call stores: `newVal`) -/
theorem spoofCmdline_total (g : G) (hargv : g.argv ≠ []) (hval : ∀ i, (g.opt i).type ≠ 0 → g.valOf i ≠ .one) :
    (spoofCmdline g).isSome = true := by
  unfold spoofCmdline
  cases ha : g.argv with
  | nil => exact absurd ha hargv
  | cons a0 rest =>
    simp only
    have : ((List.range g.opts.length).map (spoofOptWords g)).all Option.isSome = true := by
      simp only [List.all_eq_true, List.mem_map, forall_exists_index, and_imp]
      intro x i _ hx
      subst hx
      unfold spoofOptWords
      split
      · split
        · rfl
        · rename_i ht
          cases hv : g.valOf i with
          | str v => rfl
          | null => rename_i hc; simp [hv, Val.isNull] at hc
          | one => exact absurd hv (hval i (by simpa using ht))
      · rfl
    simp [this]

/-- `esl_opt_GetInteger`: `atoi` of the stored string -/
def getInteger (g : G) (i : Nat) : Int := match g.valOf i with | .str s => atoi s | _ => 0

/-- **a value that passed the range check satisfies the range as `esl_opt_GetInteger` returns it**: the check and
    the getter read the stored string with the same `atoi` — also for digit strings beyond the range of `int`, where
    `atoi` keeps the low 32 bits of the clamped `long` -/
theorem accepted_integer_read_consistently {g g' : G} {i src : Nat} {v : Str} {m : Bool} (hinv : Inv g) (hi : i < g.opts.length)
    (ht : (g.opt i).type = 1) (h : setOption g i (some v) src = .done g' .ok m) :
    g'.valOf i = .str v ∧ getInteger g' i = atoi v ∧ isInteger v = true ∧ intRangeOk v (g.opt i).range = true := by
  obtain ⟨_, _, _, _, hgood, _, hspec⟩ := setOption_ok hinv hi h
  have hv : g'.valOf i = .str v := by
    have := hspec i
    simp only [setSpec, ↓reduceIte] at this
    have h1 := congrArg Prod.fst this
    simp only [newVal, ht] at h1
    exact h1
  refine ⟨hv, by simp [getInteger, hv], ?_, ?_⟩
  · unfold verifyTypeRange at hgood
    simp only [ht] at hgood
    split at hgood
    · rename_i hc; simp at hc
    · by_cases h1 : isInteger v = true
      · exact h1
      · simp [h1] at hgood
  · unfold verifyTypeRange at hgood
    simp only [ht] at hgood
    split at hgood
    · rename_i hc; simp at hc
    · by_cases h1 : isInteger v = true
      · by_cases h2 : intRangeOk v (g.opt i).range = true
        · exact h2
        · simp [h1, h2] at hgood
      · simp [h1] at hgood

/-- **`esl_getopts_CreateDefaultApp` returns the object exactly when** the command line parses, the configuration
    verifies, `-h` was not given and the number of remaining arguments is the required one (or `nargs = -1`);
    the returned object is the one `esl_opt_ProcessCmdline` produced -/
theorem createDefaultApp_returns_iff (opts : List Opt) (nargs : Int) (argv : List Str) (g : G) :
    createDefaultApp opts nargs argv = some (.returned g) ↔
      ∃ g0 m i, create opts = some g0 ∧ processCmdline g0 argv = .done g .ok m ∧ (verifyConfig g).1 = .ok ∧
        optidxExactly opts ['-', 'h'] = some i ∧ (g.opt i).type = 0 ∧ (g.valOf i).isNull = true ∧
        (nargs = -1 ∨ argNumber g = nargs) := by
  unfold createDefaultApp
  constructor
  · intro h
    cases hc : create opts with
    | none => simp [hc] at h
    | some g0 =>
      simp only [hc] at h
      cases hp : processCmdline g0 argv with
      | fault => simp [hp] at h
      | done g1 st m =>
        simp only [hp] at h
        by_cases hst : st = .ok
        · subst hst
          simp only [bne_self_eq_false, Bool.false_eq_true, ↓reduceIte] at h
          by_cases hv : (verifyConfig g1).1 = .ok
          · simp only [hv, bne_self_eq_false, Bool.false_eq_true, ↓reduceIte] at h
            cases hi : optidxExactly opts ['-', 'h'] with
            | none => simp [hi] at h
            | some i =>
              simp only [hi] at h
              by_cases ht : (g1.opt i).type = 0
              · simp only [ht, bne_self_eq_false, Bool.false_eq_true, ↓reduceIte] at h
                by_cases hn : (g1.valOf i).isNull = true
                · simp only [hn, Bool.not_true, Bool.false_eq_true, ↓reduceIte] at h
                  by_cases hk : (nargs != -1 && argNumber g1 != nargs) = true
                  · simp [hk] at h
                  · simp only [hk, Bool.false_eq_true, ↓reduceIte, Option.some.injEq, AppOutcome.returned.injEq] at h
                    subst h
                    refine ⟨g0, m, i, rfl, hp, hv, rfl, ht, hn, ?_⟩
                    simp only [Bool.and_eq_true, bne_iff_ne, ne_eq, not_and, Decidable.not_not] at hk
                    by_cases h1 : nargs = -1
                    · exact Or.inl h1
                    · exact Or.inr (hk h1)
                · simp [hn] at h
              · have : ((g1.opt i).type != 0) = true := by simpa using ht
                simp [this] at h
          · have : ((verifyConfig g1).1 != .ok) = true := by simpa using hv
            simp [this] at h
        · have : (st != .ok) = true := by simpa using hst
          simp [this] at h
  · rintro ⟨g0, m, i, hc, hp, hv, hi, ht, hn, hk⟩
    simp only [hc, hp, bne_self_eq_false, Bool.false_eq_true, ↓reduceIte, hv, hi, ht, hn, Bool.not_true]
    have : (nargs != -1 && argNumber g != nargs) = false := by
      rcases hk with hk | hk
      · simp [hk]
      · simp [hk]
    simp [this]


end EaselModel.Getopts
