import EaselModel.Getopts.Sources
/-! # C14 — the allocation layer of `set_option` (`do_alloc`, `g->valloc[]`, buffer reuse)

`set_option(g, opti, optarg, setby, do_alloc)` stores `optarg` in one of two ways.  Command line, environment and
spoofed command line pass `do_alloc = FALSE`: `g->val[opti]` simply points at the caller's string.  A config file
passes `do_alloc = TRUE` (the line buffer is volatile): the string is copied into a heap block owned by the object,
whose size is remembered in `g->valloc[opti]`, and that block is **reused** by the next config file when it is large
enough (`if (g->valloc[opti] < arglen+1) (re)allocate; strcpy(g->val[opti], optarg)`).

This file models that code byte by byte: a value is `NULL`, `(char*)1`, a pointer to memory that outlives the object,
or a heap block given by its bytes (`malloc` delivers junk without a terminator, `realloc` keeps the old bytes);
`strcpy` writes the argument and its terminator over the front of the block and leaves the tail alone; reading a
value back (`esl_opt_GetString`, `atoi`, …) is reading a C string from the block.  The model of `Model.lean` (values
as abstract strings) is the *erasure* `GC.abs` of this one; `AllocLemmas.lean` proves that the erasure commutes with
`set_option` and with every source, that no block is ever overrun or read without terminator, and what `valloc` is.

Core Lean only (imported by the driver). -/
namespace EaselModel.Getopts

def NUL : Char := '\x00'
/-- what `malloc` leaves in fresh memory: anything — the worst case is "no terminator" -/
def JUNK : Char := '\x01'

/-- `g->val[i]` as the C code has it -/
inductive CV
  | null                      -- NULL
  | one                       -- (char *) TRUE
  | stat (s : Str)            -- pointer into argv / the environment / the option table
  | heap (buf : List Char)    -- pointer to a malloc'ed block with these bytes
  deriving DecidableEq, Repr, Inhabited

def CV.isNull : CV → Bool
  | .null => true
  | _ => false

/-- the C string at the start of a block -/
def cstr (buf : List Char) : Str := buf.takeWhile (· != NUL)

/-- can the C string be read without leaving the block? (`false` = ASan heap-buffer-overflow on read) -/
def terminated (buf : List Char) : Bool := buf.contains NUL

/-- what the getters see -/
def CV.abs : CV → Val
  | .null => .null
  | .one => .one
  | .stat s => .str s
  | .heap b => .str (cstr b)

def CV.block : CV → List Char
  | .heap b => b
  | _ => []

def malloc (n : Nat) : List Char := List.replicate n JUNK

/-- `realloc(p, n)`: the old bytes (as many as fit), then junk -/
def realloc (old : List Char) (n : Nat) : List Char := old.take n ++ List.replicate (n - old.length) JUNK

/-- `strcpy(block, s)`; `none` = the copy (with its terminator) does not fit: heap-buffer-overflow -/
def strcpy? (block : List Char) (s : Str) : Option (List Char) :=
  if s.length + 1 ≤ block.length then some (s ++ NUL :: block.drop (s.length + 1)) else none

structure GC where
  opts : List Opt
  val : List CV
  setby : List Nat
  valloc : List Nat
  argv : List Str := []
  optind : Nat := 1
  nfiles : Nat := 0
  spoofed : Bool := false
  deriving DecidableEq, Repr, Inhabited

def GC.opt (c : GC) (i : Nat) : Opt := c.opts.getD i default
def GC.valOf (c : GC) (i : Nat) : CV := c.val.getD i .null
def GC.setter (c : GC) (i : Nat) : Nat := c.setby.getD i 0
def GC.vallocOf (c : GC) (i : Nat) : Nat := c.valloc.getD i 0

/-- erasure of the allocation layer -/
def GC.abs (c : GC) : G :=
  { opts := c.opts, val := c.val.map CV.abs, setby := c.setby, argv := c.argv, optind := c.optind, nfiles := c.nfiles,
    spoofed := c.spoofed }

inductive RC
  | done (c : GC) (st : Status) (msg : Bool)
  | fault
  deriving DecidableEq, Repr, Inhabited

def RC.abs : RC → R
  | .done c st m => .done c.abs st m
  | .fault => .fault

/-- `if (g->valloc[t] > 0) { free(g->val[t]); g->valloc[t] = 0; }  g->val[t] = v;` -/
def GC.freeAndPoint (c : GC) (t : Nat) (v : CV) : GC :=
  { c with val := c.val.set t v, valloc := c.valloc.set t 0 }

/-- the toggle loop at the end of `set_option` -/
def toggleLoopC (c : GC) (i src : Nat) : List Str → RC
  | [] => .done c .ok false
  | e :: es =>
    match optlistResolve c.opts e with
    | none => .done c .einval false
    | some t =>
      if t == i then toggleLoopC c i src es
      else if (c.valOf t).isNull then toggleLoopC c i src es
      else if c.setter t == src then .done c .esyntax true
      else toggleLoopC ({ c with setby := c.setby.set t src }.freeAndPoint t .null) i src es

/-- the middle of `set_option`: store the value; `none` = a block is overrun -/
def storeC (c : GC) (i : Nat) (arg : Option Str) (doAlloc : Bool) : Option GC :=
  if (c.opt i).type == 0 then
    some { c with val := c.val.set i (match (c.opt i).defval with | some d => .stat d | none => .one) }
  else
    match doAlloc, arg with
    | true, some a =>
      -- arglen = strlen(optarg); if (valloc < arglen+1) { ALLOC or RALLOC (arglen+1); valloc = arglen+1; } strcpy
      let arglen := a.length
      let grown := c.vallocOf i < arglen + 1
      let block := if grown then (if c.vallocOf i == 0 then malloc (arglen + 1) else realloc (c.valOf i).block (arglen + 1))
                   else (c.valOf i).block
      let va := if grown then arglen + 1 else c.vallocOf i
      match strcpy? block a with
      | none => none
      | some b => some { c with val := c.val.set i (.heap b), valloc := c.valloc.set i va }
    | _, some a => some (c.freeAndPoint i (.stat a))
    | _, none => some (c.freeAndPoint i .null)

/-- `set_option(g, opti, optarg, setby, do_alloc)` -/
def setOptionC (c : GC) (i : Nat) (arg : Option Str) (src : Nat) (doAlloc : Bool) : RC :=
  if c.setter i == src then .done c .esyntax true
  else match verifyTypeRange (c.opt i) arg src with
    | .fault => .fault
    | .exc => .done c .esyntax false
    | .bad => .done c .esyntax true
    | .good =>
      match storeC { c with setby := c.setby.set i src } i arg doAlloc with
      | none => .fault
      | some c1 => toggleLoopC c1 i src (optlistElems (c.opt i).toggle)

/-! ## the sources: the table-only parses of `Sources.lean`, run on the concrete object -/

def runEvsC (da : Bool) : GC → List Ev → RC
  | c, [] => .done c .ok false
  | c, e :: es =>
    match setOptionC c e.i e.arg e.src da with
    | .fault => .fault
    | .done c' .ok _ => runEvsC da c' es
    | .done c' st m => .done c' st m

def runCfgC (src : Nat) : GC → List CfgItem → RC
  | c, [] => .done { c with nfiles := c.nfiles + 1 } .ok false
  | c, .usage :: _ => .done c .esyntax true
  | c, .set i arg :: is =>
    match setOptionC c i arg src true with
    | .fault => .fault
    | .done c' .ok _ => runCfgC src c' is
    | .done c' st m => .done c' st m

def runCmdC (F : GC → RC) : GC → List CmdItem → RC
  | c, [] => F c
  | c, .stop st m k :: _ => .done { c with optind := k } st m
  | c, .set i arg kf :: is =>
    match setOptionC c i arg byCmdline false with
    | .fault => .fault
    | .done c' .ok _ => runCmdC F c' is
    | .done c' st m => .done { c' with optind := kf } st m

/-- `esl_opt_ProcessCmdline` (`do_alloc = FALSE`: values point into `argv`) -/
def processCmdlineC (c : GC) (argv : List Str) : RC :=
  runCmdC (fun c' => .done c' .ok false) { c with argv := argv, optind := 1 } (parseCmd c.opts 1 (argv.drop 1) false)

/-- `esl_opt_ProcessSpoof` (values point into the object's own copy of the command line) -/
def processSpoofC (c : GC) (cmdline : Str) : RC :=
  if c.spoofed then .done c .einval true
  else processCmdlineC { c with spoofed := true } (spoofTokens (cmdline.length + 1) cmdline)

/-- `esl_opt_ProcessEnvironment` (`do_alloc = FALSE`: values point into the environment) -/
def processEnvironmentC (c : GC) (env : Str → Option Str) : RC := runEvsC false c (envEvents env 0 c.opts)

/-- `esl_opt_ProcessConfigfile` (`do_alloc = TRUE`: the line buffer is volatile) -/
def processConfigfileC (c : GC) (content : Str) : RC :=
  runCfgC (byCfgfile + c.nfiles) c ((fileLines content).filterMap (cfgItem c.opts))

/-- `esl_getopts_Create` -/
def createC (opts : List Opt) : Option GC :=
  if opts.all (fun o => o.name.head? == some '-') && createLoop opts then
    some { opts := opts, val := opts.map (fun o => match o.defval with | some d => CV.stat d | none => CV.null),
           setby := opts.map (fun _ => byDefault), valloc := opts.map (fun _ => 0) }
  else none

/-- `esl_getopts_Reuse`: every block is freed, everything back to the state after `Create` -/
def reuseC (c : GC) : GC :=
  { opts := c.opts, val := c.opts.map (fun o => match o.defval with | some d => CV.stat d | none => CV.null),
    setby := c.opts.map (fun _ => byDefault), valloc := c.opts.map (fun _ => 0) }

/-- can every stored value be read back as a C string (no getter runs off a block)? -/
def GC.readable (c : GC) : Bool :=
  c.val.all (fun v => match v with | .heap b => terminated b | _ => true)

end EaselModel.Getopts
