import EaselModel.Getopts.Sources
/-! # C14 — tokenizers: a spoofed command line of plain words is that list of words; a config-file line
    `name arg` / `name` is the setting it spells. -/
namespace EaselModel.Getopts

/-- a word made of non-delimiter characters only -/
def Plain (delim : Str) (w : Str) : Prop := w ≠ [] ∧ ∀ c ∈ w, delim.contains c = false

theorem dropWhile_delim_plain {delim w rest : Str} (h : Plain delim w) :
    (w ++ rest).dropWhile (fun c => delim.contains c) = w ++ rest := by
  obtain ⟨hne, hw⟩ := h
  obtain ⟨a, w', rfl⟩ := List.exists_cons_of_ne_nil hne
  simp only [List.cons_append, List.dropWhile_cons, hw a List.mem_cons_self, Bool.false_eq_true, ↓reduceIte]

theorem takeWhile_plain {delim w : Str} (hw : ∀ c ∈ w, delim.contains c = false) (rest : Str)
    (hr : rest.head?.all (fun c => delim.contains c) = true) :
    (w ++ rest).takeWhile (fun c => !delim.contains c) = w ∧ (w ++ rest).dropWhile (fun c => !delim.contains c) = rest := by
  induction w with
  | nil =>
    cases rest with
    | nil => exact ⟨rfl, rfl⟩
    | cons d r =>
      have : delim.contains d = true := hr
      simp only [List.nil_append, List.takeWhile_cons, List.dropWhile_cons, this, Bool.not_true, Bool.false_eq_true, ↓reduceIte, and_self]
  | cons a w ih =>
    have ha := hw a List.mem_cons_self
    have := ih (fun c hc => hw c (List.mem_cons_of_mem _ hc))
    simp only [List.cons_append, List.takeWhile_cons, List.dropWhile_cons, ha, Bool.not_false, ↓reduceIte, this.1, this.2, and_self]

/-- `esl_strtok` on a plain word followed by a delimiter -/
theorem strtok_word {delim w rest : Str} {d : Char} (h : Plain delim w) (hd : delim.contains d = true) :
    strtok (w ++ d :: rest) delim = (some w, rest) := by
  obtain ⟨a, w', rfl⟩ := List.exists_cons_of_ne_nil h.1
  have h1 := dropWhile_delim_plain (rest := d :: rest) h
  have h2 := takeWhile_plain h.2 (d :: rest) hd
  unfold strtok
  simp only [h1, h2.1, h2.2]
  rfl

/-- `esl_strtok` on a plain word at the end of the string -/
theorem strtok_last {delim w : Str} (h : Plain delim w) : strtok w delim = (some w, []) := by
  obtain ⟨a, w', rfl⟩ := List.exists_cons_of_ne_nil h.1
  have h1 := dropWhile_delim_plain (rest := []) h
  have h2 := takeWhile_plain h.2 [] rfl
  simp only [List.append_nil] at h1 h2
  unfold strtok
  simp only [h1, h2.1, h2.2]

/-- words joined by single blanks -/
def joinSp : List Str → Str
  | [] => []
  | [w] => w
  | w :: v :: ws => w ++ ' ' :: joinSp (v :: ws)

/-- a command-line word as it can appear unquoted in a spoofed command line -/
def SpoofWord (w : Str) : Prop := Plain wsDelim w ∧ w.head? ≠ some '"'

theorem spoofTokens_joinSp : ∀ (ws : List Str) (fuel : Nat), (∀ w ∈ ws, SpoofWord w) → ws.length ≤ fuel →
    spoofTokens fuel (joinSp ws) = ws := by
  intro ws
  induction ws with
  | nil => intro fuel _ _; cases fuel <;> rfl
  | cons w ws ih =>
    intro fuel hw hf
    obtain ⟨hp, hq⟩ := hw w List.mem_cons_self
    have hws : ∀ v ∈ ws, SpoofWord v := fun v hv => hw v (List.mem_cons_of_mem _ hv)
    cases fuel with
    | zero => simp at hf
    | succ f =>
      obtain ⟨a, w', rfl⟩ := List.exists_cons_of_ne_nil hp.1
      have ha : (a == '"') = false := by
        cases h : a == '"' with
        | false => rfl
        | true => exact absurd (by simp [show a = '"' by simpa using h]) hq
      cases ws with
      | nil =>
        simp only [joinSp, spoofTokens, ha, Bool.false_eq_true, ↓reduceIte, strtok_last hp]
        cases f <;> rfl
      | cons v vs =>
        have e : joinSp ((a :: w') :: v :: vs) = (a :: w') ++ ' ' :: joinSp (v :: vs) := rfl
        have hst := strtok_word (rest := joinSp (v :: vs)) hp (show wsDelim.contains ' ' = true by decide)
        rw [e]
        simp only [List.cons_append] at hst ⊢
        simp only [spoofTokens, ha, Bool.false_eq_true, ↓reduceIte, hst]
        rw [ih f hws (by simp at hf ⊢; omega)]

theorem joinSp_length : ∀ (ws : List Str), (∀ w ∈ ws, w ≠ []) → ws.length ≤ (joinSp ws).length + 1 := by
  intro ws
  induction ws with
  | nil => intro _; simp
  | cons w ws ih =>
    intro h
    cases ws with
    | nil => simp [joinSp]
    | cons v vs =>
      have := ih (fun x hx => h x (List.mem_cons_of_mem _ hx))
      have hw : 1 ≤ w.length := by
        have := h w List.mem_cons_self
        cases w with
        | nil => exact absurd rfl this
        | cons _ _ => simp
      simp only [joinSp, List.length_append, List.length_cons] at this ⊢
      omega

/-- **`esl_opt_ProcessSpoof` is `esl_opt_ProcessCmdline` on the words of the string** (plain words, single blanks) -/
theorem processSpoof_words (g : G) (ws : List Str) (hs : g.spoofed = false) (hw : ∀ w ∈ ws, SpoofWord w) :
    processSpoof g (joinSp ws) = processCmdline { g with spoofed := true } ws := by
  unfold processSpoof
  simp only [hs, Bool.false_eq_true, ↓reduceIte]
  rw [spoofTokens_joinSp ws _ hw (joinSp_length ws (fun w h => (hw w h).1.1))]

/-! ## config-file lines -/

/-- a line `name arg\\n` -/
theorem cfgTokens_name_arg {name arg : Str} (hn : Plain wsDelim name) (ha : Plain wsDelim arg) (hq : arg.head? ≠ some '"') :
    cfgTokens (name ++ ' ' :: (arg ++ ['\n'])) = (some name, some arg, none) := by
  unfold cfgTokens
  have h1 := strtok_word (rest := arg ++ ['\n']) hn (show wsDelim.contains ' ' = true by decide)
  have h2 := strtok_word (rest := []) ha (show wsDelim.contains '\n' = true by decide)
  obtain ⟨a, arg', rfl⟩ := List.exists_cons_of_ne_nil ha.1
  have hq' : ((a :: arg' ++ ['\n']).head? == some '"') = false := by
    have : a ≠ '"' := by simpa using hq
    simp [this]
  simp only [h1, hq', Bool.false_eq_true, ↓reduceIte, h2]
  rfl

/-- a line `name\\n` -/
theorem cfgTokens_name {name : Str} (hn : Plain wsDelim name) :
    cfgTokens (name ++ ['\n']) = (some name, none, none) := by
  unfold cfgTokens
  have h1 := strtok_word (rest := []) hn (show wsDelim.contains '\n' = true by decide)
  simp only [h1]
  rfl

/-- a well-formed line naming an argument-taking option sets that option to that argument -/
theorem cfgItem_name_arg {opts : List Opt} {name arg : Str} {i : Nat} (hn : Plain wsDelim name) (ha : Plain wsDelim arg)
    (hq : arg.head? ≠ some '"') (hdash : name.head? = some '-') (hi : optidxExactly opts name = some i)
    (ht : (opts.getD i default).type ≠ 0) :
    cfgItem opts (name ++ ' ' :: (arg ++ ['\n'])) = some (.set i (some arg)) := by
  unfold cfgItem
  rw [cfgTokens_name_arg hn ha hq]
  have ht' := ht
  simp only [List.getD_eq_getElem?_getD] at ht'
  simp [hdash, hi, ht']

/-- a well-formed line naming a boolean option switches it on -/
theorem cfgItem_flag {opts : List Opt} {name : Str} {i : Nat} (hn : Plain wsDelim name) (hdash : name.head? = some '-')
    (hi : optidxExactly opts name = some i) (ht : (opts.getD i default).type = 0) :
    cfgItem opts (name ++ ['\n']) = some (.set i none) := by
  unfold cfgItem
  rw [cfgTokens_name hn]
  have ht' := ht
  simp only [List.getD_eq_getElem?_getD] at ht'
  simp [hdash, hi, ht']

/-- a line naming an argument-taking option without an argument is a usage error (fix 8d4fde4) -/
theorem cfgItem_missing_arg {opts : List Opt} {name : Str} {i : Nat} (hn : Plain wsDelim name) (hdash : name.head? = some '-')
    (hi : optidxExactly opts name = some i) (ht : (opts.getD i default).type ≠ 0) :
    cfgItem opts (name ++ ['\n']) = some .usage := by
  unfold cfgItem
  rw [cfgTokens_name hn]
  have ht' := ht
  simp only [List.getD_eq_getElem?_getD] at ht'
  simp [hdash, hi, ht']

/-- a line whose first word is not an option name of the table is a usage error (no abbreviations in config files) -/
theorem cfgItem_unknown {opts : List Opt} {name : Str} (hn : Plain wsDelim name) (hdash : name.head? = some '-')
    (hi : optidxExactly opts name = none) : cfgItem opts (name ++ ['\n']) = some .usage := by
  unfold cfgItem
  rw [cfgTokens_name hn]
  simp [hdash, hi]

/-! ## command-line option forms -/

theorem splitEq_eq : ∀ (name v : Str), '=' ∉ name → splitEq (name ++ '=' :: v) = (name, some v) := by
  intro name
  induction name with
  | nil => intro v _; simp [splitEq]
  | cons c name ih =>
    intro v h
    have hc : (c == '=') = false := by
      cases hq : c == '=' with
      | false => rfl
      | true => exact absurd (by simp [show c = '=' by simpa using hq]) h
    have := ih v (fun e => h (List.mem_cons_of_mem _ e))
    simp only [List.cons_append, splitEq, hc, Bool.false_eq_true, ↓reduceIte, this]

theorem splitEq_none : ∀ (w : Str), '=' ∉ w → splitEq w = (w, none) := by
  intro w
  induction w with
  | nil => intro _; rfl
  | cons c w ih =>
    intro h
    have hc : (c == '=') = false := by
      cases hq : c == '=' with
      | false => rfl
      | true => exact absurd (by simp [show c = '=' by simpa using hq]) h
    have := ih (fun e => h (List.mem_cons_of_mem _ e))
    simp only [splitEq, hc, Bool.false_eq_true, ↓reduceIte, this]

/-- `--name=value` -/
theorem parseLong_eq_form {opts : List Opt} {name v : Str} {i : Nat} (k : Nat) (next : Option Str) (hne : '=' ∉ name)
    (hi : optidxAbbrev opts name = .found i) (ht : (opts.getD i default).type ≠ 0) :
    parseLong opts k (name ++ '=' :: v) next = ([.set i (some v) (k + 1)], some false) := by
  have ht' : ((opts.getD i default).type != 0) = true := bne_iff_ne.mpr ht
  unfold parseLong
  simp only [splitEq_eq name v hne, hi, ht', ↓reduceIte]

/-- `--name value` (the value must not look like an option when the type is unchecked) -/
theorem parseLong_sep_form {opts : List Opt} {name v : Str} {i : Nat} (k : Nat) (hne : '=' ∉ name)
    (hi : optidxAbbrev opts name = .found i) (ht : (opts.getD i default).type ≠ 0)
    (hv : (isStringy (opts.getD i default).type && startsWithDash v) = false) :
    parseLong opts k name (some v) = ([.set i (some v) (k + 2)], some true) := by
  have ht' : ((opts.getD i default).type != 0) = true := bne_iff_ne.mpr ht
  unfold parseLong
  simp only [splitEq_none name hne, hi, ht', hv, Bool.false_eq_true, ↓reduceIte]

/-- `--flag` -/
theorem parseLong_flag {opts : List Opt} {name : Str} {i : Nat} (k : Nat) (next : Option Str) (hne : '=' ∉ name)
    (hi : optidxAbbrev opts name = .found i) (ht : (opts.getD i default).type = 0) :
    parseLong opts k name next = ([.set i none (k + 1)], some false) := by
  have ht' : ((opts.getD i default).type != 0) = false := by rw [ht]; rfl
  unfold parseLong
  simp only [splitEq_none name hne, hi, ht', Bool.false_eq_true, ↓reduceIte]

/-- `-Wvalue`: the rest of the word is the argument -/
theorem parseStd_attached {opts : List Opt} {c : Char} {v : Str} {i : Nat} (k : Nat) (next : Option Str)
    (hf : findShort opts c = some i) (ht : (opts.getD i default).type ≠ 0) (hv : v ≠ []) :
    parseStd opts k (c :: v) next = ([.set i (some v) (k + 1)], some false) := by
  have ht' : ((opts.getD i default).type != 0) = true := bne_iff_ne.mpr ht
  have hv' : (!v.isEmpty) = true := by cases v with
    | nil => exact absurd rfl hv
    | cons _ _ => rfl
  unfold parseStd
  simp only [hf, ht', hv', ↓reduceIte]

/-- `-W value` -/
theorem parseStd_sep {opts : List Opt} {c : Char} {v : Str} {i : Nat} (k : Nat)
    (hf : findShort opts c = some i) (ht : (opts.getD i default).type ≠ 0)
    (hv : (isStringy (opts.getD i default).type && startsWithDash v) = false) :
    parseStd opts k [c] (some v) = ([.set i (some v) (k + 2)], some true) := by
  have ht' : ((opts.getD i default).type != 0) = true := bne_iff_ne.mpr ht
  unfold parseStd
  simp only [hf, ht', hv, List.isEmpty_nil, Bool.not_true, Bool.false_eq_true, ↓reduceIte]

/-- `-abc`: a boolean inside a cluster is switched on and the cluster goes on (`-abc` = `-a -b -c`) -/
theorem parseStd_cluster_flag {opts : List Opt} {c : Char} {cs : Str} {i : Nat} (k : Nat) (next : Option Str)
    (hf : findShort opts c = some i) (ht : (opts.getD i default).type = 0) (hcs : cs ≠ []) :
    parseStd opts k (c :: cs) next = (.set i none (k + 1) :: (parseStd opts k cs next).1, (parseStd opts k cs next).2) := by
  have ht' : ((opts.getD i default).type != 0) = false := by rw [ht]; rfl
  have hc : cs.isEmpty = false := by cases cs with
    | nil => exact absurd rfl hcs
    | cons _ _ => rfl
  conv => lhs; unfold parseStd
  simp only [hf, ht', hc, Bool.false_eq_true, ↓reduceIte]

/-- the last boolean of a cluster -/
theorem parseStd_last_flag {opts : List Opt} {c : Char} {i : Nat} (k : Nat) (next : Option Str)
    (hf : findShort opts c = some i) (ht : (opts.getD i default).type = 0) :
    parseStd opts k [c] next = ([.set i none (k + 1)], some false) := by
  have ht' : ((opts.getD i default).type != 0) = false := by rw [ht]; rfl
  unfold parseStd
  simp only [hf, ht', List.isEmpty_nil, Bool.false_eq_true, ↓reduceIte]

/-! ## a whole config file -/

theorem fileLinesAux_skip : ∀ (l rest acc : Str), '\n' ∉ l →
    fileLinesAux (l ++ '\n' :: rest) acc = (acc.reverse ++ l ++ ['\n']) :: fileLinesAux rest [] := by
  intro l
  induction l with
  | nil => intro rest acc _; simp [fileLinesAux]
  | cons c l ih =>
    intro rest acc h
    have hc : (c == '\n') = false := by
      cases hq : c == '\n' with
      | false => rfl
      | true => exact absurd (by simp [show c = '\n' by simpa using hq]) h
    have hl : '\n' ∉ l := fun e => h (List.mem_cons_of_mem _ e)
    simp only [List.cons_append, fileLinesAux, hc, Bool.false_eq_true, ↓reduceIte]
    rw [ih rest (c :: acc) hl]
    simp

/-- a file made of newline-terminated lines is read back line by line -/
theorem fileLines_join : ∀ (lines : List Str), (∀ l ∈ lines, '\n' ∉ l) →
    fileLines (lines.flatMap (fun l => l ++ ['\n'])) = lines.map (fun l => l ++ ['\n']) := by
  intro lines
  induction lines with
  | nil => intro _; rfl
  | cons l ls ih =>
    intro h
    have hl := h l List.mem_cons_self
    have := ih (fun x hx => h x (List.mem_cons_of_mem _ hx))
    unfold fileLines at this ⊢
    simp only [List.flatMap_cons, List.map_cons, List.append_assoc, List.singleton_append]
    rw [fileLinesAux_skip l _ [] hl, this]
    simp

/-- one intended setting of a config file: option index, its name, and the argument (if the option takes one) -/
structure CfgEntry where
  i : Nat
  name : Str
  arg : Option Str

def CfgEntry.line (e : CfgEntry) : Str :=
  match e.arg with
  | some a => e.name ++ ' ' :: a
  | none => e.name

/-- the entry is spelled correctly for the table: exact option name, plain words, an argument iff the option takes one -/
structure CfgEntry.Good (opts : List Opt) (e : CfgEntry) : Prop where
  name_plain : Plain wsDelim e.name
  dash : e.name.head? = some '-'
  resolves : optidxExactly opts e.name = some e.i
  arg_ok : match e.arg with
    | some a => Plain wsDelim a ∧ a.head? ≠ some '"' ∧ (opts.getD e.i default).type ≠ 0
    | none => (opts.getD e.i default).type = 0

theorem plain_no_newline {w : Str} (h : Plain wsDelim w) : '\n' ∉ w := by
  intro hm
  have := h.2 '\n' hm
  simp [wsDelim] at this

theorem cfgItem_entry {opts : List Opt} {e : CfgEntry} (h : e.Good opts) :
    cfgItem opts (e.line ++ ['\n']) = some (.set e.i e.arg) := by
  obtain ⟨hn, hd, hr, ha⟩ := h
  unfold CfgEntry.line
  cases harg : e.arg with
  | none =>
    simp only [harg] at ha
    exact cfgItem_flag hn hd hr ha
  | some a =>
    simp only [harg] at ha
    have := cfgItem_name_arg hn ha.1 ha.2.1 hd hr ha.2.2
    simpa [List.append_assoc] using this

theorem entry_line_no_newline {opts : List Opt} {e : CfgEntry} (h : e.Good opts) : '\n' ∉ e.line := by
  obtain ⟨hn, _, _, ha⟩ := h
  unfold CfgEntry.line
  cases harg : e.arg with
  | none => exact plain_no_newline hn
  | some a =>
    simp only [harg] at ha
    intro hm
    rcases List.mem_append.mp hm with hm | hm
    · exact plain_no_newline hn hm
    · rcases List.mem_cons.mp hm with hm | hm
      · cases hm
      · exact plain_no_newline ha.1 hm

/-- **a config file written as one correctly spelled setting per line is parsed into exactly those settings, in order** -/
theorem cfgfile_items (opts : List Opt) (es : List CfgEntry) (h : ∀ e ∈ es, e.Good opts) :
    (fileLines (es.flatMap (fun e => e.line ++ ['\n']))).filterMap (cfgItem opts) = es.map (fun e => CfgItem.set e.i e.arg) := by
  have h1 : es.flatMap (fun e => e.line ++ ['\n']) = (es.map CfgEntry.line).flatMap (fun l => l ++ ['\n']) := by
    simp [List.flatMap_map]
  rw [h1, fileLines_join _ (by
    intro l hl
    obtain ⟨e, he, rfl⟩ := List.mem_map.mp hl
    exact entry_line_no_newline (h e he))]
  rw [List.map_map]
  induction es with
  | nil => rfl
  | cons e es ih =>
    simp only [List.map_cons, List.filterMap_cons, Function.comp]
    rw [cfgItem_entry (h e List.mem_cons_self)]
    simp only
    rw [ih (fun x hx => h x (List.mem_cons_of_mem _ hx))
      (by simp [List.flatMap_map])]

end EaselModel.Getopts
