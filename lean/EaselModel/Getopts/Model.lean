/-! # C14 — executable model of `esl_getopts.c`

Hand model (kind H), written function by function after the C code (pinned tree + the two `fix:` changes
named below).  Strings are `List Char` (one `Char` per C byte; the generator stays in ASCII), option values are
`Val` = `NULL` | `(char*)1` | a string, exactly the three shapes `g->val[i]` can have.

Covered C functions: `esl_getopts_Create` (default verification), `esl_getopts_Reuse`, `set_option`, `get_optidx_exactly`,
`get_optidx_abbrev`, `esl_getopts`, `process_longopt`, `process_stdopt`, `esl_opt_ProcessCmdline`,
`esl_opt_ProcessSpoof`, `esl_opt_ProcessEnvironment`, `esl_opt_ProcessConfigfile`, `esl_opt_VerifyConfig`,
`process_optlist`, `verify_type_and_range`, `verify_integer_range`, `verify_real_range`, `verify_char_range`,
`parse_rangestring`, `esl_str_IsInteger`, `esl_str_IsReal`, `esl_strtok`, and the queries `IsDefault IsOn IsUsed
GetSetter GetBoolean GetInteger GetReal GetChar GetString GetArg ArgNumber`.

Behaviour after the landed `fix:` commits (DESIGN §7 item 2; 8d4fde4; df08745):
* `process_stdopt`: only a single-character option `-c` matches the option character `c` of a cluster;
* `esl_opt_ProcessConfigfile`: an option that takes an argument and has none on its line is a usage error;
* a second `esl_opt_ProcessSpoof` on one object returns `eslEINVAL` with a message and leaves the object untouched.

Core Lean only (imported by the driver). -/
namespace EaselModel.Getopts

abbrev Str := List Char

inductive Status | ok | esyntax | einval
  deriving DecidableEq, Repr, Inhabited

/-- one row of the `ESL_OPTIONS` array (help string and docgroup do not influence processing) -/
structure Opt where
  name : Str
  type : Nat                 -- 0 NONE, 1 INT, 2 REAL, 3 CHAR, 4 STRING, 5 INFILE, 6 OUTFILE
  defval : Option Str := none
  envvar : Option Str := none
  range : Option Str := none
  toggle : Option Str := none
  required : Option Str := none
  incompat : Option Str := none
  deriving DecidableEq, Repr, Inhabited

/-- `g->val[i]`: `NULL`, the marker `(char *) TRUE`, or a C string -/
inductive Val | null | one | str (s : Str)
  deriving DecidableEq, Repr, Inhabited

def Val.isNull : Val → Bool
  | .null => true
  | _ => false

/-- setter codes -/
def byDefault : Nat := 0
def byCmdline : Nat := 1
def byEnv : Nat := 2
def byCfgfile : Nat := 3

structure G where
  opts : List Opt
  val : List Val
  setby : List Nat
  argv : List Str := []     -- argv of the last ProcessCmdline, including argv[0]
  optind : Nat := 1
  nfiles : Nat := 0
  spoofed : Bool := false
  deriving DecidableEq, Repr, Inhabited

def G.argc (g : G) : Nat := g.argv.length
def G.opt (g : G) (i : Nat) : Opt := g.opts.getD i default
def G.valOf (g : G) (i : Nat) : Val := g.val.getD i .null
def G.setter (g : G) (i : Nat) : Nat := g.setby.getD i 0

/-- outcome of one API call: new state, status, "errbuf was written"; or a crash of the C code -/
inductive R
  | done (g : G) (st : Status) (msg : Bool)
  | fault
  deriving DecidableEq, Repr, Inhabited

def isStringy (t : Nat) : Bool := t == 4 || t == 5 || t == 6

/-! ## libc pieces: `isspace`, `strtol`, `strtod` (decimal forms), `esl_strtok` -/

def isSpace (c : Char) : Bool :=
  c == ' ' || c == '\t' || c == '\n' || c == '\x0b' || c == '\x0c' || c == '\r'

def isDigit (c : Char) : Bool := '0' ≤ c && c ≤ '9'
def digitVal (c : Char) : Nat := c.toNat - 48

def digitsVal (ds : Str) : Nat := ds.foldl (fun a c => 10 * a + digitVal c) 0

/-- split off an optional sign -/
def signOf : Str → Bool × Str
  | '-' :: r => (true, r)
  | '+' :: r => (false, r)
  | t => (false, t)

/-- `strtol(s, &endp, 10)`: `none` when no conversion is possible (`endp == s`), else the exact value and the
    unconverted rest. -/
def strtol (s : Str) : Option (Int × Str) :=
  let st := signOf (s.dropWhile isSpace)
  let ds := st.2.takeWhile isDigit
  if ds.isEmpty then none
  else some ((if st.1 then - (digitsVal ds : Int) else (digitsVal ds : Int)), st.2.dropWhile isDigit)

/-- `esl_str_IsInteger` (`s == NULL` is the caller's `none`) -/
def isInteger (s : Str) : Bool :=
  match strtol s with
  | none => false
  | some (_, rest) => rest.all isSpace

/-- `(int) strtol(...)` as glibc's `atoi` computes it: clamp to `long`, truncate to 32 bits -/
def wrapInt (v : Int) : Int :=
  let v := if v > 9223372036854775807 then 9223372036854775807 else if v < -9223372036854775808 then -9223372036854775808 else v
  let m := v % 4294967296
  if m ≥ 2147483648 then m - 4294967296 else m

def atoi (s : Str) : Int :=
  match strtol s with
  | none => 0
  | some (v, _) => wrapInt v

/-- an exact decimal: `neg`, mantissa, power of ten -/
structure Dec where
  neg : Bool
  mant : Nat
  exp : Int
  deriving DecidableEq, Repr, Inhabited

/-- the fraction of a decimal literal, read after the integer digits: `(fraction digits, what follows)`.
    A `.` is consumed even when no digit follows it (`5.`). -/
def fracOf (t1 : Str) : Str × Str :=
  match t1 with
  | '.' :: r => (r.takeWhile isDigit, r.dropWhile isDigit)
  | _ => ([], t1)

/-- the exponent of a decimal literal: `e`/`E`, optional sign, at least one digit — otherwise nothing is consumed -/
def expOf (t2 : Str) : Int × Str :=
  match t2 with
  | c :: r =>
    if c == 'e' || c == 'E' then
      let sg := signOf r
      let ed := sg.2.takeWhile isDigit
      if ed.isEmpty then (0, t2)
      else ((if sg.1 then - (digitsVal ed : Int) else (digitsVal ed : Int)), sg.2.dropWhile isDigit)
    else (0, t2)
  | [] => (0, t2)

/-- `strtod` restricted to the decimal grammar `ws* [+-]? (d+ (. d*)? | . d+) ([eE] [+-]? d+)?`; `none` when no
    conversion.  (Hexadecimal, `inf`, `nan` forms are outside the model; the generator does not produce them.) -/
def strtod (s : Str) : Option (Dec × Str) :=
  let st := signOf (s.dropWhile isSpace)
  let ip := st.2.takeWhile isDigit
  let fr := fracOf (st.2.dropWhile isDigit)
  if ip.isEmpty && fr.1.isEmpty then none
  else
    let ex := expOf fr.2
    some ({ neg := st.1, mant := digitsVal (ip ++ fr.1), exp := - (fr.1.length : Int) + ex.1 }, ex.2)

/-- `esl_str_IsReal` -/
def isReal (s : Str) : Bool :=
  match strtod s with
  | none => false
  | some (_, rest) => rest.all isSpace

def atof (s : Str) : Dec :=
  match strtod s with
  | none => { neg := false, mant := 0, exp := 0 }
  | some (d, _) => d

/-- exact comparison of two decimals: sign of `a - b` scaled by a positive power of ten -/
def Dec.cmpKey (a b : Dec) : Int :=
  let e := min a.exp b.exp
  let sa : Int := (if a.neg then -1 else 1) * (a.mant * 10 ^ (a.exp - e).toNat : Nat)
  let sb : Int := (if b.neg then -1 else 1) * (b.mant * 10 ^ (b.exp - e).toNat : Nat)
  sa - sb

def Dec.lt (a b : Dec) : Bool := Dec.cmpKey a b < 0
def Dec.le (a b : Dec) : Bool := Dec.cmpKey a b ≤ 0

/-- `esl_strtok(&s, delim, &tok)`: `(tok, new s)`; when there is no token `s` is left unchanged -/
def strtok (s : Str) (delim : Str) : Option Str × Str :=
  let t := s.dropWhile (fun c => delim.contains c)
  match t with
  | [] => (none, s)
  | _ =>
    let tok := t.takeWhile (fun c => !delim.contains c)
    match t.dropWhile (fun c => !delim.contains c) with
    | [] => (some tok, [])
    | _ :: r => (some tok, r)

def wsDelim : Str := [' ', '\t', '\n']

/-! ## range strings -/

structure Range where
  lower : Option Str
  geq : Bool
  upper : Option Str
  leq : Bool
  deriving Repr, DecidableEq, Inhabited

def idxOf (c : Char) : Str → Option Nat
  | [] => none
  | d :: r => if d == c then some 0 else (idxOf c r).map (· + 1)

/-- `parse_rangestring(range, c, ...)`; `none` = `eslEINVAL` (malformed range string) -/
def parseRange (range : Str) (c : Char) : Option Range :=
  match idxOf c range with
  | none => none
  | some p =>
    if p == 0 then
      -- "c>=a", "c>a", "c<=b", "c<b"
      let r1 := range.getD 1 '\x00'
      let r2 := range.getD 2 '\x00'
      if r1 == '>' then
        if r2 == '=' then some { lower := some (range.drop 3), geq := true, upper := none, leq := false }
        else some { lower := some (range.drop 2), geq := false, upper := none, leq := false }
      else if r1 == '<' then
        if r2 == '=' then some { lower := none, geq := false, upper := some (range.drop 3), leq := true }
        else some { lower := none, geq := false, upper := some (range.drop 2), leq := false }
      else none
    else
      -- "a<=c<=b": upper bound after c, lower bound = start of the string
      if range.getD (p + 1) '\x00' != '<' then none
      else
        let leq := range.getD (p + 2) '\x00' == '='
        let upper := if leq then range.drop (p + 3) else range.drop (p + 2)
        -- ptr--; if (*ptr == '=') { geq; ptr--; } if (*ptr != '<') EINVAL
        let q := p - 1
        let geq := range.getD q '\x00' == '='
        if geq && q == 0 then none      -- would read before the string: malformed table
        else
          let q' := if geq then q - 1 else q
          if range.getD q' '\x00' != '<' then none
          else some { lower := some range, geq := geq, upper := some upper, leq := leq }

/-- `verify_integer_range`: `true` = `eslOK` -/
def intRangeOk (arg : Str) (range : Option Str) : Bool :=
  match range with
  | none => true
  | some r =>
    let n := atoi arg
    match parseRange r 'n' with
    | none => false
    | some rg =>
      (match rg.lower with
        | none => true
        | some lp => if rg.geq then n ≥ atoi lp else n > atoi lp) &&
      (match rg.upper with
        | none => true
        | some up => if rg.leq then n ≤ atoi up else n < atoi up)

/-- `verify_real_range` -/
def realRangeOk (arg : Str) (range : Option Str) : Bool :=
  match range with
  | none => true
  | some r =>
    let x := atof arg
    match parseRange r 'x' with
    | none => false
    | some rg =>
      (match rg.lower with
        | none => true
        | some lp => if rg.geq then Dec.le (atof lp) x else Dec.lt (atof lp) x) &&
      (match rg.upper with
        | none => true
        | some up => if rg.leq then Dec.le x (atof up) else Dec.lt x (atof up))

/-- `verify_char_range` (`c = *arg`, the NUL for an empty string) -/
def charRangeOk (arg : Str) (range : Option Str) : Bool :=
  match range with
  | none => true
  | some r =>
    let c := (arg.getD 0 '\x00').toNat
    match parseRange r 'c' with
    | none => false
    | some rg =>
      (match rg.lower with
        | none => true
        | some lp => let l := (lp.getD 0 '\x00').toNat; if rg.geq then c ≥ l else c > l) &&
      (match rg.upper with
        | none => true
        | some up => let u := (up.getD 0 '\x00').toNat; if rg.leq then c ≤ u else c < u)

/-- result of `verify_type_and_range` -/
inductive V | good | bad | exc | fault
  deriving DecidableEq, Repr

/-- `verify_type_and_range(g, i, val, setby)`; `bad` = `eslESYNTAX` with a message, `exc` = `ESL_EXCEPTION`
    (malformed table), `fault` = the C code dereferences NULL (`strlen(NULL)`) -/
def verifyTypeRange (o : Opt) (val : Option Str) (src : Nat) : V :=
  if src == byDefault && val.isNone then .good
  else match o.type with
  | 0 => .good
  | 1 => match val with
    | none => .bad
    | some v => if !isInteger v then .bad else if !intRangeOk v o.range then .bad else .good
  | 2 => match val with
    | none => .bad
    | some v => if !isReal v then .bad else if !realRangeOk v o.range then .bad else .good
  | 3 => match val with
    | none => .fault
    | some v => if v.length > 1 then .bad else if !charRangeOk v o.range then .bad else .good
  | 4 | 5 | 6 => if o.range.isSome then .exc else .good
  | _ => .exc

/-! ## option lookup -/

/-- `get_optidx_exactly` -/
def optidxExactly (opts : List Opt) (name : Str) : Option Nat :=
  opts.findIdx? (fun o => o.name == name)

inductive Abbrev | found (i : Nat) | notfound | ambiguous
  deriving DecidableEq, Repr

/-- the scan loop of `get_optidx_abbrev`: `(nabbrev, nexact, last matching index)` -/
def abbrevScan (key : Str) : List Opt → Nat → Nat → Nat → Nat × Nat × Nat
  | [], _, nab, last => (nab, 0, last)
  | o :: os, i, nab, last =>
    if key.isPrefixOf o.name then
      if key.length == o.name.length then (nab + 1, 1, i)
      else abbrevScan key os (i + 1) (nab + 1) i
    else abbrevScan key os (i + 1) nab last

/-- `get_optidx_abbrev(g, optname, n, &opti)` with `key` = the first `n` characters of `optname` -/
def optidxAbbrev (opts : List Opt) (key : Str) : Abbrev :=
  let (nab, nex, last) := abbrevScan key opts 0 0 0
  if nex != 1 && nab > 1 then .ambiguous
  else if nab == 0 then .notfound
  else .found last

/-- the elements `process_optlist` walks through in a comma-separated list -/
def optlistElemsAux : Str → Str → List Str
  | [], acc => if acc.isEmpty then [] else [acc.reverse]
  | c :: r, acc => if c == ',' then acc.reverse :: optlistElemsAux r [] else optlistElemsAux r (c :: acc)

def optlistElems (s : Option Str) : List Str :=
  match s with
  | none => []
  | some s => optlistElemsAux s []

/-- `process_optlist` lookup: first option whose name starts with the element -/
def optlistResolve (opts : List Opt) (e : Str) : Option Nat :=
  opts.findIdx? (fun o => e.isPrefixOf o.name)

/-! ## `set_option` -/

def G.put (g : G) (i : Nat) (v : Val) (src : Nat) : G :=
  { g with val := g.val.set i v, setby := g.setby.set i src }

/-- the toggle loop at the end of `set_option` -/
def toggleLoop (g : G) (i src : Nat) : List Str → R
  | [] => .done g .ok false
  | e :: es =>
    match optlistResolve g.opts e with
    | none => .done g .einval false
    | some t =>
      if t == i then toggleLoop g i src es
      else if (g.valOf t).isNull then toggleLoop g i src es
      else if g.setter t == src then .done g .esyntax true
      else toggleLoop (g.put t .null src) i src es

/-- the value `set_option` stores -/
def newVal (o : Opt) (arg : Option Str) : Val :=
  if o.type == 0 then (match o.defval with | some d => .str d | none => .one)
  else match arg with
    | some a => .str a
    | none => .null

/-- `set_option(g, opti, optarg, setby, do_alloc)` on abstract values (the allocation layer is `Alloc.lean`, whose erasure this is) -/
def setOption (g : G) (i : Nat) (arg : Option Str) (src : Nat) : R :=
  if g.setter i == src then .done g .esyntax true
  else match verifyTypeRange (g.opt i) arg src with
    | .fault => .fault
    | .exc => .done g .esyntax false      -- `if (verify_type_and_range(...) != eslOK) return eslESYNTAX;` — the exception's eslEINVAL is not passed on, errbuf is not written
    | .bad => .done g .esyntax true
    | .good => toggleLoop (g.put i (newVal (g.opt i) arg) src) i src (optlistElems (g.opt i).toggle)

/-! ## command line -/

def startsWithDash (s : Str) : Bool :=
  match s with
  | '-' :: _ => true
  | _ => false

/-- `process_stdopt` (fixed): only `-c` matches option character `c` -/
def findShort (opts : List Opt) (c : Char) : Option Nat :=
  opts.findIdx? (fun o => o.name == ['-', c])

/-- outcome of working through one argv element -/
inductive Step
  | cont (g : G) (extra : Bool)                              -- go on; `extra` = the next argv element was consumed too
  | stop (g : G) (st : Status) (msg : Bool) (adv : Nat)      -- return from ProcessCmdline; optind advanced by `adv`
  | fault
  deriving Repr

/-- one optstring `-abc…` : `cs` = option characters still to do, `next` = the following argv element -/
def stdLoop (g : G) : Str → Option Str → Step
  | [], _ => .cont g false
  | c :: cs, next =>
    match findShort g.opts c with
    | none => .stop g .esyntax true 1
    | some i =>
      if (g.opt i).type != 0 then
        if !cs.isEmpty then
          match setOption g i (some cs) byCmdline with
          | .fault => .fault
          | .done g' .ok _ => .cont g' false
          | .done g' st m => .stop g' st m 1
        else match next with
          | none => .stop g .esyntax true 1
          | some a =>
            if isStringy (g.opt i).type && startsWithDash a then .stop g .esyntax true 2
            else match setOption g i (some a) byCmdline with
              | .fault => .fault
              | .done g' .ok _ => .cont g' true
              | .done g' st m => .stop g' st m 2
      else
        match setOption g i none byCmdline with
        | .fault => .fault
        | .done g' .ok _ => if cs.isEmpty then .cont g' false else stdLoop g' cs next
        | .done g' st m => .stop g' st m 1

/-- split `--foo=arg` at the first `=` -/
def splitEq : Str → Str × Option Str
  | [] => ([], none)
  | c :: r => if c == '=' then ([], some r) else let (a, b) := splitEq r; (c :: a, b)

/-- `process_longopt` followed by `set_option` -/
def longOpt (g : G) (w : Str) (next : Option Str) : Step :=
  let (key, argptr) := splitEq w
  match optidxAbbrev g.opts key with
  | .ambiguous => .stop g .esyntax true 0
  | .notfound => .stop g .esyntax true 0
  | .found i =>
    if (g.opt i).type != 0 then
      match argptr with
      | some a =>
        (match setOption g i (some a) byCmdline with
          | .fault => .fault
          | .done g' .ok _ => .cont g' false
          | .done g' st m => .stop g' st m 1)
      | none =>
        match next with
        | none => .stop g .esyntax true 1
        | some a =>
          if isStringy (g.opt i).type && startsWithDash a then .stop g .esyntax true 2
          else match setOption g i (some a) byCmdline with
            | .fault => .fault
            | .done g' .ok _ => .cont g' true
            | .done g' st m => .stop g' st m 2
    else
      match argptr with
      | some _ => .stop g .esyntax true 1
      | none =>
        match setOption g i none byCmdline with
        | .fault => .fault
        | .done g' .ok _ => .cont g' false
        | .done g' st m => .stop g' st m 1

/-- one option element of argv: `--long…` goes to `process_longopt`, anything else to `process_stdopt` -/
def optStep (g : G) (w : Str) (next : Option Str) : Step :=
  match w with
  | '-' :: '-' :: _ => longOpt g w next
  | _ => stdLoop g (w.drop 1) next

/-- is this argv element the end of the options (`esl_getopts` returns `eslEOD` without consuming it)? -/
def isArgWord (w : Str) : Bool := !startsWithDash w || w == ['-']

/-- the `while (esl_getopts(...) == eslOK) set_option(...)` loop of `esl_opt_ProcessCmdline`.
    `k` = `optind`, the list = `argv[k..]`, `skip` = the head element was consumed as an option argument. -/
def cmdLoop (g : G) : Nat → List Str → Bool → R
  | k, [], _ => .done { g with optind := k } .ok false
  | k, _ :: tl, true => cmdLoop g k tl false
  | k, w :: tl, false =>
    if isArgWord w then .done { g with optind := k } .ok false
    else if w == ['-', '-'] then .done { g with optind := k + 1 } .ok false
    else
      match optStep g w tl.head? with
      | .fault => .fault
      | .stop g' st m adv => .done { g' with optind := k + adv } st m
      | .cont g' extra => cmdLoop g' (k + 1 + (if extra then 1 else 0)) tl extra

/-- `esl_opt_ProcessCmdline(g, argc, argv)` -/
def processCmdline (g : G) (argv : List Str) : R :=
  cmdLoop { g with argv := argv, optind := 1 } 1 (argv.drop 1) false

/-- tokenizer of `esl_opt_ProcessSpoof` -/
def spoofTokens : Nat → Str → List Str
  | 0, _ => []
  | fuel + 1, s =>
    match s with
    | [] => []
    | c :: _ =>
      let (tok, s') := if c == '"' then strtok s ['"'] else strtok s wsDelim
      match tok with
      | none => []
      | some t => t :: spoofTokens fuel s'

/-- `esl_opt_ProcessSpoof` -/
def processSpoof (g : G) (cmdline : Str) : R :=
  if g.spoofed then .done g .einval true
  else processCmdline { g with spoofed := true } (spoofTokens (cmdline.length + 1) cmdline)

/-! ## environment, config files -/

/-- `esl_opt_ProcessEnvironment`: `env` = the process environment as a lookup -/
def envLoop (env : Str → Option Str) (g : G) : Nat → List Opt → R
  | _, [] => .done g .ok false
  | i, o :: os =>
    match o.envvar with
    | none => envLoop env g (i + 1) os
    | some name =>
      match env name with
      | none => envLoop env g (i + 1) os
      | some v =>
        match setOption g i (some v) byEnv with
        | .fault => .fault
        | .done g' .ok _ => envLoop env g' (i + 1) os
        | .done g' st m => .done g' st m

def processEnvironment (g : G) (env : Str → Option Str) : R := envLoop env g 0 g.opts

/-- the lines `esl_fgets` delivers (each with its `\n`, except possibly the last) -/
def fileLinesAux : Str → Str → List Str
  | [], acc => if acc.isEmpty then [] else [acc.reverse]
  | c :: r, acc => if c == '\n' then (c :: acc).reverse :: fileLinesAux r [] else fileLinesAux r (c :: acc)

def fileLines (content : Str) : List Str := fileLinesAux content []

/-- the three tokens `esl_opt_ProcessConfigfile` takes from a line: option name, argument, rest-of-line token -/
def cfgTokens (line : Str) : Option Str × Option Str × Option Str :=
  let (optname, s) := strtok line wsDelim
  let (optarg, s) := if s.head? == some '"' then strtok s ['"'] else strtok s wsDelim
  let (comment, _) := strtok s wsDelim
  (optname, optarg, comment)

/-- one data line of a config file; `none` = line skipped -/
def cfgLine (g : G) (line : Str) : Option R :=
  match cfgTokens line with
  | (none, _, _) => none
  | (some name, optarg, comment) =>
    if name.head? == some '#' then none
    else if name.head? != some '-' then some (.done g .esyntax true)
    else if comment.isSome && (comment.bind List.head?) != some '#' then some (.done g .esyntax true)
    else match optidxExactly g.opts name with
      | none => some (.done g .esyntax true)
      | some i =>
        -- fix 8d4fde4: an option that takes an argument must have one on its line
        if (g.opt i).type != 0 && optarg.isNone then some (.done g .esyntax true)
        else some (setOption g i optarg (byCfgfile + g.nfiles))

def cfgLoop (g : G) : List Str → R
  | [] => .done { g with nfiles := g.nfiles + 1 } .ok false
  | l :: ls =>
    match cfgLine g l with
    | none => cfgLoop g ls
    | some .fault => .fault
    | some (.done g' .ok _) => cfgLoop g' ls
    | some (.done g' st m) => .done g' st m

/-- `esl_opt_ProcessConfigfile` on a file with the given content -/
def processConfigfile (g : G) (content : Str) : R := cfgLoop g (fileLines content)

/-! ## `esl_opt_VerifyConfig` -/

def G.isSetOn (g : G) (i : Nat) : Bool := g.setter i != byDefault && !(g.valOf i).isNull

/-- requirement loop for option `i` : `none` = all fine, `some st` = return with that status -/
def reqLoop (g : G) : List Str → Option (Status × Bool)
  | [] => none
  | e :: es =>
    match optlistResolve g.opts e with
    | none => some (.einval, false)
    | some r => if (g.valOf r).isNull then some (.esyntax, true) else reqLoop g es

def incLoop (g : G) (i : Nat) : List Str → Option (Status × Bool)
  | [] => none
  | e :: es =>
    match optlistResolve g.opts e with
    | none => some (.einval, false)
    | some c => if c != i && g.isSetOn c then some (.esyntax, true) else incLoop g i es

def verifyReq (g : G) : Nat → List Opt → Option (Status × Bool)
  | _, [] => none
  | i, o :: os =>
    if g.isSetOn i then
      match reqLoop g (optlistElems o.required) with
      | some r => some r
      | none => verifyReq g (i + 1) os
    else verifyReq g (i + 1) os

def verifyInc (g : G) : Nat → List Opt → Option (Status × Bool)
  | _, [] => none
  | i, o :: os =>
    if g.isSetOn i then
      match incLoop g i (optlistElems o.incompat) with
      | some r => some r
      | none => verifyInc g (i + 1) os
    else verifyInc g (i + 1) os

def verifyConfig (g : G) : Status × Bool :=
  match verifyReq g 0 g.opts with
  | some r => r
  | none =>
    match verifyInc g 0 g.opts with
    | some r => r
    | none => (.ok, false)

/-! ## creation and queries -/

def createLoop : List Opt → Bool
  | [] => true
  | o :: os => verifyTypeRange o o.defval byDefault == .good && createLoop os

/-- `esl_getopts_Create`: `none` = NULL returned (invalid defaults or names) -/
def create (opts : List Opt) : Option G :=
  if opts.all (fun o => o.name.head? == some '-') && createLoop opts then
    some { opts := opts, val := opts.map (fun o => match o.defval with | some d => Val.str d | none => Val.null),
           setby := opts.map (fun _ => byDefault) }
  else none

/-- `esl_getopts_Reuse`: back to the state `esl_getopts_Create` produced -/
def reuse (g : G) : G :=
  { opts := g.opts, val := g.opts.map (fun o => match o.defval with | some d => Val.str d | none => Val.null),
    setby := g.opts.map (fun _ => byDefault) }

def isDefault (g : G) (i : Nat) : Bool :=
  if g.setter i == byDefault then true
  else match g.valOf i, (g.opt i).defval with
    | .null, none => true
    | .str v, some d => v == d
    | _, _ => false

def isOn (g : G) (i : Nat) : Bool := !(g.valOf i).isNull

def isUsed (g : G) (i : Nat) : Bool :=
  if isDefault g i then false else if (g.valOf i).isNull then false else true

/-- `esl_opt_ArgNumber` -/
def argNumber (g : G) : Int := (g.argc : Int) - g.optind

/-- `esl_opt_GetArg(g, which)` -/
def getArg (g : G) (which : Int) : Option Str :=
  if which ≤ 0 then none
  else if (g.optind : Int) + which - 1 ≥ g.argc then none
  else g.argv[(g.optind + which.toNat - 1)]?

/-- canonical form of a real value for the protocol: `m × 10^e` with `m` not divisible by ten -/
def Dec.normAux : Nat → Nat → Int → Nat × Int
  | 0, m, e => (m, e)
  | fuel + 1, m, e => if m != 0 && m % 10 == 0 then Dec.normAux fuel (m / 10) (e + 1) else (m, e)

def Dec.canon (d : Dec) : String :=
  if d.mant == 0 then "0"
  else
    let (m, e) := Dec.normAux 400 d.mant d.exp
    (if d.neg then "-" else "") ++ toString m ++ "e" ++ toString e

end EaselModel.Getopts
