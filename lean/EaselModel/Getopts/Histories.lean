import EaselModel.Getopts.Stops
/-! # C14 — successful runs of every source are `set_option` histories; every sequence of API calls ends cleanly. -/
namespace EaselModel.Getopts

/-- the settings of a parsed config file, up to the first usage error -/
def cfgEvs (src : Nat) : List CfgItem → List Ev
  | [] => []
  | .usage :: _ => []
  | .set i arg :: is => ⟨i, arg, src⟩ :: cfgEvs src is

/-- the settings of a parsed command line, up to the item at which parsing stops -/
def cmdEvs : List CmdItem → List Ev
  | [] => []
  | .stop _ _ _ :: _ => []
  | .set i arg _ :: is => ⟨i, arg, byCmdline⟩ :: cmdEvs is

/-- a config file that is processed successfully is the history of its settings (then the file counter advances) -/
theorem runCfg_ok_runSets (src : Nat) : ∀ (is : List CfgItem) (g g' : G) (m : Bool), runCfg src g is = .done g' .ok m →
    ∃ g0, runSets g (cfgEvs src is) = some g0 ∧ g' = { g0 with nfiles := g0.nfiles + 1 } := by
  intro is
  induction is with
  | nil => intro g g' m h; simp [runCfg] at h; exact ⟨g, rfl, h.1.symm⟩
  | cons it is ih =>
    intro g g' m h
    cases it with
    | usage => simp [runCfg] at h
    | set i arg =>
      simp only [runCfg] at h
      cases hs : setOption g i arg src with
      | fault => simp [hs] at h
      | done g1 st m1 =>
        cases st with
        | ok =>
          simp only [hs] at h
          obtain ⟨g0, h1, h2⟩ := ih g1 g' m h
          exact ⟨g0, by simp [cfgEvs, runSets, hs]; exact h1, h2⟩
        | esyntax => simp [hs] at h
        | einval => simp [hs] at h

/-- a command line that is processed successfully is the history of its settings (then `optind` is recorded) -/
theorem runCmd_ok_runSets : ∀ (is : List CmdItem) (g g' : G) (m : Bool),
    runCmd (fun g' => .done g' .ok false) g is = .done g' .ok m →
    ∃ g0, runSets g (cmdEvs is) = some g0 ∧ g'.val = g0.val ∧ g'.setby = g0.setby ∧ g'.opts = g0.opts := by
  intro is
  induction is with
  | nil => intro g g' m h; simp [runCmd] at h; exact ⟨g, rfl, by simp [← h.1]⟩
  | cons it is ih =>
    intro g g' m h
    cases it with
    | stop st m' k =>
      simp only [runCmd] at h
      simp at h
      exact ⟨g, by simp [cmdEvs, runSets], by simp [← h.1]⟩
    | set i arg kf =>
      simp only [runCmd] at h
      cases hs : setOption g i arg byCmdline with
      | fault => simp [hs] at h
      | done g1 st m1 =>
        cases st with
        | ok =>
          simp only [hs] at h
          obtain ⟨g0, h1, h2⟩ := ih g1 g' m h
          exact ⟨g0, by simp [cmdEvs, runSets, hs]; exact h1, h2⟩
        | esyntax => simp [hs] at h
        | einval => simp [hs] at h

/-! ## all histories of API calls -/

/-- one configuration source handed to the API -/
inductive Src
  | cmdline (argv : List Str)
  | spoof (s : Str)
  | env (e : Str → Option Str)
  | cfg (content : Str)

def applySrc (g : G) : Src → R
  | .cmdline argv => processCmdline g argv
  | .spoof s => processSpoof g s
  | .env e => processEnvironment g e
  | .cfg c => processConfigfile g c

/-- process sources one after the other, whatever each returns (an application may go on after a usage error);
    `none` = the C code crashed -/
def runAll : G → List Src → Option (List (Status × Bool) × G)
  | g, [] => some ([], g)
  | g, s :: ss =>
    match applySrc g s with
    | .fault => none
    | .done g' st m => (runAll g' ss).map (fun r => ((st, m) :: r.1, r.2))

/-- **every history ends cleanly**: for a well-formed table, any sequence of command lines, spoofed command lines,
    environments and config files, in any order, never crashes; each call returns success without message or
    `eslESYNTAX` with a message (a *second* spoofed command line: `eslEINVAL` with a message, as documented in
    the code); the object stays well-shaped -/
theorem runAll_clean : ∀ (ss : List Src) (g : G), Inv g → WF g.opts →
    ∃ outs g', runAll g ss = some (outs, g') ∧ outs.length = ss.length ∧ Inv g' ∧ g'.opts = g.opts ∧
      ∀ o ∈ outs, Clean o.1 o.2 ∨ o = (.einval, true) := by
  intro ss
  induction ss with
  | nil => intro g hinv _; exact ⟨[], g, rfl, rfl, hinv, rfl, by simp⟩
  | cons s ss ih =>
    intro g hinv hw
    have hstep : ∃ g1 st m, applySrc g s = .done g1 st m ∧ (Clean st m ∨ (st, m) = (.einval, true)) ∧ Inv g1 ∧ g1.opts = g.opts := by
      cases s with
      | cmdline argv =>
        obtain ⟨g1, st, m, h1, h2, h3, h4⟩ := processCmdline_good g argv hinv hw
        exact ⟨g1, st, m, h1, Or.inl h2, h3, h4⟩
      | spoof t =>
        by_cases hs : g.spoofed = false
        · obtain ⟨g1, st, m, h1, h2, h3, h4⟩ := processSpoof_good g t hinv hw hs
          exact ⟨g1, st, m, h1, Or.inl h2, h3, h4⟩
        · have hs' : g.spoofed = true := by simpa using hs
          exact ⟨g, .einval, true, by simp [applySrc, processSpoof, hs'], Or.inr rfl, hinv, rfl⟩
      | env e =>
        obtain ⟨g1, st, m, h1, h2, h3, h4⟩ := processEnvironment_good g e hinv hw
        exact ⟨g1, st, m, h1, Or.inl h2, h3, h4⟩
      | cfg c =>
        obtain ⟨g1, st, m, h1, h2, h3, h4⟩ := processConfigfile_good g c hinv hw
        exact ⟨g1, st, m, h1, Or.inl h2, h3, h4⟩
    obtain ⟨g1, st, m, h1, h2, h3, h4⟩ := hstep
    obtain ⟨outs, g', e1, e2, e3, e4, e5⟩ := ih g1 h3 (by rw [h4]; exact hw)
    refine ⟨(st, m) :: outs, g', by simp [runAll, h1, e1], by simp [e2], e3, e4.trans h4, ?_⟩
    intro o ho
    rcases List.mem_cons.mp ho with rfl | ho
    · exact h2
    · exact e5 o ho

/-! ## option lists denote the options they name -/

/-- an element of a toggle / required / incompatible list denotes the option of exactly that name, provided no
    earlier table row has a name that merely starts with it (`process_optlist` takes the first prefix match:
    "optlists are not user input, so the answer to this problem is: don't do that") -/
theorem optlistResolve_named {opts : List Opt} {i : Nat} {o : Opt} (hi : opts[i]? = some o)
    (hfirst : ∀ (j : Nat) (o' : Opt), j < i → opts[j]? = some o' → o.name.isPrefixOf o'.name = false) :
    optlistResolve opts o.name = some i := by
  unfold optlistResolve
  obtain ⟨hlt, heq⟩ := List.getElem?_eq_some_iff.mp hi
  rw [List.findIdx?_eq_some_iff_getElem]
  refine ⟨hlt, ?_, ?_⟩
  · rw [heq]; simp [List.isPrefixOf_iff_prefix]
  · intro j hj
    have := hfirst j opts[j] hj (by simp [Nat.lt_trans hj hlt])
    simp [this]

/-- comma-separated spelling of a list of names -/
def joinComma : List Str → Str
  | [] => []
  | [n] => n
  | n :: m :: ns => n ++ ',' :: joinComma (m :: ns)

theorem optlistElemsAux_skip : ∀ (n rest acc : Str), ',' ∉ n →
    optlistElemsAux (n ++ rest) acc = optlistElemsAux rest (n.reverse ++ acc) := by
  intro n
  induction n with
  | nil => intro rest acc _; rfl
  | cons c n ih =>
    intro rest acc h
    have hc : (c == ',') = false := by
      cases hq : c == ',' with
      | false => rfl
      | true => exact absurd (by simp [show c = ',' by simpa using hq]) h
    have hn : ',' ∉ n := fun e => h (List.mem_cons_of_mem _ e)
    simp only [List.cons_append, optlistElemsAux, hc, Bool.false_eq_true, ↓reduceIte]
    rw [ih rest (c :: acc) hn]
    simp

/-- a list written as comma-separated names (no commas inside, none empty) is read back as exactly those names -/
theorem optlistElems_joinComma : ∀ (names : List Str), (∀ n ∈ names, ',' ∉ n ∧ n ≠ []) →
    optlistElems (some (joinComma names)) = names := by
  intro names
  induction names with
  | nil => intro _; rfl
  | cons n ns ih =>
    intro h
    obtain ⟨hn1, hn2⟩ := h n List.mem_cons_self
    have hns : ∀ m ∈ ns, ',' ∉ m ∧ m ≠ [] := fun m hm => h m (List.mem_cons_of_mem _ hm)
    cases ns with
    | nil =>
      have := optlistElemsAux_skip n [] [] hn1
      simp only [List.append_nil] at this
      simp only [optlistElems, joinComma, this, optlistElemsAux]
      have : n.reverse.isEmpty = false := by
        cases n with
        | nil => exact absurd rfl hn2
        | cons a b => simp
      simp [this]
    | cons m ms =>
      have h1 := optlistElemsAux_skip n (',' :: joinComma (m :: ms)) [] hn1
      have ih' := ih hns
      simp only [optlistElems] at ih' ⊢
      simp only [joinComma, h1, List.append_nil, optlistElemsAux, beq_self_eq_true, ↓reduceIte, List.reverse_reverse, ih']

end EaselModel.Getopts
