import EaselModel.Getopts.Tokens
/-! # C14 — `--name=` : a long option with an EMPTY attached value

`process_longopt` splits the word at the first `=`; what follows (`argptr`), possibly nothing, is the argument.
So `--flag=` is "an argument to an option that takes none" (usage error), and `--name=` hands the empty string to
`set_option` and consumes no further word: refused by the integer and real syntax checks, stored as `""` by the
unchecked types, and for a character option the "character" is the terminator. -/
namespace EaselModel.Getopts

/-- `--flag=` : usage error with a message, whatever follows -/
theorem parseLong_flag_empty_value {opts : List Opt} {name : Str} {i : Nat} (k : Nat) (next : Option Str) (hne : '=' ∉ name)
    (hi : optidxAbbrev opts name = .found i) (ht : (opts.getD i default).type = 0) :
    parseLong opts k (name ++ ['=']) next = ([.stop .esyntax true (k + 1)], none) := by
  have ht' : ((opts.getD i default).type != 0) = false := by rw [ht]; rfl
  unfold parseLong
  simp only [splitEq_eq name [] hne, hi, ht', Bool.false_eq_true, ↓reduceIte]

/-- `--name=` : one `set_option` call with the empty string; the next word is NOT consumed -/
theorem parseLong_empty_value {opts : List Opt} {name : Str} {i : Nat} (k : Nat) (next : Option Str) (hne : '=' ∉ name)
    (hi : optidxAbbrev opts name = .found i) (ht : (opts.getD i default).type ≠ 0) :
    parseLong opts k (name ++ ['=']) next = ([.set i (some []) (k + 1)], some false) := parseLong_eq_form k next hne hi ht

/-- … on the whole command line: the element after `--name=` is parsed as an element of its own -/
theorem parseCmd_empty_value {opts : List Opt} {r : Str} {i : Nat} (k : Nat) (tl : List Str) (hr : r ≠ []) (hne : '=' ∉ r)
    (hi : optidxAbbrev opts ('-' :: '-' :: r) = .found i) (ht : (opts.getD i default).type ≠ 0) :
    parseCmd opts k (('-' :: '-' :: r ++ ['=']) :: tl) false = .set i (some []) (k + 1) :: parseCmd opts (k + 1) tl false := by
  have hne' : '=' ∉ ('-' :: '-' :: r) := by
    intro h
    rcases List.mem_cons.mp h with h | h
    · cases h
    · rcases List.mem_cons.mp h with h | h
      · cases h
      · exact hne h
  have h2 : (('-' :: '-' :: r ++ ['=']) == ['-', '-']) = false := by
    cases r with
    | nil => exact absurd rfl hr
    | cons a b => cases b <;> simp
  have hp := parseLong_empty_value (opts := opts) k tl.head? hne' hi ht
  conv => lhs; unfold parseCmd
  simp only [isArgWord, startsWithDash, Bool.not_true, Bool.false_or]
  have h1 : (('-' :: '-' :: r ++ ['=']) == ['-']) = false := by simp
  simp only [List.cons_append] at h1 h2 hp ⊢
  simp only [h1, h2, Bool.false_eq_true, ↓reduceIte, parseOpt, hp]
  simp

/-- what `set_option`'s type check makes of the empty string: integers and reals need a digit -/
theorem empty_value_not_a_number (o : Opt) (src : Nat) (hs : src ≠ byDefault) (ht : o.type = 1 ∨ o.type = 2) :
    verifyTypeRange o (some []) src = .bad := by
  have hb : (src == byDefault && (some ([] : Str)).isNone) = false := by simp
  unfold verifyTypeRange
  rcases ht with ht | ht
  · simp only [hb, Bool.false_eq_true, ↓reduceIte, ht]; rfl
  · simp only [hb, Bool.false_eq_true, ↓reduceIte, ht]; rfl

/-- … the unchecked types take it as the empty string -/
theorem empty_value_is_a_string (o : Opt) (src : Nat) (ht : o.type = 4 ∨ o.type = 5 ∨ o.type = 6) (hr : o.range = none) :
    verifyTypeRange o (some []) src = .good ∧ newVal o (some []) = .str [] := by
  have hb : (src == byDefault && (some ([] : Str)).isNone) = false := by simp
  unfold verifyTypeRange newVal
  rcases ht with ht | ht | ht <;> simp [hb, ht, hr]

/-- … and for a character option it is the terminator, subject to the range like any character -/
theorem empty_value_char (o : Opt) (src : Nat) (ht : o.type = 3) :
    verifyTypeRange o (some []) src = (if charRangeOk [] o.range then .good else .bad) := by
  have hb : (src == byDefault && (some ([] : Str)).isNone) = false := by simp
  unfold verifyTypeRange
  simp only [hb, Bool.false_eq_true, ↓reduceIte, ht]
  cases charRangeOk [] o.range <;> simp

end EaselModel.Getopts
