import EaselModel.Getopts.Sources
/-! # C14 — where a successful command line stops: at the end of argv, at the first non-option word, or right after `--`. -/
namespace EaselModel.Getopts

def CmdItem.isOkStop : CmdItem → Option Nat
  | .stop .ok _ k => some k
  | _ => none

theorem parseStd_no_okstop (opts : List Opt) (k : Nat) : ∀ (cs : Str) (next : Option Str),
    (∀ it ∈ (parseStd opts k cs next).1, it.isOkStop = none) ∧ ((parseStd opts k cs next).2 = some true → next.isSome) := by
  intro cs
  induction cs with
  | nil => intro next; simp [parseStd]
  | cons c cs ih =>
    intro next
    unfold parseStd
    cases findShort opts c with
    | none => simp [CmdItem.isOkStop]
    | some i =>
      simp only
      split
      · split
        · simp [CmdItem.isOkStop]
        · cases next with
          | none => simp [CmdItem.isOkStop]
          | some a =>
            simp only
            split <;> simp [CmdItem.isOkStop]
      · split
        · simp [CmdItem.isOkStop]
        · obtain ⟨h1, h2⟩ := ih next
          refine ⟨?_, h2⟩
          intro it hit
          rcases List.mem_cons.mp hit with rfl | hit
          · rfl
          · exact h1 it hit

theorem parseLong_no_okstop (opts : List Opt) (k : Nat) (w : Str) (next : Option Str) :
    (∀ it ∈ (parseLong opts k w next).1, it.isOkStop = none) ∧ ((parseLong opts k w next).2 = some true → next.isSome) := by
  unfold parseLong
  cases optidxAbbrev opts (splitEq w).1 with
  | ambiguous => simp [CmdItem.isOkStop]
  | notfound => simp [CmdItem.isOkStop]
  | found i =>
    simp only
    split
    · cases (splitEq w).2 with
      | some a => simp [CmdItem.isOkStop]
      | none =>
        cases next with
        | none => simp [CmdItem.isOkStop]
        | some a =>
          simp only
          split <;> simp [CmdItem.isOkStop]
    · cases (splitEq w).2 <;> simp [CmdItem.isOkStop]

theorem parseOpt_no_okstop (opts : List Opt) (k : Nat) (w : Str) (next : Option Str) :
    (∀ it ∈ (parseOpt opts k w next).1, it.isOkStop = none) ∧ ((parseOpt opts k w next).2 = some true → next.isSome) := by
  unfold parseOpt
  split
  · exact parseLong_no_okstop opts k _ next
  · exact parseStd_no_okstop opts k _ next

/-- the stopping rule, for a stop at optind `k'` when `ws[0]` is `argv[k0]` -/
def StopsAt (k0 : Nat) (ws : List Str) (k' : Nat) : Prop :=
  k0 ≤ k' ∧ k' - k0 ≤ ws.length ∧
  (k' - k0 = ws.length ∨ (∃ w, ws[k' - k0]? = some w ∧ isArgWord w = true) ∨ (1 ≤ k' - k0 ∧ ws[k' - k0 - 1]? = some ['-', '-']))

theorem StopsAt.cons {k0 : Nat} {w : Str} {tl : List Str} {k' : Nat} (h : StopsAt (k0 + 1) tl k') : StopsAt k0 (w :: tl) k' := by
  obtain ⟨h1, h2, h3⟩ := h
  refine ⟨by omega, by simp only [List.length_cons]; omega, ?_⟩
  have e : k' - k0 = (k' - (k0 + 1)) + 1 := by omega
  rcases h3 with h3 | ⟨w', h3, h4⟩ | ⟨h3, h4⟩
  · left; simp only [List.length_cons]; omega
  · right; left; exact ⟨w', by rw [e]; simpa using h3, h4⟩
  · right; right
    refine ⟨by omega, ?_⟩
    have e2 : k' - k0 - 1 = (k' - (k0 + 1) - 1) + 1 := by omega
    rw [e2]; simpa using h4

theorem parseCmd_okstop (opts : List Opt) : ∀ (ws : List Str) (k : Nat) (skip : Bool) (k' : Nat), (skip = true → ws ≠ [] ∧ 1 ≤ k) →
    (∃ it ∈ parseCmd opts k ws skip, it.isOkStop = some k') → StopsAt (k - (if skip then 1 else 0)) ws k' := by
  intro ws
  induction ws with
  | nil =>
    intro k skip k' hs h
    cases skip with
    | true => exact absurd rfl (hs rfl).1
    | false =>
      simp [parseCmd, CmdItem.isOkStop] at h
      subst h
      exact ⟨by simp, by simp, Or.inl (by simp)⟩
  | cons w tl ih =>
    intro k skip k' hs h
    cases skip with
    | true =>
      have hk := (hs rfl).2
      simp only [parseCmd] at h
      have := ih k false k' (by simp) h
      simp only [Bool.false_eq_true, ↓reduceIte, Nat.sub_zero] at this
      simp only [↓reduceIte]
      have e : k = (k - 1) + 1 := by omega
      rw [e] at this
      exact StopsAt.cons this
    | false =>
      simp only [Bool.false_eq_true, ↓reduceIte, Nat.sub_zero]
      unfold parseCmd at h
      by_cases h1 : isArgWord w = true
      · simp [h1, CmdItem.isOkStop] at h
        subst h
        exact ⟨Nat.le_refl _, by simp, Or.inr (Or.inl ⟨w, by simp, h1⟩)⟩
      · simp only [h1, Bool.false_eq_true, ↓reduceIte] at h
        by_cases h2 : (w == ['-', '-']) = true
        · simp [h2, CmdItem.isOkStop] at h
          subst h
          have hw : w = ['-', '-'] := by simpa using h2
          exact ⟨by omega, by simp, Or.inr (Or.inr ⟨by omega, by simp [hw]⟩)⟩
        · simp only [h2, Bool.false_eq_true, ↓reduceIte] at h
          obtain ⟨hno, hextra⟩ := parseOpt_no_okstop opts k w tl.head?
          cases hr : (parseOpt opts k w tl.head?).2 with
          | none =>
            simp only [hr] at h
            obtain ⟨it, hit, hk⟩ := h
            rw [hno it hit] at hk; cases hk
          | some extra =>
            simp only [hr] at h
            obtain ⟨it, hit, hk⟩ := h
            rcases List.mem_append.mp hit with hit | hit
            · rw [hno it hit] at hk; cases hk
            · have hne : extra = true → tl ≠ [] ∧ 1 ≤ k + 1 + (if extra then 1 else 0) := by
                intro he
                subst he
                have := hextra hr
                refine ⟨?_, by omega⟩
                intro htl
                simp [htl] at this
              have := ih (k + 1 + (if extra then 1 else 0)) extra k' hne ⟨it, hit, hk⟩
              have e : k + 1 + (if extra = true then 1 else 0) - (if extra = true then 1 else 0) = k + 1 := by
                cases extra <;> simp
              rw [e] at this
              exact StopsAt.cons this

/-- a run that ends in success ended at a `stop ok` item, and `optind` is that item's position -/
theorem runCmd_ok_stop : ∀ (is : List CmdItem) (g g' : G) (m : Bool),
    runCmd (fun g' => .done g' .ok false) g is = .done g' .ok m →
    (∃ it ∈ is, it.isOkStop = some g'.optind) ∨ ((∀ it ∈ is, it.isOkStop = none) ∧ g'.optind = g.optind) := by
  intro is
  induction is with
  | nil => intro g g' m h; simp [runCmd] at h; right; simp [← h.1]
  | cons it is ih =>
    intro g g' m h
    cases it with
    | stop st m' k =>
      simp only [runCmd] at h
      cases st with
      | ok => left; refine ⟨_, List.mem_cons_self, ?_⟩; simp at h; simp [CmdItem.isOkStop, ← h.1]
      | esyntax => simp at h
      | einval => simp at h
    | set i arg kf =>
      simp only [runCmd] at h
      cases hs : setOption g i arg byCmdline with
      | fault => simp [hs] at h
      | done g1 st m1 =>
        cases st with
        | ok =>
          simp only [hs] at h
          rcases ih g1 g' m h with ⟨it, hit, hk⟩ | ⟨hno, hk⟩
          · left; exact ⟨it, List.mem_cons_of_mem _ hit, hk⟩
          · right
            refine ⟨?_, by rw [hk, (setOption_frame hs).2.2.1]⟩
            intro it hit
            rcases List.mem_cons.mp hit with rfl | hit
            · rfl
            · exact hno it hit
        | esyntax => simp [hs] at h
        | einval => simp [hs] at h

def HasStop (is : List CmdItem) : Prop := ∃ it ∈ is, ∃ st m k', it = CmdItem.stop st m k'

theorem hasStop_single (st : Status) (m : Bool) (k : Nat) : HasStop [CmdItem.stop st m k] :=
  ⟨_, List.mem_cons_self, st, m, k, rfl⟩

theorem parseStd_none_has_stop (opts : List Opt) (k : Nat) (next : Option Str) : ∀ (cs : Str),
    (parseStd opts k cs next).2 = none → HasStop (parseStd opts k cs next).1 := by
  intro cs
  induction cs with
  | nil => intro h; simp [parseStd] at h
  | cons c cs ih =>
    intro h
    unfold parseStd at h ⊢
    cases hf : findShort opts c with
    | none => exact hasStop_single _ _ _
    | some i =>
      simp only [hf] at h
      simp only
      by_cases ht : ((opts.getD i default).type != 0) = true
      · simp only [ht, ↓reduceIte] at h ⊢
        by_cases hc : (!cs.isEmpty) = true
        · simp [hc] at h
        · simp only [hc, Bool.false_eq_true, ↓reduceIte] at h ⊢
          cases next with
          | none => exact hasStop_single _ _ _
          | some a =>
            simp only at h ⊢
            by_cases hd : (isStringy (opts.getD i default).type && startsWithDash a) = true
            · simp only [hd, ↓reduceIte]; exact hasStop_single _ _ _
            · simp only [hd, Bool.false_eq_true, ↓reduceIte] at h; cases h
      · simp only [ht, Bool.false_eq_true, ↓reduceIte] at h ⊢
        by_cases hc : cs.isEmpty = true
        · simp [hc] at h
        · simp only [hc, Bool.false_eq_true, ↓reduceIte] at h ⊢
          obtain ⟨it, hit, hh⟩ := ih h
          exact ⟨it, List.mem_cons_of_mem _ hit, hh⟩

theorem parseLong_none_has_stop (opts : List Opt) (k : Nat) (w : Str) (next : Option Str)
    (h : (parseLong opts k w next).2 = none) : HasStop (parseLong opts k w next).1 := by
  unfold parseLong at h ⊢
  cases ha : optidxAbbrev opts (splitEq w).1 with
  | ambiguous => exact hasStop_single _ _ _
  | notfound => exact hasStop_single _ _ _
  | found i =>
    simp only [ha] at h
    simp only
    by_cases ht : ((opts.getD i default).type != 0) = true
    · simp only [ht, ↓reduceIte] at h ⊢
      cases hsp : (splitEq w).2 with
      | some a => simp [hsp] at h
      | none =>
        simp only [hsp] at h
        simp only
        cases next with
        | none => exact hasStop_single _ _ _
        | some a =>
          simp only at h ⊢
          by_cases hd : (isStringy (opts.getD i default).type && startsWithDash a) = true
          · simp only [hd, ↓reduceIte]; exact hasStop_single _ _ _
          · simp only [hd, Bool.false_eq_true, ↓reduceIte] at h; cases h
    · simp only [ht, Bool.false_eq_true, ↓reduceIte] at h ⊢
      cases hsp : (splitEq w).2 with
      | some a => exact hasStop_single _ _ _
      | none => simp [hsp] at h

theorem parseOpt_none_has_stop (opts : List Opt) (k : Nat) (w : Str) (next : Option Str)
    (h : (parseOpt opts k w next).2 = none) : HasStop (parseOpt opts k w next).1 := by
  unfold parseOpt at h ⊢
  split
  · rename_i tail
    exact parseLong_none_has_stop opts k _ next (by simpa using h)
  · rename_i hne
    have h' : (parseStd opts k (List.drop 1 w) next).2 = none := by
      split at h
      · rename_i tail; exact absurd rfl (hne tail)
      · exact h
    exact parseStd_none_has_stop opts k next _ h'

theorem parseCmd_has_stop (opts : List Opt) : ∀ (ws : List Str) (k : Nat) (skip : Bool), HasStop (parseCmd opts k ws skip) := by
  intro ws
  induction ws with
  | nil => intro k skip; simp only [parseCmd]; exact hasStop_single _ _ _
  | cons w tl ih =>
    intro k skip
    cases skip with
    | true => simpa [parseCmd] using ih k false
    | false =>
      unfold parseCmd
      split
      · exact hasStop_single _ _ _
      · split
        · exact hasStop_single _ _ _
        · simp only
          cases hr : (parseOpt opts k w tl.head?).2 with
          | some extra =>
            obtain ⟨it, hit, h⟩ := ih (k + 1 + (if extra then 1 else 0)) extra
            exact ⟨it, List.mem_append_right _ hit, h⟩
          | none => exact parseOpt_none_has_stop opts k w tl.head? hr

/-- (d) a command line that is processed successfully stops at the end of argv, at the first word that is not an
    option (no leading `-`, or `-` alone), or immediately after a `--`; `optind` is that position -/
theorem cmdLoop_stops (g g' : G) (k : Nat) (ws : List Str) (m : Bool) (h : cmdLoop g k ws false = .done g' .ok m) :
    StopsAt k ws g'.optind := by
  rw [cmdLoop_eq] at h
  rcases runCmd_ok_stop _ g g' m h with hstop | ⟨hno, _⟩
  · have := parseCmd_okstop g.opts ws k false g'.optind (by simp) hstop
    simpa using this
  · obtain ⟨it, hit, st, m', k', rfl⟩ := parseCmd_has_stop g.opts ws k false
    -- every stop item of a successful run is an ok-stop: the run would have returned at an error stop
    exfalso
    have hall := hno _ hit
    -- the run reached `it`: all items before are sets; it returns `done … st m'` there, so st = ok
    have key : ∀ (is : List CmdItem) (g0 : G), (∀ it ∈ is, it.isOkStop = none) → (∃ it ∈ is, ∃ st m k', it = CmdItem.stop st m k') →
        ∀ g1 m1, runCmd (fun g' => .done g' .ok false) g0 is ≠ .done g1 .ok m1 := by
      intro is
      induction is with
      | nil => intro g0 _ h2; simp at h2
      | cons a is ih =>
        intro g0 h1 h2 g1 m1
        cases a with
        | stop st m k =>
          have := h1 _ List.mem_cons_self
          cases st with
          | ok => simp [CmdItem.isOkStop] at this
          | esyntax => simp [runCmd]
          | einval => simp [runCmd]
        | set i arg kf =>
          simp only [runCmd]
          cases hs : setOption g0 i arg byCmdline with
          | fault => simp
          | done g2 st m2 =>
            cases st with
            | ok =>
              simp only
              apply ih g2 (fun it hit => h1 it (List.mem_cons_of_mem _ hit))
              obtain ⟨it, hit, hh⟩ := h2
              rcases List.mem_cons.mp hit with rfl | hit
              · obtain ⟨_, _, _, hh⟩ := hh; cases hh
              · exact ⟨it, hit, hh⟩
            | esyntax => simp
            | einval => simp
    exact key _ g hno ⟨_, hit, st, m', k', rfl⟩ g' m h

theorem runCmd_frame : ∀ (is : List CmdItem) (g g' : G) (st : Status) (m : Bool),
    runCmd (fun g' => .done g' .ok false) g is = .done g' st m → g'.argv = g.argv ∧ g'.opts = g.opts := by
  intro is
  induction is with
  | nil => intro g g' st m h; simp [runCmd] at h; simp [← h.1]
  | cons it is ih =>
    intro g g' st m h
    cases it with
    | stop st' m' k => simp [runCmd] at h; simp [← h.1]
    | set i arg kf =>
      simp only [runCmd] at h
      cases hs : setOption g i arg byCmdline with
      | fault => simp [hs] at h
      | done g1 st1 m1 =>
        have hf := setOption_frame hs
        cases st1 with
        | ok =>
          simp only [hs] at h
          obtain ⟨a, b⟩ := ih g1 g' st m h
          exact ⟨a.trans hf.2.1, b.trans hf.1⟩
        | esyntax => simp [hs] at h; simp [← h.1, hf.2.1, hf.1]
        | einval => simp [hs] at h; simp [← h.1, hf.2.1, hf.1]

/-- (d) at the level of `esl_opt_ProcessCmdline`: after success `argv` is the one given, options ended where the
    stopping rule says, and (with `getArg_spec`) `GetArg` returns `argv[optind..]` in order -/
theorem processCmdline_stops (g g' : G) (argv : List Str) (m : Bool) (h : processCmdline g argv = .done g' .ok m) :
    g'.argv = argv ∧ StopsAt 1 (argv.drop 1) g'.optind := by
  refine ⟨?_, cmdLoop_stops _ g' 1 _ m h⟩
  unfold processCmdline at h
  rw [cmdLoop_eq] at h
  exact (runCmd_frame _ _ _ _ _ h).1

end EaselModel.Getopts
