import EaselModel.Getopts.Outcomes
/-! # C14 — `strtod`/`atof` on a plain decimal literal followed by something else (the lower bound at the start of a
    two-sided real range string), and acceptance of plain decimal literals as real arguments. -/
namespace EaselModel.Getopts

/-- a decimal literal without exponent: optional `-`, integer digits, optionally `.` and fraction digits; at least
    one digit overall -/
structure RealLit (s : Str) (neg : Bool) (ip fp : Str) (dot : Bool) : Prop where
  hip : ∀ d ∈ ip, isDigit d = true
  hfp : ∀ d ∈ fp, isDigit d = true
  some_digit : ip ≠ [] ∨ fp ≠ []
  nodot : dot = false → fp = []
  spell : s = (if neg then ['-'] else []) ++ ip ++ (if dot then '.' :: fp else [])

/-- what may follow the literal: nothing, or a character that cannot continue a number -/
def EndsNumber (tail : Str) : Prop :=
  ∀ c, tail.head? = some c → isDigit c = false ∧ c ≠ '.' ∧ c ≠ 'e' ∧ c ≠ 'E'

theorem takeWhile_digits' (ds tail : Str) (hds : ∀ d ∈ ds, isDigit d = true) (ht : ∀ c, tail.head? = some c → isDigit c = false) :
    (ds ++ tail).takeWhile isDigit = ds ∧ (ds ++ tail).dropWhile isDigit = tail := by
  induction ds with
  | nil =>
    cases tail with
    | nil => exact ⟨rfl, rfl⟩
    | cons c r =>
      have := ht c rfl
      simp only [List.nil_append, List.takeWhile_cons, List.dropWhile_cons, this, Bool.false_eq_true, ↓reduceIte, and_self]
  | cons d ds ih =>
    have hd := hds d List.mem_cons_self
    have := ih (fun x hx => hds x (List.mem_cons_of_mem _ hx))
    simp only [List.cons_append, List.takeWhile_cons, List.dropWhile_cons, hd, ↓reduceIte, this.1, this.2, and_self]

theorem expOf_none {t : Str} (h : ∀ c, t.head? = some c → c ≠ 'e' ∧ c ≠ 'E') : expOf t = (0, t) := by
  cases t with
  | nil => rfl
  | cons c r =>
    obtain ⟨h1, h2⟩ := h c rfl
    have : (c == 'e' || c == 'E') = false := by simp [h1, h2]
    simp only [expOf, this, Bool.false_eq_true, ↓reduceIte]

theorem fracOf_nodot {t : Str} (h : t.head? ≠ some '.') : fracOf t = ([], t) := by
  unfold fracOf
  split
  · rename_i r; simp at h
  · rfl

/-- `strtod` reads exactly a plain decimal literal and stops at what follows -/
theorem strtod_lit {s : Str} {neg : Bool} {ip fp : Str} {dot : Bool} (h : RealLit s neg ip fp dot) (tail : Str) (ht : EndsNumber tail) :
    strtod (s ++ tail) = some ({ neg := neg, mant := digitsVal (ip ++ fp), exp := - (fp.length : Int) }, tail) := by
  obtain ⟨hip, hfp, hsome, hnodot, rfl⟩ := h
  have htd : ∀ c, tail.head? = some c → isDigit c = false := fun c hc => (ht c hc).1
  have hte : ∀ c, tail.head? = some c → c ≠ 'e' ∧ c ≠ 'E' := fun c hc => ⟨(ht c hc).2.2.1, (ht c hc).2.2.2⟩
  -- the part after the sign
  obtain ⟨body, hbody⟩ : ∃ b : Str, b = ip ++ ((if dot then '.' :: fp else []) ++ tail) := ⟨_, rfl⟩
  have hbody_first : ∀ c, body.head? = some c → isSpace c = false ∧ c ≠ '-' ∧ c ≠ '+' := by
    intro c hc
    cases ip with
    | cons d ip' =>
      have hd := hip d List.mem_cons_self
      have : c = d := by simpa [hbody] using hc.symm
      subst this
      refine ⟨not_space_of_digit hd, ?_, ?_⟩ <;> (intro e; subst e; simp [isDigit] at hd)
    | nil =>
      cases dot with
      | true =>
        have : c = '.' := by simpa [hbody] using hc.symm
        subst this
        exact ⟨by decide, by decide, by decide⟩
      | false =>
        have := hnodot rfl
        rcases hsome with h | h
        · exact absurd rfl h
        · exact absurd this h
  have hsign : signOf body = (false, body) := by
    cases hb : body with
    | nil => rfl
    | cons c r =>
      obtain ⟨_, h1, h2⟩ := hbody_first c (by rw [hb]; rfl)
      unfold signOf
      split
      · rename_i r' heq; injection heq with e1 _; exact absurd e1 h1
      · rename_i r' heq; injection heq with e1 _; exact absurd e1 h2
      · rfl
  have hdrop : body.dropWhile isSpace = body := by
    cases hb : body with
    | nil => rfl
    | cons c r =>
      have := (hbody_first c (by rw [hb]; rfl)).1
      simp only [List.dropWhile_cons, this, Bool.false_eq_true, ↓reduceIte]
  -- sign handling
  have hst : signOf (((if neg then ['-'] else []) ++ ip ++ (if dot then '.' :: fp else []) ++ tail).dropWhile isSpace) = (neg, body) := by
    cases neg with
    | true =>
      have e : (if true = true then ['-'] else []) ++ ip ++ (if dot then '.' :: fp else []) ++ tail = '-' :: body := by
        simp [hbody, List.append_assoc]
      rw [e]
      simp [List.dropWhile_cons, isSpace, signOf]
    | false =>
      have e : (if false = true then ['-'] else []) ++ ip ++ (if dot then '.' :: fp else []) ++ tail = body := by
        simp [hbody, List.append_assoc]
      rw [e, hdrop, hsign]
  -- integer digits
  have hip_tw : body.takeWhile isDigit = ip ∧ body.dropWhile isDigit = (if dot then '.' :: fp else []) ++ tail := by
    rw [hbody]
    apply takeWhile_digits' ip _ hip
    intro c hc
    cases dot with
    | true =>
      have : c = '.' := by simpa using hc.symm
      subst this; decide
    | false => exact htd c (by simpa using hc)
  -- fraction
  have hfrac : fracOf ((if dot then '.' :: fp else []) ++ tail) = (fp, tail) := by
    cases dot with
    | true =>
      have := takeWhile_digits' fp tail hfp htd
      simp only [↓reduceIte, List.cons_append, fracOf, this.1, this.2]
    | false =>
      have hfp0 := hnodot rfl
      subst hfp0
      simp only [Bool.false_eq_true, ↓reduceIte, List.nil_append]
      apply fracOf_nodot
      intro hc
      exact (ht '.' hc).2.1 rfl
  have hnone : (ip.isEmpty && fp.isEmpty) = false := by
    rcases hsome with h | h
    · cases ip with
      | nil => exact absurd rfl h
      | cons _ _ => rfl
    · cases fp with
      | nil => exact absurd rfl h
      | cons _ _ => simp
  unfold strtod
  simp only [hst, hip_tw.1, hip_tw.2, hfrac, hnone, Bool.false_eq_true, ↓reduceIte, expOf_none hte]
  simp

theorem endsNumber_nil : EndsNumber [] := by intro c h; simp at h
theorem endsNumber_lt (r : Str) : EndsNumber ('<' :: r) := by
  intro c h
  have : c = '<' := by simpa using h.symm
  subst this
  exact ⟨by decide, by decide, by decide, by decide⟩

/-- `atof` of a range string that starts with a plain decimal literal is that literal's value -/
theorem atof_lit_append {lo : Str} {neg : Bool} {ip fp : Str} {dot : Bool} (h : RealLit lo neg ip fp dot) (r : Str) :
    atof (lo ++ '<' :: r) = atof lo := by
  have h1 := strtod_lit h ('<' :: r) (endsNumber_lt r)
  have h2 := strtod_lit h [] endsNumber_nil
  simp only [List.append_nil] at h2
  unfold atof
  rw [h1, h2]

/-- a plain decimal literal is accepted as a real-valued argument -/
theorem isReal_lit {s : Str} {neg : Bool} {ip fp : Str} {dot : Bool} (h : RealLit s neg ip fp dot) : isReal s = true := by
  have h2 := strtod_lit h [] endsNumber_nil
  simp only [List.append_nil] at h2
  unfold isReal
  rw [h2]
  rfl

theorem realLit_no_marker {lo : Str} {neg : Bool} {ip fp : Str} {dot : Bool} (h : RealLit lo neg ip fp dot) : 'x' ∉ lo := by
  obtain ⟨hip, hfp, _, _, rfl⟩ := h
  intro hm
  rcases List.mem_append.mp hm with hm | hm
  · rcases List.mem_append.mp hm with hm | hm
    · cases neg <;> simp at hm
    · have := hip 'x' hm; simp [isDigit] at this
  · cases dot with
    | true =>
      rcases List.mem_cons.mp hm with hm | hm
      · cases hm
      · have := hfp 'x' hm; simp [isDigit] at this
    | false => simp at hm

/-! ## every accepted real argument has the documented decimal shape -/

/-- blanks, optional sign, digits with an optional point (at least one digit), optional exponent `e[sign]digits`, blanks -/
def RealSyntax (s : Str) : Prop :=
  ∃ (ws1 sign ip dotfp ex ws2 : Str),
    (∀ c ∈ ws1, isSpace c = true) ∧ (sign = [] ∨ sign = ['-'] ∨ sign = ['+']) ∧
    (∀ d ∈ ip, isDigit d = true) ∧
    (dotfp = [] ∨ ∃ fp, dotfp = '.' :: fp ∧ ∀ d ∈ fp, isDigit d = true) ∧
    (ip ≠ [] ∨ ∃ fp, dotfp = '.' :: fp ∧ fp ≠ []) ∧
    (ex = [] ∨ ∃ (c : Char) (sg ed : Str), ex = c :: (sg ++ ed) ∧ (c = 'e' ∨ c = 'E') ∧ (sg = [] ∨ sg = ['-'] ∨ sg = ['+']) ∧
        ed ≠ [] ∧ ∀ d ∈ ed, isDigit d = true) ∧
    (∀ c ∈ ws2, isSpace c = true) ∧
    s = ws1 ++ sign ++ ip ++ dotfp ++ ex ++ ws2

theorem fracOf_spec (t1 : Str) :
    (fracOf t1 = ([], t1)) ∨
    (∃ r, t1 = '.' :: r ∧ fracOf t1 = (r.takeWhile isDigit, r.dropWhile isDigit)) := by
  unfold fracOf
  split
  · rename_i r; right; exact ⟨r, rfl, rfl⟩
  · left; rfl

theorem expOf_spec (t2 : Str) :
    (expOf t2 = (0, t2)) ∨
    (∃ (c : Char) (r : Str), t2 = c :: r ∧ (c = 'e' ∨ c = 'E') ∧ (signOf r).2.takeWhile isDigit ≠ [] ∧
      (expOf t2).2 = (signOf r).2.dropWhile isDigit) := by
  cases t2 with
  | nil => left; rfl
  | cons c r =>
    by_cases hc : (c == 'e' || c == 'E') = true
    · by_cases he : ((signOf r).2.takeWhile isDigit).isEmpty = true
      · left; simp only [expOf, hc, he, ↓reduceIte]
      · right
        refine ⟨c, r, rfl, by simpa using hc, ?_, ?_⟩
        · intro h; rw [h] at he; exact he rfl
        · simp only [expOf, hc, he, Bool.false_eq_true, ↓reduceIte]
    · left
      have : (c == 'e' || c == 'E') = false := by simpa using hc
      simp only [expOf, this, Bool.false_eq_true, ↓reduceIte]

/-- **"a value of the wrong type", reals**: whatever `esl_str_IsReal` accepts (in the modelled decimal grammar) has the
    documented shape -/
theorem isReal_sound (s : Str) (h : isReal s = true) : RealSyntax s := by
  unfold isReal at h
  cases hst : strtod s with
  | none => simp [hst] at h
  | some r =>
    obtain ⟨v, rest⟩ := r
    simp only [hst] at h
    have hws2 : ∀ c ∈ rest, isSpace c = true := fun c hc => List.all_eq_true.mp h c hc
    unfold strtod at hst
    simp only at hst
    split at hst
    · cases hst
    · rename_i hne
      injection hst with hst
      have hrest : (expOf (fracOf ((signOf (s.dropWhile isSpace)).2.dropWhile isDigit)).2).2 = rest := congrArg Prod.snd hst
      obtain ⟨sign, hsign, ht⟩ := signOf_spec (s.dropWhile isSpace)
      -- names for the pieces
      generalize hT : (signOf (s.dropWhile isSpace)).2 = t at *
      have h1 : s = s.takeWhile isSpace ++ s.dropWhile isSpace := (List.takeWhile_append_dropWhile).symm
      have h2 : t = t.takeWhile isDigit ++ t.dropWhile isDigit := (List.takeWhile_append_dropWhile).symm
      generalize hT1 : t.dropWhile isDigit = t1 at *
      -- fraction part
      have hfrac : ∃ dotfp, t1 = dotfp ++ (fracOf t1).2 ∧ (dotfp = [] ∨ ∃ fp, dotfp = '.' :: fp ∧ ∀ d ∈ fp, isDigit d = true) ∧
          (dotfp = [] → (fracOf t1).1 = []) ∧ (∀ fp, dotfp = '.' :: fp → (fracOf t1).1 = fp) := by
        rcases fracOf_spec t1 with hf | ⟨r, hr, hf⟩
        · exact ⟨[], by simp [hf], Or.inl rfl, (fun _ => by simp [hf]), (fun fp h => by cases h)⟩
        · refine ⟨'.' :: r.takeWhile isDigit, ?_, Or.inr ⟨_, rfl, all_takeWhile _ _⟩, (fun h => by cases h), ?_⟩
          · rw [hf, hr]; simp [List.takeWhile_append_dropWhile]
          · intro fp hfp; injection hfp with _ hfp; rw [hf]; exact hfp
      obtain ⟨dotfp, hd1, hd2, hd3, hd4⟩ := hfrac
      generalize hT2 : (fracOf t1).2 = t2 at *
      -- exponent part
      have hexp : ∃ ex, t2 = ex ++ rest ∧ (ex = [] ∨ ∃ (c : Char) (sg ed : Str), ex = c :: (sg ++ ed) ∧ (c = 'e' ∨ c = 'E') ∧
          (sg = [] ∨ sg = ['-'] ∨ sg = ['+']) ∧ ed ≠ [] ∧ ∀ d ∈ ed, isDigit d = true) := by
        rcases expOf_spec t2 with he | ⟨c, r, hr, hc, hne', he⟩
        · refine ⟨[], ?_, Or.inl rfl⟩
          have : t2 = rest := by rw [he] at hrest; exact hrest
          simpa using this
        · obtain ⟨sg, hsg, hsr⟩ := signOf_spec r
          refine ⟨c :: (sg ++ (signOf r).2.takeWhile isDigit), ?_, Or.inr ⟨c, sg, _, rfl, hc, hsg, hne', all_takeWhile _ _⟩⟩
          rw [he] at hrest
          rw [hr, ← hrest]
          conv => lhs; rw [hsr]
          have := (List.takeWhile_append_dropWhile (p := isDigit) (l := (signOf r).2)).symm
          conv => lhs; rw [this]
          simp [List.append_assoc]
      obtain ⟨ex, he1, he2⟩ := hexp
      refine ⟨s.takeWhile isSpace, sign, t.takeWhile isDigit, dotfp, ex, rest, all_takeWhile _ _, hsign, all_takeWhile _ _, hd2, ?_, he2, hws2, ?_⟩
      · -- at least one digit
        by_cases hip : t.takeWhile isDigit = []
        · right
          rcases hd2 with hd | ⟨fp, hfp, _⟩
          · have := hd3 hd
            rw [hip, this] at hne
            exact absurd rfl hne
          · refine ⟨fp, hfp, ?_⟩
            intro hfp0
            have := hd4 fp hfp
            rw [hip, this, hfp0] at hne
            exact absurd rfl hne
        · left; exact hip
      · conv => lhs; rw [h1, ht, h2, hd1, he1]
        simp [List.append_assoc]

/-! ## … and every string of that shape is accepted -/

theorem space_not_special {c : Char} (h : isSpace c = true) : isDigit c = false ∧ c ≠ '.' ∧ c ≠ 'e' ∧ c ≠ 'E' ∧ c ≠ '-' ∧ c ≠ '+' := by
  refine ⟨not_digit_of_space h, ?_, ?_, ?_, ?_, ?_⟩ <;> (intro e; subst e; simp [isSpace] at h)

/-- the exponent part (possibly absent) followed by blanks -/
def ExpPart (ex : Str) : Prop :=
  ex = [] ∨ ∃ (c : Char) (sg ed : Str), ex = c :: (sg ++ ed) ∧ (c = 'e' ∨ c = 'E') ∧ (sg = [] ∨ sg = ['-'] ∨ sg = ['+']) ∧
    ed ≠ [] ∧ ∀ d ∈ ed, isDigit d = true

theorem exp_tail_head {ex ws2 : Str} (hex : ExpPart ex) (hw2 : ∀ c ∈ ws2, isSpace c = true) :
    ∀ c, (ex ++ ws2).head? = some c → isDigit c = false ∧ c ≠ '.' := by
  intro c hc
  rcases hex with rfl | ⟨c', sg, ed, rfl, hc', _, _, _⟩
  · cases ws2 with
    | nil => simp at hc
    | cons x xs =>
      have : c = x := by simpa using hc.symm
      subst this
      have := space_not_special (hw2 c List.mem_cons_self)
      exact ⟨this.1, this.2.1⟩
  · have : c = c' := by simpa using hc.symm
    subst this
    rcases hc' with rfl | rfl <;> exact ⟨by decide, by decide⟩

theorem expOf_part {ex ws2 : Str} (hex : ExpPart ex) (hw2 : ∀ c ∈ ws2, isSpace c = true) : (expOf (ex ++ ws2)).2 = ws2 := by
  rcases hex with rfl | ⟨c, sg, ed, rfl, hc, hsg, hne, hed⟩
  · rw [List.nil_append, expOf_none]
    intro c hc
    cases ws2 with
    | nil => simp at hc
    | cons x xs =>
      have : c = x := by simpa using hc.symm
      subst this
      have := space_not_special (hw2 c List.mem_cons_self)
      exact ⟨this.2.2.1, this.2.2.2.1⟩
  · have hce : (c == 'e' || c == 'E') = true := by rcases hc with rfl | rfl <;> decide
    have htw := takeWhile_digits' ed ws2 hed (fun x hx => by
      cases ws2 with
      | nil => simp at hx
      | cons y ys =>
        have : x = y := by simpa using hx.symm
        subst this
        exact not_digit_of_space (hw2 x List.mem_cons_self))
    obtain ⟨d, ed', rfl⟩ := List.exists_cons_of_ne_nil hne
    have hd := hed d List.mem_cons_self
    have hsign : (signOf (sg ++ (d :: ed') ++ ws2)).2 = (d :: ed') ++ ws2 := by
      rcases hsg with rfl | rfl | rfl
      · simp only [List.nil_append, List.cons_append]; rw [signOf_digit _ hd]
      · rfl
      · rfl
    have e1 : c :: (sg ++ d :: ed') ++ ws2 = c :: (sg ++ (d :: ed') ++ ws2) := by simp
    rw [e1]
    simp only [expOf, hce, ↓reduceIte, hsign, htw.1, htw.2, List.isEmpty_cons, Bool.false_eq_true]

theorem isReal_complete (s : Str) (h : RealSyntax s) : isReal s = true := by
  obtain ⟨ws1, sign, ip, dotfp, ex, ws2, hw1, hsign, hip, hdot, hdig, hex, hw2, rfl⟩ := h
  have hexp : ExpPart ex := hex
  have htail := exp_tail_head hexp hw2
  -- the fraction digits
  obtain ⟨fp, hfpdef, hfp⟩ : ∃ fp, (dotfp = [] ∧ fp = [] ∨ dotfp = '.' :: fp) ∧ ∀ d ∈ fp, isDigit d = true := by
    rcases hdot with rfl | ⟨fp, rfl, hfp⟩
    · exact ⟨[], Or.inl ⟨rfl, rfl⟩, by simp⟩
    · exact ⟨fp, Or.inr rfl, hfp⟩
  have hfrac : fracOf (dotfp ++ (ex ++ ws2)) = (fp, ex ++ ws2) := by
    rcases hfpdef with ⟨rfl, rfl⟩ | rfl
    · rw [List.nil_append]
      apply fracOf_nodot
      intro hc
      exact (htail '.' hc).2 rfl
    · have := takeWhile_digits' fp (ex ++ ws2) hfp (fun c hc => (htail c hc).1)
      simp only [List.cons_append, fracOf, this.1, this.2]
  have hnone : (ip.isEmpty && fp.isEmpty) = false := by
    rcases hdig with h | ⟨fp', h1, h2⟩
    · cases ip with
      | nil => exact absurd rfl h
      | cons _ _ => rfl
    · rcases hfpdef with ⟨h0, _⟩ | h0
      · rw [h0] at h1; cases h1
      · rw [h0] at h1; injection h1 with _ h1; subst h1
        cases fp with
        | nil => exact absurd rfl h2
        | cons _ _ => simp
  -- digits of the integer part, then what follows
  have hT1head : ∀ c, (dotfp ++ (ex ++ ws2)).head? = some c → isDigit c = false := by
    intro c hc
    rcases hfpdef with ⟨rfl, _⟩ | rfl
    · exact (htail c (by simpa using hc)).1
    · have : c = '.' := by simpa using hc.symm
      subst this; decide
  have hip_tw := takeWhile_digits' ip (dotfp ++ (ex ++ ws2)) hip hT1head
  -- first character of the number body is not a blank and not a sign
  have hbody : ∀ c, (ip ++ (dotfp ++ (ex ++ ws2))).head? = some c → isSpace c = false ∧ c ≠ '-' ∧ c ≠ '+' := by
    intro c hc
    cases ip with
    | cons d ip' =>
      have hd := hip d List.mem_cons_self
      have : c = d := by simpa using hc.symm
      subst this
      refine ⟨not_space_of_digit hd, ?_, ?_⟩ <;> (intro e; subst e; simp [isDigit] at hd)
    | nil =>
      rcases hdig with h | ⟨fp', h1, _⟩
      · exact absurd rfl h
      · rw [h1] at hc
        have : c = '.' := by simpa using hc.symm
        subst this
        exact ⟨by decide, by decide, by decide⟩
  obtain ⟨body, hbodydef⟩ : ∃ b : Str, b = ip ++ (dotfp ++ (ex ++ ws2)) := ⟨_, rfl⟩
  rw [← hbodydef] at hbody hip_tw
  have hsignOf : signOf body = (false, body) := by
    cases hb : body with
    | nil => rfl
    | cons c r =>
      obtain ⟨_, h1, h2⟩ := hbody c (by rw [hb]; rfl)
      unfold signOf
      split
      · rename_i r' heq; injection heq with e1 _; exact absurd e1 h1
      · rename_i r' heq; injection heq with e1 _; exact absurd e1 h2
      · rfl
  have hbdrop : body.dropWhile isSpace = body := by
    cases hb : body with
    | nil => rfl
    | cons c r =>
      have := (hbody c (by rw [hb]; rfl)).1
      simp only [List.dropWhile_cons, this, Bool.false_eq_true, ↓reduceIte]
  have hst : ∃ neg, signOf ((ws1 ++ sign ++ ip ++ dotfp ++ ex ++ ws2).dropWhile isSpace) = (neg, body) := by
    have e : ws1 ++ sign ++ ip ++ dotfp ++ ex ++ ws2 = ws1 ++ (sign ++ body) := by simp [hbodydef, List.append_assoc]
    rw [e]
    rcases hsign with rfl | rfl | rfl
    · refine ⟨false, ?_⟩
      rw [List.nil_append, dropWhile_space_prefix ws1 body hw1 hbdrop, hsignOf]
    · refine ⟨true, ?_⟩
      rw [dropWhile_space_prefix ws1 _ hw1 (by simp [List.dropWhile_cons, isSpace])]
      rfl
    · refine ⟨false, ?_⟩
      rw [dropWhile_space_prefix ws1 _ hw1 (by simp [List.dropWhile_cons, isSpace])]
      rfl
  obtain ⟨neg, hst⟩ := hst
  have hexp2 := expOf_part hexp hw2
  unfold isReal strtod
  simp only [hst, hip_tw.1, hip_tw.2, hfrac, hnone, Bool.false_eq_true, ↓reduceIte, hexp2]
  exact List.all_eq_true.mpr hw2

/-- **"a value of the wrong type", reals**: accepted iff of the documented decimal shape (within the modelled grammar) -/
theorem isReal_iff (s : Str) : isReal s = true ↔ RealSyntax s := ⟨isReal_sound s, isReal_complete s⟩

end EaselModel.Getopts
