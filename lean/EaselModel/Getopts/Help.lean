import EaselModel.Getopts.Model
/-! # C14 — `esl_opt_DisplayHelp` and `esl_opt_SpoofCmdline`: text produced from the table / the configuration

`esl_opt_DisplayHelp(ofp, go, docgroup, indent, textwidth)` is a function of the option table alone (names, types,
help strings, defaults, ranges, docgroup tags): two passes, the first computes the column widths and decides — for
all options at once — whether defaults and ranges are shown, the second prints one line per selected option.
`esl_opt_SpoofCmdline` concatenates the program name, every option that was set and is on (with its value), and the
remaining arguments.  Both are modelled line by line here; core Lean only (imported by the driver). -/
namespace EaselModel.Getopts

/-- the columns of an `ESL_OPTIONS` row that `esl_opt_DisplayHelp` reads -/
structure HelpRow where
  name : Str
  type : Nat
  help : Option Str
  defval : Option Str
  range : Option Str
  tag : Nat
  deriving DecidableEq, Repr, Inhabited

def spaces (n : Nat) : Str := List.replicate n ' '

/-- is the row printed for this `docgroup` (`0` = all)? -/
def HelpRow.selected (r : HelpRow) (docgroup : Nat) : Bool := docgroup == 0 || docgroup == r.tag

/-- width of "--foo <n>": every option that takes an argument counts 4 more -/
def HelpRow.optWidth (r : HelpRow) : Nat := r.name.length + (if r.type != 0 then 4 else 0)

/-- `n` after the help string: `strlen(help) + 1`, or 2 when there is none -/
def HelpRow.w2 (r : HelpRow) : Nat := match r.help with | some h => h.length + 1 | none => 2
/-- … after the default: `+ strlen(defval) + 4` -/
def HelpRow.w1 (r : HelpRow) : Nat := r.w2 + (match r.defval with | some d => d.length + 4 | none => 0)
/-- … after the range: `+ strlen(range) + 4` -/
def HelpRow.w0 (r : HelpRow) : Nat := r.w1 + (match r.range with | some g => g.length + 4 | none => 0)

def maxOf (f : HelpRow → Nat) (rows : List HelpRow) : Nat := rows.foldl (fun m r => max m (f r)) 0

/-- what is printed after the name: only the six known argument types have a tag -/
def argTag (t : Nat) : Str :=
  match t with
  | 1 => " <n>".toList
  | 2 => " <x>".toList
  | 3 => " <c>".toList
  | 4 => " <s>".toList
  | 5 => " <f>".toList
  | 6 => " <f>".toList
  | _ => []

/-- " help" -/
def helpPart (r : HelpRow) : Str := match r.help with | some h => ' ' :: h | none => []
/-- "  [default]" — not for a character option whose default is the empty string -/
def defPart (showDef : Bool) (r : HelpRow) : Str :=
  match r.defval with
  | some d => if showDef && (r.type != 3 || d != []) then "  [".toList ++ d ++ [']'] else []
  | none => []
/-- "  (range)" -/
def rangePart (showRange : Bool) (r : HelpRow) : Str :=
  match r.range with
  | some g => if showRange then "  (".toList ++ g ++ [')'] else []
  | none => []

/-- one help line (without its newline) -/
def helpLine (indent optwidth : Nat) (showDef showRange : Bool) (r : HelpRow) : Str :=
  let head := r.name ++ argTag r.type
  spaces indent ++ head ++ spaces (optwidth - head.length) ++ [' ', ':'] ++ helpPart r ++ defPart showDef r ++ rangePart showRange r

/-- `esl_opt_DisplayHelp`: `none` = `eslEINVAL` ("Help line too long"), else the lines in table order -/
def displayHelp (rows : List HelpRow) (docgroup indent textwidth : Nat) : Option (List Str) :=
  let sel := rows.filter (·.selected docgroup)
  let optwidth := maxOf HelpRow.optWidth sel
  let h0 := maxOf HelpRow.w0 sel
  let h1 := maxOf HelpRow.w1 sel
  let h2 := maxOf HelpRow.w2 sel
  if indent + optwidth + h0 ≤ textwidth then some (sel.map (helpLine indent optwidth true true))
  else if indent + optwidth + h1 ≤ textwidth then some (sel.map (helpLine indent optwidth true false))
  else if indent + optwidth + h2 ≤ textwidth then some (sel.map (helpLine indent optwidth false false))
  else none

/-! ## `esl_opt_SpoofCmdline` -/

/-- the words of the spoofed command line contributed by option `i` -/
def spoofOptWords (g : G) (i : Nat) : Option (List Str) :=
  if g.setter i != byDefault && !(g.valOf i).isNull then
    if (g.opt i).type == 0 then some [(g.opt i).name]
    else match g.valOf i with
      | .str v => some [(g.opt i).name, v]
      | _ => none                 -- `strlen((char *) 1)`: cannot happen (an argument option never holds the marker)
  else some []

/-- `esl_opt_SpoofCmdline(g, &cmdline)`: every word followed by one blank.  `none` = the C code crashes: no command
    line was processed yet (`g->argv == NULL`), or an argument-taking option holds the boolean marker. -/
def spoofCmdline (g : G) : Option Str :=
  match g.argv with
  | [] => none
  | a0 :: _ =>
    let optWords := (List.range g.opts.length).map (spoofOptWords g)
    if optWords.all Option.isSome then
      let ws := a0 :: (optWords.filterMap id).flatten ++ g.argv.drop g.optind
      some (ws.flatMap (fun w => w ++ [' ']))
    else none

/-! ## `esl_getopts_CreateDefaultApp` -/

/-- how `esl_getopts_CreateDefaultApp` ends: `exit(1)` after "Failed to parse command line", `exit(0)` after the
    help page, `exit(1)` after "Incorrect number of command line arguments", or it returns the object -/
inductive AppOutcome
  | exitParse
  | exitHelp
  | exitNargs
  | returned (g : G)
  deriving Repr, DecidableEq

/-- `esl_getopts_CreateDefaultApp(options, nargs, argc, argv, banner, usage)`; `none` = it crashes or dies in
    `esl_fatal`: the table is refused by `Create` (the NULL object is used unchecked), there is no boolean option `-h`,
    or `set_option` crashes -/
def createDefaultApp (opts : List Opt) (nargs : Int) (argv : List Str) : Option AppOutcome :=
  match create opts with
  | none => none
  | some g =>
    match processCmdline g argv with
    | .fault => none
    | .done g1 st _ =>
      if st != .ok then some .exitParse
      else if (verifyConfig g1).1 != .ok then some .exitParse
      else match optidxExactly opts ['-', 'h'] with
        | none => none
        | some i =>
          if (g1.opt i).type != 0 then none
          else if !(g1.valOf i).isNull then some .exitHelp
          else if nargs != -1 && argNumber g1 != nargs then some .exitNargs
          else some (.returned g1)

end EaselModel.Getopts
