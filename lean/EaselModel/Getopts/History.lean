import EaselModel.Getopts.Verify
/-! # C14 — histories of settings: the last source that set (or toggled) an option decides its value. -/
namespace EaselModel.Getopts

/-- one `set_option` call: option index, argument, setter code (`1` command line, `2` environment, `3+k` config file `k`) -/
structure Ev where
  i : Nat
  arg : Option Str
  src : Nat
  deriving Repr, DecidableEq

/-- a history of `set_option` calls all of which succeed -/
def runSets : G → List Ev → Option G
  | g, [] => some g
  | g, e :: es =>
    match setOption g e.i e.arg e.src with
    | .done g' .ok _ => runSets g' es
    | _ => none

/-- does the call `e` possibly change option `j`: it sets `j`, or `j` is in the toggle list of the option it sets -/
def touches (opts : List Opt) (e : Ev) (j : Nat) : Bool :=
  e.i == j || (listIdx opts (opts.getD e.i default).toggle).contains j

theorem runSets_cons_some {g g' : G} {e : Ev} {es : List Ev} (h : runSets g (e :: es) = some g') :
    ∃ g1 m, setOption g e.i e.arg e.src = .done g1 .ok m ∧ runSets g1 es = some g' := by
  unfold runSets at h
  split at h
  · rename_i g1 m hs; exact ⟨g1, m, hs, h⟩
  · cases h

theorem setOption_untouched {g g' : G} {e : Ev} {m : Bool} {j : Nat} (hinv : Inv g) (hi : e.i < g.opts.length)
    (h : setOption g e.i e.arg e.src = .done g' .ok m) (ht : touches g.opts e j = false) :
    g'.valOf j = g.valOf j ∧ g'.setter j = g.setter j := by
  obtain ⟨_, _, _, _, _, _, hj⟩ := setOption_ok hinv hi h
  have := hj j
  simp only [touches, Bool.or_eq_false_iff, beq_eq_false_iff_ne, ne_eq] at ht
  have h1 : ¬ j = e.i := fun hh => ht.1 hh.symm
  have h2 : j ∉ listIdx g.opts (g.opt e.i).toggle := by
    have := ht.2
    simpa [G.opt] using this
  simp only [setSpec, h1, h2, false_and, ↓reduceIte] at this
  exact ⟨congrArg Prod.fst this, congrArg Prod.snd this⟩

/-- (a, default part) an option that no call of the history touches keeps value and setter — in particular an
    option never set by any source stays at its default -/
theorem runSets_untouched : ∀ (es : List Ev) (g g' : G) (j : Nat), Inv g → (∀ e ∈ es, e.i < g.opts.length) →
    runSets g es = some g' → (∀ e ∈ es, touches g.opts e j = false) →
    g'.valOf j = g.valOf j ∧ g'.setter j = g.setter j ∧ Inv g' ∧ g'.opts = g.opts := by
  intro es
  induction es with
  | nil => intro g g' j hinv _ h _; simp [runSets] at h; subst h; exact ⟨rfl, rfl, hinv, rfl⟩
  | cons e es ih =>
    intro g g' j hinv hi h ht
    obtain ⟨g1, m, hs, hr⟩ := runSets_cons_some h
    have hei := hi e List.mem_cons_self
    obtain ⟨_, hinv1, hf, _⟩ := setOption_ok hinv hei hs
    obtain ⟨a, b⟩ := setOption_untouched hinv hei hs (ht e List.mem_cons_self)
    obtain ⟨c, d, e1, e2⟩ := ih g1 g' j hinv1 (by intro e' he'; rw [hf.1]; exact hi e' (List.mem_cons_of_mem _ he')) hr
      (by intro e' he'; rw [hf.1]; exact ht e' (List.mem_cons_of_mem _ he'))
    exact ⟨c.trans a, d.trans b, e1, e2.trans hf.1⟩

theorem runSets_frame : ∀ (es : List Ev) (g g' : G), Inv g → (∀ e ∈ es, e.i < g.opts.length) →
    runSets g es = some g' → Inv g' ∧ g'.opts = g.opts := by
  intro es
  induction es with
  | nil => intro g g' hinv _ h; simp [runSets] at h; subst h; exact ⟨hinv, rfl⟩
  | cons e es ih =>
    intro g g' hinv hi h
    obtain ⟨g1, m, hs, hr⟩ := runSets_cons_some h
    obtain ⟨_, hinv1, hf, _⟩ := setOption_ok hinv (hi e List.mem_cons_self) hs
    obtain ⟨a, b⟩ := ih g1 g' hinv1 (by intro e' he'; rw [hf.1]; exact hi e' (List.mem_cons_of_mem _ he')) hr
    exact ⟨a, b.trans hf.1⟩

theorem runSets_append {g g' : G} : ∀ (pre post : List Ev), runSets g (pre ++ post) = some g' →
    ∃ g1, runSets g pre = some g1 ∧ runSets g1 post = some g' := by
  intro pre
  induction pre generalizing g with
  | nil => intro post h; exact ⟨g, rfl, h⟩
  | cons e es ih =>
    intro post h
    obtain ⟨g1, m, hs, hr⟩ := runSets_cons_some (by simpa using h)
    obtain ⟨g2, h2, h3⟩ := ih post hr
    exact ⟨g2, by simp [runSets, hs, h2], h3⟩

/-- (a) **the last source that set an option decides**: after any history in which `e` is the last call touching
    option `e.i`, that option has the value `e` gave it and names `e`'s source as its setter -/
theorem runSets_last_set (pre post : List Ev) (e : Ev) (g g' : G) (hinv : Inv g)
    (hi : ∀ e' ∈ pre ++ e :: post, e'.i < g.opts.length)
    (h : runSets g (pre ++ e :: post) = some g') (hlast : ∀ e' ∈ post, touches g.opts e' e.i = false) :
    g'.valOf e.i = newVal (g.opt e.i) e.arg ∧ g'.setter e.i = e.src := by
  obtain ⟨g1, h1, h2⟩ := runSets_append pre (e :: post) h
  obtain ⟨hinv1, ho1⟩ := runSets_frame pre g g1 hinv (fun e' he' => hi e' (List.mem_append_left _ he')) h1
  obtain ⟨g2, m, hs, hr⟩ := runSets_cons_some h2
  have hei : e.i < g1.opts.length := by rw [ho1]; exact hi e (by simp)
  obtain ⟨_, hinv2, hf, _, _, _, hj⟩ := setOption_ok hinv1 hei hs
  have hspec := hj e.i
  simp only [setSpec, ↓reduceIte] at hspec
  obtain ⟨a, b, _, _⟩ := runSets_untouched post g2 g' e.i hinv2
    (by intro e' he'; rw [hf.1, ho1]; exact hi e' (by simp [he'])) hr
    (by intro e' he'; rw [hf.1, ho1]; exact hlast e' he')
  have hopt : g1.opt e.i = g.opt e.i := by simp [G.opt, ho1]
  rw [a, b, ← hopt]
  exact ⟨congrArg Prod.fst hspec, congrArg Prod.snd hspec⟩

/-- (b) **toggle**: after any history in which `e` is the last call touching option `j`, where `j` is another
    member of the toggle list of the option `e` sets, option `j` is off; if it was on before `e`, its setter is
    `e`'s source, otherwise value and setter are what they were before `e` -/
theorem runSets_toggled (pre post : List Ev) (e : Ev) (j : Nat) (g g' : G) (hinv : Inv g)
    (hi : ∀ e' ∈ pre ++ e :: post, e'.i < g.opts.length)
    (h : runSets g (pre ++ e :: post) = some g') (hj : j ≠ e.i) (hmem : j ∈ listIdx g.opts (g.opt e.i).toggle)
    (hlast : ∀ e' ∈ post, touches g.opts e' j = false) :
    isOn g' j = false ∧
    ∃ g1, runSets g pre = some g1 ∧ (if isOn g1 j then g'.setter j = e.src else g'.setter j = g1.setter j) := by
  obtain ⟨g1, h1, h2⟩ := runSets_append pre (e :: post) h
  obtain ⟨hinv1, ho1⟩ := runSets_frame pre g g1 hinv (fun e' he' => hi e' (List.mem_append_left _ he')) h1
  obtain ⟨g2, m, hs, hr⟩ := runSets_cons_some h2
  have hei : e.i < g1.opts.length := by rw [ho1]; exact hi e (by simp)
  obtain ⟨_, hinv2, hf, _, _, _, hsp⟩ := setOption_ok hinv1 hei hs
  have hspec := hsp j
  have hopt : g1.opt e.i = g.opt e.i := by simp [G.opt, ho1]
  have hmem1 : j ∈ listIdx g1.opts (g1.opt e.i).toggle := by rw [ho1, hopt]; exact hmem
  obtain ⟨a, b, _, _⟩ := runSets_untouched post g2 g' j hinv2
    (by intro e' he'; rw [hf.1, ho1]; exact hi e' (by simp [he'])) hr
    (by intro e' he'; rw [hf.1, ho1]; exact hlast e' he')
  simp only [setSpec, hj, hmem1, true_and, ↓reduceIte] at hspec
  cases hn : (g1.valOf j).isNull with
  | false =>
    simp only [hn, ↓reduceIte] at hspec
    have hv : g2.valOf j = .null := congrArg Prod.fst hspec
    have hst : g2.setter j = e.src := congrArg Prod.snd hspec
    refine ⟨by simp [isOn, a, hv, Val.isNull], g1, h1, ?_⟩
    simp [isOn, hn, b, hst]
  | true =>
    simp only [hn, Bool.true_eq_false, ↓reduceIte] at hspec
    have hv : g2.valOf j = g1.valOf j := congrArg Prod.fst hspec
    have hst : g2.setter j = g1.setter j := congrArg Prod.snd hspec
    refine ⟨by simp [isOn, a, hv, hn], g1, h1, ?_⟩
    simp [isOn, hn, b, hst]

/-- (a, second half) once a source has set an option, a second setting of the same option by the same source is a
    usage error that changes nothing -/
theorem same_source_twice {g g1 : G} {i src : Nat} {arg arg' : Option Str} {m : Bool} (hinv : Inv g) (hi : i < g.opts.length)
    (h : setOption g i arg src = .done g1 .ok m) : setOption g1 i arg' src = .done g1 .esyntax true := by
  obtain ⟨_, _, _, _, _, _, hj⟩ := setOption_ok hinv hi h
  have := hj i
  simp only [setSpec, ↓reduceIte] at this
  exact setOption_rejected (Or.inl (congrArg Prod.snd this))

/-- … and so is setting an option that the same source has just toggled off -/
theorem set_after_toggle_same_source {g g1 : G} {i j src : Nat} {arg arg' : Option Str} {m : Bool} (hinv : Inv g) (hi : i < g.opts.length)
    (h : setOption g i arg src = .done g1 .ok m) (hj : j ≠ i) (hmem : j ∈ listIdx g.opts (g.opt i).toggle)
    (hon : (g.valOf j).isNull = false) : setOption g1 j arg' src = .done g1 .esyntax true := by
  obtain ⟨_, _, _, _, _, _, hsp⟩ := setOption_ok hinv hi h
  have := hsp j
  simp only [setSpec, hj, hmem, hon, and_self, ↓reduceIte] at this
  exact setOption_rejected (Or.inl (congrArg Prod.snd this))

end EaselModel.Getopts
