import EaselModel.Getopts.Model
/-! # C14 — `strtod`: decimal → nearest binary64 (round half to even), the conversion behind `atof()` in
    `verify_real_range` and `esl_opt_GetReal`

`Model.lean` keeps real values as exact decimals.  This file models the rounding glibc's `strtod` performs
(correctly rounded, ties to even, gradual underflow, overflow to infinity) on the decimal grammar of `Model.strtod`,
with natural-number arithmetic only; the driver prints the resulting bit pattern and the harness prints the bit
pattern of the real `atof()`, compared exactly (`atof` op).  `RoundLemmas.lean` proves that the conversion is exact
on every decimal whose value is a binary64 number, a nearest value otherwise, and monotone.

A positive value `N/D` is scaled by `2^1126` (`= 2^(1074+52)`): `N·2^1126/D = q·2^s` with `s ≥ 52`, i.e. the
double `q·2^(s-1126)`; `s = 52` is the subnormal range (`q < 2^52`) and the first binade of normal numbers.
Core Lean only (imported by the driver). -/
namespace EaselModel.Getopts

/-- nearest integer to `n/d`, ties to even -/
def roundDiv (n d : Nat) : Nat :=
  let q := n / d
  let r := n % d
  if 2 * r < d then q else if d < 2 * r then q + 1 else if q % 2 == 0 then q else q + 1

def SCALE : Nat := 1126

/-- the shift: 53 significant bits, but never finer than `2^-1074` -/
def shiftOf (N D : Nat) : Nat := max (Nat.log2 (N * 2 ^ SCALE / D) - 52) 52

/-- `(q, s)`: the double nearest to `N/D` is `q · 2^(s - 1126)` (before the overflow test) -/
def toDbl (N D : Nat) : Nat × Nat := (roundDiv (N * 2 ^ SCALE) (D * 2 ^ shiftOf N D), shiftOf N D)

/-- numerator and denominator of `mant · 10^exp` -/
def Dec.frac (d : Dec) : Nat × Nat :=
  if d.exp ≥ 0 then (d.mant * 10 ^ d.exp.toNat, 1) else (d.mant, 10 ^ (-d.exp).toNat)

/-- the IEEE-754 binary64 bit pattern of the double nearest to the decimal (`0x7ff0…` = infinity).
    Exponents beyond ±5000 are cut off (`10^5000` overflows, `10^-5000` underflows for every digit string of fewer
    than 4000 digits). -/
def Dec.bits (d : Dec) : Nat :=
  let sign := if d.neg then 2 ^ 63 else 0
  if d.mant == 0 then sign
  else if d.exp > 5000 then sign + 0x7ff0000000000000
  else if d.exp < -5000 then sign
  else
    let (N, D) := d.frac
    let (q, s) := toDbl N D
    if q == 0 then sign
    else if q * 2 ^ s ≥ 2 ^ (1024 + SCALE) then sign + 0x7ff0000000000000
    else sign + ((s - 51) * 2 ^ 52 + q - 2 ^ 52)

/-- `atof(s)` as a bit pattern -/
def atofBits (s : Str) : Nat := (atof s).bits

def hexDigit (n : Nat) : Char := if n < 10 then Char.ofNat (48 + n) else Char.ofNat (87 + n)
def hex16 (n : Nat) : String := String.ofList ((List.range 16).reverse.map (fun k => hexDigit (n / 16 ^ k % 16)))

end EaselModel.Getopts
