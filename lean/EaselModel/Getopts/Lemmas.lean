import EaselModel.Getopts.Model
/-! # C14 — lemmas about the `esl_getopts.c` model: state access, `set_option`, toggle loop. Core Lean only. -/
namespace EaselModel.Getopts

/-- the shape invariant of an `ESL_GETOPTS` object: one value and one setter per option -/
structure Inv (g : G) : Prop where
  hv : g.val.length = g.opts.length
  hs : g.setby.length = g.opts.length

@[simp] theorem put_opts (g : G) (i : Nat) (v : Val) (s : Nat) : (g.put i v s).opts = g.opts := rfl
@[simp] theorem put_argv (g : G) (i : Nat) (v : Val) (s : Nat) : (g.put i v s).argv = g.argv := rfl
@[simp] theorem put_optind (g : G) (i : Nat) (v : Val) (s : Nat) : (g.put i v s).optind = g.optind := rfl
@[simp] theorem put_nfiles (g : G) (i : Nat) (v : Val) (s : Nat) : (g.put i v s).nfiles = g.nfiles := rfl
@[simp] theorem put_spoofed (g : G) (i : Nat) (v : Val) (s : Nat) : (g.put i v s).spoofed = g.spoofed := rfl
@[simp] theorem put_opt (g : G) (i : Nat) (v : Val) (s : Nat) (j : Nat) : (g.put i v s).opt j = g.opt j := rfl

theorem put_inv {g : G} (h : Inv g) (i : Nat) (v : Val) (s : Nat) : Inv (g.put i v s) :=
  ⟨by simp [G.put, h.hv], by simp [G.put, h.hs]⟩

theorem put_valOf_same {g : G} {i : Nat} (h : i < g.val.length) (v : Val) (s : Nat) : (g.put i v s).valOf i = v := by
  simp [G.put, G.valOf, List.getD_eq_getElem?_getD, List.getElem?_set_self h]

theorem put_setter_same {g : G} {i : Nat} (h : i < g.setby.length) (v : Val) (s : Nat) : (g.put i v s).setter i = s := by
  simp [G.put, G.setter, List.getD_eq_getElem?_getD, List.getElem?_set_self h]

theorem put_valOf_ne {g : G} {i j : Nat} (h : i ≠ j) (v : Val) (s : Nat) : (g.put i v s).valOf j = g.valOf j := by
  simp [G.put, G.valOf, List.getD_eq_getElem?_getD, List.getElem?_set_ne h]

theorem put_setter_ne {g : G} {i j : Nat} (h : i ≠ j) (v : Val) (s : Nat) : (g.put i v s).setter j = g.setter j := by
  simp [G.put, G.setter, List.getD_eq_getElem?_getD, List.getElem?_set_ne h]

theorem optlistResolve_lt {opts : List Opt} {e : Str} {t : Nat} (h : optlistResolve opts e = some t) : t < opts.length := by
  unfold optlistResolve at h
  exact (List.findIdx?_eq_some_iff_findIdx_eq.mp h).1

/-- the indices a comma-separated option list denotes (elements that do not resolve are dropped; in a
    well-formed table every element resolves) -/
def listIdx (opts : List Opt) (s : Option Str) : List Nat := (optlistElems s).filterMap (optlistResolve opts)

/-- value and setter of option `j` after the toggle loop for option `i` over the indices `ts` -/
def toggleSpec (g : G) (i src : Nat) (ts : List Nat) (j : Nat) : Val × Nat :=
  if j ≠ i ∧ j ∈ ts ∧ (g.valOf j).isNull = false then (.null, src) else (g.valOf j, g.setter j)

/-- frame: what no `set_option` call touches -/
def SameFrame (g g' : G) : Prop :=
  g'.opts = g.opts ∧ g'.argv = g.argv ∧ g'.optind = g.optind ∧ g'.nfiles = g.nfiles ∧ g'.spoofed = g.spoofed

theorem SameFrame.refl (g : G) : SameFrame g g := ⟨rfl, rfl, rfl, rfl, rfl⟩
theorem SameFrame.trans {a b c : G} (h1 : SameFrame a b) (h2 : SameFrame b c) : SameFrame a c :=
  ⟨h2.1.trans h1.1, h2.2.1.trans h1.2.1, h2.2.2.1.trans h1.2.2.1, h2.2.2.2.1.trans h1.2.2.2.1, h2.2.2.2.2.trans h1.2.2.2.2⟩
theorem put_sameFrame (g : G) (i : Nat) (v : Val) (s : Nat) : SameFrame g (g.put i v s) := ⟨rfl, rfl, rfl, rfl, rfl⟩

/-- The toggle loop, when it succeeds, switches off exactly the listed options that were on (other than the
    option being set) and records the setter for them; everything else is untouched. -/
theorem toggleLoop_ok {i src : Nat} : ∀ (es : List Str) (g g' : G) (m : Bool), Inv g →
    toggleLoop g i src es = .done g' .ok m →
    m = false ∧ Inv g' ∧ SameFrame g g' ∧
    (∀ e ∈ es, (optlistResolve g.opts e).isSome) ∧
    ∀ j, (g'.valOf j, g'.setter j) = toggleSpec g i src (es.filterMap (optlistResolve g.opts)) j := by
  intro es
  induction es with
  | nil =>
    intro g g' m hinv h
    simp [toggleLoop] at h
    obtain ⟨rfl, rfl⟩ := h
    refine ⟨rfl, hinv, SameFrame.refl _, by simp, ?_⟩
    intro j; simp [toggleSpec]
  | cons e es ih =>
    intro g g' m hinv h
    unfold toggleLoop at h
    cases hr : optlistResolve g.opts e with
    | none => simp [hr] at h
    | some t =>
      simp only [hr] at h
      have htlt : t < g.opts.length := optlistResolve_lt hr
      by_cases hti : t = i
      · subst hti
        simp at h
        obtain ⟨hm, hi', hf, hres, hj⟩ := ih g g' m hinv h
        refine ⟨hm, hi', hf, ?_, ?_⟩
        · intro e' he'
          rcases List.mem_cons.mp he' with rfl | he'
          · simp [hr]
          · exact hres e' he'
        · intro j
          rw [hj j]
          simp only [toggleSpec, List.filterMap_cons, hr, List.mem_cons]
          by_cases hjt : j = t
          · subst hjt; simp
          · simp [hjt]
      · have hti' : (t == i) = false := by simp [hti]
        simp only [hti'] at h
        by_cases hnull : (g.valOf t).isNull = true
        · simp [hnull] at h
          obtain ⟨hm, hi', hf, hres, hj⟩ := ih g g' m hinv h
          refine ⟨hm, hi', hf, ?_, ?_⟩
          · intro e' he'
            rcases List.mem_cons.mp he' with rfl | he'
            · simp [hr]
            · exact hres e' he'
          · intro j
            rw [hj j]
            simp only [toggleSpec, List.filterMap_cons, hr, List.mem_cons]
            by_cases hjt : j = t
            · subst hjt; simp [hnull]
            · simp [hjt]
        · have hnull' : (g.valOf t).isNull = false := by simpa using hnull
          simp only [hnull'] at h
          by_cases hsame : g.setter t = src
          · simp [hsame] at h
          · have hsame' : (g.setter t == src) = false := by simp [hsame]
            simp only [hsame'] at h
            have hinv1 : Inv (g.put t .null src) := put_inv hinv _ _ _
            obtain ⟨hm, hi', hf, hres, hj⟩ := ih (g.put t .null src) g' m hinv1 (by simpa using h)
            refine ⟨hm, hi', (put_sameFrame g t .null src).trans hf, ?_, ?_⟩
            · intro e' he'
              rcases List.mem_cons.mp he' with rfl | he'
              · simp [hr]
              · simpa using hres e' he'
            · intro j
              rw [hj j]
              simp only [toggleSpec, put_opts, List.filterMap_cons, hr, List.mem_cons]
              by_cases hjt : j = t
              · subst hjt
                have hv : (g.put j .null src).valOf j = .null := put_valOf_same (by rw [hinv.hv]; exact htlt) _ _
                have hs : (g.put j .null src).setter j = src := put_setter_same (by rw [hinv.hs]; exact htlt) _ _
                have hn : Val.null.isNull = true := rfl
                simp [hv, hs, hn, hti, hnull']
              · have hne : t ≠ j := fun h => hjt h.symm
                rw [put_valOf_ne hne, put_setter_ne hne]
                simp [hjt]

/-! ## `set_option` -/

/-- value and setter of option `j` after a successful `set_option(i, arg, src)`: the option itself takes the new
    value, every *other* option of its toggle list that was on is switched off, both record `src`; the rest is
    unchanged -/
def setSpec (g : G) (i : Nat) (arg : Option Str) (src : Nat) (j : Nat) : Val × Nat :=
  if j = i then (newVal (g.opt i) arg, src)
  else if j ∈ listIdx g.opts (g.opt i).toggle ∧ (g.valOf j).isNull = false then (.null, src)
  else (g.valOf j, g.setter j)

theorem setOption_ok {g g' : G} {i src : Nat} {arg : Option Str} {m : Bool} (hinv : Inv g) (hi : i < g.opts.length)
    (h : setOption g i arg src = .done g' .ok m) :
    m = false ∧ Inv g' ∧ SameFrame g g' ∧ g.setter i ≠ src ∧ verifyTypeRange (g.opt i) arg src = .good ∧
    (∀ e ∈ optlistElems (g.opt i).toggle, (optlistResolve g.opts e).isSome) ∧
    ∀ j, (g'.valOf j, g'.setter j) = setSpec g i arg src j := by
  unfold setOption at h
  by_cases hs : g.setter i = src
  · simp [hs] at h
  · have hs' : (g.setter i == src) = false := by simp [hs]
    simp only [hs'] at h
    cases hv : verifyTypeRange (g.opt i) arg src with
    | fault => simp [hv] at h
    | exc => simp [hv] at h
    | bad => simp [hv] at h
    | good =>
      simp only [hv] at h
      have hinv1 : Inv (g.put i (newVal (g.opt i) arg) src) := put_inv hinv _ _ _
      obtain ⟨hm, hi', hf, hres, hj⟩ := toggleLoop_ok _ _ _ _ hinv1 (by simpa using h)
      refine ⟨hm, hi', (put_sameFrame _ _ _ _).trans hf, hs, rfl, by simpa using hres, ?_⟩
      intro j
      rw [hj j]
      simp only [toggleSpec, setSpec, put_opts, listIdx]
      by_cases hji : j = i
      · subst hji
        simp [put_valOf_same (show j < g.val.length by rw [hinv.hv]; exact hi), put_setter_same (show j < g.setby.length by rw [hinv.hs]; exact hi)]
      · have hne : i ≠ j := fun h => hji h.symm
        simp [hji, put_valOf_ne hne, put_setter_ne hne]

/-- an unsuccessful `set_option` that fails before the toggle loop (already set by this source, wrong type, out of
    range) leaves the object untouched -/
theorem setOption_rejected {g : G} {i src : Nat} {arg : Option Str}
    (h : g.setter i = src ∨ verifyTypeRange (g.opt i) arg src = .bad) :
    setOption g i arg src = .done g .esyntax true := by
  unfold setOption
  by_cases hs : g.setter i = src
  · simp [hs]
  · have hs' : (g.setter i == src) = false := by simp [hs]
    rcases h with h | h
    · exact absurd h hs
    · simp [hs', h]

/-- what makes a table row usable: a known type, no range on string types, option lists whose elements resolve -/
structure WFOpt (opts : List Opt) (o : Opt) : Prop where
  type_le : o.type ≤ 6
  norange : isStringy o.type = true → o.range = none
  tog : ∀ e ∈ optlistElems o.toggle, (optlistResolve opts e).isSome
  req : ∀ e ∈ optlistElems o.required, (optlistResolve opts e).isSome
  inc : ∀ e ∈ optlistElems o.incompat, (optlistResolve opts e).isSome

def WF (opts : List Opt) : Prop := ∀ o ∈ opts, WFOpt opts o

/-- the two acceptable outcomes of an API call: success without message, usage error with message -/
def Clean (st : Status) (m : Bool) : Prop := (st = .ok ∧ m = false) ∨ (st = .esyntax ∧ m = true)

theorem verifyTypeRange_noexc {opts : List Opt} {o : Opt} (h : WFOpt opts o) (val : Option Str) (src : Nat) :
    verifyTypeRange o val src ≠ .exc := by
  have h1 := h.type_le
  have h2 := h.norange
  unfold verifyTypeRange
  split
  · simp
  · split
    · simp
    · split <;> (try split) <;> (try split) <;> simp
    · split <;> (try split) <;> (try split) <;> simp
    · split <;> (try split) <;> (try split) <;> simp
    · rename_i ht; simp [isStringy, ht] at h2; simp [h2]
    · rename_i ht; simp [isStringy, ht] at h2; simp [h2]
    · rename_i ht; simp [isStringy, ht] at h2; simp [h2]
    · rename_i a0 a1 a2 a3 a4 a5 a6
      exfalso
      have : o.type = 0 ∨ o.type = 1 ∨ o.type = 2 ∨ o.type = 3 ∨ o.type = 4 ∨ o.type = 5 ∨ o.type = 6 := by omega
      rcases this with h | h | h | h | h | h | h
      · exact a0 h
      · exact a1 h
      · exact a2 h
      · exact a3 h
      · exact a4 h
      · exact a5 h
      · exact a6 h

theorem verifyTypeRange_nofault {o : Opt} {val : Option Str} {src : Nat} (h : val.isSome ∨ o.type ≠ 3) :
    verifyTypeRange o val src ≠ .fault := by
  unfold verifyTypeRange
  split
  · simp
  · split
    · simp
    · split <;> (try split) <;> (try split) <;> simp
    · split <;> (try split) <;> (try split) <;> simp
    · rename_i ht
      split
      · rcases h with h | h
        · simp at h
        · exact absurd ht h
      · split <;> (try split) <;> simp
    · split <;> simp
    · split <;> simp
    · split <;> simp
    · simp

theorem toggleLoop_total {i src : Nat} : ∀ (es : List Str) (g : G), Inv g → (∀ e ∈ es, (optlistResolve g.opts e).isSome) →
    ∃ g' st m, toggleLoop g i src es = .done g' st m ∧ Clean st m ∧ Inv g' ∧ SameFrame g g' := by
  intro es
  induction es with
  | nil => intro g hinv _; exact ⟨g, .ok, false, rfl, Or.inl ⟨rfl, rfl⟩, hinv, SameFrame.refl _⟩
  | cons e es ih =>
    intro g hinv hres
    have hre := hres e (List.mem_cons_self)
    have hres' : ∀ e' ∈ es, (optlistResolve g.opts e').isSome := fun e' he' => hres e' (List.mem_cons_of_mem _ he')
    unfold toggleLoop
    cases hr : optlistResolve g.opts e with
    | none => simp [hr] at hre
    | some t =>
      simp only
      split
      · exact ih g hinv hres'
      · split
        · exact ih g hinv hres'
        · split
          · exact ⟨g, .esyntax, true, rfl, Or.inr ⟨rfl, rfl⟩, hinv, SameFrame.refl _⟩
          · obtain ⟨g', st, m, h1, h2, h3, h4⟩ := ih (g.put t .null src) (put_inv hinv _ _ _) (by simpa using hres')
            exact ⟨g', st, m, h1, h2, h3, (put_sameFrame _ _ _ _).trans h4⟩

/-- `set_option` on a well-formed row never crashes and never raises an exception: it succeeds silently or
    reports a usage error with a message -/
theorem setOption_total {g : G} {i src : Nat} {arg : Option Str} (hinv : Inv g) (hw : WFOpt g.opts (g.opt i))
    (harg : arg.isSome ∨ (g.opt i).type ≠ 3) :
    ∃ g' st m, setOption g i arg src = .done g' st m ∧ Clean st m ∧ Inv g' ∧ SameFrame g g' := by
  unfold setOption
  split
  · exact ⟨g, .esyntax, true, rfl, Or.inr ⟨rfl, rfl⟩, hinv, SameFrame.refl _⟩
  · cases hv : verifyTypeRange (g.opt i) arg src with
    | fault => exact absurd hv (verifyTypeRange_nofault harg)
    | exc => exact absurd hv (verifyTypeRange_noexc hw _ _)
    | bad => exact ⟨g, .esyntax, true, rfl, Or.inr ⟨rfl, rfl⟩, hinv, SameFrame.refl _⟩
    | good =>
      obtain ⟨g', st, m, h1, h2, h3, h4⟩ := toggleLoop_total (i := i) (src := src) (optlistElems (g.opt i).toggle)
        (g.put i (newVal (g.opt i) arg) src) (put_inv hinv _ _ _) (by simpa using hw.tog)
      exact ⟨g', st, m, h1, h2, h3, (put_sameFrame _ _ _ _).trans h4⟩

end EaselModel.Getopts
