import EaselModel.Getopts.Model
/-! # C14 — lemmas about the `esl_getopts.c` model: state access, `set_option`, toggle loop. Core Lean only. -/
namespace EaselModel.Getopts

/-- the shape invariant of an `ESL_GETOPTS` object: one value and one setter per option -/
structure Inv (g : G) : Prop where
  hv : g.val.length = g.opts.length
  hs : g.setby.length = g.opts.length

@[simp] theorem put_opts (g : G) (i : Nat) (v : Val) (s : Nat) : (g.put i v s).opts = g.opts := rfl
@[simp] theorem put_argv (g : G) (i : Nat) (v : Val) (s : Nat) : (g.put i v s).argv = g.argv := rfl
@[simp] theorem put_optind (g : G) (i : Nat) (v : Val) (s : Nat) : (g.put i v s).optind = g.optind := rfl
@[simp] theorem put_nfiles (g : G) (i : Nat) (v : Val) (s : Nat) : (g.put i v s).nfiles = g.nfiles := rfl
@[simp] theorem put_spoofed (g : G) (i : Nat) (v : Val) (s : Nat) : (g.put i v s).spoofed = g.spoofed := rfl
@[simp] theorem put_opt (g : G) (i : Nat) (v : Val) (s : Nat) (j : Nat) : (g.put i v s).opt j = g.opt j := rfl

theorem put_inv {g : G} (h : Inv g) (i : Nat) (v : Val) (s : Nat) : Inv (g.put i v s) :=
  ⟨by simp [G.put, h.hv], by simp [G.put, h.hs]⟩

theorem put_valOf_same {g : G} {i : Nat} (h : i < g.val.length) (v : Val) (s : Nat) : (g.put i v s).valOf i = v := by
  simp [G.put, G.valOf, List.getD_eq_getElem?_getD, List.getElem?_set_self h]

theorem put_setter_same {g : G} {i : Nat} (h : i < g.setby.length) (v : Val) (s : Nat) : (g.put i v s).setter i = s := by
  simp [G.put, G.setter, List.getD_eq_getElem?_getD, List.getElem?_set_self h]

theorem put_valOf_ne {g : G} {i j : Nat} (h : i ≠ j) (v : Val) (s : Nat) : (g.put i v s).valOf j = g.valOf j := by
  simp [G.put, G.valOf, List.getD_eq_getElem?_getD, List.getElem?_set_ne h]

theorem put_setter_ne {g : G} {i j : Nat} (h : i ≠ j) (v : Val) (s : Nat) : (g.put i v s).setter j = g.setter j := by
  simp [G.put, G.setter, List.getD_eq_getElem?_getD, List.getElem?_set_ne h]

theorem optlistResolve_lt {opts : List Opt} {e : Str} {t : Nat} (h : optlistResolve opts e = some t) : t < opts.length := by
  unfold optlistResolve at h
  exact (List.findIdx?_eq_some_iff_findIdx_eq.mp h).1

/-- the indices a comma-separated option list denotes (elements that do not resolve are dropped; in a
    well-formed table every element resolves) -/
def listIdx (opts : List Opt) (s : Option Str) : List Nat := (optlistElems s).filterMap (optlistResolve opts)

/-- value and setter of option `j` after the toggle loop for option `i` over the indices `ts` -/
def toggleSpec (g : G) (i src : Nat) (ts : List Nat) (j : Nat) : Val × Nat :=
  if j ≠ i ∧ j ∈ ts ∧ (g.valOf j).isNull = false then (.null, src) else (g.valOf j, g.setter j)

/-- frame: what no `set_option` call touches -/
def SameFrame (g g' : G) : Prop :=
  g'.opts = g.opts ∧ g'.argv = g.argv ∧ g'.optind = g.optind ∧ g'.nfiles = g.nfiles ∧ g'.spoofed = g.spoofed

theorem SameFrame.refl (g : G) : SameFrame g g := ⟨rfl, rfl, rfl, rfl, rfl⟩
theorem SameFrame.trans {a b c : G} (h1 : SameFrame a b) (h2 : SameFrame b c) : SameFrame a c :=
  ⟨h2.1.trans h1.1, h2.2.1.trans h1.2.1, h2.2.2.1.trans h1.2.2.1, h2.2.2.2.1.trans h1.2.2.2.1, h2.2.2.2.2.trans h1.2.2.2.2⟩
theorem put_sameFrame (g : G) (i : Nat) (v : Val) (s : Nat) : SameFrame g (g.put i v s) := ⟨rfl, rfl, rfl, rfl, rfl⟩

/-- The toggle loop, when it succeeds, switches off exactly the listed options that were on (other than the
    option being set) and records the setter for them; everything else is untouched. -/
theorem toggleLoop_ok {i src : Nat} : ∀ (es : List Str) (g g' : G) (m : Bool), Inv g →
    toggleLoop g i src es = .done g' .ok m →
    m = false ∧ Inv g' ∧ SameFrame g g' ∧
    (∀ e ∈ es, (optlistResolve g.opts e).isSome) ∧
    ∀ j, (g'.valOf j, g'.setter j) = toggleSpec g i src (es.filterMap (optlistResolve g.opts)) j := by
  intro es
  induction es with
  | nil =>
    intro g g' m hinv h
    simp [toggleLoop] at h
    obtain ⟨rfl, rfl⟩ := h
    refine ⟨rfl, hinv, SameFrame.refl _, by simp, ?_⟩
    intro j; simp [toggleSpec]
  | cons e es ih =>
    intro g g' m hinv h
    unfold toggleLoop at h
    cases hr : optlistResolve g.opts e with
    | none => simp [hr] at h
    | some t =>
      simp only [hr] at h
      have htlt : t < g.opts.length := optlistResolve_lt hr
      by_cases hti : t = i
      · subst hti
        simp at h
        obtain ⟨hm, hi', hf, hres, hj⟩ := ih g g' m hinv h
        refine ⟨hm, hi', hf, ?_, ?_⟩
        · intro e' he'
          rcases List.mem_cons.mp he' with rfl | he'
          · simp [hr]
          · exact hres e' he'
        · intro j
          rw [hj j]
          simp only [toggleSpec, List.filterMap_cons, hr, List.mem_cons]
          by_cases hjt : j = t
          · subst hjt; simp
          · simp [hjt]
      · have hti' : (t == i) = false := by simp [hti]
        simp only [hti'] at h
        by_cases hnull : (g.valOf t).isNull = true
        · simp [hnull] at h
          obtain ⟨hm, hi', hf, hres, hj⟩ := ih g g' m hinv h
          refine ⟨hm, hi', hf, ?_, ?_⟩
          · intro e' he'
            rcases List.mem_cons.mp he' with rfl | he'
            · simp [hr]
            · exact hres e' he'
          · intro j
            rw [hj j]
            simp only [toggleSpec, List.filterMap_cons, hr, List.mem_cons]
            by_cases hjt : j = t
            · subst hjt; simp [hnull]
            · simp [hjt]
        · have hnull' : (g.valOf t).isNull = false := by simpa using hnull
          simp only [hnull'] at h
          by_cases hsame : g.setter t = src
          · simp [hsame] at h
          · have hsame' : (g.setter t == src) = false := by simp [hsame]
            simp only [hsame'] at h
            have hinv1 : Inv (g.put t .null src) := put_inv hinv _ _ _
            obtain ⟨hm, hi', hf, hres, hj⟩ := ih (g.put t .null src) g' m hinv1 (by simpa using h)
            refine ⟨hm, hi', (put_sameFrame g t .null src).trans hf, ?_, ?_⟩
            · intro e' he'
              rcases List.mem_cons.mp he' with rfl | he'
              · simp [hr]
              · simpa using hres e' he'
            · intro j
              rw [hj j]
              simp only [toggleSpec, put_opts, List.filterMap_cons, hr, List.mem_cons]
              by_cases hjt : j = t
              · subst hjt
                have hv : (g.put j .null src).valOf j = .null := put_valOf_same (by rw [hinv.hv]; exact htlt) _ _
                have hs : (g.put j .null src).setter j = src := put_setter_same (by rw [hinv.hs]; exact htlt) _ _
                simp [hv, hs, Val.isNull, hti, hnull']
              · have hne : t ≠ j := fun h => hjt h.symm
                rw [put_valOf_ne hne, put_setter_ne hne]
                simp [hjt]

end EaselModel.Getopts
