import EaselModel.Getopts.Model
/-! # C14 — what a documented range string means: `parse_rangestring` on the three documented forms, and the
    resulting integer / character range tests. -/
namespace EaselModel.Getopts

theorem getD_append_add {α : Type} (d : α) : ∀ (l r : List α) (k : Nat), (l ++ r).getD (l.length + k) d = r.getD k d := by
  intro l
  induction l with
  | nil => intro r k; simp
  | cons a l ih =>
    intro r k
    have : (a :: l).length + k = (l.length + k) + 1 := by simp; omega
    rw [this, List.cons_append, List.getD_cons_succ]
    exact ih r k

theorem drop_append_add {α : Type} : ∀ (l r : List α) (k : Nat), (l ++ r).drop (l.length + k) = r.drop k := by
  intro l
  induction l with
  | nil => intro r k; simp
  | cons a l ih =>
    intro r k
    have : (a :: l).length + k = (l.length + k) + 1 := by simp; omega
    rw [this, List.cons_append, List.drop_succ_cons]
    exact ih r k

theorem idxOf_append (c : Char) : ∀ (pre rest : Str), c ∉ pre → idxOf c (pre ++ c :: rest) = some pre.length := by
  intro pre
  induction pre with
  | nil => intro rest _; simp [idxOf]
  | cons a pre ih =>
    intro rest h
    have ha : a ≠ c := fun e => h (by simp [e])
    have hp : c ∉ pre := fun e => h (List.mem_cons_of_mem _ e)
    simp [idxOf, ha, ih rest hp]

/-- the documented one-sided forms `c>=b`, `c>b`, `c<=b`, `c<b` -/
theorem parseRange_lower_incl (c : Char) (b : Str) :
    parseRange (c :: '>' :: '=' :: b) c = some { lower := some b, geq := true, upper := none, leq := false } := by
  simp [parseRange, idxOf]

theorem parseRange_lower_excl (c : Char) (b : Str) (h : b.head? ≠ some '=') :
    parseRange (c :: '>' :: b) c = some { lower := some b, geq := false, upper := none, leq := false } := by
  cases b with
  | nil => simp [parseRange, idxOf]
  | cons x b =>
    have hx : x ≠ '=' := by simpa using h
    simp [parseRange, idxOf, hx]

theorem parseRange_upper_incl (c : Char) (b : Str) :
    parseRange (c :: '<' :: '=' :: b) c = some { lower := none, geq := false, upper := some b, leq := true } := by
  simp [parseRange, idxOf]

theorem parseRange_upper_excl (c : Char) (b : Str) (h : b.head? ≠ some '=') :
    parseRange (c :: '<' :: b) c = some { lower := none, geq := false, upper := some b, leq := false } := by
  cases b with
  | nil => simp [parseRange, idxOf]
  | cons x b =>
    have hx : x ≠ '=' := by simpa using h
    simp [parseRange, idxOf, hx]

/-- spelling of the two-sided form `lo<[=]c<[=]hi` -/
def twoSided (c : Char) (lo : Str) (geq leq : Bool) (hi : Str) : Str :=
  lo ++ ('<' :: ((if geq then ['='] else []) ++ (c :: '<' :: ((if leq then ['='] else []) ++ hi))))

/-- the documented two-sided form: the lower bound is read from the start of the string, the upper bound after
    the second comparison sign, inclusiveness from the `=` signs -/
theorem parseRange_twoSided (c : Char) (lo hi : Str) (geq leq : Bool) (hc : c ∉ lo) (hc1 : c ≠ '<') (hc2 : c ≠ '=')
    (hhi : leq = false → hi.head? ≠ some '=') :
    parseRange (twoSided c lo geq leq hi) c =
      some { lower := some (twoSided c lo geq leq hi), geq := geq, upper := some hi, leq := leq } := by
  have hx : hi.head? ≠ some '=' → (hi.getD 0 '\x00' == '=') = false := by
    intro h
    cases hi with
    | nil => rfl
    | cons y hi =>
      have : y ≠ '=' := by simpa using h
      simp [this]
  cases geq <;> cases leq
  · -- lo<c<hi
    have hpre : c ∉ lo ++ ['<'] := by simp [hc, hc1]
    have hidx := idxOf_append c (lo ++ ['<']) ('<' :: hi) hpre
    have hform : twoSided c lo false false hi = (lo ++ ['<']) ++ c :: '<' :: hi := by simp [twoSided]
    have hlen : (lo ++ ['<']).length = lo.length + 1 := by simp
    generalize hR : (lo ++ ['<']) ++ c :: '<' :: hi = R at *
    have g1 : (R.getD (lo.length + 1 + 1) '\x00' != '<') = false := by
      rw [← hR, ← hlen, getD_append_add]; rfl
    have g2 : (R.getD (lo.length + 1 + 2) '\x00' == '=') = false := by
      rw [← hR, ← hlen, getD_append_add]; exact hx (hhi rfl)
    have g3 : (R.getD (lo.length + 1 - 1) '\x00' == '=') = false := by
      have : lo.length + 1 - 1 = lo.length + 0 := by omega
      rw [← hR, this, List.append_assoc, getD_append_add]; rfl
    have g4 : (R.getD (lo.length + 1 - 1) '\x00' != '<') = false := by
      have : lo.length + 1 - 1 = lo.length + 0 := by omega
      rw [← hR, this, List.append_assoc, getD_append_add]; rfl
    have d1 : R.drop (lo.length + 1 + 2) = hi := by
      rw [← hR, ← hlen, drop_append_add]; rfl
    have p0 : (lo.length + 1 == 0) = false := by simp
    unfold parseRange
    rw [hform, hidx, hlen]
    simp only [p0, g1, g2, g3, g4, d1, Bool.false_eq_true, ↓reduceIte, Bool.false_and]
  · -- lo<c<=hi
    have hpre : c ∉ lo ++ ['<'] := by simp [hc, hc1]
    have hidx := idxOf_append c (lo ++ ['<']) ('<' :: '=' :: hi) hpre
    have hform : twoSided c lo false true hi = (lo ++ ['<']) ++ c :: '<' :: '=' :: hi := by simp [twoSided]
    have hlen : (lo ++ ['<']).length = lo.length + 1 := by simp
    generalize hR : (lo ++ ['<']) ++ c :: '<' :: '=' :: hi = R at *
    have g1 : (R.getD (lo.length + 1 + 1) '\x00' != '<') = false := by
      rw [← hR, ← hlen, getD_append_add]; rfl
    have g2 : (R.getD (lo.length + 1 + 2) '\x00' == '=') = true := by
      rw [← hR, ← hlen, getD_append_add]; rfl
    have g3 : (R.getD (lo.length + 1 - 1) '\x00' == '=') = false := by
      have : lo.length + 1 - 1 = lo.length + 0 := by omega
      rw [← hR, this, List.append_assoc, getD_append_add]; rfl
    have g4 : (R.getD (lo.length + 1 - 1) '\x00' != '<') = false := by
      have : lo.length + 1 - 1 = lo.length + 0 := by omega
      rw [← hR, this, List.append_assoc, getD_append_add]; rfl
    have d1 : R.drop (lo.length + 1 + 3) = hi := by
      rw [← hR, ← hlen, drop_append_add]; rfl
    have p0 : (lo.length + 1 == 0) = false := by simp
    unfold parseRange
    rw [hform, hidx, hlen]
    simp only [p0, g1, g2, g3, g4, d1, Bool.false_eq_true, ↓reduceIte, Bool.false_and]
  · -- lo<=c<hi
    have hpre : c ∉ lo ++ ['<', '='] := by simp [hc, hc1, hc2]
    have hidx := idxOf_append c (lo ++ ['<', '=']) ('<' :: hi) hpre
    have hform : twoSided c lo true false hi = (lo ++ ['<', '=']) ++ c :: '<' :: hi := by simp [twoSided]
    have hlen : (lo ++ ['<', '=']).length = lo.length + 2 := by simp
    generalize hR : (lo ++ ['<', '=']) ++ c :: '<' :: hi = R at *
    have g1 : (R.getD (lo.length + 2 + 1) '\x00' != '<') = false := by
      rw [← hR, ← hlen, getD_append_add]; rfl
    have g2 : (R.getD (lo.length + 2 + 2) '\x00' == '=') = false := by
      rw [← hR, ← hlen, getD_append_add]; exact hx (hhi rfl)
    have g3 : (R.getD (lo.length + 2 - 1) '\x00' == '=') = true := by
      have : lo.length + 2 - 1 = lo.length + 1 := by omega
      rw [← hR, this, List.append_assoc, getD_append_add]; rfl
    have g4 : (R.getD (lo.length + 2 - 1 - 1) '\x00' != '<') = false := by
      have : lo.length + 2 - 1 - 1 = lo.length + 0 := by omega
      rw [← hR, this, List.append_assoc, getD_append_add]; rfl
    have d1 : R.drop (lo.length + 2 + 2) = hi := by
      rw [← hR, ← hlen, drop_append_add]; rfl
    have p0 : (lo.length + 2 == 0) = false := by simp
    have q0 : (lo.length + 2 - 1 == 0) = false := by simp
    unfold parseRange
    rw [hform, hidx, hlen]
    simp only [p0, q0, g1, g2, g3, g4, d1, Bool.false_eq_true, ↓reduceIte, Bool.and_false]
  · -- lo<=c<=hi
    have hpre : c ∉ lo ++ ['<', '='] := by simp [hc, hc1, hc2]
    have hidx := idxOf_append c (lo ++ ['<', '=']) ('<' :: '=' :: hi) hpre
    have hform : twoSided c lo true true hi = (lo ++ ['<', '=']) ++ c :: '<' :: '=' :: hi := by simp [twoSided]
    have hlen : (lo ++ ['<', '=']).length = lo.length + 2 := by simp
    generalize hR : (lo ++ ['<', '=']) ++ c :: '<' :: '=' :: hi = R at *
    have g1 : (R.getD (lo.length + 2 + 1) '\x00' != '<') = false := by
      rw [← hR, ← hlen, getD_append_add]; rfl
    have g2 : (R.getD (lo.length + 2 + 2) '\x00' == '=') = true := by
      rw [← hR, ← hlen, getD_append_add]; rfl
    have g3 : (R.getD (lo.length + 2 - 1) '\x00' == '=') = true := by
      have : lo.length + 2 - 1 = lo.length + 1 := by omega
      rw [← hR, this, List.append_assoc, getD_append_add]; rfl
    have g4 : (R.getD (lo.length + 2 - 1 - 1) '\x00' != '<') = false := by
      have : lo.length + 2 - 1 - 1 = lo.length + 0 := by omega
      rw [← hR, this, List.append_assoc, getD_append_add]; rfl
    have d1 : R.drop (lo.length + 2 + 3) = hi := by
      rw [← hR, ← hlen, drop_append_add]; rfl
    have p0 : (lo.length + 2 == 0) = false := by simp
    have q0 : (lo.length + 2 - 1 == 0) = false := by simp
    unfold parseRange
    rw [hform, hidx, hlen]
    simp only [p0, q0, g1, g2, g3, g4, d1, Bool.false_eq_true, ↓reduceIte, Bool.and_false]

/-! ## integer ranges -/

theorem not_space_of_digit {c : Char} (h : isDigit c = true) : isSpace c = false := by
  simp only [isDigit, Bool.and_eq_true, decide_eq_true_eq] at h
  have key : ∀ x : Char, x < '0' → (c == x) = false := by
    intro x hx
    cases hcx : c == x with
    | false => rfl
    | true =>
      have : c = x := by simpa using hcx
      subst this
      exact absurd h.1 (Char.not_le.mpr hx)
  simp [isSpace, key ' ' (by decide), key '\t' (by decide), key '\n' (by decide), key '\x0b' (by decide),
    key '\x0c' (by decide), key '\r' (by decide)]

/-- an integer literal as it appears in a range string or a default: optional `-`, then digits -/
def IntLit (s : Str) : Prop :=
  ∃ (neg : Bool) (ds : Str), ds ≠ [] ∧ (∀ d ∈ ds, isDigit d = true) ∧ s = (if neg then ['-'] else []) ++ ds

theorem takeWhile_digits (ds : Str) (c : Char) (rest : Str) (hds : ∀ d ∈ ds, isDigit d = true) (hc : isDigit c = false) :
    (ds ++ c :: rest).takeWhile isDigit = ds ∧ (ds ++ c :: rest).dropWhile isDigit = c :: rest := by
  induction ds with
  | nil => simp [List.takeWhile_cons, List.dropWhile_cons, hc]
  | cons d ds ih =>
    have hd := hds d List.mem_cons_self
    have := ih (fun x hx => hds x (List.mem_cons_of_mem _ hx))
    simp [List.takeWhile_cons, List.dropWhile_cons, hd, this.1, this.2]

theorem strtol_of_parts {s s' t ds r : Str} {neg : Bool} (h1 : s.dropWhile isSpace = s') (h2 : signOf s' = (neg, t))
    (h3 : t.takeWhile isDigit = ds) (h4 : ds ≠ []) (h5 : t.dropWhile isDigit = r) :
    strtol s = some ((if neg then - (digitsVal ds : Int) else (digitsVal ds : Int)), r) := by
  unfold strtol
  have : ds.isEmpty = false := by cases ds with
    | nil => exact absurd rfl h4
    | cons _ _ => rfl
  simp only [h1, h2, h3, h5, this, Bool.false_eq_true, ↓reduceIte]

theorem signOf_digit {d : Char} (r : Str) (hd : isDigit d = true) : signOf (d :: r) = (false, d :: r) := by
  have hd1 : d ≠ '-' := by intro e; subst e; simp [isDigit] at hd
  have hd2 : d ≠ '+' := by intro e; subst e; simp [isDigit] at hd
  unfold signOf
  split
  · rename_i r' heq; injection heq with h1 _; exact absurd h1 hd1
  · rename_i r' heq; injection heq with h1 _; exact absurd h1 hd2
  · rfl

/-- `strtol` reads exactly the literal and stops at what follows (a non-digit, or nothing) -/
theorem strtol_lit (neg : Bool) (ds tail : Str) (hne : ds ≠ []) (hds : ∀ d ∈ ds, isDigit d = true)
    (ht : tail.takeWhile isDigit = []) :
    strtol ((if neg then ['-'] else []) ++ ds ++ tail) =
      some ((if neg then - (digitsVal ds : Int) else (digitsVal ds : Int)), tail) := by
  obtain ⟨d, ds', rfl⟩ := List.exists_cons_of_ne_nil hne
  have hd := hds d List.mem_cons_self
  have hsp := not_space_of_digit hd
  have htw : ((d :: ds') ++ tail).takeWhile isDigit = d :: ds' := by
    rw [List.takeWhile_append_of_pos hds, ht]; simp
  have hdw : ((d :: ds') ++ tail).dropWhile isDigit = tail := by
    have hdt : tail.dropWhile isDigit = tail := by
      cases tail with
      | nil => rfl
      | cons x xs =>
        have : isDigit x = false := by
          cases hx : isDigit x with
          | false => rfl
          | true => simp [List.takeWhile_cons, hx] at ht
        simp [List.dropWhile_cons, this]
    rw [List.dropWhile_append]
    have : ∀ (l : Str), (∀ x ∈ l, isDigit x = true) → l.dropWhile isDigit = [] := by
      intro l
      induction l with
      | nil => intro _; rfl
      | cons x xs ih =>
        intro hl
        simp [List.dropWhile_cons, hl x List.mem_cons_self, ih (fun y hy => hl y (List.mem_cons_of_mem _ hy))]
    have := this (d :: ds') hds
    simp [this, hdt]
  cases neg with
  | true =>
    apply strtol_of_parts (s' := '-' :: ((d :: ds') ++ tail)) (t := (d :: ds') ++ tail) (neg := true) _ rfl htw (by simp) hdw
    simp [List.dropWhile_cons, isSpace]
  | false =>
    apply strtol_of_parts (s' := (d :: ds') ++ tail) (t := (d :: ds') ++ tail) (neg := false) _ (signOf_digit _ hd) htw (by simp) hdw
    simp [List.dropWhile_cons, hsp]

theorem atoi_lit_append {lo : Str} (h : IntLit lo) (c : Char) (rest : Str) (hc : isDigit c = false) :
    atoi (lo ++ c :: rest) = atoi lo := by
  obtain ⟨neg, ds, hne, hds, rfl⟩ := h
  have h1 := strtol_lit neg ds (c :: rest) hne hds (by simp [List.takeWhile_cons, hc])
  have h2 := strtol_lit neg ds [] hne hds rfl
  simp only [List.append_nil] at h2
  unfold atoi
  rw [h1, h2]

theorem intLit_no_marker {lo : Str} (h : IntLit lo) : 'n' ∉ lo := by
  obtain ⟨neg, ds, _, hds, rfl⟩ := h
  intro hm
  rcases List.mem_append.mp hm with hm | hm
  · cases neg <;> simp at hm
  · have := hds 'n' hm; simp [isDigit] at this

/-- **meaning of a two-sided integer range** `lo<[=]n<[=]hi`: the argument is accepted iff it lies between the
    bounds, inclusively or exclusively as the `=` signs say -/
theorem intRangeOk_twoSided (v lo hi : Str) (geq leq : Bool) (hlo : IntLit lo) (hhi : leq = false → hi.head? ≠ some '=') :
    intRangeOk v (some (twoSided 'n' lo geq leq hi)) =
      ((if geq then decide (atoi v ≥ atoi lo) else decide (atoi v > atoi lo)) &&
       (if leq then decide (atoi v ≤ atoi hi) else decide (atoi v < atoi hi))) := by
  have hp := parseRange_twoSided 'n' lo hi geq leq (intLit_no_marker hlo) (by decide) (by decide) hhi
  have ha : atoi (twoSided 'n' lo geq leq hi) = atoi lo := by
    unfold twoSided
    exact atoi_lit_append hlo '<' _ (by decide)
  unfold intRangeOk
  simp only [hp, ha]

/-- one-sided integer ranges `n>=a`, `n>a`, `n<=b`, `n<b` -/
theorem intRangeOk_lower (v a : Str) (incl : Bool) (h : incl = false → a.head? ≠ some '=') :
    intRangeOk v (some ('n' :: '>' :: ((if incl then ['='] else []) ++ a))) =
      (if incl then decide (atoi v ≥ atoi a) else decide (atoi v > atoi a)) := by
  cases incl with
  | true => simp [intRangeOk, parseRange_lower_incl]
  | false => simp [intRangeOk, parseRange_lower_excl 'n' a (h rfl)]

theorem intRangeOk_upper (v b : Str) (incl : Bool) (h : incl = false → b.head? ≠ some '=') :
    intRangeOk v (some ('n' :: '<' :: ((if incl then ['='] else []) ++ b))) =
      (if incl then decide (atoi v ≤ atoi b) else decide (atoi v < atoi b)) := by
  cases incl with
  | true => simp [intRangeOk, parseRange_upper_incl]
  | false => simp [intRangeOk, parseRange_upper_excl 'n' b (h rfl)]

/-- character ranges: the bounds are the first characters of the bound strings -/
theorem charRangeOk_twoSided (v lo hi : Str) (geq leq : Bool) (hc : 'c' ∉ lo) (hne : lo ≠ []) (hhi : leq = false → hi.head? ≠ some '=') :
    charRangeOk v (some (twoSided 'c' lo geq leq hi)) =
      ((if geq then decide ((v.getD 0 '\x00').toNat ≥ (lo.getD 0 '\x00').toNat) else decide ((v.getD 0 '\x00').toNat > (lo.getD 0 '\x00').toNat)) &&
       (if leq then decide ((v.getD 0 '\x00').toNat ≤ (hi.getD 0 '\x00').toNat) else decide ((v.getD 0 '\x00').toNat < (hi.getD 0 '\x00').toNat))) := by
  have hp := parseRange_twoSided 'c' lo hi geq leq hc (by decide) (by decide) hhi
  have h0 : (twoSided 'c' lo geq leq hi).getD 0 '\x00' = lo.getD 0 '\x00' := by
    obtain ⟨x, lo', rfl⟩ := List.exists_cons_of_ne_nil hne
    simp [twoSided]
  unfold charRangeOk
  simp only [hp, h0]

end EaselModel.Getopts
