import EaselModel.Getopts.History
/-! # C14 — every source is a *parse* that looks only at the option table, followed by a run of `set_option`
    calls in order that stops at the first usage error ("one setter shared by all sources"). -/
namespace EaselModel.Getopts

/-- `set_option` never touches table, argv, optind, file counter, spoof flag — whatever its outcome -/
theorem toggleLoop_frame {i src : Nat} : ∀ (es : List Str) (g g' : G) (st : Status) (m : Bool),
    toggleLoop g i src es = .done g' st m → SameFrame g g' := by
  intro es
  induction es with
  | nil => intro g g' st m h; simp [toggleLoop] at h; rw [← h.1]; exact SameFrame.refl _
  | cons e es ih =>
    intro g g' st m h
    unfold toggleLoop at h
    split at h
    · simp at h; rw [← h.1]; exact SameFrame.refl _
    · split at h
      · exact ih _ _ _ _ h
      · split at h
        · exact ih _ _ _ _ h
        · split at h
          · simp at h; rw [← h.1]; exact SameFrame.refl _
          · exact (put_sameFrame _ _ _ _).trans (ih _ _ _ _ h)

theorem setOption_frame {g g' : G} {i src : Nat} {arg : Option Str} {st : Status} {m : Bool}
    (h : setOption g i arg src = .done g' st m) : SameFrame g g' := by
  unfold setOption at h
  split at h
  · simp at h; rw [← h.1]; exact SameFrame.refl _
  · split at h
    · cases h
    · simp at h; rw [← h.1]; exact SameFrame.refl _
    · simp at h; rw [← h.1]; exact SameFrame.refl _
    · exact (put_sameFrame _ _ _ _).trans (toggleLoop_frame _ _ _ _ _ h)

/-- run a list of settings, stopping at the first one that does not succeed -/
def runEvs : G → List Ev → R
  | g, [] => .done g .ok false
  | g, e :: es =>
    match setOption g e.i e.arg e.src with
    | .fault => .fault
    | .done g' .ok _ => runEvs g' es
    | .done g' st m => .done g' st m

theorem runEvs_ok_runSets : ∀ (es : List Ev) (g g' : G) (m : Bool), runEvs g es = .done g' .ok m → runSets g es = some g' := by
  intro es
  induction es with
  | nil => intro g g' m h; simp [runEvs] at h; simp [runSets, h.1]
  | cons e es ih =>
    intro g g' m h
    unfold runEvs at h
    unfold runSets
    cases hs : setOption g e.i e.arg e.src with
    | fault => simp [hs] at h
    | done g1 st m1 =>
      cases st with
      | ok => simp only [hs] at h ⊢; exact ih g1 g' m h
      | esyntax => simp [hs] at h
      | einval => simp [hs] at h

/-! ## environment -/

/-- the settings the environment asks for, in table order -/
def envEvents (env : Str → Option Str) : Nat → List Opt → List Ev
  | _, [] => []
  | i, o :: os =>
    match o.envvar with
    | none => envEvents env (i + 1) os
    | some name =>
      match env name with
      | none => envEvents env (i + 1) os
      | some v => ⟨i, some v, byEnv⟩ :: envEvents env (i + 1) os

theorem envLoop_eq (env : Str → Option Str) : ∀ (os : List Opt) (g : G) (i : Nat),
    envLoop env g i os = runEvs g (envEvents env i os) := by
  intro os
  induction os with
  | nil => intro g i; rfl
  | cons o os ih =>
    intro g i
    unfold envLoop envEvents
    cases o.envvar with
    | none => exact ih g (i + 1)
    | some name =>
      simp only
      cases env name with
      | none => exact ih g (i + 1)
      | some v =>
        simp only [runEvs]
        cases hs : setOption g i (some v) byEnv with
        | fault => rfl
        | done g1 st m =>
          cases st with
          | ok => exact ih g1 (i + 1)
          | esyntax => rfl
          | einval => rfl

/-- `esl_opt_ProcessEnvironment` = run the environment's settings in table order -/
theorem processEnvironment_eq (g : G) (env : Str → Option Str) :
    processEnvironment g env = runEvs g (envEvents env 0 g.opts) := envLoop_eq env g.opts g 0

/-! ## config file -/

inductive CfgItem
  | set (i : Nat) (arg : Option Str)
  | usage
  deriving Repr, DecidableEq

/-- what one line of a config file asks for — a function of the option table alone -/
def cfgItem (opts : List Opt) (line : Str) : Option CfgItem :=
  match cfgTokens line with
  | (none, _, _) => none
  | (some name, optarg, comment) =>
    if name.head? == some '#' then none
    else if name.head? != some '-' then some .usage
    else if comment.isSome && (comment.bind List.head?) != some '#' then some .usage
    else match optidxExactly opts name with
      | none => some .usage
      | some i => if (opts.getD i default).type != 0 && optarg.isNone then some .usage else some (.set i optarg)

def runCfg (src : Nat) : G → List CfgItem → R
  | g, [] => .done { g with nfiles := g.nfiles + 1 } .ok false
  | g, .usage :: _ => .done g .esyntax true
  | g, .set i arg :: is =>
    match setOption g i arg src with
    | .fault => .fault
    | .done g' .ok _ => runCfg src g' is
    | .done g' st m => .done g' st m

theorem cfgLine_eq (g : G) (line : Str) :
    cfgLine g line = (cfgItem g.opts line).map (fun it => match it with
      | .usage => R.done g .esyntax true
      | .set i arg => setOption g i arg (byCfgfile + g.nfiles)) := by
  unfold cfgLine cfgItem
  rcases cfgTokens line with ⟨_ | name, optarg, comment⟩
  · rfl
  · simp only
    by_cases h1 : (name.head? == some '#') = true
    · simp only [h1, ↓reduceIte, Option.map_none]
    · by_cases h2 : (name.head? != some '-') = true
      · simp only [h1, h2, Bool.false_eq_true, ↓reduceIte, Option.map_some]
      · by_cases h3 : (comment.isSome && (comment.bind List.head?) != some '#') = true
        · simp only [h1, h2, h3, Bool.false_eq_true, ↓reduceIte, Option.map_some]
        · simp only [h1, h2, h3, Bool.false_eq_true, ↓reduceIte]
          cases h4 : optidxExactly g.opts name with
          | none => rfl
          | some i =>
            simp only [G.opt]
            by_cases h5 : ((g.opts.getD i default).type != 0 && optarg.isNone) = true
            · simp only [h5, Bool.false_eq_true, ↓reduceIte, Option.map_some]
            · simp only [h5, Bool.false_eq_true, ↓reduceIte, Option.map_some]

theorem cfgLoop_eq : ∀ (ls : List Str) (g : G) (src : Nat), src = byCfgfile + g.nfiles →
    cfgLoop g ls = runCfg src g (ls.filterMap (cfgItem g.opts)) := by
  intro ls
  induction ls with
  | nil => intro g src _; rfl
  | cons l ls ih =>
    intro g src hsrc
    unfold cfgLoop
    rw [cfgLine_eq, List.filterMap_cons]
    cases hi : cfgItem g.opts l with
    | none => simpa using ih g src hsrc
    | some it =>
      cases it with
      | usage => simp [runCfg]
      | set i arg =>
        simp only [Option.map_some, runCfg, ← hsrc]
        cases hs : setOption g i arg src with
        | fault => rfl
        | done g1 st m =>
          have hf := setOption_frame hs
          cases st with
          | ok =>
            simp only
            rw [ih g1 src (by rw [hf.2.2.2.1]; exact hsrc), hf.1]
          | esyntax => rfl
          | einval => rfl

/-- `esl_opt_ProcessConfigfile` = parse every line against the table, then run the settings with this file's
    setter code, stopping at the first usage error; the file counter advances only on success -/
theorem processConfigfile_eq (g : G) (content : Str) :
    processConfigfile g content = runCfg (byCfgfile + g.nfiles) g ((fileLines content).filterMap (cfgItem g.opts)) :=
  cfgLoop_eq _ g _ rfl

/-! ## command line -/

inductive CmdItem
  | set (i : Nat) (arg : Option Str) (kfail : Nat)   -- a `set_option` call; `kfail` = optind if it fails
  | stop (st : Status) (msg : Bool) (k : Nat)          -- parsing ends: end of options (`ok`) or usage error, optind `k`
  deriving Repr, DecidableEq

/-- parse one optstring; second component: `some extra` = go on (next element consumed?), `none` = stopped -/
def parseStd (opts : List Opt) (k : Nat) : Str → Option Str → List CmdItem × Option Bool
  | [], _ => ([], some false)
  | c :: cs, next =>
    match findShort opts c with
    | none => ([.stop .esyntax true (k + 1)], none)
    | some i =>
      if (opts.getD i default).type != 0 then
        if !cs.isEmpty then ([.set i (some cs) (k + 1)], some false)
        else match next with
          | none => ([.stop .esyntax true (k + 1)], none)
          | some a =>
            if isStringy (opts.getD i default).type && startsWithDash a then ([.stop .esyntax true (k + 2)], none)
            else ([.set i (some a) (k + 2)], some true)
      else if cs.isEmpty then ([.set i none (k + 1)], some false)
      else let r := parseStd opts k cs next; (.set i none (k + 1) :: r.1, r.2)

def parseLong (opts : List Opt) (k : Nat) (w : Str) (next : Option Str) : List CmdItem × Option Bool :=
  match optidxAbbrev opts (splitEq w).1 with
  | .ambiguous => ([.stop .esyntax true k], none)
  | .notfound => ([.stop .esyntax true k], none)
  | .found i =>
    if (opts.getD i default).type != 0 then
      match (splitEq w).2 with
      | some a => ([.set i (some a) (k + 1)], some false)
      | none =>
        match next with
        | none => ([.stop .esyntax true (k + 1)], none)
        | some a =>
          if isStringy (opts.getD i default).type && startsWithDash a then ([.stop .esyntax true (k + 2)], none)
          else ([.set i (some a) (k + 2)], some true)
    else
      match (splitEq w).2 with
      | some _ => ([.stop .esyntax true (k + 1)], none)
      | none => ([.set i none (k + 1)], some false)

def parseOpt (opts : List Opt) (k : Nat) (w : Str) (next : Option Str) : List CmdItem × Option Bool :=
  match w with
  | '-' :: '-' :: _ => parseLong opts k w next
  | _ => parseStd opts k (w.drop 1) next

/-- parse a whole command line (from `argv[k]` on) against the table -/
def parseCmd (opts : List Opt) : Nat → List Str → Bool → List CmdItem
  | k, [], _ => [.stop .ok false k]
  | k, _ :: tl, true => parseCmd opts k tl false
  | k, w :: tl, false =>
    if isArgWord w then [.stop .ok false k]
    else if w == ['-', '-'] then [.stop .ok false (k + 1)]
    else
      let r := parseOpt opts k w tl.head?
      match r.2 with
      | none => r.1
      | some extra => r.1 ++ parseCmd opts (k + 1 + (if extra then 1 else 0)) tl extra

/-- run parsed command-line items; `F` = what to do when the items are exhausted -/
def runCmd (F : G → R) : G → List CmdItem → R
  | g, [] => F g
  | g, .stop st m k :: _ => .done { g with optind := k } st m
  | g, .set i arg kf :: is =>
    match setOption g i arg byCmdline with
    | .fault => .fault
    | .done g' .ok _ => runCmd F g' is
    | .done g' st m => .done { g' with optind := kf } st m

/-- what `cmdLoop` does with the outcome of one argv element -/
def afterStep (k : Nat) (F : G → Bool → R) : Step → R
  | .fault => .fault
  | .stop g' st m adv => .done { g' with optind := k + adv } st m
  | .cont g' extra => F g' extra

theorem runCmd_congr {F F' : G → R} {opts : List Opt} (hF : ∀ g, g.opts = opts → F g = F' g) :
    ∀ (is : List CmdItem) (g : G), g.opts = opts → runCmd F g is = runCmd F' g is := by
  intro is
  induction is with
  | nil => intro g hg; exact hF g hg
  | cons it is ih =>
    intro g hg
    cases it with
    | stop st m k => rfl
    | set i arg kf =>
      simp only [runCmd]
      cases hs : setOption g i arg byCmdline with
      | fault => rfl
      | done g1 st m =>
        cases st with
        | ok => exact ih g1 ((setOption_frame hs).1.trans hg)
        | esyntax => rfl
        | einval => rfl

theorem runCmd_append (F : G → R) : ∀ (a b : List CmdItem) (g : G), runCmd F g (a ++ b) = runCmd (fun g' => runCmd F g' b) g a := by
  intro a
  induction a with
  | nil => intro b g; rfl
  | cons it a ih =>
    intro b g
    cases it with
    | stop st m k => rfl
    | set i arg kf =>
      simp only [List.cons_append, runCmd]
      cases hs : setOption g i arg byCmdline with
      | fault => rfl
      | done g1 st m =>
        cases st with
        | ok => exact ih b g1
        | esyntax => rfl
        | einval => rfl

/-- a parsed element, run: either stops, or continues with `F g' extra` -/
def runParsed (F : G → Bool → R) (g : G) (r : List CmdItem × Option Bool) : R :=
  match r.2 with
  | none => runCmd (fun g' => .done g' .ok false) g r.1
  | some extra => runCmd (fun g' => F g' extra) g r.1

theorem stdLoop_eq (k : Nat) (F : G → Bool → R) : ∀ (cs : Str) (g : G) (next : Option Str),
    afterStep k F (stdLoop g cs next) = runParsed F g (parseStd g.opts k cs next) := by
  intro cs
  induction cs with
  | nil => intro g next; rfl
  | cons c cs ih =>
    intro g next
    unfold stdLoop parseStd
    cases findShort g.opts c with
    | none => rfl
    | some i =>
      simp only [G.opt]
      by_cases ht : (g.opts.getD i default).type = 0
      · have ht' : ((g.opts.getD i default).type != 0) = false := by rw [ht]; rfl
        simp only [ht', Bool.false_eq_true, ↓reduceIte]
        by_cases hc : cs.isEmpty = true
        · simp only [hc, ↓reduceIte, runParsed, runCmd]
          cases hs : setOption g i none byCmdline with
          | fault => rfl
          | done g1 st m => cases st <;> rfl
        · simp only [hc, Bool.false_eq_true, ↓reduceIte]
          cases hs : setOption g i none byCmdline with
          | fault =>
            cases hr : (parseStd g.opts k cs next).2 <;> simp [runParsed, runCmd, hs, hr, afterStep]
          | done g1 st m =>
            have hf := setOption_frame hs
            cases st with
            | ok =>
              simp only
              rw [ih g1 next, hf.1]
              cases hr : (parseStd g.opts k cs next).2 <;> simp [runParsed, runCmd, hs, hr]
            | esyntax => cases hr : (parseStd g.opts k cs next).2 <;> simp [runParsed, runCmd, hs, hr, afterStep]
            | einval => cases hr : (parseStd g.opts k cs next).2 <;> simp [runParsed, runCmd, hs, hr, afterStep]
      · have ht' : ((g.opts.getD i default).type != 0) = true := bne_iff_ne.mpr ht
        simp only [ht', ↓reduceIte]
        by_cases hc : cs.isEmpty = true
        · simp only [hc, Bool.not_true, Bool.false_eq_true, ↓reduceIte]
          cases next with
          | none => rfl
          | some a =>
            simp only
            by_cases hd : (isStringy (g.opts.getD i default).type && startsWithDash a) = true
            · simp only [hd, ↓reduceIte]; rfl
            · simp only [hd, Bool.false_eq_true, ↓reduceIte, runParsed, runCmd]
              cases hs : setOption g i (some a) byCmdline with
              | fault => rfl
              | done g1 st m => cases st <;> rfl
        · simp only [hc, Bool.not_false, ↓reduceIte, runParsed, runCmd]
          cases hs : setOption g i (some cs) byCmdline with
          | fault => rfl
          | done g1 st m => cases st <;> rfl

theorem longOpt_eq (k : Nat) (F : G → Bool → R) (g : G) (w : Str) (next : Option Str) :
    afterStep k F (longOpt g w next) = runParsed F g (parseLong g.opts k w next) := by
  unfold longOpt parseLong
  simp only
  cases optidxAbbrev g.opts (splitEq w).1 with
  | ambiguous => rfl
  | notfound => rfl
  | found i =>
    simp only [G.opt]
    by_cases ht : (g.opts.getD i default).type = 0
    · have ht' : ((g.opts.getD i default).type != 0) = false := by rw [ht]; rfl
      simp only [ht', Bool.false_eq_true, ↓reduceIte]
      cases (splitEq w).2 with
      | some a => rfl
      | none =>
        simp only [runParsed, runCmd]
        cases hs : setOption g i none byCmdline with
        | fault => rfl
        | done g1 st m => cases st <;> rfl
    · have ht' : ((g.opts.getD i default).type != 0) = true := bne_iff_ne.mpr ht
      simp only [ht', ↓reduceIte]
      cases (splitEq w).2 with
      | some a =>
        simp only [runParsed, runCmd]
        cases hs : setOption g i (some a) byCmdline with
        | fault => rfl
        | done g1 st m => cases st <;> rfl
      | none =>
        simp only
        cases next with
        | none => rfl
        | some a =>
          simp only
          by_cases hd : (isStringy (g.opts.getD i default).type && startsWithDash a) = true
          · simp only [hd, ↓reduceIte]; rfl
          · simp only [hd, Bool.false_eq_true, ↓reduceIte, runParsed, runCmd]
            cases hs : setOption g i (some a) byCmdline with
            | fault => rfl
            | done g1 st m => cases st <;> rfl

theorem optStep_eq (k : Nat) (F : G → Bool → R) (g : G) (w : Str) (next : Option Str) :
    afterStep k F (optStep g w next) = runParsed F g (parseOpt g.opts k w next) := by
  unfold optStep parseOpt
  split
  · exact longOpt_eq k F g _ next
  · rename_i hne
    split
    · rename_i tail; exact absurd rfl (hne tail)
    · exact stdLoop_eq k F _ g next

theorem cmdLoop_afterStep (g : G) (k : Nat) (w : Str) (tl : List Str) (h1 : isArgWord w = false) (h2 : (w == ['-', '-']) = false) :
    cmdLoop g k (w :: tl) false =
      afterStep k (fun g' extra => cmdLoop g' (k + 1 + (if extra then 1 else 0)) tl extra) (optStep g w tl.head?) := by
  conv => lhs; unfold cmdLoop
  simp only [h1, h2, Bool.false_eq_true, ↓reduceIte]
  cases optStep g w tl.head? <;> rfl

/-- the command-line loop = parse against the table, then run the settings in order -/
theorem cmdLoop_eq : ∀ (ws : List Str) (g : G) (k : Nat) (skip : Bool),
    cmdLoop g k ws skip = runCmd (fun g' => .done g' .ok false) g (parseCmd g.opts k ws skip) := by
  intro ws
  induction ws with
  | nil => intro g k skip; simp [cmdLoop, parseCmd, runCmd]
  | cons w tl ih =>
    intro g k skip
    cases skip with
    | true => simpa [cmdLoop, parseCmd] using ih g k false
    | false =>
      by_cases h1 : isArgWord w = true
      · simp [cmdLoop, parseCmd, h1, runCmd]
      · have h1' : isArgWord w = false := by simpa using h1
        by_cases h2 : (w == ['-', '-']) = true
        · simp [cmdLoop, parseCmd, h1', h2, runCmd]
        · have h2' : (w == ['-', '-']) = false := by simpa using h2
          rw [cmdLoop_afterStep g k w tl h1' h2', optStep_eq]
          unfold parseCmd
          simp only [h1', h2', Bool.false_eq_true, ↓reduceIte, runParsed]
          cases hr : (parseOpt g.opts k w tl.head?).2 with
          | none => rfl
          | some extra =>
            simp only
            rw [runCmd_append]
            apply runCmd_congr (opts := g.opts) _ _ g rfl
            intro g' hg'
            rw [ih g' _ extra, hg']

/-- `esl_opt_ProcessCmdline` = parse `argv` against the table, then run the settings in order -/
theorem processCmdline_eq (g : G) (argv : List Str) :
    processCmdline g argv = runCmd (fun g' => .done g' .ok false) { g with argv := argv, optind := 1 }
      (parseCmd g.opts 1 (argv.drop 1) false) := by
  unfold processCmdline
  exact cmdLoop_eq _ _ _ _

end EaselModel.Getopts
