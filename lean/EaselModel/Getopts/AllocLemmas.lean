import EaselModel.Getopts.Alloc
namespace EaselModel.Getopts

theorem getD_set' {α : Type} (l : List α) (i j : Nat) (v d : α) :
    (l.set i v).getD j d = if i = j ∧ i < l.length then v else l.getD j d := by
  simp only [List.getD_eq_getElem?_getD, List.getElem?_set]
  by_cases h : i = j
  · subst h
    by_cases h2 : i < l.length
    · simp [h2]
    · simp [h2]
  · simp [h]

def NulFree (a : Str) : Prop := ∀ ch ∈ a, ch ≠ NUL

theorem cstr_append_nul (a rest : List Char) (h : NulFree a) : cstr (a ++ NUL :: rest) = a := by
  unfold cstr
  induction a with
  | nil => simp [NUL]
  | cons x xs ih =>
    have hx : x ≠ NUL := h x List.mem_cons_self
    simp only [List.cons_append, List.takeWhile_cons, bne_iff_ne, ne_eq, hx, not_false_eq_true, ↓reduceIte, List.cons.injEq, true_and]
    exact ih (fun ch hc => h ch (List.mem_cons_of_mem _ hc))

theorem strcpy_spec {block b' : List Char} {a : Str} (h : strcpy? block a = some b') :
    b' = a ++ NUL :: block.drop (a.length + 1) ∧ b'.length = block.length ∧ terminated b' = true := by
  unfold strcpy? at h
  split at h
  · rename_i hl
    simp at h
    subst h
    refine ⟨rfl, ?_, ?_⟩
    · simp; omega
    · simp [terminated]
  · cases h

theorem strcpy_fits {block : List Char} {a : Str} (h : a.length + 1 ≤ block.length) : ∃ b', strcpy? block a = some b' := by
  unfold strcpy?; simp [h]

theorem malloc_length (n : Nat) : (malloc n).length = n := by simp [malloc]
theorem realloc_length (old : List Char) (n : Nat) (h : old.length ≤ n) : (realloc old n).length = n := by
  simp [realloc]; omega


/-! ## the invariant of the allocation layer -/

/-- option `i`'s cell: a heap block is recorded with its true size, is terminated, and belongs to an
    argument-taking option; anything else owns no block -/
def CellOk (o : Opt) (v : CV) (n : Nat) : Prop :=
  match v with
  | .heap b => n = b.length ∧ terminated b = true ∧ o.type ≠ 0
  | _ => n = 0

structure InvC (c : GC) : Prop where
  len : c.valloc.length = c.val.length
  cell : ∀ i, CellOk (c.opt i) (c.valOf i) (c.vallocOf i)

def RC.Inv : RC → Prop
  | .done c _ _ => InvC c
  | .fault => True

@[simp] theorem abs_opts (c : GC) : c.abs.opts = c.opts := rfl
@[simp] theorem abs_setby (c : GC) : c.abs.setby = c.setby := rfl
@[simp] theorem abs_opt (c : GC) (i : Nat) : c.abs.opt i = c.opt i := rfl
@[simp] theorem abs_setter (c : GC) (i : Nat) : c.abs.setter i = c.setter i := rfl
theorem abs_valOf (c : GC) (i : Nat) : c.abs.valOf i = (c.valOf i).abs := by
  simp only [G.valOf, GC.valOf, GC.abs, List.getD_eq_getElem?_getD, List.getElem?_map]
  cases c.val[i]? <;> rfl
theorem abs_isNull (v : CV) : v.abs.isNull = v.isNull := by cases v <;> rfl

theorem cellOk_nonheap {o : Opt} {v : CV} (h : ∀ b, v ≠ .heap b) : CellOk o v 0 := by
  cases v with
  | heap b => exact absurd rfl (h b)
  | _ => rfl

/-- pointing a cell at something that is not a block, with `valloc = 0` -/
theorem InvC.freeAndPoint {c : GC} (h : InvC c) (t : Nat) (v : CV) (hv : ∀ b, v ≠ .heap b) : InvC (c.freeAndPoint t v) := by
  refine ⟨by simp [GC.freeAndPoint, h.len], ?_⟩
  intro j
  have hc := h.cell j
  simp only [GC.freeAndPoint, GC.valOf, GC.vallocOf, GC.opt, getD_set', h.len] at hc ⊢
  by_cases hj : t = j ∧ t < c.val.length
  · rw [if_pos hj, if_pos hj]; exact cellOk_nonheap hv
  · rw [if_neg hj, if_neg hj]; exact hc

theorem abs_freeAndPoint (c : GC) (t : Nat) (v : CV) : (c.freeAndPoint t v).abs = { c.abs with val := c.abs.val.set t v.abs } := by
  simp [GC.freeAndPoint, GC.abs, List.map_set]


theorem InvC.setCell {c : GC} (h : InvC c) (i : Nat) (v : CV) (n : Nat) (hv : CellOk (c.opt i) v n) :
    InvC { c with val := c.val.set i v, valloc := c.valloc.set i n } := by
  refine ⟨by simp [h.len], ?_⟩
  intro j
  have hc := h.cell j
  simp only [GC.valOf, GC.vallocOf, GC.opt, getD_set', h.len] at hc hv ⊢
  by_cases hj : i = j ∧ i < c.val.length
  · rw [if_pos hj, if_pos hj]; rw [← hj.1]; exact hv
  · rw [if_neg hj, if_neg hj]; exact hc

theorem InvC.setVal {c : GC} (h : InvC c) (i : Nat) (v : CV) (hv : CellOk (c.opt i) v (c.vallocOf i)) :
    InvC { c with val := c.val.set i v } := by
  refine ⟨by simp [h.len], ?_⟩
  intro j
  have hc := h.cell j
  simp only [GC.valOf, GC.vallocOf, GC.opt, getD_set', h.len] at hc hv ⊢
  by_cases hj : i = j ∧ i < c.val.length
  · rw [if_pos hj]; rw [← hj.1]; exact hv
  · rw [if_neg hj]; exact hc

theorem abs_setCell (c : GC) (i : Nat) (v : CV) (n : Nat) :
    ({ c with val := c.val.set i v, valloc := c.valloc.set i n } : GC).abs = { c.abs with val := c.abs.val.set i v.abs } := by
  simp [GC.abs, List.map_set]

theorem abs_setVal (c : GC) (i : Nat) (v : CV) :
    ({ c with val := c.val.set i v } : GC).abs = { c.abs with val := c.abs.val.set i v.abs } := by
  simp [GC.abs, List.map_set]

/-- `g->valloc[i]` after the store step -/
def storeValloc (o : Opt) (old : Nat) (arg : Option Str) (da : Bool) : Nat :=
  if o.type == 0 then old
  else match da, arg with
    | true, some a => max old (a.length + 1)
    | _, _ => 0

theorem vallocOf_setCell (c : GC) (i : Nat) (v : CV) (n : Nat) (hi : i < c.valloc.length) :
    ({ c with val := c.val.set i v, valloc := c.valloc.set i n } : GC).vallocOf i = n := by
  simp [GC.vallocOf, getD_set', hi]

/-- the store step of `set_option` never overruns a block, keeps the invariant, stores exactly the argument
    (whatever the block held before and however long that was), and leaves `valloc` as stated -/
theorem storeC_spec {c : GC} (hinv : InvC c) (i : Nat) (arg : Option Str) (da : Bool)
    (hnf : da = true → ∀ a, arg = some a → NulFree a) :
    ∃ c1, storeC c i arg da = some c1 ∧ InvC c1 ∧
      c1.abs = { c.abs with val := c.abs.val.set i (newVal (c.opt i) arg) } ∧
      c1.setby = c.setby ∧ c1.opts = c.opts ∧
      (i < c.val.length → c1.vallocOf i = storeValloc (c.opt i) (c.vallocOf i) arg da) := by
  have hcell := hinv.cell i
  unfold storeC
  by_cases ht : (c.opt i).type = 0
  · have ht' : ((c.opt i).type == 0) = true := by simp [ht]
    simp only [ht', ↓reduceIte]
    have hz : ∀ v : CV, (∀ b, v ≠ .heap b) → CellOk (c.opt i) v (c.vallocOf i) := by
      intro v hv
      cases hcv : c.valOf i with
      | heap b => rw [hcv] at hcell; exact absurd ht hcell.2.2
      | null => rw [hcv] at hcell; have : c.vallocOf i = 0 := hcell; rw [this]; exact cellOk_nonheap hv
      | one => rw [hcv] at hcell; have : c.vallocOf i = 0 := hcell; rw [this]; exact cellOk_nonheap hv
      | stat s => rw [hcv] at hcell; have : c.vallocOf i = 0 := hcell; rw [this]; exact cellOk_nonheap hv
    refine ⟨_, rfl, hinv.setVal i _ (hz _ ?_), ?_, rfl, rfl, ?_⟩
    · intro b; cases (c.opt i).defval <;> simp
    · rw [abs_setVal]; simp only [newVal, ht']; cases (c.opt i).defval <;> rfl
    · intro hi; simp [storeValloc, ht', GC.vallocOf]
  · have ht' : ((c.opt i).type == 0) = false := by simp [ht]
    simp only [ht', Bool.false_eq_true, ↓reduceIte]
    have hnv : ∀ a, newVal (c.opt i) (some a) = .str a := by intro a; simp [newVal, ht']
    have hnn : newVal (c.opt i) none = .null := by simp [newVal, ht']
    cases da with
    | false =>
      cases arg with
      | none =>
        refine ⟨_, rfl, hinv.freeAndPoint i .null (by intro b; simp), ?_, rfl, rfl, ?_⟩
        · rw [abs_freeAndPoint, hnn]; rfl
        · intro hi; rw [GC.freeAndPoint, vallocOf_setCell _ _ _ _ (by rw [hinv.len]; exact hi)]; simp [storeValloc, ht']
      | some a =>
        refine ⟨_, rfl, hinv.freeAndPoint i (.stat a) (by intro b; simp), ?_, rfl, rfl, ?_⟩
        · rw [abs_freeAndPoint, hnv]; rfl
        · intro hi; rw [GC.freeAndPoint, vallocOf_setCell _ _ _ _ (by rw [hinv.len]; exact hi)]; simp [storeValloc, ht']
    | true =>
      cases arg with
      | none =>
        refine ⟨_, rfl, hinv.freeAndPoint i .null (by intro b; simp), ?_, rfl, rfl, ?_⟩
        · rw [abs_freeAndPoint, hnn]; rfl
        · intro hi; rw [GC.freeAndPoint, vallocOf_setCell _ _ _ _ (by rw [hinv.len]; exact hi)]; simp [storeValloc, ht']
      | some a =>
        simp only
        have hblk : (c.valOf i).block.length = c.vallocOf i := by
          cases hcv : c.valOf i with
          | heap b => rw [hcv] at hcell; simp [CV.block, hcell.1]
          | null => rw [hcv] at hcell; have : c.vallocOf i = 0 := hcell; simp [CV.block, this]
          | one => rw [hcv] at hcell; have : c.vallocOf i = 0 := hcell; simp [CV.block, this]
          | stat s => rw [hcv] at hcell; have : c.vallocOf i = 0 := hcell; simp [CV.block, this]
        -- the block the copy goes into has max(old size, arglen+1) bytes
        have hlen : (if c.vallocOf i < a.length + 1 then (if c.vallocOf i == 0 then malloc (a.length + 1) else realloc (c.valOf i).block (a.length + 1))
                     else (c.valOf i).block).length = max (c.vallocOf i) (a.length + 1) := by
          by_cases hg : c.vallocOf i < a.length + 1
          · simp only [hg, ↓reduceIte]
            by_cases hz : c.vallocOf i = 0
            · simp [hz, malloc_length]
            · have hz' : (c.vallocOf i == 0) = false := by simp [hz]
              simp only [hz', Bool.false_eq_true, ↓reduceIte]
              rw [realloc_length _ _ (by omega)]; omega
          · simp only [hg, ↓reduceIte, hblk]; omega
        have hva : (if c.vallocOf i < a.length + 1 then a.length + 1 else c.vallocOf i) = max (c.vallocOf i) (a.length + 1) := by
          by_cases hg : c.vallocOf i < a.length + 1
          · simp only [hg, ↓reduceIte]; omega
          · simp only [hg, ↓reduceIte]; omega
        obtain ⟨b', hb'⟩ := strcpy_fits (block := (if c.vallocOf i < a.length + 1 then (if c.vallocOf i == 0 then malloc (a.length + 1) else realloc (c.valOf i).block (a.length + 1))
                     else (c.valOf i).block)) (a := a) (by rw [hlen]; omega)
        obtain ⟨he, hl, htm⟩ := strcpy_spec hb'
        rw [hb']
        simp only [hva]
        refine ⟨_, rfl, hinv.setCell i (.heap b') _ ⟨by rw [hl, hlen], htm, ht⟩, ?_, rfl, rfl, ?_⟩
        · rw [abs_setCell, hnv]
          have : (CV.heap b').abs = .str a := by
            simp only [CV.abs]; rw [he, cstr_append_nul _ _ (hnf rfl a rfl)]
          rw [this]
        · intro hi; rw [vallocOf_setCell _ _ _ _ (by rw [hinv.len]; exact hi)]; simp [storeValloc, ht']


theorem InvC.withSetby {c : GC} (h : InvC c) (sb : List Nat) : InvC { c with setby := sb } := ⟨h.len, h.cell⟩

theorem toggleLoopC_abs {i src : Nat} : ∀ (es : List Str) (c : GC), InvC c →
    (toggleLoopC c i src es).abs = toggleLoop c.abs i src es ∧ (toggleLoopC c i src es).Inv := by
  intro es
  induction es with
  | nil => intro c h; exact ⟨rfl, h⟩
  | cons e es ih =>
    intro c h
    unfold toggleLoopC toggleLoop
    simp only [abs_opts]
    cases optlistResolve c.opts e with
    | none => exact ⟨rfl, h⟩
    | some t =>
      simp only [abs_valOf, abs_isNull, abs_setter]
      by_cases h1 : (t == i) = true
      · simp only [h1, ↓reduceIte]; exact ih c h
      · simp only [h1, Bool.false_eq_true, ↓reduceIte]
        by_cases h2 : (c.valOf t).isNull = true
        · simp only [h2, ↓reduceIte]; exact ih c h
        · simp only [h2, Bool.false_eq_true, ↓reduceIte]
          by_cases h3 : (c.setter t == src) = true
          · simp only [h3, ↓reduceIte]; exact ⟨rfl, h⟩
          · simp only [h3, Bool.false_eq_true, ↓reduceIte]
            have hinv' : InvC ({ c with setby := c.setby.set t src }.freeAndPoint t .null) :=
              (h.withSetby _).freeAndPoint t .null (by intro b; simp)
            have habs : ({ c with setby := c.setby.set t src }.freeAndPoint t .null).abs = c.abs.put t .null src := by
              simp [GC.freeAndPoint, GC.abs, G.put, List.map_set, CV.abs]
            have := ih _ hinv'
            rw [habs] at this
            exact this

/-- **erasure commutes with `set_option`**: on an object satisfying the allocation invariant, the byte-level
    `set_option` (either `do_alloc` mode) does exactly what the abstract one does — in particular it never overruns or
    over-reads a block — and re-establishes the invariant.  With `do_alloc` the argument must be a C string. -/
theorem setOptionC_abs {c : GC} (hinv : InvC c) (i : Nat) (arg : Option Str) (src : Nat) (da : Bool)
    (hnf : da = true → ∀ a, arg = some a → NulFree a) :
    (setOptionC c i arg src da).abs = setOption c.abs i arg src ∧ (setOptionC c i arg src da).Inv := by
  unfold setOptionC setOption
  simp only [abs_setter, abs_opt]
  by_cases hs : (c.setter i == src) = true
  · simp only [hs, ↓reduceIte]; exact ⟨rfl, hinv⟩
  · simp only [hs, Bool.false_eq_true, ↓reduceIte]
    cases verifyTypeRange (c.opt i) arg src with
    | fault => exact ⟨rfl, trivial⟩
    | exc => exact ⟨rfl, hinv⟩
    | bad => exact ⟨rfl, hinv⟩
    | good =>
      simp only
      obtain ⟨c1, h1, hinv1, habs1, _, _, _⟩ := storeC_spec (hinv.withSetby (c.setby.set i src)) i arg da hnf
      rw [h1]
      simp only
      have := toggleLoopC_abs (i := i) (src := src) (optlistElems (c.opt i).toggle) c1 hinv1
      rw [habs1] at this
      exact this


/-! ## erasure commutes with every source -/

theorem runEvsC_abs : ∀ (es : List Ev) (c : GC), InvC c →
    (runEvsC false c es).abs = runEvs c.abs es ∧ (runEvsC false c es).Inv := by
  intro es
  induction es with
  | nil => intro c h; exact ⟨rfl, h⟩
  | cons e es ih =>
    intro c h
    obtain ⟨ha, hi⟩ := setOptionC_abs h e.i e.arg e.src false (by intro hh; cases hh)
    unfold runEvsC runEvs
    rw [← ha]
    cases hs : setOptionC c e.i e.arg e.src false with
    | fault => exact ⟨rfl, trivial⟩
    | done c' st m =>
      rw [hs] at hi
      cases st with
      | ok => exact ih c' hi
      | esyntax => exact ⟨rfl, hi⟩
      | einval => exact ⟨rfl, hi⟩

/-- every argument a config file hands to `set_option` is a C string -/
def CfgArgsOk (is : List CfgItem) : Prop := ∀ i a, CfgItem.set i (some a) ∈ is → NulFree a

theorem runCfgC_abs (src : Nat) : ∀ (is : List CfgItem) (c : GC), InvC c → CfgArgsOk is →
    (runCfgC src c is).abs = runCfg src c.abs is ∧ (runCfgC src c is).Inv := by
  intro is
  induction is with
  | nil => intro c h _; exact ⟨rfl, ⟨h.len, h.cell⟩⟩
  | cons it is ih =>
    intro c h hok
    cases it with
    | usage => exact ⟨rfl, h⟩
    | set i arg =>
      obtain ⟨ha, hi⟩ := setOptionC_abs h i arg src true (by intro _ a harg; subst harg; exact hok i a List.mem_cons_self)
      unfold runCfgC runCfg
      rw [← ha]
      cases hs : setOptionC c i arg src true with
      | fault => exact ⟨rfl, trivial⟩
      | done c' st m =>
        rw [hs] at hi
        cases st with
        | ok => exact ih c' hi (fun i' a hm => hok i' a (List.mem_cons_of_mem _ hm))
        | esyntax => exact ⟨rfl, hi⟩
        | einval => exact ⟨rfl, hi⟩

theorem InvC.withOptind {c : GC} (h : InvC c) (k : Nat) : InvC { c with optind := k } := ⟨h.len, h.cell⟩

theorem runCmdC_abs {F : GC → RC} {F' : G → R} (hF : ∀ c, InvC c → (F c).abs = F' c.abs ∧ (F c).Inv) :
    ∀ (is : List CmdItem) (c : GC), InvC c → (runCmdC F c is).abs = runCmd F' c.abs is ∧ (runCmdC F c is).Inv := by
  intro is
  induction is with
  | nil => intro c h; exact hF c h
  | cons it is ih =>
    intro c h
    cases it with
    | stop st m k => exact ⟨rfl, h.withOptind k⟩
    | set i arg kf =>
      obtain ⟨ha, hi⟩ := setOptionC_abs h i arg byCmdline false (by intro hh; cases hh)
      unfold runCmdC runCmd
      rw [← ha]
      cases hs : setOptionC c i arg byCmdline false with
      | fault => exact ⟨rfl, trivial⟩
      | done c' st m =>
        rw [hs] at hi
        cases st with
        | ok => exact ih c' hi
        | esyntax => exact ⟨rfl, hi.withOptind kf⟩
        | einval => exact ⟨rfl, hi.withOptind kf⟩

theorem processCmdlineC_abs {c : GC} (h : InvC c) (argv : List Str) :
    (processCmdlineC c argv).abs = processCmdline c.abs argv ∧ (processCmdlineC c argv).Inv := by
  rw [processCmdline_eq]
  exact runCmdC_abs (F := fun c' => RC.done c' .ok false) (F' := fun g' => R.done g' .ok false) (fun c' h' => ⟨rfl, h'⟩) _
    { c with argv := argv, optind := 1 } ⟨h.len, h.cell⟩

theorem processSpoofC_abs {c : GC} (h : InvC c) (cmdline : Str) :
    (processSpoofC c cmdline).abs = processSpoof c.abs cmdline ∧ (processSpoofC c cmdline).Inv := by
  unfold processSpoofC processSpoof
  by_cases hs : c.spoofed = true
  · have : c.abs.spoofed = true := hs
    simp only [hs, this, ↓reduceIte]; exact ⟨rfl, h⟩
  · have : c.abs.spoofed = false := by show c.spoofed = false; simpa using hs
    simp only [hs, this, Bool.false_eq_true, ↓reduceIte]
    exact processCmdlineC_abs (c := { c with spoofed := true }) ⟨h.len, h.cell⟩ _

theorem processEnvironmentC_abs {c : GC} (h : InvC c) (env : Str → Option Str) :
    (processEnvironmentC c env).abs = processEnvironment c.abs env ∧ (processEnvironmentC c env).Inv := by
  rw [processEnvironment_eq]
  exact runEvsC_abs _ c h

theorem processConfigfileC_abs {c : GC} (h : InvC c) (content : Str)
    (hok : CfgArgsOk ((fileLines content).filterMap (cfgItem c.opts))) :
    (processConfigfileC c content).abs = processConfigfile c.abs content ∧ (processConfigfileC c content).Inv := by
  rw [processConfigfile_eq]
  exact runCfgC_abs _ _ c h hok

theorem createC_abs (opts : List Opt) : (createC opts).map GC.abs = create opts := by
  unfold createC create
  split
  · simp [GC.abs, CV.abs, List.map_map, Function.comp_def]
    intro o _; cases o.defval <;> rfl
  · rfl

theorem createC_inv {opts : List Opt} {c : GC} (h : createC opts = some c) : InvC c := by
  unfold createC at h
  split at h
  · simp at h; subst h
    refine ⟨by simp, ?_⟩
    intro i
    simp only [GC.valOf, GC.vallocOf, List.getD_eq_getElem?_getD, List.getElem?_map]
    cases opts[i]? with
    | none => rfl
    | some o => simp only [Option.map_some, Option.getD_some]; cases o.defval <;> exact rfl
  · cases h

theorem reuseC_abs (c : GC) : (reuseC c).abs = reuse c.abs := by
  simp [reuseC, reuse, GC.abs, CV.abs, List.map_map, Function.comp_def]
  intro o _; cases o.defval <;> rfl

theorem reuseC_eq_createC (c : GC) : createC c.opts = some (reuseC c) ∨ createC c.opts = none := by
  unfold createC reuseC
  split
  · left; rfl
  · right; rfl

theorem reuseC_inv (c : GC) : InvC (reuseC c) := by
  refine ⟨by simp [reuseC], ?_⟩
  intro i
  simp only [reuseC, GC.valOf, GC.vallocOf, List.getD_eq_getElem?_getD, List.getElem?_map]
  cases c.opts[i]? with
  | none => rfl
  | some o => simp only [Option.map_some, Option.getD_some]; cases o.defval <;> exact rfl

/-- the invariant makes every stored value readable: no getter runs off a block -/
theorem InvC.readable {c : GC} (h : InvC c) : c.readable = true := by
  simp only [GC.readable, List.all_eq_true]
  intro v hv
  obtain ⟨i, hi, rfl⟩ := List.getElem_of_mem hv
  have := h.cell i
  simp only [GC.valOf, List.getD_eq_getElem?_getD, List.getElem?_eq_getElem hi, Option.getD_some] at this
  cases hc : c.val[i] with
  | heap b => rw [hc] at this; exact this.2.1
  | _ => rfl

end EaselModel.Getopts
