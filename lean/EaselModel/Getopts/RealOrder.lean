import EaselModel.Getopts.Ranges
import EaselModel.Getopts.RealLit
import Mathlib.Algebra.Order.Field.Rat
import Mathlib.Tactic.Ring
import Mathlib.Tactic.Linarith
import Mathlib.Tactic.Positivity
/-! # C14 — the comparison used for real-valued ranges is the order of the rationals the decimals denote.
    (Mathlib; not imported by the driver.) -/
namespace EaselModel.Getopts

/-- the rational number a decimal denotes -/
noncomputable def Dec.value (d : Dec) : ℚ := (if d.neg then -1 else 1) * (d.mant : ℚ) * (10 : ℚ) ^ d.exp

theorem Dec.value_sub (a b : Dec) :
    a.value - b.value = ((Dec.cmpKey a b : Int) : ℚ) * (10 : ℚ) ^ (min a.exp b.exp) := by
  have h10 : (10 : ℚ) ≠ 0 := by norm_num
  have ha : a.exp = (a.exp - min a.exp b.exp).toNat + min a.exp b.exp := by
    have : min a.exp b.exp ≤ a.exp := min_le_left _ _
    omega
  have hb : b.exp = (b.exp - min a.exp b.exp).toNat + min a.exp b.exp := by
    have : min a.exp b.exp ≤ b.exp := min_le_right _ _
    omega
  have pa : (10 : ℚ) ^ a.exp = (10 : ℚ) ^ ((a.exp - min a.exp b.exp).toNat) * (10 : ℚ) ^ (min a.exp b.exp) := by
    conv => lhs; rw [ha]
    rw [zpow_add₀ h10, zpow_natCast]
  have pb : (10 : ℚ) ^ b.exp = (10 : ℚ) ^ ((b.exp - min a.exp b.exp).toNat) * (10 : ℚ) ^ (min a.exp b.exp) := by
    conv => lhs; rw [hb]
    rw [zpow_add₀ h10, zpow_natCast]
  unfold Dec.value Dec.cmpKey
  simp only
  rw [pa, pb]
  cases a.neg <;> cases b.neg <;> simp <;> push_cast <;> ring

theorem pow10_pos (e : Int) : (0 : ℚ) < (10 : ℚ) ^ e := zpow_pos (by norm_num) e

/-- `Dec.lt` is `<` on the denoted rationals -/
theorem Dec.lt_iff (a b : Dec) : Dec.lt a b = true ↔ a.value < b.value := by
  have h := Dec.value_sub a b
  have hp := pow10_pos (min a.exp b.exp)
  unfold Dec.lt
  simp only [decide_eq_true_eq]
  constructor
  · intro hk
    have : ((Dec.cmpKey a b : Int) : ℚ) < 0 := by exact_mod_cast hk
    have : a.value - b.value < 0 := by rw [h]; exact mul_neg_of_neg_of_pos this hp
    linarith
  · intro hv
    have h1 : a.value - b.value < 0 := by linarith
    rw [h] at h1
    have : ((Dec.cmpKey a b : Int) : ℚ) < 0 := by
      by_contra hc
      have hc' : (0 : ℚ) ≤ ((Dec.cmpKey a b : Int) : ℚ) := not_lt.mp hc
      have := mul_nonneg hc' hp.le
      linarith
    exact_mod_cast this

/-- `Dec.le` is `≤` on the denoted rationals -/
theorem Dec.le_iff (a b : Dec) : Dec.le a b = true ↔ a.value ≤ b.value := by
  have h := Dec.value_sub a b
  have hp := pow10_pos (min a.exp b.exp)
  unfold Dec.le
  simp only [decide_eq_true_eq]
  constructor
  · intro hk
    have : ((Dec.cmpKey a b : Int) : ℚ) ≤ 0 := by exact_mod_cast hk
    have : a.value - b.value ≤ 0 := by rw [h]; exact mul_nonpos_of_nonpos_of_nonneg this hp.le
    linarith
  · intro hv
    have h1 : a.value - b.value ≤ 0 := by linarith
    rw [h] at h1
    have : ((Dec.cmpKey a b : Int) : ℚ) ≤ 0 := by
      by_contra hc
      have hc' : (0 : ℚ) < ((Dec.cmpKey a b : Int) : ℚ) := not_le.mp hc
      have := mul_pos hc' hp
      linarith
    exact_mod_cast this

/-- **meaning of a two-sided real range** `lo<[=]x<[=]hi`: the argument is accepted iff the rational it denotes
    lies between the rationals the bounds denote (the lower bound is what `atof` reads at the start of the range
    string), inclusively or exclusively as the `=` signs say -/
theorem realRangeOk_twoSided_iff (v lo hi : Str) (geq leq : Bool) (hc : 'x' ∉ lo) (hhi : leq = false → hi.head? ≠ some '=') :
    realRangeOk v (some (twoSided 'x' lo geq leq hi)) = true ↔
      ((if geq then (atof (twoSided 'x' lo geq leq hi)).value ≤ (atof v).value
                else (atof (twoSided 'x' lo geq leq hi)).value < (atof v).value) ∧
       (if leq then (atof v).value ≤ (atof hi).value else (atof v).value < (atof hi).value)) := by
  have hp := parseRange_twoSided 'x' lo hi geq leq hc (by decide) (by decide) hhi
  unfold realRangeOk
  simp only [hp, Bool.and_eq_true]
  cases geq <;> cases leq <;> simp [Dec.lt_iff, Dec.le_iff]

theorem realRangeOk_lower_iff (v a : Str) (incl : Bool) (h : incl = false → a.head? ≠ some '=') :
    realRangeOk v (some ('x' :: '>' :: ((if incl then ['='] else []) ++ a))) = true ↔
      (if incl then (atof a).value ≤ (atof v).value else (atof a).value < (atof v).value) := by
  cases incl with
  | true => simp [realRangeOk, parseRange_lower_incl, Dec.le_iff]
  | false => simp [realRangeOk, parseRange_lower_excl 'x' a (h rfl), Dec.lt_iff]

theorem realRangeOk_upper_iff (v b : Str) (incl : Bool) (h : incl = false → b.head? ≠ some '=') :
    realRangeOk v (some ('x' :: '<' :: ((if incl then ['='] else []) ++ b))) = true ↔
      (if incl then (atof v).value ≤ (atof b).value else (atof v).value < (atof b).value) := by
  cases incl with
  | true => simp [realRangeOk, parseRange_upper_incl, Dec.le_iff]
  | false => simp [realRangeOk, parseRange_upper_excl 'x' b (h rfl), Dec.lt_iff]

/-- two-sided real range whose lower bound is a plain decimal literal (`0<x<1`, `-1.5<=x<=2`, …): accepted iff the
    argument's value lies between the value of that literal and the value of the upper bound -/
theorem realRangeOk_twoSided_lit (v lo hi : Str) (geq leq : Bool) {neg : Bool} {ip fp : Str} {dot : Bool}
    (hlo : RealLit lo neg ip fp dot) (hhi : leq = false → hi.head? ≠ some '=') :
    realRangeOk v (some (twoSided 'x' lo geq leq hi)) = true ↔
      ((if geq then (atof lo).value ≤ (atof v).value else (atof lo).value < (atof v).value) ∧
       (if leq then (atof v).value ≤ (atof hi).value else (atof v).value < (atof hi).value)) := by
  have := realRangeOk_twoSided_iff v lo hi geq leq (realLit_no_marker hlo) hhi
  have ha : atof (twoSided 'x' lo geq leq hi) = atof lo := by
    unfold twoSided
    exact atof_lit_append hlo _
  rw [ha] at this
  exact this

/-- the value of a plain decimal literal: (−)(digits without the point) / 10^(number of fraction digits) -/
theorem value_of_lit {s : Str} {neg : Bool} {ip fp : Str} {dot : Bool} (h : RealLit s neg ip fp dot) :
    (atof s).value = (if neg then -1 else 1) * (digitsVal (ip ++ fp) : ℚ) * (10 : ℚ) ^ (-(fp.length : Int)) := by
  have h2 := strtod_lit h [] endsNumber_nil
  simp only [List.append_nil] at h2
  unfold atof
  rw [h2]
  rfl

end EaselModel.Getopts
