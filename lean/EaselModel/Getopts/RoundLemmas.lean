import EaselModel.Getopts.Round
import Mathlib.Tactic.Ring
import Mathlib.Tactic.Linarith
namespace EaselModel.Getopts

theorem roundDiv_cases (n d : Nat) :
    (roundDiv n d = n / d ∧ (2 * (n % d) < d ∨ (2 * (n % d) = d ∧ (n / d) % 2 = 0))) ∨
    (roundDiv n d = n / d + 1 ∧ (d < 2 * (n % d) ∨ (2 * (n % d) = d ∧ (n / d) % 2 = 1))) := by
  unfold roundDiv
  simp only
  by_cases h1 : 2 * (n % d) < d
  · simp [h1]
  · by_cases h2 : d < 2 * (n % d)
    · simp [h1, h2]
    · have h3 : 2 * (n % d) = d := by omega
      simp only [h1, h2, ↓reduceIte]
      by_cases h4 : (n / d) % 2 = 0
      · simp [h4, h3]
      · have : (n / d) % 2 = 1 := by omega
        simp [this, h3]

/-- `roundDiv n d` is a nearest integer to `n/d`: `|roundDiv n d · d − n| ≤ d/2` -/
theorem roundDiv_nearest (n d : Nat) (hd : 0 < d) :
    2 * n ≤ 2 * (roundDiv n d * d) + d ∧ 2 * (roundDiv n d * d) ≤ 2 * n + d := by
  have h := Nat.div_add_mod n d
  have hr := Nat.mod_lt n hd
  have hc : n / d * d = d * (n / d) := Nat.mul_comm _ _
  have hs : (n / d + 1) * d = d * (n / d) + d := by rw [Nat.succ_mul, hc]
  rcases roundDiv_cases n d with ⟨e, c⟩ | ⟨e, c⟩
  · rw [e, hc]; omega
  · rw [e, hs]; omega

/-- … exactly `n/d` when `d` divides `n` -/
theorem roundDiv_exact (n d : Nat) (hd : 0 < d) (h : d ∣ n) : roundDiv n d = n / d := by
  have hm : n % d = 0 := Nat.mod_eq_zero_of_dvd h
  rcases roundDiv_cases n d with ⟨e, _⟩ | ⟨_, c⟩
  · exact e
  · omega

/-- … and monotone in the numerator -/
theorem roundDiv_mono (n n' d : Nat) (hd : 0 < d) (h : n ≤ n') : roundDiv n d ≤ roundDiv n' d := by
  have hq : n / d ≤ n' / d := Nat.div_le_div_right h
  have e1 := Nat.div_add_mod n d
  have e2 := Nat.div_add_mod n' d
  have hr := Nat.mod_lt n hd
  have hr' := Nat.mod_lt n' hd
  rcases Nat.lt_or_eq_of_le hq with hlt | heq
  · rcases roundDiv_cases n d with ⟨e, _⟩ | ⟨e, _⟩ <;> rcases roundDiv_cases n' d with ⟨e', _⟩ | ⟨e', _⟩ <;> omega
  · have hrr : n % d ≤ n' % d := by
      rw [heq] at e1
      omega
    rcases roundDiv_cases n d with ⟨e, c⟩ | ⟨e, c⟩ <;> rcases roundDiv_cases n' d with ⟨e', c'⟩ | ⟨e', c'⟩ <;> omega

theorem shiftOf_ge (N D : Nat) : 52 ≤ shiftOf N D := by unfold shiftOf; omega

/-- **exactness on representable values**: if `N/D` is the binary64 number `q₀ · 2^(s₀-1126)` (`q₀ < 2^53`,
    `s₀ ≥ 52`, i.e. at most 53 significant bits and no bit below `2^-1074`), the conversion returns exactly that value -/
theorem toDbl_exact (N D q0 s0 : Nat) (hD : 0 < D) (hq : q0 < 2 ^ 53) (hs : 52 ≤ s0) (h : N * 2 ^ SCALE = q0 * 2 ^ s0 * D) :
    (toDbl N D).1 * 2 ^ (toDbl N D).2 = q0 * 2 ^ s0 := by
  have ht : N * 2 ^ SCALE / D = q0 * 2 ^ s0 := by rw [h]; exact Nat.mul_div_cancel _ hD
  have hsh : shiftOf N D ≤ s0 := by
    unfold shiftOf
    rw [ht]
    by_cases hz : q0 * 2 ^ s0 = 0
    · rw [hz]
      have : Nat.log2 0 = 0 := by decide
      rw [this]; omega
    · have : (q0 * 2 ^ s0).log2 < 53 + s0 := by
        rw [Nat.log2_lt hz, Nat.pow_add]
        exact Nat.mul_lt_mul_of_lt_of_le hq (Nat.le_refl _) (Nat.two_pow_pos _)
      have h2 : (q0 * 2 ^ s0).log2 - 52 ≤ s0 := by omega
      exact Nat.max_le.mpr ⟨h2, hs⟩
  obtain ⟨j, hj⟩ : ∃ j, s0 = shiftOf N D + j := ⟨s0 - shiftOf N D, by omega⟩
  have hdvd : D * 2 ^ shiftOf N D ∣ N * 2 ^ SCALE := by
    rw [h, hj, Nat.pow_add]
    exact ⟨q0 * 2 ^ j, by ring⟩
  have hpos : 0 < D * 2 ^ shiftOf N D := Nat.mul_pos hD (Nat.two_pow_pos _)
  show roundDiv (N * 2 ^ SCALE) (D * 2 ^ shiftOf N D) * 2 ^ shiftOf N D = q0 * 2 ^ s0
  rw [roundDiv_exact _ _ hpos hdvd, h]
  conv => lhs; rw [hj, Nat.pow_add]
  have : q0 * (2 ^ shiftOf N D * 2 ^ j) * D = (q0 * 2 ^ j) * (D * 2 ^ shiftOf N D) := by ring
  rw [this, Nat.mul_div_cancel _ hpos, hj, Nat.pow_add]
  ring

theorem roundDiv_scale (n d c : Nat) (hc : 0 < c) : roundDiv (n * c) (d * c) = roundDiv n d := by
  have e1 : n * c / (d * c) = n / d := Nat.mul_div_mul_right n d hc
  have e2 : n * c % (d * c) = (n % d) * c := Nat.mul_mod_mul_right c n d
  have k1 : (2 * (n % d * c) < d * c) ↔ (2 * (n % d) < d) := by rw [← Nat.mul_assoc]; exact Nat.mul_lt_mul_right hc
  have k2 : (d * c < 2 * (n % d * c)) ↔ (d < 2 * (n % d)) := by rw [← Nat.mul_assoc]; exact Nat.mul_lt_mul_right hc
  unfold roundDiv
  simp only [e1, e2, k1, k2]

/-- rounding is monotone in the *value* `n/d` -/
theorem roundDiv_mono_frac (n d n' d' : Nat) (hd : 0 < d) (hd' : 0 < d') (h : n * d' ≤ n' * d) :
    roundDiv n d ≤ roundDiv n' d' := by
  rw [← roundDiv_scale n d d' hd', ← roundDiv_scale n' d' d hd, Nat.mul_comm d' d]
  exact roundDiv_mono _ _ _ (Nat.mul_pos hd hd') h

theorem div_le_roundDiv (n d : Nat) : n / d ≤ roundDiv n d := by
  rcases roundDiv_cases n d with ⟨e, _⟩ | ⟨e, _⟩ <;> omega
theorem roundDiv_le_succ (n d : Nat) : roundDiv n d ≤ n / d + 1 := by
  rcases roundDiv_cases n d with ⟨e, _⟩ | ⟨e, _⟩ <;> omega

theorem log2_mono {a b : Nat} (h : a ≤ b) : a.log2 ≤ b.log2 := by
  by_cases ha : a = 0
  · subst ha; have : Nat.log2 0 = 0 := by decide
    rw [this]; exact Nat.zero_le _
  · have hb : b ≠ 0 := by omega
    have h1 : a < 2 ^ (b.log2 + 1) := Nat.lt_of_le_of_lt h Nat.lt_log2_self
    have := (Nat.log2_lt ha).mpr h1
    omega

theorem floor_mono (A D A' D' : Nat) (hD : 0 < D) (hD' : 0 < D') (h : A * D' ≤ A' * D) : A / D ≤ A' / D' := by
  rw [Nat.le_div_iff_mul_le hD']
  have h1 : A / D * D ≤ A := Nat.div_mul_le_self A D
  have h2 : A / D * D' * D ≤ A' * D := by
    calc A / D * D' * D = A / D * D * D' := by ring
      _ ≤ A * D' := Nat.mul_le_mul_right _ h1
      _ ≤ A' * D := h
  exact Nat.le_of_mul_le_mul_right h2 hD

theorem shiftOf_le_of_log_le {N D N' D' : Nat} (hl : (N * 2 ^ SCALE / D).log2 ≤ (N' * 2 ^ SCALE / D').log2) :
    shiftOf N D ≤ shiftOf N' D' := by
  unfold shiftOf
  generalize (N * 2 ^ SCALE / D).log2 = a at hl ⊢
  generalize (N' * 2 ^ SCALE / D').log2 = b at hl ⊢
  omega

theorem log_succ_le_shift (N D : Nat) : (N * 2 ^ SCALE / D).log2 + 1 ≤ 53 + shiftOf N D := by
  unfold shiftOf
  generalize (N * 2 ^ SCALE / D).log2 = a
  omega

theorem shift_eq_log (N D : Nat) (h : 52 < shiftOf N D) : 52 + shiftOf N D = (N * 2 ^ SCALE / D).log2 := by
  unfold shiftOf at h ⊢
  generalize (N * 2 ^ SCALE / D).log2 = a at h ⊢
  omega

theorem shiftOf_of_zero (N D : Nat) (h : N * 2 ^ SCALE / D = 0) : shiftOf N D = 52 := by
  unfold shiftOf
  rw [h]
  have : Nat.log2 0 = 0 := by decide
  rw [this]
  rfl

theorem scale_le {N D N' D' : Nat} (P : Nat) (h : N * D' ≤ N' * D) : N * P * D' ≤ N' * P * D := by
  calc N * P * D' = N * D' * P := by ring
    _ ≤ N' * D * P := Nat.mul_le_mul_right _ h
    _ = N' * P * D := by ring

/-- **`strtod` rounding is monotone**: `N/D ≤ N'/D'` implies the double for `N/D` is at most the double for `N'/D'`
    (as values `q·2^s`), across binades, in the subnormal range and at the carry into the next binade -/
theorem toDbl_mono (N D N' D' : Nat) (hD : 0 < D) (hD' : 0 < D') (h : N * D' ≤ N' * D) :
    (toDbl N D).1 * 2 ^ (toDbl N D).2 ≤ (toDbl N' D').1 * 2 ^ (toDbl N' D').2 := by
  have hA : N * 2 ^ SCALE * D' ≤ N' * 2 ^ SCALE * D := scale_le _ h
  have ht := floor_mono _ _ _ _ hD hD' hA
  have hl := log2_mono ht
  have hs : shiftOf N D ≤ shiftOf N' D' := shiftOf_le_of_log_le hl
  show roundDiv (N * 2 ^ SCALE) (D * 2 ^ shiftOf N D) * 2 ^ shiftOf N D ≤
       roundDiv (N' * 2 ^ SCALE) (D' * 2 ^ shiftOf N' D') * 2 ^ shiftOf N' D'
  rcases Nat.lt_or_eq_of_le hs with hlt | heq
  · -- different scales: the smaller value stays below 2^(53+s), the larger is at least 2^(52+s')
    have hs' : 52 < shiftOf N' D' := Nat.lt_of_le_of_lt (shiftOf_ge N D) hlt
    -- (i) q ≤ 2^53
    have hq : roundDiv (N * 2 ^ SCALE) (D * 2 ^ shiftOf N D) ≤ 2 ^ 53 := by
      have h1 : N * 2 ^ SCALE / D < 2 ^ (53 + shiftOf N D) := by
        have := @Nat.lt_log2_self (N * 2 ^ SCALE / D)
        have h2 : (N * 2 ^ SCALE / D).log2 + 1 ≤ 53 + shiftOf N D := log_succ_le_shift N D
        exact Nat.lt_of_lt_of_le this (Nat.pow_le_pow_right (by decide) h2)
      have h3 : N * 2 ^ SCALE / (D * 2 ^ shiftOf N D) < 2 ^ 53 := by
        rw [← Nat.div_div_eq_div_mul, Nat.div_lt_iff_lt_mul (Nat.two_pow_pos _), ← Nat.pow_add]
        exact h1
      have := roundDiv_le_succ (N * 2 ^ SCALE) (D * 2 ^ shiftOf N D)
      omega
    -- (ii) q' ≥ 2^52
    have hq' : 2 ^ 52 ≤ roundDiv (N' * 2 ^ SCALE) (D' * 2 ^ shiftOf N' D') := by
      have hne : N' * 2 ^ SCALE / D' ≠ 0 := by
        intro h0
        have : shiftOf N' D' = 52 := shiftOf_of_zero N' D' h0
        omega
      have h1 : 2 ^ (52 + shiftOf N' D') ≤ N' * 2 ^ SCALE / D' := by
        have := Nat.log2_self_le hne
        have h2 : 52 + shiftOf N' D' = (N' * 2 ^ SCALE / D').log2 := shift_eq_log N' D' hs'
        rw [h2]; exact this
      have h3 : 2 ^ 52 ≤ N' * 2 ^ SCALE / (D' * 2 ^ shiftOf N' D') := by
        rw [← Nat.div_div_eq_div_mul, Nat.le_div_iff_mul_le (Nat.two_pow_pos _), ← Nat.pow_add]
        exact h1
      exact Nat.le_trans h3 (div_le_roundDiv _ _)
    calc roundDiv (N * 2 ^ SCALE) (D * 2 ^ shiftOf N D) * 2 ^ shiftOf N D
        ≤ 2 ^ 53 * 2 ^ shiftOf N D := Nat.mul_le_mul_right _ hq
      _ = 2 ^ (53 + shiftOf N D) := (Nat.pow_add _ _ _).symm
      _ ≤ 2 ^ (52 + shiftOf N' D') := Nat.pow_le_pow_right (by decide) (by omega)
      _ = 2 ^ 52 * 2 ^ shiftOf N' D' := Nat.pow_add _ _ _
      _ ≤ roundDiv (N' * 2 ^ SCALE) (D' * 2 ^ shiftOf N' D') * 2 ^ shiftOf N' D' := Nat.mul_le_mul_right _ hq'
  · -- same scale: monotone rounding of the value
    rw [← heq]
    apply Nat.mul_le_mul_right
    apply roundDiv_mono_frac _ _ _ _ (Nat.mul_pos hD (Nat.two_pow_pos _)) (Nat.mul_pos hD' (Nat.two_pow_pos _))
    calc N * 2 ^ SCALE * (D' * 2 ^ shiftOf N D) = N * 2 ^ SCALE * D' * 2 ^ shiftOf N D := (Nat.mul_assoc _ _ _).symm
      _ ≤ N' * 2 ^ SCALE * D * 2 ^ shiftOf N D := Nat.mul_le_mul_right _ hA
      _ = N' * 2 ^ SCALE * (D * 2 ^ shiftOf N D) := Nat.mul_assoc _ _ _


/-- the value of the double for the non-negative fraction `N/D`, scaled by `2^1126` -/
def dblVal (f : Nat × Nat) : Nat := (toDbl f.1 f.2).1 * 2 ^ (toDbl f.1 f.2).2

/-- `lo <= x` as `verify_real_range` tests it: on the rounded doubles -/
def dblLe (a b : Nat × Nat) : Bool := dblVal a ≤ dblVal b

/-- **monotonicity of the range test**: once a lower bound accepts a value it accepts every larger value (and an upper
    bound that accepts a value accepts every smaller one) — rounding never reorders -/
theorem dblLe_mono_right (lo x y : Nat × Nat) (hx : 0 < x.2) (hy : 0 < y.2) (hxy : x.1 * y.2 ≤ y.1 * x.2)
    (h : dblLe lo x = true) : dblLe lo y = true := by
  simp only [dblLe, decide_eq_true_eq] at h ⊢
  exact Nat.le_trans h (toDbl_mono x.1 x.2 y.1 y.2 hx hy hxy)

theorem dblLe_mono_left (hi x y : Nat × Nat) (hx : 0 < x.2) (hy : 0 < y.2) (hxy : x.1 * y.2 ≤ y.1 * x.2)
    (h : dblLe y hi = true) : dblLe x hi = true := by
  simp only [dblLe, decide_eq_true_eq] at h ⊢
  exact Nat.le_trans (toDbl_mono x.1 x.2 y.1 y.2 hx hy hxy) h

/-- an inclusive bound never rejects a true member: if `lo ≤ x` as exact values then the test on doubles accepts -/
theorem dblLe_of_le (lo x : Nat × Nat) (hl : 0 < lo.2) (hx : 0 < x.2) (h : lo.1 * x.2 ≤ x.1 * lo.2) : dblLe lo x = true := by
  simp only [dblLe, decide_eq_true_eq]
  exact toDbl_mono lo.1 lo.2 x.1 x.2 hl hx h

end EaselModel.Getopts
