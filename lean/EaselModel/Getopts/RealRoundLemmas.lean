import EaselModel.Getopts.RealRound
import EaselModel.Getopts.RoundLemmas
import EaselModel.Getopts.RealLit
/-! # C14 — meaning of the real range strings over the ROUNDED values (no restriction on the number of digits) -/
namespace EaselModel.Getopts

/-- **two-sided real range on doubles**: `lo<[=]x<[=]hi` accepts the argument iff the double `atof` makes of it lies
    between the doubles `atof` makes of the bounds, inclusively or exclusively as the `=` signs say — for arguments
    and bounds of any length -/
theorem realRangeOkD_twoSided (v lo hi : Str) (geq leq : Bool) (hc : 'x' ∉ lo) (hhi : leq = false → hi.head? ≠ some '=') :
    realRangeOkD v (some (twoSided 'x' lo geq leq hi)) =
      ((if geq then Dec.dle (atof (twoSided 'x' lo geq leq hi)) (atof v) else Dec.dlt (atof (twoSided 'x' lo geq leq hi)) (atof v)) &&
       (if leq then Dec.dle (atof v) (atof hi) else Dec.dlt (atof v) (atof hi))) := by
  have hp := parseRange_twoSided 'x' lo hi geq leq hc (by decide) (by decide) hhi
  unfold realRangeOkD
  simp only [hp]

/-- … with the lower bound written as a plain decimal literal, which `atof` reads exactly up to the `<` -/
theorem realRangeOkD_twoSided_lit (v lo hi : Str) (geq leq : Bool) {neg : Bool} {ip fp : Str} {dot : Bool}
    (hlo : RealLit lo neg ip fp dot) (hhi : leq = false → hi.head? ≠ some '=') :
    realRangeOkD v (some (twoSided 'x' lo geq leq hi)) =
      ((if geq then Dec.dle (atof lo) (atof v) else Dec.dlt (atof lo) (atof v)) &&
       (if leq then Dec.dle (atof v) (atof hi) else Dec.dlt (atof v) (atof hi))) := by
  have := realRangeOkD_twoSided v lo hi geq leq (realLit_no_marker hlo) hhi
  have ha : atof (twoSided 'x' lo geq leq hi) = atof lo := by
    unfold twoSided
    exact atof_lit_append hlo _
  rw [ha] at this
  exact this

theorem realRangeOkD_lower (v a : Str) (incl : Bool) (h : incl = false → a.head? ≠ some '=') :
    realRangeOkD v (some ('x' :: '>' :: ((if incl then ['='] else []) ++ a))) =
      (if incl then Dec.dle (atof a) (atof v) else Dec.dlt (atof a) (atof v)) := by
  cases incl with
  | true => simp [realRangeOkD, parseRange_lower_incl]
  | false => simp [realRangeOkD, parseRange_lower_excl 'x' a (h rfl)]

theorem realRangeOkD_upper (v b : Str) (incl : Bool) (h : incl = false → b.head? ≠ some '=') :
    realRangeOkD v (some ('x' :: '<' :: ((if incl then ['='] else []) ++ b))) =
      (if incl then Dec.dle (atof v) (atof b) else Dec.dlt (atof v) (atof b)) := by
  cases incl with
  | true => simp [realRangeOkD, parseRange_upper_incl]
  | false => simp [realRangeOkD, parseRange_upper_excl 'x' b (h rfl)]

theorem frac_den_pos (d : Dec) : 0 < d.frac.2 := by
  unfold Dec.frac
  split
  · exact Nat.one_pos
  · exact Nat.pow_pos (by decide)

/-- **rounding never reorders magnitudes**: for two non-zero decimals inside the exponent window, `|a| ≤ |b|` as exact
    values implies the same for the doubles (clamping at infinity included) -/
theorem dmag_mono (a b : Dec) (ha : a.mant ≠ 0) (hb : b.mant ≠ 0) (ha1 : ¬ a.exp > 5000) (ha2 : ¬ a.exp < -5000)
    (hb1 : ¬ b.exp > 5000) (hb2 : ¬ b.exp < -5000) (h : a.frac.1 * b.frac.2 ≤ b.frac.1 * a.frac.2) : a.dmag ≤ b.dmag := by
  have hm := toDbl_mono a.frac.1 a.frac.2 b.frac.1 b.frac.2 (frac_den_pos a) (frac_den_pos b) h
  have ha' : (a.mant == 0) = false := by simpa using ha
  have hb' : (b.mant == 0) = false := by simpa using hb
  unfold Dec.dmag
  simp only [ha', hb', ha1, ha2, hb1, hb2, Bool.false_eq_true, ↓reduceIte]
  generalize (toDbl a.frac.1 a.frac.2).1 * 2 ^ (toDbl a.frac.1 a.frac.2).2 = A at hm ⊢
  generalize (toDbl b.frac.1 b.frac.2).1 * 2 ^ (toDbl b.frac.1 b.frac.2).2 = B at hm ⊢
  generalize INFMAG = I
  by_cases h1 : A ≥ I <;> by_cases h2 : B ≥ I <;> simp only [h1, h2, ↓reduceIte] <;> omega

/-- consequently, for non-negative arguments, a lower bound that accepts `x` accepts every `y ≥ x`, whatever the
    number of digits of `x` and `y` -/
theorem dle_mono_right (lo x y : Dec) (hxn : x.neg = false) (hyn : y.neg = false) (h : x.dmag ≤ y.dmag)
    (hacc : Dec.dle lo x = true) : Dec.dle lo y = true := by
  simp only [Dec.dle, Dec.dkey, hxn, hyn, Bool.false_eq_true, ↓reduceIte, decide_eq_true_eq] at hacc ⊢
  omega

end EaselModel.Getopts
