import EaselModel.Getopts.Histories
/-! # C14 — the settings parsed from any source refer to options of the table (index < number of options), so the
    index hypothesis of the history theorems is discharged for real sources. -/
namespace EaselModel.Getopts

def CmdItem.idxOk (n : Nat) : CmdItem → Prop
  | .set i _ _ => i < n
  | .stop _ _ _ => True

theorem parseStd_idx (opts : List Opt) (k : Nat) : ∀ (cs : Str) (next : Option Str),
    ∀ it ∈ (parseStd opts k cs next).1, it.idxOk opts.length := by
  intro cs
  induction cs with
  | nil => intro next it h; simp [parseStd] at h
  | cons c cs ih =>
    intro next it h
    unfold parseStd at h
    cases hf : findShort opts c with
    | none => simp [hf] at h; subst h; trivial
    | some i =>
      have hi : i < opts.length := findIdx?_lt hf
      simp only [hf] at h
      split at h
      · split at h
        · simp at h; subst h; exact hi
        · cases next with
          | none => simp at h; subst h; trivial
          | some a =>
            simp only at h
            split at h
            · simp at h; subst h; trivial
            · simp at h; subst h; exact hi
      · split at h
        · simp at h; subst h; exact hi
        · rcases List.mem_cons.mp h with rfl | h
          · exact hi
          · exact ih next it h

theorem parseLong_idx (opts : List Opt) (k : Nat) (w : Str) (next : Option Str) :
    ∀ it ∈ (parseLong opts k w next).1, it.idxOk opts.length := by
  intro it h
  unfold parseLong at h
  cases ha : optidxAbbrev opts (splitEq w).1 with
  | ambiguous => simp [ha] at h; subst h; trivial
  | notfound => simp [ha] at h; subst h; trivial
  | found i =>
    have hi : i < opts.length := optidxAbbrev_lt ha
    simp only [ha] at h
    split at h
    · cases hs : (splitEq w).2 with
      | some a => simp [hs] at h; subst h; exact hi
      | none =>
        simp only [hs] at h
        cases next with
        | none => simp at h; subst h; trivial
        | some a =>
          simp only at h
          split at h
          · simp at h; subst h; trivial
          · simp at h; subst h; exact hi
    · cases hs : (splitEq w).2 with
      | some a => simp [hs] at h; subst h; trivial
      | none => simp [hs] at h; subst h; exact hi

theorem parseOpt_idx (opts : List Opt) (k : Nat) (w : Str) (next : Option Str) :
    ∀ it ∈ (parseOpt opts k w next).1, it.idxOk opts.length := by
  unfold parseOpt
  split
  · exact parseLong_idx opts k _ next
  · exact parseStd_idx opts k _ next

theorem parseCmd_idx (opts : List Opt) : ∀ (ws : List Str) (k : Nat) (skip : Bool),
    ∀ it ∈ parseCmd opts k ws skip, it.idxOk opts.length := by
  intro ws
  induction ws with
  | nil => intro k skip it h; simp [parseCmd] at h; subst h; trivial
  | cons w tl ih =>
    intro k skip it h
    cases skip with
    | true => exact ih k false it (by simpa [parseCmd] using h)
    | false =>
      unfold parseCmd at h
      split at h
      · simp at h; subst h; trivial
      · split at h
        · simp at h; subst h; trivial
        · simp only at h
          cases hr : (parseOpt opts k w tl.head?).2 with
          | none => simp only [hr] at h; exact parseOpt_idx opts k w _ it h
          | some extra =>
            simp only [hr] at h
            rcases List.mem_append.mp h with h | h
            · exact parseOpt_idx opts k w _ it h
            · exact ih _ extra it h

theorem cmdEvs_idx (n : Nat) : ∀ (is : List CmdItem), (∀ it ∈ is, it.idxOk n) → ∀ e ∈ cmdEvs is, e.i < n := by
  intro is
  induction is with
  | nil => intro _ e h; simp [cmdEvs] at h
  | cons it is ih =>
    intro hok e h
    cases it with
    | stop st m k => simp [cmdEvs] at h
    | set i arg kf =>
      simp only [cmdEvs] at h
      rcases List.mem_cons.mp h with rfl | h
      · exact hok _ List.mem_cons_self
      · exact ih (fun x hx => hok x (List.mem_cons_of_mem _ hx)) e h

/-- every setting parsed from a command line refers to an option of the table -/
theorem cmdline_events_in_table (opts : List Opt) (ws : List Str) (k : Nat) :
    ∀ e ∈ cmdEvs (parseCmd opts k ws false), e.i < opts.length :=
  cmdEvs_idx _ _ (parseCmd_idx opts ws k false)

theorem cfgItem_idx {opts : List Opt} {line : Str} {i : Nat} {arg : Option Str} (h : cfgItem opts line = some (.set i arg)) :
    i < opts.length := by
  unfold cfgItem at h
  split at h
  · cases h
  · split at h
    · cases h
    · split at h
      · cases h
      · split at h
        · cases h
        · split at h
          · cases h
          · rename_i j hj
            split at h
            · cases h
            · injection h with h; injection h with h1 _; subst h1; exact findIdx?_lt hj

theorem cfgEvs_idx (src n : Nat) : ∀ (is : List CfgItem), (∀ i arg, CfgItem.set i arg ∈ is → i < n) → ∀ e ∈ cfgEvs src is, e.i < n := by
  intro is
  induction is with
  | nil => intro _ e h; simp [cfgEvs] at h
  | cons it is ih =>
    intro hok e h
    cases it with
    | usage => simp [cfgEvs] at h
    | set i arg =>
      simp only [cfgEvs] at h
      rcases List.mem_cons.mp h with rfl | h
      · exact hok i arg List.mem_cons_self
      · exact ih (fun j a hj => hok j a (List.mem_cons_of_mem _ hj)) e h

/-- every setting parsed from a config file refers to an option of the table -/
theorem cfgfile_events_in_table (opts : List Opt) (src : Nat) (lines : List Str) :
    ∀ e ∈ cfgEvs src (lines.filterMap (cfgItem opts)), e.i < opts.length := by
  apply cfgEvs_idx
  intro i arg h
  obtain ⟨l, _, hl⟩ := List.mem_filterMap.mp h
  exact cfgItem_idx hl

theorem envEvents_idx (env : Str → Option Str) : ∀ (os : List Opt) (i : Nat), ∀ e ∈ envEvents env i os, i ≤ e.i ∧ e.i < i + os.length := by
  intro os
  induction os with
  | nil => intro i e h; simp [envEvents] at h
  | cons o os ih =>
    intro i e h
    unfold envEvents at h
    have step : ∀ e ∈ envEvents env (i + 1) os, i ≤ e.i ∧ e.i < i + (o :: os).length := by
      intro e he
      have := ih (i + 1) e he
      simp only [List.length_cons]; omega
    split at h
    · exact step e h
    · split at h
      · exact step e h
      · rcases List.mem_cons.mp h with rfl | h
        · simp
        · exact step e h

/-- every setting taken from the environment refers to an option of the table -/
theorem env_events_in_table (env : Str → Option Str) (opts : List Opt) : ∀ e ∈ envEvents env 0 opts, e.i < opts.length := by
  intro e h
  have := (envEvents_idx env opts 0 e h).2
  omega

end EaselModel.Getopts
