import EaselModel.Getopts.Model
/-! # C14 — option tables that are NOT well formed

`esl_getopts_Create` checks two things only: every name starts with `-`, and every non-NULL default passes its own
type/range check.  Everything else that can be wrong with a table (duplicate names, option lists naming unknown
options, a range on a string option, an unknown type code with a NULL default) is found when it is first used and
reported as `eslEINVAL` (`ESL_EXCEPTION`) or — for type problems met inside `set_option` — as `eslESYNTAX` without
a message.  No hypothesis on the table anywhere in this file. -/
namespace EaselModel.Getopts

def defaultVal (o : Opt) : Val := match o.defval with | some d => .str d | none => .null

/-- verifying a default never dereferences NULL: the only crash site of `verify_type_and_range` (`strlen(NULL)` for a
    character option) is behind the "NULL default is fine" exit -/
theorem verify_fault_only (o : Opt) (val : Option Str) (src : Nat) (h : verifyTypeRange o val src = .fault) :
    o.type = 3 ∧ val = none ∧ src ≠ byDefault := by
  unfold verifyTypeRange at h
  cases val with
  | none =>
    split at h
    · cases h
    · rename_i hsrc
      split at h <;> first | cases h | (split at h <;> cases h) | skip
      rename_i ht
      refine ⟨ht, rfl, ?_⟩
      intro hh; apply hsrc; simp [hh]
  | some v =>
    split at h
    · cases h
    · split at h <;> (repeat' split at h) <;> first | contradiction | cases h

theorem verify_default_never_faults (o : Opt) : verifyTypeRange o o.defval byDefault ≠ .fault :=
  fun h => (verify_fault_only o _ _ h).2.2 rfl

theorem createLoop_eq_all (opts : List Opt) :
    createLoop opts = opts.all (fun o => verifyTypeRange o o.defval byDefault == .good) := by
  induction opts with
  | nil => rfl
  | cons o os ih => simp [createLoop, ih]

/-- **`esl_getopts_Create` on any table whatsoever**: it returns NULL (`eslEINVAL`) exactly when some name does not
    start with `-` or some default fails its own type/range check (wrong type, out of range, two characters for a
    character option, malformed range string, a range on a string option, unknown type code); otherwise it returns
    the object with every option at its default, no file processed, no spoofed command line.  It has no other outcome
    (the model's `create` cannot crash: `verify_default_never_faults`). -/
theorem create_any_table (opts : List Opt) :
    (create opts = none ↔ (∃ o ∈ opts, o.name.head? ≠ some '-') ∨ (∃ o ∈ opts, verifyTypeRange o o.defval byDefault ≠ .good)) ∧
    (∀ g, create opts = some g → g.opts = opts ∧ g.val = opts.map defaultVal ∧ g.setby = opts.map (fun _ => byDefault) ∧
      g.nfiles = 0 ∧ g.spoofed = false ∧ g.optind = 1 ∧ g.argv = []) := by
  constructor
  · unfold create
    rw [createLoop_eq_all]
    by_cases h1 : (opts.all fun o => o.name.head? == some '-') = true
    · by_cases h2 : (opts.all fun o => verifyTypeRange o o.defval byDefault == .good) = true
      · simp only [h1, h2, Bool.and_self, ↓reduceIte]
        simp only [List.all_eq_true, beq_iff_eq] at h1 h2
        constructor
        · intro h; cases h
        · intro h
          rcases h with ⟨o, ho, hn⟩ | ⟨o, ho, hn⟩
          · exact absurd (h1 o ho) hn
          · exact absurd (h2 o ho) hn
      · simp only [h1, h2, Bool.and_false, Bool.false_eq_true, ↓reduceIte, true_iff]
        right
        obtain ⟨o, ho, hn⟩ := List.all_eq_false.mp (Bool.eq_false_iff.mpr h2)
        exact ⟨o, ho, by simpa using hn⟩
    · simp only [h1, Bool.false_and, Bool.false_eq_true, ↓reduceIte, true_iff]
      left
      obtain ⟨o, ho, hn⟩ := List.all_eq_false.mp (Bool.eq_false_iff.mpr h1)
      exact ⟨o, ho, by simpa using hn⟩
  · intro g h
    unfold create at h
    split at h
    · simp at h; subst h; exact ⟨rfl, rfl, rfl, rfl, rfl, rfl, rfl⟩
    · cases h

/-- duplicate names, unknown names in option lists, ranges on string options with NULL default are NOT seen by
    `Create`: such a table is accepted -/
theorem create_accepts_unchecked_defects (opts : List Opt) (h1 : ∀ o ∈ opts, o.name.head? = some '-')
    (h2 : ∀ o ∈ opts, o.defval = none) : (create opts).isSome = true := by
  cases hc : create opts with
  | some g => rfl
  | none =>
    rcases (create_any_table opts).1.mp hc with ⟨o, ho, hn⟩ | ⟨o, ho, hn⟩
    · exact absurd (h1 o ho) hn
    · exfalso; apply hn; unfold verifyTypeRange; simp [h2 o ho, byDefault]

/-- an option list (toggle, required, incompatible) naming an unknown option is reported as `eslEINVAL` when the list
    is walked — by `set_option` … -/
theorem unknown_toggle_name_is_einval (g : G) (i src : Nat) (e : Str) (es : List Str) (h : optlistResolve g.opts e = none) :
    toggleLoop g i src (e :: es) = .done g .einval false := by
  simp [toggleLoop, h]

/-- … and by `esl_opt_VerifyConfig` -/
theorem unknown_required_name_is_einval (g : G) (e : Str) (es : List Str) (h : optlistResolve g.opts e = none) :
    reqLoop g (e :: es) = some (.einval, false) ∧ ∀ i, incLoop g i (e :: es) = some (.einval, false) := by
  simp [reqLoop, incLoop, h]

/-- on any table, `set_option` can crash in one situation only: a character option given no argument by a source
    other than the defaults (`strlen(NULL)`) — which no source does (command line and environment always pass a
    string, the config-file reader refuses the line since fix 8d4fde4) -/
theorem set_option_any_table_no_fault (g : G) (i : Nat) (arg : Option Str) (src : Nat) (h : arg.isSome ∨ (g.opt i).type ≠ 3) :
    setOption g i arg src ≠ .fault := by
  have hv : verifyTypeRange (g.opt i) arg src ≠ .fault := by
    intro hf
    obtain ⟨ht, ha, _⟩ := verify_fault_only _ _ _ hf
    rcases h with h | h
    · rw [ha] at h; cases h
    · exact h ht
  unfold setOption
  split
  · simp
  · cases hvv : verifyTypeRange (g.opt i) arg src with
    | fault => exact absurd hvv hv
    | exc => simp
    | bad => simp
    | good =>
      simp only
      generalize g.put i (newVal (g.opt i) arg) src = g1
      generalize optlistElems (g.opt i).toggle = es
      induction es generalizing g1 with
      | nil => simp [toggleLoop]
      | cons e es ih =>
        unfold toggleLoop
        split
        · simp
        · split
          · exact ih g1
          · split
            · exact ih g1
            · split
              · simp
              · exact ih _

end EaselModel.Getopts
