import EaselModel.Getopts.Total
/-! # C14 — `esl_opt_VerifyConfig`, end of options, argument retrieval, queries, creation. -/
namespace EaselModel.Getopts

/-! ## `esl_opt_VerifyConfig` -/

theorem reqLoop_spec (g : G) : ∀ (es : List Str), (∀ e ∈ es, (optlistResolve g.opts e).isSome) →
    (reqLoop g es = none ∧ ∀ r ∈ es.filterMap (optlistResolve g.opts), (g.valOf r).isNull = false) ∨
    (reqLoop g es = some (.esyntax, true) ∧ ∃ r ∈ es.filterMap (optlistResolve g.opts), (g.valOf r).isNull = true) := by
  intro es
  induction es with
  | nil => intro _; left; simp [reqLoop]
  | cons e es ih =>
    intro hres
    have hre := hres e List.mem_cons_self
    have hres' : ∀ e' ∈ es, (optlistResolve g.opts e').isSome := fun e' he' => hres e' (List.mem_cons_of_mem _ he')
    cases hr : optlistResolve g.opts e with
    | none => simp [hr] at hre
    | some r =>
      unfold reqLoop
      simp only [hr, List.filterMap_cons]
      cases hn : (g.valOf r).isNull with
      | true => right; exact ⟨by simp, r, by simp, hn⟩
      | false =>
        simp only [Bool.false_eq_true, ↓reduceIte]
        rcases ih hres' with ⟨h1, h2⟩ | ⟨h1, r', h2, h3⟩
        · left
          refine ⟨h1, ?_⟩
          intro r' hr'
          rcases List.mem_cons.mp hr' with rfl | hr'
          · exact hn
          · exact h2 r' hr'
        · right; exact ⟨h1, r', List.mem_cons_of_mem _ h2, h3⟩

theorem incLoop_spec (g : G) (i : Nat) : ∀ (es : List Str), (∀ e ∈ es, (optlistResolve g.opts e).isSome) →
    (incLoop g i es = none ∧ ∀ c ∈ es.filterMap (optlistResolve g.opts), c ≠ i → g.isSetOn c = false) ∨
    (incLoop g i es = some (.esyntax, true) ∧ ∃ c ∈ es.filterMap (optlistResolve g.opts), c ≠ i ∧ g.isSetOn c = true) := by
  intro es
  induction es with
  | nil => intro _; left; simp [incLoop]
  | cons e es ih =>
    intro hres
    have hre := hres e List.mem_cons_self
    have hres' : ∀ e' ∈ es, (optlistResolve g.opts e').isSome := fun e' he' => hres e' (List.mem_cons_of_mem _ he')
    cases hr : optlistResolve g.opts e with
    | none => simp [hr] at hre
    | some c =>
      unfold incLoop
      simp only [hr, List.filterMap_cons]
      by_cases hc : c ≠ i ∧ g.isSetOn c = true
      · right
        have : (c != i && g.isSetOn c) = true := by simp [hc.1, hc.2]
        exact ⟨by simp [this], c, by simp, hc.1, hc.2⟩
      · have : (c != i && g.isSetOn c) = false := by
          cases h1 : (c != i) <;> cases h2 : g.isSetOn c <;> simp_all
        simp only [this, Bool.false_eq_true, ↓reduceIte]
        rcases ih hres' with ⟨h1, h2⟩ | ⟨h1, c', h2, h3⟩
        · left
          refine ⟨h1, ?_⟩
          intro c' hc' hne
          rcases List.mem_cons.mp hc' with rfl | hc'
          · cases h : g.isSetOn c' with
            | false => rfl
            | true => exact absurd ⟨hne, h⟩ hc
          · exact h2 c' hc' hne
        · right; exact ⟨h1, c', List.mem_cons_of_mem _ h2, h3⟩

/-- the requirement of option `i` holds: every option of its `required_opts` list is on -/
def ReqOk (g : G) (i : Nat) : Prop := ∀ r ∈ listIdx g.opts (g.opt i).required, (g.valOf r).isNull = false
/-- the incompatibilities of option `i` hold: no *other* option of its `incompat_opts` list is set and on -/
def IncOk (g : G) (i : Nat) : Prop := ∀ c ∈ listIdx g.opts (g.opt i).incompat, c ≠ i → g.isSetOn c = false

theorem verifyReq_spec (g : G) (hw : WF g.opts) : ∀ (os : List Opt) (i : Nat), g.opts.drop i = os →
    (verifyReq g i os = none ∧ ∀ j, i ≤ j → j < g.opts.length → g.isSetOn j = true → ReqOk g j) ∨
    (verifyReq g i os = some (.esyntax, true) ∧ ∃ j, i ≤ j ∧ j < g.opts.length ∧ g.isSetOn j = true ∧ ¬ ReqOk g j) := by
  intro os
  induction os with
  | nil =>
    intro i hd
    left
    refine ⟨rfl, ?_⟩
    intro j hij hj
    have : g.opts.length ≤ i := by
      by_cases h : g.opts.length ≤ i
      · exact h
      · have : (g.opts.drop i).length = g.opts.length - i := List.length_drop
        rw [hd] at this; simp at this; omega
    omega
  | cons o os ih =>
    intro i hd
    obtain ⟨ho, hd', hi⟩ := drop_cons_getD (d := (default : Opt)) hd
    have ho' : g.opt i = o := ho
    have hwo : WFOpt g.opts o := hw o (ho' ▸ opt_mem hi)
    unfold verifyReq
    cases hon : g.isSetOn i with
    | false =>
      simp only [Bool.false_eq_true, ↓reduceIte]
      rcases ih (i + 1) hd' with ⟨h1, h2⟩ | ⟨h1, j, h2, h3, h4, h5⟩
      · left
        refine ⟨h1, ?_⟩
        intro j hij hj hs
        by_cases hji : j = i
        · subst hji; rw [hon] at hs; cases hs
        · exact h2 j (by omega) hj hs
      · right; exact ⟨h1, j, by omega, h3, h4, h5⟩
    | true =>
      simp only [↓reduceIte]
      rcases reqLoop_spec g (optlistElems o.required) hwo.req with ⟨h1, h2⟩ | ⟨h1, r, h2, h3⟩
      · simp only [h1]
        rcases ih (i + 1) hd' with ⟨e1, e2⟩ | ⟨e1, j, e2, e3, e4, e5⟩
        · left
          refine ⟨e1, ?_⟩
          intro j hij hj hs
          by_cases hji : j = i
          · subst hji; intro r hr; exact h2 r (by simpa [listIdx, ho'] using hr)
          · exact e2 j (by omega) hj hs
        · right; exact ⟨e1, j, by omega, e3, e4, e5⟩
      · simp only [h1]
        right
        refine ⟨trivial, i, Nat.le_refl _, hi, hon, ?_⟩
        intro hok
        have := hok r (by simpa [listIdx, ho'] using h2)
        rw [h3] at this; cases this

theorem verifyInc_spec (g : G) (hw : WF g.opts) : ∀ (os : List Opt) (i : Nat), g.opts.drop i = os →
    (verifyInc g i os = none ∧ ∀ j, i ≤ j → j < g.opts.length → g.isSetOn j = true → IncOk g j) ∨
    (verifyInc g i os = some (.esyntax, true) ∧ ∃ j, i ≤ j ∧ j < g.opts.length ∧ g.isSetOn j = true ∧ ¬ IncOk g j) := by
  intro os
  induction os with
  | nil =>
    intro i hd
    left
    refine ⟨rfl, ?_⟩
    intro j hij hj
    have : g.opts.length ≤ i := by
      by_cases h : g.opts.length ≤ i
      · exact h
      · have : (g.opts.drop i).length = g.opts.length - i := List.length_drop
        rw [hd] at this; simp at this; omega
    omega
  | cons o os ih =>
    intro i hd
    obtain ⟨ho, hd', hi⟩ := drop_cons_getD (d := (default : Opt)) hd
    have ho' : g.opt i = o := ho
    have hwo : WFOpt g.opts o := hw o (ho' ▸ opt_mem hi)
    unfold verifyInc
    cases hon : g.isSetOn i with
    | false =>
      simp only [Bool.false_eq_true, ↓reduceIte]
      rcases ih (i + 1) hd' with ⟨h1, h2⟩ | ⟨h1, j, h2, h3, h4, h5⟩
      · left
        refine ⟨h1, ?_⟩
        intro j hij hj hs
        by_cases hji : j = i
        · subst hji; rw [hon] at hs; cases hs
        · exact h2 j (by omega) hj hs
      · right; exact ⟨h1, j, by omega, h3, h4, h5⟩
    | true =>
      simp only [↓reduceIte]
      rcases incLoop_spec g i (optlistElems o.incompat) hwo.inc with ⟨h1, h2⟩ | ⟨h1, c, h2, h3, h4⟩
      · simp only [h1]
        rcases ih (i + 1) hd' with ⟨e1, e2⟩ | ⟨e1, j, e2, e3, e4, e5⟩
        · left
          refine ⟨e1, ?_⟩
          intro j hij hj hs
          by_cases hji : j = i
          · subst hji; intro c hc hne; exact h2 c (by simpa [listIdx, ho'] using hc) hne
          · exact e2 j (by omega) hj hs
        · right; exact ⟨e1, j, by omega, e3, e4, e5⟩
      · simp only [h1]
        right
        refine ⟨trivial, i, Nat.le_refl _, hi, hon, ?_⟩
        intro hok
        have := hok c (by simpa [listIdx, ho'] using h2) h3
        rw [h4] at this; cases this

/-- `esl_opt_VerifyConfig` succeeds exactly when every option that is set and on has all its required options on
    and none of its incompatible options set and on; otherwise it is a usage error with a message. -/
theorem verifyConfig_spec (g : G) (hw : WF g.opts) :
    (verifyConfig g = (.ok, false) ∧ ∀ j, j < g.opts.length → g.isSetOn j = true → ReqOk g j ∧ IncOk g j) ∨
    (verifyConfig g = (.esyntax, true) ∧ ∃ j, j < g.opts.length ∧ g.isSetOn j = true ∧ (¬ ReqOk g j ∨ ¬ IncOk g j)) := by
  unfold verifyConfig
  rcases verifyReq_spec g hw g.opts 0 (by simp) with ⟨h1, h2⟩ | ⟨h1, j, _, h3, h4, h5⟩
  · rcases verifyInc_spec g hw g.opts 0 (by simp) with ⟨e1, e2⟩ | ⟨e1, j, _, e3, e4, e5⟩
    · left; simp only [h1, e1]
      exact ⟨trivial, fun j hj hs => ⟨h2 j (Nat.zero_le _) hj hs, e2 j (Nat.zero_le _) hj hs⟩⟩
    · right; simp only [h1, e1]
      exact ⟨trivial, j, e3, e4, Or.inr e5⟩
  · right; simp only [h1]
    exact ⟨trivial, j, h3, h4, Or.inl h5⟩

/-! ## end of options, argument retrieval -/

/-- `--` ends the options: it is consumed, nothing after it is looked at -/
theorem cmdLoop_dashdash (g : G) (k : Nat) (rest : List Str) :
    cmdLoop g k (['-', '-'] :: rest) false = .done { g with optind := k + 1 } .ok false := by
  simp [cmdLoop, isArgWord, startsWithDash]

/-- a word that does not start with `-`, or `-` alone, ends the options and is the first argument -/
theorem cmdLoop_argword (g : G) (k : Nat) (w : Str) (rest : List Str) (h : isArgWord w = true) :
    cmdLoop g k (w :: rest) false = .done { g with optind := k } .ok false := by
  simp [cmdLoop, h]

/-- a word starting with `+` is an ordinary argument (there are no `+`-prefixed options in this version) -/
theorem plus_is_argword (r : Str) : isArgWord ('+' :: r) = true := by
  simp [isArgWord, startsWithDash]

/-- `esl_opt_GetArg` hands out `argv[optind], argv[optind+1], …` in order and NULL beyond the end;
    `esl_opt_ArgNumber` is their number -/
theorem getArg_spec (g : G) (n : Nat) :
    getArg g ((n : Int) + 1) = if g.optind + n < g.argc then g.argv[g.optind + n]? else none := by
  unfold getArg
  have h1 : ¬ ((n : Int) + 1 ≤ 0) := by omega
  simp only [h1, ↓reduceIte]
  by_cases h : g.optind + n < g.argc
  · have : ¬ ((g.optind : Int) + ((n : Int) + 1) - 1 ≥ g.argc) := by omega
    simp only [this, h, ↓reduceIte]
    have : ((n : Int) + 1).toNat = n + 1 := by omega
    rw [this]
    congr 1
  · have : ((g.optind : Int) + ((n : Int) + 1) - 1 ≥ g.argc) := by omega
    simp [this, h]

theorem getArg_nonpos (g : G) (w : Int) (h : w ≤ 0) : getArg g w = none := by simp [getArg, h]

theorem getArg_of_split (g : G) (pre rest : List Str) (hargv : g.argv = pre ++ rest) (hk : g.optind = pre.length) (n : Nat) :
    getArg g ((n : Int) + 1) = rest[n]? ∧ argNumber g = rest.length := by
  refine ⟨?_, ?_⟩
  · rw [getArg_spec]
    simp only [G.argc, hargv, hk, List.length_append]
    by_cases h : n < rest.length
    · have : pre.length + n < pre.length + rest.length := by omega
      simp only [this, ↓reduceIte]
      rw [List.getElem?_append_right (by omega)]
      congr 1; omega
    · have : ¬ (pre.length + n < pre.length + rest.length) := by omega
      simp only [this, ↓reduceIte]
      rw [List.getElem?_eq_none (by omega)]
  · simp [argNumber, G.argc, hargv, hk]; omega

/-! ## queries -/

theorem isUsed_eq (g : G) (i : Nat) : isUsed g i = (!isDefault g i && isOn g i) := by
  unfold isUsed isOn
  cases isDefault g i <;> cases (g.valOf i).isNull <;> rfl

theorem isDefault_of_setter (g : G) (i : Nat) (h : g.setter i = byDefault) : isDefault g i = true := by
  simp [isDefault, h]

/-- an option that is not in its default state was set (directly or by a toggle) by some source -/
theorem setter_of_not_default (g : G) (i : Nat) (h : isDefault g i = false) : g.setter i ≠ byDefault := by
  intro hs; rw [isDefault_of_setter g i hs] at h; cases h

/-! ## creation -/

theorem create_spec {opts : List Opt} {g : G} (h : create opts = some g) :
    g.opts = opts ∧ Inv g ∧ g.spoofed = false ∧ g.nfiles = 0 ∧
    ∀ i, i < opts.length → g.setter i = byDefault ∧ isDefault g i = true ∧
      g.valOf i = (match (g.opt i).defval with | some d => Val.str d | none => Val.null) := by
  unfold create at h
  split at h
  · injection h with h
    subst h
    refine ⟨rfl, ⟨by simp, by simp⟩, rfl, rfl, ?_⟩
    intro i hi
    have hs : G.setter { opts := opts, val := opts.map (fun o => match o.defval with | some d => Val.str d | none => Val.null),
                         setby := opts.map (fun _ => byDefault) } i = byDefault := by
      simp [G.setter, List.getD_eq_getElem?_getD, hi]
    refine ⟨hs, isDefault_of_setter _ _ hs, ?_⟩
    simp [G.valOf, G.opt, List.getD_eq_getElem?_getD, hi]
    cases opts[i].defval <;> rfl
  · cases h

/-- `esl_getopts_Reuse` restores exactly the state `esl_getopts_Create` produced, whatever happened in between -/
theorem reuse_eq_create {opts : List Opt} {g0 g : G} (h : create opts = some g0) (hg : g.opts = opts) : reuse g = g0 := by
  unfold create at h
  split at h
  · injection h with h
    subst h
    simp [reuse, hg]
  · cases h

/-- `esl_opt_GetArg(g, n+1)` is the `n`-th element of `argv[optind..]` -/
theorem getArg_drop (g : G) (n : Nat) : getArg g ((n : Int) + 1) = (g.argv.drop g.optind)[n]? := by
  rw [getArg_spec]
  by_cases h : g.optind + n < g.argc
  · simp [h, List.getElem?_drop]
  · have : g.argv.length ≤ g.optind + n := by simpa [G.argc] using h
    simp [h, List.getElem?_drop, List.getElem?_eq_none this]

end EaselModel.Getopts
