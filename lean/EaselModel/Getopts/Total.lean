import EaselModel.Getopts.Lemmas
/-! # C14 — every source-processing call on a well-formed table ends cleanly: success without message or a
    usage error (`eslESYNTAX`) with a message; never a crash (`R.fault`), never an internal exception (`einval`). -/
namespace EaselModel.Getopts

theorem opt_mem {g : G} {i : Nat} (h : i < g.opts.length) : g.opt i ∈ g.opts := by
  unfold G.opt
  rw [List.getD_eq_getElem?_getD, List.getElem?_eq_getElem h]
  exact List.getElem_mem h

theorem findIdx?_lt {α : Type} {p : α → Bool} {l : List α} {i : Nat} (h : l.findIdx? p = some i) : i < l.length :=
  (List.findIdx?_eq_some_iff_findIdx_eq.mp h).1

/-- outcome of a whole API call: ends cleanly, keeps the shape invariant and the table -/
def Good (g : G) (r : R) : Prop := ∃ g' st m, r = .done g' st m ∧ Clean st m ∧ Inv g' ∧ g'.opts = g.opts

inductive StepGood (g : G) : Step → Prop
  | cont {g' : G} {e : Bool} : Inv g' → SameFrame g g' → StepGood g (.cont g' e)
  | stop {g' : G} {st : Status} {m : Bool} {adv : Nat} : Clean st m → st ≠ .ok → Inv g' → SameFrame g g' → StepGood g (.stop g' st m adv)

theorem StepGood.usage (g : G) (adv : Nat) (hinv : Inv g) : StepGood g (.stop g .esyntax true adv) :=
  .stop (Or.inr ⟨rfl, rfl⟩) (by simp) hinv (SameFrame.refl _)

theorem StepGood.mono {g g1 : G} {s : Step} (hf : SameFrame g g1) (h : StepGood g1 s) : StepGood g s := by
  cases h with
  | cont a b => exact .cont a (hf.trans b)
  | stop a a' b c => exact .stop a a' b (hf.trans c)

/-- glue: what the three-way match after a `set_option` call in the command-line code yields -/
theorem step_of_set {g : G} {i : Nat} {arg : Option Str} (hinv : Inv g) (hw : WF g.opts) (hi : i < g.opts.length)
    (harg : arg.isSome ∨ (g.opt i).type ≠ 3) (extra : Bool) (adv : Nat) :
    StepGood g (match setOption g i arg byCmdline with
      | .fault => .fault
      | .done g' .ok _ => .cont g' extra
      | .done g' st m => .stop g' st m adv) := by
  obtain ⟨g', st, m, h1, h2, h3, h4⟩ := setOption_total (src := byCmdline) hinv (hw _ (opt_mem hi)) harg
  rw [h1]
  cases st with
  | ok => exact .cont h3 h4
  | esyntax => exact .stop h2 (by simp) h3 h4
  | einval => rcases h2 with ⟨h, _⟩ | ⟨h, _⟩ <;> simp at h

theorem stdLoop_good : ∀ (cs : Str) (g : G) (next : Option Str), Inv g → WF g.opts → StepGood g (stdLoop g cs next) := by
  intro cs
  induction cs with
  | nil => intro g next hinv _; exact .cont hinv (SameFrame.refl _)
  | cons c cs ih =>
    intro g next hinv hw
    unfold stdLoop
    cases hf : findShort g.opts c with
    | none => exact StepGood.usage g 1 hinv
    | some i =>
      have hi : i < g.opts.length := findIdx?_lt hf
      simp only
      by_cases ht : (g.opt i).type = 0
      · have ht' : ((g.opt i).type != 0) = false := by simp [ht]
        simp only [ht', Bool.false_eq_true, ↓reduceIte]
        obtain ⟨g', st, m, h1, h2, h3, h4⟩ := setOption_total (arg := none) (src := byCmdline) hinv (hw _ (opt_mem hi)) (Or.inr (by omega))
        simp only [h1]
        cases st with
        | ok =>
          simp only
          split
          · exact .cont h3 h4
          · exact StepGood.mono h4 (ih g' next h3 (by rw [h4.1]; exact hw))
        | esyntax => exact .stop h2 (by simp) h3 h4
        | einval => rcases h2 with ⟨h, _⟩ | ⟨h, _⟩ <;> simp at h
      · have ht' : ((g.opt i).type != 0) = true := by simp [ht]
        simp only [ht', ↓reduceIte]
        split
        · exact step_of_set hinv hw hi (Or.inl rfl) false 1
        · split
          · exact StepGood.usage g 1 hinv
          · split
            · exact StepGood.usage g 2 hinv
            · exact step_of_set hinv hw hi (Or.inl rfl) true 2

theorem abbrevScan_last_lt (key : Str) : ∀ (os : List Opt) (i nab last : Nat),
    (abbrevScan key os i nab last).1 = nab ∧ (abbrevScan key os i nab last).2.2 = last ∨
    (nab < (abbrevScan key os i nab last).1 ∧ i ≤ (abbrevScan key os i nab last).2.2 ∧ (abbrevScan key os i nab last).2.2 < i + os.length) := by
  intro os
  induction os with
  | nil => intro i nab last; left; simp [abbrevScan]
  | cons o os ih =>
    intro i nab last
    unfold abbrevScan
    split
    · split
      · right; simp
      · rcases ih (i + 1) (nab + 1) i with h | h
        · right; rw [h.1, h.2]; simp
        · right; simp only [List.length_cons]; omega
    · rcases ih (i + 1) nab last with h | h
      · left; exact h
      · right; simp only [List.length_cons]; omega

theorem optidxAbbrev_lt {opts : List Opt} {key : Str} {i : Nat} (h : optidxAbbrev opts key = .found i) : i < opts.length := by
  unfold optidxAbbrev at h
  have := abbrevScan_last_lt key opts 0 0 0
  revert h this
  generalize abbrevScan key opts 0 0 0 = r
  obtain ⟨a, b, c⟩ := r
  intro h this
  simp only at h this
  split at h
  · simp at h
  · split at h
    · simp at h
    · rename_i h0
      simp at h
      subst h
      rcases this with ⟨h1, _⟩ | ⟨_, _, h3⟩
      · simp [h1] at h0
      · simpa using h3

theorem longOpt_good (g : G) (w : Str) (next : Option Str) (hinv : Inv g) (hw : WF g.opts) : StepGood g (longOpt g w next) := by
  unfold longOpt
  simp only
  cases ha : optidxAbbrev g.opts (splitEq w).1 with
  | ambiguous => exact StepGood.usage g 0 hinv
  | notfound => exact StepGood.usage g 0 hinv
  | found i =>
    have hi : i < g.opts.length := optidxAbbrev_lt ha
    simp only
    by_cases ht : (g.opt i).type = 0
    · have ht' : ((g.opt i).type != 0) = false := by simp [ht]
      simp only [ht', Bool.false_eq_true, ↓reduceIte]
      split
      · exact StepGood.usage g 1 hinv
      · exact step_of_set hinv hw hi (Or.inr (by omega)) false 1
    · have ht' : ((g.opt i).type != 0) = true := by simp [ht]
      simp only [ht', ↓reduceIte]
      split
      · exact step_of_set hinv hw hi (Or.inl rfl) false 1
      · split
        · exact StepGood.usage g 1 hinv
        · split
          · exact StepGood.usage g 2 hinv
          · exact step_of_set hinv hw hi (Or.inl rfl) true 2

theorem cmdLoop_good : ∀ (ws : List Str) (g : G) (k : Nat) (skip : Bool), Inv g → WF g.opts → Good g (cmdLoop g k ws skip) := by
  intro ws
  induction ws with
  | nil => intro g k skip hinv _; exact ⟨_, .ok, false, rfl, Or.inl ⟨rfl, rfl⟩, ⟨hinv.hv, hinv.hs⟩, rfl⟩
  | cons w tl ih =>
    intro g k skip hinv hw
    cases skip with
    | true => simpa [cmdLoop] using ih g k false hinv hw
    | false =>
      unfold cmdLoop
      split
      · exact ⟨_, .ok, false, rfl, Or.inl ⟨rfl, rfl⟩, ⟨hinv.hv, hinv.hs⟩, rfl⟩
      · split
        · exact ⟨_, .ok, false, rfl, Or.inl ⟨rfl, rfl⟩, ⟨hinv.hv, hinv.hs⟩, rfl⟩
        · have hstep : StepGood g (optStep g w tl.head?) := by
            unfold optStep
            split
            · exact longOpt_good g _ _ hinv hw
            · exact stdLoop_good _ g _ hinv hw
          cases hs : optStep g w tl.head? with
          | fault => rw [hs] at hstep; cases hstep
          | stop g' st m adv =>
            rw [hs] at hstep
            cases hstep with
            | stop h1 _ h3 h4 => exact ⟨_, _, _, rfl, h1, ⟨h3.hv, h3.hs⟩, h4.1⟩
          | cont g' extra =>
            rw [hs] at hstep
            cases hstep with
            | cont h3 h4 =>
              obtain ⟨g'', st, m, e1, e2, e3, e4⟩ := ih g' (k + 1 + (if extra then 1 else 0)) extra h3 (by rw [h4.1]; exact hw)
              exact ⟨g'', st, m, e1, e2, e3, e4.trans h4.1⟩

theorem processCmdline_good (g : G) (argv : List Str) (hinv : Inv g) (hw : WF g.opts) : Good g (processCmdline g argv) := by
  unfold processCmdline
  exact cmdLoop_good _ { g with argv := argv, optind := 1 } 1 false ⟨hinv.hv, hinv.hs⟩ hw

theorem processSpoof_good (g : G) (s : Str) (hinv : Inv g) (hw : WF g.opts) (hs : g.spoofed = false) : Good g (processSpoof g s) := by
  unfold processSpoof
  simp only [hs]
  exact processCmdline_good { g with spoofed := true } _ ⟨hinv.hv, hinv.hs⟩ hw

theorem drop_cons_getD {α : Type} {l r : List α} {a d : α} {i : Nat} (h : l.drop i = a :: r) :
    l.getD i d = a ∧ l.drop (i + 1) = r ∧ i < l.length := by
  have hlt : i < l.length := by
    by_cases hlt : i < l.length
    · exact hlt
    · rw [List.drop_eq_nil_of_le (by omega)] at h; simp at h
  rw [List.drop_eq_getElem_cons hlt] at h
  simp only [List.cons.injEq] at h
  refine ⟨?_, h.2, hlt⟩
  rw [List.getD_eq_getElem?_getD, List.getElem?_eq_getElem hlt]
  simpa using h.1

theorem envLoop_good (env : Str → Option Str) : ∀ (os : List Opt) (g : G) (i : Nat), Inv g → WF g.opts → g.opts.drop i = os →
    Good g (envLoop env g i os) := by
  intro os
  induction os with
  | nil => intro g i hinv _ _; exact ⟨g, .ok, false, rfl, Or.inl ⟨rfl, rfl⟩, hinv, rfl⟩
  | cons o os ih =>
    intro g i hinv hw hd
    obtain ⟨ho, hd', hi⟩ := drop_cons_getD (d := (default : Opt)) hd
    unfold envLoop
    split
    · exact ih g (i + 1) hinv hw hd'
    · split
      · exact ih g (i + 1) hinv hw hd'
      · obtain ⟨g', st, m, h1, h2, h3, h4⟩ := setOption_total (i := i) (arg := some ‹Str›) (src := byEnv) hinv (hw _ (opt_mem hi)) (Or.inl rfl)
        simp only [h1]
        cases st with
        | ok =>
          obtain ⟨g'', st, m, e1, e2, e3, e4⟩ := ih g' (i + 1) h3 (by rw [h4.1]; exact hw) (by rw [h4.1]; exact hd')
          exact ⟨g'', st, m, e1, e2, e3, e4.trans h4.1⟩
        | esyntax => exact ⟨g', _, _, rfl, h2, h3, h4.1⟩
        | einval => rcases h2 with ⟨h, _⟩ | ⟨h, _⟩ <;> simp at h

theorem processEnvironment_good (g : G) (env : Str → Option Str) (hinv : Inv g) (hw : WF g.opts) : Good g (processEnvironment g env) :=
  envLoop_good env g.opts g 0 hinv hw (by simp)

theorem cfgLine_good (g : G) (line : Str) (hinv : Inv g) (hw : WF g.opts) :
    cfgLine g line = none ∨ ∃ g' st m, cfgLine g line = some (.done g' st m) ∧ Clean st m ∧ Inv g' ∧ SameFrame g g' := by
  have bad : ∃ g' st m, some (R.done g .esyntax true) = some (.done g' st m) ∧ Clean st m ∧ Inv g' ∧ SameFrame g g' :=
    ⟨g, .esyntax, true, rfl, Or.inr ⟨rfl, rfl⟩, hinv, SameFrame.refl _⟩
  unfold cfgLine
  split
  · left; rfl
  · rename_i name optarg comment _
    split
    · left; rfl
    · split
      · right; exact bad
      · split
        · right; exact bad
        · split
          · right; exact bad
          · rename_i i hi
            have hlt : i < g.opts.length := findIdx?_lt hi
            split
            · right; exact bad
            · rename_i hguard
              right
              have harg : optarg.isSome ∨ (g.opt i).type ≠ 3 := by
                by_cases h3 : (g.opt i).type = 3
                · left
                  cases optarg with
                  | none => simp [h3] at hguard
                  | some _ => rfl
                · right; exact h3
              obtain ⟨g', st, m, h1, h2, h3, h4⟩ := setOption_total (src := byCfgfile + g.nfiles) hinv (hw _ (opt_mem hlt)) harg
              exact ⟨g', st, m, by rw [h1], h2, h3, h4⟩

theorem cfgLoop_good : ∀ (ls : List Str) (g : G), Inv g → WF g.opts → Good g (cfgLoop g ls) := by
  intro ls
  induction ls with
  | nil => intro g hinv _; exact ⟨_, .ok, false, rfl, Or.inl ⟨rfl, rfl⟩, ⟨hinv.hv, hinv.hs⟩, rfl⟩
  | cons l ls ih =>
    intro g hinv hw
    unfold cfgLoop
    rcases cfgLine_good g l hinv hw with h | ⟨g', st, m, h1, h2, h3, h4⟩
    · simp only [h]; exact ih g hinv hw
    · simp only [h1]
      cases st with
      | ok =>
        obtain ⟨g'', st, m, e1, e2, e3, e4⟩ := ih g' h3 (by rw [h4.1]; exact hw)
        exact ⟨g'', st, m, e1, e2, e3, e4.trans h4.1⟩
      | esyntax => exact ⟨g', _, _, rfl, h2, h3, h4.1⟩
      | einval => rcases h2 with ⟨h, _⟩ | ⟨h, _⟩ <;> simp at h

theorem processConfigfile_good (g : G) (content : Str) (hinv : Inv g) (hw : WF g.opts) : Good g (processConfigfile g content) :=
  cfgLoop_good _ g hinv hw

end EaselModel.Getopts
