import EaselModel.Getopts.Model
/-! # C14 — `get_optidx_abbrev`: an abbreviation resolves iff it equals a name or is a prefix of exactly one name. -/
namespace EaselModel.Getopts

/-- `key` abbreviates option `o` -/
def isAbbr (key : Str) (o : Opt) : Bool := key.isPrefixOf o.name

theorem isAbbr_self (o : Opt) : isAbbr o.name o = true := by
  simp [isAbbr, List.isPrefixOf_iff_prefix]

theorem isAbbr_len_eq {key : Str} {o : Opt} (h : isAbbr key o = true) (hl : key.length = o.name.length) : o.name = key := by
  have := (List.isPrefixOf_iff_prefix.mp h).eq_of_length hl
  exact this.symm

/-- index of the last abbreviated option (offset `i`), `last` if there is none -/
def scanLast (key : Str) : List Opt → Nat → Nat → Nat
  | [], _, last => last
  | o :: os, i, last => scanLast key os (i + 1) (if isAbbr key o then i else last)

/-- without an exact match the scan counts every abbreviated option and remembers the last one -/
theorem abbrevScan_noexact (key : Str) : ∀ (os : List Opt) (i nab last : Nat), (∀ o ∈ os, o.name ≠ key) →
    abbrevScan key os i nab last = (nab + os.countP (isAbbr key), 0, scanLast key os i last) := by
  intro os
  induction os with
  | nil => intro i nab last _; simp [abbrevScan, scanLast]
  | cons o os ih =>
    intro i nab last hne
    have hne' : ∀ o' ∈ os, o'.name ≠ key := fun o' ho' => hne o' (List.mem_cons_of_mem _ ho')
    have ho : o.name ≠ key := hne o List.mem_cons_self
    unfold abbrevScan
    by_cases hp : key.isPrefixOf o.name = true
    · have hp' : isAbbr key o = true := hp
      have hl : (key.length == o.name.length) = false := by
        cases h : key.length == o.name.length with
        | false => rfl
        | true => exact absurd (isAbbr_len_eq hp' (by simpa using h)) ho
      simp only [hp, hl, ↓reduceIte, Bool.false_eq_true]
      rw [ih (i + 1) (nab + 1) i hne']
      simp [scanLast, List.countP_cons, hp']
      omega
    · have hp' : isAbbr key o = false := by
        cases hq : isAbbr key o with
        | false => rfl
        | true => exact absurd hq hp
      simp only [hp, ↓reduceIte]
      rw [ih (i + 1) nab last hne']
      simp [scanLast, hp']

/-- with an exact match at position `e` (the first one) the scan stops there -/
theorem abbrevScan_exact (key : Str) : ∀ (os : List Opt) (e i nab last : Nat) (o : Opt), os[e]? = some o → o.name = key →
    (∀ j o', j < e → os[j]? = some o' → o'.name ≠ key) →
    ∃ a, nab < a ∧ abbrevScan key os i nab last = (a, 1, i + e) := by
  intro os
  induction os with
  | nil => intro e i nab last o h; simp at h
  | cons h t ih =>
    intro e i nab last o he hname hfirst
    unfold abbrevScan
    cases e with
    | zero =>
      simp at he
      subst he
      have hp : key.isPrefixOf h.name = true := by rw [← hname]; exact isAbbr_self h
      have hl : (key.length == h.name.length) = true := by simp [hname]
      simp only [hp, hl, ↓reduceIte]
      exact ⟨nab + 1, by omega, by simp⟩
    | succ e =>
      have hh : h.name ≠ key := hfirst 0 h (by omega) (by simp)
      have he' : t[e]? = some o := by simpa using he
      have hfirst' : ∀ j o', j < e → t[j]? = some o' → o'.name ≠ key := by
        intro j o' hj hjo
        exact hfirst (j + 1) o' (by omega) (by simpa using hjo)
      by_cases hp : key.isPrefixOf h.name = true
      · have hl : (key.length == h.name.length) = false := by
          cases hq : key.length == h.name.length with
          | false => rfl
          | true => exact absurd (isAbbr_len_eq hp (by simpa using hq)) hh
        simp only [hp, hl, ↓reduceIte, Bool.false_eq_true]
        obtain ⟨a, ha, hs⟩ := ih e (i + 1) (nab + 1) i o he' hname hfirst'
        exact ⟨a, by omega, by rw [hs]; simp; omega⟩
      · simp only [hp, ↓reduceIte]
        obtain ⟨a, ha, hs⟩ := ih e (i + 1) nab last o he' hname hfirst'
        exact ⟨a, ha, by rw [hs]; simp; omega⟩

/-- (c1) a name that is spelled out in full always resolves to (the first) option of that name, whatever else it
    is a prefix of -/
theorem abbrev_exact {opts : List Opt} {key : Str} {e : Nat} {o : Opt} (he : opts[e]? = some o) (hname : o.name = key)
    (hfirst : ∀ j o', j < e → opts[j]? = some o' → o'.name ≠ key) : optidxAbbrev opts key = .found e := by
  obtain ⟨a, ha, hs⟩ := abbrevScan_exact key opts e 0 0 0 o he hname hfirst
  unfold optidxAbbrev
  rw [hs]
  have : (a == 0) = false := by simp; omega
  simp [this]

theorem scanLast_unique (key : Str) : ∀ (os : List Opt) (u i last : Nat) (o : Opt), os[u]? = some o → isAbbr key o = true →
    (∀ j o', os[j]? = some o' → isAbbr key o' = true → j = u) →
    os.countP (isAbbr key) = 1 ∧ scanLast key os i last = i + u := by
  intro os
  induction os with
  | nil => intro u i last o h; simp at h
  | cons h t ih =>
    intro u i last o hu hp huniq
    cases u with
    | zero =>
      simp at hu
      subst hu
      have hnone : ∀ o' ∈ t, isAbbr key o' = false := by
        intro o' ho'
        obtain ⟨j, hj, hjo⟩ := List.mem_iff_getElem.mp ho'
        cases hq : isAbbr key o' with
        | false => rfl
        | true =>
          have := huniq (j + 1) o' (by simp [← hjo, hj]) hq
          omega
      have hc : t.countP (isAbbr key) = 0 := by
        rw [List.countP_eq_zero]
        intro o' ho'; simp [hnone o' ho']
      have hl : ∀ (i last : Nat), scanLast key t i last = last := by
        clear ih huniq hc
        induction t with
        | nil => intro i last; rfl
        | cons x xs ihx =>
          intro i last
          have hx : isAbbr key x = false := hnone x List.mem_cons_self
          simp only [scanLast, hx, Bool.false_eq_true, ↓reduceIte]
          exact ihx (fun o' ho' => hnone o' (List.mem_cons_of_mem _ ho')) (i + 1) last
      simp [List.countP_cons, hp, hc, scanLast, hl]
    | succ u =>
      have hh : isAbbr key h = false := by
        cases hq : isAbbr key h with
        | false => rfl
        | true => have := huniq 0 h (by simp) hq; omega
      have hu' : t[u]? = some o := by simpa using hu
      obtain ⟨h1, h2⟩ := ih u (i + 1) last o hu' hp (by
        intro j o' hj hq
        have := huniq (j + 1) o' (by simpa using hj) hq
        omega)
      simp only [List.countP_cons, hh, scanLast, Bool.false_eq_true, ↓reduceIte, h1]
      refine ⟨by simp, ?_⟩
      rw [h2]; omega

/-- (c2) an abbreviation that is no option's full name resolves when exactly one option name starts with it -/
theorem abbrev_unique {opts : List Opt} {key : Str} {u : Nat} {o : Opt} (hne : ∀ o' ∈ opts, o'.name ≠ key)
    (hu : opts[u]? = some o) (hp : isAbbr key o = true)
    (huniq : ∀ j o', opts[j]? = some o' → isAbbr key o' = true → j = u) : optidxAbbrev opts key = .found u := by
  obtain ⟨h1, h2⟩ := scanLast_unique key opts u 0 0 o hu hp huniq
  unfold optidxAbbrev
  rw [abbrevScan_noexact key opts 0 0 0 hne, h1, h2]
  simp

/-- (c3) … is unknown when no option name starts with it -/
theorem abbrev_none {opts : List Opt} {key : Str} (hnone : ∀ o ∈ opts, isAbbr key o = false) : optidxAbbrev opts key = .notfound := by
  have hne : ∀ o' ∈ opts, o'.name ≠ key := by
    intro o' ho' h
    have := hnone o' ho'
    rw [← h, isAbbr_self] at this
    cases this
  have hc : opts.countP (isAbbr key) = 0 := by
    rw [List.countP_eq_zero]
    intro o' ho'; simp [hnone o' ho']
  unfold optidxAbbrev
  rw [abbrevScan_noexact key opts 0 0 0 hne, hc]
  simp

theorem countP_two {α : Type} (p : α → Bool) : ∀ (l : List α) (i j : Nat) (a b : α), i < j → l[i]? = some a → l[j]? = some b →
    p a = true → p b = true → 2 ≤ l.countP p := by
  intro l
  induction l with
  | nil => intro i j a b _ h; simp at h
  | cons x xs ih =>
    intro i j a b hij hi hj pa pb
    cases j with
    | zero => omega
    | succ j =>
      have hj' : xs[j]? = some b := by simpa using hj
      cases i with
      | zero =>
        simp at hi
        subst hi
        have : 1 ≤ xs.countP p := by
          have hb : b ∈ xs := List.mem_of_getElem? hj'
          exact List.countP_pos_iff.mpr ⟨b, hb, pb⟩
        rw [List.countP_cons]; simp only [pa, ↓reduceIte]; omega
      | succ i =>
        have := ih i j a b (by omega) (by simpa using hi) hj' pa pb
        simp only [List.countP_cons]; omega

/-- (c4) … and is ambiguous when two different option names start with it -/
theorem abbrev_ambiguous {opts : List Opt} {key : Str} {i j : Nat} {a b : Opt} (hne : ∀ o' ∈ opts, o'.name ≠ key)
    (hij : i < j) (hi : opts[i]? = some a) (hj : opts[j]? = some b) (pa : isAbbr key a = true) (pb : isAbbr key b = true) :
    optidxAbbrev opts key = .ambiguous := by
  have := countP_two (isAbbr key) opts i j a b hij hi hj pa pb
  unfold optidxAbbrev
  rw [abbrevScan_noexact key opts 0 0 0 hne]
  have h1 : decide (0 + List.countP (isAbbr key) opts > 1) = true := by simp; omega
  simp only [bne_self_eq_false, Bool.not_eq_true', h1]
  simp

/-- a list has no, exactly one, or at least two positions satisfying `p` -/
theorem trichotomy {α : Type} (p : α → Bool) : ∀ (l : List α),
    (∀ x ∈ l, p x = false) ∨
    (∃ (u : Nat) (a : α), l[u]? = some a ∧ p a = true ∧ ∀ (j : Nat) (b : α), l[j]? = some b → p b = true → j = u) ∨
    (∃ (i j : Nat) (a b : α), i < j ∧ l[i]? = some a ∧ l[j]? = some b ∧ p a = true ∧ p b = true) := by
  intro l
  induction l with
  | nil => left; simp
  | cons x xs ih =>
    cases hx : p x with
    | false =>
      rcases ih with h | ⟨u, a, h1, h2, h3⟩ | ⟨i, j, a, b, h1, h2, h3, h4, h5⟩
      · left
        intro y hy
        rcases List.mem_cons.mp hy with rfl | hy
        · exact hx
        · exact h y hy
      · right; left
        refine ⟨u + 1, a, by simpa using h1, h2, ?_⟩
        intro j b hj hb
        cases j with
        | zero => simp at hj; subst hj; rw [hx] at hb; cases hb
        | succ j => have := h3 j b (by simpa using hj) hb; omega
      · right; right
        exact ⟨i + 1, j + 1, a, b, by omega, by simpa using h2, by simpa using h3, h4, h5⟩
    | true =>
      rcases ih with h | ⟨u, a, h1, h2, _⟩ | ⟨i, j, a, b, h1, h2, h3, h4, h5⟩
      · right; left
        refine ⟨0, x, by simp, hx, ?_⟩
        intro j b hj hb
        cases j with
        | zero => rfl
        | succ j =>
          have hj' : xs[j]? = some b := by simpa using hj
          have := h b (List.mem_of_getElem? hj')
          rw [this] at hb; cases hb
      · right; right
        exact ⟨0, u + 1, x, a, by omega, by simp, by simpa using h1, hx, h2⟩
      · right; right
        exact ⟨i + 1, j + 1, a, b, by omega, by simpa using h2, by simpa using h3, h4, h5⟩

/-- (c) for an abbreviation that is not itself a full option name: it resolves to option `u` **iff** `u` is the
    one and only option whose name starts with it -/
theorem abbrev_resolves_iff {opts : List Opt} {key : Str} (hne : ∀ o' ∈ opts, o'.name ≠ key) (u : Nat) :
    optidxAbbrev opts key = .found u ↔
    ∃ o, opts[u]? = some o ∧ isAbbr key o = true ∧ ∀ (j : Nat) (o' : Opt), opts[j]? = some o' → isAbbr key o' = true → j = u := by
  constructor
  · intro h
    rcases trichotomy (isAbbr key) opts with h0 | ⟨u', a, h1, h2, h3⟩ | ⟨i, j, a, b, h1, h2, h3, h4, h5⟩
    · rw [abbrev_none h0] at h; cases h
    · rw [abbrev_unique hne h1 h2 h3] at h
      injection h with h
      subst h
      exact ⟨a, h1, h2, h3⟩
    · rw [abbrev_ambiguous hne h1 h2 h3 h4 h5] at h; cases h
  · rintro ⟨o, h1, h2, h3⟩
    exact abbrev_unique hne h1 h2 h3

/-- … it is reported as ambiguous **iff** at least two option names start with it -/
theorem abbrev_ambiguous_iff {opts : List Opt} {key : Str} (hne : ∀ o' ∈ opts, o'.name ≠ key) :
    optidxAbbrev opts key = .ambiguous ↔
    ∃ (i j : Nat) (a b : Opt), i < j ∧ opts[i]? = some a ∧ opts[j]? = some b ∧ isAbbr key a = true ∧ isAbbr key b = true := by
  constructor
  · intro h
    rcases trichotomy (isAbbr key) opts with h0 | ⟨u', a, h1, h2, h3⟩ | h2
    · rw [abbrev_none h0] at h; cases h
    · rw [abbrev_unique hne h1 h2 h3] at h; cases h
    · exact h2
  · rintro ⟨i, j, a, b, h1, h2, h3, h4, h5⟩
    exact abbrev_ambiguous hne h1 h2 h3 h4 h5

/-- … and as unknown **iff** no option name starts with it -/
theorem abbrev_notfound_iff {opts : List Opt} {key : Str} :
    optidxAbbrev opts key = .notfound ↔ ∀ o ∈ opts, isAbbr key o = false := by
  constructor
  · intro h
    by_cases hex : ∃ o ∈ opts, o.name = key
    · -- an exact match resolves, so `notfound` is impossible
      obtain ⟨o, ho, hname⟩ := hex
      -- take the first option of that name
      have : ∃ (e : Nat) (o' : Opt), opts[e]? = some o' ∧ o'.name = key ∧ ∀ (j : Nat) (o'' : Opt), j < e → opts[j]? = some o'' → o''.name ≠ key := by
        have hf : (opts.findIdx? (fun o => o.name == key)).isSome := by
          rw [List.findIdx?_isSome]; exact List.any_eq_true.mpr ⟨o, ho, by simp [hname]⟩
        obtain ⟨e, he⟩ := Option.isSome_iff_exists.mp hf
        obtain ⟨hlt, hpe, hbefore⟩ := List.findIdx?_eq_some_iff_getElem.mp he
        refine ⟨e, opts[e], by simp [hlt], by simpa using hpe, ?_⟩
        intro j o'' hj hjo
        have hjlt : j < opts.length := by omega
        have := hbefore j hj
        rw [List.getElem?_eq_getElem hjlt] at hjo
        injection hjo with hjo
        subst hjo
        simpa using this
      obtain ⟨e, o', h1, h2, h3⟩ := this
      rw [abbrev_exact h1 h2 h3] at h; cases h
    · have hne : ∀ o' ∈ opts, o'.name ≠ key := fun o' ho' hn => hex ⟨o', ho', hn⟩
      rcases trichotomy (isAbbr key) opts with h0 | ⟨u', a, h1, h2, h3⟩ | ⟨i, j, a, b, h1, h2, h3, h4, h5⟩
      · exact h0
      · rw [abbrev_unique hne h1 h2 h3] at h; cases h
      · rw [abbrev_ambiguous hne h1 h2 h3 h4 h5] at h; cases h
  · exact abbrev_none

end EaselModel.Getopts
