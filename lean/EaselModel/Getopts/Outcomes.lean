import EaselModel.Getopts.Histories
import EaselModel.Getopts.Ranges
/-! # C14 — exactly when `set_option` succeeds (toggle conflicts), and the syntax of an integer argument. -/
namespace EaselModel.Getopts

/-- a toggle conflict: another member of the toggle list is on and was set (or toggled) by this very source -/
def Conflict (g : G) (i src : Nat) (ts : List Nat) : Prop :=
  ∃ j ∈ ts, j ≠ i ∧ (g.valOf j).isNull = false ∧ g.setter j = src

theorem toggleLoop_iff_conflict {i src : Nat} : ∀ (es : List Str) (g : G), Inv g →
    (∀ e ∈ es, (optlistResolve g.opts e).isSome) →
    (Conflict g i src (es.filterMap (optlistResolve g.opts)) → ∃ g', toggleLoop g i src es = .done g' .esyntax true) ∧
    (¬ Conflict g i src (es.filterMap (optlistResolve g.opts)) → ∃ g', toggleLoop g i src es = .done g' .ok false) := by
  intro es
  induction es with
  | nil =>
    intro g _ _
    refine ⟨?_, fun _ => ⟨g, rfl⟩⟩
    rintro ⟨j, hj, _⟩; simp at hj
  | cons e es ih =>
    intro g hinv hres
    have hre := hres e List.mem_cons_self
    have hres' : ∀ e' ∈ es, (optlistResolve g.opts e').isSome := fun e' he' => hres e' (List.mem_cons_of_mem _ he')
    cases hr : optlistResolve g.opts e with
    | none => simp [hr] at hre
    | some t =>
      have htlt : t < g.opts.length := optlistResolve_lt hr
      have hC : Conflict g i src ((e :: es).filterMap (optlistResolve g.opts)) ↔
          ((t ≠ i ∧ (g.valOf t).isNull = false ∧ g.setter t = src) ∨ Conflict g i src (es.filterMap (optlistResolve g.opts))) := by
        simp only [Conflict, List.filterMap_cons, hr, List.mem_cons]
        constructor
        · rintro ⟨j, hj | hj, h⟩
          · subst hj; exact Or.inl h
          · exact Or.inr ⟨j, hj, h⟩
        · rintro (h | ⟨j, hj, h⟩)
          · exact ⟨t, Or.inl rfl, h⟩
          · exact ⟨j, Or.inr hj, h⟩
      unfold toggleLoop
      simp only [hr]
      by_cases hti : t = i
      · have : (t == i) = true := by simp [hti]
        simp only [this, ↓reduceIte]
        have := ih g hinv hres'
        rw [hC]
        constructor
        · rintro (h | h)
          · exact absurd hti h.1
          · exact this.1 h
        · intro h; exact this.2 (fun hc => h (Or.inr hc))
      · have hti' : (t == i) = false := by simp [hti]
        simp only [hti', Bool.false_eq_true, ↓reduceIte]
        by_cases hnull : (g.valOf t).isNull = true
        · simp only [hnull, ↓reduceIte]
          have := ih g hinv hres'
          rw [hC]
          constructor
          · rintro (h | h)
            · rw [hnull] at h; cases h.2.1
            · exact this.1 h
          · intro h; exact this.2 (fun hc => h (Or.inr hc))
        · have hnull' : (g.valOf t).isNull = false := by simpa using hnull
          simp only [hnull', Bool.false_eq_true, ↓reduceIte]
          by_cases hsame : g.setter t = src
          · have : (g.setter t == src) = true := by simp [hsame]
            simp only [this, ↓reduceIte]
            rw [hC]
            exact ⟨fun _ => ⟨g, rfl⟩, fun h => absurd (Or.inl ⟨hti, hnull', hsame⟩) h⟩
          · have : (g.setter t == src) = false := by simp [hsame]
            simp only [this, Bool.false_eq_true, ↓reduceIte]
            have hih := ih (g.put t .null src) (put_inv hinv _ _ _) (by simpa using hres')
            simp only [put_opts] at hih
            -- conflicts among the remaining elements are the same before and after switching `t` off
            have hCeq : Conflict (g.put t .null src) i src (es.filterMap (optlistResolve g.opts)) ↔
                Conflict g i src (es.filterMap (optlistResolve g.opts)) := by
              simp only [Conflict]
              constructor
              · rintro ⟨j, hj, h1, h2, h3⟩
                by_cases hjt : j = t
                · subst hjt
                  rw [put_valOf_same (by rw [hinv.hv]; exact htlt)] at h2
                  cases h2
                · have hne : t ≠ j := fun h => hjt h.symm
                  rw [put_valOf_ne hne] at h2
                  rw [put_setter_ne hne] at h3
                  exact ⟨j, hj, h1, h2, h3⟩
              · rintro ⟨j, hj, h1, h2, h3⟩
                by_cases hjt : j = t
                · subst hjt; exact absurd h3 hsame
                · have hne : t ≠ j := fun h => hjt h.symm
                  exact ⟨j, hj, h1, by rw [put_valOf_ne hne]; exact h2, by rw [put_setter_ne hne]; exact h3⟩
            rw [hC]
            constructor
            · rintro (h | h)
              · exact absurd h.2.2 hsame
              · exact hih.1 (hCeq.mpr h)
            · intro h; exact hih.2 (fun hc => h (Or.inr (hCeq.mp hc)))

/-- **exactly when a setting succeeds**: the option was not yet set by this source, the argument has the right type
    and lies in range, and no other member of its toggle list that is on was set or toggled by this same source
    ("an option's state may only be changed once by [a source], even indirectly through toggle-tying"). In every
    other case the call is a usage error with a message. -/
theorem setOption_ok_iff {g : G} {i src : Nat} {arg : Option Str} (hinv : Inv g)
    (hw : WFOpt g.opts (g.opt i)) (harg : arg.isSome ∨ (g.opt i).type ≠ 3) :
    ((∃ g', setOption g i arg src = .done g' .ok false) ↔
      (g.setter i ≠ src ∧ verifyTypeRange (g.opt i) arg src = .good ∧ ¬ Conflict g i src (listIdx g.opts (g.opt i).toggle))) ∧
    ((∃ g', setOption g i arg src = .done g' .esyntax true) ↔
      ¬ (g.setter i ≠ src ∧ verifyTypeRange (g.opt i) arg src = .good ∧ ¬ Conflict g i src (listIdx g.opts (g.opt i).toggle))) := by
  -- conflicts are the same before and after option `i` itself is stored (they concern j ≠ i only)
  have hCput : ∀ v, Conflict (g.put i v src) i src (listIdx g.opts (g.opt i).toggle) ↔ Conflict g i src (listIdx g.opts (g.opt i).toggle) := by
    intro v
    simp only [Conflict]
    constructor
    · rintro ⟨j, hj, h1, h2, h3⟩
      have hne : i ≠ j := fun h => h1 h.symm
      exact ⟨j, hj, h1, by rwa [put_valOf_ne hne] at h2, by rwa [put_setter_ne hne] at h3⟩
    · rintro ⟨j, hj, h1, h2, h3⟩
      have hne : i ≠ j := fun h => h1 h.symm
      exact ⟨j, hj, h1, by rwa [put_valOf_ne hne], by rwa [put_setter_ne hne]⟩
  by_cases hs : g.setter i = src
  · have hr : setOption g i arg src = .done g .esyntax true := setOption_rejected (Or.inl hs)
    constructor
    · constructor
      · rintro ⟨g', h⟩; rw [hr] at h; cases h
      · rintro ⟨h, _⟩; exact absurd hs h
    · constructor
      · intro _ h; exact h.1 hs
      · intro _; exact ⟨g, hr⟩
  · cases hv : verifyTypeRange (g.opt i) arg src with
    | fault => exact absurd hv (verifyTypeRange_nofault harg)
    | exc => exact absurd hv (verifyTypeRange_noexc hw _ _)
    | bad =>
      have hr : setOption g i arg src = .done g .esyntax true := setOption_rejected (Or.inr hv)
      constructor
      · constructor
        · rintro ⟨g', h⟩; rw [hr] at h; cases h
        · rintro ⟨_, h, _⟩; cases h
      · constructor
        · intro _ h; cases h.2.1
        · intro _; exact ⟨g, hr⟩
    | good =>
      have hs' : (g.setter i == src) = false := by simp [hs]
      have hunf : setOption g i arg src = toggleLoop (g.put i (newVal (g.opt i) arg) src) i src (optlistElems (g.opt i).toggle) := by
        unfold setOption; simp only [hs', hv, Bool.false_eq_true, ↓reduceIte]
      have htl := toggleLoop_iff_conflict (i := i) (src := src) (optlistElems (g.opt i).toggle)
        (g.put i (newVal (g.opt i) arg) src) (put_inv hinv _ _ _) (by simpa using hw.tog)
      simp only [put_opts] at htl
      have hC := hCput (newVal (g.opt i) arg)
      simp only [listIdx] at hC
      by_cases hc : Conflict g i src (listIdx g.opts (g.opt i).toggle)
      · obtain ⟨g', hg'⟩ := htl.1 (hC.mpr hc)
        constructor
        · constructor
          · rintro ⟨g'', h⟩; rw [hunf, hg'] at h; cases h
          · rintro ⟨_, _, h⟩; exact absurd hc h
        · constructor
          · intro _ h; exact h.2.2 hc
          · intro _; exact ⟨g', by rw [hunf, hg']⟩
      · obtain ⟨g', hg'⟩ := htl.2 (fun h => hc (hC.mp h))
        constructor
        · constructor
          · intro _; exact ⟨hs, rfl, hc⟩
          · intro _; exact ⟨g', by rw [hunf, hg']⟩
        · constructor
          · rintro ⟨g'', h⟩; rw [hunf, hg'] at h; cases h
          · intro h; exact absurd ⟨hs, rfl, hc⟩ h

/-! ## the syntax of an integer argument -/

/-- what `esl_str_IsInteger` accepts: blanks, an optional sign, at least one digit, blanks -/
def IntSyntax (s : Str) : Prop :=
  ∃ (ws1 sign ds ws2 : Str), (∀ c ∈ ws1, isSpace c = true) ∧ (sign = [] ∨ sign = ['-'] ∨ sign = ['+']) ∧ ds ≠ [] ∧
    (∀ d ∈ ds, isDigit d = true) ∧ (∀ c ∈ ws2, isSpace c = true) ∧ s = ws1 ++ sign ++ ds ++ ws2

theorem not_digit_of_space {c : Char} (h : isSpace c = true) : isDigit c = false := by
  cases hd : isDigit c with
  | false => rfl
  | true => rw [not_space_of_digit hd] at h; cases h

theorem signOf_spec (t : Str) : ∃ sign, (sign = [] ∨ sign = ['-'] ∨ sign = ['+']) ∧ t = sign ++ (signOf t).2 := by
  unfold signOf
  split
  · exact ⟨['-'], Or.inr (Or.inl rfl), rfl⟩
  · exact ⟨['+'], Or.inr (Or.inr rfl), rfl⟩
  · exact ⟨[], Or.inl rfl, rfl⟩

theorem all_takeWhile {α : Type} (p : α → Bool) : ∀ (l : List α), ∀ x ∈ l.takeWhile p, p x = true := by
  intro l
  induction l with
  | nil => intro x hx; simp at hx
  | cons a l ih =>
    intro x hx
    rw [List.takeWhile_cons] at hx
    split at hx
    · rcases List.mem_cons.mp hx with rfl | hx
      · assumption
      · exact ih x hx
    · simp at hx

/-- every accepted integer argument has the documented shape -/
theorem isInteger_sound (s : Str) (h : isInteger s = true) : IntSyntax s := by
  unfold isInteger at h
  cases hst : strtol s with
  | none => simp [hst] at h
  | some r =>
    obtain ⟨v, rest⟩ := r
    simp only [hst] at h
    unfold strtol at hst
    simp only at hst
    split at hst
    · cases hst
    · rename_i hne
      injection hst with hst
      obtain ⟨sign, hsign, ht⟩ := signOf_spec (s.dropWhile isSpace)
      have hrest : (signOf (s.dropWhile isSpace)).2.dropWhile isDigit = rest := congrArg Prod.snd hst
      refine ⟨s.takeWhile isSpace, sign, (signOf (s.dropWhile isSpace)).2.takeWhile isDigit, rest, all_takeWhile _ _, hsign, ?_,
        all_takeWhile _ _, ?_, ?_⟩
      · intro he; rw [he] at hne; exact hne rfl
      · intro c hc; exact List.all_eq_true.mp h c hc
      · have h1 : s = s.takeWhile isSpace ++ s.dropWhile isSpace := (List.takeWhile_append_dropWhile).symm
        have h2 : (signOf (s.dropWhile isSpace)).2 = (signOf (s.dropWhile isSpace)).2.takeWhile isDigit ++ rest := by
          rw [← hrest]; exact (List.takeWhile_append_dropWhile).symm
        conv => lhs; rw [h1, ht, h2]
        simp [List.append_assoc]

theorem dropWhile_space_prefix : ∀ (ws x : Str), (∀ c ∈ ws, isSpace c = true) → (x.dropWhile isSpace = x) →
    (ws ++ x).dropWhile isSpace = x := by
  intro ws
  induction ws with
  | nil => intro x _ hx; simpa using hx
  | cons a ws ih =>
    intro x h hx
    simp only [List.cons_append, List.dropWhile_cons, h a List.mem_cons_self, ↓reduceIte]
    exact ih x (fun c hc => h c (List.mem_cons_of_mem _ hc)) hx

/-- every string of the documented shape is accepted -/
theorem isInteger_complete (s : Str) (h : IntSyntax s) : isInteger s = true := by
  obtain ⟨ws1, sign, ds, ws2, hw1, hsign, hne, hds, hw2, rfl⟩ := h
  obtain ⟨d, ds', rfl⟩ := List.exists_cons_of_ne_nil hne
  have hd := hds d List.mem_cons_self
  have htw : ((d :: ds') ++ ws2).takeWhile isDigit = d :: ds' := by
    rw [List.takeWhile_append_of_pos hds]
    have : ws2.takeWhile isDigit = [] := by
      cases ws2 with
      | nil => rfl
      | cons x xs => simp [List.takeWhile_cons, not_digit_of_space (hw2 x List.mem_cons_self)]
    simp [this]
  have hdw : ((d :: ds') ++ ws2).dropWhile isDigit = ws2 := by
    have h1 : ∀ (l : Str), (∀ x ∈ l, isDigit x = true) → l.dropWhile isDigit = [] := by
      intro l
      induction l with
      | nil => intro _; rfl
      | cons x xs ih =>
        intro hl
        simp [List.dropWhile_cons, hl x List.mem_cons_self, ih (fun y hy => hl y (List.mem_cons_of_mem _ hy))]
    have h2 : ws2.dropWhile isDigit = ws2 := by
      cases ws2 with
      | nil => rfl
      | cons x xs => simp [List.dropWhile_cons, not_digit_of_space (hw2 x List.mem_cons_self)]
    rw [List.dropWhile_append, h1 _ hds]
    simp [h2]
  have key : ∀ (neg : Bool) (sg : Str), signOf (sg ++ ((d :: ds') ++ ws2)) = (neg, (d :: ds') ++ ws2) →
      (sg ++ ((d :: ds') ++ ws2)).dropWhile isSpace = sg ++ ((d :: ds') ++ ws2) →
      isInteger (ws1 ++ sg ++ (d :: ds') ++ ws2) = true := by
    intro neg sg h1 h2
    have e : ws1 ++ sg ++ (d :: ds') ++ ws2 = ws1 ++ (sg ++ ((d :: ds') ++ ws2)) := by simp [List.append_assoc]
    have := strtol_of_parts (s := ws1 ++ sg ++ (d :: ds') ++ ws2) (by rw [e]; exact dropWhile_space_prefix ws1 _ hw1 h2) h1 htw (by simp) hdw
    unfold isInteger
    rw [this]
    exact List.all_eq_true.mpr hw2
  rcases hsign with rfl | rfl | rfl
  · exact key false [] (by simpa using signOf_digit _ hd) (by simp [List.dropWhile_cons, not_space_of_digit hd])
  · exact key true ['-'] rfl (by simp [List.dropWhile_cons, isSpace])
  · exact key false ['+'] rfl (by simp [List.dropWhile_cons, isSpace])

/-- **"a value of the wrong type", integers**: an argument is accepted as an integer iff it consists of optional
    blanks, an optional sign, at least one decimal digit, and optional blanks -/
theorem isInteger_iff (s : Str) : isInteger s = true ↔ IntSyntax s := ⟨isInteger_sound s, isInteger_complete s⟩

end EaselModel.Getopts
