import EaselModel.Getopts.Help
/-! # C14 — `esl_getopts_Dump`: the configuration as a table (option, setting, who set it), after the argument list.
    Modelled line by line; compared byte for byte with the real output (`dumptext` op).  Core Lean only. -/
namespace EaselModel.Getopts

def natStr (n : Nat) : Str := (toString n).toList
/-- `%-12s` -/
def padRight (s : Str) (n : Nat) : Str := s ++ spaces (n - s.length)
/-- `%12s`, `%2d` -/
def padLeft (s : Str) (n : Nat) : Str := spaces (n - s.length) ++ s

/-- the last column: who set the option -/
def setterText (k : Nat) : Str :=
  if k == byDefault then "(default) ".toList
  else if k == byCmdline then "cmdline   ".toList
  else if k == byEnv then "environ   ".toList
  else "cfgfile   ".toList

/-- the middle column; `none` = the C code would print through a wild pointer (`(char*)1` as a string) -/
def settingText (g : G) (i : Nat) : Option Str :=
  if (g.opt i).type == 0 then some (if (g.valOf i).isNull then "off".toList else "on".toList)
  else match g.valOf i with
    | .str v => some v
    | .null => some "(null)".toList          -- glibc's rendering of `printf("%s", NULL)`
    | .one => none

def dumpOptLine (g : G) (i : Nat) : Option Str :=
  (settingText g i).map fun st => padRight (g.opt i).name 12 ++ [' '] ++ padRight st 12 ++ [' '] ++ setterText (g.setter i) ++ ['\n']

/-- the argument block: printed only once a command line has been processed (`g->argv != NULL`) -/
def dumpArgs (g : G) : Str :=
  match g.argv with
  | [] => []
  | a0 :: _ =>
    "argv[0]:                ".toList ++ a0 ++ ['\n'] ++
    ((List.range (g.argv.length - g.optind)).flatMap fun k =>
      "argument ".toList ++ padLeft (natStr (k + 1)) 2 ++ " (argv[".toList ++ padLeft (natStr (g.optind + k)) 2 ++ "]): ".toList ++
        g.argv.getD (g.optind + k) [] ++ ['\n']) ++ ['\n']

def dumpHeader : Str :=
  padLeft "Option".toList 12 ++ [' '] ++ padLeft "Setting".toList 12 ++ [' '] ++ padLeft "Set by".toList 9 ++ ['\n'] ++
  "------------ ------------ ---------\n".toList

/-- `esl_getopts_Dump(ofp, g)` -/
def dumpText (g : G) : Option Str :=
  let ls := (List.range g.opts.length).map (dumpOptLine g)
  if ls.all Option.isSome then some (dumpArgs g ++ dumpHeader ++ (ls.filterMap id).flatten) else none

/-- the "Set by" column tells the four kinds of setter apart -/
theorem setterText_default_iff (k : Nat) : setterText k = "(default) ".toList ↔ k = byDefault := by
  unfold setterText
  constructor
  · intro h
    by_cases h0 : (k == byDefault) = true
    · simpa using h0
    · simp only [h0, Bool.false_eq_true, ↓reduceIte] at h
      split at h
      · exact absurd h (by decide)
      · split at h
        · exact absurd h (by decide)
        · exact absurd h (by decide)
  · intro h; subst h; rfl

/-- a boolean option's setting reads `on` exactly when `esl_opt_IsOn` says so -/
theorem settingText_boolean (g : G) (i : Nat) (ht : (g.opt i).type = 0) :
    settingText g i = some (if isOn g i then "on".toList else "off".toList) := by
  unfold settingText isOn
  simp only [ht, beq_self_eq_true, ↓reduceIte]
  cases (g.valOf i).isNull <;> rfl

/-- `esl_getopts_Dump` cannot crash on an object no argument-taking option of which holds the boolean marker -/
theorem dumpText_total (g : G) (hval : ∀ i, (g.opt i).type ≠ 0 → g.valOf i ≠ .one) : (dumpText g).isSome = true := by
  unfold dumpText
  have : ((List.range g.opts.length).map (dumpOptLine g)).all Option.isSome = true := by
    simp only [List.all_eq_true, List.mem_map, forall_exists_index, and_imp]
    intro x i _ hx
    subst hx
    unfold dumpOptLine settingText
    by_cases ht : (g.opt i).type = 0
    · simp [ht]
    · have ht' : ((g.opt i).type == 0) = false := by simpa using ht
      simp only [ht', Bool.false_eq_true, ↓reduceIte]
      cases hv : g.valOf i with
      | str v => rfl
      | null => rfl
      | one => exact absurd hv (hval i ht)
  simp [this]

end EaselModel.Getopts
