import EaselModel.Random.MTGeneric
/-! # Executable model of esl_random.c / esl_rand64.c (C09). Core Lean only. -/
namespace EaselModel.Random
open EaselModel.MTP

/-! ## MT19937 (esl_random.c) -/
def twist32 (a b c : UInt32) : UInt32 :=
  let y := (a &&& (0x80000000 : UInt32)) ||| (b &&& (0x7fffffff : UInt32))
  c ^^^ (y >>> 1) ^^^ (if y &&& 1 = 0 then 0 else (0x9908b0df : UInt32))

def temper32 (x0 : UInt32) : UInt32 :=
  let x := x0 ^^^ (x0 >>> 11)
  let x := x ^^^ ((x <<< 7) &&& (0x9d2c5680 : UInt32))
  let x := x ^^^ ((x <<< 15) &&& (0xefc60000 : UInt32))
  x ^^^ (x >>> 18)

/-- the index `z+1` of the three loops of `mersenne_fill_table` (`0` in the final statement) -/
def i1_32 (z : Nat) : Nat := if z < 623 then z + 1 else 0
/-- `z+397` in the first loop, `z-227` in the second, `396` in the final statement -/
def iM_32 (z : Nat) : Nat := if z < 227 then z + 397 else if z < 623 then z - 227 else 396

def P32 : Params UInt32 where
  N := 624
  M := 397
  hM := by decide
  g := twist32
  temper := temper32
  seedf := fun _ x => 69069 * x
  i1 := i1_32
  iM := iM_32
  hi1 := by intro z hz; unfold i1_32; split <;> omega
  hiM := by intro z hz; unfold iM_32; split <;> (try split) <;> omega

/-! ## MT19937-64 (esl_rand64.c) -/
def twist64 (a b c : UInt64) : UInt64 :=
  let x := (a &&& (0xFFFFFFFF80000000 : UInt64)) ||| (b &&& (0x7FFFFFFF : UInt64))
  c ^^^ (x >>> 1) ^^^ (if x &&& 1 = 0 then 0 else (0xB5026F5AA96619E9 : UInt64))

def temper64 (x0 : UInt64) : UInt64 :=
  let x := x0 ^^^ ((x0 >>> 29) &&& (0x5555555555555555 : UInt64))
  let x := x ^^^ ((x <<< 17) &&& (0x71D67FFFEDA60000 : UInt64))
  let x := x ^^^ ((x <<< 37) &&& (0xFFF7EEE000000000 : UInt64))
  x ^^^ (x >>> 43)

def i1_64 (z : Nat) : Nat := if z < 311 then z + 1 else 0
def iM_64 (z : Nat) : Nat := if z < 156 then z + 156 else if z < 311 then z - 156 else 155

def P64 : Params UInt64 where
  N := 312
  M := 156
  hM := by decide
  g := twist64
  temper := temper64
  seedf := fun z x => (6364136223846793005 : UInt64) * (x ^^^ (x >>> 62)) + (UInt64.ofNat (z+1))
  i1 := i1_64
  iM := iM_64
  hi1 := by intro z hz; unfold i1_64; split <;> omega
  hiM := by intro z hz; unfold iM_64; split <;> (try split) <;> omega

/-! ## esl_mix3 (easel.c) and seed selection -/
def mix3 (a b c : UInt32) : UInt32 :=
  let a := a - b; let a := a - c; let a := a ^^^ (c >>> 13)
  let b := b - c; let b := b - a; let b := b ^^^ (a <<< 8)
  let c := c - a; let c := c - b; let c := c ^^^ (b >>> 13)
  let a := a - b; let a := a - c; let a := a ^^^ (c >>> 12)
  let b := b - c; let b := b - a; let b := b ^^^ (a <<< 16)
  let c := c - a; let c := c - b; let c := c ^^^ (b >>> 5)
  let a := a - b; let a := a - c; let a := a ^^^ (c >>> 3)
  let b := b - c; let b := b - a; let b := b ^^^ (a <<< 10)
  let c := c - a; let c := c - b; let c := c ^^^ (b >>> 15)
  c

/-- `choose_arbitrary_seed`: time, pid and clock are inputs of the model -/
def arbitrarySeed32 (time pid clock : UInt32) : UInt32 :=
  let s := mix3 time pid clock
  if s = 0 then 42 else s

def arbitrarySeed64 (time pid clock : UInt32) : UInt64 :=
  let s : UInt64 := ((mix3 time pid clock).toUInt64 <<< 32) + (mix3 clock time pid).toUInt64
  if s = 0 then 42 else s

/-- the seed actually used by `esl_randomness_Init` -/
def effSeed32 (seed : UInt32) (env : UInt32 × UInt32 × UInt32) : UInt32 :=
  if seed = 0 then arbitrarySeed32 env.1 env.2.1 env.2.2 else seed
def effSeed64 (seed : UInt64) (env : UInt32 × UInt32 × UInt32) : UInt64 :=
  if seed = 0 then arbitrarySeed64 env.1 env.2.1 env.2.2 else seed

/-! ## ESL_RANDOMNESS -/
inductive Kind | mersenne | fast
deriving DecidableEq, Repr

structure Rng where
  kind : Kind
  st : St UInt32          -- mt, mti
  x : UInt32              -- state of the fast generator
  seed : UInt32

instance : Inhabited Rng := ⟨⟨.mersenne, ⟨#[], 0⟩, 0, 0⟩⟩

/-- `esl_randomness_Init` with the seed already resolved (non-zero) -/
def Rng.initWith (r : Rng) (seed : UInt32) : Rng :=
  match r.kind with
  | .mersenne => { r with st := init P32 seed, seed := seed }
  | .fast =>
    let x := mix3 seed 87654321 12345678
    { r with seed := seed, x := if x = 0 then 42 else x }

def Rng.create (k : Kind) (seed : UInt32) : Rng :=
  Rng.initWith { kind := k, st := ⟨#[], 0⟩, x := 0, seed := 0 } seed

/-- `esl_random_uint32` -/
def Rng.next (r : Rng) : UInt32 × Rng :=
  match r.kind with
  | .mersenne => let (v, s) := MTP.next P32 r.st; (v, { r with st := s })
  | .fast => let x := r.x * 69069 + 1; (x, { r with x := x })

/-- test hook of the correspondence harness (not part of the library): overwrite the table word that the next draw
    will temper; if the table is exhausted one draw is made first so that both sides refill identically -/
def Rng.pokeRaw (r : Rng) (w : UInt32) : Rng :=
  match r.kind with
  | .mersenne =>
    let r1 := if r.st.mti ≥ 624 then (r.next).2 else r
    { r1 with st := { r1.st with mt := r1.st.mt.setIfInBounds r1.st.mti w } }
  | .fast => r

/-- the accept/reject map of `esl_rnd_Roll`: `some v` if the raw word is accepted -/
def rollWord (n : Nat) (x : Nat) : Option Nat :=
  let factor := (2^32 - 1) / n
  let u := x / factor
  if u < n then some u else none

/-- `esl_rnd_Roll` with fuel (the C loop is unbounded; it ends with probability 1) -/
def Rng.roll (r : Rng) (n : Nat) : Nat → Option (Nat × Rng)
  | 0 => none
  | fuel+1 =>
    let (x, r') := r.next
    match rollWord n x.toNat with
    | some v => some (v, r')
    | none => Rng.roll r' n fuel

/-- `esl_random`: numerator of the double `x / 2^32` -/
def Rng.randomNum (r : Rng) : Nat × Rng := let (x, r') := r.next; (x.toNat, r')

/-- `esl_rnd_UniformPositive` numerator -/
def Rng.uniformPositive (r : Rng) : Nat → Option (Nat × Rng)
  | 0 => none
  | fuel+1 => let (x, r') := r.randomNum; if x = 0 then Rng.uniformPositive r' fuel else some (x, r')

/-- `esl_rnd_Deal` in exact arithmetic: take `j` iff `(n-j)·x/2^32 < m-i` -/
def dealLoop (n m : Nat) : Nat → Nat → Rng → List Nat → Nat → List Nat × Rng
  | _, _, r, acc, 0 => (acc.reverse, r)
  | j, i, r, acc, fuel+1 =>
    if j < n ∧ i < m then
      let (x, r') := r.randomNum
      if (n - j) * x < (m - i) * 2^32 then dealLoop n m (j+1) (i+1) r' (j :: acc) fuel
      else dealLoop n m (j+1) i r' acc fuel
    else (acc.reverse, r)

def Rng.deal (r : Rng) (m n : Nat) : List Nat × Rng := dealLoop n m 0 0 r [] (n+1)

/-! ## ESL_RAND64 -/
structure Rng64 where
  st : St UInt64
  seed : UInt64

instance : Inhabited Rng64 := ⟨⟨⟨#[], 0⟩, 0⟩⟩

def Rng64.create (seed : UInt64) : Rng64 := { st := init P64 seed, seed := seed }
def Rng64.next (r : Rng64) : UInt64 × Rng64 := let (v, s) := MTP.next P64 r.st; (v, { r with st := s })

/-- test hook (see `Rng.pokeRaw`) for the 64-bit generator -/
def Rng64.pokeRaw (r : Rng64) (w : UInt64) : Rng64 :=
  let r1 := if r.st.mti ≥ 312 then (r.next).2 else r
  { r1 with st := { r1.st with mt := r1.st.mt.setIfInBounds r1.st.mti w } }

def rollWord64 (n : Nat) (x : Nat) : Option Nat :=
  let factor := (2^64 - 1) / n
  let u := x / factor
  if u < n then some u else none

def Rng64.roll (r : Rng64) (n : Nat) : Nat → Option (Nat × Rng64)
  | 0 => none
  | fuel+1 =>
    let (x, r') := r.next
    match rollWord64 n x.toNat with
    | some v => some (v, r')
    | none => Rng64.roll r' n fuel

/-- numerators of `esl_rand64_double` (/2^53), `_closed` (/(2^53-1)), `_open` ((2k+1)/2^53) -/
def dblNum (x : UInt64) : Nat := (x >>> 11).toNat
def dblOpenNum (x : UInt64) : Nat := 2 * (x >>> 12).toNat + 1

end EaselModel.Random
