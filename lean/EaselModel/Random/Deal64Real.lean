import EaselModel.Random.Deal64Thm
import Mathlib.Analysis.SpecialFunctions.Log.Basic
/-! `ℝ` with the real `exp`, `log` satisfies the three oracle facts used by the `esl_rand64_Deal` structure theorem;
    and the witness that the facts (and the tests the code performs) do not exclude `Vprime = 1` at the final step. -/
namespace EaselModel.Random
open VOps

noncomputable instance realOracles : Oracles ℝ := ⟨Real.exp, Real.log⟩

theorem realOracleOK : OracleOK ℝ :=
  ⟨fun x => (Real.exp_pos x).le, fun _ hx => Real.exp_le_one_iff.2 hx, fun _ h0 h1 => Real.log_nonpos h0 h1⟩

section
variable {F : Type} [Field F] [LinearOrder F] [IsStrictOrderedRing F] [FloorRing F] [Oracles F] {σ : Type}

/-- a deal of `m = 1` from `n`: no pass of method D, `deal[0]` is the (clamped) last skip for `Vprime = exp(1/1 · log u)` -/
theorem deal64Core_one (next : σ → UInt64 × σ) (fuel : ℕ) (n : ℤ) (s : σ) :
    deal64Core (F := F) next fuel 1 n s =
      some ([-1 + (d64LastSkip n (Oracles.exp ((1 / ((1 : ℤ) : F)) * Oracles.log (VOps.dbl (next s).1))) + 1)],
            some (Oracles.exp ((1 / ((1 : ℤ) : F)) * Oracles.log (VOps.dbl (next s).1))), (next s).2) := by
  simp [deal64Core, d64Main, d64Init, v_powU]

/-- the clamp `if (S >= n) S = n-1` is live: if the `exp(minv·log u)` oracle returns exactly 1 (binary64 does, see the
    regression case `deal64-vprime-one`), `floor(n·Vprime) = n` and the dealt value is `n-1` instead of the out-of-range `n` -/
theorem deal64Core_one_vprime_one (next : σ → UInt64 × σ) (fuel : ℕ) (n : ℤ) (s : σ)
    (h1 : Oracles.exp ((1 / ((1 : ℤ) : F)) * Oracles.log (VOps.dbl (next s).1 : F)) = 1) :
    ⌊(n : F) * 1⌋ = n ∧ deal64Core (F := F) next fuel 1 n s = some ([n - 1], some 1, (next s).2) := by
  rw [deal64Core_one, h1]
  simp [d64LastSkip]
  omega
end

end EaselModel.Random
