/-! # Generic Mersenne-Twister table refill (C09)

`spec`  : the reference stream as a recurrence on an infinite word sequence
          `x (k+N) = g (x k) (x (k+1)) (x (k+M))`.
`fillUpTo`: the *in-place* sequential update of a length-`N` table that `mersenne_fill_table`
          and `mt64_fill_table` perform (table as a function `Nat → α`).
`fill_correct`: one in-place refill turns block `j` of the reference stream into block `j+1`,
          for every word type, twist `g` and `0 < M < N`.
Array bridge: `fillA` is the executable version on `Array α`; `fillA_toFn` relates the two. -/
namespace EaselModel.MTP
variable {α : Type} (g : α → α → α → α)   -- g (t[z]) (t[z+1]) (t[z+M]) = new t[z]
variable (N M : Nat)

/-- reference stream: x (k+N) = g (x k) (x (k+1)) (x (k+M)), given the first N values -/
def spec (hM : 0 < M ∧ M < N ∧ 2 ≤ N) (init : Nat → α) (k : Nat) : α :=
  if h : k < N then init k else
    g (spec hM init (k - N)) (spec hM init (k - N + 1)) (spec hM init (k - N + M))
termination_by k
decreasing_by all_goals omega

def upd (t : Nat → α) (i : Nat) (v : α) : Nat → α := fun j => if j = i then v else t j

def step (t : Nat → α) (z : Nat) : Nat → α :=
  upd t z (g (t z) (t ((z+1) % N)) (t ((z+M) % N)))

def fillUpTo (t : Nat → α) : Nat → (Nat → α)
  | 0 => t
  | z+1 => step g N M (fillUpTo t z) z

theorem fill_inv (hM : 0 < M ∧ M < N ∧ 2 ≤ N) (init t : Nat → α) (j : Nat)
    (ht : ∀ i, i < N → t i = spec g N M hM init (N*j + i)) :
    ∀ z, z ≤ N → ∀ i, i < N →
      fillUpTo g N M t z i = if i < z then spec g N M hM init (N*(j+1) + i) else spec g N M hM init (N*j + i) := by
  intro z
  induction z with
  | zero => intro _ i hi; simp [fillUpTo, ht i hi]
  | succ z ih =>
    intro hz i hi
    have ihz := ih (by omega)
    simp only [fillUpTo, step, upd]
    by_cases hiz : i = z
    · subst hiz
      simp only [↓reduceIte, show i < i + 1 by omega]
      rw [spec.eq_1 (k := N*(j+1)+i)]
      have hk : ¬ (N*(j+1)+i < N) := by
        have : N * (j+1) = N*j + N := by rw [Nat.mul_succ]
        omega
      simp only [hk, ↓reduceDIte]
      have e0 : N*(j+1)+i - N = N*j + i := by rw [Nat.mul_succ]; omega
      rw [e0]
      have a1 : fillUpTo g N M t i i = spec g N M hM init (N*j + i) := by
        rw [ihz i hi]; simp
      have a2 : fillUpTo g N M t i ((i+1) % N) = spec g N M hM init (N*j + i + 1) := by
        by_cases h1 : i + 1 < N
        · rw [Nat.mod_eq_of_lt h1, ihz (i+1) h1]
          have : ¬ (i + 1 < i) := by omega
          simp [this, Nat.add_assoc]
        · have h1' : i + 1 = N := by omega
          rw [h1', Nat.mod_self, ihz 0 (by omega)]
          have hpos : 0 < i := by omega
          simp only [hpos, ↓reduceIte]
          congr 1; rw [Nat.mul_succ]; omega
      have a3 : fillUpTo g N M t i ((i+M) % N) = spec g N M hM init (N*j + i + M) := by
        by_cases h2 : i + M < N
        · rw [Nat.mod_eq_of_lt h2, ihz (i+M) h2]
          have : ¬ (i + M < i) := by omega
          simp [this, Nat.add_assoc]
        · have hm : (i + M) % N = i + M - N := by
            rw [Nat.mod_eq_sub_mod (by omega), Nat.mod_eq_of_lt (by omega)]
          rw [hm, ihz (i+M-N) (by omega)]
          have : i + M - N < i := by omega
          simp only [this, ↓reduceIte]
          congr 1; rw [Nat.mul_succ]; omega
      rw [a1, a2, a3]
    · simp only [hiz, ↓reduceIte]
      rw [ihz i hi]
      by_cases h : i < z
      · simp [h, show i < z + 1 by omega]
      · simp [h, show ¬ i < z + 1 by omega]

theorem fill_correct (hM : 0 < M ∧ M < N ∧ 2 ≤ N) (init t : Nat → α) (j : Nat)
    (ht : ∀ i, i < N → t i = spec g N M hM init (N*j + i)) :
    ∀ i, i < N → fillUpTo g N M t N i = spec g N M hM init (N*(j+1) + i) := by
  intro i hi
  have := fill_inv g N M hM init t j ht N (Nat.le_refl _) i hi
  simpa [hi] using this

/-! ## Array bridge -/
variable [Inhabited α]

def toFn (a : Array α) : Nat → α := fun i => a.getD i default

/-- executable step; `i1 z`, `iM z` are the index expressions the C code uses in its three loops -/
def stepA (i1 iM : Nat → Nat) (a : Array α) (z : Nat) : Array α :=
  a.setIfInBounds z (g (a.getD z default) (a.getD (i1 z) default) (a.getD (iM z) default))

def fillA (i1 iM : Nat → Nat) (a : Array α) : Array α :=
  (List.range N).foldl (stepA g i1 iM) a

theorem toFn_set (a : Array α) (z : Nat) (v : α) (hz : z < a.size) :
    toFn (a.setIfInBounds z v) = upd (toFn a) z v := by
  funext j
  simp only [toFn, upd, Array.getD_eq_getD_getElem?, Array.getElem?_setIfInBounds]
  by_cases h : j = z
  · subst h; simp [hz]
  · have : ¬ z = j := fun e => h e.symm
    simp [h, this]

theorem size_stepA (i1 iM : Nat → Nat) (a : Array α) (z : Nat) : (stepA g i1 iM a z).size = a.size := by
  simp [stepA]

theorem foldl_range_succ {β : Type} (f : β → Nat → β) (b : β) (n : Nat) :
    (List.range (n+1)).foldl f b = f ((List.range n).foldl f b) n := by
  simp [List.range_succ, List.foldl_append]

theorem fillA_prefix (i1 iM : Nat → Nat) (hi1 : ∀ z, z < N → i1 z = (z+1) % N) (hiM : ∀ z, z < N → iM z = (z+M) % N)
    (a : Array α) (ha : a.size = N) :
    ∀ n, n ≤ N → ((List.range n).foldl (stepA g i1 iM) a).size = N ∧
      toFn ((List.range n).foldl (stepA g i1 iM) a) = fillUpTo g N M (toFn a) n := by
  intro n
  induction n with
  | zero => intro _; simp [fillUpTo, ha]
  | succ n ih =>
    intro hn
    obtain ⟨hs, hf⟩ := ih (by omega)
    rw [foldl_range_succ]
    refine ⟨by rw [size_stepA]; exact hs, ?_⟩
    simp only [fillUpTo, step]
    rw [stepA, toFn_set _ _ _ (by omega), hf, hi1 n (by omega), hiM n (by omega)]
    have e : ∀ (b : Array α) (k : Nat), b.getD k default = toFn b k := fun _ _ => rfl
    simp only [e, hf]

theorem fillA_toFn (i1 iM : Nat → Nat) (hi1 : ∀ z, z < N → i1 z = (z+1) % N) (hiM : ∀ z, z < N → iM z = (z+M) % N)
    (a : Array α) (ha : a.size = N) :
    (fillA g N i1 iM a).size = N ∧ toFn (fillA g N i1 iM a) = fillUpTo g N M (toFn a) N :=
  fillA_prefix g N M i1 iM hi1 hiM a ha N (Nat.le_refl _)

end EaselModel.MTP

/-! ## Generic generator: seeding by iteration, draw = refill-if-exhausted then temper -/
namespace EaselModel.MTP
variable {α : Type} [Inhabited α]

/-- value at position `z+i` of the seeding recurrence, given value `x` at position `z`; `f z x` = value at `z+1` -/
def iterFrom (f : Nat → α → α) (z : Nat) (x : α) : Nat → α
  | 0 => x
  | i+1 => iterFrom f (z+1) (f z x) i

def iterList (f : Nat → α → α) : Nat → Nat → α → List α
  | 0, _, _ => []
  | n+1, z, x => x :: iterList f n (z+1) (f z x)

theorem iterList_length (f : Nat → α → α) (n z : Nat) (x : α) : (iterList f n z x).length = n := by
  induction n generalizing z x with
  | zero => rfl
  | succ n ih => simp [iterList, ih]

theorem iterList_getD (f : Nat → α → α) (n z : Nat) (x : α) (i : Nat) (hi : i < n) :
    (iterList f n z x).getD i default = iterFrom f z x i := by
  induction n generalizing z x i with
  | zero => omega
  | succ n ih =>
    cases i with
    | zero => simp [iterList, iterFrom]
    | succ i => simp only [iterList, List.getD_cons_succ, iterFrom]; exact ih _ _ _ (by omega)

structure Params (α : Type) where
  N : Nat
  M : Nat
  hM : 0 < M ∧ M < N ∧ 2 ≤ N
  g : α → α → α → α
  temper : α → α
  seedf : Nat → α → α         -- seeding recurrence: value at z+1 from value at z
  i1 : Nat → Nat              -- index expressions as the C loops write them
  iM : Nat → Nat
  hi1 : ∀ z, z < N → i1 z = (z+1) % N
  hiM : ∀ z, z < N → iM z = (z+M) % N

structure St (α : Type) where
  mt : Array α
  mti : Nat

variable (P : Params α)

def seedTable (seed : α) : Array α := (iterList P.seedf P.N 0 seed).toArray
def refill (a : Array α) : Array α := fillA P.g P.N P.i1 P.iM a
/-- `esl_randomness_Init` / `esl_rand64_Init` for a non-zero seed: seed the table, refill once -/
def init (seed : α) : St α := { mt := refill P (seedTable P seed), mti := 0 }
/-- `mersenne_twister` / `esl_rand64` -/
def next (s : St α) : α × St α :=
  let s' : St α := if s.mti ≥ P.N then { mt := refill P s.mt, mti := 0 } else s
  (P.temper (s'.mt.getD s'.mti default), { s' with mti := s'.mti + 1 })

def draws (s : St α) : Nat → List α × St α
  | 0 => ([], s)
  | k+1 => let (x, s1) := next P s; let (xs, s2) := draws s1 k; (x :: xs, s2)

/-- the reference word sequence for a seed -/
def ref (seed : α) (k : Nat) : α := spec P.g P.N P.M P.hM (iterFrom P.seedf 0 seed) k

/-- invariant: the table holds block `j+1` of the reference sequence and `k` words have been drawn -/
def Inv (seed : α) (s : St α) (k : Nat) : Prop :=
  ∃ j, s.mt.size = P.N ∧ (∀ i, i < P.N → toFn s.mt i = ref P seed (P.N*(j+1) + i)) ∧
    s.mti ≤ P.N ∧ P.N*j + s.mti = k

theorem seedTable_spec (seed : α) :
    (seedTable P seed).size = P.N ∧ ∀ i, i < P.N → toFn (seedTable P seed) i = ref P seed (P.N*0 + i) := by
  refine ⟨by simp [seedTable, iterList_length], ?_⟩
  intro i hi
  simp only [toFn, seedTable, ref, Nat.mul_zero, Nat.zero_add]
  rw [spec.eq_1]
  simp only [hi, ↓reduceDIte]
  rw [← iterList_getD P.seedf P.N 0 seed i hi]
  simp [Array.getD_eq_getD_getElem?, List.getD_eq_getElem?_getD]

theorem refill_spec (seed : α) (a : Array α) (j : Nat) (ha : a.size = P.N)
    (h : ∀ i, i < P.N → toFn a i = ref P seed (P.N*j + i)) :
    (refill P a).size = P.N ∧ ∀ i, i < P.N → toFn (refill P a) i = ref P seed (P.N*(j+1) + i) := by
  obtain ⟨hs, hf⟩ := fillA_toFn P.g P.N P.M P.i1 P.iM P.hi1 P.hiM a ha
  refine ⟨hs, ?_⟩
  intro i hi
  unfold refill
  rw [hf]
  exact fill_correct P.g P.N P.M P.hM _ (toFn a) j h i hi

theorem init_inv (seed : α) : Inv P seed (init P seed) 0 := by
  obtain ⟨hs, hf⟩ := seedTable_spec P seed
  obtain ⟨hs', hf'⟩ := refill_spec P seed _ 0 hs hf
  exact ⟨0, hs', hf', Nat.zero_le _, by simp [init]⟩

theorem next_spec (seed : α) (s : St α) (k : Nat) (h : Inv P seed s k) :
    (next P s).1 = P.temper (ref P seed (P.N + k)) ∧ Inv P seed (next P s).2 (k+1) := by
  obtain ⟨j, hsz, hblk, hle, hk⟩ := h
  have hN : 2 ≤ P.N := P.hM.2.2
  have m1 : P.N * (j+1) = P.N * j + P.N := Nat.mul_succ _ _
  have m2 : P.N * (j+1+1) = P.N * j + P.N + P.N := by rw [Nat.mul_succ, Nat.mul_succ]
  by_cases hfull : s.mti ≥ P.N
  · have hmti : s.mti = P.N := by omega
    obtain ⟨hs', hf'⟩ := refill_spec P seed s.mt (j+1) hsz hblk
    have e : (next P s) = (P.temper ((refill P s.mt).getD 0 default), { mt := refill P s.mt, mti := 1 }) := by
      simp [next, hfull]
    rw [e]
    refine ⟨?_, ⟨j+1, hs', hf', by show 1 ≤ P.N; omega, ?_⟩⟩
    · have := hf' 0 (by omega)
      simp only [toFn] at this
      show P.temper ((refill P s.mt).getD 0 default) = _
      rw [this]
      have : P.N * (j + 1 + 1) + 0 = P.N + k := by omega
      rw [this]
    · show P.N * (j+1) + 1 = k + 1
      omega
  · have hlt : s.mti < P.N := by omega
    have e : (next P s) = (P.temper (s.mt.getD s.mti default), { s with mti := s.mti + 1 }) := by
      simp [next, hfull]
    rw [e]
    refine ⟨?_, ⟨j, hsz, hblk, by show s.mti + 1 ≤ P.N; omega, by show P.N * j + (s.mti + 1) = k + 1; omega⟩⟩
    have := hblk s.mti hlt
    simp only [toFn] at this
    show P.temper (s.mt.getD s.mti default) = _
    rw [this]
    have : P.N * (j + 1) + s.mti = P.N + k := by omega
    rw [this]

/-- the `k` words drawn after `Init seed`, across any number of refills, are the tempered reference words
    `N, N+1, …` — for every seed and every `k`. -/
theorem draws_spec (seed : α) (s : St α) (k0 : Nat) (h : Inv P seed s k0) (k : Nat) :
    (draws P s k).1 = (List.range k).map (fun i => P.temper (ref P seed (P.N + k0 + i))) ∧
    Inv P seed (draws P s k).2 (k0 + k) := by
  induction k generalizing s k0 with
  | zero => simp [draws]; exact h
  | succ k ih =>
    obtain ⟨h1, h2⟩ := next_spec P seed s k0 h
    obtain ⟨h3, h4⟩ := ih (next P s).2 (k0+1) h2
    simp only [draws]
    refine ⟨?_, ?_⟩
    · rw [h3, h1, List.range_succ_eq_map]
      simp only [List.map_cons, List.map_map, Nat.add_zero, List.cons.injEq, true_and]
      apply List.map_congr_left
      intro i _
      simp only [Function.comp]
      congr 2; omega
    · have : k0 + (k+1) = k0 + 1 + k := by omega
      rw [this]; exact h4

theorem stream_eq_spec (seed : α) (k : Nat) :
    (draws P (init P seed) k).1 = (List.range k).map (fun i => P.temper (ref P seed (P.N + i))) := by
  have := (draws_spec P seed (init P seed) 0 (init_inv P seed) k).1
  simpa using this

end EaselModel.MTP
