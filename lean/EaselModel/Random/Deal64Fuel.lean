import EaselModel.Random.Deal64
/-! Fuel of the rejection loops of `esl_rand64_Deal` (C09): a result obtained with some fuel is the result for every larger
    fuel — the model returns the FIRST accepted draw of each loop whenever one exists, independently of the bound.
    Core Lean only; holds for every numeric vocabulary (in particular binary64). -/
namespace EaselModel.Random
open VOps
variable {σ F : Type} [VOps F]

theorem d64FindS_mono (next : σ → UInt64 × σ) (nreal minv : F) (qu1 : Int) (f : Nat) (V : F) (s : σ) (r)
    (h : d64FindS next nreal minv qu1 V s f = some r) : d64FindS next nreal minv qu1 V s (f+1) = some r := by
  induction f generalizing V s with
  | zero => simp [d64FindS] at h
  | succ f ih =>
    rw [d64FindS] at h ⊢
    simp only [] at h ⊢
    split
    · rename_i hc; rw [if_pos hc] at h; exact h
    · rename_i hc; rw [if_neg hc] at h; exact ih _ _ h

theorem d64Accept_mono (next : σ → UInt64 × σ) (c : D64Ctx F) (f : Nat) (V : F) (s : σ) (r)
    (h : d64Accept next c V s f = some r) : d64Accept next c V s (f+1) = some r := by
  induction f generalizing V s with
  | zero => simp [d64Accept] at h
  | succ f ih =>
    rw [d64Accept] at h ⊢
    cases hfind : d64FindS next c.nreal c.minv c.qu1 V s (f+1) with
    | none => rw [hfind] at h; cases h
    | some x =>
      rw [hfind] at h
      rw [d64FindS_mono next c.nreal c.minv c.qu1 (f+1) V s x hfind]
      obtain ⟨X, S, s1⟩ := x
      simp only [] at h ⊢
      split
      · rename_i hc; rw [if_pos hc] at h; exact h
      · rename_i hc
        rw [if_neg hc] at h
        split
        · rename_i hc2; rw [if_pos hc2] at h; exact h
        · rename_i hc2; rw [if_neg hc2] at h; exact ih _ _ h

theorem d64Main_mono (next : σ → UInt64 × σ) (f k : Nat) (st : D64St F) (s : σ) (r)
    (h : d64Main next f k st s = some r) : d64Main next (f+1) k st s = some r := by
  induction k generalizing st s with
  | zero => simpa [d64Main] using h
  | succ k ih =>
    rw [d64Main] at h ⊢
    split
    · rename_i hc
      rw [if_pos hc] at h
      cases hacc : d64Accept next st.ctx st.V s f with
      | none => rw [hacc] at h; cases h
      | some x =>
        rw [hacc] at h
        rw [d64Accept_mono next st.ctx f st.V s x hacc]
        obtain ⟨S, V1, s1⟩ := x
        exact ih _ _ h
    · rename_i hc; rw [if_neg hc] at h; exact h

theorem vaSkip_mono (U : F) (f : Nat) (quot top nreal : F) (S : Int) (r)
    (h : vaSkip U f quot top nreal S = some r) : vaSkip U (f+1) quot top nreal S = some r := by
  induction f generalizing quot top nreal S with
  | zero => simp [vaSkip] at h
  | succ f ih =>
    rw [vaSkip] at h ⊢
    split
    · rename_i hc; rw [if_pos hc] at h; exact ih _ _ _ _ h
    · rename_i hc; rw [if_neg hc] at h; exact h

theorem vaLoop_mono (next : σ → UInt64 × σ) (f k : Nat) (m j : Int) (top nreal : F) (acc : List Int) (s : σ) (r)
    (h : vaLoop next f k m j top nreal acc s = some r) : vaLoop next (f+1) k m j top nreal acc s = some r := by
  induction k generalizing m j top nreal acc s with
  | zero => simp [vaLoop] at h
  | succ k ih =>
    rw [vaLoop] at h ⊢
    split
    · rename_i hc
      rw [if_pos hc] at h
      simp only [] at h ⊢
      cases hsk : vaSkip (dblOpen (next s).1 : F) f (div top nreal) top nreal 0 with
      | none => rw [hsk] at h; cases h
      | some x =>
        rw [hsk] at h
        rw [vaSkip_mono _ f _ _ _ _ x hsk]
        obtain ⟨S, top', nreal'⟩ := x
        exact ih _ _ _ _ _ _ h
    · rename_i hc; rw [if_neg hc] at h; exact h

theorem deal64Core_mono_succ (next : σ → UInt64 × σ) (f : Nat) (m n : Int) (s : σ) (r : List Int × Option F × σ)
    (h : deal64Core next f m n s = some r) : deal64Core next (f+1) m n s = some r := by
  simp only [deal64Core] at h ⊢
  cases hmain : d64Main next f m.toNat (d64Init m n (next s).1 : D64St F) (next s).2 with
  | none => rw [hmain] at h; cases h
  | some x =>
    rw [hmain] at h
    rw [d64Main_mono next f _ _ _ x hmain]
    obtain ⟨st, s1⟩ := x
    simp only [] at h ⊢
    split
    · rename_i hc
      rw [if_pos hc] at h
      cases hva : vitterA (F := F) next f st.m st.n st.j st.acc s1 with
      | none => rw [hva] at h; cases h
      | some y =>
        rw [hva] at h
        have : vitterA (F := F) next (f+1) st.m st.n st.j st.acc s1 = some y := vaLoop_mono next f _ _ _ _ _ _ _ y hva
        rw [this]; exact h
    · rename_i hc; rw [if_neg hc] at h; exact h

/-- more fuel never changes an answer: the model returns the first accepted draw of every rejection loop -/
theorem deal64Core_mono (next : σ → UInt64 × σ) (f f' : Nat) (hf : f ≤ f') (m n : Int) (s : σ)
    (r : List Int × Option F × σ) (h : deal64Core next f m n s = some r) : deal64Core next f' m n s = some r := by
  induction f' with
  | zero => have : f = 0 := by omega
            subst this; exact h
  | succ f' ih =>
    by_cases hff : f = f' + 1
    · subst hff; exact h
    · exact deal64Core_mono_succ next f' m n s r (ih (by omega))

end EaselModel.Random
