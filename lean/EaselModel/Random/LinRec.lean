import Mathlib.Algebra.Polynomial.AlgebraMap
import Mathlib.Algebra.Polynomial.Degree.Lemmas
import Mathlib.Data.ZMod.Basic
import Mathlib.Algebra.CharP.Two
/-! # A run of ones in a bit of a Mersenne-Twister stream is bounded (C09, termination of the rejection loops)

Pure algebra over `ZMod 2`, no generator in sight.  Bit sequences are functions `ℕ → ZMod 2`, the shift `E` acts on them, and
`(ZMod 2)[X]` acts through `aeval E` (a commutative family of operators).

`window`: if `p(E) b = 0` and `p(1) = 1` then `b` cannot be `1` on `natDegree p + 1` consecutive positions (evaluate
`p(E) b` at the start of the run: it is the sum of the coefficients of `p`, i.e. `p(1)`).

`BitSystem`: the shape of the MT recurrence written bit by bit — `w` bit sequences `s 0 … s W` with
`(E^N + E^M) s j = E^(δ j) s (j+1) + A j • E s 0` and `(E^N + E^M) s W = A W • E s 0` — has the common annihilator
`X^(d W) * ψ`, `ψ(1) = A W` (`1 + 1 = 0` kills every other term), `natDegree ψ ≤ N·(W+1)`.  No irreducibility, no
primitivity, no period is used: only that the recurrence is linear and its top twist coefficient is 1. -/
namespace EaselModel.Random.LinRec
open Polynomial

abbrev Sq := ℕ → ZMod 2

/-- the shift on sequences -/
def E : Module.End (ZMod 2) Sq where
  toFun c := fun k => c (k + 1)
  map_add' := by intros; rfl
  map_smul' := by intros; rfl

theorem E_pow_apply (i : ℕ) (c : Sq) (k : ℕ) : (E ^ i) c k = c (k + i) := by
  induction i generalizing c k with
  | zero => simp
  | succ i ih =>
    rw [pow_succ, Module.End.mul_apply, ih]
    show c (k + i + 1) = c (k + (i + 1))
    rfl

/-- `p(E)` -/
noncomputable abbrev T (p : (ZMod 2)[X]) : Module.End (ZMod 2) Sq := aeval E p

theorem T_apply (p : (ZMod 2)[X]) (n : ℕ) (h : p.natDegree < n) (c : Sq) (k : ℕ) :
    T p c k = ∑ i ∈ Finset.range n, p.coeff i * c (k + i) := by
  have e : T p = ∑ i ∈ Finset.range n, p.coeff i • E ^ i := by
    unfold T
    conv_lhs => rw [as_sum_range' p n h]
    simp only [map_sum, aeval_monomial]
    apply Finset.sum_congr rfl
    intro i _
    rw [Algebra.smul_def]
  rw [e]
  simp only [LinearMap.sum_apply, Finset.sum_apply, LinearMap.smul_apply, Pi.smul_apply, E_pow_apply, smul_eq_mul]

theorem zmod2_ne_zero (x : ZMod 2) (h : x ≠ 0) : x = 1 := by
  revert x; decide

/-- a sequence annihilated by `p(E)` with `p(1) = 1` has a zero in every window of `D + 1 ≥ natDegree p + 1` positions -/
theorem window (p : (ZMod 2)[X]) (b : Sq) (hann : T p b = 0) (h1 : p.eval 1 = 1) (D : ℕ) (hD : p.natDegree ≤ D) (k : ℕ) :
    ∃ i, i ≤ D ∧ b (k + i) = 0 := by
  by_contra hno
  have hone : ∀ i, i ≤ D → b (k + i) = 1 := by
    intro i hi
    apply zmod2_ne_zero
    intro h0
    exact hno ⟨i, hi, h0⟩
  have h0 : T p b k = 0 := by rw [hann]; rfl
  rw [T_apply p (D + 1) (by omega) b k] at h0
  have h2 : p.eval 1 = ∑ i ∈ Finset.range (D + 1), p.coeff i * 1 ^ i := eval_eq_sum_range' (by omega) 1
  have h3 : ∑ i ∈ Finset.range (D + 1), p.coeff i * b (k + i) = ∑ i ∈ Finset.range (D + 1), p.coeff i * 1 ^ i := by
    apply Finset.sum_congr rfl
    intro i hi
    rw [hone i (by have := Finset.mem_range.mp hi; omega), one_pow]
  rw [h3, ← h2, h1] at h0
  exact one_ne_zero h0

theorem sq_add_self (x : Sq) : x + x = 0 := by
  funext k
  exact CharTwo.add_self_eq_zero (x k)

theorem T_mul_apply (p q : (ZMod 2)[X]) (c : Sq) : T (p * q) c = T p (T q c) := by
  unfold T; rw [map_mul]; rfl

theorem T_comm (p q : (ZMod 2)[X]) (c : Sq) : T p (T q c) = T q (T p c) := by
  rw [← T_mul_apply, ← T_mul_apply, mul_comm]

theorem T_X_pow (i : ℕ) (c : Sq) : T (X ^ i) c = (E ^ i) c := by
  unfold T; rw [map_pow, aeval_X]

theorem T_C_mul (a : ZMod 2) (p : (ZMod 2)[X]) (c : Sq) : T (C a * p) c = a • T p c := by
  unfold T; rw [map_mul, aeval_C]; rfl

/-! ## The Mersenne-Twister shape -/
section system
variable (N M : ℕ) (A : ℕ → ZMod 2) (d : ℕ → ℕ)

/-- `X^N + X^M` -/
noncomputable def Pp : (ZMod 2)[X] := X ^ N + X ^ M

/-- `R 0 = 1`, `R (j+1) = (X^N + X^M) R j + A j X^(d j + 1)`; `ψ = R (W+1)` -/
noncomputable def R : ℕ → (ZMod 2)[X]
  | 0 => 1
  | j + 1 => Pp N M * R j + C (A j) * X ^ (d j + 1)

theorem Pp_eval_one : (Pp N M).eval 1 = 0 := by
  simp only [Pp, eval_add, eval_pow, eval_X, one_pow]
  exact CharTwo.add_self_eq_zero 1

theorem R_eval_one (j : ℕ) : (R N M A d (j + 1)).eval 1 = A j := by
  simp [R, Pp_eval_one]

theorem Pp_natDegree (hM : M ≤ N) : (Pp N M).natDegree ≤ N := by
  unfold Pp
  refine (natDegree_add_le _ _).trans ?_
  simp only [natDegree_X_pow]
  omega

theorem R_natDegree (hM : M ≤ N) (hN : 1 ≤ N) (hd : ∀ j, d j ≤ j) (j : ℕ) : (R N M A d j).natDegree ≤ N * j := by
  induction j with
  | zero => simp [R]
  | succ j ih =>
    simp only [R]
    refine (natDegree_add_le _ _).trans ?_
    apply max_le
    · refine natDegree_mul_le.trans ?_
      have := Pp_natDegree N M hM
      rw [Nat.mul_succ]; omega
    · refine (natDegree_C_mul_X_pow_le _ _).trans ?_
      have := hd j
      rw [Nat.mul_succ]
      have : j ≤ N * j := Nat.le_mul_of_pos_left j hN
      omega

variable (s : ℕ → Sq) (W : ℕ)

/-- the MT recurrence, bit by bit: bit `j` of the new word is bit `j` of the word `M` places on, plus bit `j+1` of the combined
    word (taken `d (j+1) - d j ∈ {0,1}` places on), plus `A j` times bit 0 of the next word; the top bit has no `j+1` -/
structure BitSystem : Prop where
  d0 : d 0 = 0
  mono : ∀ j, d j ≤ d (j + 1)
  rel : ∀ j, j < W → T (Pp N M) (s j) = (E ^ (d (j + 1) - d j)) (s (j + 1)) + A j • E (s 0)
  top : T (Pp N M) (s W) = A W • E (s 0)

variable {N M A d s W}

theorem BitSystem.shifted (h : BitSystem N M A d s W) (j : ℕ) (hj : j ≤ W) : (E ^ d j) (s j) = T (R N M A d j) (s 0) := by
  induction j with
  | zero => simp [h.d0, R, T]
  | succ j ih =>
    have ih := ih (by omega)
    have hr := h.rel j (by omega)
    have e1 : (E ^ (d (j + 1) - d j)) (s (j + 1)) = T (Pp N M) (s j) + A j • E (s 0) := by
      rw [hr, add_assoc, sq_add_self, add_zero]
    have e2 : (E ^ d (j + 1)) (s (j + 1)) = (E ^ d j) ((E ^ (d (j + 1) - d j)) (s (j + 1))) := by
      rw [← Module.End.mul_apply, ← pow_add]
      congr 2
      have := h.mono j
      omega
    rw [e2, e1, map_add, map_smul]
    simp only [R]
    show _ = T (Pp N M * R N M A d j + C (A j) * X ^ (d j + 1)) (s 0)
    have : T (Pp N M * R N M A d j + C (A j) * X ^ (d j + 1)) (s 0)
        = T (Pp N M * R N M A d j) (s 0) + T (C (A j) * X ^ (d j + 1)) (s 0) := by
      unfold T; rw [map_add]; rfl
    rw [this, T_mul_apply, ← ih, T_C_mul, T_X_pow, ← T_X_pow (d j), T_comm, T_X_pow]
    congr 2

theorem BitSystem.psi_zero (h : BitSystem N M A d s W) : T (R N M A d (W + 1)) (s 0) = 0 := by
  have hs := h.shifted W (Nat.le_refl _)
  simp only [R]
  have : T (Pp N M * R N M A d W + C (A W) * X ^ (d W + 1)) (s 0)
      = T (Pp N M * R N M A d W) (s 0) + T (C (A W) * X ^ (d W + 1)) (s 0) := by
    unfold T; rw [map_add]; rfl
  rw [this, T_mul_apply, ← hs, T_C_mul, ← T_X_pow (d W), T_comm, h.top, map_smul, T_X_pow, T_X_pow, pow_succ,
    Module.End.mul_apply]
  exact sq_add_self _

/-- every bit sequence of the system is annihilated by `X^D ψ` for every `D ≥ d j` -/
theorem BitSystem.annihilated (h : BitSystem N M A d s W) (j : ℕ) (hj : j ≤ W) (D : ℕ) (hD : d j ≤ D) :
    T (X ^ D * R N M A d (W + 1)) (s j) = 0 := by
  have e : (X : (ZMod 2)[X]) ^ D * R N M A d (W + 1) = (X ^ (D - d j) * R N M A d (W + 1)) * X ^ d j := by
    rw [mul_assoc, mul_comm (R N M A d (W + 1)), ← mul_assoc, ← pow_add]
    congr 2; omega
  rw [e, T_mul_apply, T_X_pow, h.shifted j hj, ← T_mul_apply, mul_assoc, mul_comm (R N M A d (W + 1)), ← mul_assoc,
    T_mul_apply, h.psi_zero, map_zero]

end system
end EaselModel.Random.LinRec
