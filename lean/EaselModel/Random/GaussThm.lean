import EaselModel.Random.SamplersThm
import Mathlib.Tactic.Ring
import Mathlib.Tactic.FieldSimp
/-! # `esl_rnd_Gaussian` never indexes its tables out of bounds (C09)

Over `ℝ`, for every source state, all fuels and ANY tables of the declared sizes `a[32] d[31] t[31] h[31]`:
the model's bounds-checked table reads never yield `fault`.  The tail loop `S110: aa += d[i-1]; i += 1` starts at `i = 6`
and doubles `u` until `u ≥ 1`; because a uniform deviate is `x/2^32` with `x ≥ 1`, `u ≥ 2^-26` on entry and `i` ends
at most at 31 — the bound is tight (reached for `x = 1`), it is what `ESL_DASSERT1(( i <= 31 ))` asserts. -/
namespace EaselModel.Random
open SOps
variable {σ : Type}

theorem SRes.bind_fault {α β : Type} {x : SRes α} {f : α → SRes β} (h : x.bind f = .fault) :
    x = .fault ∨ ∃ a, x = .ok a ∧ f a = .fault := by
  cases x with
  | ok a => exact Or.inr ⟨a, rfl, h⟩
  | nofuel => cases h
  | fault => exact Or.inl rfl

theorem uniPos_no_fault (next : σ → UInt32 × σ) (s : σ) (f : ℕ) : (uniPos (F := ℝ) next s f) ≠ .fault := by
  induction f generalizing s with
  | zero => simp [uniPos]
  | succ f ih =>
    simp only [uniPos]
    split
    · exact ih _
    · simp

/-- a positive uniform deviate is `x/2^32` with `1 ≤ x < 2^32` -/
theorem uniPos_grain (next : σ → UInt32 × σ) (s : σ) (f : ℕ) (u : ℝ) (s' : σ)
    (h : uniPos next s f = .ok (u, s')) : ∃ x : ℕ, 1 ≤ x ∧ x < 4294967296 ∧ u = (x : ℝ) / 4294967296 := by
  induction f generalizing s with
  | zero => simp [uniPos] at h
  | succ f ih =>
    simp only [uniPos] at h
    split at h
    · exact ih _ h
    · rename_i hne
      simp only [SRes.ok.injEq, Prod.mk.injEq] at h
      refine ⟨(next s).1.toNat, ?_, UInt32.toNat_lt _, ?_⟩
      · rcases Nat.eq_zero_or_pos (next s).1.toNat with h0 | h0
        · exact absurd (UInt32.toNat_inj.1 (by simpa using h0)) hne
        · exact h0
      · rw [← h.1]; simp [uni]

theorem tget_ok (T : Array ℝ) (i : ℕ) (hi : i < T.size) : tget T i ≠ .fault := by
  simp only [tget]
  rw [Array.getElem?_eq_getElem hi]
  simp

structure TablesOK (T : GaussTables ℝ) : Prop where
  a : T.a.size = 32
  d : T.d.size = 31
  t : T.t.size = 31
  h : T.h.size = 31

theorem tget_cases (T : Array ℝ) (i : ℕ) (hi : i < T.size) : ∃ x, tget T i = .ok x := by
  simp only [tget]
  rw [Array.getElem?_eq_getElem hi]
  exact ⟨_, rfl⟩

theorem gaussCenter_no_fault (next : σ → UInt32 × σ) (fu : ℕ) (T : GaussTables ℝ) (hT : TablesOK T) (i : ℕ)
    (hi1 : 1 ≤ i) (hi : i ≤ 31) (aa : ℝ) (ph : GPhase ℝ) (s : σ) (f : ℕ) :
    gaussCenter next fu T i aa ph s f ≠ .fault := by
  induction f generalizing ph s with
  | zero => cases ph <;> simp [gaussCenter]
  | succ f ih =>
    obtain ⟨ti, hti⟩ := tget_cases T.t (i-1) (by rw [hT.t]; omega)
    obtain ⟨ai, hai⟩ := tget_cases T.a i (by rw [hT.a]; omega)
    obtain ⟨hi', hhi⟩ := tget_cases T.h (i-1) (by rw [hT.h]; omega)
    cases ph with
    | p40 ustar =>
      simp only [gaussCenter, hti, SRes.bind]
      split
      · intro hf
        rcases SRes.bind_fault hf with h1 | ⟨us, _, h2⟩
        · exact uniPos_no_fault _ _ _ h1
        · simp only [hai, SRes.bind] at h2
          exact ih _ _ h2
      · simp [hhi, SRes.bind]
    | p80 ustar tt w =>
      simp only [gaussCenter]
      split
      · simp
      · intro hf
        rcases SRes.bind_fault hf with h1 | ⟨us, _, h2⟩
        · exact uniPos_no_fault _ _ _ h1
        · rcases SRes.bind_fault h2 with h3 | ⟨us2, _, h4⟩
          · exact uniPos_no_fault _ _ _ h3
          · split at h4
            · exact ih _ _ h4
            · exact ih _ _ h4

theorem gaussTail_no_fault (next : σ → UInt32 × σ) (fu : ℕ) (T : GaussTables ℝ) (hT : TablesOK T) (i : ℕ)
    (hi1 : 1 ≤ i) (hi : i ≤ 31) (aa : ℝ) (ph : TPhase ℝ) (s : σ) (f : ℕ) :
    gaussTail next fu T i aa ph s f ≠ .fault := by
  induction f generalizing ph s with
  | zero => cases ph <;> simp [gaussTail]
  | succ f ih =>
    obtain ⟨di, hdi⟩ := tget_cases T.d (i-1) (by rw [hT.d]; omega)
    cases ph with
    | p140 u =>
      simp only [gaussTail, hdi, SRes.bind]
      exact ih _ _
    | p160 tt w =>
      simp only [gaussTail]
      intro hf
      rcases SRes.bind_fault hf with h1 | ⟨us, _, h2⟩
      · exact uniPos_no_fault _ _ _ h1
      · split at h2
        · cases h2
        · rcases SRes.bind_fault h2 with h3 | ⟨us2, _, h4⟩
          · exact uniPos_no_fault _ _ _ h3
          · split at h4
            · exact ih _ _ h4
            · rcases SRes.bind_fault h4 with h5 | ⟨us3, _, h6⟩
              · exact uniPos_no_fault _ _ _ h5
              · exact ih _ _ h6

/-- the doubling loop: from `(u, i)` with `6 ≤ i ≤ 31` and `u·2^(32-i) ≥ 1` it never reads past `d[30]` and ends with
    `i ≤ 31` -/
theorem gaussTailIdx_spec (T : GaussTables ℝ) (hT : TablesOK T) (u aa : ℝ) (i f : ℕ) (hi6 : 1 ≤ i) (hi : i ≤ 31)
    (hu : 1 ≤ u * 2 ^ (32 - i)) :
    gaussTailIdx T u aa i f ≠ .fault ∧
    ∀ u' aa' i', gaussTailIdx T u aa i f = .ok (u', aa', i') → i ≤ i' ∧ i' ≤ 31 := by
  induction f generalizing u aa i with
  | zero => simp [gaussTailIdx]
  | succ f ih =>
    simp only [gaussTailIdx, r_add, r_lt, r_one, r_sub]
    split
    · rename_i hlt
      have hi30 : i ≤ 30 := by
        by_contra hc
        have hi31 : i = 31 := by omega
        rw [hi31] at hu
        norm_num at hu
        linarith
      obtain ⟨di, hdi⟩ := tget_cases T.d (i-1) (by rw [hT.d]; omega)
      have hpow : (2:ℝ) ^ (32 - i) = 2 * 2 ^ (32 - (i+1)) := by
        have : 32 - i = (32 - (i+1)) + 1 := by omega
        rw [this, pow_succ]; ring
      have hu' : 1 ≤ (u + u) * 2 ^ (32 - (i+1)) := by
        rw [hpow] at hu; linarith
      obtain ⟨q1, q2⟩ := ih (u + u) (aa + di) (i+1) (by omega) (by omega) hu'
      simp only [hdi, SRes.bind]
      exact ⟨q1, fun u' aa' i' h => by have := q2 u' aa' i' h; omega⟩
    · refine ⟨by simp, fun u' aa' i' h => ?_⟩
      simp only [SRes.ok.injEq, Prod.mk.injEq] at h
      omega

/-- the scaled first deviate `u = 32·(2u0 - s)` lies in `[2^-26, 32]` because `u0 = x/2^32` with `1 ≤ x < 2^32` -/
theorem gaussScale_bounds (x : ℕ) (hx1 : 1 ≤ x) (hx2 : x < 4294967296) :
    1 ≤ gaussScale ((x : ℝ) / 4294967296) * 2 ^ 26 ∧ gaussScale ((x : ℝ) / 4294967296) ≤ 32 := by
  have hxr : (1:ℝ) ≤ (x:ℝ) := by exact_mod_cast hx1
  have hxr2 : (x:ℝ) + 1 ≤ 4294967296 := by exact_mod_cast (show x + 1 ≤ 4294967296 by omega)
  simp only [gaussScale, gaussSgn, r_mul, r_add, r_sub, r_ofNat, r_lt, SOps.half, r_div, r_one, r_zero, Nat.cast_ofNat,
    Nat.cast_one]
  split
  · rename_i hgt
    have hx3 : (2147483648:ℝ) < (x:ℝ) := by
      rw [lt_div_iff₀ (by norm_num)] at hgt; linarith
    have hx4 : (2147483649:ℝ) ≤ (x:ℝ) := by
      have : 2147483648 < x := by exact_mod_cast hx3
      exact_mod_cast (show 2147483649 ≤ x by omega)
    constructor
    · have : (32:ℝ) * ((x:ℝ) / 4294967296 + ((x:ℝ) / 4294967296 - 1)) * 2 ^ 26 = (x:ℝ) - 2147483648 := by ring
      rw [this]; linarith
    · have : (x:ℝ) / 4294967296 < 1 := by rw [div_lt_one (by norm_num)]; linarith
      linarith
  · rename_i hle
    have hx3 : (x:ℝ) / 4294967296 ≤ 1 / 2 := le_of_not_gt hle
    constructor
    · have : (32:ℝ) * ((x:ℝ) / 4294967296 + ((x:ℝ) / 4294967296 - 0)) * 2 ^ 26 = (x:ℝ) := by ring
      rw [this]; exact hxr
    · linarith

theorem gaussIndex_le (u : ℝ) (hu : u ≤ 32) : gaussIndex u ≤ 31 := by
  have hi32 : ⌊u⌋₊ ≤ 32 := Nat.floor_le_of_le (by simpa using hu)
  simp only [gaussIndex, r_toNat]
  split <;> omega

theorem gaussBody_no_fault (next : σ → UInt32 × σ) (fu fuel : ℕ) (T : GaussTables ℝ) (hT : TablesOK T) (sgn u : ℝ)
    (i : ℕ) (hi : i ≤ 31) (hu : 1 ≤ u * 2 ^ 26) (s : σ) : gaussBody next fu fuel T sgn u i s ≠ .fault := by
  simp only [gaussBody]
  intro h2
  split at h2
  · obtain ⟨a31, ha31⟩ := tget_cases T.a 31 (by rw [hT.a]; omega)
    simp only [ha31, SRes.bind] at h2
    obtain ⟨q1, q2⟩ := gaussTailIdx_spec T hT u a31 6 fuel (by omega) (by omega) (by simpa using hu)
    rcases SRes.bind_fault h2 with h3 | ⟨⟨u', aa', i'⟩, hidx, h4⟩
    · exact q1 h3
    · obtain ⟨hlo, hhi⟩ := q2 u' aa' i' hidx
      rcases SRes.bind_fault h4 with h5 | ⟨ws, _, h6⟩
      · exact gaussTail_no_fault next fu T hT i' (by omega) hhi aa' _ _ _ h5
      · cases h6
  · obtain ⟨aa, haa⟩ := tget_cases T.a (i-1) (by rw [hT.a]; omega)
    simp only [haa, SRes.bind] at h2
    rcases SRes.bind_fault h2 with h5 | ⟨ws, _, h6⟩
    · exact gaussCenter_no_fault next fu T hT i (by omega) hi aa _ _ _ h5
    · cases h6

/-- `esl_rnd_Gaussian`: no table access out of bounds, for every source state, both fuels, any tables of the declared sizes -/
theorem gaussSnorm_no_fault (next : σ → UInt32 × σ) (fu fuel : ℕ) (T : GaussTables ℝ) (hT : TablesOK T) (s : σ) :
    gaussSnorm next fu fuel T s ≠ .fault := by
  simp only [gaussSnorm]
  intro hf
  rcases SRes.bind_fault hf with h1 | ⟨⟨u0, s1⟩, hu0, h2⟩
  · exact uniPos_no_fault _ _ _ h1
  obtain ⟨x, hx1, hx2, hxe⟩ := uniPos_grain next s fu u0 s1 hu0
  subst hxe
  obtain ⟨b1, b2⟩ := gaussScale_bounds x hx1 hx2
  exact gaussBody_no_fault next fu fuel T hT _ _ _ (gaussIndex_le _ b2) b1 s1 h2

theorem gaussian_no_fault (next : σ → UInt32 × σ) (fu fuel : ℕ) (T : GaussTables ℝ) (hT : TablesOK T) (mean sd : ℝ)
    (s : σ) : gaussian next fu fuel T mean sd s ≠ .fault := by
  simp only [gaussian]
  intro hf
  rcases SRes.bind_fault hf with h1 | ⟨r, _, h2⟩
  · exact gaussSnorm_no_fault next fu fuel T hT s h1
  · cases h2

end EaselModel.Random
