import EaselModel.Random.RollTerm
import EaselModel.Random.Consts
/-! # `esl_rnd_UniformPositive` terminates for every non-zero seed within 624 draws (C09)

A full table of zero words is a fixed point of the MT19937 refill, but it is not reachable: the refill recurrence can be run
backwards on a run of 624 zero words (`twist32_zero`: a zero new word over a zero `mt[z+M]` forces the top bit of `mt[z]` and the
low 31 bits of `mt[z+1]` to zero), so a zero run anywhere would reach back to the seeding block, where `x 1 = 69069·seed ≠ 0`.
Tempering is injective at 0 (`temper32_eq_zero`), so 624 consecutive outputs are never all `0.0`.
The legacy LCG: after `x = 0` comes `x = 1`. -/
namespace EaselModel.Random
open EaselModel.MTP

theorem u32_eq_zero_of_bits (x : UInt32) (h : ∀ i, i < 32 → x.toNat.testBit i = false) : x = 0 := by
  rw [← UInt32.toNat_inj]
  apply Nat.eq_of_testBit_eq
  intro i
  by_cases hi : i < 32
  · rw [h i hi]; simp
  · rw [tb_hi32 x i (by omega)]; simp

theorem twist32_zero (a b : UInt32) (h : twist32 a b 0 = 0) :
    a.toNat.testBit 31 = false ∧ ∀ i, i < 31 → b.toNat.testBit i = false := by
  have hb : ∀ j, (twist32 a b 0).toNat.testBit j = false := by intro j; rw [h]; simp
  have h31 := hb 31
  rw [twist32_testBit] at h31
  have eA : Nat.testBit 0x9908b0df 31 = true := by decide
  have b0 : b.toNat.testBit 0 = false := by simpa [eA] using h31
  have hy : ∀ j, ((a.toNat.testBit (j+1) && decide (j+1 = 31)) || (b.toNat.testBit (j+1) && decide (j+1 < 31))) = false := by
    intro j
    have := hb j
    rw [twist32_testBit, b0] at this
    simpa using this
  refine ⟨?_, ?_⟩
  · have := hy 30
    simpa using this
  · intro i hi
    cases i with
    | zero => exact b0
    | succ i =>
      have := hy i
      have h1 : ¬ (i + 1 = 31) := by omega
      simpa [h1, hi] using this

/-- a run of 624 zero words can be extended one place to the left (for positions `a ≥ 1`) -/
theorem zero_run_back (seed : UInt32) (a : Nat) (ha : 1 ≤ a) (h : ∀ i, 1 ≤ i → i ≤ 624 → ref P32 seed (a + i) = 0) :
    ref P32 seed a = 0 := by
  have e1 := ref32_step seed a
  rw [h 624 (by omega) (by omega), h 1 (by omega) (by omega), h 397 (by omega) (by omega)] at e1
  obtain ⟨htop, _⟩ := twist32_zero _ _ e1.symm
  obtain ⟨a', rfl⟩ : ∃ a', a = a' + 1 := ⟨a - 1, by omega⟩
  have e2 := ref32_step seed a'
  have i1 : a' + 624 = a' + 1 + 623 := by omega
  have i2 : a' + 397 = a' + 1 + 396 := by omega
  rw [i1, i2, h 623 (by omega) (by omega), h 396 (by omega) (by omega)] at e2
  obtain ⟨_, hlow⟩ := twist32_zero _ _ e2.symm
  apply u32_eq_zero_of_bits
  intro i hi
  by_cases h31 : i = 31
  · subst h31; exact htop
  · exact hlow i (by omega)

theorem zero_run_to_one (seed : UInt32) (a : Nat) (h : ∀ i, i < 624 → ref P32 seed (a + 1 + i) = 0) :
    ∀ i, i < 624 → ref P32 seed (1 + i) = 0 := by
  induction a with
  | zero => simpa using h
  | succ a ih =>
    apply ih
    intro i hi
    cases i with
    | zero =>
      apply zero_run_back seed (a + 1) (by omega)
      intro j hj1 hj2
      have := h (j - 1) (by omega)
      have e : a + 1 + 1 + (j - 1) = a + 1 + j := by omega
      rw [e] at this; exact this
    | succ i =>
      have := h i (by omega)
      have e : a + 1 + 1 + i = a + 1 + (i + 1) := by omega
      rw [e] at this; exact this

theorem ref32_one (seed : UInt32) : ref P32 seed 1 = 69069 * seed := by
  unfold ref
  rw [spec.eq_1]
  have : (1 : Nat) < P32.N := by show 1 < 624; omega
  simp only [this, ↓reduceDIte]
  rfl

theorem mul69069_inj (x : UInt32) (h : 69069 * x = 0) : x = 0 := by
  have e : (2783094533 : UInt32) * 69069 = 1 := by decide
  calc x = (2783094533 * 69069) * x := by rw [e, UInt32.one_mul]
    _ = 2783094533 * (69069 * x) := by rw [UInt32.mul_assoc]
    _ = 0 := by rw [h, UInt32.mul_zero]

/-- **every non-zero seed**: among any 624 consecutive words of the reference sequence from position 1 on, one is non-zero -/
theorem mt32_nonzero_word_within (seed : UInt32) (hs : seed ≠ 0) (a : Nat) : ∃ i, i < 624 ∧ ref P32 seed (a + 1 + i) ≠ 0 := by
  by_contra hno
  have hall : ∀ i, i < 624 → ref P32 seed (a + 1 + i) = 0 := by
    intro i hi
    by_contra hne
    exact hno ⟨i, hi, hne⟩
  have h1 := zero_run_to_one seed a hall 0 (by omega)
  rw [ref32_one] at h1
  exact hs (mul69069_inj seed h1)

/-! ## tempering is injective at 0 -/
theorem stR32_eq_zero (k : UInt32) (m x : UInt32) (hk : 1 ≤ k.toNat % 32) (h : stR32 k m x = 0) : x = 0 := by
  have hb : ∀ j, x.toNat.testBit j = (x.toNat.testBit (k.toNat % 32 + j) && m.toNat.testBit j) := by
    intro j
    have : (stR32 k m x).toNat.testBit j = false := by rw [h]; simp
    simp only [stR32, UInt32.toNat_xor, Nat.testBit_xor, UInt32.toNat_and, Nat.testBit_and, UInt32.toNat_shiftRight,
      Nat.testBit_shiftRight] at this
    revert this
    cases x.toNat.testBit j <;> cases (x.toNat.testBit (k.toNat % 32 + j) && m.toNat.testBit j) <;> simp
  apply u32_eq_zero_of_bits
  have key : ∀ n j, 32 ≤ j + n → x.toNat.testBit j = false := by
    intro n
    induction n with
    | zero => intro j hj; exact tb_hi32 x j (by omega)
    | succ n ih =>
      intro j hj
      rw [hb j, ih (k.toNat % 32 + j) (by omega)]
      rfl
  intro i _
  exact key 32 i (by omega)

theorem stL32_eq_zero (k : UInt32) (m x : UInt32) (hk : 1 ≤ k.toNat % 32) (h : stL32 k m x = 0) : x = 0 := by
  have hb : ∀ j, j < 32 → x.toNat.testBit j = ((decide (j ≥ k.toNat % 32) && x.toNat.testBit (j - k.toNat % 32)) && m.toNat.testBit j) := by
    intro j hj
    have : (stL32 k m x).toNat.testBit j = false := by rw [h]; simp
    simp only [stL32, UInt32.toNat_xor, Nat.testBit_xor, UInt32.toNat_and, Nat.testBit_and, UInt32.toNat_shiftLeft,
      Nat.testBit_mod_two_pow, Nat.testBit_shiftLeft, hj, decide_true, Bool.true_and] at this
    revert this
    cases x.toNat.testBit j <;> cases ((decide (j ≥ k.toNat % 32) && x.toNat.testBit (j - k.toNat % 32)) && m.toNat.testBit j) <;> simp
  apply u32_eq_zero_of_bits
  intro i
  induction i using Nat.strong_induction_on with
  | _ i ih =>
    intro hi
    rw [hb i hi]
    by_cases hge : i ≥ k.toNat % 32
    · rw [ih (i - k.toNat % 32) (by omega) (by omega)]; simp
    · simp [hge]

theorem temper32_eq_zero (x : UInt32) (h : temper32 x = 0) : x = 0 := by
  rw [temper32_stages] at h
  have h1 := stR32_eq_zero 18 _ _ (by decide) h
  have h2 := stL32_eq_zero 15 _ _ (by decide) h1
  have h3 := stL32_eq_zero 7 _ _ (by decide) h2
  exact stR32_eq_zero 11 _ _ (by decide) h3

/-! ## `esl_rnd_UniformPositive` on a generator state -/
theorem Rng.uniPos_of_nonzero (seed : UInt32) (i : Nat) : ∀ (r : Rng) (k : Nat), r.OnStream seed k →
    temper32 (ref P32 seed (624 + k + i)) ≠ 0 → ∀ fuel, i < fuel → ∃ x r', r.uniformPositive fuel = some (x, r') := by
  induction i with
  | zero =>
    intro r k ⟨hk, hinv⟩ hne fuel hf
    obtain ⟨f, rfl⟩ : ∃ f, fuel = f + 1 := ⟨fuel - 1, by omega⟩
    obtain ⟨h1, _⟩ := next_spec P32 seed r.st k hinv
    have hn : r.next = ((MTP.next P32 r.st).1, { r with st := (MTP.next P32 r.st).2 }) := by simp [Rng.next, hk]
    simp only [Rng.uniformPositive, Rng.randomNum, hn]
    have hx : (MTP.next P32 r.st).1.toNat ≠ 0 := by
      rw [h1]
      intro h0
      apply hne
      rw [← UInt32.toNat_inj]
      exact h0
    simp only [hx, ↓reduceIte]
    exact ⟨_, _, rfl⟩
  | succ i ih =>
    intro r k hs hne fuel hf
    obtain ⟨f, rfl⟩ : ∃ f, fuel = f + 1 := ⟨fuel - 1, by omega⟩
    have hk := hs.1
    have hn : r.next = ((MTP.next P32 r.st).1, { r with st := (MTP.next P32 r.st).2 }) := by simp [Rng.next, hk]
    have hs' := Rng.onStream_next r seed k hs
    rw [hn] at hs'
    simp only [Rng.uniformPositive, Rng.randomNum, hn]
    split
    · apply ih _ (k + 1) hs' _ f (by omega)
      have e : 624 + (k + 1) + i = 624 + k + (i + 1) := by omega
      rw [e]; exact hne
    · exact ⟨_, _, rfl⟩

theorem Rng.uniPos_terminates_onStream (r : Rng) (seed : UInt32) (hs : seed ≠ 0) (k : Nat) (h : r.OnStream seed k) (fuel : Nat)
    (hf : 624 ≤ fuel) : ∃ x r', r.uniformPositive fuel = some (x, r') := by
  obtain ⟨i, hi, hne⟩ := mt32_nonzero_word_within seed hs (623 + k)
  apply Rng.uniPos_of_nonzero seed i r k h _ fuel (by omega)
  intro h0
  apply hne
  have e : 623 + k + 1 + i = 624 + k + i := by omega
  rw [e]
  exact temper32_eq_zero _ h0

/-- the legacy LCG: at most one rejected draw (`x = 0` is followed by `x = 1`) -/
theorem Rng.uniPos_terminates_fast (r : Rng) (hk : r.kind = .fast) (fuel : Nat) (hf : 2 ≤ fuel) :
    ∃ x r', r.uniformPositive fuel = some (x, r') := by
  obtain ⟨f, rfl⟩ : ∃ f, fuel = f + 2 := ⟨fuel - 2, by omega⟩
  have hn : ∀ q : Rng, q.kind = .fast → q.next = (q.x * 69069 + 1, { q with x := q.x * 69069 + 1 }) := by
    intro q hq; simp [Rng.next, hq]
  simp only [Rng.uniformPositive, Rng.randomNum, hn r hk]
  split
  · rename_i h0
    have hx : r.x * 69069 + 1 = 0 := by rw [← UInt32.toNat_inj]; exact h0
    rw [hn _ (by exact hk)]
    simp only [hx]
    have : ((0 : UInt32) * 69069 + 1).toNat ≠ 0 := by decide
    simp only [this, ↓reduceIte]
    exact ⟨_, _, rfl⟩
  · exact ⟨_, _, rfl⟩

theorem Rng.onStream_uniformPositive (seed : UInt32) (fuel : Nat) : ∀ (r : Rng) (k x : Nat) (r' : Rng), r.OnStream seed k →
    r.uniformPositive fuel = some (x, r') → ∃ k', k < k' ∧ k' ≤ k + fuel ∧ r'.OnStream seed k' := by
  induction fuel with
  | zero => intro r k x r' _ h; simp [Rng.uniformPositive] at h
  | succ f ih =>
    intro r k x r' hs h
    have hs' := Rng.onStream_next r seed k hs
    have hr : r.randomNum = ((r.next).1.toNat, (r.next).2) := rfl
    simp only [Rng.uniformPositive, hr] at h
    by_cases h0 : r.next.1.toNat = 0
    · rw [if_pos h0] at h
      obtain ⟨k', h1, h2, h3⟩ := ih _ (k + 1) x r' hs' h
      exact ⟨k', by omega, by omega, h3⟩
    · rw [if_neg h0] at h
      cases h; exact ⟨k + 1, by omega, by omega, hs'⟩

/-- `esl_rnd_UniformPositive` as a total function of the stream: zero outputs `k … k+i-1`, non-zero output `k+i` ⇒ the call returns
    that output's numerator and leaves the generator `i+1` draws further, for every fuel `> i` -/
theorem Rng.uniPos_first (seed : UInt32) (i : Nat) : ∀ (r : Rng) (k : Nat), r.OnStream seed k →
    (∀ j, j < i → (temper32 (ref P32 seed (624 + k + j))).toNat = 0) → (temper32 (ref P32 seed (624 + k + i))).toNat ≠ 0 →
    ∀ fuel, i < fuel →
      r.uniformPositive fuel = some ((temper32 (ref P32 seed (624 + k + i))).toNat, (r.draws (i + 1)).2) := by
  induction i with
  | zero =>
    intro r k ⟨hk, hinv⟩ _ hne fuel hf
    obtain ⟨f, rfl⟩ : ∃ f, fuel = f + 1 := ⟨fuel - 1, by omega⟩
    obtain ⟨h1, _⟩ := next_spec P32 seed r.st k hinv
    have hn : r.next = ((MTP.next P32 r.st).1, { r with st := (MTP.next P32 r.st).2 }) := by simp [Rng.next, hk]
    have hr : r.randomNum = ((r.next).1.toNat, (r.next).2) := rfl
    have hx : (MTP.next P32 r.st).1.toNat ≠ 0 := by rw [h1]; exact hne
    simp only [Rng.uniformPositive, hr, hn, hx, ↓reduceIte, Rng.draws]
    rw [h1]
    rfl
  | succ i ih =>
    intro r k hs hz hne fuel hf
    obtain ⟨f, rfl⟩ : ∃ f, fuel = f + 1 := ⟨fuel - 1, by omega⟩
    obtain ⟨h1, _⟩ := next_spec P32 seed r.st k hs.2
    have hn : r.next = ((MTP.next P32 r.st).1, { r with st := (MTP.next P32 r.st).2 }) := by simp [Rng.next, hs.1]
    have hr : r.randomNum = ((r.next).1.toNat, (r.next).2) := rfl
    have hs' := Rng.onStream_next r seed k hs
    rw [hn] at hs'
    have h0 : (MTP.next P32 r.st).1.toNat = 0 := by rw [h1]; exact hz 0 (by omega)
    have e : ∀ j, 624 + (k + 1) + j = 624 + k + (j + 1) := by intro j; omega
    have := ih _ (k + 1) hs' (by intro j hj; rw [e]; exact hz (j + 1) (by omega)) (by rw [e]; exact hne) f (by omega)
    simp only [Rng.uniformPositive, hr, hn, h0, ↓reduceIte]
    rw [this, e]
    conv_rhs => rw [Rng.draws]
    simp only [hn]

/-- every non-zero seed, every position: there is a FIRST non-zero output among the next 624 -/
theorem first_nonzero32 (seed : UInt32) (hs : seed ≠ 0) (k : Nat) :
    ∃ i, i < 624 ∧ (∀ j, j < i → (temper32 (ref P32 seed (624 + k + j))).toNat = 0) ∧
      (temper32 (ref P32 seed (624 + k + i))).toNat ≠ 0 := by
  have hex : ∃ i, (temper32 (ref P32 seed (624 + k + i))).toNat ≠ 0 := by
    obtain ⟨i, _, hne⟩ := mt32_nonzero_word_within seed hs (623 + k)
    refine ⟨i, fun h0 => hne ?_⟩
    have e : 623 + k + 1 + i = 624 + k + i := by omega
    rw [e]
    exact temper32_eq_zero _ (by rw [← UInt32.toNat_inj]; exact h0)
  have hlt : Nat.find hex < 624 := by
    obtain ⟨i, hi, hne⟩ := mt32_nonzero_word_within seed hs (623 + k)
    refine Nat.lt_of_le_of_lt (Nat.find_min' hex (fun h0 => hne ?_)) hi
    have e : 623 + k + 1 + i = 624 + k + i := by omega
    rw [e]
    exact temper32_eq_zero _ (by rw [← UInt32.toNat_inj]; exact h0)
  refine ⟨Nat.find hex, hlt, ?_, Nat.find_spec hex⟩
  intro j hj
  have := Nat.find_min hex hj
  simpa using this

end EaselModel.Random
