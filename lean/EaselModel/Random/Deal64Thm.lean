import EaselModel.Random.Deal64
import Mathlib.Algebra.Order.Floor.Ring
import Mathlib.Algebra.Order.Round
import Mathlib.Algebra.Order.Field.Basic
import Mathlib.Tactic.Linarith
import Mathlib.Tactic.Ring
import Mathlib.Tactic.FieldSimp
import Mathlib.Tactic.Positivity
import Mathlib.Tactic.NormNum
/-! # Structure theorems for `esl_rand64_Deal` / `vitter_a` over an arbitrary ordered field (C09)

`F` is any linearly ordered field with a floor; the transcendental functions are ARBITRARY oracles (`Oracles F`)
about which only three facts are assumed (`OracleOK`): `0 ≤ exp x`, `x ≤ 0 → exp x ≤ 1`, `0 ≤ u ≤ 1 → log u ≤ 0`.
Everything else the proofs use is a test the code itself performs (`S < qu1`, `Vprime <= 1.`, `quot > U`). -/
set_option linter.unusedSectionVars false
namespace EaselModel.Random
open VOps

class Oracles (F : Type) where
  exp : F → F
  log : F → F

section
variable {F : Type} [Field F] [LinearOrder F] [IsStrictOrderedRing F] [FloorRing F] [Oracles F]

instance fieldVOps : VOps F where
  ofInt i := (i : F)
  add := (· + ·)
  sub := (· - ·)
  mul := (· * ·)
  div := (· / ·)
  neg := fun x => -x
  lt := fun a b => decide (a < b)
  le := fun a b => decide (a ≤ b)
  floorI := fun x => ⌊x⌋
  round := fun x => ((round x : ℤ) : F)
  exp := Oracles.exp
  log := Oracles.log

structure OracleOK (F : Type) [Field F] [LinearOrder F] [IsStrictOrderedRing F] [FloorRing F] [Oracles F] : Prop where
  exp_nonneg : ∀ x : F, 0 ≤ Oracles.exp x
  exp_le_one : ∀ x : F, x ≤ 0 → Oracles.exp x ≤ 1
  log_nonpos : ∀ u : F, 0 ≤ u → u ≤ 1 → Oracles.log u ≤ 0

@[simp] theorem v_ofInt (i : ℤ) : (VOps.ofInt i : F) = (i : F) := rfl
@[simp] theorem v_add (a b : F) : VOps.add a b = a + b := rfl
@[simp] theorem v_sub (a b : F) : VOps.sub a b = a - b := rfl
@[simp] theorem v_mul (a b : F) : VOps.mul a b = a * b := rfl
@[simp] theorem v_div (a b : F) : VOps.div a b = a / b := rfl
@[simp] theorem v_neg (a : F) : VOps.neg a = -a := rfl
@[simp] theorem v_lt (a b : F) : (VOps.lt a b = true) ↔ a < b := by simp [VOps.lt]
@[simp] theorem v_le (a b : F) : (VOps.le a b = true) ↔ a ≤ b := by simp [VOps.le]
@[simp] theorem v_floorI (a : F) : VOps.floorI a = ⌊a⌋ := rfl
@[simp] theorem v_round (a : F) : VOps.round a = ((round a : ℤ) : F) := rfl
@[simp] theorem v_one : (VOps.one : F) = 1 := by simp [VOps.one]
theorem v_powU (a u : F) : VOps.powU a u = Oracles.exp (a * Oracles.log u) := rfl

theorem powU_unit (ok : OracleOK F) (a u : F) (ha : 0 ≤ a) (hu0 : 0 ≤ u) (hu1 : u ≤ 1) :
    0 ≤ (VOps.powU a u : F) ∧ (VOps.powU a u : F) ≤ 1 := by
  rw [v_powU]
  refine ⟨ok.exp_nonneg _, ok.exp_le_one _ ?_⟩
  have := ok.log_nonpos u hu0 hu1
  nlinarith

theorem powU_nonneg (ok : OracleOK F) (a u : F) : 0 ≤ (VOps.powU a u : F) := by
  rw [v_powU]; exact ok.exp_nonneg _

/-! uniform deviates -/
theorem shr11_lt (x : UInt64) : (x >>> 11).toNat < 2^53 := by
  rw [UInt64.toNat_shiftRight]
  have := UInt64.toNat_lt x
  simp only [UInt64.reduceToNat, Nat.reduceMod, Nat.shiftRight_eq_div_pow]
  omega

theorem shr12_lt (x : UInt64) : (x >>> 12).toNat < 2^52 := by
  rw [UInt64.toNat_shiftRight]
  have := UInt64.toNat_lt x
  simp only [UInt64.reduceToNat, Nat.reduceMod, Nat.shiftRight_eq_div_pow]
  omega

theorem dbl_unit (x : UInt64) : 0 ≤ (VOps.dbl x : F) ∧ (VOps.dbl x : F) < 1 := by
  have h := shr11_lt x
  have hk : (((x >>> 11).toNat : ℕ) : F) < 9007199254740992 := by exact_mod_cast h
  have hk0 : (0 : F) ≤ (((x >>> 11).toNat : ℕ) : F) := Nat.cast_nonneg _
  simp only [VOps.dbl, v_mul, v_ofInt, v_div, v_one, Int.cast_natCast, Int.cast_ofNat]
  constructor
  · positivity
  · rw [mul_one_div, div_lt_one (by norm_num)]; exact hk

theorem dblOpen_unit (x : UInt64) : 0 < (VOps.dblOpen x : F) ∧ (VOps.dblOpen x : F) < 1 := by
  have h := shr12_lt x
  have hk : (((x >>> 12).toNat : ℕ) : F) + 1 ≤ 4503599627370496 := by
    have : (x >>> 12).toNat + 1 ≤ 4503599627370496 := by omega
    exact_mod_cast this
  have hk0 : (0 : F) ≤ (((x >>> 12).toNat : ℕ) : F) := Nat.cast_nonneg _
  simp only [VOps.dblOpen, v_mul, v_add, v_ofInt, v_div, v_one, Int.cast_natCast, Int.cast_ofNat]
  constructor
  · positivity
  · rw [mul_one_div, div_lt_one (by norm_num)]; linarith

variable {σ : Type}

/-! method D: the innermost loop -/
theorem d64FindS_spec (ok : OracleOK F) (next : σ → UInt64 × σ) (nreal minv : F) (qu1 : ℤ) (hminv : 0 ≤ minv)
    (fuel : ℕ) (V : F) (s : σ) (hV0 : 0 ≤ V) (hV1 : V ≤ 1) (X : F) (S : ℤ) (s' : σ)
    (h : d64FindS next nreal minv qu1 V s fuel = some (X, S, s')) :
    S < qu1 ∧ S = ⌊X⌋ ∧ ∃ V' : F, 0 ≤ V' ∧ V' ≤ 1 ∧ X = nreal * (-V' + 1) := by
  induction fuel generalizing V s with
  | zero => simp [d64FindS] at h
  | succ fuel ih =>
    simp only [d64FindS] at h
    split at h
    · rename_i hlt
      simp only [Option.some.injEq, Prod.mk.injEq] at h
      obtain ⟨hX, hS, _⟩ := h
      subst hX; subst hS
      exact ⟨hlt, rfl, V, hV0, hV1, by simp⟩
    · have hu := dblOpen_unit (F := F) (next s).1
      obtain ⟨p0, p1⟩ := powU_unit ok minv _ hminv (le_of_lt hu.1) (le_of_lt hu.2)
      exact ih _ _ p0 p1 h

/-! method D: the middle loop (accept/reject of a skip) -/
structure CtxOK (c : D64Ctx F) : Prop where
  n_pos : 1 ≤ c.n
  qu1_pos : 1 ≤ c.qu1
  nreal_eq : c.nreal = (c.n : F)
  qu1real_eq : c.qu1real = (c.qu1 : F)
  minv_nonneg : 0 ≤ c.minv
  mmin1inv_nonneg : 0 ≤ c.mmin1inv

theorem d64Accept_spec (ok : OracleOK F) (next : σ → UInt64 × σ) (c : D64Ctx F) (hc : CtxOK c)
    (fuel : ℕ) (V : F) (s : σ) (hV0 : 0 ≤ V) (hV1 : V ≤ 1) (S : ℤ) (V1 : F) (s' : σ)
    (h : d64Accept next c V s fuel = some (S, V1, s')) :
    0 ≤ S ∧ S < c.qu1 ∧ 0 ≤ V1 ∧ V1 ≤ 1 := by
  induction fuel generalizing V s with
  | zero => simp [d64Accept] at h
  | succ fuel ih =>
    simp only [d64Accept] at h
    cases hfind : d64FindS next c.nreal c.minv c.qu1 V s (fuel+1) with
    | none => rw [hfind] at h; cases h
    | some r =>
      obtain ⟨X, S0, s1⟩ := r
      rw [hfind] at h
      simp only [] at h
      obtain ⟨hlt, hfl, V', hV'0, hV'1, hX⟩ :=
        d64FindS_spec ok next c.nreal c.minv c.qu1 hc.minv_nonneg _ V s hV0 hV1 X S0 s1 hfind
      have hnpos : (0:F) < c.nreal := by
        rw [hc.nreal_eq]; exact_mod_cast (show (0:ℤ) < c.n from by have := hc.n_pos; omega)
      have hX0 : 0 ≤ X := by rw [hX]; exact mul_nonneg hnpos.le (by linarith)
      have hS0 : 0 ≤ S0 := by rw [hfl]; exact Int.floor_nonneg.2 hX0
      have hu3 := dblOpen_unit (F := F) (next (next s1).2).1
      split at h
      · rename_i hle
        simp only [Option.some.injEq, Prod.mk.injEq] at h
        obtain ⟨hS, hV, _⟩ := h
        subst hS; subst hV
        refine ⟨hS0, hlt, ?_, by simpa using hle⟩
        simp only [v_mul, v_add, v_div, v_neg, v_one, v_ofInt]
        have h2 : -X / c.nreal + 1 = V' := by rw [hX]; field_simp; ring
        have h3 : (0:F) < ((-S0 : ℤ) : F) + c.qu1real := by
          rw [hc.qu1real_eq]
          have : (0:ℤ) < -S0 + c.qu1 := by omega
          exact_mod_cast this
        have h4 : (0:F) ≤ c.qu1real := by
          rw [hc.qu1real_eq]; exact_mod_cast (show (0:ℤ) ≤ c.qu1 from by have := hc.qu1_pos; omega)
        rw [h2]
        exact mul_nonneg (mul_nonneg (powU_nonneg ok _ _) hV'0) (div_nonneg h4 h3.le)
      · split at h
        · simp only [Option.some.injEq, Prod.mk.injEq] at h
          obtain ⟨hS, hV, _⟩ := h
          subst hS; subst hV
          obtain ⟨p0, p1⟩ := powU_unit ok c.mmin1inv _ hc.mmin1inv_nonneg (le_of_lt hu3.1) (le_of_lt hu3.2)
          exact ⟨hS0, hlt, p0, p1⟩
        · obtain ⟨p0, p1⟩ := powU_unit ok c.minv _ hc.minv_nonneg (le_of_lt hu3.1) (le_of_lt hu3.2)
          exact ih _ _ p0 p1 h

/-! method D: the outer loop -/
/-- `deal[0..i-1]` (newest first): strictly decreasing, every entry in `0..j` -/
def AccOK (acc : List ℤ) (j : ℤ) : Prop := acc.Pairwise (· > ·) ∧ ∀ a ∈ acc, 0 ≤ a ∧ a ≤ j

theorem AccOK.push {acc : List ℤ} {j : ℤ} (h : AccOK acc j) (hj : -1 ≤ j) (S : ℤ) (hS : 0 ≤ S) :
    AccOK ((j + (S + 1)) :: acc) (j + (S + 1)) := by
  refine ⟨List.pairwise_cons.2 ⟨fun a ha => ?_, h.1⟩, fun a ha => ?_⟩
  · have := h.2 a ha; omega
  · rcases List.mem_cons.1 ha with rfl | ha
    · omega
    · have := h.2 a ha; omega

structure StInv (m0 n0 : ℤ) (st : D64St F) : Prop where
  m_pos : 1 ≤ st.m
  m_le : st.m ≤ st.n
  qu1_eq : st.qu1 = st.n - st.m + 1
  mreal_eq : st.mreal = (st.m : F)
  nreal_eq : st.nreal = (st.n : F)
  qu1real_eq : st.qu1real = (st.qu1 : F)
  minv_nonneg : 0 ≤ st.minv
  V0 : 0 ≤ st.V
  V1 : st.V ≤ 1
  jn : st.j + st.n = n0 - 1
  len : (st.acc.length : ℤ) + st.m = m0
  j_lb : -1 ≤ st.j
  acc_ok : AccOK st.acc st.j

theorem d64Main_spec (ok : OracleOK F) (next : σ → UInt64 × σ) (fuel : ℕ) (m0 n0 : ℤ) (k : ℕ) (st : D64St F) (s : σ)
    (hinv : StInv m0 n0 st) (st' : D64St F) (s' : σ) (h : d64Main next fuel k st s = some (st', s')) :
    StInv m0 n0 st' := by
  induction k generalizing st s with
  | zero =>
    simp only [d64Main] at h
    split at h
    · cases h
    · cases h; exact hinv
  | succ k ih =>
    simp only [d64Main] at h
    split at h
    · rename_i hcond
      have hm2 : 2 ≤ st.m := by omega
      have hmm : (0:F) ≤ 1 / (((-1 : ℤ) : F) + st.mreal) := by
        rw [hinv.mreal_eq]
        apply one_div_nonneg.2
        have : (0:ℤ) ≤ -1 + st.m := by omega
        exact_mod_cast this
      cases hacc : d64Accept next st.ctx st.V s fuel with
      | none => rw [hacc] at h; cases h
      | some r =>
        obtain ⟨S, V1, s1⟩ := r
        rw [hacc] at h
        simp only [] at h
        have hc : CtxOK st.ctx :=
          ⟨by have := hinv.m_pos; have := hinv.m_le; show 1 ≤ st.n; omega,
           by have := hinv.qu1_eq; have := hinv.m_le; show 1 ≤ st.qu1; omega,
           hinv.nreal_eq, hinv.qu1real_eq, hinv.minv_nonneg, by simpa [D64St.ctx] using hmm⟩
        obtain ⟨hS0, hSlt, hV0, hV1⟩ := d64Accept_spec ok next _ hc fuel st.V s hinv.V0 hinv.V1 S V1 s1 hacc
        have hSlt' : S < st.qu1 := hSlt
        apply ih _ _ _ h
        have hq := hinv.qu1_eq
        refine ⟨by show 1 ≤ st.m - 1; omega, by show st.m - 1 ≤ st.n - S - 1; omega,
          by show st.qu1 - S = st.n - S - 1 - (st.m - 1) + 1; omega, ?_, ?_, ?_, hc.mmin1inv_nonneg, hV0, hV1,
          by have := hinv.jn; show st.j + (S + 1) + (st.n - S - 1) = n0 - 1; omega, ?_,
          by have := hinv.j_lb; show -1 ≤ st.j + (S + 1); omega, hinv.acc_ok.push hinv.j_lb S hS0⟩
        · show VOps.sub st.mreal VOps.one = ((st.m - 1 : ℤ) : F)
          rw [hinv.mreal_eq]; simp
        · show VOps.sub (VOps.add st.nreal (VOps.ofInt (-S))) VOps.one = ((st.n - S - 1 : ℤ) : F)
          rw [hinv.nreal_eq]; simp; ring
        · show VOps.add st.qu1real (VOps.ofInt (-S)) = ((st.qu1 - S : ℤ) : F)
          rw [hinv.qu1real_eq]; simp; ring
        · have := hinv.len
          show (((st.j + (S + 1)) :: st.acc).length : ℤ) + (st.m - 1) = m0
          simp only [List.length_cons, Nat.cast_add, Nat.cast_one]; omega
    · cases h; exact hinv

/-! method A (`vitter_a`) -/
theorem vaSkip_spec (U : F) (hU : 0 < U) (fuel : ℕ) (quot top nreal : F) (S t r : ℤ) (ht : 0 ≤ t)
    (htop : top = (t : F)) (hnr : nreal = (r : F)) (hq : t = 0 → quot ≤ 0) (S' : ℤ) (top' nreal' : F)
    (h : vaSkip U fuel quot top nreal S = some (S', top', nreal')) :
    ∃ k : ℤ, 0 ≤ k ∧ k ≤ t ∧ S' = S + k ∧ top' = ((t - k : ℤ) : F) ∧ nreal' = ((r - k : ℤ) : F) := by
  induction fuel generalizing quot top nreal S t r with
  | zero => simp [vaSkip] at h
  | succ fuel ih =>
    simp only [vaSkip] at h
    split at h
    · rename_i hlt
      have hlt' : U < quot := by simpa using hlt
      have ht1 : 1 ≤ t := by
        by_contra hc
        have : t = 0 := by omega
        have := hq this
        linarith
      obtain ⟨k, hk0, hk1, hS, htop', hnr'⟩ := ih _ _ _ (S + 1) (t - 1) (r - 1) (by omega)
        (by rw [htop]; simp) (by rw [hnr]; simp)
        (by
          intro ht0
          have : top - 1 = 0 := by rw [htop]; have : t = 1 := by omega
                                   rw [this]; simp
          simp only [v_div, v_mul, v_sub, v_one]
          rw [this]; simp) h
      exact ⟨k + 1, by omega, by omega, by omega, by rw [htop']; congr 1; omega, by rw [hnr']; congr 1; omega⟩
    · simp only [Option.some.injEq, Prod.mk.injEq] at h
      obtain ⟨h1, h2, h3⟩ := h
      exact ⟨0, le_refl _, ht, by omega, by rw [← h2, htop]; simp, by rw [← h3, hnr]; simp⟩

theorem vaLoop_spec (next : σ → UInt64 × σ) (fuel : ℕ) (m0 n0 : ℤ) (k : ℕ) (m j r : ℤ) (top nreal : F) (acc : List ℤ)
    (s : σ) (hm : 1 ≤ m) (hmr : m ≤ r) (htop : top = ((r - m : ℤ) : F)) (hnr : nreal = (r : F))
    (hjr : j + r = n0 - 1) (hj : -1 ≤ j) (hacc : AccOK acc j) (hlen : (acc.length : ℤ) + m = m0)
    (acc' : List ℤ) (s' : σ) (h : vaLoop next fuel k m j top nreal acc s = some (acc', s')) :
    (acc'.length : ℤ) = m0 ∧ AccOK acc' (n0 - 1) := by
  induction k generalizing m j r top nreal acc s with
  | zero => simp [vaLoop] at h
  | succ k ih =>
    simp only [vaLoop] at h
    split at h
    · rename_i hm2
      have hu := dblOpen_unit (F := F) (next s).1
      cases hsk : vaSkip (VOps.dblOpen (next s).1 : F) fuel (VOps.div top nreal) top nreal 0 with
      | none => rw [hsk] at h; cases h
      | some q =>
        obtain ⟨S, top', nreal'⟩ := q
        rw [hsk] at h
        simp only [] at h
        obtain ⟨d, hd0, hd1, hS, htop', hnr'⟩ := vaSkip_spec _ hu.1 fuel _ top nreal 0 (r - m) r (by omega) htop hnr
          (by intro h0; rw [htop, h0]; simp) S top' nreal' hsk
        have hSd : S = d := by omega
        subst hSd
        refine ih (m - 1) (j + (S + 1)) (r - S - 1) top' _ _ _ (by omega) (by omega)
          (by rw [htop']; congr 1; omega) (by rw [hnr']; simp) (by omega) (by omega) (hacc.push hj S hd0) ?_ h
        simp only [List.length_cons, Nat.cast_add, Nat.cast_one]; omega
    · rename_i hm2
      have hm1 : m = 1 := by omega
      simp only [Option.some.injEq, Prod.mk.injEq] at h
      obtain ⟨h1, _⟩ := h
      have hu := dbl_unit (F := F) (next s).1
      have hr1 : (1:F) ≤ (r : F) := by exact_mod_cast (show (1:ℤ) ≤ r by omega)
      have hS0 : 0 ≤ VOps.floorI (VOps.mul (VOps.round nreal) (VOps.dbl (next s).1 : F)) := by
        simp only [v_floorI, v_mul, v_round, hnr, round_intCast]
        exact Int.floor_nonneg.2 (mul_nonneg (by linarith) hu.1)
      have hS1 : VOps.floorI (VOps.mul (VOps.round nreal) (VOps.dbl (next s).1 : F)) < r := by
        simp only [v_floorI, v_mul, v_round, hnr, round_intCast]
        rw [Int.floor_lt]
        have : (r : F) * (VOps.dbl (next s).1 : F) < (r : F) * 1 := by
          apply mul_lt_mul_of_pos_left hu.2; linarith
        simpa using this
      rw [← h1]
      constructor
      · simp only [List.length_cons, Nat.cast_add, Nat.cast_one]; omega
      · have hp := hacc.push hj _ hS0
        refine ⟨hp.1, fun a ha => ?_⟩
        have := hp.2 a ha
        omega

/-! `esl_rand64_Deal` -/
/-- exactly `m` strictly increasing values in `0..hi` -/
def DealOK (out : List ℤ) (m hi : ℤ) : Prop :=
  (out.length : ℤ) = m ∧ out.Pairwise (· < ·) ∧ ∀ a ∈ out, 0 ≤ a ∧ a ≤ hi

theorem AccOK.dealOK {acc : List ℤ} {j m : ℤ} (h : AccOK acc j) (hl : (acc.length : ℤ) = m) : DealOK acc.reverse m j :=
  ⟨by simpa using hl, by rw [List.pairwise_reverse]; exact h.1, fun a ha => h.2 a (List.mem_reverse.1 ha)⟩

theorem d64LastSkip_range (n : ℤ) (hn : 1 ≤ n) (V : F) (hV0 : 0 ≤ V) : 0 ≤ d64LastSkip n V ∧ d64LastSkip n V < n := by
  have hn1 : (1:F) ≤ (n : F) := by exact_mod_cast hn
  have hS0 : 0 ≤ VOps.floorI (VOps.mul (VOps.ofInt n) V : F) := by
    simp only [v_floorI, v_mul, v_ofInt]
    exact Int.floor_nonneg.2 (mul_nonneg (by linarith) hV0)
  simp only [d64LastSkip]
  split <;> omega

/-- `esl_rand64_Deal`: exactly `m` strictly increasing values in `0..n-1`; the `Vprime` of the final step lies in `[0,1]` -/
theorem deal64Core_spec (ok : OracleOK F) (next : σ → UInt64 × σ) (fuel : ℕ) (m n : ℤ) (hm : 1 ≤ m) (hmn : m ≤ n)
    (s : σ) (out : List ℤ) (v : Option F) (s' : σ) (h : deal64Core next fuel m n s = some (out, v, s')) :
    DealOK out m (n - 1) ∧ (∀ x, v = some x → 0 ≤ x ∧ x ≤ 1) := by
  simp only [deal64Core] at h
  have hu := dbl_unit (F := F) (next s).1
  have hminv : (0:F) ≤ VOps.div VOps.one (VOps.ofInt m) := by
    simp only [v_div, v_one, v_ofInt]
    apply one_div_nonneg.2
    exact_mod_cast (show (0:ℤ) ≤ m by omega)
  obtain ⟨p0, p1⟩ := powU_unit ok _ (VOps.dbl (next s).1 : F) hminv hu.1 (le_of_lt hu.2)
  have hinv0 : StInv m n (d64Init m n (next s).1 : D64St F) :=
    ⟨hm, hmn, rfl, rfl, rfl, by simp [d64Init], hminv, p0, p1, by show (-1 : ℤ) + n = n - 1; omega, by simp [d64Init],
     le_refl _, ⟨List.Pairwise.nil, by simp [d64Init]⟩⟩
  revert h
  generalize (d64Init m n (next s).1 : D64St F) = st0 at hinv0 ⊢
  intro h
  cases hmain : d64Main next fuel m.toNat st0 (next s).2 with
  | none => rw [hmain] at h; cases h
  | some q =>
    obtain ⟨st, s1⟩ := q
    rw [hmain] at h
    simp only [] at h
    have hinv := d64Main_spec ok next fuel m n _ st0 _ hinv0 st s1 hmain
    split at h
    · -- finished by vitter_a
      cases hva : vitterA (F := F) next fuel st.m st.n st.j st.acc s1 with
      | none => rw [hva] at h; cases h
      | some q =>
        obtain ⟨acc, s2⟩ := q
        rw [hva] at h
        simp only [Option.some.injEq, Prod.mk.injEq] at h
        obtain ⟨h1, h2, _⟩ := h
        subst h1; subst h2
        obtain ⟨hl, hok⟩ := vaLoop_spec next fuel m n _ st.m st.j st.n _ _ st.acc s1 hinv.m_pos hinv.m_le rfl rfl
          hinv.jn hinv.j_lb hinv.acc_ok hinv.len acc s2 hva
        exact ⟨hok.dealOK hl, by simp⟩
    · rename_i hm1
      have hm1' : st.m = 1 := by have := hinv.m_pos; omega
      simp only [Option.some.injEq, Prod.mk.injEq] at h
      obtain ⟨h1, h2, _⟩ := h
      subst h1; subst h2
      obtain ⟨hS0, hS1⟩ := d64LastSkip_range st.n (by have := hinv.m_le; omega) st.V hinv.V0
      have hp := hinv.acc_ok.push hinv.j_lb _ hS0
      have hl : ((((st.j + (d64LastSkip st.n st.V + 1)) :: st.acc).length : ℕ) : ℤ) = m := by
        have := hinv.len
        simp only [List.length_cons, Nat.cast_add, Nat.cast_one]; omega
      have hd := hp.dealOK hl
      have hjn := hinv.jn
      refine ⟨⟨hd.1, hd.2.1, fun a ha => ?_⟩, ?_⟩
      · have := hd.2.2 a ha; omega
      · intro x hx; cases hx; exact ⟨hinv.V0, hinv.V1⟩

end
end EaselModel.Random
