import EaselModel.Random.RollTerm
import Mathlib.Order.Basic
/-! # `esl_rnd_Roll` as a TOTAL function of the reference stream (C09)

`roll_first` : on a generator that sits on the stream of `seed` at position `k`, if the reference outputs `k, …, k+i-1` are rejected
and output `k+i` is accepted with value `v`, then the roll returns `v` and leaves the generator exactly `i+1` draws further — for
every fuel `> i`.  With `mt32_top_clear_within` an accepted output exists among the next 19999, so there is a FIRST one: the roll
of `n` is the rejection map `rollWord n` applied to the first accepted word of the MT19937 stream of the seed, for every seed. -/
namespace EaselModel.Random
open EaselModel.MTP

/-- the `j`-th output from stream position `k` of the MT19937 stream of `seed` -/
def out32 (seed : UInt32) (k j : Nat) : Nat := (temper32 (ref P32 seed (624 + k + j))).toNat
def out64 (seed : UInt64) (k j : Nat) : Nat := (temper64 (ref P64 seed (312 + k + j))).toNat

theorem Rng.roll_first (n : Nat) (seed : UInt32) (v : Nat) (i : Nat) : ∀ (r : Rng) (k : Nat), r.OnStream seed k →
    (∀ j, j < i → rollWord n (out32 seed k j) = none) → rollWord n (out32 seed k i) = some v →
    ∀ fuel, i < fuel → r.roll n fuel = some (v, (r.draws (i + 1)).2) := by
  induction i with
  | zero =>
    intro r k ⟨hk, hinv⟩ _ hv fuel hf
    obtain ⟨f, rfl⟩ : ∃ f, fuel = f + 1 := ⟨fuel - 1, by omega⟩
    obtain ⟨h1, _⟩ := next_spec P32 seed r.st k hinv
    have hn : r.next = ((MTP.next P32 r.st).1, { r with st := (MTP.next P32 r.st).2 }) := by simp [Rng.next, hk]
    have hv' : rollWord n (MTP.next P32 r.st).1.toNat = some v := by rw [h1]; exact hv
    simp only [Rng.roll, Rng.draws, hn, hv']
  | succ i ih =>
    intro r k hs hrej hv fuel hf
    obtain ⟨f, rfl⟩ : ∃ f, fuel = f + 1 := ⟨fuel - 1, by omega⟩
    obtain ⟨h1, _⟩ := next_spec P32 seed r.st k hs.2
    have hn : r.next = ((MTP.next P32 r.st).1, { r with st := (MTP.next P32 r.st).2 }) := by simp [Rng.next, hs.1]
    have hs' := Rng.onStream_next r seed k hs
    rw [hn] at hs'
    have h0 : rollWord n (MTP.next P32 r.st).1.toNat = none := by rw [h1]; exact hrej 0 (by omega)
    have e : ∀ j, out32 seed (k + 1) j = out32 seed k (j + 1) := by
      intro j; unfold out32; congr 3; omega
    have := ih _ (k + 1) hs' (by intro j hj; rw [e]; exact hrej (j + 1) (by omega)) (by rw [e]; exact hv) f (by omega)
    simp only [Rng.roll, hn, h0]
    rw [this]
    conv_rhs => rw [Rng.draws]
    simp only [hn]

/-- every seed, every position: there is a FIRST accepted output among the next 19999 -/
theorem first_accepted32 (seed : UInt32) (k n : Nat) (hn : 0 < n) (hn' : n < 2 ^ 32) :
    ∃ i v, i ≤ 19998 ∧ (∀ j, j < i → rollWord n (out32 seed k j) = none) ∧ rollWord n (out32 seed k i) = some v := by
  have hex : ∃ i, (rollWord n (out32 seed k i)).isSome := by
    obtain ⟨i, _, hlt⟩ := mt32_top_clear_within seed (624 + k)
    obtain ⟨v, hv⟩ := rollWord_small n _ hn hn' hlt
    exact ⟨i, by unfold out32; rw [hv]; rfl⟩
  have hle : Nat.find hex ≤ 19998 := by
    obtain ⟨i, hi, hlt⟩ := mt32_top_clear_within seed (624 + k)
    obtain ⟨v, hv⟩ := rollWord_small n _ hn hn' hlt
    exact (Nat.find_min' hex (by unfold out32; rw [hv]; rfl)).trans hi
  obtain ⟨v, hv⟩ := Option.isSome_iff_exists.mp (Nat.find_spec hex)
  refine ⟨Nat.find hex, v, hle, ?_, hv⟩
  intro j hj
  have := Nat.find_min hex hj
  cases h : rollWord n (out32 seed k j) with
  | none => rfl
  | some w => rw [h] at this; simp at this

theorem Rng64.roll_first (n : Nat) (seed : UInt64) (v : Nat) (i : Nat) : ∀ (r : Rng64) (k : Nat), r.OnStream seed k →
    (∀ j, j < i → rollWord64 n (out64 seed k j) = none) → rollWord64 n (out64 seed k i) = some v →
    ∀ fuel, i < fuel → r.roll n fuel = some (v, (r.draws (i + 1)).2) := by
  induction i with
  | zero =>
    intro r k hinv _ hv fuel hf
    obtain ⟨f, rfl⟩ : ∃ f, fuel = f + 1 := ⟨fuel - 1, by omega⟩
    obtain ⟨h1, _⟩ := next_spec P64 seed r.st k hinv
    have hv' : rollWord64 n (MTP.next P64 r.st).1.toNat = some v := by rw [h1]; exact hv
    simp only [Rng64.roll, Rng64.draws, Rng64.next, hv']
  | succ i ih =>
    intro r k hs hrej hv fuel hf
    obtain ⟨f, rfl⟩ : ∃ f, fuel = f + 1 := ⟨fuel - 1, by omega⟩
    obtain ⟨h1, _⟩ := next_spec P64 seed r.st k hs
    have hs' := Rng64.onStream_next r seed k hs
    have h0 : rollWord64 n (MTP.next P64 r.st).1.toNat = none := by rw [h1]; exact hrej 0 (by omega)
    have e : ∀ j, out64 seed (k + 1) j = out64 seed k (j + 1) := by
      intro j; unfold out64; congr 3; omega
    have := ih _ (k + 1) hs' (by intro j hj; rw [e]; exact hrej (j + 1) (by omega)) (by rw [e]; exact hv) f (by omega)
    simp only [Rng64.roll, Rng64.next, h0]
    simp only [Rng64.next] at this
    rw [this]
    conv_rhs => rw [Rng64.draws]
    simp only [Rng64.next]

theorem first_accepted64 (seed : UInt64) (k n : Nat) (hn : 0 < n) (hn' : n < 2 ^ 64) :
    ∃ i v, i ≤ 19998 ∧ (∀ j, j < i → rollWord64 n (out64 seed k j) = none) ∧ rollWord64 n (out64 seed k i) = some v := by
  have hex : ∃ i, (rollWord64 n (out64 seed k i)).isSome := by
    obtain ⟨i, _, hlt⟩ := mt64_top_clear_within seed (312 + k)
    obtain ⟨v, hv⟩ := rollWord64_small n _ hn hn' hlt
    exact ⟨i, by unfold out64; rw [hv]; rfl⟩
  have hle : Nat.find hex ≤ 19998 := by
    obtain ⟨i, hi, hlt⟩ := mt64_top_clear_within seed (312 + k)
    obtain ⟨v, hv⟩ := rollWord64_small n _ hn hn' hlt
    exact (Nat.find_min' hex (by unfold out64; rw [hv]; rfl)).trans hi
  obtain ⟨v, hv⟩ := Option.isSome_iff_exists.mp (Nat.find_spec hex)
  refine ⟨Nat.find hex, v, hle, ?_, hv⟩
  intro j hj
  have := Nat.find_min hex hj
  cases h : rollWord64 n (out64 seed k j) with
  | none => rfl
  | some w => rw [h] at this; simp at this

end EaselModel.Random
