import EaselModel.Random.UniPosTerm
import EaselModel.Random.Samplers
/-! # Samplers built only from `esl_rnd_Roll` / `esl_rnd_UniformPositive` terminate for EVERY seed (C09)

`esl_rnd_mem`, `esl_rnd_floatstring` (rolls only), `esl_rnd_UniformPositive` on any numeric carrier, `gamma_integer` and hence
`esl_rnd_Gamma(a)` for integral `a < 12` and `esl_rnd_Dirichlet` on such `alpha` (in particular `alpha = NULL`): on the Mersenne
Twister their models never answer `nofuel` (nor `fault`) once the fuel is `≥ 19999`, for every (non-zero) seed and any history —
consequences of `Rng.roll_terminates_onStream` / `Rng.uniPos_terminates_onStream`. -/
namespace EaselModel.Random
open SOps

/-- the sampler returns, and leaves the generator on the stream of `seed` -/
def Tot (seed : UInt32) {α : Type} (x : SRes (α × Rng)) : Prop := ∃ a r' k', x = .ok (a, r') ∧ r'.OnStream seed k'

theorem tot_bind (seed : UInt32) {α β : Type} (x : SRes (α × Rng)) (f : α × Rng → SRes (β × Rng)) (hx : Tot seed x)
    (hf : ∀ a r' k', r'.OnStream seed k' → Tot seed (f (a, r'))) : Tot seed (x.bind f) := by
  obtain ⟨a, r', k', rfl, hs⟩ := hx
  exact hf a r' k' hs

theorem tot_ok (seed : UInt32) {α : Type} (a : α) (r : Rng) (k : Nat) (h : r.OnStream seed k) : Tot seed (SRes.ok (a, r)) :=
  ⟨a, r, k, rfl, h⟩

theorem rollS_eq (n : Nat) (f : Nat) : ∀ r : Rng, rollS Rng.next n r f = (match r.roll n f with | some p => SRes.ok p | none => SRes.nofuel) := by
  induction f with
  | zero => intro r; rfl
  | succ f ih =>
    intro r
    simp only [rollS, Rng.roll]
    cases h : rollWord n r.next.1.toNat with
    | some v => rfl
    | none => exact ih _

theorem rollS_tot (seed : UInt32) (r : Rng) (k : Nat) (h : r.OnStream seed k) (n : Nat) (hn : 0 < n) (hn' : n < 2 ^ 32)
    (fu : Nat) (hf : 19999 ≤ fu) : Tot seed (rollS Rng.next n r fu) := by
  obtain ⟨v, r', hr⟩ := Rng.roll_terminates_onStream r seed k h n hn hn' fu hf
  obtain ⟨k', _, _, hs⟩ := Rng.onStream_roll seed n fu r k v r' h hr
  rw [rollS_eq, hr]
  exact ⟨v, r', k', rfl, hs⟩

theorem rndMem_tot (seed : UInt32) (fu : Nat) (hf : 19999 ≤ fu) (n : Nat) : ∀ (acc : List Nat) (r : Rng) (k : Nat),
    r.OnStream seed k → Tot seed (rndMem Rng.next fu n acc r) := by
  induction n with
  | zero => intro acc r k h; exact tot_ok seed _ r k h
  | succ n ih =>
    intro acc r k h
    simp only [rndMem]
    exact tot_bind seed _ _ (rollS_tot seed r k h 256 (by omega) (by norm_num) fu hf) (fun a r' k' hs => ih _ r' k' hs)

theorem rndDigits_tot (seed : UInt32) (fu : Nat) (hf : 19999 ≤ fu) (n : Nat) : ∀ (acc : List Char) (r : Rng) (k : Nat),
    r.OnStream seed k → Tot seed (rndDigits Rng.next fu n acc r) := by
  induction n with
  | zero => intro acc r k h; exact tot_ok seed _ r k h
  | succ n ih =>
    intro acc r k h
    simp only [rndDigits]
    exact tot_bind seed _ _ (rollS_tot seed r k h 10 (by omega) (by norm_num) fu hf) (fun a r' k' hs => ih _ r' k' hs)

theorem floatString_tot (seed : UInt32) (fu : Nat) (hf : 19999 ≤ fu) (r : Rng) (k : Nat) (h : r.OnStream seed k) :
    Tot seed (floatString Rng.next fu r) := by
  have R : ∀ (n : Nat), 0 < n → n < 2 ^ 32 → ∀ (r : Rng) (k : Nat), r.OnStream seed k → Tot seed (rollS Rng.next n r fu) :=
    fun n h0 h1 r k hs => rollS_tot seed r k hs n h0 h1 fu hf
  unfold floatString
  refine tot_bind seed _ _ (R 2 (by omega) (by norm_num) r k h) (fun sg r1 k1 h1 => ?_)
  refine tot_bind seed _ _ (R 7 (by omega) (by norm_num) r1 k1 h1) (fun nl r2 k2 h2 => ?_)
  refine tot_bind seed _ _ ?_ (fun ip r3 k3 h3 => ?_)
  · show Tot seed (if nl = 0 then _ else _)
    split
    · exact tot_ok seed _ r2 k2 h2
    · exact tot_bind seed _ _ (R 9 (by omega) (by norm_num) r2 k2 h2) (fun d1 r' k' hs => rndDigits_tot seed fu hf _ _ r' k' hs)
  refine tot_bind seed _ _ (R 2 (by omega) (by norm_num) r3 k3 h3) (fun fr r4 k4 h4 => ?_)
  refine tot_bind seed _ _ ?_ (fun fp r5 k5 h5 => ?_)
  · show Tot seed (if fr ≠ 0 then _ else _)
    split
    · exact tot_bind seed _ _ (R 7 (by omega) (by norm_num) r4 k4 h4) (fun fl r' k' hs => rndDigits_tot seed fu hf _ _ r' k' hs)
    · exact tot_ok seed _ r4 k4 h4
  refine tot_bind seed _ _ (R 2 (by omega) (by norm_num) r5 k5 h5) (fun ex r6 k6 h6 => ?_)
  show Tot seed (if ex ≠ 0 then _ else _)
  split
  · exact tot_bind seed _ _ (R 41 (by omega) (by norm_num) r6 k6 h6) (fun ev r' k' hs => tot_ok seed _ r' k' hs)
  · exact tot_ok seed _ r6 k6 h6

variable {F : Type} [SOps F]

theorem uniPos_of_uniformPositive (f : Nat) : ∀ (r : Rng) (x : Nat) (r' : Rng), r.uniformPositive f = some (x, r') →
    ∃ u : F, uniPos Rng.next r f = .ok (u, r') := by
  induction f with
  | zero => intro r x r' h; simp [Rng.uniformPositive] at h
  | succ f ih =>
    intro r x r' h
    have hr : r.randomNum = ((r.next).1.toNat, (r.next).2) := rfl
    simp only [Rng.uniformPositive, hr] at h
    simp only [uniPos]
    by_cases h0 : r.next.1 = 0
    · have h0' : r.next.1.toNat = 0 := by rw [h0]; rfl
      rw [if_pos h0'] at h
      rw [if_pos h0]
      exact ih _ x r' h
    · have h0' : ¬ r.next.1.toNat = 0 := by
        intro hz; apply h0; rw [← UInt32.toNat_inj]; exact hz
      rw [if_neg h0'] at h
      rw [if_neg h0]
      cases h
      exact ⟨_, rfl⟩

theorem uniPos_tot (seed : UInt32) (hs : seed ≠ 0) (r : Rng) (k : Nat) (h : r.OnStream seed k) (fu : Nat) (hf : 624 ≤ fu) :
    Tot seed (uniPos (F := F) Rng.next r fu) := by
  obtain ⟨x, r', hr⟩ := Rng.uniPos_terminates_onStream r seed hs k h fu hf
  obtain ⟨k', _, _, hs'⟩ := Rng.onStream_uniformPositive seed fu r k x r' h hr
  obtain ⟨u, hu⟩ := uniPos_of_uniformPositive (F := F) fu r x r' hr
  exact ⟨u, r', k', hu, hs'⟩

theorem gammaIntU_tot (seed : UInt32) (hs : seed ≠ 0) (fu : Nat) (hf : 624 ≤ fu) (a : Nat) : ∀ (U : F) (r : Rng) (k : Nat),
    r.OnStream seed k → Tot seed (gammaIntU Rng.next fu a U r) := by
  induction a with
  | zero => intro U r k h; exact tot_ok seed _ r k h
  | succ a ih =>
    intro U r k h
    simp only [gammaIntU]
    exact tot_bind seed _ _ (uniPos_tot seed hs r k h fu hf) (fun u r' k' hs' => ih _ r' k' hs')

/-- `gamma_integer(a)`: `a` positive uniforms, no other loop -/
theorem gammaInteger_tot (seed : UInt32) (hs : seed ≠ 0) (fu : Nat) (hf : 624 ≤ fu) (a : Nat) (r : Rng) (k : Nat)
    (h : r.OnStream seed k) : Tot seed (gammaInteger (F := F) Rng.next fu a r) := by
  unfold gammaInteger
  exact tot_bind seed _ _ (gammaIntU_tot seed hs fu hf a one r k h) (fun u r' k' hs' => tot_ok seed _ r' k' hs')

/-- `esl_rnd_Gamma(a)` when the code's own test `a == floor(a) && a < 12` selects `gamma_integer` -/
theorem gamma_integer_branch_tot (seed : UInt32) (hs : seed ≠ 0) (fu fuel : Nat) (hf : 624 ≤ fu) (a : F)
    (ha : (beq a (floor a) && lt a (ofNat 12)) = true) (r : Rng) (k : Nat) (h : r.OnStream seed k) :
    Tot seed (gamma Rng.next fu fuel a r) := by
  unfold gamma
  simp only [ha, ↓reduceIte]
  exact gammaInteger_tot seed hs fu hf _ r k h

theorem dirichletDraw_tot (seed : UInt32) (hs : seed ≠ 0) (fu fuel : Nat) (hf : 624 ≤ fu) (alpha : List F)
    (hal : ∀ a ∈ alpha, (beq a (floor a) && lt a (ofNat 12)) = true) : ∀ (acc : List F) (norm : F) (r : Rng) (k : Nat),
    r.OnStream seed k → Tot seed (dirichletDraw Rng.next fu fuel alpha acc norm r) := by
  induction alpha with
  | nil => intro acc norm r k h; exact tot_ok seed _ r k h
  | cons a rest ih =>
    intro acc norm r k h
    simp only [dirichletDraw]
    exact tot_bind seed _ _ (gamma_integer_branch_tot seed hs fu fuel hf a (hal a (by simp)) r k h)
      (fun g r' k' hs' => ih (fun b hb => hal b (by simp [hb])) _ _ r' k' hs')

/-- `esl_rnd_Dirichlet` on integral `alpha_i < 12` (in particular `alpha = NULL`, all ones) -/
theorem dirichlet_integer_tot (seed : UInt32) (hs : seed ≠ 0) (fu fuel : Nat) (hf : 624 ≤ fu) (alpha : List F)
    (hal : ∀ a ∈ alpha, (beq a (floor a) && lt a (ofNat 12)) = true) (r : Rng) (k : Nat) (h : r.OnStream seed k) :
    Tot seed (dirichlet Rng.next fu fuel alpha r) := by
  unfold dirichlet
  exact tot_bind seed _ _ (dirichletDraw_tot seed hs fu fuel hf alpha hal [] zero r k h) (fun p r' k' hs' => tot_ok seed _ r' k' hs')

end EaselModel.Random
