import EaselModel.Random.Deal64Abs
import EaselModel.Random.DealF
import EaselModel.Random.Deal64Thm
import EaselModel.Random.Deal64Real
/-! Non-vacuity of `FloatFacts` (C09): every linearly ordered field with a floor whose `exp`/`log` oracles satisfy the three
sign facts `OracleOK` is a carrier satisfying `FloatFacts F B`, for EVERY bound `B` — in particular `ℝ` with the real `exp`, `log`,
and `ℚ` with the constant oracles `exp ≡ 1`, `log ≡ 0` (the carrier of the pre-fix counter-example).  The converse direction is
the point of `FloatFacts`: binary64 satisfies it without being a field. -/
set_option linter.unusedSectionVars false
namespace EaselModel.Random
open VOps

section
variable {F : Type} [Field F] [LinearOrder F] [IsStrictOrderedRing F] [FloorRing F] [Oracles F]

theorem fieldFloatFacts (ok : OracleOK F) (B : ℤ) : FloatFacts F B where
  le_trans := by intro a b c h1 h2; simp only [LE, v_le] at *; exact le_trans h1 h2
  lt_le := by intro a b h; simp only [LE, LT, v_le, v_lt] at *; exact le_of_lt h
  lt_lt_le_absurd := by intro a b c h1 h2 h3; simp only [LE, LT, v_le, v_lt] at *; linarith
  add_int := by intro a b _ _ _ _ _ _; simp [I]
  sub_int := by intro a b _ _ _ _ _ _; simp [I]
  round_int := by intro a _ _; simp [I]
  dbl_unit := by intro w; simp only [LE, LT, v_le, v_lt, fz, v_ofInt, v_one, Int.cast_zero]; exact dbl_unit w
  dblOpen_unit := by intro w; simp only [LT, v_lt, fz, v_ofInt, v_one, Int.cast_zero]; exact dblOpen_unit w
  log_nonpos := by
    intro u h0 h1; simp only [LE, v_le, fz, v_ofInt, v_one, Int.cast_zero] at *; exact ok.log_nonpos u h0 h1
  exp_le_one := by
    intro x h; simp only [LE, v_le, fz, v_ofInt, v_one, Int.cast_zero] at *
    exact ok.exp_le_one x h
  exp_nonneg := by intro x c _; simp only [LE, v_le, fz, v_ofInt, Int.cast_zero]; exact ok.exp_nonneg x
  mul_inv_nonpos := by
    intro k x hk _ hx
    simp only [LE, v_le, fz, v_ofInt, v_one, v_mul, v_div, I, Int.cast_zero] at *
    have hk' : (0:F) ≤ 1 / (k : F) := one_div_nonneg.2 (by exact_mod_cast (show (0:ℤ) ≤ k by omega))
    exact mul_nonpos_of_nonneg_of_nonpos hk' hx
  one_sub_unit := by
    intro v h0 h1; simp only [LE, v_le, fz, v_ofInt, v_one, v_add, v_neg, Int.cast_zero] at *
    constructor <;> linarith
  mul_int_unit := by
    intro n w hn _ h0 h1
    simp only [LE, v_le, fz, v_ofInt, v_one, v_mul, I, Int.cast_zero] at *
    have hn' : (0:F) ≤ (n : F) := by exact_mod_cast (show (0:ℤ) ≤ n by omega)
    exact ⟨mul_nonneg hn' h0, mul_le_of_le_one_right hn' h1⟩
  mul_int_lt := by
    intro n u hn _ h0 h1
    simp only [LE, LT, v_le, v_lt, fz, v_ofInt, v_one, v_mul, I, Int.cast_zero] at *
    have hn' : (0:F) < (n : F) := by exact_mod_cast (show (0:ℤ) < n by omega)
    exact mul_lt_of_lt_one_right hn' h1
  mul_unit_int := by
    intro q t h0 h1 ht _
    simp only [LE, v_le, fz, v_ofInt, v_one, v_mul, I, Int.cast_zero] at *
    have ht' : (0:F) ≤ (t : F) := by exact_mod_cast ht
    exact ⟨mul_nonneg h0 ht', mul_le_of_le_one_left ht' h1⟩
  mul_nonneg := by
    intro a b c ha hb _; simp only [LE, v_le, fz, v_ofInt, v_mul, Int.cast_zero] at *; exact mul_nonneg ha hb
  mul_left_notnan := by intro a b c _; simp only [LE, v_le]; exact le_refl a
  neg_antitone := by intro a b h; simp only [LE, v_le, v_neg] at *; exact neg_le_neg h
  div_mono := by
    intro n a b hn _ h
    simp only [LE, v_le, v_div, v_ofInt, I] at *
    have hn' : (0:F) ≤ ((n : F))⁻¹ := inv_nonneg.2 (by exact_mod_cast (show (0:ℤ) ≤ n by omega))
    have := mul_le_mul_of_nonneg_right h hn'
    simpa [div_eq_mul_inv] using this
  div_neg_self := by
    intro n hn _
    simp only [LE, v_le, v_div, v_neg, v_ofInt, I]
    have hn' : (n : F) ≠ 0 := by
      have : (0:F) < (n : F) := by exact_mod_cast (show (0:ℤ) < n by omega)
      exact ne_of_gt this
    rw [neg_div, div_self hn']; simp
  div_int_nonneg := by
    intro a b ha _ hb _
    simp only [LE, v_le, fz, v_div, v_ofInt, I, Int.cast_zero]
    exact div_nonneg (by exact_mod_cast ha) (by exact_mod_cast (show (0:ℤ) ≤ b by omega))
  div_int_le_one := by
    intro a b _ hab hb _
    simp only [LE, v_le, v_div, v_ofInt, v_one, I]
    have hb' : (0:F) < (b : F) := by exact_mod_cast (show (0:ℤ) < b by omega)
    rw [div_le_one hb']; exact_mod_cast hab
  div_zero_nonpos := by intro b _ _; simp [LE, fz, I]
  add_one_mono := by intro a b h; simp only [LE, v_le, v_add, v_one] at *; linarith
  floor_range := by
    intro x n _ _ h0 h1
    simp only [LE, v_le, fz, v_ofInt, v_floorI, I, Int.cast_zero] at *
    refine ⟨Int.floor_nonneg.2 h0, ?_⟩
    have : ((⌊x⌋ : ℤ) : F) ≤ (n : F) := le_trans (Int.floor_le x) h1
    exact_mod_cast this
  floor_lt := by
    intro x n _ _ h0 h1
    simp only [LE, LT, v_le, v_lt, fz, v_ofInt, v_floorI, I, Int.cast_zero] at *
    exact Int.floor_lt.2 h1

end

section
variable {F : Type} [Field F] [LinearOrder F] [IsStrictOrderedRing F] [FloorRing F] [Oracles F]
/-- non-vacuity of `DealFact`: exact arithmetic satisfies it for every bound -/
theorem fieldDealFact (B : ℕ) : DealFact F B := by
  intro a x ha _
  simp only [uni32, v_lt, v_mul, v_div, v_ofInt, Int.cast_natCast, Int.cast_ofNat]
  have hx : ((x.toNat : ℕ) : F) < 4294967296 := by exact_mod_cast UInt32.toNat_lt x
  have ha' : (0:F) < (a : F) := by exact_mod_cast ha
  have : ((x.toNat : ℕ) : F) / 4294967296 < 1 := by rw [div_lt_one (by norm_num)]; exact hx
  exact mul_lt_of_lt_one_right ha' this
end

/-- `ℝ` with the real `exp`/`log` is a carrier (any bound) -/
theorem realFloatFacts (B : ℤ) : FloatFacts ℝ B := fieldFloatFacts realOracleOK B

end EaselModel.Random

namespace EaselModel.Random
open VOps

/-- the constant oracles `exp ≡ 1`, `log ≡ 0` over `ℚ` -/
@[reducible] def constOracles : Oracles ℚ := ⟨fun _ => 1, fun _ => 0⟩

/-- there is a carrier satisfying ALL of `FloatFacts` (for any bound `B`) on which the code before fix ba43348 deals the
    out-of-range value `n` from `0..n-1`, for every generator state: the clamp `if (S >= n) S = n-1` is what `deal64Core_abs`
    needs, not a consequence of the other facts -/
theorem prefix_defect_on_a_carrier (B : ℤ) {σ : Type} (next : σ → UInt64 × σ) (fuel : ℕ) (n : ℤ) (s : σ) :
    letI : Oracles ℚ := constOracles
    FloatFacts ℚ B ∧ deal64PreFix (F := ℚ) next fuel 1 n s = some ([n], (next s).2) ∧ ¬ DealOKz [n] 1 (n - 1) := by
  letI : Oracles ℚ := constOracles
  have ok : OracleOK ℚ := ⟨fun _ => zero_le_one, fun _ _ => le_refl _, fun _ _ _ => le_refl _⟩
  refine ⟨fieldFloatFacts ok B, deal64PreFix_out_of_range next fuel n s ?_⟩
  show ⌊(n : ℚ) * (1 : ℚ)⌋ = n
  simp

end EaselModel.Random
