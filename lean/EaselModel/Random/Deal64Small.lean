import EaselModel.Random.Deal64Abs
/-! # `esl_rand64_Deal(m, n)` terminates for EVERY generator state when `n ≤ 13·m` (C09)

For `n ≤ 13·m` the method-D loop `while (m > 1 && n > threshold)` is not entered: the sample is produced by `vitter_a` (method A,
which terminates for every state: `vaLoop_terminates`) or, for `m = 1`, by the final `floor(n·Vprime)` step.  No probability. -/
namespace EaselModel.Random
open VOps

variable {F : Type} [VOps F] {B : Int} {σ : Type}

theorem d64Main_not_entered (next : σ → UInt64 × σ) (fuel k : Nat) (st : D64St F) (s : σ) (h : ¬ (st.m > 1 ∧ st.n > st.threshold)) :
    d64Main next fuel k st s = some (st, s) := by
  cases k <;> simp only [d64Main, h, ↓reduceIte]

theorem deal64Core_small_terminates (ff : FloatFacts F B) (next : σ → UInt64 × σ) (fuel : Nat) (m n : Int) (hm : 1 ≤ m) (hmn : m ≤ n)
    (hsmall : n ≤ 13 * m) (hnB : n ≤ B) (hfuel : n - m < fuel) (s : σ) : (deal64Core (F := F) next fuel m n s).isSome := by
  unfold deal64Core
  simp only []
  rw [d64Main_not_entered next fuel _ _ _ (by simp only [d64Init]; omega)]
  simp only [d64Init]
  by_cases hm1 : m > 1
  · simp only [hm1, ↓reduceIte]
    have h := vaLoop_terminates ff next fuel m.toNat m (-1) n _ _ [] (next s).2 hm hmn hnB rfl rfl (by omega) hfuel
    unfold vitterA
    cases hv : vaLoop (F := F) next fuel m.toNat m (-1) (ofInt (n - m)) (ofInt n) [] (next s).2 with
    | none => rw [hv] at h; cases h
    | some q => rfl
  · simp only [hm1, ↓reduceIte]
    rfl

end EaselModel.Random
