import EaselModel.Random.Deal64Abs
/-! # The `int64_t` skeleton of `esl_rand64_Deal` never leaves the `int64_t` range (C09)

The model keeps `m, n, j, qu1, threshold, S` in `Int`.  Here: for `1 ≤ m ≤ n ≤ B` every value these variables take in any pass of
the method-D loop lies in `[-1, 13·m]` resp. `[-1, n]` — `threshold = 13·m'` for the current `m'`, `1 ≤ m' ≤ n' ≤ n`,
`1 ≤ qu1 = n' - m' + 1 ≤ n`, `-1 ≤ j < n`, every accepted skip `0 ≤ S < qu1` — so with `B = 2^53` all of them (and every sum or
difference of two of them the C code forms: `n - m + 1`, `n - S - 1`, `qu1 - S`, `j + S + 1`, `n - S`, `-S`, `threshold - 13`) are
below `2^58` in magnitude: the `Int` model and the `int64_t` code compute the same values, no wrap-around is reachable. -/
namespace EaselModel.Random
open VOps

variable {F : Type} [VOps F] {B : Int} {σ : Type}

/-- `threshold = 13·m` is an invariant of the method-D loop (no floating point involved) -/
theorem d64Main_threshold (next : σ → UInt64 × σ) (fuel k : Nat) : ∀ (st : D64St F) (s : σ) (st' : D64St F) (s' : σ),
    st.threshold = 13 * st.m → d64Main next fuel k st s = some (st', s') → st'.threshold = 13 * st'.m := by
  induction k with
  | zero =>
    intro st s st' s' h0 h
    simp only [d64Main] at h
    split at h
    · cases h
    · cases h; exact h0
  | succ k ih =>
    intro st s st' s' h0 h
    simp only [d64Main] at h
    split at h
    · cases hacc : d64Accept next st.ctx st.V s fuel with
      | none => rw [hacc] at h; cases h
      | some r =>
        obtain ⟨S, V1, s1⟩ := r
        rw [hacc] at h
        apply ih _ _ _ _ _ h
        show st.threshold + (-13) = 13 * (st.m - 1)
        omega
    · cases h; exact h0

/-- the initial state satisfies the invariant of `d64Main_abs` -/
theorem d64Init_inv (ff : FloatFacts F B) (m n : Int) (hm : 1 ≤ m) (hmn : m ≤ n) (hnB : n ≤ B) (w : UInt64) :
    StInvA B m n (d64Init m n w : D64St F) := by
  have hV0 : Unit01 (VOps.powU (VOps.div VOps.one (VOps.ofInt m)) (VOps.dbl w : F)) :=
    powU_unit_abs ff m hm (by omega) _ (dbl_unit01 ff _)
  refine ⟨hm, hmn, rfl, rfl, rfl, ?_, ⟨m, hm, by omega, rfl⟩, hV0, by show (-1 : Int) + n = n - 1; omega,
    by simp [d64Init], Int.le_refl _, ⟨List.Pairwise.nil, by simp [d64Init]⟩⟩
  show VOps.add (VOps.sub (VOps.ofInt n) (VOps.ofInt m)) VOps.one = I (n - m + 1)
  rw [one_eq_I, ff.sub_int n m (by omega) (by omega) (by omega) (by omega) (by omega) (by omega),
    ff.add_int (n - m) 1 (by omega) (by omega) (by omega) (by omega) (by omega) (by omega)]

/-- every `int64_t` variable of the state left by the method-D loop is in range -/
theorem d64_state_in_range (ff : FloatFacts F B) (next : σ → UInt64 × σ) (fuel k : Nat) (m n : Int) (hm : 1 ≤ m) (hmn : m ≤ n)
    (hnB : n ≤ B) (w : UInt64) (s : σ) (st : D64St F) (s' : σ) (h : d64Main next fuel k (d64Init m n w) s = some (st, s')) :
    1 ≤ st.m ∧ st.m ≤ st.n ∧ st.n ≤ n ∧ -1 ≤ st.j ∧ st.j < n ∧ 1 ≤ st.qu1 ∧ st.qu1 ≤ n ∧
    13 ≤ st.threshold ∧ st.threshold ≤ 13 * m ∧ (∀ a ∈ st.acc, 0 ≤ a ∧ a < n) := by
  have hinv := d64Main_abs ff next fuel m n hnB k _ s (d64Init_inv ff m n hm hmn hnB w) st s' h
  have hth := d64Main_threshold next fuel k _ s st s' (by rfl) h
  have h1 := hinv.m_pos; have h2 := hinv.m_le; have h3 := hinv.qu1_eq; have h4 := hinv.jn; have h5 := hinv.j_lb
  have h6 := hinv.len
  have hl : (0 : Int) ≤ (st.acc.length : Int) := Int.natCast_nonneg _
  refine ⟨h1, h2, by omega, h5, by omega, by omega, by omega, by omega, by omega, fun a ha => ?_⟩
  have := hinv.acc_ok.2 a ha
  omega

/-- every skip the method-D loop accepts in a state of the invariant is `0 ≤ S < qu1 ≤ n` -/
theorem d64_skip_in_range (ff : FloatFacts F B) (next : σ → UInt64 × σ) (fuel : Nat) (m0 n0 : Int) (hn0 : n0 ≤ B) (st : D64St F)
    (hinv : StInvA B m0 n0 st) (hm2 : 2 ≤ st.m) (s : σ) (S : Int) (V1 : F) (s1 : σ)
    (hacc : d64Accept next st.ctx st.V s fuel = some (S, V1, s1)) : 0 ≤ S ∧ S < st.qu1 ∧ st.qu1 ≤ n0 := by
  have hnB : st.n ≤ B := by have := hinv.jn; have := hinv.j_lb; omega
  have hmm : IsInv B (st.ctx.mmin1inv) := by
    refine ⟨st.m - 1, by omega, by have := hinv.m_le; omega, ?_⟩
    show VOps.div VOps.one (VOps.add (VOps.ofInt (-1)) st.mreal) = VOps.div VOps.one (I (st.m - 1))
    rw [hinv.mreal_eq]
    have hml := hinv.m_le
    have e : VOps.add (VOps.ofInt (-1)) (I st.m) = (I (-1 + st.m) : F) :=
      ff.add_int (-1) st.m (by omega) (by omega) (by omega) (by omega) (by omega) (by omega)
    rw [e]
    have : (-1 : Int) + st.m = st.m - 1 := by omega
    rw [this]
  have hc : CtxOKA B st.ctx :=
    ⟨by have := hinv.m_pos; have := hinv.m_le; show 1 ≤ st.n; omega, hnB,
     by have := hinv.qu1_eq; have := hinv.m_le; show 1 ≤ st.qu1; omega,
     by have := hinv.qu1_eq; show st.qu1 ≤ st.n; omega,
     hinv.nreal_eq, hinv.qu1real_eq, hinv.minv_inv, hmm⟩
  obtain ⟨hS0, hSlt, _⟩ := d64Accept_abs ff next _ hc fuel st.V s hinv.V_unit S V1 s1 hacc
  have := hinv.qu1_eq; have := hinv.jn; have := hinv.j_lb; have := hinv.m_pos
  exact ⟨hS0, hSlt, by omega⟩

end EaselModel.Random
