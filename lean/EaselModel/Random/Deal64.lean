import EaselModel.Random.Model
/-! # `esl_rand64_Deal` (Vitter 1987, method D) and `vitter_a` (method A) — esl_rand64.c (C09). Core Lean only.

The integer skeleton (`m n j S qu1 threshold t limit`) is `Int`, exactly as the `int64_t` code (no overflow for
`13·m < 2^63`); every `double` quantity goes through the vocabulary `VOps F`:
* `Float` instance (below): the driver predicts the dealt sample bit for bit (same libm `exp`/`log`/`floor`/`round`);
* any ordered field with arbitrary `exp`/`log` oracles (`Random/Deal64Thm.lean`): the structure theorems.

The generator is abstracted to a source `σ` with `next : σ → UInt64 × σ` (`Rng64.next` in the driver); the three rejection
loops are unbounded in C and take fuel here (`none` = fuel exhausted, never "accepted"). -/
namespace EaselModel.Random

class VOps (F : Type) where
  ofInt : Int → F            -- `(double) k`
  add : F → F → F
  sub : F → F → F
  mul : F → F → F
  div : F → F → F
  neg : F → F
  lt : F → F → Bool          -- C's `<`
  le : F → F → Bool          -- C's `<=`
  floorI : F → Int           -- `(int64_t) floor(x)`
  round : F → F              -- libm `round`
  exp : F → F
  log : F → F

instance : VOps Float where
  ofInt := Float.ofInt
  add := (· + ·)
  sub := (· - ·)
  mul := (· * ·)
  div := (· / ·)
  neg := fun x => -x
  lt := fun a b => a < b
  le := fun a b => a ≤ b
  floorI := fun x => (Float.floor x).toInt64.toInt
  round := Float.round
  exp := Float.exp
  log := Float.log

namespace VOps
variable {F : Type} [VOps F]

def one : F := ofInt 1
/-- `esl_rand64_double`: `(double)(x >> 11) * (1.0/9007199254740992.0)` -/
def dbl (x : UInt64) : F := mul (ofInt (x >>> 11).toNat) (div one (ofInt 9007199254740992))
/-- `esl_rand64_double_open`: `((double)(x >> 12) + 0.5) * (1.0/4503599627370496.0)` -/
def dblOpen (x : UInt64) : F := mul (add (ofInt (x >>> 12).toNat) (div one (ofInt 2))) (div one (ofInt 4503599627370496))
/-- `exp(a * log(u))` -/
def powU (a u : F) : F := exp (mul a (log u))

end VOps
open VOps

variable {σ F : Type} [VOps F]

/-- innermost loop of method D: `while (1) { X = nreal*(-Vprime+1.0); if ((S = floor(X)) < qu1) break; Vprime = … }` -/
def d64FindS (next : σ → UInt64 × σ) (nreal minv : F) (qu1 : Int) : F → σ → Nat → Option (F × Int × σ)
  | _, _, 0 => none
  | V, s, fuel+1 =>
    let X := mul nreal (add (neg V) one)
    let S := floorI X
    if S < qu1 then some (X, S, s)
    else
      let p := next s
      d64FindS next nreal minv qu1 (powU minv (dblOpen p.1)) p.2 fuel

/-- `for (t = n-1; t >= limit; t--) { y2 = (y2 * top) / bottom; top--; bottom--; }` (first argument: `n - limit` rounds) -/
def d64Y2 : Nat → F → F → F → F
  | 0, y2, _, _ => y2
  | k+1, y2, top, bottom => d64Y2 k (div (mul y2 top) bottom) (sub top one) (sub bottom one)

/-- the variables that stay fixed during one pass of the outer `while (m > 1 && n > threshold)` -/
structure D64Ctx (F : Type) where
  n : Int
  qu1 : Int
  nreal : F
  mreal : F
  minv : F
  mmin1inv : F
  qu1real : F

/-- `if (n-1 > S) { bottom = nreal - mreal; limit = n - S; } else { bottom = nreal + negSreal - 1.; limit = qu1; }` -/
def d64BottomLimit (c : D64Ctx F) (S : Int) (negSreal : F) : F × Int :=
  if c.n - 1 > S then (sub c.nreal c.mreal, c.n - S) else (sub (add c.nreal negSreal) one, c.qu1)

/-- the middle `while (1)`: returns the accepted skip `S`, the `Vprime` left for the next pass, the generator -/
def d64Accept (next : σ → UInt64 × σ) (c : D64Ctx F) : F → σ → Nat → Option (Int × F × σ)
  | _, _, 0 => none
  | V, s, fuel+1 =>
    match d64FindS next c.nreal c.minv c.qu1 V s (fuel+1) with
    | none => none
    | some (X, S, s1) =>
      let p2 := next s1
      let s2 := p2.2
      let U : F := dblOpen p2.1
      let negSreal : F := ofInt (-S)
      let y1 := powU c.mmin1inv (div (mul U c.nreal) c.qu1real)
      let V1 := mul (mul y1 (add (div (neg X) c.nreal) one)) (div c.qu1real (add negSreal c.qu1real))
      if le V1 one then some (S, V1, s2)
      else
        let top := sub c.nreal one
        let bl : F × Int := d64BottomLimit c S negSreal
        let y2 := d64Y2 (c.n - bl.2).toNat one top bl.1
        let p3 := next s2
        if le (mul y1 (powU c.mmin1inv y2)) (div c.nreal (sub c.nreal X)) then
          some (S, powU c.mmin1inv (dblOpen p3.1), p3.2)
        else d64Accept next c (powU c.minv (dblOpen p3.1)) p3.2 fuel

/-- the variables of `esl_rand64_Deal` that change from pass to pass (`acc` = `deal[0..i-1]`, newest first) -/
structure D64St (F : Type) where
  m : Int
  n : Int
  j : Int
  qu1 : Int
  threshold : Int
  mreal : F
  nreal : F
  minv : F
  qu1real : F
  V : F
  acc : List Int

/-- `mmin1inv = 1.0 / (-1.0 + mreal)` and the values that stay fixed during the pass -/
def D64St.ctx (st : D64St F) : D64Ctx F :=
  { n := st.n, qu1 := st.qu1, nreal := st.nreal, mreal := st.mreal, minv := st.minv,
    mmin1inv := div one (add (ofInt (-1)) st.mreal), qu1real := st.qu1real }

/-- the updates after an accepted skip `S` (`Vprime` = `V1`) -/
def D64St.advance (st : D64St F) (S : Int) (V1 : F) : D64St F :=
  { m := st.m - 1, n := st.n - S - 1, j := st.j + (S + 1), qu1 := st.qu1 - S, threshold := st.threshold + (-13),
    mreal := sub st.mreal one, nreal := sub (add st.nreal (ofInt (-S))) one, minv := st.ctx.mmin1inv,
    qu1real := add st.qu1real (ofInt (-S)), V := V1, acc := (st.j + (S + 1)) :: st.acc }

/-- outer loop `while (m > 1 && n > threshold)`; the first argument bounds the number of passes (`m` suffices) -/
def d64Main (next : σ → UInt64 × σ) (fuel : Nat) : Nat → D64St F → σ → Option (D64St F × σ)
  | 0, st, s => if st.m > 1 ∧ st.n > st.threshold then none else some (st, s)
  | k+1, st, s =>
    if st.m > 1 ∧ st.n > st.threshold then
      match d64Accept next st.ctx st.V s fuel with
      | none => none
      | some (S, V1, s1) => d64Main next fuel k (st.advance S V1) s1
    else some (st, s)

/-- `vitter_a`'s skip loop `while (quot > U) { S++; top -= 1.; nreal -= 1.; quot = (quot*top)/nreal; }` -/
def vaSkip (U : F) : Nat → F → F → F → Int → Option (Int × F × F)
  | 0, _, _, _, _ => none
  | f+1, quot, top, nreal, S =>
    if lt U quot then
      let top' := sub top one
      let nreal' := sub nreal one
      vaSkip U f (div (mul quot top') nreal') top' nreal' (S + 1)
    else some (S, top, nreal)

/-- `vitter_a`: `while (m >= 2) …` then the last sample -/
def vaLoop (next : σ → UInt64 × σ) (fuel : Nat) : Nat → Int → Int → F → F → List Int → σ → Option (List Int × σ)
  | 0, _, _, _, _, _, _ => none
  | k+1, m, j, top, nreal, acc, s =>
    if m ≥ 2 then
      let p := next s
      let s1 := p.2
      let U : F := dblOpen p.1
      match vaSkip U fuel (div top nreal) top nreal 0 with
      | none => none
      | some (S, top', nreal') =>
        let j' := j + (S + 1)
        vaLoop next fuel k (m - 1) j' top' (sub nreal' one) (j' :: acc) s1
    else
      let p := next s
      let S := floorI (mul (round nreal) (dbl p.1))
      some ((j + (S + 1)) :: acc, p.2)

def vitterA (next : σ → UInt64 × σ) (fuel : Nat) (m n j : Int) (acc : List Int) (s : σ) : Option (List Int × σ) :=
  vaLoop (F := F) next fuel m.toNat m j (ofInt (n - m)) (ofInt n) acc s

/-- the declarations of `esl_rand64_Deal` (`w0` = the raw word behind the first `esl_rand64_double`) -/
def d64Init (m n : Int) (w0 : UInt64) : D64St F :=
  { m := m, n := n, j := -1, qu1 := n - m + 1, threshold := 13 * m, mreal := ofInt m, nreal := ofInt n,
    minv := div one (ofInt m), qu1real := add (sub (ofInt n) (ofInt m)) one,
    V := powU (div one (ofInt m)) (dbl w0), acc := [] }

/-- the final step for the last sample: `S = floor(n * Vprime); if (S >= n) S = n-1;` (the clamp is fix ba43348: the
    squeeze test accepts `Vprime <= 1.`, and `Vprime == 1.0` gave `S = n`) -/
def d64LastSkip (n : Int) (V : F) : Int :=
  let S := floorI (mul (ofInt n) V)
  if S ≥ n then n - 1 else S

/-- `esl_rand64_Deal(rng, m, n, deal)`: the dealt sample, the `Vprime` used by the final `S = floor(n * Vprime)` step
    (`none` when the sample was finished by `vitter_a`), and the generator afterwards -/
def deal64Core (next : σ → UInt64 × σ) (fuel : Nat) (m n : Int) (s : σ) : Option (List Int × Option F × σ) :=
  let p0 := next s
  let st0 : D64St F := d64Init m n p0.1
  let s0 := p0.2
  match d64Main next fuel m.toNat st0 s0 with
  | none => none
  | some (st, s1) =>
    if st.m > 1 then
      match vitterA (F := F) next fuel st.m st.n st.j st.acc s1 with
      | none => none
      | some (acc, s2) => some (acc.reverse, none, s2)
    else
      let S := d64LastSkip st.n st.V
      some (((st.j + (S + 1)) :: st.acc).reverse, some st.V, s1)

/-- `esl_rand64_Deal` on the MT19937-64 generator, binary64 arithmetic (what the driver runs) -/
def Rng64.deal64 (r : Rng64) (m n : Nat) (fuel : Nat) : Option (List Int × Rng64) :=
  match deal64Core (F := Float) Rng64.next fuel (m : Int) (n : Int) r with
  | none => none
  | some (out, _, r') => some (out, r')

end EaselModel.Random
