import EaselModel.Random.Model
/-! Helper lemmas for C09 (streams of the concrete generators, roll arithmetic, deal invariant). -/
namespace EaselModel.Random
open EaselModel.MTP

def Rng.draws (r : Rng) : Nat → List UInt32 × Rng
  | 0 => ([], r)
  | k+1 => let (x, r1) := r.next; let (xs, r2) := Rng.draws r1 k; (x :: xs, r2)

def Rng64.draws (r : Rng64) : Nat → List UInt64 × Rng64
  | 0 => ([], r)
  | k+1 => let (x, r1) := r.next; let (xs, r2) := Rng64.draws r1 k; (x :: xs, r2)

theorem Rng.draws_mersenne (r : Rng) (h : r.kind = .mersenne) (k : Nat) :
    (r.draws k).1 = (MTP.draws P32 r.st k).1 := by
  induction k generalizing r with
  | zero => rfl
  | succ k ih =>
    have hn : r.next = ((MTP.next P32 r.st).1, { r with st := (MTP.next P32 r.st).2 }) := by
      simp [Rng.next, h]
    simp only [Rng.draws, MTP.draws, hn]
    rw [ih _ (by simp [h])]

theorem Rng64.draws_eq (r : Rng64) (k : Nat) : (r.draws k).1 = (MTP.draws P64 r.st k).1 := by
  induction k generalizing r with
  | zero => rfl
  | succ k ih =>
    simp only [Rng64.draws, MTP.draws, Rng64.next]
    rw [ih]

/-- the LCG sequence x ↦ 69069·x + 1 -/
def lcg (x0 : UInt32) : Nat → UInt32
  | 0 => x0
  | k+1 => lcg x0 k * 69069 + 1

theorem lcg_shift (x0 : UInt32) (k : Nat) : lcg (x0 * 69069 + 1) k = lcg x0 (k+1) := by
  induction k with
  | zero => rfl
  | succ k ih => simp only [lcg] at *; rw [ih]

theorem Rng.draws_fast (r : Rng) (h : r.kind = .fast) (k : Nat) :
    (r.draws k).1 = (List.range k).map (fun i => lcg r.x (i+1)) := by
  induction k generalizing r with
  | zero => rfl
  | succ k ih =>
    have hn : r.next = (r.x * 69069 + 1, { r with x := r.x * 69069 + 1 }) := by simp [Rng.next, h]
    simp only [Rng.draws, hn]
    rw [ih _ (by simp [h]), List.range_succ_eq_map]
    simp only [List.map_cons, List.map_map, lcg, List.cons.injEq, true_and]
    apply List.map_congr_left
    intro i _
    simp only [Function.comp]
    exact lcg_shift r.x (i+1)

/-! roll arithmetic -/
theorem rollWord_lt (n x v : Nat) (h : rollWord n x = some v) : v < n := by
  unfold rollWord at h
  simp only at h
  split at h
  · cases h; assumption
  · cases h

theorem div_eq_iff_interval (x f v : Nat) (hf : 0 < f) : x / f = v ↔ v * f ≤ x ∧ x < (v+1) * f := by
  constructor
  · intro h; subst h
    refine ⟨Nat.div_mul_le_self x f, ?_⟩
    rw [Nat.add_mul, Nat.one_mul]
    exact Nat.lt_div_mul_add hf
  · intro ⟨h1, h2⟩
    apply Nat.div_eq_of_lt_le
    · simpa [Nat.mul_comm] using h1
    · simpa [Nat.mul_comm] using h2

theorem roll_preimage_gen (W n : Nat) (hn : 0 < n) (hW : n ≤ W) (v : Nat) (hv : v < n) (x : Nat) :
    (let f := W / n; let u := x / f; if u < n then some u else none) = some v
      ↔ v * (W / n) ≤ x ∧ x < (v+1) * (W / n) := by
  have hf : 0 < W / n := Nat.div_pos hW hn
  simp only
  constructor
  · intro h
    split at h
    · cases h; exact (div_eq_iff_interval x _ _ hf).1 rfl
    · cases h
  · intro h
    have := (div_eq_iff_interval x _ v hf).2 h
    simp [this, hv]

theorem roll_intervals_fit (W n : Nat) (hn : 0 < n) (v : Nat) (hv : v < n) : (v+1) * (W / n) ≤ W := by
  calc (v+1) * (W / n) ≤ n * (W / n) := Nat.mul_le_mul_right _ (by omega)
    _ ≤ W := Nat.mul_div_le W n

/-! deal -/
theorem dealLoop_spec (n m : Nat) (fuel j i : Nat) (r : Rng) (acc : List Nat)
    (hinv : m - i ≤ n - j) (hi : i ≤ m) (hj : j ≤ n) (hfuel : n - j < fuel)
    (hlen : acc.length = i)
    (hacc : ∀ a ∈ acc, a < j)
    (hsorted : acc.Pairwise (· > ·)) :
    let out := (dealLoop n m j i r acc fuel).1
    out.length = m ∧ (∀ a ∈ out, a < n) ∧ out.Pairwise (· < ·) := by
  induction fuel generalizing j i r acc with
  | zero => omega
  | succ fuel ih =>
    unfold dealLoop
    by_cases hc : j < n ∧ i < m
    · simp only [hc, and_self, ↓reduceIte]
      have hx : (r.randomNum).1 < 2^32 := by
        simp only [Rng.randomNum]; exact UInt32.toNat_lt _
      by_cases ht : (n - j) * r.randomNum.1 < (m - i) * 2^32
      · simp only [ht, ↓reduceIte]
        apply ih (j+1) (i+1) _ (j :: acc) (by omega) (by omega) (by omega) (by omega) (by simp [hlen])
        · intro a ha
          cases List.mem_cons.1 ha with
          | inl h => omega
          | inr h => have := hacc a h; omega
        · exact List.pairwise_cons.2 ⟨fun a ha => hacc a ha, hsorted⟩
      · simp only [ht, ↓reduceIte]
        have hne : m - i ≠ n - j := by
          intro he
          apply ht
          rw [he]
          exact Nat.mul_lt_mul_of_pos_left hx (by omega)
        apply ih (j+1) i _ acc (by omega) hi (by omega) (by omega) hlen
        · intro a ha; have := hacc a ha; omega
        · exact hsorted
    · simp only [hc, ↓reduceIte]
      have him : i = m := by omega
      refine ⟨by simp [hlen, him], ?_, ?_⟩
      · intro a ha; have := hacc a (List.mem_reverse.1 ha); omega
      · rw [List.pairwise_reverse]; exact hsorted

end EaselModel.Random
