import EaselModel.Random.Deal64
/-! # `esl_rand64_Deal` / `vitter_a` over an ABSTRACT floating-point carrier (C09). Core Lean only, no Mathlib.

`F` is any type with the vocabulary `VOps F`; `add sub mul div neg exp log round floorI lt le` are ARBITRARY functions.
No field law is assumed: not associativity, not distributivity, not `(-X)/n + 1 = Vprime`, not `n * (m/n) = m` — the
identities that hold over ℝ and that rounding breaks (the defect repaired by ba43348 lived exactly in the gap between
"`Vprime <= 1.` was tested" and "`floor(n * Vprime) < n`").  What is assumed is the list `FloatFacts F B`: sign and
monotonicity facts of single rounded operations, exactness of integers of magnitude `≤ B` (`B = 2^53` for binary64), the sign
facts of libm's `exp`/`log`, and NaN propagation for `*`.  Each item is valid for IEEE-754 binary64 with round-to-nearest
for ALL operand values including `±0`, `±inf` and NaN (`le`/`lt` are C's `<=`/`<`, false on NaN) — the comment at each field
says why.  Everything else the proof uses is a test the code itself performs:
`S < qu1` (d64FindS), `Vprime <= 1.` (d64Accept), `quot > U` (vaSkip), `if (S >= n) S = n-1` (final step).

Result (`deal64Core_abs`): for every `1 ≤ m ≤ n ≤ B`, every generator state and every fuel, a returned deal is exactly `m`
strictly increasing values in `[0, n)`.  `n ≤ B` is needed by `vitter_a` only (its skip loop stops because the
integer-valued double `top` reaches exactly 0).  Pre-fix behaviour: `deal64PreFix_out_of_range`. -/
namespace EaselModel.Random
open VOps

section
variable {F : Type} [VOps F]

/-- C's `a <= b` / `a < b` on the carrier -/
abbrev LE (a b : F) : Prop := VOps.le a b = true
abbrev LT (a b : F) : Prop := VOps.lt a b = true
/-- `(double) k` -/
abbrev I (k : Int) : F := VOps.ofInt k
/-- `0.0` -/
abbrev fz : F := VOps.ofInt 0

theorem one_eq_I : (VOps.one : F) = I 1 := rfl

/-- what the structure proof uses about the floating-point operations; `B` bounds the exactly represented integers -/
structure FloatFacts (F : Type) [VOps F] (B : Int) : Prop where
  /- comparisons (total order on non-NaN values; every comparison with NaN is false, so the premises exclude NaN) -/
  le_trans : ∀ a b c : F, LE a b → LE b c → LE a c
  lt_le : ∀ a b : F, LT a b → LE a b
  lt_lt_le_absurd : ∀ a b c : F, LT a b → LT b c → LE c a → False
  /- integers of magnitude ≤ B convert exactly; their sums and differences are exact (x - x = +0 = (double) 0) -/
  add_int : ∀ a b : Int, -B ≤ a → a ≤ B → -B ≤ b → b ≤ B → -B ≤ a + b → a + b ≤ B → VOps.add (I a) (I b) = (I (a + b) : F)
  sub_int : ∀ a b : Int, -B ≤ a → a ≤ B → -B ≤ b → b ≤ B → -B ≤ a - b → a - b ≤ B → VOps.sub (I a) (I b) = (I (a - b) : F)
  round_int : ∀ a : Int, 0 ≤ a → a ≤ B → VOps.round (I a) = (I a : F)
  /- esl_rand64_double = k·2^-53 (k < 2^53) ∈ [0,1); esl_rand64_double_open = (k+0.5)·2^-52 (k < 2^52) ∈ (0,1): exact products -/
  dbl_unit : ∀ w : UInt64, LE fz (VOps.dbl w : F) ∧ LT (VOps.dbl w : F) VOps.one
  dblOpen_unit : ∀ w : UInt64, LT fz (VOps.dblOpen w : F) ∧ LT (VOps.dblOpen w : F) VOps.one
  /- libm: log(±0) = -inf, log(1) = +0, log(u) < 0 on (0,1); exp(-inf) = +0, exp(x) ∈ (0,1] for x ≤ 0; exp is never negative -/
  log_nonpos : ∀ u : F, LE fz u → LE u VOps.one → LE (VOps.log u) fz
  exp_le_one : ∀ x : F, LE x fz → LE (VOps.exp x) VOps.one
  exp_nonneg : ∀ x c : F, LE (VOps.exp x) c → LE fz (VOps.exp x)
  /- (1/k)·x for x ∈ [-inf, 0]: 1/k is finite and positive, the product is ≤ 0 (possibly -0 or -inf) -/
  mul_inv_nonpos : ∀ (k : Int) (x : F), 1 ≤ k → k ≤ B → LE x fz → LE (VOps.mul (VOps.div VOps.one (I k)) x) fz
  /- v ∈ [0,1] ⇒ -v + 1 ∈ [0,1] (rounding is monotone; -1+1 = +0, -0+1 = 1) -/
  one_sub_unit : ∀ v : F, LE fz v → LE v VOps.one → LE fz (VOps.add (VOps.neg v) VOps.one) ∧ LE (VOps.add (VOps.neg v) VOps.one) VOps.one
  /- n·w for an exact positive integer n: w ∈ [0,1] ⇒ fl(n·w) ∈ [0,n] (monotone rounding, n·1 = n exactly) -/
  mul_int_unit : ∀ (n : Int) (w : F), 1 ≤ n → n ≤ B → LE fz w → LE w VOps.one → LE fz (VOps.mul (I n) w) ∧ LE (VOps.mul (I n) w) (I n)
  /- u < 1 means u ≤ 1-2^-53; n·(1-2^-53) lies at or below the midpoint of pred(n) and n (equal only for n a power of two, where
     it is pred(n) itself), so round-to-nearest gives fl(n·u) ≤ pred(n) < n -/
  mul_int_lt : ∀ (n : Int) (u : F), 1 ≤ n → n ≤ B → LE fz u → LT u VOps.one → LT (VOps.mul (I n) u) (I n)
  /- q ∈ [0,1], t an exact integer ≥ 0: fl(q·t) ∈ [0,t] (q·0 = ±0) -/
  mul_unit_int : ∀ (q : F) (t : Int), LE fz q → LE q VOps.one → 0 ≤ t → t ≤ B → LE fz (VOps.mul q (I t)) ∧ LE (VOps.mul q (I t)) (I t)
  /- a product of two non-negative values that is not NaN (it is comparable with some c) is non-negative; inf·0 = NaN is excluded -/
  mul_nonneg : ∀ a b c : F, LE fz a → LE fz b → LE (VOps.mul a b) c → LE fz (VOps.mul a b)
  /- NaN propagates through `*`: a non-NaN product has a non-NaN left factor -/
  mul_left_notnan : ∀ a b c : F, LE (VOps.mul a b) c → LE a a
  neg_antitone : ∀ a b : F, LE a b → LE (VOps.neg b) (VOps.neg a)
  /- division by an exact positive integer is monotone (also at ±inf) -/
  div_mono : ∀ (n : Int) (a b : F), 1 ≤ n → n ≤ B → LE a b → LE (VOps.div a (I n)) (VOps.div b (I n))
  /- (-n)/n = -1 exactly -/
  div_neg_self : ∀ n : Int, 1 ≤ n → n ≤ B → LE (I (-1) : F) (VOps.div (VOps.neg (I n)) (I n))
  div_int_nonneg : ∀ a b : Int, 0 ≤ a → a ≤ B → 1 ≤ b → b ≤ B → LE (fz : F) (VOps.div (I a) (I b))
  div_int_le_one : ∀ a b : Int, 0 ≤ a → a ≤ b → 1 ≤ b → b ≤ B → LE (VOps.div (I a) (I b) : F) VOps.one
  div_zero_nonpos : ∀ b : Int, 1 ≤ b → b ≤ B → LE (VOps.div (I 0) (I b) : F) fz
  add_one_mono : ∀ a b : F, LE a b → LE (VOps.add a VOps.one) (VOps.add b VOps.one)
  /- `(int64_t) floor(x)` for 0 ≤ x ≤ n ≤ B (in range of int64: no undefined conversion) -/
  floor_range : ∀ (x : F) (n : Int), 0 ≤ n → n ≤ B → LE fz x → LE x (I n) → 0 ≤ VOps.floorI x ∧ VOps.floorI x ≤ n
  floor_lt : ∀ (x : F) (n : Int), 1 ≤ n → n ≤ B → LE fz x → LT x (I n) → VOps.floorI x < n

/-! Consequences of the list (proved, not assumed; they were fields of `FloatFacts` until round 6): the lower halves of
    `exp_unit`, `mul_int_lt'`, `floor_lt'` follow from `exp_nonneg`, `mul_int_unit`, `floor_range` and `lt_le`. -/
theorem FloatFacts.exp_unit {B : Int} (ff : FloatFacts F B) (x : F) (h : LE x fz) :
    LE fz (VOps.exp x) ∧ LE (VOps.exp x) VOps.one :=
  ⟨ff.exp_nonneg x VOps.one (ff.exp_le_one x h), ff.exp_le_one x h⟩

theorem FloatFacts.mul_int_lt' {B : Int} (ff : FloatFacts F B) (n : Int) (u : F) (h1 : 1 ≤ n) (hB : n ≤ B) (h0 : LE fz u)
    (hu : LT u VOps.one) : LE fz (VOps.mul (I n) u) ∧ LT (VOps.mul (I n) u) (I n) :=
  ⟨(ff.mul_int_unit n u h1 hB h0 (ff.lt_le _ _ hu)).1, ff.mul_int_lt n u h1 hB h0 hu⟩

theorem FloatFacts.floor_lt' {B : Int} (ff : FloatFacts F B) (x : F) (n : Int) (h1 : 1 ≤ n) (hB : n ≤ B) (h0 : LE fz x)
    (hx : LT x (I n)) : 0 ≤ VOps.floorI x ∧ VOps.floorI x < n :=
  ⟨(ff.floor_range x n (by omega) hB h0 (ff.lt_le _ _ hx)).1, ff.floor_lt x n h1 hB h0 hx⟩

variable {B : Int} {σ : Type}

/-- `0 ≤ v ≤ 1` in the carrier's comparison -/
def Unit01 (v : F) : Prop := LE fz v ∧ LE v VOps.one

/-- `exp((1/k) * log(u)) ∈ [0,1]` for `u ∈ [0,1]` -/
theorem powU_unit_abs (ff : FloatFacts F B) (k : Int) (hk1 : 1 ≤ k) (hkB : k ≤ B) (u : F) (hu : Unit01 u) :
    Unit01 (VOps.powU (VOps.div VOps.one (I k)) u) :=
  ff.exp_unit _ (ff.mul_inv_nonpos k _ hk1 hkB (ff.log_nonpos u hu.1 hu.2))

theorem dblOpen_unit01 (ff : FloatFacts F B) (w : UInt64) : Unit01 (VOps.dblOpen w : F) :=
  ⟨ff.lt_le _ _ (ff.dblOpen_unit w).1, ff.lt_le _ _ (ff.dblOpen_unit w).2⟩

theorem dbl_unit01 (ff : FloatFacts F B) (w : UInt64) : Unit01 (VOps.dbl w : F) :=
  ⟨(ff.dbl_unit w).1, ff.lt_le _ _ (ff.dbl_unit w).2⟩

/-- a `minv` / `mmin1inv` value: `1.0 / (double) k` for an integer `1 ≤ k ≤ B` -/
def IsInv (B : Int) (x : F) : Prop := ∃ k : Int, 1 ≤ k ∧ k ≤ B ∧ x = VOps.div VOps.one (I k)

theorem powU_unit_inv (ff : FloatFacts F B) (x : F) (hx : IsInv B x) (u : F) (hu : Unit01 u) : Unit01 (VOps.powU x u) := by
  obtain ⟨k, h1, h2, rfl⟩ := hx
  exact powU_unit_abs ff k h1 h2 u hu

/-! method D: the innermost loop -/
theorem d64FindS_abs (ff : FloatFacts F B) (next : σ → UInt64 × σ) (n : Int) (hn1 : 1 ≤ n) (hnB : n ≤ B) (minv : F)
    (hminv : IsInv B minv) (qu1 : Int) (fuel : Nat) (V : F) (s : σ) (hV : Unit01 V) (X : F) (S : Int) (s' : σ)
    (h : d64FindS next (I n) minv qu1 V s fuel = some (X, S, s')) :
    S < qu1 ∧ 0 ≤ S ∧ LE fz X ∧ LE X (I n) := by
  induction fuel generalizing V s with
  | zero => simp [d64FindS] at h
  | succ fuel ih =>
    simp only [d64FindS] at h
    split at h
    · rename_i hlt
      simp only [Option.some.injEq, Prod.mk.injEq] at h
      obtain ⟨hX, hS, _⟩ := h
      subst hX; subst hS
      obtain ⟨w0, w1⟩ := ff.one_sub_unit V hV.1 hV.2
      obtain ⟨x0, x1⟩ := ff.mul_int_unit n _ hn1 hnB w0 w1
      obtain ⟨f0, _⟩ := ff.floor_range _ n (by omega) hnB x0 x1
      exact ⟨hlt, f0, x0, x1⟩
    · exact ih _ _ (powU_unit_inv ff minv hminv _ (dblOpen_unit01 ff _)) h

/-! method D: the middle loop -/
structure CtxOKA (B : Int) (c : D64Ctx F) : Prop where
  n_pos : 1 ≤ c.n
  n_le : c.n ≤ B
  qu1_pos : 1 ≤ c.qu1
  qu1_le : c.qu1 ≤ c.n
  nreal_eq : c.nreal = I c.n
  qu1real_eq : c.qu1real = I c.qu1
  minv_inv : IsInv B c.minv
  mmin1inv_inv : IsInv B c.mmin1inv

theorem d64Accept_abs (ff : FloatFacts F B) (next : σ → UInt64 × σ) (c : D64Ctx F) (hc : CtxOKA B c)
    (fuel : Nat) (V : F) (s : σ) (hV : Unit01 V) (S : Int) (V1 : F) (s' : σ)
    (h : d64Accept next c V s fuel = some (S, V1, s')) :
    0 ≤ S ∧ S < c.qu1 ∧ Unit01 V1 := by
  induction fuel generalizing V s with
  | zero => simp [d64Accept] at h
  | succ fuel ih =>
    simp only [d64Accept] at h
    cases hfind : d64FindS next c.nreal c.minv c.qu1 V s (fuel+1) with
    | none => rw [hfind] at h; cases h
    | some r =>
      obtain ⟨X, S0, s1⟩ := r
      rw [hfind] at h
      simp only [] at h
      have hfind' := hfind
      rw [hc.nreal_eq] at hfind'
      obtain ⟨hlt, hS0, hX0, hX1⟩ := d64FindS_abs ff next c.n hc.n_pos hc.n_le c.minv hc.minv_inv c.qu1 _ V s hV X S0 s1 hfind'
      have hB1 : 1 ≤ B := Int.le_trans hc.n_pos hc.n_le
      have hu3 := dblOpen_unit01 (F := F) ff (next (next s1).2).1
      split at h
      · rename_i hle
        simp only [Option.some.injEq, Prod.mk.injEq] at h
        obtain ⟨hS, hV1, _⟩ := h
        subst hS; subst hV1
        refine ⟨hS0, hlt, ?_, hle⟩
        -- V1 = (y1 * A) * Q is not NaN (it passed `<= 1.`), so neither is y1 * A, so neither is y1 = exp(..) ≥ 0
        have hP' := ff.mul_left_notnan _ _ _ hle
        have hy' := ff.mul_left_notnan _ _ _ hP'
        have hy := ff.exp_nonneg _ _ hy'
        -- A = (-X)/nreal + 1 ≥ 0 from 0 ≤ X ≤ nreal, by monotonicity of each rounded operation
        have hA : LE fz (VOps.add (VOps.div (VOps.neg X) c.nreal) VOps.one) := by
          rw [hc.nreal_eq]
          have a1 := ff.neg_antitone _ _ hX1
          have a2 := ff.div_mono c.n _ _ hc.n_pos hc.n_le a1
          have a3 := ff.le_trans _ _ _ (ff.div_neg_self c.n hc.n_pos hc.n_le) a2
          have a4 := ff.add_one_mono _ _ a3
          have e : VOps.add (I (-1)) VOps.one = (fz : F) := by
            rw [one_eq_I, ff.add_int (-1) 1 (by omega) (by omega) (by omega) (by omega) (by omega) (by omega)]; rfl
          rw [e] at a4
          exact a4
        have hP := ff.mul_nonneg _ _ _ hy hA hP'
        -- Q = qu1real / (negSreal + qu1real) = qu1 / (qu1 - S) with 1 ≤ qu1 - S
        have hQ : LE fz (VOps.div c.qu1real (VOps.add (VOps.ofInt (-S0)) c.qu1real)) := by
          rw [hc.qu1real_eq]
          have hq1 := hc.qu1_pos; have hq2 := hc.qu1_le; have hn2 := hc.n_le
          have e : VOps.add (VOps.ofInt (-S0)) (I c.qu1) = (I (-S0 + c.qu1) : F) :=
            ff.add_int (-S0) c.qu1 (by omega) (by omega) (by omega) (by omega) (by omega) (by omega)
          rw [e]
          exact ff.div_int_nonneg c.qu1 (-S0 + c.qu1) (by omega) (by omega) (by omega) (by omega)
        exact ff.mul_nonneg _ _ _ hP hQ hle
      · split at h
        · simp only [Option.some.injEq, Prod.mk.injEq] at h
          obtain ⟨hS, hV1, _⟩ := h
          subst hS; subst hV1
          exact ⟨hS0, hlt, powU_unit_inv ff _ hc.mmin1inv_inv _ hu3⟩
        · exact ih _ _ (powU_unit_inv ff _ hc.minv_inv _ hu3) h

/-! method D: the outer loop -/
/-- `deal[0..i-1]` (newest first): strictly decreasing, every entry in `0..j` -/
def AccOKz (acc : List Int) (j : Int) : Prop := acc.Pairwise (· > ·) ∧ ∀ a ∈ acc, 0 ≤ a ∧ a ≤ j

theorem AccOKz.push {acc : List Int} {j : Int} (h : AccOKz acc j) (hj : -1 ≤ j) (S : Int) (hS : 0 ≤ S) :
    AccOKz ((j + (S + 1)) :: acc) (j + (S + 1)) := by
  refine ⟨List.pairwise_cons.2 ⟨fun a ha => ?_, h.1⟩, fun a ha => ?_⟩
  · have := h.2 a ha; omega
  · rcases List.mem_cons.1 ha with rfl | ha
    · omega
    · have := h.2 a ha; omega

structure StInvA (B m0 n0 : Int) (st : D64St F) : Prop where
  m_pos : 1 ≤ st.m
  m_le : st.m ≤ st.n
  qu1_eq : st.qu1 = st.n - st.m + 1
  mreal_eq : st.mreal = I st.m
  nreal_eq : st.nreal = I st.n
  qu1real_eq : st.qu1real = I st.qu1
  minv_inv : IsInv B st.minv
  V_unit : Unit01 st.V
  jn : st.j + st.n = n0 - 1
  len : (st.acc.length : Int) + st.m = m0
  j_lb : -1 ≤ st.j
  acc_ok : AccOKz st.acc st.j

theorem d64Main_abs (ff : FloatFacts F B) (next : σ → UInt64 × σ) (fuel : Nat) (m0 n0 : Int) (hn0 : n0 ≤ B) (k : Nat)
    (st : D64St F) (s : σ) (hinv : StInvA B m0 n0 st) (st' : D64St F) (s' : σ)
    (h : d64Main next fuel k st s = some (st', s')) : StInvA B m0 n0 st' := by
  induction k generalizing st s with
  | zero =>
    simp only [d64Main] at h
    split at h
    · cases h
    · cases h; exact hinv
  | succ k ih =>
    simp only [d64Main] at h
    split at h
    · rename_i hcond
      have hm2 : 2 ≤ st.m := by omega
      have hnB : st.n ≤ B := by have := hinv.jn; have := hinv.j_lb; omega
      have hmm : IsInv B (st.ctx.mmin1inv) := by
        refine ⟨st.m - 1, by omega, by have := hinv.m_le; omega, ?_⟩
        show VOps.div VOps.one (VOps.add (VOps.ofInt (-1)) st.mreal) = VOps.div VOps.one (I (st.m - 1))
        rw [hinv.mreal_eq]
        have hml := hinv.m_le
        have e : VOps.add (VOps.ofInt (-1)) (I st.m) = (I (-1 + st.m) : F) :=
          ff.add_int (-1) st.m (by omega) (by omega) (by omega) (by omega) (by omega) (by omega)
        rw [e]
        have : (-1 : Int) + st.m = st.m - 1 := by omega
        rw [this]
      cases hacc : d64Accept next st.ctx st.V s fuel with
      | none => rw [hacc] at h; cases h
      | some r =>
        obtain ⟨S, V1, s1⟩ := r
        rw [hacc] at h
        simp only [] at h
        have hc : CtxOKA B st.ctx :=
          ⟨by have := hinv.m_pos; have := hinv.m_le; show 1 ≤ st.n; omega, hnB,
           by have := hinv.qu1_eq; have := hinv.m_le; show 1 ≤ st.qu1; omega,
           by have := hinv.qu1_eq; show st.qu1 ≤ st.n; omega,
           hinv.nreal_eq, hinv.qu1real_eq, hinv.minv_inv, hmm⟩
        obtain ⟨hS0, hSlt, hV1⟩ := d64Accept_abs ff next _ hc fuel st.V s hinv.V_unit S V1 s1 hacc
        have hSlt' : S < st.qu1 := hSlt
        apply ih _ _ _ h
        have hq := hinv.qu1_eq
        have hml := hinv.m_le
        refine ⟨by show 1 ≤ st.m - 1; omega, by show st.m - 1 ≤ st.n - S - 1; omega,
          by show st.qu1 - S = st.n - S - 1 - (st.m - 1) + 1; omega, ?_, ?_, ?_, hmm, hV1,
          by have := hinv.jn; show st.j + (S + 1) + (st.n - S - 1) = n0 - 1; omega, ?_,
          by have := hinv.j_lb; show -1 ≤ st.j + (S + 1); omega, hinv.acc_ok.push hinv.j_lb S hS0⟩
        · show VOps.sub st.mreal VOps.one = I (st.m - 1)
          rw [hinv.mreal_eq, one_eq_I]
          exact ff.sub_int st.m 1 (by omega) (by omega) (by omega) (by omega) (by omega) (by omega)
        · show VOps.sub (VOps.add st.nreal (VOps.ofInt (-S))) VOps.one = I (st.n - S - 1)
          rw [hinv.nreal_eq, one_eq_I]
          have e : VOps.add (I st.n) (VOps.ofInt (-S)) = (I (st.n + -S) : F) :=
            ff.add_int st.n (-S) (by omega) (by omega) (by omega) (by omega) (by omega) (by omega)
          rw [e, ff.sub_int (st.n + -S) 1 (by omega) (by omega) (by omega) (by omega) (by omega) (by omega)]
          have : st.n + -S - 1 = st.n - S - 1 := by omega
          rw [this]
        · show VOps.add st.qu1real (VOps.ofInt (-S)) = I (st.qu1 - S)
          rw [hinv.qu1real_eq]
          have e : VOps.add (I st.qu1) (VOps.ofInt (-S)) = (I (st.qu1 + -S) : F) :=
            ff.add_int st.qu1 (-S) (by omega) (by omega) (by omega) (by omega) (by omega) (by omega)
          rw [e]
          have : st.qu1 + -S = st.qu1 - S := by omega
          rw [this]
        · have := hinv.len
          show (((st.j + (S + 1)) :: st.acc).length : Int) + (st.m - 1) = m0
          simp only [List.length_cons, Int.natCast_add, Int.natCast_one]; omega
    · cases h; exact hinv

/-! method A (`vitter_a`) -/
theorem vaSkip_abs (ff : FloatFacts F B) (U : F) (hU : LT fz U) (fuel : Nat) (quot top nreal : F) (S t r : Int)
    (ht : 0 ≤ t) (htr : t < r) (hrB : r ≤ B) (htop : top = I t) (hnr : nreal = I r) (hq01 : Unit01 quot)
    (hq : t = 0 → LE quot fz) (S' : Int) (top' nreal' : F)
    (h : vaSkip U fuel quot top nreal S = some (S', top', nreal')) :
    ∃ k : Int, 0 ≤ k ∧ k ≤ t ∧ S' = S + k ∧ top' = I (t - k) ∧ nreal' = I (r - k) := by
  induction fuel generalizing quot top nreal S t r with
  | zero => simp [vaSkip] at h
  | succ fuel ih =>
    simp only [vaSkip] at h
    split at h
    · rename_i hlt
      have ht1 : 1 ≤ t := by
        apply Classical.byContradiction
        intro hc
        have : t = 0 := by omega
        exact ff.lt_lt_le_absurd _ _ _ hU hlt (hq this)
      have etop : VOps.sub top VOps.one = (I (t - 1) : F) := by
        rw [htop, one_eq_I]; exact ff.sub_int t 1 (by omega) (by omega) (by omega) (by omega) (by omega) (by omega)
      have enr : VOps.sub nreal VOps.one = (I (r - 1) : F) := by
        rw [hnr, one_eq_I]; exact ff.sub_int r 1 (by omega) (by omega) (by omega) (by omega) (by omega) (by omega)
      rw [etop, enr] at h
      obtain ⟨m0, m1⟩ := ff.mul_unit_int quot (t - 1) hq01.1 hq01.2 (by omega) (by omega)
      have d0 : LE fz (VOps.div (VOps.mul quot (I (t - 1))) (I (r - 1))) :=
        ff.le_trans _ _ _ (ff.div_int_nonneg 0 (r - 1) (by omega) (by omega) (by omega) (by omega))
          (ff.div_mono (r - 1) _ _ (by omega) (by omega) m0)
      have d1 : LE (VOps.div (VOps.mul quot (I (t - 1))) (I (r - 1))) VOps.one :=
        ff.le_trans _ _ _ (ff.div_mono (r - 1) _ _ (by omega) (by omega) m1)
          (ff.div_int_le_one (t - 1) (r - 1) (by omega) (by omega) (by omega) (by omega))
      obtain ⟨k, hk0, hk1, hS, htop', hnr'⟩ := ih _ _ _ (S + 1) (t - 1) (r - 1) (by omega) (by omega) (by omega) rfl rfl
        ⟨d0, d1⟩
        (by
          intro ht0
          have m1' : LE (VOps.mul quot (I (t - 1))) (I 0) := by
            have hh := m1
            rw [show (I (t - 1) : F) = I 0 from by rw [ht0]] at hh ⊢
            exact hh
          exact ff.le_trans _ _ _ (ff.div_mono (r - 1) _ _ (by omega) (by omega) m1')
            (ff.div_zero_nonpos (r - 1) (by omega) (by omega))) h
      refine ⟨k + 1, by omega, by omega, by omega, ?_, ?_⟩
      · rw [htop']; congr 1; omega
      · rw [hnr']; congr 1; omega
    · simp only [Option.some.injEq, Prod.mk.injEq] at h
      obtain ⟨h1, h2, h3⟩ := h
      exact ⟨0, Int.le_refl _, ht, by omega, by rw [← h2, htop]; simp, by rw [← h3, hnr]; simp⟩

theorem vaLoop_abs (ff : FloatFacts F B) (next : σ → UInt64 × σ) (fuel : Nat) (m0 n0 : Int) (hn0 : n0 ≤ B) (k : Nat)
    (m j r : Int) (top nreal : F) (acc : List Int) (s : σ) (hm : 1 ≤ m) (hmr : m ≤ r) (htop : top = I (r - m))
    (hnr : nreal = I r) (hjr : j + r = n0 - 1) (hj : -1 ≤ j) (hacc : AccOKz acc j) (hlen : (acc.length : Int) + m = m0)
    (acc' : List Int) (s' : σ) (h : vaLoop next fuel k m j top nreal acc s = some (acc', s')) :
    (acc'.length : Int) = m0 ∧ AccOKz acc' (n0 - 1) := by
  induction k generalizing m j r top nreal acc s with
  | zero => simp [vaLoop] at h
  | succ k ih =>
    have hrB : r ≤ B := by omega
    simp only [vaLoop] at h
    split at h
    · rename_i hm2
      have hu := ff.dblOpen_unit (next s).1
      cases hsk : vaSkip (VOps.dblOpen (next s).1 : F) fuel (VOps.div top nreal) top nreal 0 with
      | none => rw [hsk] at h; cases h
      | some q =>
        obtain ⟨S, top', nreal'⟩ := q
        rw [hsk] at h
        simp only [] at h
        have hq01 : Unit01 (VOps.div top nreal) := by
          rw [htop, hnr]
          exact ⟨ff.div_int_nonneg (r - m) r (by omega) (by omega) (by omega) hrB,
                 ff.div_int_le_one (r - m) r (by omega) (by omega) (by omega) hrB⟩
        have hq0 : r - m = 0 → LE (VOps.div top nreal) fz := by
          intro h0; rw [htop, hnr, h0]; exact ff.div_zero_nonpos r (by omega) hrB
        obtain ⟨d, hd0, hd1, hS, htop', hnr'⟩ := vaSkip_abs ff _ hu.1 fuel _ top nreal 0 (r - m) r (by omega) (by omega) hrB
          htop hnr hq01 hq0 S top' nreal' hsk
        have hSd : S = d := by omega
        subst hSd
        have enr : VOps.sub nreal' VOps.one = (I (r - S - 1) : F) := by
          rw [hnr', one_eq_I]; exact ff.sub_int (r - S) 1 (by omega) (by omega) (by omega) (by omega) (by omega) (by omega)
        refine ih (m - 1) (j + (S + 1)) (r - S - 1) top' _ _ _ (by omega) (by omega)
          (by rw [htop']; congr 1; omega) enr (by omega) (by omega) (hacc.push hj S hd0) ?_ h
        simp only [List.length_cons, Int.natCast_add, Int.natCast_one]; omega
    · rename_i hm2
      have hm1 : m = 1 := by omega
      simp only [Option.some.injEq, Prod.mk.injEq] at h
      obtain ⟨h1, _⟩ := h
      have hu := ff.dbl_unit (F := F) (next s).1
      have hS : 0 ≤ VOps.floorI (VOps.mul (VOps.round nreal) (VOps.dbl (next s).1 : F)) ∧
                VOps.floorI (VOps.mul (VOps.round nreal) (VOps.dbl (next s).1 : F)) < r := by
        rw [hnr, ff.round_int r (by omega) hrB]
        obtain ⟨x0, x1⟩ := ff.mul_int_lt' r _ (by omega) hrB hu.1 hu.2
        exact ff.floor_lt' _ r (by omega) hrB x0 x1
      rw [← h1]
      constructor
      · simp only [List.length_cons, Int.natCast_add, Int.natCast_one]; omega
      · have hp := hacc.push hj _ hS.1
        refine ⟨hp.1, fun a ha => ?_⟩
        have := hp.2 a ha
        omega

/-! method A terminates for EVERY generator state (no probability involved): the skip loop runs at most `t = n - m` times because the
    integer-valued double `top` reaches exactly 0, which makes `quot ≤ 0 < U`; so fuel `t + 1` per skip and `m` passes suffice -/
theorem vaSkip_terminates (ff : FloatFacts F B) (U : F) (hU : LT fz U) (fuel : Nat) (quot top nreal : F) (S t r : Int)
    (ht : 0 ≤ t) (htr : t < r) (hrB : r ≤ B) (htop : top = I t) (hnr : nreal = I r) (hq01 : Unit01 quot)
    (hq : t = 0 → LE quot fz) (hfuel : t < fuel) : (vaSkip U fuel quot top nreal S).isSome := by
  induction fuel generalizing quot top nreal S t r with
  | zero => omega
  | succ fuel ih =>
    simp only [vaSkip]
    split
    · rename_i hlt
      have ht1 : 1 ≤ t := by
        apply Classical.byContradiction
        intro hc
        have : t = 0 := by omega
        exact ff.lt_lt_le_absurd _ _ _ hU hlt (hq this)
      have etop : VOps.sub top VOps.one = (I (t - 1) : F) := by
        rw [htop, one_eq_I]; exact ff.sub_int t 1 (by omega) (by omega) (by omega) (by omega) (by omega) (by omega)
      have enr : VOps.sub nreal VOps.one = (I (r - 1) : F) := by
        rw [hnr, one_eq_I]; exact ff.sub_int r 1 (by omega) (by omega) (by omega) (by omega) (by omega) (by omega)
      rw [etop, enr]
      obtain ⟨m0, m1⟩ := ff.mul_unit_int quot (t - 1) hq01.1 hq01.2 (by omega) (by omega)
      have d0 : LE fz (VOps.div (VOps.mul quot (I (t - 1))) (I (r - 1))) :=
        ff.le_trans _ _ _ (ff.div_int_nonneg 0 (r - 1) (by omega) (by omega) (by omega) (by omega))
          (ff.div_mono (r - 1) _ _ (by omega) (by omega) m0)
      have d1 : LE (VOps.div (VOps.mul quot (I (t - 1))) (I (r - 1))) VOps.one :=
        ff.le_trans _ _ _ (ff.div_mono (r - 1) _ _ (by omega) (by omega) m1)
          (ff.div_int_le_one (t - 1) (r - 1) (by omega) (by omega) (by omega) (by omega))
      exact ih _ _ _ (S + 1) (t - 1) (r - 1) (by omega) (by omega) (by omega) rfl rfl ⟨d0, d1⟩
        (by
          intro ht0
          have m1' : LE (VOps.mul quot (I (t - 1))) (I 0) := by
            have hh := m1
            rw [show (I (t - 1) : F) = I 0 from by rw [ht0]] at hh ⊢
            exact hh
          exact ff.le_trans _ _ _ (ff.div_mono (r - 1) _ _ (by omega) (by omega) m1')
            (ff.div_zero_nonpos (r - 1) (by omega) (by omega))) (by omega)
    · rfl

theorem vaLoop_terminates (ff : FloatFacts F B) (next : σ → UInt64 × σ) (fuel : Nat) (k : Nat) (m j r : Int) (top nreal : F)
    (acc : List Int) (s : σ) (hm : 1 ≤ m) (hmr : m ≤ r) (hrB : r ≤ B) (htop : top = I (r - m)) (hnr : nreal = I r)
    (hk : m ≤ k) (hfuel : r - m < fuel) : (vaLoop next fuel k m j top nreal acc s).isSome := by
  induction k generalizing m j r top nreal acc s with
  | zero => omega
  | succ k ih =>
    simp only [vaLoop]
    split
    · rename_i hm2
      have hu := ff.dblOpen_unit (next s).1
      have hq01 : Unit01 (VOps.div top nreal) := by
        rw [htop, hnr]
        exact ⟨ff.div_int_nonneg (r - m) r (by omega) (by omega) (by omega) hrB,
               ff.div_int_le_one (r - m) r (by omega) (by omega) (by omega) hrB⟩
      have hq0 : r - m = 0 → LE (VOps.div top nreal) fz := by
        intro h0; rw [htop, hnr, h0]; exact ff.div_zero_nonpos r (by omega) hrB
      have hsome := vaSkip_terminates ff _ hu.1 fuel (VOps.div top nreal) top nreal 0 (r - m) r (by omega) (by omega) hrB
        htop hnr hq01 hq0 (by omega)
      cases hsk : vaSkip (VOps.dblOpen (next s).1 : F) fuel (VOps.div top nreal) top nreal 0 with
      | none => rw [hsk] at hsome; cases hsome
      | some q =>
        obtain ⟨S, top', nreal'⟩ := q
        simp only []
        obtain ⟨d, hd0, hd1, hS, htop', hnr'⟩ := vaSkip_abs ff _ hu.1 fuel _ top nreal 0 (r - m) r (by omega) (by omega) hrB
          htop hnr hq01 hq0 S top' nreal' hsk
        have hSd : S = d := by omega
        subst hSd
        have enr : VOps.sub nreal' VOps.one = (I (r - S - 1) : F) := by
          rw [hnr', one_eq_I]; exact ff.sub_int (r - S) 1 (by omega) (by omega) (by omega) (by omega) (by omega) (by omega)
        exact ih (m - 1) (j + (S + 1)) (r - S - 1) top' _ _ _ (by omega) (by omega) (by omega)
          (by rw [htop']; congr 1; omega) enr (by omega) (by omega)
    · rfl

/-! `esl_rand64_Deal` -/
/-- exactly `m` strictly increasing values in `0..hi` -/
def DealOKz (out : List Int) (m hi : Int) : Prop :=
  (out.length : Int) = m ∧ out.Pairwise (· < ·) ∧ ∀ a ∈ out, 0 ≤ a ∧ a ≤ hi

theorem AccOKz.dealOK {acc : List Int} {j m : Int} (h : AccOKz acc j) (hl : (acc.length : Int) = m) : DealOKz acc.reverse m j :=
  ⟨by simpa using hl, by rw [List.pairwise_reverse]; exact h.1, fun a ha => h.2 a (List.mem_reverse.1 ha)⟩

theorem d64LastSkip_abs (ff : FloatFacts F B) (n : Int) (hn : 1 ≤ n) (hnB : n ≤ B) (V : F) (hV : Unit01 V) :
    0 ≤ d64LastSkip n V ∧ d64LastSkip n V < n := by
  obtain ⟨x0, x1⟩ := ff.mul_int_unit n V hn hnB hV.1 hV.2
  have hf : 0 ≤ VOps.floorI (VOps.mul (VOps.ofInt n) V) ∧ VOps.floorI (VOps.mul (VOps.ofInt n) V) ≤ n :=
    ff.floor_range _ n (by omega) hnB x0 x1
  obtain ⟨f0, f1⟩ := hf
  simp only [d64LastSkip]
  split <;> omega

/-- `esl_rand64_Deal` over the abstract carrier: exactly `m` strictly increasing values in `0..n-1`, for every `1 ≤ m ≤ n ≤ B`,
    every generator (`next`, `s`), every fuel -/
theorem deal64Core_abs (ff : FloatFacts F B) (next : σ → UInt64 × σ) (fuel : Nat) (m n : Int) (hm : 1 ≤ m) (hmn : m ≤ n)
    (hnB : n ≤ B) (s : σ) (out : List Int) (v : Option F) (s' : σ) (h : deal64Core next fuel m n s = some (out, v, s')) :
    DealOKz out m (n - 1) := by
  simp only [deal64Core] at h
  have hV0 : Unit01 (VOps.powU (VOps.div VOps.one (VOps.ofInt m)) (VOps.dbl (next s).1 : F)) :=
    powU_unit_abs ff m hm (by omega) _ (dbl_unit01 ff _)
  have hinv0 : StInvA B m n (d64Init m n (next s).1 : D64St F) := by
    refine ⟨hm, hmn, rfl, rfl, rfl, ?_, ⟨m, hm, by omega, rfl⟩, hV0, by show (-1 : Int) + n = n - 1; omega,
      by simp [d64Init], Int.le_refl _, ⟨List.Pairwise.nil, by simp [d64Init]⟩⟩
    show VOps.add (VOps.sub (VOps.ofInt n) (VOps.ofInt m)) VOps.one = I (n - m + 1)
    rw [one_eq_I, ff.sub_int n m (by omega) (by omega) (by omega) (by omega) (by omega) (by omega),
      ff.add_int (n - m) 1 (by omega) (by omega) (by omega) (by omega) (by omega) (by omega)]
  revert h
  generalize (d64Init m n (next s).1 : D64St F) = st0 at hinv0 ⊢
  intro h
  cases hmain : d64Main next fuel m.toNat st0 (next s).2 with
  | none => rw [hmain] at h; cases h
  | some q =>
    obtain ⟨st, s1⟩ := q
    rw [hmain] at h
    simp only [] at h
    have hinv := d64Main_abs ff next fuel m n hnB _ st0 _ hinv0 st s1 hmain
    split at h
    · cases hva : vitterA (F := F) next fuel st.m st.n st.j st.acc s1 with
      | none => rw [hva] at h; cases h
      | some q =>
        obtain ⟨acc, s2⟩ := q
        rw [hva] at h
        simp only [Option.some.injEq, Prod.mk.injEq] at h
        obtain ⟨h1, _, _⟩ := h
        subst h1
        obtain ⟨hl, hok⟩ := vaLoop_abs ff next fuel m n hnB _ st.m st.j st.n _ _ st.acc s1 hinv.m_pos hinv.m_le rfl rfl
          hinv.jn hinv.j_lb hinv.acc_ok hinv.len acc s2 hva
        exact hok.dealOK hl
    · rename_i hm1
      have hm1' : st.m = 1 := by have := hinv.m_pos; omega
      simp only [Option.some.injEq, Prod.mk.injEq] at h
      obtain ⟨h1, _, _⟩ := h
      subst h1
      have hnB' : st.n ≤ B := by have := hinv.jn; have := hinv.j_lb; omega
      obtain ⟨hS0, hS1⟩ := d64LastSkip_abs ff st.n (by have := hinv.m_le; omega) hnB' st.V hinv.V_unit
      have hp := hinv.acc_ok.push hinv.j_lb _ hS0
      have hl : ((((st.j + (d64LastSkip st.n st.V + 1)) :: st.acc).length : Nat) : Int) = m := by
        have := hinv.len
        simp only [List.length_cons, Int.natCast_add, Int.natCast_one]; omega
      have hd := hp.dealOK hl
      have hjn := hinv.jn
      refine ⟨hd.1, hd.2.1, fun a ha => ?_⟩
      have := hd.2.2 a ha; omega

/-! ## The code before fix ba43348 (no clamp in the final step), and its failure on the abstract carrier -/
/-- `esl_rand64_Deal` as it was before ba43348: the final step is `S = floor(n * Vprime); j += S+1;` without `if (S >= n) S = n-1` -/
def deal64PreFix (next : σ → UInt64 × σ) (fuel : Nat) (m n : Int) (s : σ) : Option (List Int × σ) :=
  let p0 := next s
  let st0 : D64St F := d64Init m n p0.1
  match d64Main next fuel m.toNat st0 p0.2 with
  | none => none
  | some (st, s1) =>
    if st.m > 1 then
      match vitterA (F := F) next fuel st.m st.n st.j st.acc s1 with
      | none => none
      | some (acc, s2) => some (acc.reverse, s2)
    else
      let S := VOps.floorI (VOps.mul (VOps.ofInt st.n) st.V)
      some (((st.j + (S + 1)) :: st.acc).reverse, s1)

/-- the two versions differ only where the clamp fires -/
theorem deal64PreFix_one (next : σ → UInt64 × σ) (fuel : Nat) (n : Int) (s : σ) :
    deal64PreFix (F := F) next fuel 1 n s =
      some ([-1 + (VOps.floorI (VOps.mul (VOps.ofInt n) (VOps.powU (VOps.div VOps.one (VOps.ofInt 1)) (VOps.dbl (next s).1 : F))) + 1)],
            (next s).2) := by
  simp [deal64PreFix, d64Main, d64Init]

/-- Pre-fix defect on ANY carrier: if the first `Vprime = exp((1/m)·log u)` comes out as a value `v` with `floor(n·v) = n` — which
    is what `v = 1.0` gives in binary64 (`n·1.0 = n`, `floor(n) = n`), and `Vprime == 1.0` passes the test `Vprime <= 1.` —
    the deal of 1 from `n` is `[n]`: out of the range `0..n-1` -/
theorem deal64PreFix_out_of_range (next : σ → UInt64 × σ) (fuel : Nat) (n : Int) (s : σ)
    (h1 : VOps.floorI (VOps.mul (VOps.ofInt n) (VOps.powU (VOps.div VOps.one (VOps.ofInt 1)) (VOps.dbl (next s).1 : F))) = n) :
    deal64PreFix (F := F) next fuel 1 n s = some ([n], (next s).2) ∧ ¬ DealOKz [n] 1 (n - 1) := by
  rw [deal64PreFix_one, h1]
  refine ⟨by congr 2; simp; omega, fun h => ?_⟩
  have := (h.2.2 n (by simp)).2
  omega

end
end EaselModel.Random
