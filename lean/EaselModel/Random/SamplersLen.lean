import EaselModel.Random.Samplers
import EaselModel.Random.Lemmas
/-! `esl_rnd_mem` writes exactly `n` bytes; `esl_rnd_floatstring` writes at most 19 characters before the NUL (the caller's
    buffer is documented as 20) — for every source state and fuel. Core Lean only. -/
namespace EaselModel.Random
variable {σ : Type}

theorem SRes.bind_ok' {α β : Type} {x : SRes α} {f : α → SRes β} {b : β} (h : x.bind f = .ok b) :
    ∃ a, x = .ok a ∧ f a = .ok b := by
  cases x with
  | ok a => exact ⟨a, rfl, h⟩
  | nofuel => cases h
  | fault => cases h

theorem rollS_lt (next : σ → UInt32 × σ) (n : Nat) (s : σ) (f : Nat) (v : Nat) (s' : σ)
    (h : rollS next n s f = .ok (v, s')) : v < n := by
  induction f generalizing s with
  | zero => simp [rollS] at h
  | succ f ih =>
    simp only [rollS] at h
    split at h
    · rename_i v' hv
      simp only [SRes.ok.injEq, Prod.mk.injEq] at h
      rw [← h.1]; exact rollWord_lt _ _ _ hv
    · exact ih _ h

/-- `esl_rnd_mem`: exactly `n` values, each a byte -/
theorem rndMem_spec (next : σ → UInt32 × σ) (fu n : Nat) (acc : List Nat) (s : σ) (bs : List Nat) (s' : σ)
    (hacc : ∀ b ∈ acc, b < 256) (h : rndMem next fu n acc s = .ok (bs, s')) :
    bs.length = acc.length + n ∧ ∀ b ∈ bs, b < 256 := by
  induction n generalizing acc s with
  | zero =>
    simp only [rndMem, SRes.ok.injEq, Prod.mk.injEq] at h
    rw [← h.1]
    exact ⟨by simp, fun b hb => hacc b (List.mem_reverse.1 hb)⟩
  | succ n ih =>
    simp only [rndMem] at h
    obtain ⟨⟨v, s1⟩, hv, hrest⟩ := SRes.bind_ok' h
    have hlt := rollS_lt next 256 s fu v s1 hv
    obtain ⟨q1, q2⟩ := ih (v :: acc) s1 (fun b hb => by
      rcases List.mem_cons.1 hb with rfl | hb
      · exact hlt
      · exact hacc b hb) hrest
    exact ⟨by simp at q1 ⊢; omega, q2⟩

theorem rndDigits_len (next : σ → UInt32 × σ) (fu k : Nat) (acc : List Char) (s : σ) (cs : List Char) (s' : σ)
    (h : rndDigits next fu k acc s = .ok (cs, s')) : cs.length = acc.length + k := by
  induction k generalizing acc s with
  | zero => simp only [rndDigits, SRes.ok.injEq, Prod.mk.injEq] at h; rw [← h.1]; simp
  | succ k ih =>
    simp only [rndDigits] at h
    obtain ⟨⟨v, s1⟩, _, hrest⟩ := SRes.bind_ok' h
    have := ih _ _ hrest
    simp at this ⊢; omega

theorem expLen : ∀ k : Fin 41, (toString ((k.val : Int) - 20)).toList.length ≤ 3 := by decide

/-- `esl_rnd_floatstring` writes at most 19 characters (+ NUL = the documented 20) -/
theorem floatString_len (next : σ → UInt32 × σ) (fu : Nat) (s : σ) (cs : List Char) (s' : σ)
    (h : floatString next fu s = .ok (cs, s')) : 1 ≤ cs.length ∧ cs.length ≤ 19 := by
  simp only [floatString] at h
  obtain ⟨⟨sg, s1⟩, _, h⟩ := SRes.bind_ok' h
  obtain ⟨⟨nl, s2⟩, hnl, h⟩ := SRes.bind_ok' h
  have hnl7 := rollS_lt next 7 _ fu nl s2 hnl
  obtain ⟨⟨ip, s3⟩, hip, h⟩ := SRes.bind_ok' h
  -- integer part: 1..6 digits after an optional sign
  have hsg : (if sg ≠ 0 then ['-'] else ([] : List Char)).length ≤ 1 := by split <;> simp
  have hipl : 1 ≤ ip.length ∧ ip.length ≤ 7 := by
    simp only [] at hip
    split at hip
    · simp only [SRes.ok.injEq, Prod.mk.injEq] at hip
      rw [← hip.1]; simp only [List.length_append, List.length_cons, List.length_nil]; omega
    · obtain ⟨⟨d1, s2'⟩, _, hip⟩ := SRes.bind_ok' hip
      have := rndDigits_len next fu _ _ _ _ _ hip
      rw [this]; simp only [List.length_append, List.length_cons, List.length_nil]; omega
  obtain ⟨⟨fr, s4⟩, _, h⟩ := SRes.bind_ok' h
  obtain ⟨⟨fp, s5⟩, hfp, h⟩ := SRes.bind_ok' h
  have hfpl : ip.length ≤ fp.length ∧ fp.length ≤ ip.length + 8 := by
    simp only [] at hfp
    split at hfp
    · obtain ⟨⟨fl, s4'⟩, hfl, hfp⟩ := SRes.bind_ok' hfp
      have hfl7 := rollS_lt next 7 _ fu fl s4' hfl
      have := rndDigits_len next fu _ _ _ _ _ hfp
      rw [this]; simp only [List.length_append, List.length_cons, List.length_nil]; omega
    · simp only [SRes.ok.injEq, Prod.mk.injEq] at hfp
      rw [← hfp.1]; omega
  obtain ⟨⟨ex, s6⟩, _, h⟩ := SRes.bind_ok' h
  simp only [] at h
  split at h
  · obtain ⟨⟨ev, s7⟩, hev, h⟩ := SRes.bind_ok' h
    have hev41 := rollS_lt next 41 _ fu ev s7 hev
    simp only [SRes.ok.injEq, Prod.mk.injEq] at h
    rw [← h.1]
    have := expLen ⟨ev, hev41⟩
    simp only [List.length_append, List.length_cons, List.length_nil]
    simp only [] at this
    omega
  · simp only [SRes.ok.injEq, Prod.mk.injEq] at h
    rw [← h.1]; omega

end EaselModel.Random
