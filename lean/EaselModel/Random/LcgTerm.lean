import EaselModel.Random.RollTerm
/-! # `esl_rnd_Roll` terminates on the legacy LCG for every state (C09)

`x ↦ 69069·x + 1` iterated `2^31` times is `x ↦ x + 2^31` (thirty-one squarings of the affine map, checked by `decide` on the two
coefficients), so of any two outputs `2^31` draws apart exactly one has its top bit clear, and that one is accepted by every roll. -/
namespace EaselModel.Random

def lcgStep (x : UInt32) : UInt32 := x * 69069 + 1

/-- coefficients of the `2^j`-fold iterate `x ↦ a·x + c` -/
def lcgPow : Nat → UInt32 × UInt32
  | 0 => (69069, 1)
  | j + 1 => let (a, c) := lcgPow j; (a * a, a * c + c)

theorem lcgStep_iter_pow (j : Nat) (x : UInt32) : lcgStep^[2 ^ j] x = (lcgPow j).1 * x + (lcgPow j).2 := by
  induction j generalizing x with
  | zero => simp [lcgPow, lcgStep, UInt32.mul_comm]
  | succ j ih =>
    have e : 2 ^ (j + 1) = 2 ^ j + 2 ^ j := by rw [Nat.pow_succ]; omega
    rw [e, Function.iterate_add_apply, ih, ih]
    simp only [lcgPow]
    rw [UInt32.mul_add, ← UInt32.mul_assoc, UInt32.add_assoc]

theorem lcgPow_31 : lcgPow 31 = (1, 2147483648) := by decide +kernel

theorem lcg_eq_iter (x0 : UInt32) (k : Nat) : lcg x0 k = lcgStep^[k] x0 := by
  induction k with
  | zero => rfl
  | succ k ih => rw [Function.iterate_succ_apply', ← ih]; rfl

theorem lcg_half_period (x0 : UInt32) (k : Nat) : lcg x0 (k + 2 ^ 31) = lcg x0 k + 2147483648 := by
  rw [lcg_eq_iter, Nat.add_comm, Function.iterate_add_apply, lcgStep_iter_pow, lcgPow_31, ← lcg_eq_iter]
  simp

theorem lcg_top_clear_within (x0 : UInt32) (k : Nat) : ∃ i, i ≤ 2 ^ 31 ∧ (lcg x0 (k + i)).toNat < 2 ^ 31 := by
  by_cases h : (lcg x0 k).toNat < 2 ^ 31
  · exact ⟨0, by omega, h⟩
  · refine ⟨2 ^ 31, Nat.le_refl _, ?_⟩
    rw [lcg_half_period, UInt32.toNat_add]
    have := (lcg x0 k).toNat_lt
    have e : (2147483648 : UInt32).toNat = 2 ^ 31 := by decide
    rw [e]
    omega

theorem Rng.roll_of_accept_fast (n : Nat) (i : Nat) : ∀ (r : Rng), r.kind = .fast →
    (∃ v, rollWord n (lcg r.x (i + 1)).toNat = some v) → ∀ fuel, i < fuel → ∃ v r', r.roll n fuel = some (v, r') := by
  induction i with
  | zero =>
    intro r hk ⟨v, hv⟩ fuel hf
    obtain ⟨f, rfl⟩ : ∃ f, fuel = f + 1 := ⟨fuel - 1, by omega⟩
    have hn : r.next = (r.x * 69069 + 1, { r with x := r.x * 69069 + 1 }) := by simp [Rng.next, hk]
    simp only [Rng.roll, hn]
    have hv' : rollWord n (r.x * 69069 + 1).toNat = some v := hv
    rw [hv']
    exact ⟨_, _, rfl⟩
  | succ i ih =>
    intro r hk hacc fuel hf
    obtain ⟨f, rfl⟩ : ∃ f, fuel = f + 1 := ⟨fuel - 1, by omega⟩
    have hn : r.next = (r.x * 69069 + 1, { r with x := r.x * 69069 + 1 }) := by simp [Rng.next, hk]
    simp only [Rng.roll, hn]
    cases hw : rollWord n (r.x * 69069 + 1).toNat with
    | some v => exact ⟨_, _, rfl⟩
    | none =>
      simp only []
      apply ih { r with x := r.x * 69069 + 1 } hk _ f (by omega)
      show ∃ v, rollWord n (lcg (r.x * 69069 + 1) (i + 1)).toNat = some v
      rw [lcg_shift]
      exact hacc

/-- every state of the legacy generator: a roll of any `0 < n < 2^32` returns within `2^31 + 1` draws -/
theorem Rng.roll_terminates_fast (r : Rng) (hk : r.kind = .fast) (n : Nat) (hn : 0 < n) (hn' : n < 2 ^ 32) (fuel : Nat)
    (hf : 2 ^ 31 + 1 ≤ fuel) : ∃ v r', r.roll n fuel = some (v, r') := by
  obtain ⟨i, hi, hlt⟩ := lcg_top_clear_within r.x 1
  apply Rng.roll_of_accept_fast n i r hk _ fuel (by omega)
  have e : 1 + i = i + 1 := by omega
  rw [e] at hlt
  exact rollWord_small n _ hn hn' hlt

theorem Rng.draws_kind_fast (r : Rng) (k : Nat) (h : r.kind = .fast) : (r.draws k).2.kind = .fast := by
  induction k generalizing r with
  | zero => exact h
  | succ k ih =>
    simp only [Rng.draws]
    apply ih
    simp [Rng.next, h]

theorem Rng.initWith_kind (r : Rng) (seed : UInt32) : (r.initWith seed).kind = r.kind := by
  unfold Rng.initWith; split <;> simp_all

end EaselModel.Random
