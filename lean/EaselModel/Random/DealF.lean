import EaselModel.Random.Deal64
/-! # `esl_rnd_Deal` with its `double` comparison, over the abstract floating-point vocabulary `VOps` (C09). Core Lean only.

`for (j = 0; j < n && i < m; j++) if (((double)(n-j)) * esl_random(rng) < (double)(m-i)) deal[i++] = j;`

`Random/Model.lean: dealLoop` decides the test in exact integer arithmetic (`(n-j)·x < (m-i)·2^32`); that equals the binary64
test only while the product `(n-j)·x < 2^53` is representable (`n ≤ 2^21`); for larger `n` rounding can turn `<` into `=`
(`n-j = 2^31-1`, `m-i = 2^30`, `x = 2147483649`: the product is `2^30 - 2^-32`, which rounds to `2^30`).  Here the loop is
written with the carrier's own `mul` and `lt` (the `Float` instance = what C computes, run by the driver), and the structure
theorem needs ONE fact about them: a positive integer times a uniform deviate `x/2^32 ∈ [0,1)` compares below that integer
(`DealFact`; for binary64: `u ≤ 1-2^-32`, so `fl(a·u) ≤ a·(1-2^-32) < a`).  That is what makes "when as many candidates remain
as samples are wanted, every candidate is taken" true, hence exactly `m` values. -/
namespace EaselModel.Random
open VOps

variable {F : Type} [VOps F]

/-- `esl_random`: `(double) x / 4294967296.0` -/
def uni32 (x : UInt32) : F := VOps.div (VOps.ofInt (x.toNat : Int)) (VOps.ofInt 4294967296)

/-- the loop of `esl_rnd_Deal` over a word source `next`; `fuel` = `n` suffices -/
def dealLoopF {σ : Type} (next : σ → UInt32 × σ) (n m : Nat) : Nat → Nat → σ → List Nat → Nat → List Nat × σ
  | _, _, s, acc, 0 => (acc.reverse, s)
  | j, i, s, acc, fuel+1 =>
    if j < n ∧ i < m then
      let p := next s
      if VOps.lt (VOps.mul (VOps.ofInt ((n - j : Nat) : Int)) (uni32 p.1 : F)) (VOps.ofInt ((m - i : Nat) : Int)) then
        dealLoopF next n m (j+1) (i+1) p.2 (j :: acc) fuel
      else dealLoopF next n m (j+1) i p.2 acc fuel
    else (acc.reverse, s)

def dealF {σ : Type} (next : σ → UInt32 × σ) (m n : Nat) (s : σ) : List Nat × σ :=
  dealLoopF (F := F) next n m 0 0 s [] (n+1)

/-- the one floating-point fact: `(double) a * esl_random() < (double) a` for every integer `1 ≤ a ≤ B` and every raw word -/
def DealFact (F : Type) [VOps F] (B : Nat) : Prop :=
  ∀ (a : Nat) (x : UInt32), 1 ≤ a → a ≤ B →
    VOps.lt (VOps.mul (VOps.ofInt (a : Int)) (uni32 x : F)) (VOps.ofInt (a : Int)) = true

theorem dealLoopF_spec {σ : Type} (hf : DealFact F B) (next : σ → UInt32 × σ) (n m : Nat) (hnB : n ≤ B)
    (fuel j i : Nat) (s : σ) (acc : List Nat)
    (hj : j ≤ n) (hi : i ≤ m) (hrem : m - i ≤ n - j) (hfuel : n - j < fuel)
    (hlen : acc.length = i) (hlt : ∀ a ∈ acc, a < j) (hsorted : acc.Pairwise (· > ·)) :
    let out := (dealLoopF (F := F) next n m j i s acc fuel).1
    out.length = m ∧ (∀ a ∈ out, a < n) ∧ out.Pairwise (· < ·) := by
  induction fuel generalizing j i s acc with
  | zero => omega
  | succ fuel ih =>
    simp only [dealLoopF]
    split
    · rename_i hc
      obtain ⟨hjn, him⟩ := hc
      split
      · apply ih (j+1) (i+1) _ (j :: acc) (by omega) (by omega) (by omega) (by omega) (by simp [hlen])
        · intro a ha
          rcases List.mem_cons.1 ha with rfl | ha
          · omega
          · have := hlt a ha; omega
        · exact List.pairwise_cons.2 ⟨fun a ha => hlt a ha, hsorted⟩
      · rename_i hno
        -- not taken: then strictly more candidates than wanted samples remain (otherwise `DealFact` forces the test)
        have hne : m - i ≠ n - j := by
          intro he
          rw [he] at hno
          exact hno (hf (n - j) (next s).1 (by omega) (by omega))
        apply ih (j+1) i _ acc (by omega) hi (by omega) (by omega) hlen
        · intro a ha; have := hlt a ha; omega
        · exact hsorted
    · rename_i hc
      have hdone : i = m := by omega
      refine ⟨by simp [hlen, hdone], fun a ha => ?_, by rw [List.pairwise_reverse]; exact hsorted⟩
      have := hlt a (List.mem_reverse.1 ha); omega

/-- `esl_rnd_Deal` with the double-precision test: exactly `m` strictly increasing values in `0..n-1`, for every `m ≤ n ≤ B`,
    every source state -/
theorem dealF_spec {σ : Type} (hf : DealFact F B) (next : σ → UInt32 × σ) (m n : Nat) (h : m ≤ n) (hnB : n ≤ B) (s : σ) :
    let out := (dealF (F := F) next m n s).1
    out.length = m ∧ (∀ a ∈ out, a < n) ∧ out.Pairwise (· < ·) :=
  dealLoopF_spec hf next n m hnB (n+1) 0 0 s [] (by omega) (by omega) (by omega) (by omega) rfl (by simp) List.Pairwise.nil

end EaselModel.Random
