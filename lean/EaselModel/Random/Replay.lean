import EaselModel.Random.Samplers
import EaselModel.Random.Deal64
/-! # Replay: every derived sampler is a function of the raw word stream (C09). Core Lean only.

If two sources are related by a relation `R` that `next` preserves and under which `next` yields the same word
(a bisimulation), then every sampler of `Samplers.lean` gives related results: the same value (or the same `nofuel` /
`fault`) and related final states.  Instances: a re-initialised generator of any history vs a fresh generator of the
same seed (`Rng.SameCore`), for both generator kinds. -/
namespace EaselModel.Random
open SOps
variable {σ₁ σ₂ : Type} {F : Type} [SOps F]

def Bisim (n1 : σ₁ → UInt32 × σ₁) (n2 : σ₂ → UInt32 × σ₂) (R : σ₁ → σ₂ → Prop) : Prop :=
  ∀ s1 s2, R s1 s2 → (n1 s1).1 = (n2 s2).1 ∧ R (n1 s1).2 (n2 s2).2

/-- same outcome: equal values and related states, or the same failure -/
def RelS (R : σ₁ → σ₂ → Prop) {α : Type} : SRes (α × σ₁) → SRes (α × σ₂) → Prop
  | .ok (a, s1), .ok (b, s2) => a = b ∧ R s1 s2
  | .nofuel, .nofuel => True
  | .fault, .fault => True
  | _, _ => False

variable {R : σ₁ → σ₂ → Prop}

theorem RelS.ok {α : Type} {a : α} {s1 : σ₁} {s2 : σ₂} (h : R s1 s2) : RelS R (SRes.ok (a, s1)) (SRes.ok (a, s2)) :=
  ⟨rfl, h⟩

theorem RelS.bind {α β : Type} {x : SRes (α × σ₁)} {y : SRes (α × σ₂)} {f : α × σ₁ → SRes (β × σ₁)}
    {g : α × σ₂ → SRes (β × σ₂)} (h : RelS R x y) (hfg : ∀ a s1 s2, R s1 s2 → RelS R (f (a, s1)) (g (a, s2))) :
    RelS R (x.bind f) (y.bind g) := by
  cases x with
  | ok p =>
    cases y with
    | ok q =>
      obtain ⟨a, s1⟩ := p; obtain ⟨b, s2⟩ := q
      obtain ⟨hab, hs⟩ := h
      subst hab
      exact hfg a s1 s2 hs
    | nofuel => exact h.elim
    | fault => exact h.elim
  | nofuel => cases y <;> first | exact h.elim | trivial
  | fault => cases y <;> first | exact h.elim | trivial

/-- a state-free step (table read) that is the same on both sides -/
theorem RelS.bind_pure {α β : Type} (x : SRes α) {f : α → SRes (β × σ₁)} {g : α → SRes (β × σ₂)}
    (hfg : ∀ a, RelS R (f a) (g a)) : RelS R (x.bind f) (x.bind g) := by
  cases x with
  | ok a => exact hfg a
  | nofuel => trivial
  | fault => trivial

variable {n1 : σ₁ → UInt32 × σ₁} {n2 : σ₂ → UInt32 × σ₂}

theorem uniPos_rel (hb : Bisim n1 n2 R) (f : Nat) (s1 : σ₁) (s2 : σ₂) (h : R s1 s2) :
    RelS R (uniPos (F := F) n1 s1 f) (uniPos n2 s2 f) := by
  induction f generalizing s1 s2 with
  | zero => trivial
  | succ f ih =>
    obtain ⟨hw, hR⟩ := hb s1 s2 h
    simp only [uniPos, hw]
    by_cases hc : (n2 s2).1 = 0
    · simp only [hc, ↓reduceIte]; exact ih _ _ hR
    · simp only [hc, ↓reduceIte]; exact RelS.ok hR

theorem gaussCenter_rel (hb : Bisim n1 n2 R) (fu : Nat) (T : GaussTables F) (i : Nat) (aa : F) (f : Nat)
    (ph : GPhase F) (s1 : σ₁) (s2 : σ₂) (h : R s1 s2) :
    RelS R (gaussCenter n1 fu T i aa ph s1 f) (gaussCenter n2 fu T i aa ph s2 f) := by
  induction f generalizing ph s1 s2 with
  | zero => cases ph <;> trivial
  | succ f ih =>
    cases ph with
    | p40 ustar =>
      simp only [gaussCenter]
      apply RelS.bind_pure; intro ti
      by_cases hc : le ustar ti = true
      · simp only [hc, ↓reduceIte]
        apply RelS.bind (uniPos_rel hb fu s1 s2 h); intro u t1 t2 ht
        apply RelS.bind_pure; intro ai
        exact ih _ _ _ ht
      · simp only [hc]
        apply RelS.bind_pure; intro hi
        exact RelS.ok h
    | p80 ustar tt w =>
      simp only [gaussCenter]
      by_cases hc : lt tt ustar = true
      · simp only [hc, ↓reduceIte]; exact RelS.ok h
      · simp only [hc]
        apply RelS.bind (uniPos_rel hb fu s1 s2 h); intro u t1 t2 ht
        apply RelS.bind (uniPos_rel hb fu t1 t2 ht); intro u2 t3 t4 ht2
        by_cases hc2 : le u ustar = true
        · simp only [hc2, ↓reduceIte]; exact ih _ _ _ ht2
        · simp only [hc2]; exact ih _ _ _ ht2

theorem gaussTail_rel (hb : Bisim n1 n2 R) (fu : Nat) (T : GaussTables F) (i : Nat) (aa : F) (f : Nat)
    (ph : TPhase F) (s1 : σ₁) (s2 : σ₂) (h : R s1 s2) :
    RelS R (gaussTail n1 fu T i aa ph s1 f) (gaussTail n2 fu T i aa ph s2 f) := by
  induction f generalizing ph s1 s2 with
  | zero => cases ph <;> trivial
  | succ f ih =>
    cases ph with
    | p140 u =>
      simp only [gaussTail]
      apply RelS.bind_pure; intro di
      exact ih _ _ _ h
    | p160 tt w =>
      simp only [gaussTail]
      apply RelS.bind (uniPos_rel hb fu s1 s2 h); intro us t1 t2 ht
      by_cases hc : lt tt us = true
      · simp only [hc, ↓reduceIte]; exact RelS.ok ht
      · simp only [hc]
        apply RelS.bind (uniPos_rel hb fu t1 t2 ht); intro u2 t3 t4 ht2
        by_cases hc2 : le u2 us = true
        · simp only [hc2, ↓reduceIte]; exact ih _ _ _ ht2
        · simp only [hc2]
          apply RelS.bind (uniPos_rel hb fu t3 t4 ht2); intro u3 t5 t6 ht3
          exact ih _ _ _ ht3

theorem gaussian_rel (hb : Bisim n1 n2 R) (fu fuel : Nat) (T : GaussTables F) (mean sd : F) (s1 : σ₁) (s2 : σ₂)
    (h : R s1 s2) : RelS R (gaussian n1 fu fuel T mean sd s1) (gaussian n2 fu fuel T mean sd s2) := by
  simp only [gaussian, gaussSnorm]
  refine RelS.bind ?_ (by intro a t1 t2 ht; exact RelS.ok ht)
  apply RelS.bind (uniPos_rel hb fu s1 s2 h); intro u0 t1 t2 ht
  simp only [gaussBody]
  by_cases hc : gaussIndex (gaussScale u0) = 0
  · simp only [hc, ↓reduceIte]
    apply RelS.bind_pure; intro a31
    apply RelS.bind_pure; intro r
    apply RelS.bind (gaussTail_rel hb fu T _ _ fuel _ t1 t2 ht); intro w t3 t4 ht2
    exact RelS.ok ht2
  · simp only [hc, ↓reduceIte]
    apply RelS.bind_pure; intro aa
    apply RelS.bind (gaussCenter_rel hb fu T _ _ fuel _ t1 t2 ht); intro w t3 t4 ht2
    exact RelS.ok ht2

theorem gammaIntU_rel (hb : Bisim n1 n2 R) (fu : Nat) (a : Nat) (U : F) (s1 : σ₁) (s2 : σ₂) (h : R s1 s2) :
    RelS R (gammaIntU n1 fu a U s1) (gammaIntU n2 fu a U s2) := by
  induction a generalizing U s1 s2 with
  | zero => exact RelS.ok h
  | succ a ih =>
    simp only [gammaIntU]
    apply RelS.bind (uniPos_rel hb fu s1 s2 h); intro u t1 t2 ht
    exact ih _ _ _ ht

theorem ahrensCand_rel (hb : Bisim n1 n2 R) (a : F) (f : Nat) (s1 : σ₁) (s2 : σ₂) (h : R s1 s2) :
    RelS R (ahrensCand n1 a s1 f) (ahrensCand n2 a s2 f) := by
  induction f generalizing s1 s2 with
  | zero => trivial
  | succ f ih =>
    obtain ⟨hw, hR⟩ := hb s1 s2 h
    simp only [ahrensCand, hw]
    split
    · exact ih _ _ hR
    · exact RelS.ok hR

theorem gammaAhrens_rel (hb : Bisim n1 n2 R) (a : F) (f : Nat) (s1 : σ₁) (s2 : σ₂) (h : R s1 s2) :
    RelS R (gammaAhrens n1 a s1 f) (gammaAhrens n2 a s2 f) := by
  induction f generalizing s1 s2 with
  | zero => trivial
  | succ f ih =>
    simp only [gammaAhrens]
    apply RelS.bind (ahrensCand_rel hb a (f+1) s1 s2 h); intro c t1 t2 ht
    obtain ⟨hw, hR⟩ := hb t1 t2 ht
    simp only [hw]
    split
    · exact ih _ _ hR
    · exact RelS.ok hR

theorem gammaFraction_rel (hb : Bisim n1 n2 R) (fu : Nat) (a : F) (f : Nat) (s1 : σ₁) (s2 : σ₂) (h : R s1 s2) :
    RelS R (gammaFraction n1 fu a s1 f) (gammaFraction n2 fu a s2 f) := by
  induction f generalizing s1 s2 with
  | zero => trivial
  | succ f ih =>
    obtain ⟨hw, hR⟩ := hb s1 s2 h
    simp only [gammaFraction, hw]
    apply RelS.bind (uniPos_rel hb fu _ _ hR); intro V t1 t2 ht
    obtain ⟨hw2, hR2⟩ := hb t1 t2 ht
    simp only [hw2]
    split
    · exact ih _ _ hR2
    · exact RelS.ok hR2

theorem gamma_rel (hb : Bisim n1 n2 R) (fu fuel : Nat) (a : F) (s1 : σ₁) (s2 : σ₂) (h : R s1 s2) :
    RelS R (gamma n1 fu fuel a s1) (gamma n2 fu fuel a s2) := by
  simp only [gamma, gammaInteger]
  split
  · refine RelS.bind (gammaIntU_rel hb fu _ _ s1 s2 h) ?_
    intro a t1 t2 ht; exact RelS.ok ht
  · split
    · exact gammaAhrens_rel hb a fuel s1 s2 h
    · split
      · exact gammaFraction_rel hb fu a fuel s1 s2 h
      · refine RelS.bind (RelS.bind (gammaIntU_rel hb fu _ _ s1 s2 h) ?_) ?_
        · intro a t1 t2 ht; exact RelS.ok ht
        intro g1 t1 t2 ht
        apply RelS.bind (gammaFraction_rel hb fu _ fuel t1 t2 ht); intro g2 t3 t4 ht2
        exact RelS.ok ht2

theorem dirichletDraw_rel (hb : Bisim n1 n2 R) (fu fuel : Nat) (alpha acc : List F) (norm : F) (s1 : σ₁) (s2 : σ₂)
    (h : R s1 s2) : RelS R (dirichletDraw n1 fu fuel alpha acc norm s1) (dirichletDraw n2 fu fuel alpha acc norm s2) := by
  induction alpha generalizing acc norm s1 s2 with
  | nil => exact RelS.ok h
  | cons al rest ih =>
    simp only [dirichletDraw]
    apply RelS.bind (gamma_rel hb fu fuel al s1 s2 h); intro g t1 t2 ht
    exact ih _ _ _ _ ht

theorem dirichlet_rel (hb : Bisim n1 n2 R) (fu fuel : Nat) (alpha : List F) (s1 : σ₁) (s2 : σ₂) (h : R s1 s2) :
    RelS R (dirichlet n1 fu fuel alpha s1) (dirichlet n2 fu fuel alpha s2) := by
  simp only [dirichlet]
  refine RelS.bind (dirichletDraw_rel hb fu fuel alpha [] _ s1 s2 h) ?_
  intro a t1 t2 ht; exact RelS.ok ht

theorem rollS_rel (hb : Bisim n1 n2 R) (n : Nat) (f : Nat) (s1 : σ₁) (s2 : σ₂) (h : R s1 s2) :
    RelS R (rollS n1 n s1 f) (rollS n2 n s2 f) := by
  induction f generalizing s1 s2 with
  | zero => trivial
  | succ f ih =>
    obtain ⟨hw, hR⟩ := hb s1 s2 h
    simp only [rollS, hw]
    split
    · exact RelS.ok hR
    · exact ih _ _ hR

theorem rndMem_rel (hb : Bisim n1 n2 R) (fu n : Nat) (acc : List Nat) (s1 : σ₁) (s2 : σ₂) (h : R s1 s2) :
    RelS R (rndMem n1 fu n acc s1) (rndMem n2 fu n acc s2) := by
  induction n generalizing acc s1 s2 with
  | zero => exact RelS.ok h
  | succ n ih =>
    simp only [rndMem]
    apply RelS.bind (rollS_rel hb 256 fu s1 s2 h); intro v t1 t2 ht
    exact ih _ _ _ ht

theorem rndDigits_rel (hb : Bisim n1 n2 R) (fu k : Nat) (acc : List Char) (s1 : σ₁) (s2 : σ₂) (h : R s1 s2) :
    RelS R (rndDigits n1 fu k acc s1) (rndDigits n2 fu k acc s2) := by
  induction k generalizing acc s1 s2 with
  | zero => exact RelS.ok h
  | succ k ih =>
    simp only [rndDigits]
    apply RelS.bind (rollS_rel hb 10 fu s1 s2 h); intro v t1 t2 ht
    exact ih _ _ _ ht

theorem floatString_rel (hb : Bisim n1 n2 R) (fu : Nat) (s1 : σ₁) (s2 : σ₂) (h : R s1 s2) :
    RelS R (floatString n1 fu s1) (floatString n2 fu s2) := by
  simp only [floatString]
  apply RelS.bind (rollS_rel hb 2 fu s1 s2 h); intro sg t1 t2 ht
  apply RelS.bind (rollS_rel hb 7 fu t1 t2 ht); intro nl t3 t4 ht2
  apply RelS.bind
  · split
    · exact RelS.ok ht2
    · apply RelS.bind (rollS_rel hb 9 fu t3 t4 ht2); intro d1 t5 t6 ht3
      exact rndDigits_rel hb fu _ _ t5 t6 ht3
  intro ip t5 t6 ht3
  apply RelS.bind (rollS_rel hb 2 fu t5 t6 ht3); intro fr t7 t8 ht4
  apply RelS.bind
  · split
    · apply RelS.bind (rollS_rel hb 7 fu t7 t8 ht4); intro fl t9 t10 ht5
      exact rndDigits_rel hb fu _ _ t9 t10 ht5
    · exact RelS.ok ht4
  intro fp t9 t10 ht5
  apply RelS.bind (rollS_rel hb 2 fu t9 t10 ht5); intro ex t11 t12 ht6
  split
  · apply RelS.bind (rollS_rel hb 41 fu t11 t12 ht6); intro ev t13 t14 ht7
    exact RelS.ok ht7
  · exact RelS.ok ht6

/-! ## the 32-bit generator: the draw stream depends only on `kind` and on the table (Mersenne) resp. `x` (fast) -/
def Rng.SameStream (r1 r2 : Rng) : Prop :=
  r1.kind = r2.kind ∧ (r1.kind = .mersenne → r1.st = r2.st) ∧ (r1.kind = .fast → r1.x = r2.x)

theorem Rng.sameStream_bisim : Bisim Rng.next Rng.next Rng.SameStream := by
  intro r1 r2 ⟨hk, hs, hx⟩
  cases h1 : r1.kind with
  | mersenne =>
    have h2 : r2.kind = .mersenne := by rw [← hk]; exact h1
    simp [Rng.next, Rng.SameStream, h1, h2, hs h1]
  | fast =>
    have h2 : r2.kind = .fast := by rw [← hk]; exact h1
    simp [Rng.next, Rng.SameStream, h1, h2, hx h1]

/-- `esl_randomness_Init(r, seed)` after any history puts the generator in the state of a fresh
    `esl_randomness_Create(seed)` / `CreateFast(seed)`, up to fields its draw function never reads -/
theorem Rng.initWith_sameStream (r : Rng) (seed : UInt32) :
    Rng.SameStream (r.initWith seed) (Rng.create r.kind seed) := by
  cases h : r.kind with
  | mersenne => simp [Rng.SameStream, Rng.initWith, Rng.create, h]
  | fast => simp [Rng.SameStream, Rng.initWith, Rng.create, h]

end EaselModel.Random
