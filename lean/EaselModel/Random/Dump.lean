import EaselModel.Random.Lemmas
/-! # Seed selection with an explicit environment, `esl_rand64_Init`, and the two `Dump` functions (C09). Core Lean only.

* `Rng.initEnv / createEnv / Rng64.initEnv / createEnv`: `esl_randomness_Init`, `_Create`, `_CreateFast`,
  `_CreateTimeseeded`, `esl_rand64_Init`, `esl_rand64_Create` for ANY seed including 0; the three words that
  `choose_arbitrary_seed()` reads (`time()`, `getpid()`, `clock()`) are the explicit input `env`.
* `Rng.dump`, `Rng64.dump`: the text `esl_randomness_Dump` / `esl_rand64_Dump` write; every table read goes through a
  bounds-checked accessor (`none` = out-of-bounds read = the defect repaired by 6211f3f at `mti == 624`). -/
namespace EaselModel.Random
open EaselModel.MTP

abbrev Env := UInt32 × UInt32 × UInt32

/-- `esl_randomness_Init(r, seed)`, any seed -/
def Rng.initEnv (r : Rng) (seed : UInt32) (env : Env) : Rng := r.initWith (effSeed32 seed env)
/-- `esl_randomness_Create(seed)` / `esl_randomness_CreateFast(seed)`, any seed -/
def Rng.createEnv (k : Kind) (seed : UInt32) (env : Env) : Rng := Rng.create k (effSeed32 seed env)
/-- `esl_randomness_CreateTimeseeded()` = `esl_randomness_Create(0)` -/
def Rng.createTimeseeded (env : Env) : Rng := Rng.createEnv .mersenne 0 env

/-- `esl_rand64_Init(rng, seed)` for a non-zero seed: the whole state is replaced -/
def Rng64.initWith (_r : Rng64) (seed : UInt64) : Rng64 := Rng64.create seed
def Rng64.initEnv (r : Rng64) (seed : UInt64) (env : Env) : Rng64 := r.initWith (effSeed64 seed env)
def Rng64.createEnv (seed : UInt64) (env : Env) : Rng64 := Rng64.create (effSeed64 seed env)

/-! ## Dump -/
/-- `printf("%<w>d")` of a non-negative number / `%<w>u`: right-justified in `w` columns -/
def padLeft (w : Nat) (s : String) : String := String.ofList (List.replicate (w - s.length) ' ') ++ s

/-- read `mt[i], …, mt[i+k-1]`, each through the bounds check -/
def readCells {α : Type} (mt : Array α) : Nat → Nat → Option (List α)
  | _, 0 => some []
  | i, k+1 =>
    match mt[i]? with
    | none => none
    | some w => (readCells mt (i+1) k).map (w :: ·)

theorem readCells_isSome {α : Type} (mt : Array α) (i k : Nat) (h : i + k ≤ mt.size) : (readCells mt i k).isSome := by
  induction k generalizing i with
  | zero => rfl
  | succ k ih =>
    have hi : i < mt.size := by omega
    simp only [readCells, Array.getElem?_eq_getElem hi]
    have := ih (i+1) (by omega)
    cases h' : readCells mt (i+1) k with
    | none => rw [h'] at this; cases this
    | some l => rfl

/-- the table loop of `esl_randomness_Dump`: `"%11u "` per word, after every 20th `"\n%6d: "` with the next index -/
def dumpRows32 : List UInt32 → Nat → Nat → String → String
  | [], _, _, acc => acc
  | w :: ws, i, j, acc =>
    let acc := acc ++ padLeft 11 (toString w.toNat) ++ " "
    if j + 1 = 20 then dumpRows32 ws (i+1) 0 (acc ++ "\n" ++ padLeft 6 (toString (i+1)) ++ ": ")
    else dumpRows32 ws (i+1) (j+1) acc

/-- `esl_randomness_Dump(fp, r)`: the text written, or `none` for a read outside `mt[0..623]` -/
def Rng.dump (r : Rng) : Option String :=
  match r.kind with
  | .fast => some ("type  = knuth\n" ++ s!"state = {r.x.toNat}\n" ++ s!"seed  = {r.seed.toNat}\n")
  | .mersenne =>
    let head := "type    = mersenne twister\n" ++ s!"mti     = {r.st.mti} (0..623)\n"
    let cur : Option String :=
      if r.st.mti < 624 then (r.st.mt[r.st.mti]?).map fun w => s!"mt[mti] = {w.toNat}\n"
      else some "mt[mti] = (table exhausted)\n"
    match cur, readCells r.st.mt 0 624 with
    | some c, some cells => some (head ++ c ++ dumpRows32 cells 0 0 (padLeft 6 "0" ++ ": ") ++ "\n")
    | _, _ => none

/-- the table loop of `esl_rand64_Dump`: `"%20lu  "` per word, `"\n"` after every 10th -/
def dumpRows64 : List UInt64 → Nat → String → String
  | [], _, acc => acc
  | w :: ws, i, acc =>
    let acc := acc ++ padLeft 20 (toString w.toNat) ++ "  "
    dumpRows64 ws (i+1) (if i % 10 = 9 then acc ++ "\n" else acc)

/-- `esl_rand64_Dump(fp, rng)` -/
def Rng64.dump (r : Rng64) : Option String :=
  match readCells r.st.mt 0 312 with
  | some cells =>
    some ("MT19937-64 RNG state:\n" ++ s!"mti     = {r.st.mti} (0..311)\n" ++ s!"seed    = {r.seed.toNat}\n"
          ++ dumpRows64 cells 0 "" ++ "\n")
  | none => none

/-! ## Well-formed generator states: what every history of Create / Init / draws reaches -/
def Rng.WF (r : Rng) : Prop := r.kind = .mersenne → r.st.mt.size = 624 ∧ r.st.mti ≤ 624
def Rng64.WF (r : Rng64) : Prop := r.st.mt.size = 312 ∧ r.st.mti ≤ 312

theorem init_size {α : Type} [Inhabited α] (P : Params α) (seed : α) : (init P seed).mt.size = P.N ∧ (init P seed).mti = 0 := by
  obtain ⟨j, hs, _, _, _⟩ := init_inv P seed
  exact ⟨hs, rfl⟩

theorem next_size {α : Type} [Inhabited α] (P : Params α) (s : St α) (hs : s.mt.size = P.N) (hm : s.mti ≤ P.N) :
    (MTP.next P s).2.mt.size = P.N ∧ (MTP.next P s).2.mti ≤ P.N ∧ 1 ≤ (MTP.next P s).2.mti := by
  have hN : 2 ≤ P.N := P.hM.2.2
  by_cases hfull : s.mti ≥ P.N
  · have e : (MTP.next P s).2 = { mt := refill P s.mt, mti := 1 } := by simp [MTP.next, hfull]
    rw [e]
    exact ⟨(fillA_toFn P.g P.N P.M P.i1 P.iM P.hi1 P.hiM s.mt hs).1, by show 1 ≤ P.N; omega, Nat.le_refl _⟩
  · have e : (MTP.next P s).2 = { s with mti := s.mti + 1 } := by simp [MTP.next, hfull]
    rw [e]
    exact ⟨hs, by show s.mti + 1 ≤ P.N; omega, by show 1 ≤ s.mti + 1; omega⟩

theorem Rng.wf_initWith (r : Rng) (seed : UInt32) : (r.initWith seed).WF := by
  intro hk
  unfold Rng.initWith at hk ⊢
  split
  · obtain ⟨h1, h2⟩ := init_size P32 seed
    exact ⟨h1, by show (init P32 seed).mti ≤ 624; omega⟩
  · rename_i hf; simp [hf] at hk

theorem Rng.wf_create (k : Kind) (seed : UInt32) : (Rng.create k seed).WF := Rng.wf_initWith _ seed

theorem Rng.wf_next (r : Rng) (h : r.WF) : (r.next).2.WF := by
  intro hk
  cases hkind : r.kind with
  | mersenne =>
    obtain ⟨h1, h2⟩ := h hkind
    obtain ⟨a, b, _⟩ := next_size P32 r.st h1 h2
    have e : (r.next).2 = { r with st := (MTP.next P32 r.st).2 } := by simp [Rng.next, hkind]
    rw [e]; exact ⟨a, b⟩
  | fast =>
    have e : (r.next).2 = { r with x := r.x * 69069 + 1 } := by simp [Rng.next, hkind]
    rw [e] at hk; simp [hkind] at hk

theorem Rng64.wf_create (seed : UInt64) : (Rng64.create seed).WF := by
  obtain ⟨h1, h2⟩ := init_size P64 seed
  exact ⟨h1, by show (init P64 seed).mti ≤ 312; omega⟩

theorem Rng64.wf_next (r : Rng64) (h : r.WF) : (r.next).2.WF := by
  obtain ⟨a, b, _⟩ := next_size P64 r.st h.1 h.2
  exact ⟨a, b⟩

/-- `esl_randomness_Dump` never reads outside the table — in particular not at `mti == 624` (fix 6211f3f) -/
theorem Rng.dump_isSome (r : Rng) (h : r.WF) : r.dump.isSome := by
  unfold Rng.dump
  cases hk : r.kind with
  | fast => rfl
  | mersenne =>
    obtain ⟨h1, h2⟩ := h hk
    have hc := readCells_isSome r.st.mt 0 624 (by omega)
    simp only []
    cases hrc : readCells r.st.mt 0 624 with
    | none => rw [hrc] at hc; cases hc
    | some cells =>
      by_cases hm : r.st.mti < 624
      · have hi : r.st.mti < r.st.mt.size := by omega
        simp [hm, Array.getElem?_eq_getElem hi]
      · simp [hm]

theorem Rng64.dump_isSome (r : Rng64) (h : r.WF) : r.dump.isSome := by
  unfold Rng64.dump
  have hc := readCells_isSome r.st.mt 0 312 (by have := h.1; omega)
  cases hrc : readCells r.st.mt 0 312 with
  | none => rw [hrc] at hc; cases hc
  | some cells => rfl

/-- the pre-fix `esl_randomness_Dump` read `mt[mti]` unconditionally: out of bounds exactly when the table is used up -/
def Rng.dumpCurPreFix (r : Rng) : Option UInt32 := r.st.mt[r.st.mti]?

theorem Rng.dumpCurPreFix_fault (r : Rng) (hs : r.st.mt.size = 624) (hm : r.st.mti = 624) : r.dumpCurPreFix = none := by
  simp [Rng.dumpCurPreFix, hm, hs]

theorem Rng.wf_draws (r : Rng) (h : r.WF) (k : Nat) : (r.draws k).2.WF := by
  induction k generalizing r with
  | zero => exact h
  | succ k ih => simp only [Rng.draws]; exact ih _ (Rng.wf_next r h)

theorem Rng64.wf_draws (r : Rng64) (h : r.WF) (k : Nat) : (r.draws k).2.WF := by
  induction k generalizing r with
  | zero => exact h
  | succ k ih => simp only [Rng64.draws]; exact ih _ (Rng64.wf_next r h)

/-- drawing `k` words from a table at position `i`, `i + k ≤ 624`, leaves it at position `i + k` (no refill in between) -/
theorem Rng.mti_draws (r : Rng) (hk : r.kind = .mersenne) (k : Nat) (h : r.st.mti + k ≤ 624) :
    (r.draws k).2.st.mti = r.st.mti + k ∧ (r.draws k).2.kind = .mersenne := by
  induction k generalizing r with
  | zero => exact ⟨rfl, hk⟩
  | succ k ih =>
    have hlt : ¬ (r.st.mti ≥ P32.N) := by show ¬ (r.st.mti ≥ 624); omega
    have e : (r.next).2 = { r with st := { r.st with mti := r.st.mti + 1 } } := by
      simp [Rng.next, hk, MTP.next, hlt]
    simp only [Rng.draws]
    obtain ⟨a, b⟩ := ih (r.next).2 (by rw [e]; exact hk) (by rw [e]; show r.st.mti + 1 + k ≤ 624; omega)
    rw [a, e]
    exact ⟨by show r.st.mti + 1 + k = r.st.mti + (k + 1); omega, by rw [e] at b; exact b⟩

/-- the state in which the pre-fix `esl_randomness_Dump` read out of bounds is reached by every seed: Create, 624 draws -/
theorem Rng.dumpCurPreFix_fault_reached (seed : UInt32) : ((Rng.create .mersenne seed).draws 624).2.dumpCurPreFix = none := by
  have hk : (Rng.create .mersenne seed).kind = .mersenne := by simp [Rng.create, Rng.initWith]
  have h0 : (Rng.create .mersenne seed).st.mti = 0 := by simp [Rng.create, Rng.initWith, init]
  obtain ⟨a, b⟩ := Rng.mti_draws _ hk 624 (by omega)
  have hw := Rng.wf_draws _ (Rng.wf_create .mersenne seed) 624 b
  exact Rng.dumpCurPreFix_fault _ hw.1 (by rw [a, h0])

end EaselModel.Random
