/-! `esl_rnd_DChoose` / `FChoose` / `DChooseCDF` over an abstract floating type (C09).
    The executable instance is binary64 (`Float`); the theorem needs only `x + 0 = x` and that the first test
    fails on an empty running sum. -/
namespace EaselModel.Random

class FOps (F : Type) where
  add : F → F → F
  div : F → F → F
  lt : F → F → Bool
  zero : F

instance : FOps Float := ⟨(· + ·), (· / ·), (fun a b => a < b), 0.0⟩

variable {F : Type} [FOps F]

/-- the second loop of `esl_rnd_DChoose`: running sum, first index with `roll < sum/norm` -/
def chooseGo (roll norm : F) : List F → F → Nat → Option Nat
  | [], _, _ => none       -- "unreached code was reached": esl_fatal
  | q :: rest, sum, i =>
    let sum' := FOps.add sum q
    if FOps.lt roll (FOps.div sum' norm) then some i else chooseGo roll norm rest sum' (i+1)

def dchoose (roll : F) (p : List F) : Option Nat :=
  let norm := p.foldl FOps.add FOps.zero
  chooseGo roll norm p FOps.zero 0

def dchooseCDFgo (roll last : F) : List F → Nat → Option Nat
  | [], _ => none
  | c :: rest, i => if FOps.lt roll (FOps.div c last) then some i else dchooseCDFgo roll last rest (i+1)

theorem chooseGo_nonzero (hadd : ∀ x : F, FOps.add x FOps.zero = x) (roll norm : F) (p : List F) (sum : F) (i0 : Nat)
    (hinv : FOps.lt roll (FOps.div sum norm) = false) (r : Nat) (h : chooseGo roll norm p sum i0 = some r) :
    i0 ≤ r ∧ ∃ q, p[r - i0]? = some q ∧ q ≠ FOps.zero := by
  induction p generalizing sum i0 with
  | nil => simp [chooseGo] at h
  | cons q rest ih =>
    simp only [chooseGo] at h
    split at h
    · rename_i hlt
      cases h
      refine ⟨Nat.le_refl _, q, by simp, ?_⟩
      intro hq
      rw [hq, hadd] at hlt
      rw [hinv] at hlt
      cases hlt
    · rename_i hnlt
      have hnlt' : FOps.lt roll (FOps.div (FOps.add sum q) norm) = false := by simpa using hnlt
      obtain ⟨hle, q', hq', hne⟩ := ih _ _ hnlt' h
      refine ⟨by omega, q', ?_, hne⟩
      have : r - i0 = (r - (i0+1)) + 1 := by omega
      rw [this]; simpa using hq'

end EaselModel.Random
