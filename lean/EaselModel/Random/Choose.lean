/-! `esl_rnd_DChoose` / `FChoose` / `DChooseCDF` over an abstract floating type (C09).
    The executable instance is binary64 (`Float`); the theorem needs only `x + 0 = x` and that the first test
    fails on an empty running sum. -/
namespace EaselModel.Random

class FOps (F : Type) where
  add : F → F → F
  div : F → F → F
  lt : F → F → Bool
  zero : F

instance : FOps Float := ⟨(· + ·), (· / ·), (fun a b => a < b), 0.0⟩

variable {F : Type} [FOps F]

/-- the second loop of `esl_rnd_DChoose`: running sum, first index with `roll < sum/norm` -/
def chooseGo (roll norm : F) : List F → F → Nat → Option Nat
  | [], _, _ => none       -- "unreached code was reached": esl_fatal
  | q :: rest, sum, i =>
    let sum' := FOps.add sum q
    if FOps.lt roll (FOps.div sum' norm) then some i else chooseGo roll norm rest sum' (i+1)

def dchoose (roll : F) (p : List F) : Option Nat :=
  let norm := p.foldl FOps.add FOps.zero
  chooseGo roll norm p FOps.zero 0

def dchooseCDFgo (roll last : F) : List F → Nat → Option Nat
  | [], _ => none
  | c :: rest, i => if FOps.lt roll (FOps.div c last) then some i else dchooseCDFgo roll last rest (i+1)

theorem chooseGo_nonzero (hadd : ∀ x : F, FOps.add x FOps.zero = x) (roll norm : F) (p : List F) (sum : F) (i0 : Nat)
    (hinv : FOps.lt roll (FOps.div sum norm) = false) (r : Nat) (h : chooseGo roll norm p sum i0 = some r) :
    i0 ≤ r ∧ ∃ q, p[r - i0]? = some q ∧ q ≠ FOps.zero := by
  induction p generalizing sum i0 with
  | nil => simp [chooseGo] at h
  | cons q rest ih =>
    simp only [chooseGo] at h
    split at h
    · rename_i hlt
      cases h
      refine ⟨Nat.le_refl _, q, by simp, ?_⟩
      intro hq
      rw [hq, hadd] at hlt
      rw [hinv] at hlt
      cases hlt
    · rename_i hnlt
      have hnlt' : FOps.lt roll (FOps.div (FOps.add sum q) norm) = false := by simpa using hnlt
      obtain ⟨hle, q', hq', hne⟩ := ih _ _ hnlt' h
      refine ⟨by omega, q', ?_, hne⟩
      have : r - i0 = (r - (i0+1)) + 1 := by omega
      rw [this]; simpa using hq'

/-- when every test of the loop fails, in particular the LAST one failed, and its running sum is the complete sum -/
theorem chooseGo_none (roll norm : F) (p : List F) (hp : p ≠ []) (sum : F) (i0 : Nat)
    (h : chooseGo roll norm p sum i0 = none) : FOps.lt roll (FOps.div (p.foldl FOps.add sum) norm) = false := by
  induction p generalizing sum i0 with
  | nil => exact absurd rfl hp
  | cons q rest ih =>
    simp only [chooseGo] at h
    split at h
    · cases h
    · rename_i hnlt
      cases rest with
      | nil => simpa using hnlt
      | cons q2 rest2 => exact ih (by simp) _ _ h

/-- `esl_rnd_DChoose` / `FChoose` never reach `esl_fatal("unreached code was reached")`: the second loop's final running sum is
    bit for bit `norm` (the same additions in the same order from 0.0), so the last test is `roll < norm/norm`; whenever that
    holds (`norm/norm = 1` for a finite non-zero `norm`, `roll ∈ [0,1)`) an index is returned — any floating type, no law assumed -/
theorem dchoose_returns (roll : F) (p : List F) (hp : p ≠ [])
    (h1 : FOps.lt roll (FOps.div (p.foldl FOps.add FOps.zero) (p.foldl FOps.add FOps.zero)) = true) :
    ∃ r, dchoose roll p = some r := by
  cases h : dchoose roll p with
  | some r => exact ⟨r, rfl⟩
  | none =>
    have := chooseGo_none roll _ p hp FOps.zero 0 h
    rw [this] at h1
    cases h1

/-- the CDF variants: the returned index is the FIRST one whose test `roll < cdf[i]/cdf[N-1]` holds -/
theorem dchooseCDFgo_first (roll last : F) (cdf : List F) (i0 r : Nat) (h : dchooseCDFgo roll last cdf i0 = some r) :
    i0 ≤ r ∧ (∃ c, cdf[r - i0]? = some c ∧ FOps.lt roll (FOps.div c last) = true) ∧
    ∀ k, k < r - i0 → ∃ c, cdf[k]? = some c ∧ FOps.lt roll (FOps.div c last) = false := by
  induction cdf generalizing i0 with
  | nil => simp [dchooseCDFgo] at h
  | cons c rest ih =>
    simp only [dchooseCDFgo] at h
    split at h
    · rename_i hlt
      cases h
      exact ⟨Nat.le_refl _, ⟨c, by simp, hlt⟩, fun k hk => by omega⟩
    · rename_i hnlt
      obtain ⟨hle, ⟨c', hc', hlt'⟩, hprev⟩ := ih _ h
      have e : r - i0 = (r - (i0+1)) + 1 := by omega
      refine ⟨by omega, ⟨c', by rw [e]; simpa using hc', hlt'⟩, fun k hk => ?_⟩
      cases k with
      | zero => exact ⟨c, by simp, by simpa using hnlt⟩
      | succ k =>
        obtain ⟨c2, hc2, h2⟩ := hprev k (by omega)
        exact ⟨c2, by simpa using hc2, h2⟩

/-- `esl_rnd_DChooseCDF` / `FChooseCDF` return an index of non-zero probability mass: the chosen `cdf[r]` differs from its
    predecessor `cdf[r-1]` (from `0` for `r = 0`, given that the roll is not below `0/cdf[N-1]`) — any floating type -/
theorem dchooseCDF_nonzero (roll last : F) (cdf : List F) (hroll : FOps.lt roll (FOps.div FOps.zero last) = false) (r : Nat)
    (h : dchooseCDFgo roll last cdf 0 = some r) :
    ∃ c, cdf[r]? = some c ∧ (r = 0 → c ≠ FOps.zero) ∧ (∀ c', 0 < r → cdf[r - 1]? = some c' → c ≠ c') := by
  obtain ⟨_, ⟨c, hc, hlt⟩, hprev⟩ := dchooseCDFgo_first roll last cdf 0 r h
  refine ⟨c, by simpa using hc, fun _ hz => ?_, fun c' hr hc' he => ?_⟩
  · rw [hz, hroll] at hlt; cases hlt
  · obtain ⟨c2, hc2, h2⟩ := hprev (r - 1) (by omega)
    rw [hc'] at hc2
    cases hc2
    rw [he, h2] at hlt
    cases hlt

/-- and they never reach `esl_fatal` when `roll < cdf[N-1]/cdf[N-1]` -/
theorem dchooseCDF_returns (roll last : F) (cdf : List F) (i0 : Nat) (hl : cdf.getLast? = some last)
    (h1 : FOps.lt roll (FOps.div last last) = true) : ∃ r, dchooseCDFgo roll last cdf i0 = some r := by
  induction cdf generalizing i0 with
  | nil => simp at hl
  | cons c rest ih =>
    simp only [dchooseCDFgo]
    split
    · exact ⟨i0, rfl⟩
    · rename_i hn
      cases rest with
      | nil =>
        simp at hl
        rw [hl] at hn
        exact absurd h1 hn
      | cons c2 rest2 => exact ih _ (by simpa using hl)

end EaselModel.Random
