import EaselModel.Random.LinRec
import EaselModel.Random.Lemmas
/-! # `esl_rnd_Roll` / `esl_rand64_Roll` terminate for EVERY seed on the Mersenne Twisters (C09)

No probability and no computation over seeds.  Facts used:
* a rejected raw word has its top bit set (`n·⌊W/n⌋ > W/2`), so a word with top bit 0 is accepted for every `n`;
* the top bit of the tempered output is the XOR of four fixed bits of the state word (`temper32_top`, `temper64_top`);
* the refill recurrence, bit by bit, is a `LinRec.BitSystem` (`bits32`, `bits64`), so each state bit sequence is annihilated
  by one polynomial in the shift with `ψ(1) = 1` (the top bit of the twist constant `A`) and degree `≤ 19998`;
* hence the top output bit cannot be 1 at 19999 consecutive stream positions (`LinRec.window`).
The bound is structural (linear recurrence + `A`'s top bit), not an equidistribution statement. -/
namespace EaselModel.Random
open EaselModel.MTP LinRec Polynomial

def bz (b : Bool) : ZMod 2 := if b then 1 else 0

theorem bz_xor (a b : Bool) : bz (a ^^ b) = bz a + bz b := by cases a <;> cases b <;> decide
theorem bz_and (a b : Bool) : bz (a && b) = bz a * bz b := by cases a <;> cases b <;> decide
theorem bz_cancel (c u v : Bool) : bz ((c ^^ u) ^^ v) + bz c = bz u + bz v := by cases c <;> cases u <;> cases v <;> decide
theorem bz_false_of_zero (a : Bool) (h : bz a = 0) : a = false := by cases a <;> simp_all [bz]

/-! ## accepted whenever the top bit is clear -/
theorem roll_accepts_small (Wd n x h : Nat) (hn : 0 < n) (hnW : n ≤ Wd) (hW : Wd + 1 = 2 * h) (hx : x < h) :
    x / (Wd / n) < n := by
  have hf : 0 < Wd / n := Nat.div_pos hnW hn
  have hdm := Nat.div_add_mod Wd n
  have hr := Nat.mod_lt Wd hn
  by_cases hc : n ≤ h
  · apply (Nat.div_lt_iff_lt_mul hf).mpr
    omega
  · have : Wd / n < 2 := (Nat.div_lt_iff_lt_mul hn).mpr (by omega)
    have : Wd / n = 1 := by omega
    rw [this, Nat.div_one]
    omega

theorem rollWord_small (n x : Nat) (hn : 0 < n) (hn' : n < 2 ^ 32) (hx : x < 2 ^ 31) : ∃ v, rollWord n x = some v := by
  have := roll_accepts_small (2 ^ 32 - 1) n x (2 ^ 31) hn (by omega) (by decide) hx
  exact ⟨x / ((2 ^ 32 - 1) / n), by simp only [rollWord, this, ↓reduceIte]⟩

theorem rollWord64_small (n x : Nat) (hn : 0 < n) (hn' : n < 2 ^ 64) (hx : x < 2 ^ 63) : ∃ v, rollWord64 n x = some v := by
  have := roll_accepts_small (2 ^ 64 - 1) n x (2 ^ 63) hn (by omega) (by decide) hx
  exact ⟨x / ((2 ^ 64 - 1) / n), by simp only [rollWord64, this, ↓reduceIte]⟩

/-! ## MT19937, bit by bit -/
theorem y32_testBit (a b : UInt32) (i : Nat) :
    ((a &&& (0x80000000 : UInt32)) ||| (b &&& (0x7fffffff : UInt32))).toNat.testBit i
      = ((a.toNat.testBit i && decide (i = 31)) || (b.toNat.testBit i && decide (i < 31))) := by
  simp only [UInt32.toNat_or, UInt32.toNat_and, Nat.testBit_or, Nat.testBit_and]
  have h1 : (0x80000000 : UInt32).toNat = 2 ^ 31 := by decide
  have h2 : (0x7fffffff : UInt32).toNat = 2 ^ 31 - 1 := by decide
  rw [h1, h2, Nat.testBit_two_pow, Nat.testBit_two_pow_sub_one]
  simp [eq_comm]

theorem y32_testBit0 (a b : UInt32) :
    ((a &&& (0x80000000 : UInt32)) ||| (b &&& (0x7fffffff : UInt32))).toNat.testBit 0 = b.toNat.testBit 0 := by
  rw [y32_testBit]; simp

theorem and_one_eq_zero32 (y : UInt32) : (y &&& 1 = 0) ↔ y.toNat.testBit 0 = false := by
  rw [← UInt32.toNat_inj]
  simp only [UInt32.toNat_and]
  have : (1 : UInt32).toNat = 1 := by decide
  rw [this, Nat.and_one_is_mod, Nat.testBit_zero]
  simp

/-- bit `j` of the twisted word: bit `j` of `mt[z+M]`, XOR bit `j+1` of `y` (from `mt[z]` for `j+1 = 31`, from `mt[z+1]` below),
    XOR `A`'s bit `j` when bit 0 of `mt[z+1]` is set -/
theorem twist32_testBit (a b c : UInt32) (j : Nat) :
    (twist32 a b c).toNat.testBit j
      = ((c.toNat.testBit j ^^ ((a.toNat.testBit (j+1) && decide (j+1 = 31)) || (b.toNat.testBit (j+1) && decide (j+1 < 31))))
          ^^ (b.toNat.testBit 0 && (0x9908b0df : Nat).testBit j)) := by
  unfold twist32
  simp only []
  split
  · rename_i h
    rw [and_one_eq_zero32, y32_testBit0] at h
    simp only [UInt32.toNat_xor, Nat.testBit_xor, UInt32.toNat_shiftRight, Nat.testBit_shiftRight, y32_testBit, h]
    simp [Nat.add_comm 1 j]
  · rename_i h
    rw [and_one_eq_zero32, y32_testBit0] at h
    have h' : b.toNat.testBit 0 = true := by simpa using h
    simp only [UInt32.toNat_xor, Nat.testBit_xor, UInt32.toNat_shiftRight, Nat.testBit_shiftRight, y32_testBit, h']
    simp [Nat.add_comm 1 j]

theorem ref32_step (seed : UInt32) (k : Nat) :
    ref P32 seed (k + 624) = twist32 (ref P32 seed k) (ref P32 seed (k + 1)) (ref P32 seed (k + 397)) := by
  unfold ref
  rw [spec.eq_1]
  have : ¬ (k + 624 < P32.N) := by show ¬ (k + 624 < 624); omega
  simp only [this, ↓reduceDIte]
  have e : k + 624 - P32.N = k := by show k + 624 - 624 = k; omega
  rw [e]
  rfl

/-- the bit sequences of the MT19937 reference word sequence of a seed -/
def s32 (seed : UInt32) (j : Nat) : Sq := fun k => bz ((ref P32 seed k).toNat.testBit j)
def A32 (j : Nat) : ZMod 2 := bz ((0x9908b0df : Nat).testBit j)
def dmin (j : Nat) : Nat := min j 30

theorem T_Pp_apply (N M : Nat) (c : Sq) (k : Nat) : T (Pp N M) c k = c (k + N) + c (k + M) := by
  unfold Pp T
  simp only [map_add, map_pow, aeval_X, LinearMap.add_apply, Pi.add_apply, E_pow_apply]

theorem bits32 (seed : UInt32) : BitSystem 624 397 A32 dmin (s32 seed) 31 where
  d0 := rfl
  mono := by intro j; unfold dmin; omega
  rel := by
    intro j hj
    funext k
    rw [T_Pp_apply]
    show _ = ((E ^ (dmin (j + 1) - dmin j)) (s32 seed (j + 1))) k + A32 j * (s32 seed 0) (k + 1)
    rw [E_pow_apply]
    simp only [s32, A32, ref32_step, twist32_testBit]
    rw [bz_cancel, bz_and, mul_comm]
    congr 2
    by_cases h30 : j < 30
    · have : dmin (j + 1) - dmin j = 1 := by unfold dmin; omega
      rw [this]
      have h1 : ¬ (j + 1 = 31) := by omega
      have h2 : j + 1 < 31 := by omega
      simp [h1, h2]
    · have hj30 : j = 30 := by omega
      subst hj30
      simp [dmin]
  top := by
    funext k
    rw [T_Pp_apply]
    show _ = A32 31 * (s32 seed 0) (k + 1)
    simp only [s32, A32, ref32_step, twist32_testBit]
    rw [bz_cancel, bz_and, mul_comm]
    simp [bz]

theorem tb_hi32 (x : UInt32) (i : Nat) (h : 32 ≤ i) : x.toNat.testBit i = false :=
  Nat.testBit_lt_two_pow (Nat.lt_of_lt_of_le x.toNat_lt (Nat.pow_le_pow_right (by decide) h))

/-- the top bit of the tempered output is the XOR of bits 31, 24, 16, 27 of the state word -/
theorem temper32_top (x : UInt32) :
    (temper32 x).toNat.testBit 31 = (((x.toNat.testBit 31 ^^ x.toNat.testBit 24) ^^ x.toNat.testBit 16) ^^ x.toNat.testBit 27) := by
  unfold temper32
  simp only [UInt32.toNat_xor, Nat.testBit_xor, UInt32.toNat_shiftRight, Nat.testBit_shiftRight, UInt32.toNat_and, Nat.testBit_and,
    UInt32.toNat_shiftLeft, Nat.testBit_mod_two_pow, Nat.testBit_shiftLeft]
  have e1 : Nat.testBit 2636928640 31 = true := by decide
  have e2 : Nat.testBit 4022730752 31 = true := by decide
  have e3 : Nat.testBit 2636928640 16 = false := by decide
  simp [tb_hi32, e1, e2, e3]

theorem lt_of_top_clear (x h : Nat) (hx : x < 2 * h) (hb : (x / h) % 2 ≠ 1) (hh : 0 < h) : x < h := by
  have h2 : x / h < 2 := (Nat.div_lt_iff_lt_mul hh).mpr hx
  have h0 : x / h = 0 := by
    generalize x / h = q at h2 hb
    omega
  exact (Nat.div_eq_zero_iff_lt hh).mp h0

/-- the polynomial of the window argument for a `w`-bit twister -/
noncomputable def psi (N M : Nat) (A : Nat → ZMod 2) (W : Nat) : (ZMod 2)[X] := X ^ 30 * R N M A dmin (W + 1)

theorem psi_natDegree (N M : Nat) (A : Nat → ZMod 2) (W : Nat) (hM : M ≤ N) (hN : 1 ≤ N) :
    (psi N M A W).natDegree ≤ 30 + N * (W + 1) := by
  unfold psi
  refine natDegree_mul_le.trans ?_
  have := R_natDegree N M A dmin hM hN (by intro j; unfold dmin; omega) (W + 1)
  simp only [natDegree_X_pow]
  omega

theorem psi_eval_one (N M : Nat) (A : Nat → ZMod 2) (W : Nat) : (psi N M A W).eval 1 = A W := by
  simp [psi, R_eval_one]

/-- the top output bit of MT19937, as a `ZMod 2` sequence over the reference word sequence -/
def b32 (seed : UInt32) : Sq := s32 seed 31 + s32 seed 24 + s32 seed 16 + s32 seed 27

theorem b32_eq (seed : UInt32) (k : Nat) : b32 seed k = bz ((temper32 (ref P32 seed k)).toNat.testBit 31) := by
  rw [temper32_top, bz_xor, bz_xor, bz_xor]
  rfl

theorem b32_annihilated (seed : UInt32) : T (psi 624 397 A32 31) (b32 seed) = 0 := by
  have h := bits32 seed
  have d : ∀ j, dmin j ≤ 30 := by intro j; unfold dmin; omega
  unfold b32 psi
  rw [map_add, map_add, map_add, h.annihilated 31 (by omega) 30 (d _), h.annihilated 24 (by omega) 30 (d _),
    h.annihilated 16 (by omega) 30 (d _), h.annihilated 27 (by omega) 30 (d _)]
  simp

/-- **MT19937, every seed, every stream position**: among any 19999 consecutive words of the reference sequence one has a
    tempered image below `2^31` -/
theorem mt32_top_clear_within (seed : UInt32) (k : Nat) :
    ∃ i, i ≤ 19998 ∧ (temper32 (ref P32 seed (k + i))).toNat < 2 ^ 31 := by
  have h1 : (psi 624 397 A32 31).eval 1 = 1 := by rw [psi_eval_one]; decide
  obtain ⟨i, hi, h0⟩ := window _ (b32 seed) (b32_annihilated seed) h1 19998
    ((psi_natDegree 624 397 A32 31 (by omega) (by omega)).trans (by norm_num)) k
  refine ⟨i, hi, ?_⟩
  rw [b32_eq] at h0
  have hb := bz_false_of_zero _ h0
  rw [Nat.testBit_eq_decide_div_mod_eq] at hb
  have hb' : (temper32 (ref P32 seed (k + i))).toNat / 2 ^ 31 % 2 ≠ 1 := by simpa using hb
  exact lt_of_top_clear _ (2 ^ 31) (by have := (temper32 (ref P32 seed (k + i))).toNat_lt; omega) hb' (by decide)

/-! ## from the word sequence to `esl_rnd_Roll` on a generator state -/
theorem Rng.roll_of_accept (n : Nat) (seed : UInt32) (i : Nat) : ∀ (r : Rng) (k : Nat), r.kind = .mersenne → Inv P32 seed r.st k →
    (∃ v, rollWord n (temper32 (ref P32 seed (624 + k + i))).toNat = some v) →
    ∀ fuel, i < fuel → ∃ v r', r.roll n fuel = some (v, r') := by
  induction i with
  | zero =>
    intro r k hk hinv ⟨v, hv⟩ fuel hf
    obtain ⟨f, rfl⟩ : ∃ f, fuel = f + 1 := ⟨fuel - 1, by omega⟩
    obtain ⟨h1, _⟩ := next_spec P32 seed r.st k hinv
    have hn : r.next = ((MTP.next P32 r.st).1, { r with st := (MTP.next P32 r.st).2 }) := by simp [Rng.next, hk]
    simp only [Rng.roll, hn, h1]
    have e : P32.N + k = 624 + k + 0 := rfl
    have hv' : rollWord n (P32.temper (ref P32 seed (624 + k + 0))).toNat = some v := hv
    rw [e, hv']
    exact ⟨_, _, rfl⟩
  | succ i ih =>
    intro r k hk hinv hacc fuel hf
    obtain ⟨f, rfl⟩ : ∃ f, fuel = f + 1 := ⟨fuel - 1, by omega⟩
    obtain ⟨h1, h2⟩ := next_spec P32 seed r.st k hinv
    have hn : r.next = ((MTP.next P32 r.st).1, { r with st := (MTP.next P32 r.st).2 }) := by simp [Rng.next, hk]
    simp only [Rng.roll, hn]
    cases hw : rollWord n (MTP.next P32 r.st).1.toNat with
    | some v => exact ⟨_, _, rfl⟩
    | none =>
      simp only []
      apply ih { r with st := (MTP.next P32 r.st).2 } (k + 1) hk h2 _ f (by omega)
      have e : 624 + (k + 1) + i = 624 + k + (i + 1) := by omega
      rw [e]; exact hacc

/-- a generator state is *on the stream of `seed` at position `k`*: Mersenne kind, table = a block of the reference sequence -/
def Rng.OnStream (r : Rng) (seed : UInt32) (k : Nat) : Prop := r.kind = .mersenne ∧ Inv P32 seed r.st k

theorem Rng.onStream_initWith (r : Rng) (hk : r.kind = .mersenne) (seed : UInt32) : (r.initWith seed).OnStream seed 0 := by
  unfold Rng.initWith
  simp only [hk]
  exact ⟨rfl, init_inv P32 seed⟩

theorem Rng.onStream_next (r : Rng) (seed : UInt32) (k : Nat) (h : r.OnStream seed k) : (r.next).2.OnStream seed (k + 1) := by
  obtain ⟨hk, hinv⟩ := h
  have hn : r.next = ((MTP.next P32 r.st).1, { r with st := (MTP.next P32 r.st).2 }) := by simp [Rng.next, hk]
  rw [hn]
  exact ⟨hk, (next_spec P32 seed r.st k hinv).2⟩

theorem Rng.onStream_draws (r : Rng) (seed : UInt32) (k : Nat) (h : r.OnStream seed k) (m : Nat) :
    (r.draws m).2.OnStream seed (k + m) := by
  induction m generalizing r k with
  | zero => exact h
  | succ m ih =>
    simp only [Rng.draws]
    have := ih _ (k + 1) (Rng.onStream_next r seed k h)
    have e : k + (m + 1) = k + 1 + m := by omega
    rw [e]; exact this

theorem Rng.roll_terminates_onStream (r : Rng) (seed : UInt32) (k : Nat) (h : r.OnStream seed k) (n : Nat) (hn : 0 < n)
    (hn' : n < 2 ^ 32) (fuel : Nat) (hf : 19999 ≤ fuel) : ∃ v r', r.roll n fuel = some (v, r') := by
  obtain ⟨i, hi, hlt⟩ := mt32_top_clear_within seed (624 + k)
  exact Rng.roll_of_accept n seed i r k h.1 h.2 (rollWord_small n _ hn hn' hlt) fuel (by omega)

/-! ## MT19937-64, bit by bit -/
theorem y64_testBit (a b : UInt64) (i : Nat) :
    ((a &&& (0xFFFFFFFF80000000 : UInt64)) ||| (b &&& (0x7FFFFFFF : UInt64))).toNat.testBit i
      = ((a.toNat.testBit i && (decide (31 ≤ i) && decide (i - 31 < 33))) || (b.toNat.testBit i && decide (i < 31))) := by
  simp only [UInt64.toNat_or, UInt64.toNat_and, Nat.testBit_or, Nat.testBit_and]
  have h1 : (0xFFFFFFFF80000000 : UInt64).toNat = (2 ^ 33 - 1) <<< 31 := by decide
  have h2 : (0x7FFFFFFF : UInt64).toNat = 2 ^ 31 - 1 := by decide
  rw [h1, h2, Nat.testBit_shiftLeft, Nat.testBit_two_pow_sub_one, Nat.testBit_two_pow_sub_one]

theorem y64_testBit0 (a b : UInt64) :
    ((a &&& (0xFFFFFFFF80000000 : UInt64)) ||| (b &&& (0x7FFFFFFF : UInt64))).toNat.testBit 0 = b.toNat.testBit 0 := by
  rw [y64_testBit]; simp

theorem and_one_eq_zero64 (y : UInt64) : (y &&& 1 = 0) ↔ y.toNat.testBit 0 = false := by
  rw [← UInt64.toNat_inj]
  simp only [UInt64.toNat_and]
  have : (1 : UInt64).toNat = 1 := by decide
  rw [this, Nat.and_one_is_mod, Nat.testBit_zero]
  simp

theorem twist64_testBit (a b c : UInt64) (j : Nat) :
    (twist64 a b c).toNat.testBit j
      = ((c.toNat.testBit j ^^ ((a.toNat.testBit (j+1) && (decide (31 ≤ j+1) && decide (j+1 - 31 < 33)))
                                  || (b.toNat.testBit (j+1) && decide (j+1 < 31))))
          ^^ (b.toNat.testBit 0 && (0xB5026F5AA96619E9 : Nat).testBit j)) := by
  unfold twist64
  simp only []
  split
  · rename_i h
    rw [and_one_eq_zero64, y64_testBit0] at h
    simp only [UInt64.toNat_xor, Nat.testBit_xor, UInt64.toNat_shiftRight, Nat.testBit_shiftRight, y64_testBit, h]
    simp [Nat.add_comm 1 j]
  · rename_i h
    rw [and_one_eq_zero64, y64_testBit0] at h
    have h' : b.toNat.testBit 0 = true := by simpa using h
    simp only [UInt64.toNat_xor, Nat.testBit_xor, UInt64.toNat_shiftRight, Nat.testBit_shiftRight, y64_testBit, h']
    simp [Nat.add_comm 1 j]

theorem ref64_step (seed : UInt64) (k : Nat) :
    ref P64 seed (k + 312) = twist64 (ref P64 seed k) (ref P64 seed (k + 1)) (ref P64 seed (k + 156)) := by
  unfold ref
  rw [spec.eq_1]
  have : ¬ (k + 312 < P64.N) := by show ¬ (k + 312 < 312); omega
  simp only [this, ↓reduceDIte]
  have e : k + 312 - P64.N = k := by show k + 312 - 312 = k; omega
  rw [e]
  rfl

def s64 (seed : UInt64) (j : Nat) : Sq := fun k => bz ((ref P64 seed k).toNat.testBit j)
def A64 (j : Nat) : ZMod 2 := bz ((0xB5026F5AA96619E9 : Nat).testBit j)

theorem tb_hi64 (x : UInt64) (i : Nat) (h : 64 ≤ i) : x.toNat.testBit i = false :=
  Nat.testBit_lt_two_pow (Nat.lt_of_lt_of_le x.toNat_lt (Nat.pow_le_pow_right (by decide) h))

theorem bits64 (seed : UInt64) : BitSystem 312 156 A64 dmin (s64 seed) 63 where
  d0 := rfl
  mono := by intro j; unfold dmin; omega
  rel := by
    intro j hj
    funext k
    rw [T_Pp_apply]
    show _ = ((E ^ (dmin (j + 1) - dmin j)) (s64 seed (j + 1))) k + A64 j * (s64 seed 0) (k + 1)
    rw [E_pow_apply]
    simp only [s64, A64, ref64_step, twist64_testBit]
    rw [bz_cancel, bz_and, mul_comm]
    congr 2
    by_cases h30 : j < 30
    · have : dmin (j + 1) - dmin j = 1 := by unfold dmin; omega
      rw [this]
      have h1 : ¬ (31 ≤ j + 1) := by omega
      have h2 : j + 1 < 31 := by omega
      simp [h1, h2]
    · have : dmin (j + 1) - dmin j = 0 := by unfold dmin; omega
      rw [this]
      have h1 : 31 ≤ j + 1 := by omega
      have h2 : ¬ (j + 1 < 31) := by omega
      have h3 : j - 30 < 33 := by omega
      simp [h1, h2, h3]
  top := by
    funext k
    rw [T_Pp_apply]
    show _ = A64 63 * (s64 seed 0) (k + 1)
    simp only [s64, A64, ref64_step, twist64_testBit]
    rw [bz_cancel, bz_and, mul_comm]
    simp [bz]

/-- the top bit of the tempered 64-bit output is the XOR of bits 63, 26, 55, 9 of the state word -/
theorem temper64_top (x : UInt64) :
    (temper64 x).toNat.testBit 63 = (((x.toNat.testBit 63 ^^ x.toNat.testBit 26) ^^ x.toNat.testBit 55) ^^ x.toNat.testBit 9) := by
  unfold temper64
  simp only [UInt64.toNat_xor, Nat.testBit_xor, UInt64.toNat_shiftRight, Nat.testBit_shiftRight, UInt64.toNat_and, Nat.testBit_and,
    UInt64.toNat_shiftLeft, Nat.testBit_mod_two_pow, Nat.testBit_shiftLeft]
  have e1 : Nat.testBit 8202884508482404352 63 = false := by decide
  have e2 : Nat.testBit 6148914691236517205 26 = true := by decide
  have e3 : Nat.testBit 6148914691236517205 9 = false := by decide
  have e4 : Nat.testBit 8202884508482404352 26 = true := by decide
  have e5 : Nat.testBit 18444473444759240704 63 = true := by decide
  simp [tb_hi64, e1, e2, e3, e4, e5]

def b64 (seed : UInt64) : Sq := s64 seed 63 + s64 seed 26 + s64 seed 55 + s64 seed 9

theorem b64_eq (seed : UInt64) (k : Nat) : b64 seed k = bz ((temper64 (ref P64 seed k)).toNat.testBit 63) := by
  rw [temper64_top, bz_xor, bz_xor, bz_xor]
  rfl

theorem b64_annihilated (seed : UInt64) : T (psi 312 156 A64 63) (b64 seed) = 0 := by
  have h := bits64 seed
  have d : ∀ j, dmin j ≤ 30 := by intro j; unfold dmin; omega
  unfold b64 psi
  rw [map_add, map_add, map_add, h.annihilated 63 (by omega) 30 (d _), h.annihilated 26 (by omega) 30 (d _),
    h.annihilated 55 (by omega) 30 (d _), h.annihilated 9 (by omega) 30 (d _)]
  simp

/-- **MT19937-64, every seed, every stream position**: among any 19999 consecutive words one has a tempered image below `2^63` -/
theorem mt64_top_clear_within (seed : UInt64) (k : Nat) :
    ∃ i, i ≤ 19998 ∧ (temper64 (ref P64 seed (k + i))).toNat < 2 ^ 63 := by
  have h1 : (psi 312 156 A64 63).eval 1 = 1 := by rw [psi_eval_one]; decide
  obtain ⟨i, hi, h0⟩ := window _ (b64 seed) (b64_annihilated seed) h1 19998
    ((psi_natDegree 312 156 A64 63 (by omega) (by omega)).trans (by norm_num)) k
  refine ⟨i, hi, ?_⟩
  rw [b64_eq] at h0
  have hb := bz_false_of_zero _ h0
  rw [Nat.testBit_eq_decide_div_mod_eq] at hb
  have hb' : (temper64 (ref P64 seed (k + i))).toNat / 2 ^ 63 % 2 ≠ 1 := by simpa using hb
  exact lt_of_top_clear _ (2 ^ 63) (by have := (temper64 (ref P64 seed (k + i))).toNat_lt; omega) hb' (by decide)

theorem Rng64.roll_of_accept (n : Nat) (seed : UInt64) (i : Nat) : ∀ (r : Rng64) (k : Nat), Inv P64 seed r.st k →
    (∃ v, rollWord64 n (temper64 (ref P64 seed (312 + k + i))).toNat = some v) →
    ∀ fuel, i < fuel → ∃ v r', r.roll n fuel = some (v, r') := by
  induction i with
  | zero =>
    intro r k hinv ⟨v, hv⟩ fuel hf
    obtain ⟨f, rfl⟩ : ∃ f, fuel = f + 1 := ⟨fuel - 1, by omega⟩
    obtain ⟨h1, _⟩ := next_spec P64 seed r.st k hinv
    simp only [Rng64.roll, Rng64.next, h1]
    have e : P64.N + k = 312 + k + 0 := rfl
    have hv' : rollWord64 n (P64.temper (ref P64 seed (312 + k + 0))).toNat = some v := hv
    rw [e, hv']
    exact ⟨_, _, rfl⟩
  | succ i ih =>
    intro r k hinv hacc fuel hf
    obtain ⟨f, rfl⟩ : ∃ f, fuel = f + 1 := ⟨fuel - 1, by omega⟩
    obtain ⟨h1, h2⟩ := next_spec P64 seed r.st k hinv
    simp only [Rng64.roll, Rng64.next]
    cases hw : rollWord64 n (MTP.next P64 r.st).1.toNat with
    | some v => exact ⟨_, _, rfl⟩
    | none =>
      simp only []
      apply ih { r with st := (MTP.next P64 r.st).2 } (k + 1) h2 _ f (by omega)
      have e : 312 + (k + 1) + i = 312 + k + (i + 1) := by omega
      rw [e]; exact hacc

def Rng64.OnStream (r : Rng64) (seed : UInt64) (k : Nat) : Prop := Inv P64 seed r.st k

theorem Rng64.onStream_create (seed : UInt64) : (Rng64.create seed).OnStream seed 0 := init_inv P64 seed

theorem Rng64.onStream_next (r : Rng64) (seed : UInt64) (k : Nat) (h : r.OnStream seed k) : (r.next).2.OnStream seed (k + 1) :=
  (next_spec P64 seed r.st k h).2

theorem Rng64.onStream_draws (r : Rng64) (seed : UInt64) (k : Nat) (h : r.OnStream seed k) (m : Nat) :
    (r.draws m).2.OnStream seed (k + m) := by
  induction m generalizing r k with
  | zero => exact h
  | succ m ih =>
    simp only [Rng64.draws]
    have := ih _ (k + 1) (Rng64.onStream_next r seed k h)
    have e : k + (m + 1) = k + 1 + m := by omega
    rw [e]; exact this

theorem Rng64.roll_terminates_onStream (r : Rng64) (seed : UInt64) (k : Nat) (h : r.OnStream seed k) (n : Nat) (hn : 0 < n)
    (hn' : n < 2 ^ 64) (fuel : Nat) (hf : 19999 ≤ fuel) : ∃ v r', r.roll n fuel = some (v, r') := by
  obtain ⟨i, hi, hlt⟩ := mt64_top_clear_within seed (312 + k)
  exact Rng64.roll_of_accept n seed i r k h (rollWord64_small n _ hn hn' hlt) fuel (by omega)

/-- a roll leaves the generator on the stream of its seed, further on (so every later draw is covered too) -/
theorem Rng.onStream_roll (seed : UInt32) (n fuel : Nat) : ∀ (r : Rng) (k v : Nat) (r' : Rng), r.OnStream seed k →
    r.roll n fuel = some (v, r') → ∃ k', k < k' ∧ k' ≤ k + fuel ∧ r'.OnStream seed k' := by
  induction fuel with
  | zero => intro r k v r' _ h; simp [Rng.roll] at h
  | succ f ih =>
    intro r k v r' hs h
    have hs' := Rng.onStream_next r seed k hs
    simp only [Rng.roll] at h
    split at h
    · cases h; exact ⟨k + 1, by omega, by omega, hs'⟩
    · obtain ⟨k', h1, h2, h3⟩ := ih _ (k + 1) v r' hs' h
      exact ⟨k', by omega, by omega, h3⟩

theorem Rng64.onStream_roll (seed : UInt64) (n fuel : Nat) : ∀ (r : Rng64) (k v : Nat) (r' : Rng64), r.OnStream seed k →
    r.roll n fuel = some (v, r') → ∃ k', k < k' ∧ k' ≤ k + fuel ∧ r'.OnStream seed k' := by
  induction fuel with
  | zero => intro r k v r' _ h; simp [Rng64.roll] at h
  | succ f ih =>
    intro r k v r' hs h
    have hs' := Rng64.onStream_next r seed k hs
    simp only [Rng64.roll] at h
    split at h
    · cases h; exact ⟨k + 1, by omega, by omega, hs'⟩
    · obtain ⟨k', h1, h2, h3⟩ := ih _ (k + 1) v r' hs' h
      exact ⟨k', by omega, by omega, h3⟩

/-- `esl_rnd_Deal` (a sequence of `esl_random` draws) leaves the generator on the stream of its seed -/
theorem Rng.onStream_dealLoop (seed : UInt32) (n m fuel : Nat) : ∀ (j i : Nat) (r : Rng) (acc : List Nat) (k : Nat), r.OnStream seed k →
    ∃ k', k ≤ k' ∧ (dealLoop n m j i r acc fuel).2.OnStream seed k' := by
  induction fuel with
  | zero => intro j i r acc k h; exact ⟨k, Nat.le_refl _, h⟩
  | succ f ih =>
    intro j i r acc k h
    simp only [dealLoop]
    split
    · have hr : r.randomNum = ((r.next).1.toNat, (r.next).2) := rfl
      have hs' := Rng.onStream_next r seed k h
      simp only [hr]
      split
      · obtain ⟨k', h1, h2⟩ := ih (j + 1) (i + 1) _ (j :: acc) (k + 1) hs'
        exact ⟨k', by omega, h2⟩
      · obtain ⟨k', h1, h2⟩ := ih (j + 1) i _ acc (k + 1) hs'
        exact ⟨k', by omega, h2⟩
    · exact ⟨k, Nat.le_refl _, h⟩

theorem Rng.onStream_deal (seed : UInt32) (r : Rng) (k : Nat) (h : r.OnStream seed k) (m n : Nat) :
    ∃ k', k ≤ k' ∧ (r.deal m n).2.OnStream seed k' := Rng.onStream_dealLoop seed n m (n + 1) 0 0 r [] k h

theorem Rng64.roll_lt (n fuel : Nat) : ∀ (r : Rng64) (v : Nat) (r' : Rng64), r.roll n fuel = some (v, r') → v < n := by
  induction fuel with
  | zero => intro r v r' h; simp [Rng64.roll] at h
  | succ f ih =>
    intro r v r' h
    simp only [Rng64.roll] at h
    split at h
    · rename_i v' hv'
      cases h
      unfold rollWord64 at hv'
      simp only at hv'
      split at hv'
      · cases hv'; assumption
      · cases hv'
    · exact ih _ v r' h

end EaselModel.Random
