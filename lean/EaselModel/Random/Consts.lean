import EaselModel.Random.Model
import EaselModel.Generated.RandTables
/-! # The hand model's generator constants ARE the values regenerated from the working tree (C09)

`Generated/RandTables.lean` holds the constants that `translate/rand_tables.py` derives on every run by probing the compiled
`mersenne_twister / mersenne_fill_table / mersenne_seed_table / knuth / esl_rand64 / mt64_fill_table / mt64_seed_table` of the
working tree.  Here: the model's `P32`, `twist32`, `temper32`, `P64`, `twist64`, `temper64`, `Rng.next` (LCG) are the MT / LCG
with exactly those values — so a constant changed in the C source (however it is spelled there) makes this file fail to check,
and no constant of the model is taken on trust from the model source. -/
namespace EaselModel.Random
open EaselModel.MTP EaselModel.Generated.RandTables

/-- the MT twist `mt[z+M] ^ (y >> 1) ^ mag01[y & 1]`, `y = (mt[z] & UM) | (mt[z+1] & LM)`, with explicit constants -/
def twistOf32 (A UM LM : UInt32) (a b c : UInt32) : UInt32 :=
  let y := (a &&& UM) ||| (b &&& LM)
  c ^^^ (y >>> 1) ^^^ (if y &&& 1 = 0 then 0 else A)

def twistOf64 (A UM LM : UInt64) (a b c : UInt64) : UInt64 :=
  let y := (a &&& UM) ||| (b &&& LM)
  c ^^^ (y >>> 1) ^^^ (if y &&& 1 = 0 then 0 else A)

def c32 (i : Nat) : Nat := mt32Consts.getD i 0
def c64 (i : Nat) : Nat := mt64Consts.getD i 0

/-- MT19937 of the model = MT with the regenerated `N, M, A, UM, LM`, seeding multiplier, and tempering (given by its images of
    the 32 basis words; the prober checks that the C tempering is XOR-linear) -/
theorem model_uses_generated32 :
    P32.N = c32 0 ∧ P32.M = c32 1 ∧
    (∀ a b c, twist32 a b c = twistOf32 (UInt32.ofNat (c32 2)) (UInt32.ofNat (c32 3)) (UInt32.ofNat (c32 4)) a b c) ∧
    (∀ z x, P32.seedf z x = UInt32.ofNat (c32 5) * x) ∧
    (List.range 32).map (fun i => (temper32 ((1 : UInt32) <<< UInt32.ofNat i)).toNat) = mt32TemperBasis ∧
    mt32Consts.length = 6 :=
  ⟨rfl, rfl, fun _ _ _ => rfl, fun _ _ => rfl, by decide, rfl⟩

theorem model_uses_generated64 :
    P64.N = c64 0 ∧ P64.M = c64 1 ∧
    (∀ a b c, twist64 a b c = twistOf64 (UInt64.ofNat (c64 2)) (UInt64.ofNat (c64 3)) (UInt64.ofNat (c64 4)) a b c) ∧
    (∀ z x, P64.seedf z x = UInt64.ofNat (c64 5) * (x ^^^ (x >>> UInt64.ofNat (c64 6))) + UInt64.ofNat (z + 1)) ∧
    (List.range 64).map (fun i => (temper64 ((1 : UInt64) <<< UInt64.ofNat i)).toNat) = mt64TemperBasis ∧
    mt64Consts.length = 7 :=
  ⟨rfl, rfl, fun _ _ _ => rfl, fun _ _ => rfl, by decide, rfl⟩

/-- the legacy generator of the model = the LCG with the regenerated `a, c` -/
theorem model_uses_generated_lcg (r : Rng) (h : r.kind = .fast) :
    (r.next).1 = r.x * UInt32.ofNat (lcgConsts.getD 0 0) + UInt32.ofNat (lcgConsts.getD 1 0) ∧ lcgConsts.length = 2 := by
  refine ⟨?_, rfl⟩
  simp only [Rng.next, h]
  rfl

end EaselModel.Random
