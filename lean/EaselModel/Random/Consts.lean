import EaselModel.Random.Model
import EaselModel.Generated.RandTables
/-! # The hand model's generator constants ARE the values regenerated from the working tree (C09)

`Generated/RandTables.lean` holds the constants that `translate/rand_tables.py` derives on every run by probing the compiled
`mersenne_twister / mersenne_fill_table / mersenne_seed_table / knuth / esl_rand64 / mt64_fill_table / mt64_seed_table` of the
working tree.  Here: the model's `P32`, `twist32`, `temper32`, `P64`, `twist64`, `temper64`, `Rng.next` (LCG) are the MT / LCG
with exactly those values — so a constant changed in the C source (however it is spelled there) makes this file fail to check,
and no constant of the model is taken on trust from the model source. -/
namespace EaselModel.Random
open EaselModel.MTP EaselModel.Generated.RandTables

/-- the MT twist `mt[z+M] ^ (y >> 1) ^ mag01[y & 1]`, `y = (mt[z] & UM) | (mt[z+1] & LM)`, with explicit constants -/
def twistOf32 (A UM LM : UInt32) (a b c : UInt32) : UInt32 :=
  let y := (a &&& UM) ||| (b &&& LM)
  c ^^^ (y >>> 1) ^^^ (if y &&& 1 = 0 then 0 else A)

def twistOf64 (A UM LM : UInt64) (a b c : UInt64) : UInt64 :=
  let y := (a &&& UM) ||| (b &&& LM)
  c ^^^ (y >>> 1) ^^^ (if y &&& 1 = 0 then 0 else A)

def c32 (i : Nat) : Nat := mt32Consts.getD i 0
def c64 (i : Nat) : Nat := mt64Consts.getD i 0

/-- MT19937 of the model = MT with the regenerated `N, M, A, UM, LM`, seeding multiplier, and tempering (given by its images of
    the 32 basis words; the prober checks that the C tempering is XOR-linear) -/
theorem model_uses_generated32 :
    P32.N = c32 0 ∧ P32.M = c32 1 ∧
    (∀ a b c, twist32 a b c = twistOf32 (UInt32.ofNat (c32 2)) (UInt32.ofNat (c32 3)) (UInt32.ofNat (c32 4)) a b c) ∧
    (∀ z x, P32.seedf z x = UInt32.ofNat (c32 5) * x) ∧
    (List.range 32).map (fun i => (temper32 ((1 : UInt32) <<< UInt32.ofNat i)).toNat) = mt32TemperBasis ∧
    mt32Consts.length = 6 :=
  ⟨rfl, rfl, fun _ _ _ => rfl, fun _ _ => rfl, by decide, rfl⟩

theorem model_uses_generated64 :
    P64.N = c64 0 ∧ P64.M = c64 1 ∧
    (∀ a b c, twist64 a b c = twistOf64 (UInt64.ofNat (c64 2)) (UInt64.ofNat (c64 3)) (UInt64.ofNat (c64 4)) a b c) ∧
    (∀ z x, P64.seedf z x = UInt64.ofNat (c64 5) * (x ^^^ (x >>> UInt64.ofNat (c64 6))) + UInt64.ofNat (z + 1)) ∧
    (List.range 64).map (fun i => (temper64 ((1 : UInt64) <<< UInt64.ofNat i)).toNat) = mt64TemperBasis ∧
    mt64Consts.length = 7 :=
  ⟨rfl, rfl, fun _ _ _ => rfl, fun _ _ => rfl, by decide, rfl⟩

/-- the legacy generator of the model = the LCG with the regenerated `a, c` -/
theorem model_uses_generated_lcg (r : Rng) (h : r.kind = .fast) :
    (r.next).1 = r.x * UInt32.ofNat (lcgConsts.getD 0 0) + UInt32.ofNat (lcgConsts.getD 1 0) ∧ lcgConsts.length = 2 := by
  refine ⟨?_, rfl⟩
  simp only [Rng.next, h]
  rfl

/-! ## Tempering is XOR-linear (so its images of the basis words `1 <<< i` determine it: every word is the XOR of its bits) -/
theorem bv_and_xor {w : Nat} (a b m : BitVec w) : (a ^^^ b) &&& m = (a &&& m) ^^^ (b &&& m) := by
  ext i hi
  simp only [BitVec.getElem_and, BitVec.getElem_xor]
  cases a[i] <;> cases b[i] <;> cases m[i] <;> rfl
theorem and_xor32 (a b m : UInt32) : (a ^^^ b) &&& m = (a &&& m) ^^^ (b &&& m) := by
  apply UInt32.eq_of_toBitVec_eq
  simp [bv_and_xor]
theorem and_xor64 (a b m : UInt64) : (a ^^^ b) &&& m = (a &&& m) ^^^ (b &&& m) := by
  apply UInt64.eq_of_toBitVec_eq
  simp [bv_and_xor]
theorem xor4_32 (a b c d : UInt32) : (a ^^^ b) ^^^ (c ^^^ d) = (a ^^^ c) ^^^ (b ^^^ d) := by ac_rfl
theorem xor4_64 (a b c d : UInt64) : (a ^^^ b) ^^^ (c ^^^ d) = (a ^^^ c) ^^^ (b ^^^ d) := by ac_rfl

/-- a tempering stage `x ↦ x ^ ((x >> k) & m)` / `x ↦ x ^ ((x << k) & m)` is XOR-linear -/
def stR32 (k m : UInt32) (x : UInt32) : UInt32 := x ^^^ ((x >>> k) &&& m)
def stL32 (k m : UInt32) (x : UInt32) : UInt32 := x ^^^ ((x <<< k) &&& m)
theorem stR32_xor (k m a b : UInt32) : stR32 k m (a ^^^ b) = stR32 k m a ^^^ stR32 k m b := by
  simp only [stR32, UInt32.shiftRight_xor, and_xor32]; exact xor4_32 _ _ _ _
theorem stL32_xor (k m a b : UInt32) : stL32 k m (a ^^^ b) = stL32 k m a ^^^ stL32 k m b := by
  simp only [stL32, UInt32.shiftLeft_xor, and_xor32]; exact xor4_32 _ _ _ _
theorem temper32_stages (x : UInt32) :
    temper32 x = stR32 18 0xffffffff (stL32 15 0xefc60000 (stL32 7 0x9d2c5680 (stR32 11 0xffffffff x))) := by
  have h : ∀ y : UInt32, y &&& 0xffffffff = y := by
    intro y; apply UInt32.eq_of_toBitVec_eq; show y.toBitVec &&& BitVec.allOnes 32 = y.toBitVec; exact BitVec.and_allOnes
  simp only [temper32, stR32, stL32, h]
theorem temper32_xor (a b : UInt32) : temper32 (a ^^^ b) = temper32 a ^^^ temper32 b := by
  simp only [temper32_stages, stR32_xor, stL32_xor]

def stR64 (k m : UInt64) (x : UInt64) : UInt64 := x ^^^ ((x >>> k) &&& m)
def stL64 (k m : UInt64) (x : UInt64) : UInt64 := x ^^^ ((x <<< k) &&& m)
theorem stR64_xor (k m a b : UInt64) : stR64 k m (a ^^^ b) = stR64 k m a ^^^ stR64 k m b := by
  simp only [stR64, UInt64.shiftRight_xor, and_xor64]; exact xor4_64 _ _ _ _
theorem stL64_xor (k m a b : UInt64) : stL64 k m (a ^^^ b) = stL64 k m a ^^^ stL64 k m b := by
  simp only [stL64, UInt64.shiftLeft_xor, and_xor64]; exact xor4_64 _ _ _ _
theorem temper64_stages (x : UInt64) :
    temper64 x = stR64 43 0xffffffffffffffff (stL64 37 0xFFF7EEE000000000 (stL64 17 0x71D67FFFEDA60000 (stR64 29 0x5555555555555555 x))) := by
  have h : ∀ y : UInt64, y &&& 0xffffffffffffffff = y := by
    intro y; apply UInt64.eq_of_toBitVec_eq; show y.toBitVec &&& BitVec.allOnes 64 = y.toBitVec; exact BitVec.and_allOnes
  simp only [temper64, stR64, stL64, h]
theorem temper64_xor (a b : UInt64) : temper64 (a ^^^ b) = temper64 a ^^^ temper64 b := by
  simp only [temper64_stages, stR64_xor, stL64_xor]

theorem temper32_zero : temper32 0 = 0 := by decide
theorem temper64_zero : temper64 0 = 0 := by decide

end EaselModel.Random
