import EaselModel.Random.Samplers
import Mathlib.Analysis.SpecialFunctions.Log.Basic
import Mathlib.Analysis.SpecialFunctions.Pow.Real
import Mathlib.Algebra.Order.Floor.Ring
import Mathlib.Algebra.BigOperators.Group.List.Basic
import Mathlib.Tactic.Linarith
import Mathlib.Tactic.Positivity
import Mathlib.Tactic.NormNum
/-! # Support theorems for the samplers of esl_random.c over `ℝ` (C09)

`ℝ` instance of `SOps` with the real `exp`, `log`, `sqrt`, `tan`, `rpow`; `eslCONST_PI`, `eslCONST_E` are the decimal
literals of easel.h (rational numbers).  Theorems: `esl_rnd_UniformPositive ∈ (0,1)`; `esl_rnd_Gamma(a) > 0` for `a > 0`
in every regime, given the accept tests the loops perform; `esl_rnd_Dirichlet`: every component `> 0`, sum `= 1`. -/
namespace EaselModel.Random
open SOps

noncomputable instance realSOps : SOps ℝ where
  ofNat n := (n : ℝ)
  add := (· + ·)
  sub := (· - ·)
  mul := (· * ·)
  div := (· / ·)
  neg := fun x => -x
  lt := fun a b => decide (a < b)
  le := fun a b => decide (a ≤ b)
  beq := fun a b => decide (a = b)
  floor := fun x => ((⌊x⌋ : ℤ) : ℝ)
  toNat := fun x => ⌊x⌋₊
  exp := Real.exp
  log := Real.log
  sqrt := Real.sqrt
  tan := Real.tan
  pow := fun x y => x ^ y
  pi := 3.14159265358979323846264338328
  e := 2.71828182845904523536028747135

@[simp] theorem r_ofNat (n : ℕ) : (SOps.ofNat n : ℝ) = (n : ℝ) := rfl
@[simp] theorem r_add (a b : ℝ) : SOps.add a b = a + b := rfl
@[simp] theorem r_sub (a b : ℝ) : SOps.sub a b = a - b := rfl
@[simp] theorem r_mul (a b : ℝ) : SOps.mul a b = a * b := rfl
@[simp] theorem r_div (a b : ℝ) : SOps.div a b = a / b := rfl
@[simp] theorem r_neg (a : ℝ) : SOps.neg a = -a := rfl
@[simp] theorem r_lt (a b : ℝ) : (SOps.lt a b = true) ↔ a < b := by simp [SOps.lt]
@[simp] theorem r_le (a b : ℝ) : (SOps.le a b = true) ↔ a ≤ b := by simp [SOps.le]
@[simp] theorem r_beq (a b : ℝ) : (SOps.beq a b = true) ↔ a = b := by simp [SOps.beq]
@[simp] theorem r_floor (a : ℝ) : SOps.floor a = ((⌊a⌋ : ℤ) : ℝ) := rfl
@[simp] theorem r_toNat (a : ℝ) : SOps.toNat a = ⌊a⌋₊ := rfl
@[simp] theorem r_exp (a : ℝ) : SOps.exp a = Real.exp a := rfl
@[simp] theorem r_log (a : ℝ) : SOps.log a = Real.log a := rfl
@[simp] theorem r_pow (a b : ℝ) : SOps.pow a b = a ^ b := rfl
@[simp] theorem r_zero : (SOps.zero : ℝ) = 0 := by simp [SOps.zero]
@[simp] theorem r_one : (SOps.one : ℝ) = 1 := by simp [SOps.one]
@[simp] theorem r_two : (SOps.two : ℝ) = 2 := by simp [SOps.two]

variable {σ : Type}

theorem uni_unit (x : UInt32) : 0 ≤ (uni x : ℝ) ∧ (uni x : ℝ) < 1 := by
  have h : (x.toNat : ℝ) < 4294967296 := by exact_mod_cast UInt32.toNat_lt x
  simp only [uni, r_div, r_ofNat]
  constructor
  · positivity
  · rw [div_lt_one (by norm_num)]; exact_mod_cast h

theorem uni_pos (x : UInt32) (hx : x ≠ 0) : 0 < (uni x : ℝ) := by
  have h : 0 < x.toNat := by
    rcases Nat.eq_zero_or_pos x.toNat with h0 | h0
    · exact absurd (UInt32.toNat_inj.1 (by simpa using h0)) hx
    · exact h0
  simp only [uni, r_div, r_ofNat]
  have : (0:ℝ) < (x.toNat : ℝ) := by exact_mod_cast h
  positivity

/-- `esl_rnd_UniformPositive` lies in the open interval (0,1), for every source state and fuel -/
theorem uniPos_unit (next : σ → UInt32 × σ) (s : σ) (f : ℕ) (u : ℝ) (s' : σ)
    (h : uniPos next s f = .ok (u, s')) : 0 < u ∧ u < 1 := by
  induction f generalizing s with
  | zero => simp [uniPos] at h
  | succ f ih =>
    simp only [uniPos] at h
    split at h
    · exact ih _ h
    · rename_i hne
      simp only [SRes.ok.injEq, Prod.mk.injEq] at h
      rw [← h.1]
      exact ⟨uni_pos _ hne, (uni_unit _).2⟩

theorem SRes.bind_ok {α β : Type} {x : SRes α} {f : α → SRes β} {b : β} (h : x.bind f = .ok b) :
    ∃ a, x = .ok a ∧ f a = .ok b := by
  cases x with
  | ok a => exact ⟨a, rfl, h⟩
  | nofuel => cases h
  | fault => cases h

/-! ## Gamma -/
theorem gammaIntU_unit (next : σ → UInt32 × σ) (fu : ℕ) (a : ℕ) (U : ℝ) (s : σ) (U' : ℝ) (s' : σ)
    (hU : 0 < U) (hU1 : U ≤ 1) (h : gammaIntU next fu a U s = .ok (U', s')) :
    0 < U' ∧ U' ≤ 1 ∧ (1 ≤ a → U' < 1) := by
  induction a generalizing U s with
  | zero =>
    simp only [gammaIntU, SRes.ok.injEq, Prod.mk.injEq] at h
    rw [← h.1]; exact ⟨hU, hU1, fun h => absurd h (by omega)⟩
  | succ a ih =>
    simp only [gammaIntU] at h
    obtain ⟨⟨u, s1⟩, hu, hrest⟩ := SRes.bind_ok h
    obtain ⟨u0, u1⟩ := uniPos_unit next s fu u s1 hu
    have hlt : U * u < 1 := by nlinarith
    obtain ⟨p0, p1, _⟩ := ih (U * u) s1 (by positivity) hlt.le hrest
    refine ⟨p0, p1, fun _ => ?_⟩
    -- U' ≤ U*u < 1: products of numbers in (0,1] only decrease
    have : ∀ (b : ℕ) (V : ℝ) (t : σ) (V' : ℝ) (t' : σ), 0 < V → V ≤ 1 → gammaIntU next fu b V t = .ok (V', t') → V' ≤ V := by
      intro b
      induction b with
      | zero => intro V t V' t' _ _ hb; simp only [gammaIntU, SRes.ok.injEq, Prod.mk.injEq] at hb; rw [← hb.1]
      | succ b ihb =>
        intro V t V' t' hV hV1 hb
        simp only [gammaIntU] at hb
        obtain ⟨⟨v, t1⟩, hv, hrest'⟩ := SRes.bind_ok hb
        obtain ⟨v0, v1⟩ := uniPos_unit next t fu v t1 hv
        have := ihb (V * v) t1 V' t' (by positivity) (by nlinarith) hrest'
        nlinarith
    have := this a (U * u) s1 U' s' (by positivity) hlt.le hrest
    linarith

/-- `gamma_integer(a) > 0` for `a ≥ 1` -/
theorem gammaInteger_pos (next : σ → UInt32 × σ) (fu : ℕ) (a : ℕ) (ha : 1 ≤ a) (s : σ) (x : ℝ) (s' : σ)
    (h : gammaInteger next fu a s = .ok (x, s')) : 0 < x := by
  simp only [gammaInteger] at h
  obtain ⟨⟨U, s1⟩, hU, hrest⟩ := SRes.bind_ok h
  simp only [SRes.ok.injEq, Prod.mk.injEq] at hrest
  obtain ⟨p0, _, p1⟩ := gammaIntU_unit next fu a 1 s U s1 (by simp) (by simp) (by simpa using hU)
  rw [← hrest.1]
  simp only [r_neg, r_log]
  have := Real.log_neg p0 (p1 ha)
  linarith

theorem ahrensCand_pos (next : σ → UInt32 × σ) (a : ℝ) (s : σ) (f : ℕ) (Y X : ℝ) (s' : σ)
    (h : ahrensCand next a s f = .ok ((Y, X), s')) : 0 < X := by
  induction f generalizing s with
  | zero => simp [ahrensCand] at h
  | succ f ih =>
    simp only [ahrensCand] at h
    split at h
    · exact ih _ h
    · rename_i hle
      simp only [SRes.ok.injEq, Prod.mk.injEq] at h
      rw [← h.1.2]
      simpa using hle

/-- `gamma_ahrens` returns a positive value: the candidate loop's exit test is `X > 0` -/
theorem gammaAhrens_pos (next : σ → UInt32 × σ) (a : ℝ) (s : σ) (f : ℕ) (x : ℝ) (s' : σ)
    (h : gammaAhrens next a s f = .ok (x, s')) : 0 < x := by
  induction f generalizing s with
  | zero => simp [gammaAhrens] at h
  | succ f ih =>
    simp only [gammaAhrens] at h
    obtain ⟨⟨⟨Y, X⟩, s1⟩, hc, hrest⟩ := SRes.bind_ok h
    have hX := ahrensCand_pos next a s (f+1) Y X s1 hc
    simp only [] at hrest
    split at hrest
    · exact ih _ hrest
    · simp only [SRes.ok.injEq, Prod.mk.injEq] at hrest
      rw [← hrest.1]; exact hX

/-- `gamma_fraction(a) > 0` -/
theorem gammaFraction_pos (next : σ → UInt32 × σ) (fu : ℕ) (a : ℝ) (s : σ) (f : ℕ) (x : ℝ) (s' : σ)
    (h : gammaFraction next fu a s f = .ok (x, s')) : 0 < x := by
  induction f generalizing s with
  | zero => simp [gammaFraction] at h
  | succ f ih =>
    simp only [gammaFraction] at h
    obtain ⟨⟨V, s1⟩, hV, hrest⟩ := SRes.bind_ok h
    obtain ⟨v0, v1⟩ := uniPos_unit next _ fu V s1 hV
    simp only [] at hrest
    split at hrest
    · exact ih _ hrest
    · simp only [SRes.ok.injEq, Prod.mk.injEq] at hrest
      rw [← hrest.1]
      unfold fracXq
      split
      · simp only [r_pow]; exact Real.rpow_pos_of_pos v0 _
      · simp only [r_sub, r_one, r_log]
        have := Real.log_neg v0 v1
        linarith

/-- `esl_rnd_Gamma(a) > 0` for every `a > 0`, every source state, every fuel (when it returns) -/
theorem gamma_pos (next : σ → UInt32 × σ) (fu fuel : ℕ) (a : ℝ) (ha : 0 < a) (s : σ) (x : ℝ) (s' : σ)
    (h : gamma next fu fuel a s = .ok (x, s')) : 0 < x := by
  simp only [gamma] at h
  split at h
  · rename_i hint
    simp only [Bool.and_eq_true, r_beq, r_floor] at hint
    have h1 : 1 ≤ ⌊a⌋₊ := by
      have hz : (0:ℤ) < ⌊a⌋ := by
        have : (0:ℝ) < ((⌊a⌋ : ℤ) : ℝ) := by rw [← hint.1]; exact ha
        exact_mod_cast this
      have : (1:ℝ) ≤ a := by
        rw [hint.1]; exact_mod_cast (show (1:ℤ) ≤ ⌊a⌋ by omega)
      exact Nat.le_floor (by simpa using this)
    exact gammaInteger_pos next fu _ h1 s x s' h
  · split at h
    · exact gammaAhrens_pos next a s fuel x s' h
    · split at h
      · exact gammaFraction_pos next fu a s fuel x s' h
      · rename_i h3 h1
        obtain ⟨⟨g1, s1⟩, hg1, hrest⟩ := SRes.bind_ok h
        obtain ⟨⟨g2, s2⟩, hg2, hrest2⟩ := SRes.bind_ok hrest
        simp only [SRes.ok.injEq, Prod.mk.injEq] at hrest2
        have ha1 : (1:ℝ) ≤ a := by simpa using h1
        have hfl : 1 ≤ ⌊((⌊a⌋ : ℤ) : ℝ)⌋₊ := by
          apply Nat.le_floor
          have : (1:ℤ) ≤ ⌊a⌋ := Int.le_floor.2 (by simpa using ha1)
          simpa using (show ((1:ℤ):ℝ) ≤ ((⌊a⌋ : ℤ) : ℝ) by exact_mod_cast this)
        have p1 := gammaInteger_pos next fu _ hfl s g1 s1 (by simpa using hg1)
        have p2 := gammaFraction_pos next fu _ s1 fuel g2 s2 hg2
        rw [← hrest2.1]
        simp only [r_add]
        linarith

/-! ## Dirichlet -/
theorem dirichletDraw_spec (next : σ → UInt32 × σ) (fu fuel : ℕ) (alpha acc : List ℝ) (norm : ℝ) (s : σ)
    (hal : ∀ a ∈ alpha, 0 < a) (hacc : ∀ x ∈ acc, 0 < x) (hnorm : norm = acc.sum)
    (acc' : List ℝ) (norm' : ℝ) (s' : σ) (h : dirichletDraw next fu fuel alpha acc norm s = .ok ((acc', norm'), s')) :
    (∀ x ∈ acc', 0 < x) ∧ norm' = acc'.sum ∧ acc'.length = acc.length + alpha.length := by
  induction alpha generalizing acc norm s with
  | nil =>
    simp only [dirichletDraw, SRes.ok.injEq, Prod.mk.injEq] at h
    obtain ⟨⟨h1, h2⟩, _⟩ := h
    subst h1; subst h2
    exact ⟨hacc, hnorm, by simp⟩
  | cons al rest ih =>
    simp only [dirichletDraw] at h
    obtain ⟨⟨g, s1⟩, hg, hrest⟩ := SRes.bind_ok h
    have gp := gamma_pos next fu fuel al (hal al (by simp)) s g s1 hg
    obtain ⟨q1, q2, q3⟩ := ih (g :: acc) (norm + g) s1 (fun a ha => hal a (by simp [ha]))
      (fun x hx => by rcases List.mem_cons.1 hx with rfl | hx; exact gp; exact hacc x hx)
      (by simp [hnorm]; ring) hrest
    exact ⟨q1, q2, by simp at q3 ⊢; omega⟩

/-- `esl_rnd_Dirichlet`: for positive `alpha` (K ≥ 1), every component is `> 0`, there are `K` of them, and they sum to 1
    (exact arithmetic: before rounding) -/
theorem dirichlet_simplex (next : σ → UInt32 × σ) (fu fuel : ℕ) (alpha : List ℝ) (hK : alpha ≠ [])
    (hal : ∀ a ∈ alpha, 0 < a) (s : σ) (p : List ℝ) (s' : σ) (h : dirichlet next fu fuel alpha s = .ok (p, s')) :
    p.length = alpha.length ∧ (∀ x ∈ p, 0 < x) ∧ p.sum = 1 := by
  simp only [dirichlet] at h
  obtain ⟨⟨⟨acc, norm⟩, s1⟩, hd, hrest⟩ := SRes.bind_ok h
  obtain ⟨q1, q2, q3⟩ := dirichletDraw_spec next fu fuel alpha [] 0 s hal (by simp) (by simp) acc norm s1 (by simpa using hd)
  simp only [SRes.ok.injEq, Prod.mk.injEq] at hrest
  have hlen : 0 < acc.length := by
    rw [q3]; simp; exact List.length_pos_iff.2 hK
  have hnpos : 0 < norm := by
    rw [q2]
    obtain ⟨x, hx⟩ := List.exists_mem_of_length_pos hlen
    have : ∀ (l : List ℝ), (∀ y ∈ l, 0 < y) → l ≠ [] → 0 < l.sum := by
      intro l
      induction l with
      | nil => intro _ h; exact absurd rfl h
      | cons y l ihl =>
        intro hy _
        simp only [List.sum_cons]
        have y0 := hy y (by simp)
        rcases l with _ | ⟨z, l⟩
        · simpa using y0
        · have := ihl (fun w hw => hy w (by simp [hw])) (by simp)
          linarith
    exact this acc q1 (List.ne_nil_of_mem hx)
  rw [← hrest.1]
  refine ⟨by simp [q3], ?_, ?_⟩
  · intro x hx
    simp only [List.mem_map, List.mem_reverse, r_div] at hx
    obtain ⟨y, hy, rfl⟩ := hx
    exact div_pos (q1 y hy) hnpos
  · have : (List.map (fun x => SOps.div x norm) acc.reverse).sum = acc.reverse.sum / norm := by
      simp only [r_div, div_eq_mul_inv]
      rw [List.sum_map_mul_right]
      simp
    rw [this, List.sum_reverse, ← q2]
    exact div_self (ne_of_gt hnpos)

end EaselModel.Random
